package main

// C01 — the ClientHello on the wire is the hello the caller built and inspected.
//
// Family build_sm: a real UConn over a recording TCP-loopback conn. BuildHandshakeState, then a
// sequence of 0–8 documented edits (SetClientRandom, SetSNI, edits of uconn.Extensions,
// Hello.CipherSuites, Hello.SessionId, an extra BuildHandshakeState), then Handshake against a server
// that answers plainly / with a HelloRetryRequest / with a HelloRetryRequest carrying a cookie.
// The line carries the post-build state, the effective edit list, the HelloRetryRequest material
// (group, fresh share, cookie, insertion index — read back from the UConn), Hello.Raw after the first
// build / at the first Write of the handshake / after the handshake, and every ClientHello recorded
// on the wire. The Lean model must predict both hellos and the final Raw byte for byte.

import (
	"fmt"
	"strings"
	"time"

	tls "github.com/refraction-networking/utls"
)

// c01EditKinds: extension kinds an edit may put into the list (everything but padding, the session
// extensions, QUIC parameters and GREASE ECH).
var c01EditKinds = []int{0, 1, 2, 3, 4, 5, 6, 7, 8, 9, 10, 11, 12, 14, 15, 17, 18, 19, 20, 21, 22, 23, 24, 25}

func c01GenExt(r *Rng) string {
	k := Pick(r, c01EditKinds)
	d := genValidExt(r, k)
	if k == 0 {
		d = "sni|" + hx([]byte(hostOfLen(r, 1+r.Intn(30))))
	}
	return d
}

func c01GenOps(r *Rng, golang bool) string {
	n := Pick(r, []int{0, 1, 1, 2, 3, 4, 6, 8})
	var ops []string
	for i := 0; i < n; i++ {
		k := r.Intn(9)
		if golang {
			k = Pick(r, []int{0, 1, 6, 7, 8})
		}
		switch k {
		case 0:
			l := 32
			if r.Intn(10) == 0 {
				l = Pick(r, []int{0, 31, 33})
			}
			ops = append(ops, "R:"+hx(r.Bytes(l)))
		case 1:
			ops = append(ops, "N:"+hx([]byte(Pick(r, []string{hostOfLen(r, 1+r.Intn(40)), "example.golang", "verif.test", "a.verif.test", "1.2.3.4", "localhost.", ""}))))
		case 2:
			ops = append(ops, fmt.Sprintf("E:%d:%s", r.Intn(64), c01GenExt(r)))
		case 3: // modify the extension found there in place (same kind, other content)
			ops = append(ops, fmt.Sprintf("M:%d:%d", r.Intn(64), r.Intn(1<<20)))
		case 4:
			if r.Bool() {
				ops = append(ops, fmt.Sprintf("I:%d:%s", r.Intn(64), c01GenExt(r)))
			} else { // something a server ignores
				ops = append(ops, fmt.Sprintf("I:%d:%s", r.Intn(64), Pick(r, []string{"sct", "status_request", "npn", "record_size_limit|16385", "channel_id|0",
					fmt.Sprintf("generic|%d|%s", 0x7000+r.Intn(64), hx(r.Bytes(r.Intn(20)))), "delegated|1027,2052", "token_binding|1|0|2,0"})))
			}
		case 5:
			ops = append(ops, fmt.Sprintf("X:%d", r.Intn(64)))
		case 6:
			ops = append(ops, "C:"+genSuites(r))
		case 7:
			ops = append(ops, "S:"+hx(r.Bytes(Pick(r, []int{0, 1, 16, 32, 32, 32}))))
		default:
			ops = append(ops, "B")
		}
	}
	return joinSemi(ops)
}

func c01Protected(e tls.TLSExtension) bool {
	switch e.(type) {
	case *tls.UtlsPaddingExtension, tls.PreSharedKeyExtension, tls.ISessionTicketExtension, *tls.GREASEEncryptedClientHelloExtension, *tls.QUICTransportParametersExtension:
		return true
	}
	return false
}

// c01Apply applies one op to the connection; returns the effective op ("" = skipped).
func c01Apply(u *tls.UConn, op string) string {
	f := strings.SplitN(op, ":", 3)
	n := len(u.Extensions)
	switch f[0] {
	case "R":
		u.SetClientRandom(unhex(f[1]))
		return op
	case "N":
		u.SetSNI(string(unhex(f[1])))
		return op
	case "E":
		if n == 0 {
			return ""
		}
		var i int
		fmt.Sscanf(f[1], "%d", &i)
		i %= n
		if c01Protected(u.Extensions[i]) {
			return ""
		}
		u.Extensions[i] = buildExt(f[2])
		return fmt.Sprintf("E:%d:%s", i, f[2])
	case "M":
		if n == 0 {
			return ""
		}
		var i, rnd int
		fmt.Sscanf(f[1], "%d", &i)
		fmt.Sscanf(f[2], "%d", &rnd)
		i %= n
		if c01Protected(u.Extensions[i]) {
			return ""
		}
		var d string
		switch x := u.Extensions[i].(type) {
		case *tls.ALPNExtension:
			d = "alpn|" + hexList(bytesList(append(append([]string{}, x.AlpnProtocols...), fmt.Sprintf("x%d", rnd%100))))
		case *tls.SignatureAlgorithmsExtension:
			if len(x.SupportedSignatureAlgorithms) > 2 {
				d = "sigalgs|" + sigsStr(x.SupportedSignatureAlgorithms[:len(x.SupportedSignatureAlgorithms)-1])
			}
		case *tls.SupportedCurvesExtension:
			var xs []uint16
			for _, c := range x.Curves {
				xs = append(xs, uint16(c))
			}
			d = "curves|" + nats16(append(xs, uint16(30+rnd%3)))
		case *tls.SupportedPointsExtension:
			d = "points|0,1"
		case *tls.PSKKeyExchangeModesExtension:
			d = "psk_modes|1,0"
		case *tls.UtlsCompressCertExtension:
			d = "compress_cert|2,1"
		case *tls.ApplicationSettingsExtension:
			d = "alps|0|" + hexList(bytesList(append(append([]string{}, x.SupportedProtocols...), "h3")))
		case *tls.SNIExtension:
			d = "sni|" + hx([]byte(fmt.Sprintf("m%d.verif.test", rnd%1000)))
		case *tls.UtlsGREASEExtension:
			d = fmt.Sprintf("grease|%d|%s", x.Value, hx([]byte{byte(rnd), 0}))
		case *tls.KeyShareExtension, *tls.SupportedVersionsExtension:
			return ""
		}
		if d == "" {
			d = fmt.Sprintf("generic|%d|%s", 0x7100+rnd%64, hx([]byte{byte(rnd >> 8), byte(rnd)}))
		}
		u.Extensions[i] = buildExt(d)
		return fmt.Sprintf("E:%d:%s", i, d)
	case "I":
		var i int
		fmt.Sscanf(f[1], "%d", &i)
		i %= n + 1
		// keep a pre_shared_key extension last
		if n > 0 && i == n {
			if _, ok := u.Extensions[n-1].(tls.PreSharedKeyExtension); ok {
				i = n - 1
			}
		}
		ne := buildExt(f[2])
		exts := append([]tls.TLSExtension{}, u.Extensions[:i]...)
		exts = append(exts, ne)
		u.Extensions = append(exts, u.Extensions[i:]...)
		return fmt.Sprintf("I:%d:%s", i, f[2])
	case "X":
		if n == 0 {
			return ""
		}
		var i int
		fmt.Sscanf(f[1], "%d", &i)
		i %= n
		if c01Protected(u.Extensions[i]) {
			return ""
		}
		exts := append([]tls.TLSExtension{}, u.Extensions[:i]...)
		u.Extensions = append(exts, u.Extensions[i+1:]...)
		return fmt.Sprintf("X:%d", i)
	case "C":
		u.HandshakeState.Hello.CipherSuites = toU16(parseU64s(f[1]))
		return op
	case "S":
		u.HandshakeState.Hello.SessionId = unhex(f[1])
		return op
	case "B":
		if err := u.BuildHandshakeState(); err != nil {
			return "B" // the model predicts the same failure and the same unchanged state
		}
		return "B"
	}
	return ""
}

// c01HrrGroup: a group the built hello lists in supported_groups without sending a share for it
// (one of the four the server can serve), 0 if none.
func c01HrrGroup(u *tls.UConn, r *Rng) tls.CurveID {
	var listed, shared []uint16
	tls13 := false
	for _, e := range u.Extensions {
		switch x := e.(type) {
		case *tls.SupportedCurvesExtension:
			for _, c := range x.Curves {
				listed = append(listed, uint16(c))
			}
		case *tls.KeyShareExtension:
			for _, k := range x.KeyShares {
				shared = append(shared, uint16(k.Group))
			}
		case *tls.SupportedVersionsExtension:
			for _, v := range x.Versions {
				if v == tls.VersionTLS13 {
					tls13 = true
				}
			}
		}
	}
	if !tls13 || len(shared) == 0 {
		return 0
	}
	var cands []uint16
	for _, g := range listed {
		if isECGroup(g) && !hasU16(shared, g) {
			cands = append(cands, g)
		}
	}
	if len(cands) == 0 {
		return 0
	}
	return tls.CurveID(Pick(r, cands))
}

func execBuildSM(in KV) string {
	kit()
	rseed := in.U64("rseed")
	id, ok := chIDByName(in["id"], rseed)
	golang := in["id"] == "Golang-0"
	var spec *tls.ClientHelloSpec
	if in["id"] == "Custom" {
		id, ok = tls.HelloCustom, true
		spec = specFrom(in)
	}
	if !ok {
		return "out=bad-id"
	}
	rr := NewRng(rseed ^ 0xc01)
	srv := in["srv"]
	cookie := rr.Bytes(Pick(rr, []int{1, 8, 32, 200}))
	var state0, raw0, rawStart string
	var eops []string
	var g tls.CurveID
	var seenHRR bool
	hadCookieExt := false
	hooks := &tls.VerifServerHooks{TolerateCookieEcho: true}
	// what the HelloRetryRequest that actually went out said (the server may send one on its own when an
	// edit removed the share of its preferred group)
	var hrrGroup uint16
	var hrrCookie []byte
	hooks.RewriteHandshake = func(d []byte) []byte {
		m, ok := parseSH(d)
		if !ok || !m.isHRR() || seenHRR {
			return d
		}
		seenHRR = true
		if srv == "hrrck" {
			applyHRRMut(m, "valid", 0, cookie)
		}
		if b, ok := m.get(51); ok && len(b) == 2 {
			hrrGroup = uint16(b[0])<<8 | uint16(b[1])
		}
		if b, ok := m.get(44); ok && len(b) >= 2 {
			hrrCookie = append([]byte(nil), b[2:]...)
		}
		if srv == "hrrck" {
			return m.bytes()
		}
		return d
	}
	// Encrypted Client Hello: the client gets a config list, the server the matching key (C15's kit);
	// "accept": the server accepts ECH, "hrr": it accepts and first answers with a HelloRetryRequest.
	echMode := in["ech"]
	var es *echSetup
	if echMode != "" {
		es = mkEchSetup(echMode, uint8(rseed), [][2]int{{1, 1}, {1, 3}}, 32, "public.verif.test", "secret.verif.test", "P", rseed)
	}
	mkCfg := func() *tls.Config {
		c := &tls.Config{ServerName: string(in.Bytes("sni")), OmitEmptyPsk: true, Rand: NewRng(rseed), InsecureSkipVerify: true}
		if golang {
			c.ServerName = "example.golang"
		}
		if es != nil {
			c = &tls.Config{ServerName: "secret.verif.test", EncryptedClientHelloConfigList: es.cliList, OmitEmptyPsk: true}
		}
		return c
	}
	// dry run on a throw-away connection: which group can a HelloRetryRequest select after the edits?
	scfg := &tls.Config{}
	if es != nil {
		scfg = es.serverCfg
	}
	if srv != "plain" && !golang && es == nil {
		func() {
			defer func() { recover() }()
			d := tls.UClient(nil, mkCfg(), id)
			if spec != nil {
				if d.ApplyPreset(specFrom(in)) != nil {
					return
				}
			}
			if d.BuildHandshakeState() != nil {
				return
			}
			for _, op := range splitSemi(in["ops"]) {
				c01Apply(d, op)
			}
			g = c01HrrGroup(d, rr)
		}()
		if g != 0 {
			scfg.CurvePreferences = []tls.CurveID{g}
		}
	}
	res := runHS(HSOpts{
		ID: id, Spec: spec, ClientCfg: mkCfg(), ServerCfg: scfg, Hooks: hooks, Timeout: 6 * time.Second,
		Prepare: func(u *tls.UConn) error {
			if err := u.BuildHandshakeState(); err != nil {
				return err
			}
			if !golang && es == nil {
				state0 = helloState(u)
			}
			raw0 = hx(u.HandshakeState.Hello.Raw)
			for _, op := range splitSemi(in["ops"]) {
				if e := c01Apply(u, op); e != "" {
					eops = append(eops, e)
				}
			}
			for _, e := range u.Extensions {
				if _, ok := e.(*tls.CookieExtension); ok {
					hadCookieExt = true
				}
			}
			first := true
			if rc, ok := u.GetUnderlyingConn().(*recConn); ok {
				rc.OnWrite = func(p []byte) []byte {
					if first {
						first = false
						rawStart = hx(u.HandshakeState.Hello.Raw)
					}
					return p
				}
			} else {
				rawStart = "?"
			}
			return nil
		},
	})
	if res.PrepareErr != nil {
		return "err=pre:" + sanitize(strings.TrimPrefix(res.PrepareErr.Error(), "tls: "))
	}
	u := res.UConn
	hs := clientHellos(res.ClientWire)
	w1, w2 := "-", "-"
	if len(hs) > 0 {
		w1 = hx(hs[0])
	}
	if len(hs) > 1 {
		w2 = hx(hs[1])
	}
	// HelloRetryRequest material as the client used it
	fresh, idx := "-", -1
	ck := "-"
	srvEff := "plain"
	if seenHRR {
		g = tls.CurveID(hrrGroup)
		fresh = freshShare(u, int(g))
		srvEff = "hrr"
		if len(hrrCookie) > 0 {
			srvEff = "hrrck"
			ck = hx(hrrCookie)
			if !hadCookieExt {
				for i, e := range u.Extensions {
					if _, ok := e.(*tls.CookieExtension); ok {
						idx = i
					}
				}
			}
		}
	}
	cerr := "ok"
	if res.ClientErr != nil {
		cerr = marshalErrClass(res.ClientErr)
		if strings.HasPrefix(cerr, "pre:") {
			cerr = "hs:" + errClass(res.ClientErr)
		}
	}
	out := fmt.Sprintf("raw0=%s eops=%s srveff=%s g=%d fresh=%s ck=%s idx=%d rawstart=%s w1=%s w2=%s rawafter=%s cerr=%s nhello=%d",
		raw0, joinSemi(eops), srvEff, uint16(g), fresh, ck, idx, rawStart, w1, w2, hx(u.HandshakeState.Hello.Raw), cerr, len(hs))
	if golang {
		return "golang=1 " + out
	}
	if es != nil {
		return fmt.Sprintf("echmode=%s echacc=%s %s", echMode, b2i(res.ClientState.ECHAccepted), out)
	}
	return state0 + " " + out
}

func genBuildSM(r *Rng, i int, tier string) string {
	srv := Pick(r, []string{"plain", "hrr", "hrr", "hrrck", "hrrck"})
	rseed := r.U64() >> 1
	sni := Pick(r, []string{"example.golang", "verif.test", "a.verif.test", "localhost"})
	switch {
	case i%12 == 7:
		// ECH offered and accepted (with and without a HelloRetryRequest): the hello on the wire is the outer one
		id := Pick(r, []string{"Chrome-120", "Chrome-120_PQ", "Chrome-131", "Chrome-133", "Firefox-120"})
		ops := "-"
		if r.Intn(3) == 0 {
			ops = "B"
		}
		return fmt.Sprintf("id=%s sni=%s rseed=%d srv=plain ech=%s ops=%s", id, hx([]byte("secret.verif.test")), rseed, Pick(r, []string{"accept", "accept", "hrr"}), ops)
	case i%25 == 24:
		return fmt.Sprintf("id=Golang-0 sni=%s rseed=%d srv=%s ops=%s", hx([]byte(sni)), rseed, srv, c01GenOps(r, true))
	case i%6 == 5:
		// a generated custom spec that can complete a TLS 1.3 handshake
		exts := []string{"sni|-", "curves|" + Pick(r, []string{"29,23,24", "2570,29,23", "23,29,25"}), "sigalgs|2052,1027,2053,1025,1283", "versions|772,771",
			"key_share|" + Pick(r, []string{"29:e", "2570:00,29:e", "23:e"}), "psk_modes|1", "points|0", "ems", "reneg|-"}
		for k := 0; k < r.Intn(4); k++ {
			exts = append(exts, genValidExt(r, Pick(r, []int{1, 5, 7, 8, 9, 12, 14, 19, 20, 22, 23, 24, 25})))
		}
		for k := len(exts) - 1; k > 0; k-- {
			j := r.Intn(k + 1)
			exts[k], exts[j] = exts[j], exts[k]
		}
		if r.Intn(3) > 0 {
			at := r.Intn(len(exts) + 1)
			exts = append(exts[:at], append([]string{"padding|0|0"}, exts[at:]...)...)
		}
		return fmt.Sprintf("id=Custom exts=%s pol=%s suites=%s comp=00 vmax=772 sni=%s rseed=%d srv=%s ops=%s", joinSemi(exts), Pick(r, []string{"boring", "boring", "none", "padto:600"}),
			"4865,4866,4867,49195,49199", hx([]byte(sni)), rseed, srv, c01GenOps(r, false))
	default:
		id := chIDNames[i%len(chIDNames)]
		return fmt.Sprintf("id=%s sni=%s rseed=%d srv=%s ops=%s", id, hx([]byte(sni)), rseed, srv, c01GenOps(r, false))
	}
}

func init() {
	register(&Family{Name: "build_sm", Gen: genBuildSM, Exec: execBuildSM, Timeout: 30 * time.Second})
}
