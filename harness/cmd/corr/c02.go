package main

import (
	"errors"
	"fmt"
	"io"
	"os"
	"reflect"
	"strings"
	"time"

	tls "github.com/refraction-networking/utls"
)

// ---- C02 (and shared by C05): the ClientHello the real UConn marshals ----
//
// Every family prints the state MarshalClientHelloNoECH works from (the five hello fields, the
// extension list as held by uconn.Extensions, the padding policy) and what the implementation
// produced:  raw=<Hello.Raw>  or  err=<class>.  The Lean driver predicts raw/err from the state and
// runs the strict parser + validity monitor on raw.

// padPolicyOf identifies GetPaddingLen: nil, BoringPaddingStyle, or AlwaysPadToLen(n) (n recovered
// by bisection: such a closure pads exactly the lengths below n).
func padPolicyOf(p *tls.UtlsPaddingExtension) string {
	if p.GetPaddingLen == nil {
		return "none"
	}
	if reflect.ValueOf(p.GetPaddingLen).Pointer() == reflect.ValueOf(tls.BoringPaddingStyle).Pointer() {
		return "boring"
	}
	if _, w := p.GetPaddingLen(0); !w {
		return "padto:0"
	}
	lo, hi := 0, 1<<30 // pads at lo, does not pad at hi
	for lo+1 < hi {
		mid := (lo + hi) / 2
		if _, w := p.GetPaddingLen(mid); w {
			lo = mid
		} else {
			hi = mid
		}
	}
	return fmt.Sprintf("padto:%d", hi)
}

func setPadPolicy(p *tls.UtlsPaddingExtension, pol string) {
	switch {
	case pol == "boring":
		p.GetPaddingLen = tls.BoringPaddingStyle
	case strings.HasPrefix(pol, "padto:"):
		var n int
		fmt.Sscanf(pol[6:], "%d", &n)
		p.GetPaddingLen = tls.AlwaysPadToLen(n)
	default:
		p.GetPaddingLen = nil
	}
}

// describeExtFull is describeExt with the per-connection bytes kept (ECH draws, marshalled QUIC
// transport parameters) — what Read is going to write.
func describeExtFull(e tls.TLSExtension) string {
	switch x := e.(type) {
	case *tls.GREASEEncryptedClientHelloExtension:
		kdf, aead, cid, enc, payload := tls.VerifGreaseECHFields(x)
		return fmt.Sprintf("ech|%d|%d|%d|%s|%s", kdf, aead, cid, hx(enc), hx(payload))
	case *tls.QUICTransportParametersExtension:
		return "quic_raw|" + hx(tls.VerifQUICTPMarshalled(x))
	case *tls.UtlsPaddingExtension:
		return fmt.Sprintf("padding|%d|%s", x.PaddingLen, b2i(x.WillPad))
	}
	return describeExt(e)
}

func joinSemi(xs []string) string {
	if len(xs) == 0 {
		return "-"
	}
	return strings.Join(xs, ";")
}

func splitSemi(s string) []string {
	if s == "-" || s == "" {
		return nil
	}
	return strings.Split(s, ";")
}

// helloState renders what MarshalClientHelloNoECH reads.
func helloState(uc *tls.UConn) string {
	h := uc.HandshakeState.Hello
	var ds []string
	pol := "none"
	seen := false
	for _, e := range uc.Extensions {
		ds = append(ds, describeExtFull(e))
		if p, ok := e.(*tls.UtlsPaddingExtension); ok && !seen {
			pol = padPolicyOf(p)
			seen = true
		}
	}
	return fmt.Sprintf("vers=%d random=%s sid=%s suites=%s comp=%s exts=%s pol=%s",
		h.Vers, hx(h.Random), hx(h.SessionId), u16list(h.CipherSuites), hx(h.CompressionMethods), joinSemi(ds), pol)
}

// marshalErrClass: the error classes of MarshalClientHelloNoECH; anything else happened before it.
func marshalErrClass(err error) string {
	s := err.Error()
	switch {
	case s == "multiple padding extensions":
		return "multiple-padding"
	case errors.Is(err, io.ErrShortBuffer):
		return "short"
	case errors.Is(err, tls.ErrEmptyPsk):
		return "ext:empty-psk"
	case strings.Contains(s, "invalid binder size"):
		return "ext:binder-size"
	case strings.Contains(s, "too many"):
		return "ext:too-many"
	case strings.Contains(s, "unexpected ClientHello length"):
		return "length"
	case strings.Contains(s, "extensions too long"):
		return "exts-too-long"
	case strings.Contains(s, "ClientHello too long"):
		return "hello-too-long"
	}
	return "pre:" + sanitize(strings.TrimPrefix(strings.TrimPrefix(s, "tls: "), "utls: "))
}

// buildOutcome renders state + outcome after BuildHandshakeState / MarshalClientHelloNoECH returned err.
func buildOutcome(uc *tls.UConn, err error) string {
	if err != nil {
		cls := marshalErrClass(err)
		if strings.HasPrefix(cls, "pre:") {
			return "err=" + cls
		}
		return helloState(uc) + " err=" + cls
	}
	return helloState(uc) + " raw=" + hx(uc.HandshakeState.Hello.Raw)
}

// ---- ids ----

func chIDByName(name string, rseed uint64) (tls.ClientHelloID, bool) {
	mk := func(base tls.ClientHelloID) tls.ClientHelloID {
		var seed tls.PRNGSeed
		NewRng(rseed ^ 0x5eed).Read(seed[:])
		base.Seed = &seed
		return base
	}
	switch name {
	case "Randomized":
		return mk(tls.HelloRandomized), true
	case "RandomizedALPN":
		return mk(tls.HelloRandomizedALPN), true
	case "RandomizedNoALPN":
		return mk(tls.HelloRandomizedNoALPN), true
	}
	return idByName(name)
}

var chIDNames = func() []string {
	var ns []string
	for _, id := range parrotIDs {
		ns = append(ns, idName(id))
	}
	return append(ns, "Randomized", "RandomizedALPN", "RandomizedNoALPN")
}()

// ids whose spec carries a padding extension (found by asking the implementation once).
var paddingIDNames = func() []string {
	var ns []string
	for _, id := range parrotIDs {
		spec, err := tls.UTLSIdToSpec(id)
		if err != nil {
			continue
		}
		for _, e := range spec.Extensions {
			if _, ok := e.(*tls.UtlsPaddingExtension); ok {
				ns = append(ns, idName(id))
				break
			}
		}
	}
	return ns
}()

// ids whose spec carries a session_ticket / pre_shared_key extension.
var ticketIDs, pskIDs = func() (map[string]bool, map[string]bool) {
	t, p := map[string]bool{}, map[string]bool{}
	for _, id := range parrotIDs {
		spec, err := tls.UTLSIdToSpec(id)
		if err != nil {
			continue
		}
		for _, e := range spec.Extensions {
			switch e.(type) {
			case tls.ISessionTicketExtension:
				t[idName(id)] = true
			case tls.PreSharedKeyExtension:
				p[idName(id)] = true
			}
		}
	}
	return t, p
}()

// ---- Config shapes ----

var cfgNames = []string{"", "example.com", "example.com.", "example.com..", "a", "a..", "...", ".", "1.2.3.4", "1.2.3.4.", "::1", "[::1]",
	"fe80::1%eth0", "[fe80::1%eth0]", "2001:db8::ff00:42:8329", "[2001:db8::1]", "::ffff:1.2.3.4", "1.2.3.256", "01.2.3.4", "1.2.3", "[example.com]",
	"xn--nxasmq6b.example", "EXAMPLE.COM", "localhost", "1:2:3:4:5:6:7:8", "1:2:3:4:5:6:7:8:9"}

func hostOfLen(r *Rng, n int) string {
	b := make([]byte, n)
	for i := range b {
		if i%64 == 63 && i != n-1 {
			b[i] = '.'
		} else {
			b[i] = "abcdefghijklmnopqrstuvwxyz"[r.Intn(26)]
		}
	}
	return string(b)
}

// hugeSNI: server names of ~65 KB (the Lean transcription of hostnameInSNI is quadratic in the name
// length: ~20 s per such case) are generated in the thorough tier only.
var hugeSNI bool

func capSNI(r *Rng, s string) string {
	if len(s) > 3000 && !(hugeSNI && r.Intn(40) == 0) {
		return hostOfLen(r, 300+r.Intn(2500))
	}
	return s
}

func genCfgSNI(r *Rng) string {
	switch r.Intn(6) {
	case 0, 1:
		if r.Intn(8) == 0 {
			return ""
		}
		return Pick(r, cfgNames)
	case 2:
		return hostOfLen(r, Pick(r, []int{1, 2, 63, 64, 250, 253, 254, 255, 256, 300}))
	case 3:
		return hostOfLen(r, 1+r.Intn(260)) + strings.Repeat(".", r.Intn(3))
	case 4:
		if r.Intn(6) == 0 {
			return capSNI(r, hostOfLen(r, Pick(r, []int{65000, 65400, 65526, 65530, 65531, 65540})))
		}
		return capSNI(r, genSNI(r))
	default:
		return hostOfLen(r, 5+r.Intn(20)) + ".example"
	}
}

func genALPN(r *Rng) string {
	switch r.Intn(4) {
	case 0:
		return "-"
	case 1:
		return hexList([][]byte{[]byte("h2"), []byte("http/1.1")})
	default:
		n := 1 + r.Intn(3)
		var ps [][]byte
		for i := 0; i < n; i++ {
			ps = append(ps, r.Bytes(1+r.Intn(12)))
		}
		return hexList(ps)
	}
}

type cfgShape struct {
	sni     string
	alpn    []string
	omitPsk bool
	quic    bool
	cache   bool
	ticket  int // >0: install a session ticket of that length (needs cache)
	fakePsk int // >0: install a FakePreSharedKeyExtension with that identity length (needs cache)
	rseed   uint64
	gbytes  []byte // if 10 bytes: what ApplyPreset's GREASE seed read gets
}

func shapeOf(in KV) cfgShape {
	s := cfgShape{sni: string(in.Bytes("sni")), omitPsk: in["omitpsk"] != "0", quic: in["quic"] == "1", cache: in["cache"] == "1", rseed: in.U64("rseed")}
	s.alpn = strList(parseHexList(in["alpn"]))
	if v, ok := in["gbytes"]; ok {
		s.gbytes = unhex(v)
	}
	if v, ok := in["ticket"]; ok {
		fmt.Sscanf(v, "%d", &s.ticket)
	}
	if v, ok := in["fakepsk"]; ok {
		fmt.Sscanf(v, "%d", &s.fakePsk)
	}
	return s
}

func (s cfgShape) config() *tls.Config {
	// a fresh deterministic Config.Rand stream per case (client random, GREASE seed, session id, keys)
	c := &tls.Config{ServerName: s.sni, NextProtos: s.alpn, OmitEmptyPsk: s.omitPsk, Rand: NewRng(s.rseed), InsecureSkipVerify: true}
	if len(s.gbytes) == 10 {
		c.Rand = &greaseRand{r: NewRng(s.rseed), g: s.gbytes}
	}
	if s.cache || s.ticket > 0 || s.fakePsk > 0 {
		c.ClientSessionCache = tls.NewLRUClientSessionCache(4)
	}
	return c
}

func (s cfgShape) client(id tls.ClientHelloID) *tls.UConn {
	cfg := s.config()
	if s.quic {
		cfg.MinVersion = tls.VersionTLS13
		return tls.VerifUQUICUConn(tls.UQUICClient(&tls.QUICConfig{TLSConfig: cfg}, id))
	}
	return tls.UClient(nil, cfg, id)
}

// sessionSetup installs user-provided session extensions (the documented API).
func (s cfgShape) sessionSetup(uc *tls.UConn) error {
	r := NewRng(s.rseed ^ 0x7157)
	if s.ticket > 0 {
		if err := uc.SetSessionTicketExtension(&tls.SessionTicketExtension{Ticket: r.Bytes(s.ticket), Initialized: true, Session: &tls.SessionState{}}); err != nil {
			return err
		}
	}
	if s.fakePsk > 0 {
		psk := &tls.FakePreSharedKeyExtension{
			Identities: []tls.PskIdentity{{Label: r.Bytes(s.fakePsk), ObfuscatedTicketAge: uint32(r.U64())}},
			Binders:    [][]byte{r.Bytes(32)},
		}
		if err := uc.SetPskExtension(psk); err != nil {
			return err
		}
	}
	return nil
}

// shapeTokens: hasTicket / hasPsk say whether the spec carries the extension a user-provided session
// extension would replace (otherwise ApplyPreset refuses it before anything is marshalled).
func shapeTokens(r *Rng, sni string, hasTicket, hasPsk bool) string {
	omit := r.Intn(5) > 0
	if hasPsk {
		omit = r.Intn(3) > 0
	}
	t := fmt.Sprintf("sni=%s alpn=%s omitpsk=%d quic=%d rseed=%d", hx([]byte(sni)), genALPN(r), b2n(omit), b2n(r.Intn(8) == 0), r.U64()>>1)
	switch {
	case hasPsk && r.Intn(2) == 0:
		t += fmt.Sprintf(" fakepsk=%d", Pick(r, []int{1, 16, 100, 200}))
	case hasTicket && r.Intn(4) == 0:
		t += fmt.Sprintf(" ticket=%d", Pick(r, []int{1, 16, 100, 200, 400}))
	case r.Intn(8) == 0:
		t += " cache=1"
	case r.Intn(40) == 0: // refused: nothing in the spec to replace
		t += fmt.Sprintf(" fakepsk=%d", 16)
	}
	return t
}

func b2n(b bool) int {
	if b {
		return 1
	}
	return 0
}

// buildWith runs the real client: UClient, optional ApplyPreset(spec), session extensions, BuildHandshakeState.
func buildWith(id tls.ClientHelloID, spec *tls.ClientHelloSpec, s cfgShape) (uc *tls.UConn, err error) {
	withCryptoRand(s.rseed^0xc0de, func() {
		uc = s.client(id)
		if spec != nil {
			if err = uc.ApplyPreset(spec); err != nil {
				return
			}
		}
		if err = s.sessionSetup(uc); err != nil {
			return
		}
		err = uc.BuildHandshakeState()
	})
	return
}

// ---- generated custom specs (field values within their limits, each type at most once) ----

func genU16List(r *Rng, n int, grease bool) string { return genU16s(r, n, grease) }

// boundaryBias: every 4th generated extension with a variable part gets a size around 254/255/256 or
// 510/511/512 (all inner vec8/vec16 prefixes and the extension_data length cross their carries).
var boundaryBias = true

func isBoundKind(kind int) bool {
	for _, k := range boundKinds {
		if k == kind {
			return true
		}
	}
	return false
}

func genValidExt(r *Rng, kind int) string {
	small := func() int { return 1 + r.Intn(6) }
	if boundaryBias && isBoundKind(kind) && kind != 0 && kind != 27 && r.Intn(4) == 0 {
		return genBoundaryExt(r, kind, Pick(r, boundSizes), r.Intn(2))
	}
	switch kind {
	case 0:
		return "sni|-" // filled from Config.ServerName
	case 2:
		return "curves|" + genU16s(r, small(), true)
	case 3:
		return "points|" + genU8s(r, 1+r.Intn(3))
	case 4:
		return "sigalgs|" + genU16s(r, small(), false)
	case 6:
		return "sigalgs_cert|" + genU16s(r, small(), false)
	case 7:
		return "alpn|" + genValidProtos(r)
	case 8:
		return fmt.Sprintf("alps|%d|%s", r.Intn(2), genValidProtos(r))
	case 10:
		id := Pick(r, []int{0x7777, 0x1234, 65000, 99, 2, 3, 4, 40, 42, 47, 48, 49})
		return fmt.Sprintf("generic|%d|%s", id, hx(r.Bytes(Pick(r, []int{0, 1, 7, 32, 100, 300, 1000}))))
	case 12:
		return fmt.Sprintf("grease|%d|%s", 0x0a0a, hx(r.Bytes(Pick(r, []int{0, 0, 1, 5}))))
	case 13:
		return "padding|0|0"
	case 14:
		return "compress_cert|" + genU16s(r, 1+r.Intn(3), false)
	case 15:
		n := 1 + r.Intn(3)
		var ss []string
		for i := 0; i < n; i++ {
			switch r.Intn(4) {
			case 0: // let ApplyPreset generate the key
				ss = append(ss, fmt.Sprintf("%d:e", Pick(r, []int{29, 23, 24, 25, 4588, 25497})))
			case 1:
				ss = append(ss, fmt.Sprintf("%d:%s", 0x0a0a, hxe(r.Bytes(1))))
			default:
				ss = append(ss, fmt.Sprintf("%d:%s", Pick(r, []int{29, 23, 24, 256, 4588, 12345}), hxe(r.Bytes(Pick(r, []int{2, 32, 65, 97, 1216})))))
			}
		}
		return "key_share|" + joinList(ss)
	case 16:
		n := r.Intn(4)
		var ss []string
		for i := 0; i < n; i++ {
			ss = append(ss, fmt.Sprintf("%d:%s", 1+r.Intn(1<<30), hxe(r.Bytes(Pick(r, []int{0, 1, 8, 63, 64, 100})))))
		}
		return "quic_tp|" + joinList(ss)
	case 17:
		return "psk_modes|" + genU8s(r, 1+r.Intn(2))
	case 18:
		return "versions|" + Pick(r, []string{"772,771", "2570,772,771", "771", "772", "772,771,770,769"})
	case 19:
		return "cookie|" + hx(r.Bytes(1+r.Intn(40)))
	case 21:
		return "reneg|" + hx(r.Bytes(Pick(r, []int{0, 0, 12, 36})))
	case 22:
		return fmt.Sprintf("channel_id|%d", r.Intn(2))
	case 23:
		return fmt.Sprintf("record_size_limit|%d", Pick(r, []int{64, 16385, 65535}))
	case 24:
		return fmt.Sprintf("token_binding|%d|%d|%s", r.Intn(256), r.Intn(256), genU8s(r, 1+r.Intn(3)))
	case 25:
		return "delegated|" + genU16s(r, small(), false)
	case 26:
		return "session_ticket|" + hx(r.Bytes(Pick(r, []int{0, 0, 16, 180})))
	case 27:
		if r.Bool() {
			return "psk|0|0|0|-|-" // real PSK without a session
		}
		nid := 1 + r.Intn(2)
		var ids, bs []string
		for i := 0; i < nid; i++ {
			ids = append(ids, fmt.Sprintf("%s:%d", hxe(r.Bytes(Pick(r, []int{1, 16, 100, 300}))), r.U64()&0xffffffff))
			bs = append(bs, hxe(r.Bytes(Pick(r, []int{32, 48}))))
		}
		return fmt.Sprintf("psk|1|0|0|%s|%s", joinList(ids), joinList(bs))
	case 28:
		return fmt.Sprintf("ech|%d|%d|%d|%s|%s", 1+r.Intn(3), 1+r.Intn(3), r.Intn(256), hx(r.Bytes(Pick(r, []int{32, 32, 65}))), hx(r.Bytes(Pick(r, []int{16, 144, 176, 208, 240}))))
	}
	// kinds without fields: 1 status_request, 5 status_request_v2, 9 sct, 11 ems, 20 npn
	return genExtDesc(r, kind)
}

func genValidProtos(r *Rng) string {
	n := 1 + r.Intn(3)
	var ss []string
	for i := 0; i < n; i++ {
		ss = append(ss, hxe(r.Bytes(1+r.Intn(10))))
	}
	return joinList(ss)
}

// genSpecExts: a subset of the extension kinds, each at most once (rarely: a duplicate, or values
// beyond their limits), PSK last.
func genSpecExts(r *Rng, wild bool) []string {
	n := Pick(r, []int{0, 1, 2, 3, 5, 8, 12, 20})
	perm := make([]int, nExtKinds)
	for i := range perm {
		perm[i] = i
	}
	for i := len(perm) - 1; i > 0; i-- {
		j := r.Intn(i + 1)
		perm[i], perm[j] = perm[j], perm[i]
	}
	var ds []string
	var psk string
	for _, k := range perm[:min(n, len(perm))] {
		var d string
		if wild && r.Intn(6) == 0 {
			d = genExtDesc(r, k)
			if strings.HasPrefix(d, "sni|") {
				d = "sni|" + hx([]byte(capSNI(r, string(unhex(d[4:])))))
			}
		} else {
			d = genValidExt(r, k)
		}
		if k == 27 {
			psk = d
			continue
		}
		ds = append(ds, d)
	}
	if r.Intn(3) > 0 && n > 0 { // most specs carry a padding extension somewhere
		has := false
		for _, d := range ds {
			has = has || strings.HasPrefix(d, "padding|")
		}
		if !has {
			at := r.Intn(len(ds) + 1)
			ds = append(ds[:at], append([]string{"padding|0|0"}, ds[at:]...)...)
		}
	}
	if wild && r.Intn(12) == 0 && len(ds) > 0 { // a repeated type (a second session ticket is an assertion failure in ApplyPreset)
		if d := ds[r.Intn(len(ds))]; !strings.HasPrefix(d, "session_ticket|") || r.Intn(4) == 0 {
			ds = append(ds, d)
		}
	}
	if psk != "" {
		ds = append(ds, psk)
	}
	return ds
}

func specFrom(in KV) *tls.ClientHelloSpec {
	spec := &tls.ClientHelloSpec{TLSVersMin: tls.VersionTLS10, TLSVersMax: tls.VersionTLS13}
	if in["vmax"] != "" {
		spec.TLSVersMax = uint16(in.U64("vmax"))
	}
	spec.CipherSuites = toU16(parseU64s(in["suites"]))
	spec.CompressionMethods = in.Bytes("comp")
	for _, d := range splitSemi(in["exts"]) {
		e := buildExt(expandDesc(d))
		if p, ok := e.(*tls.UtlsPaddingExtension); ok {
			setPadPolicy(p, in["pol"])
		}
		spec.Extensions = append(spec.Extensions, e)
	}
	return spec
}

func genSuites(r *Rng) string {
	n := Pick(r, []int{1, 2, 5, 17, 40})
	var xs []uint16
	for i := 0; i < n; i++ {
		xs = append(xs, Pick(r, []uint16{0x1301, 0x1302, 0x1303, 0xc02b, 0xc02f, 0xc02c, 0xc030, 0xcca9, 0xcca8, 0xc013, 0xc014, 0x009c, 0x009d, 0x002f, 0x0035, 0x0a0a, uint16(r.Intn(65536))}))
	}
	return u16list(xs)
}

func genPol(r *Rng) string {
	switch r.Intn(5) {
	case 0:
		return "none"
	case 1:
		return fmt.Sprintf("padto:%d", Pick(r, []int{0, 100, 300, 512, 517, 1000, 2000}))
	default:
		return "boring"
	}
}

// ---- fingerprinted captures ----

func recordOf(raw []byte) []byte {
	rec := []byte{22, 3, 1, byte(len(raw) >> 8), byte(len(raw))}
	return append(rec, raw...)
}

// execFingerprint: capture the hello of parrot `id` (server name sni), fingerprint the record with
// the given flags, apply the spec to a fresh HelloCustom connection with server name sni2, build.
func execFingerprint(in KV) string {
	id, ok := chIDByName(in["id"], in.U64("rseed"))
	if !ok {
		return "out=bad-id"
	}
	s := shapeOf(in)
	s.omitPsk = true
	uc1, err := buildWith(id, nil, s)
	if err != nil {
		return "err=pre:capture-" + marshalErrClass(err)
	}
	s.ticket, s.fakePsk = 0, 0 // the replay uses what the fingerprint recorded
	raw1 := uc1.HandshakeState.Hello.Raw
	capPad := -1
	for _, e := range uc1.Extensions {
		if p, ok := e.(*tls.UtlsPaddingExtension); ok && p.WillPad {
			capPad = p.PaddingLen
		}
	}
	flags := in["flags"]
	fp := &tls.Fingerprinter{AllowBluntMimicry: strings.Contains(flags, "b"), AlwaysAddPadding: strings.Contains(flags, "p"), RealPSKResumption: strings.Contains(flags, "r")}
	spec, err := fp.FingerprintClientHello(recordOf(raw1))
	if err != nil {
		return "err=pre:fingerprint-" + sanitize(err.Error())
	}
	s2 := s
	s2.sni = string(in.Bytes("sni2"))
	s2.rseed = s.rseed + 1
	uc2, err := buildWith(tls.HelloCustom, spec, s2)
	return fmt.Sprintf("caplen=%d cappad=%d capsni=%d newsni=%d %s", len(raw1), capPad, len(tls.VerifHostnameInSNI(s.sni)), len(tls.VerifHostnameInSNI(s2.sni)), buildOutcome(uc2, err))
}

func genFingerprint(r *Rng, ids []string) string {
	sni := genCfgSNI(r)
	if r.Intn(3) > 0 {
		sni = hostOfLen(r, 4+r.Intn(60))
	}
	sni2 := sni
	switch r.Intn(4) {
	case 0: // same name
	case 1, 2: // another name of the same length
		sni2 = hostOfLen(r, len(sni))
	default:
		sni2 = hostOfLen(r, 1+r.Intn(80))
	}
	id := Pick(r, ids)
	t := fmt.Sprintf("id=%s flags=%s sni=%s sni2=%s alpn=- omitpsk=1 quic=0 rseed=%d", id, Pick(r, []string{"-", "b", "p", "bp", "r", "bpr"}), hx([]byte(sni)), hx([]byte(sni2)), r.U64()>>1)
	if pskIDs[id] && r.Bool() { // a capture that carries a pre_shared_key extension
		t += fmt.Sprintf(" fakepsk=%d", Pick(r, []int{1, 16, 100}))
	} else if ticketIDs[id] && r.Intn(4) == 0 {
		t += fmt.Sprintf(" ticket=%d", Pick(r, []int{16, 100}))
	}
	return t
}

// ---- direct marshalling of an arbitrary state ----

func execMarshal(in KV) string {
	uc := tls.UClient(nil, &tls.Config{}, tls.HelloCustom)
	h := uc.HandshakeState.Hello
	h.Vers = uint16(in.U64("vers"))
	h.Random = in.Bytes("random")
	h.SessionId = in.Bytes("sid")
	h.CipherSuites = toU16(parseU64s(in["suites"]))
	h.CompressionMethods = in.Bytes("comp")
	first := true
	for _, d := range splitSemi(in["exts"]) {
		e := buildExt(expandDesc(d))
		if p, ok := e.(*tls.UtlsPaddingExtension); ok {
			if first {
				setPadPolicy(p, in["pol"])
				first = false
			} else {
				p.GetPaddingLen = tls.BoringPaddingStyle
			}
		}
		uc.Extensions = append(uc.Extensions, e)
	}
	err := uc.MarshalClientHelloNoECH()
	if err != nil {
		return "err=" + marshalErrClass(err)
	}
	return "raw=" + hx(h.Raw)
}

// expandDesc: "zeros|id|n" abbreviates a GenericExtension with n zero bytes (keeps big cases readable).
func expandDesc(d string) string {
	if strings.HasPrefix(d, "zeros|") {
		var id, n int
		fmt.Sscanf(d, "zeros|%d|%d", &id, &n)
		return fmt.Sprintf("generic|%d|%s", id, hx(make([]byte, n)))
	}
	return d
}

func genMarshal(r *Rng, i int) string {
	random := r.Bytes(32)
	if r.Intn(10) == 0 {
		random = r.Bytes(Pick(r, []int{0, 31, 33, 64}))
	}
	sid := r.Bytes(Pick(r, []int{0, 32, 32, 32, 1, 255}))
	if r.Intn(40) == 0 {
		sid = r.Bytes(Pick(r, []int{256, 300}))
	}
	comp := []byte{0}
	if r.Intn(10) == 0 {
		comp = r.Bytes(Pick(r, []int{0, 2, 255}))
	}
	ds := genSpecExts(r, true)
	// big blocks around the uint16 limit of the extensions length
	if i%9 == 0 {
		used := 0
		for _, d := range ds {
			used += buildExt(d).Len()
		}
		target := Pick(r, []int{65534, 65535, 65536, 65537, 70000, 80008, 131072 + 14})
		rest := target - used
		if rest > 16 {
			a := 4 + r.Intn(rest-8)
			if a-4 > 65535 {
				a = 65535 + 4
			}
			bb := rest - a
			for bb-4 > 65535 {
				ds = append(ds, fmt.Sprintf("zeros|%d|%d", 0x7000+len(ds), 65000))
				bb -= 65004
			}
			ds = append([]string{fmt.Sprintf("zeros|%d|%d", 0x7777, a-4)}, ds...)
			if bb >= 4 {
				ds = append([]string{fmt.Sprintf("zeros|%d|%d", 0x7778, bb-4)}, ds...)
			}
		}
	}
	if r.Intn(15) == 0 { // a second padding extension
		ds = append(ds, "padding|3|1")
	}
	// PSK may sit anywhere here (MarshalClientHelloNoECH does not care)
	if r.Intn(10) == 0 && len(ds) > 1 {
		j := r.Intn(len(ds))
		ds[j], ds[len(ds)-1] = ds[len(ds)-1], ds[j]
	}
	for k, d := range ds { // explicit padding fields matter when there is no policy
		if d == "padding|0|0" && r.Bool() {
			ds[k] = fmt.Sprintf("padding|%d|%d", Pick(r, []int{0, 1, 7, 100, 300}), r.Intn(2))
		}
	}
	return fmt.Sprintf("vers=%d random=%s sid=%s suites=%s comp=%s exts=%s pol=%s", Pick(r, []int{0x0303, 0x0301, 0x0304}), hx(random), hx(sid), genSuites(r), hx(comp), joinSemi(ds), genPol(r))
}

// ---- JSON-imported specs (the documents shipped in the repository's testdata) ----

var jsonDocs = []string{"Chrome102", "Edge106", "Firefox105", "iOS14"}

func execJSON(in KV) string {
	repo := os.Getenv("VERIF_REPO")
	if repo == "" {
		repo = "/repo"
	}
	doc, err := os.ReadFile(repo + "/testdata/ClientHello-JSON-" + in["doc"] + ".json")
	if err != nil {
		return "out=no-json-document"
	}
	spec := &tls.ClientHelloSpec{}
	if err := spec.UnmarshalJSON(doc); err != nil {
		return "err=pre:json-" + sanitize(err.Error())
	}
	uc, err := buildWith(tls.HelloCustom, spec, shapeOf(in))
	return buildOutcome(uc, err)
}

// ---- resumption through a shared session cache: real PSK (binders patched after marshalling) / real ticket ----

func execResume(in KV) string {
	id, ok := chIDByName(in["id"], in.U64("rseed"))
	if !ok {
		return "out=bad-id"
	}
	cache := tls.NewLRUClientSessionCache(8)
	name := string(in.Bytes("sni"))
	scfg := &tls.Config{}
	if in["tls12"] == "1" {
		scfg.MaxVersion = tls.VersionTLS12
	}
	first := runHS(HSOpts{ID: id, ClientCfg: &tls.Config{ServerName: name, ClientSessionCache: cache, OmitEmptyPsk: true}, ServerCfg: scfg, AppData: []byte("ping")})
	if first.ClientErr != nil || first.PrepareErr != nil {
		return "err=pre:first-handshake-" + errClass(first.ClientErr)
	}
	var uc *tls.UConn
	var err error
	withCryptoRand(in.U64("rseed")^0xc0de, func() {
		uc = tls.UClient(nil, defaultClientCfg(&tls.Config{ServerName: name, ClientSessionCache: cache, OmitEmptyPsk: true, Rand: NewRng(in.U64("rseed"))}), id)
		err = uc.BuildHandshakeState()
	})
	return buildOutcome(uc, err)
}

func init() {
	register(&Family{
		Name: "ch_resume",
		Gen: func(r *Rng, i int, tier string) string {
			id := chIDNames[i%len(parrotIDs)]
			if i%3 == 0 { // the parrots that carry a pre_shared_key extension
				var ps []string
				for _, n := range chIDNames {
					if pskIDs[n] {
						ps = append(ps, n)
					}
				}
				id = ps[(i/3)%len(ps)]
			}
			return fmt.Sprintf("id=%s sni=%s tls12=%d rseed=%d", id, hx([]byte(Pick(r, []string{"example.golang", "example.golang.", "x.verif.test", "localhost"}))), b2n(r.Intn(4) == 0), r.U64()>>1)
		},
		Exec:    execResume,
		Timeout: 30 * time.Second,
	})
	register(&Family{
		Name: "ch_json",
		Gen: func(r *Rng, i int, tier string) string {
			hugeSNI = false
			return fmt.Sprintf("doc=%s %s", jsonDocs[i%len(jsonDocs)], shapeTokens(r, genCfgSNI(r), false, false))
		},
		Exec: execJSON,
	})
	register(&Family{
		Name: "ch_parrot",
		Gen: func(r *Rng, i int, tier string) string {
			hugeSNI = tier == "thorough"
			id := chIDNames[i%len(chIDNames)]
			return fmt.Sprintf("id=%s %s", id, shapeTokens(r, genCfgSNI(r), ticketIDs[id], pskIDs[id]))
		},
		Exec: func(in KV) string {
			id, ok := chIDByName(in["id"], in.U64("rseed"))
			if !ok {
				return "out=bad-id"
			}
			uc, err := buildWith(id, nil, shapeOf(in))
			return buildOutcome(uc, err)
		},
	})
	register(&Family{
		Name: "ch_custom",
		Gen: func(r *Rng, i int, tier string) string {
			hugeSNI = tier == "thorough"
			return fmt.Sprintf("exts=%s pol=%s suites=%s comp=%s vmax=%d %s", joinSemi(genSpecExts(r, i%5 == 4)), genPol(r), genSuites(r),
				Pick(r, []string{"00", "00", "-", "0100"}), Pick(r, []int{0x0303, 0x0304}), shapeTokens(r, genCfgSNI(r), r.Intn(6) == 0, false))
		},
		Exec: func(in KV) string {
			uc, err := buildWith(tls.HelloCustom, specFrom(in), shapeOf(in))
			return buildOutcome(uc, err)
		},
	})
	register(&Family{
		Name: "ch_marshal",
		Gen: func(r *Rng, i int, tier string) string {
			hugeSNI = tier == "thorough"
			return genMarshal(r, i)
		},
		Exec: execMarshal,
	})
	register(&Family{
		Name: "ch_fp",
		Gen: func(r *Rng, i int, tier string) string {
			hugeSNI = false
			return genFingerprint(r, chIDNames)
		},
		Exec: execFingerprint,
	})
}
