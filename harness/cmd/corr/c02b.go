package main

import (
	"fmt"
	"io"
	"strings"

	tls "github.com/refraction-networking/utls"
)

// ---- C02/C05 strengthening: length-boundary sweep, GREASE seed sweep, re-marshal sequences ----

// boundSizes: sizes of the variable part of an extension such that every 1- and 2-byte length
// prefix around it (inner list, list+prefix, extension_data) crosses 255/256 and 511/512.
var boundSizes = func() []int {
	var xs []int
	for s := 246; s <= 260; s++ {
		xs = append(xs, s)
	}
	for s := 502; s <= 516; s++ {
		xs = append(xs, s)
	}
	return xs
}()

// splitNames: names (each 1..255 bytes) whose vec8 encoding totals exactly `total` bytes.
// variant 0: greedy (longest names first); variant 1: two or more names of about equal length.
func splitNames(r *Rng, total, variant int) [][]byte {
	var out [][]byte
	if total < 2 {
		return [][]byte{r.Bytes(1)}
	}
	parts := 1
	if variant == 1 {
		parts = 2
	}
	for (total+parts-1)/parts > 256 {
		parts++
	}
	rem := total
	for i := 0; i < parts; i++ {
		share := rem / (parts - i)
		if i == parts-1 {
			share = rem
		}
		if share < 2 {
			share = 2
		}
		if rem-share == 1 { // never leave a 1-byte rest (an entry needs its length byte + 1 byte)
			share--
		}
		out = append(out, r.Bytes(share-1))
		rem -= share
	}
	return out
}

// boundKinds: extension kinds with a variable-size part (kind numbers as in genExtDesc).
var boundKinds = []int{0, 2, 3, 4, 6, 7, 8, 10, 12, 14, 15, 16, 17, 18, 19, 21, 24, 25, 26, 27, 28}

// genBoundaryExt: an extension of `kind` whose variable part is `s` bytes (lists: the encoded list
// is s bytes, rounded down to whole elements); values otherwise within their limits.
func genBoundaryExt(r *Rng, kind, s, variant int) string {
	u16n := func(n int) string { return genU16s(r, n, false) }
	switch kind {
	case 0:
		return "sni|" + hx([]byte(hostOfLen(r, s)))
	case 2:
		return "curves|" + u16n(s/2)
	case 3:
		return "points|" + genU8s(r, s)
	case 4:
		return "sigalgs|" + u16n(s/2)
	case 6:
		return "sigalgs_cert|" + u16n(s/2)
	case 25:
		return "delegated|" + u16n(s/2)
	case 7:
		return "alpn|" + hexList(splitNames(r, s, variant))
	case 8:
		return fmt.Sprintf("alps|%d|%s", variant, hexList(splitNames(r, s, variant)))
	case 10:
		return fmt.Sprintf("generic|%d|%s", 0x7777, hx(r.Bytes(s)))
	case 12:
		return fmt.Sprintf("grease|%d|%s", 0x0a0a, hx(r.Bytes(s)))
	case 14:
		return "compress_cert|" + u16n(s/2)
	case 15: // key shares: entries of 4+len bytes totalling s
		var ss []string
		rem := s
		n := 1 + variant
		for i := 0; i < n; i++ {
			share := rem / (n - i)
			if share < 5 {
				share = 5
			}
			ss = append(ss, fmt.Sprintf("%d:%s", []int{29, 23}[i%2], hxe(r.Bytes(share-4))))
			rem -= share
		}
		return "key_share|" + joinList(ss)
	case 16:
		return fmt.Sprintf("quic_tp|%d:%s", 0x3f5b+variant, hxe(r.Bytes(s)))
	case 17:
		return "psk_modes|" + genU8s(r, s)
	case 18:
		return "versions|" + u16n(s/2)
	case 19:
		return "cookie|" + hx(r.Bytes(s))
	case 21:
		return "reneg|" + hx(r.Bytes(s))
	case 24:
		return fmt.Sprintf("token_binding|%d|%d|%s", 1, 0, genU8s(r, s))
	case 26:
		return "session_ticket|" + hx(r.Bytes(s))
	case 27: // fake PSK: variant 0 sizes the identities (2+len+4 each), variant 1 the binders (1+len each, 32..255)
		if variant == 0 {
			return fmt.Sprintf("psk|1|0|0|%s:%d|%s", hxe(r.Bytes(s-6)), r.U64()&0xffffffff, hxe(r.Bytes(32)))
		}
		var ids, bs []string
		for _, b := range splitNames(r, s, 1) {
			if len(b) < 32 {
				b = r.Bytes(32)
			}
			ids = append(ids, fmt.Sprintf("%s:%d", hxe(r.Bytes(8)), r.U64()&0xffffffff))
			bs = append(bs, hxe(b))
		}
		return fmt.Sprintf("psk|1|0|0|%s|%s", joinList(ids), joinList(bs))
	case 28:
		if variant == 0 {
			return fmt.Sprintf("ech|1|1|%d|%s|%s", r.Intn(256), hx(r.Bytes(32)), hx(r.Bytes(max(16, s-42))))
		}
		return fmt.Sprintf("ech|2|3|%d|%s|%s", r.Intn(256), hx(r.Bytes(max(1, s-42-16))), hx(r.Bytes(16)))
	}
	return genValidExt(r, kind)
}

// genBound: exhaustive sweep kind x size x variant; the extension sits between two small ones so that a
// wrong length prefix misparses what follows.
func genBound(r *Rng, i int) string {
	nk, ns := len(boundKinds), len(boundSizes)
	if i >= nk*ns*2 {
		return ""
	}
	kind, s, variant := boundKinds[i%nk], boundSizes[(i/nk)%ns], i/(nk*ns)
	exts := []string{"ems", genBoundaryExt(r, kind, s, variant), "sct", "curves|29,23"}
	if kind == 2 {
		exts[3] = "points|0"
	}
	if kind == 27 { // pre_shared_key last
		exts = []string{"ems", "sct", "curves|29,23", exts[1]}
	}
	return fmt.Sprintf("vers=771 random=%s sid=%s suites=4865,4866 comp=00 exts=%s pol=none", hx(r.Bytes(32)), hx(r.Bytes(32)), joinSemi(exts))
}

// ---- GREASE seed sweep ----

// greaseRand serves the 10-byte GREASE seed read of ApplyPreset from `g` and everything else from r.
type greaseRand struct {
	r *Rng
	g []byte
}

func (gr *greaseRand) Read(p []byte) (int, error) {
	if len(p) == 10 && len(gr.g) == 10 {
		copy(p, gr.g)
		return 10, nil
	}
	return gr.r.Read(p)
}

var _ io.Reader = (*greaseRand)(nil)

// ids whose spec has two GREASE extensions.
var twoGreaseIDs = func() []string {
	var ns []string
	for _, id := range parrotIDs {
		spec, err := tls.UTLSIdToSpec(id)
		if err != nil {
			continue
		}
		n := 0
		for _, e := range spec.Extensions {
			if _, ok := e.(*tls.UtlsGREASEExtension); ok {
				n++
			}
		}
		if n == 2 {
			ns = append(ns, idName(id))
		}
	}
	return ns
}()

// genGreaseSweep: the seed words of the two GREASE extensions (little-endian words 2 and 3 of the 10
// bytes) share bits 4..7 of the low byte — the only bits the code point depends on — and
// equal / differ in the low nibble / differ in the high byte / differ in that nibble (control).
func genGreaseSweep(r *Rng, i int) string {
	nib := i % 16
	mode := (i / 16) % 4
	g := r.Bytes(10)
	g[4] = byte(nib<<4) | byte(r.Intn(16))
	g[5] = byte(r.Intn(256))
	switch mode {
	case 0: // identical words
		g[6], g[7] = g[4], g[5]
	case 1: // same nibble, other low nibble
		g[6], g[7] = byte(nib<<4)|byte((int(g[4]&0x0f)+1+r.Intn(15))%16), g[5]
	case 2: // same low byte, other high byte
		g[6], g[7] = g[4], g[5]^byte(1+r.Intn(255))
	default: // different nibble
		g[6], g[7] = byte(((nib+1+r.Intn(15))%16)<<4)|byte(r.Intn(16)), byte(r.Intn(256))
	}
	id := twoGreaseIDs[(i/64+i)%len(twoGreaseIDs)]
	return fmt.Sprintf("id=%s gbytes=%s sni=%s alpn=- omitpsk=1 quic=0 rseed=%d", id, hx(g), hx([]byte("example.com")), r.U64()>>1)
}

// ---- re-marshal sequences on one padding extension object ----

// renderSteps: one line for the whole sequence: n=<steps> then every step's state/outcome with the
// step number as key prefix.
func renderSteps(steps []string) string {
	var sb strings.Builder
	fmt.Fprintf(&sb, "n=%d", len(steps))
	for k, st := range steps {
		for _, tok := range strings.Fields(st) {
			fmt.Fprintf(&sb, " %d.%s", k, tok)
		}
	}
	return sb.String()
}

func parseInts(s string) []int {
	var out []int
	for _, v := range parseU64s(s) {
		out = append(out, int(v))
	}
	return out
}

// execPadSeq: kind=sni    one UConn: BuildHandshakeState, then SetSNI(name_k) + BuildHandshakeState again
//
//	kind=cookie one UConn: a CookieExtension of lens[k] bytes is inserted / resized before every re-marshal
//	            (what processHelloRetryRequest does), MarshalClientHelloNoECH
//	kind=spec   one ClientHelloSpec object (parrot spec, or the fingerprint of a capture when fp=1)
//	            applied to a fresh UConn per step with a server name of lens[k] bytes
func execPadSeq(in KV) string {
	id, ok := chIDByName(in["id"], in.U64("rseed"))
	if !ok {
		return "out=bad-id"
	}
	s := shapeOf(in)
	lens := parseInts(in["lens"])
	r := NewRng(s.rseed ^ 0x5e9)
	var steps []string
	if in["kind"] != "cookie" {
		// lens are target unpadded lengths: turn them into server-name lengths for this parrot
		s0 := s
		s0.sni = ""
		uc0, err := buildWith(id, nil, s0)
		if err != nil {
			return "err=pre:probe-" + marshalErrClass(err)
		}
		base := unpaddedOf(uc0) + 9
		for k := range lens {
			lens[k] = max(1, lens[k]-base)
		}
	}
	switch in["kind"] {
	case "sni":
		s.sni = hostOfLen(r, max(1, lens[0]))
		uc, err := buildWith(id, nil, s)
		steps = append(steps, buildOutcome(uc, err))
		if err != nil {
			break
		}
		for _, l := range lens[1:] {
			uc.SetSNI(hostOfLen(r, max(1, l)))
			err = uc.BuildHandshakeState()
			steps = append(steps, buildOutcome(uc, err))
		}
	case "cookie":
		s.sni = "example.com"
		uc, err := buildWith(id, nil, s)
		steps = append(steps, buildOutcome(uc, err))
		if err != nil {
			break
		}
		// before key_share / PSK / padding would be the HRR position; any position before a trailing PSK does
		idx := len(uc.Extensions)
		if idx > 0 {
			if _, isPsk := uc.Extensions[idx-1].(tls.PreSharedKeyExtension); isPsk {
				idx--
			}
		}
		ck := &tls.CookieExtension{}
		uc.Extensions = append(uc.Extensions[:idx:idx], append([]tls.TLSExtension{ck}, uc.Extensions[idx:]...)...)
		for _, l := range lens {
			ck.Cookie = r.Bytes(max(1, l))
			err = uc.MarshalClientHelloNoECH()
			steps = append(steps, buildOutcome(uc, err))
		}
	case "spec":
		var spec *tls.ClientHelloSpec
		if in["fp"] == "1" {
			s.sni = hostOfLen(r, max(1, lens[0]))
			uc0, err := buildWith(id, nil, s)
			if err != nil {
				return "err=pre:capture-" + marshalErrClass(err)
			}
			spec, err = (&tls.Fingerprinter{}).FingerprintClientHello(recordOf(uc0.HandshakeState.Hello.Raw))
			if err != nil {
				return "err=pre:fingerprint-" + sanitize(err.Error())
			}
		} else {
			sp, err := tls.UTLSIdToSpec(id)
			if err != nil {
				return "err=pre:nospec"
			}
			spec = &sp
		}
		for k, l := range lens {
			sk := s
			sk.sni = hostOfLen(r, max(1, l))
			sk.rseed = s.rseed + uint64(k)
			// the SNI extension object is shared through the spec as well: a later connection names its
			// server with SetSNI (ApplyPreset only fills an empty name)
			var uc *tls.UConn
			var err error
			withCryptoRand(sk.rseed^0xc0de, func() {
				uc = sk.client(tls.HelloCustom)
				if err = uc.ApplyPreset(spec); err != nil {
					return
				}
				uc.SetSNI(sk.sni)
				err = uc.BuildHandshakeState()
			})
			steps = append(steps, buildOutcome(uc, err))
		}
	default:
		return "out=bad-kind"
	}
	return renderSteps(steps)
}

func genPadSeq(r *Rng, i int) string {
	id := paddingIDNames[i%len(paddingIDNames)]
	n := 2 + r.Intn(3)
	var lens []string
	kind := []string{"sni", "cookie", "spec", "spec"}[i%4]
	fp := 0
	if kind == "spec" && i%8 >= 4 {
		fp = 1
	}
	inRange := []int{256, 257, 300, 400, 506, 507, 508, 511}
	outRange := []int{512, 513, 600, 700, 512, 600, 255, 200}
	for k := 0; k < n; k++ {
		var l int
		switch {
		case kind == "cookie": // the first hello has no cookie; then it grows past 512 and shrinks back
			l = Pick(r, []int{1, 8, 32, 200, 300, 400, 600})
		case fp == 1 && k == 0: // the capture: padded
			l = Pick(r, []int{300, 400, 450})
		case (k+i/4)%2 == 0:
			l = Pick(r, inRange)
		default:
			l = Pick(r, outRange)
		}
		lens = append(lens, fmt.Sprint(l))
	}
	return fmt.Sprintf("kind=%s fp=%d id=%s lens=%s alpn=- omitpsk=1 quic=0 rseed=%d", kind, fp, id, strings.Join(lens, ","), r.U64()>>1)
}

func init() {
	register(&Family{Name: "ch_bound", Gen: func(r *Rng, i int, tier string) string { return genBound(r, i) }, Exec: execMarshal})
	register(&Family{
		Name: "ch_grease",
		Gen:  func(r *Rng, i int, tier string) string { return genGreaseSweep(r, i) },
		Exec: func(in KV) string {
			id, ok := chIDByName(in["id"], in.U64("rseed"))
			if !ok {
				return "out=bad-id"
			}
			uc, err := buildWith(id, nil, shapeOf(in))
			return buildOutcome(uc, err)
		},
	})
	register(&Family{Name: "pad_seq", Gen: func(r *Rng, i int, tier string) string { return genPadSeq(r, i) }, Exec: execPadSeq})
}
