package main

import (
	"fmt"

	tls "github.com/refraction-networking/utls"
)

// ---- C02: BOTH ClientHellos of a handshake with a HelloRetryRequest ----
//
// "every ClientHello utls emits": the second hello is re-marshalled by processHelloRetryRequest from
// uconn.Extensions after inserting the server's cookie at a random position and replacing the key
// share. A scripted TCP peer (runScripted of the C17 harness) answers the first hello with a valid
// HRR — selected group the client listed without a share and/or a cookie of 1 / 32 / 1000 bytes —
// and closes after the second hello. Output: ch1= ch2= (the hellos on the wire, reassembled from the
// records), cerr=, and the state uconn.Extensions / Hello are in afterwards = what the second
// marshal read, from which the model predicts ch2.

var hrrCookieLens = []int{0, 1, 32, 1000, 1, 32, 200}

func genChHrr(r *Rng, i int, tier string) string {
	rseed := r.U64() >> 1
	ck := hrrCookieLens[i%len(hrrCookieLens)]
	g := Pick(r, []int{23, 24})
	if ck > 0 && r.Intn(3) == 0 {
		g = 0 // cookie-only HRR
	}
	if i%3 != 2 {
		ids := tls13IDs()
		id := ids[(i/3*2+i%3)%len(ids)]
		if g != 0 { // a group the parrot lists without sending a share for it (ECDHE groups the library can generate)
			groups, shares, _ := specGroups(id)
			g = 0
			for _, c := range groups {
				shared := false
				for _, sh := range shares {
					shared = shared || sh == c
				}
				if !shared && (c == 23 || c == 24 || c == 25 || c == 29) {
					g = int(c)
					break
				}
			}
			if g == 0 && ck == 0 {
				ck = 32
			}
		}
		return fmt.Sprintf("id=%s ck=%d g=%d rseed=%d", idName(id), ck, g, rseed)
	}
	boundaryBias = false
	defer func() { boundaryBias = true }()
	// generated spec: the extensions a TLS 1.3 hello needs + a random selection of others (each type once,
	// no cookie of its own, padding / fake PSK sometimes)
	must := []string{"sni|-", "versions|772,771", "curves|29,23,24,25", "key_share|29:e", "sigalgs|1027,2052,1025,1283,2053"}
	var opt []string
	for _, k := range []int{1, 3, 5, 7, 8, 9, 10, 11, 12, 14, 17, 20, 21, 22, 23, 24, 25, 26, 28} {
		if r.Intn(3) == 0 {
			opt = append(opt, genValidExt(r, k))
		}
	}
	exts := append(must, opt...)
	for j := len(exts) - 1; j > 0; j-- {
		k := r.Intn(j + 1)
		exts[j], exts[k] = exts[k], exts[j]
	}
	pol := "none"
	if r.Intn(2) == 0 {
		at := r.Intn(len(exts) + 1)
		exts = append(exts[:at:at], append([]string{"padding|0|0"}, exts[at:]...)...)
		pol = "boring"
	}
	if r.Intn(4) == 0 {
		exts = append(exts, "psk_modes|1", fmt.Sprintf("psk|1|0|0|%s:%d|%s", hxe(r.Bytes(1+r.Intn(40))), r.Intn(1<<30), hxe(r.Bytes(32))))
	}
	return fmt.Sprintf("id=Custom exts=%s pol=%s suites=4865,4866,4867,49195,49199 comp=00 vmax=772 ck=%d g=%d rseed=%d", joinSemi(exts), pol, ck, g, rseed)
}

func execChHrr(in KV) string {
	var id tls.ClientHelloID
	var spec *tls.ClientHelloSpec
	if in["id"] == "Custom" {
		id = tls.HelloCustom
		spec = specFrom(in)
	} else {
		var ok bool
		if id, ok = idByName(in["id"]); !ok {
			return "out=bad-id"
		}
	}
	rseed := in.U64("rseed")
	g := uint16(in.U64("g"))
	cookie := NewRng(rseed ^ 0xc00c1e).Bytes(in.Int("ck"))
	mk := func(ch1 []byte) *shMsg {
		h := baseHRR(ch1, g)
		if g == 0 {
			applyHRRMut(h, "nogroup", 0, cookie)
		} else {
			applyHRRMut(h, "valid", 0, cookie)
		}
		return h
	}
	sr := runScripted(id, spec, rseed, mk, nil)
	if sr.prepErr != nil {
		return "err=pre:" + sanitize(sr.prepErr.Error())
	}
	hellos := clientHellos(sr.wire)
	ch1, ch2 := "-", "-"
	if len(hellos) > 0 {
		ch1 = hx(hellos[0])
	}
	if len(hellos) > 1 {
		ch2 = hx(hellos[1])
	}
	out := fmt.Sprintf("ch1=%s ch2=%s nhello=%d cerr=%s", ch1, ch2, len(hellos), cerrClass(sr.cerr))
	if len(hellos) > 1 {
		out += " " + helloState(sr.u)
	}
	return out
}

func init() {
	register(&Family{Name: "ch_hrr", Gen: func(r *Rng, i int, tier string) string { return genChHrr(r, i, tier) }, Exec: execChHrr})
}
