package main

import (
	crand "crypto/rand"
	"fmt"
	"io"
	"strconv"
	"strings"
	"sync"

	tls "github.com/refraction-networking/utls"
)

// ---- C04: GREASE ----

var cryptoRandMu sync.Mutex

// withCryptoRand runs f with crypto/rand.Reader replaced by a deterministic logging reader.
func withCryptoRand(seed uint64, f func()) []byte {
	cryptoRandMu.Lock()
	defer cryptoRandMu.Unlock()
	old := crand.Reader
	rr := &recReader{r: NewRng(seed)}
	crand.Reader = rr
	defer func() { crand.Reader = old }()
	f()
	var all []byte
	for _, b := range rr.log {
		all = append(all, b...)
	}
	return all
}

var _ io.Reader = (*recReader)(nil)

func u16list(xs []uint16) string {
	ss := make([]string, len(xs))
	for i, x := range xs {
		ss[i] = strconv.Itoa(int(x))
	}
	return joinList(ss)
}

func init() {
	register(&Family{
		Name: "grease_val",
		Gen: func(r *Rng, i int, tier string) string {
			if tier == "thorough" {
				if i >= 65536 {
					return ""
				}
				return fmt.Sprintf("seed=%d", i)
			}
			if i < 512 {
				return fmt.Sprintf("seed=%d", i*128+i%128)
			}
			return fmt.Sprintf("seed=%d", r.Intn(65536))
		},
		Exec: func(in KV) string {
			s := uint16(in.U64("seed"))
			var vals []uint16
			for idx := 0; idx < 5; idx++ {
				var arr [5]uint16
				for j := range arr {
					arr[j] = ^s // other slots hold something else: the value must depend on arr[idx] only
				}
				arr[idx] = s
				vals = append(vals, tls.GetBoringGREASEValue(arr, idx))
			}
			return "vals=" + u16list(vals)
		},
	})
	register(&Family{
		Name: "grease_hello",
		Gen: func(r *Rng, i int, tier string) string {
			id := parrotIDs[i%len(parrotIDs)]
			return fmt.Sprintf("id=%s rseed=%d", idName(id), r.U64()>>1)
		},
		Exec: execGreaseHello,
	})
	register(&Family{
		Name: "grease_reapply",
		Gen:  c04GenReapply,
		Exec: c04ExecReapply,
	})
	register(&Family{
		Name: "grease_quic",
		Gen: func(r *Rng, i int, tier string) string {
			return fmt.Sprintf("rseed=%d idover=%d", r.U64()>>1, Pick(r, []uint64{0, 0, 11, 26, 27, 58, 59, 89, 1, 30}))
		},
		Exec: func(in KV) string {
			var id uint64
			var ver uint32
			var idFinal uint64
			log1 := withCryptoRand(in.U64("rseed"), func() { id = tls.GREASETransportParameter{}.GetGREASEID() })
			log2 := withCryptoRand(in.U64("rseed")+1, func() { ver = (&tls.VersionInformation{}).GetGREASEVersion() })
			over := in.U64("idover")
			log3 := withCryptoRand(in.U64("rseed")+2, func() {
				g := &tls.GREASETransportParameter{IdOverride: over, Length: 3}
				idFinal = g.ID()
			})
			vi := &tls.VersionInformation{ChoosenVersion: 1, AvailableVersions: []uint32{tls.VERSION_GREASE, 1, tls.VERSION_GREASE}}
			var val []byte
			log4 := withCryptoRand(in.U64("rseed")+3, func() { val = vi.Value() })
			return fmt.Sprintf("id=%d idlog=%s ver=%d verlog=%s idfinal=%d id3log=%s vival=%s vilog=%s isgrease=%v",
				id, hx(log1), ver, hx(log2), idFinal, hx(log3), hx(val), hx(log4), tls.GREASETransportParameter{}.IsGREASEID(over))
		},
	})
}

func execGreaseHello(in KV) string {
	id, ok := idByName(in["id"])
	if !ok {
		return "out=bad-id"
	}
	spec, err := tls.UTLSIdToSpec(id)
	if err != nil {
		return "out=nospec"
	}
	rr := &recReader{r: NewRng(in.U64("rseed"))}
	uc := tls.UClient(nil, &tls.Config{ServerName: "example.com", Rand: rr, OmitEmptyPsk: true}, id)
	if err := uc.BuildHandshakeState(); err != nil {
		return "out=err msg=" + sanitize(err.Error())
	}
	var gbytes []byte
	n10 := 0
	for _, b := range rr.log {
		if len(b) == 10 {
			gbytes = b
			n10++
		}
	}
	// the spec before substitution
	var sGroups, sShares, sVers []uint16
	for _, e := range spec.Extensions {
		switch x := e.(type) {
		case *tls.SupportedCurvesExtension:
			for _, c := range x.Curves {
				sGroups = append(sGroups, uint16(c))
			}
		case *tls.KeyShareExtension:
			for _, k := range x.KeyShares {
				sShares = append(sShares, uint16(k.Group))
			}
		case *tls.SupportedVersionsExtension:
			sVers = append(sVers, x.Versions...)
		}
	}
	// what the connection holds after ApplyPreset
	var groups, shares, vers, gext []uint16
	var gbody []string
	for _, e := range uc.Extensions {
		switch x := e.(type) {
		case *tls.SupportedCurvesExtension:
			for _, c := range x.Curves {
				groups = append(groups, uint16(c))
			}
		case *tls.KeyShareExtension:
			for _, k := range x.KeyShares {
				shares = append(shares, uint16(k.Group))
			}
		case *tls.SupportedVersionsExtension:
			vers = append(vers, x.Versions...)
		case *tls.UtlsGREASEExtension:
			gext = append(gext, x.Value)
			gbody = append(gbody, hx(x.Body))
		}
	}
	return fmt.Sprintf("n10=%d gbytes=%s seeds=%s sciphers=%s sgroups=%s sshares=%s svers=%s ciphers=%s groups=%s shares=%s vers=%s gext=%s gbody=%s",
		n10, hx(gbytes), u16list(uc.VerifGreaseSeed()), u16list(spec.CipherSuites), u16list(sGroups), u16list(sShares), u16list(sVers),
		u16list(uc.HandshakeState.Hello.CipherSuites), u16list(groups), u16list(shares), u16list(vers), u16list(gext), strings.Join(gbody, ","))
}

// ---- grease_reapply: one spec OBJECT applied several times ----
//
// ApplyPreset rewrites the Curves / KeyShares[i].Group / Versions of the spec's extension objects in
// place, so a second application of the same object sees concrete GREASE values instead of the
// placeholder. Sequences:
//   mode=two     one UConn: (k-1) x BuildHandshakeStateWithoutSession, then BuildHandshakeState (the cached
//                uconn.clientHelloSpec is re-applied by every step); one Config.Rand
//   mode=shared  one ClientHelloSpec given to k HelloCustom connections, each with its own Config.Rand;
//                lit=c,g,k,v (0 = keep) first writes literal GREASE values other than the placeholder into
//                the spec's cipher suites / supported_groups / key_share groups / supported_versions
// Every step reports the 10 GREASE bytes read from that step's Config.Rand, the connection's seed words,
// the values held by the handshake state and the values parsed from the marshalled ClientHello.

func c04GenReapply(r *Rng, i int, tier string) string {
	c04IDsOnce.Do(func() {
		for _, id := range parrotIDs {
			spec, err := tls.UTLSIdToSpec(id)
			if err != nil {
				continue
			}
			g := false
			for _, c := range spec.CipherSuites {
				g = g || c04IsGrease(c)
			}
			if g {
				c04GreaseIDs = append(c04GreaseIDs, id)
			} else {
				c04PlainIDs = append(c04PlainIDs, id)
			}
		}
	})
	// parrots carrying GREASE in rotation; every 8th case one without (nothing may be GREASEd there)
	ids := c04GreaseIDs
	if i%8 == 7 && len(c04PlainIDs) > 0 || len(ids) == 0 {
		ids = c04PlainIDs
	}
	id := ids[(i/8*7+i%8)%len(ids)]
	round := i / 8
	mode := []string{"two", "shared", "shared"}[round%3]
	k := 2 + r.Intn(2)
	lit := "0,0,0,0"
	if mode == "shared" && round%3 == 2 {
		g := func() int {
			if r.Intn(4) == 0 {
				return 0
			}
			n := 1 + r.Intn(15) // any GREASE value but the placeholder 0x0a0a
			return (n<<4|0xa)<<8 | (n<<4 | 0xa)
		}
		lit = fmt.Sprintf("%d,%d,%d,%d", g(), g(), g(), g())
	}
	return fmt.Sprintf("id=%s mode=%s k=%d rseed=%d lit=%s", idName(id), mode, k, r.U64()>>1, lit)
}

var (
	c04IDsOnce   sync.Once
	c04GreaseIDs []tls.ClientHelloID
	c04PlainIDs  []tls.ClientHelloID
)

func c04IsGrease(v uint16) bool { return v>>8 == v&0xff && v&0xf == 0xa }

// c04SpecLists reads the GREASE-bearing lists of a spec / of a connection's extension objects.
func c04SpecLists(exts []tls.TLSExtension) (groups, shares, vers, gext []uint16) {
	for _, e := range exts {
		switch x := e.(type) {
		case *tls.SupportedCurvesExtension:
			for _, c := range x.Curves {
				groups = append(groups, uint16(c))
			}
		case *tls.KeyShareExtension:
			for _, k := range x.KeyShares {
				shares = append(shares, uint16(k.Group))
			}
		case *tls.SupportedVersionsExtension:
			vers = append(vers, x.Versions...)
		case *tls.UtlsGREASEExtension:
			gext = append(gext, x.Value)
		}
	}
	return
}

// c04ParseHello reads the same lists from a marshalled ClientHello (handshake message).
func c04ParseHello(raw []byte) (ciphers, groups, shares, vers, gext []uint16, ok bool) {
	u16 := func(b []byte) int { return int(b[0])<<8 | int(b[1]) }
	defer func() {
		if recover() != nil {
			ok = false
		}
	}()
	p := raw[4:]
	p = p[2+32:]
	p = p[1+int(p[0]):]
	n := u16(p)
	for q := p[2 : 2+n]; len(q) >= 2; q = q[2:] {
		ciphers = append(ciphers, uint16(u16(q)))
	}
	p = p[2+n:]
	p = p[1+int(p[0]):]
	if u16(p) != len(p)-2 {
		return nil, nil, nil, nil, nil, false
	}
	p = p[2:]
	for len(p) > 0 {
		id, l := uint16(u16(p)), u16(p[2:])
		body := p[4 : 4+l]
		p = p[4+l:]
		switch {
		case id == 10:
			for q := body[2:]; len(q) >= 2; q = q[2:] {
				groups = append(groups, uint16(u16(q)))
			}
		case id == 51:
			for q := body[2:]; len(q) >= 4; q = q[4+u16(q[2:]):] {
				shares = append(shares, uint16(u16(q)))
			}
		case id == 43:
			for q := body[1:]; len(q) >= 2; q = q[2:] {
				vers = append(vers, uint16(u16(q)))
			}
		case c04IsGrease(id):
			gext = append(gext, id)
		}
	}
	return ciphers, groups, shares, vers, gext, true
}

func c04ExecReapply(in KV) string {
	id, ok := idByName(in["id"])
	if !ok {
		return "out=bad-id"
	}
	spec, err := tls.UTLSIdToSpec(id)
	if err != nil {
		return "out=nospec"
	}
	k := in.Int("k")
	if k < 1 || k > 8 {
		return "out=bad-k"
	}
	lit := parseU64s(in["lit"])
	for len(lit) < 4 {
		lit = append(lit, 0)
	}
	shared := in["mode"] == "shared"
	if shared {
		// literal GREASE values written by the user instead of the placeholder
		for i, c := range spec.CipherSuites {
			if c04IsGrease(c) && lit[0] != 0 {
				spec.CipherSuites[i] = uint16(lit[0])
			}
		}
		for _, e := range spec.Extensions {
			switch x := e.(type) {
			case *tls.SupportedCurvesExtension:
				for i, c := range x.Curves {
					if c04IsGrease(uint16(c)) && lit[1] != 0 {
						x.Curves[i] = tls.CurveID(lit[1])
					}
				}
			case *tls.KeyShareExtension:
				for i, ks := range x.KeyShares {
					if c04IsGrease(uint16(ks.Group)) && lit[2] != 0 {
						x.KeyShares[i].Group = tls.CurveID(lit[2])
					}
				}
			case *tls.SupportedVersionsExtension:
				for i, v := range x.Versions {
					if c04IsGrease(v) && lit[3] != 0 {
						x.Versions[i] = uint16(lit[3])
					}
				}
			}
		}
	}
	sGroups, sShares, sVers, sGext := c04SpecLists(spec.Extensions)
	out := fmt.Sprintf("n=%d next=%d sciphers=%s sgroups=%s sshares=%s svers=%s", k, len(sGext),
		u16list(spec.CipherSuites), u16list(sGroups), u16list(sShares), u16list(sVers))

	var uc *tls.UConn
	var rr *recReader
	seen := 0 // reads of rr already attributed to an earlier step
	master := NewRng(in.U64("rseed")) // one independent Config.Rand stream per connection
	for j := 0; j < k; j++ {
		if shared || j == 0 {
			rr = &recReader{r: NewRng(master.U64())}
			seen = 0
			cfg := &tls.Config{ServerName: "example.com", Rand: rr, OmitEmptyPsk: true}
			if shared {
				uc = tls.UClient(nil, cfg, tls.HelloCustom)
			} else {
				uc = tls.UClient(nil, cfg, id)
			}
		}
		var err error
		switch {
		case shared:
			if err = uc.ApplyPreset(&spec); err == nil {
				err = uc.BuildHandshakeState()
			}
		case j < k-1:
			err = uc.BuildHandshakeStateWithoutSession()
		default:
			err = uc.BuildHandshakeState()
		}
		if err != nil {
			return fmt.Sprintf("out=err step=%d msg=%s", j, sanitize(err.Error()))
		}
		var gbytes []byte
		n10 := 0
		for _, b := range rr.log[seen:] {
			if len(b) == 10 {
				gbytes = b
				n10++
			}
		}
		seen = len(rr.log)
		groups, shares, vers, gext := c04SpecLists(uc.Extensions)
		wc, wg, wk, wv, we, wok := c04ParseHello(uc.HandshakeState.Hello.Raw)
		if !wok {
			return fmt.Sprintf("out=err step=%d msg=unparsable-hello", j)
		}
		out += fmt.Sprintf(" n10_%d=%d gb%d=%s seeds%d=%s ciphers%d=%s groups%d=%s shares%d=%s vers%d=%s gext%d=%s wc%d=%s wg%d=%s wk%d=%s wv%d=%s we%d=%s",
			j, n10, j, hx(gbytes), j, u16list(uc.VerifGreaseSeed()), j, u16list(uc.HandshakeState.Hello.CipherSuites),
			j, u16list(groups), j, u16list(shares), j, u16list(vers), j, u16list(gext),
			j, u16list(wc), j, u16list(wg), j, u16list(wk), j, u16list(wv), j, u16list(we))
	}
	return out
}
