package main

import (
	crand "crypto/rand"
	"fmt"
	"io"
	"strconv"
	"strings"
	"sync"

	tls "github.com/refraction-networking/utls"
)

// ---- C04: GREASE ----

var cryptoRandMu sync.Mutex

// withCryptoRand runs f with crypto/rand.Reader replaced by a deterministic logging reader.
func withCryptoRand(seed uint64, f func()) []byte {
	cryptoRandMu.Lock()
	defer cryptoRandMu.Unlock()
	old := crand.Reader
	rr := &recReader{r: NewRng(seed)}
	crand.Reader = rr
	defer func() { crand.Reader = old }()
	f()
	var all []byte
	for _, b := range rr.log {
		all = append(all, b...)
	}
	return all
}

var _ io.Reader = (*recReader)(nil)

func u16list(xs []uint16) string {
	ss := make([]string, len(xs))
	for i, x := range xs {
		ss[i] = strconv.Itoa(int(x))
	}
	return joinList(ss)
}

func init() {
	register(&Family{
		Name: "grease_val",
		Gen: func(r *Rng, i int, tier string) string {
			if tier == "thorough" {
				if i >= 65536 {
					return ""
				}
				return fmt.Sprintf("seed=%d", i)
			}
			if i < 512 {
				return fmt.Sprintf("seed=%d", i*128+i%128)
			}
			return fmt.Sprintf("seed=%d", r.Intn(65536))
		},
		Exec: func(in KV) string {
			s := uint16(in.U64("seed"))
			var vals []uint16
			for idx := 0; idx < 5; idx++ {
				var arr [5]uint16
				for j := range arr {
					arr[j] = ^s // other slots hold something else: the value must depend on arr[idx] only
				}
				arr[idx] = s
				vals = append(vals, tls.GetBoringGREASEValue(arr, idx))
			}
			return "vals=" + u16list(vals)
		},
	})
	register(&Family{
		Name: "grease_hello",
		Gen: func(r *Rng, i int, tier string) string {
			id := parrotIDs[i%len(parrotIDs)]
			return fmt.Sprintf("id=%s rseed=%d", idName(id), r.U64()>>1)
		},
		Exec: execGreaseHello,
	})
	register(&Family{
		Name: "grease_quic",
		Gen: func(r *Rng, i int, tier string) string {
			return fmt.Sprintf("rseed=%d idover=%d", r.U64()>>1, Pick(r, []uint64{0, 0, 11, 26, 27, 58, 59, 89, 1, 30}))
		},
		Exec: func(in KV) string {
			var id uint64
			var ver uint32
			var idFinal uint64
			log1 := withCryptoRand(in.U64("rseed"), func() { id = tls.GREASETransportParameter{}.GetGREASEID() })
			log2 := withCryptoRand(in.U64("rseed")+1, func() { ver = (&tls.VersionInformation{}).GetGREASEVersion() })
			over := in.U64("idover")
			log3 := withCryptoRand(in.U64("rseed")+2, func() {
				g := &tls.GREASETransportParameter{IdOverride: over, Length: 3}
				idFinal = g.ID()
			})
			vi := &tls.VersionInformation{ChoosenVersion: 1, AvailableVersions: []uint32{tls.VERSION_GREASE, 1, tls.VERSION_GREASE}}
			var val []byte
			log4 := withCryptoRand(in.U64("rseed")+3, func() { val = vi.Value() })
			return fmt.Sprintf("id=%d idlog=%s ver=%d verlog=%s idfinal=%d id3log=%s vival=%s vilog=%s isgrease=%v",
				id, hx(log1), ver, hx(log2), idFinal, hx(log3), hx(val), hx(log4), tls.GREASETransportParameter{}.IsGREASEID(over))
		},
	})
}

func execGreaseHello(in KV) string {
	id, ok := idByName(in["id"])
	if !ok {
		return "out=bad-id"
	}
	spec, err := tls.UTLSIdToSpec(id)
	if err != nil {
		return "out=nospec"
	}
	rr := &recReader{r: NewRng(in.U64("rseed"))}
	uc := tls.UClient(nil, &tls.Config{ServerName: "example.com", Rand: rr, OmitEmptyPsk: true}, id)
	if err := uc.BuildHandshakeState(); err != nil {
		return "out=err msg=" + sanitize(err.Error())
	}
	var gbytes []byte
	n10 := 0
	for _, b := range rr.log {
		if len(b) == 10 {
			gbytes = b
			n10++
		}
	}
	// the spec before substitution
	var sGroups, sShares, sVers []uint16
	for _, e := range spec.Extensions {
		switch x := e.(type) {
		case *tls.SupportedCurvesExtension:
			for _, c := range x.Curves {
				sGroups = append(sGroups, uint16(c))
			}
		case *tls.KeyShareExtension:
			for _, k := range x.KeyShares {
				sShares = append(sShares, uint16(k.Group))
			}
		case *tls.SupportedVersionsExtension:
			sVers = append(sVers, x.Versions...)
		}
	}
	// what the connection holds after ApplyPreset
	var groups, shares, vers, gext []uint16
	var gbody []string
	for _, e := range uc.Extensions {
		switch x := e.(type) {
		case *tls.SupportedCurvesExtension:
			for _, c := range x.Curves {
				groups = append(groups, uint16(c))
			}
		case *tls.KeyShareExtension:
			for _, k := range x.KeyShares {
				shares = append(shares, uint16(k.Group))
			}
		case *tls.SupportedVersionsExtension:
			vers = append(vers, x.Versions...)
		case *tls.UtlsGREASEExtension:
			gext = append(gext, x.Value)
			gbody = append(gbody, hx(x.Body))
		}
	}
	return fmt.Sprintf("n10=%d gbytes=%s seeds=%s sciphers=%s sgroups=%s sshares=%s svers=%s ciphers=%s groups=%s shares=%s vers=%s gext=%s gbody=%s",
		n10, hx(gbytes), u16list(uc.VerifGreaseSeed()), u16list(spec.CipherSuites), u16list(sGroups), u16list(sShares), u16list(sVers),
		u16list(uc.HandshakeState.Hello.CipherSuites), u16list(groups), u16list(shares), u16list(vers), u16list(gext), strings.Join(gbody, ","))
}
