package main

import (
	"fmt"
	"strings"

	tls "github.com/refraction-networking/utls"
)

// ---- C05: padding policy ----
// Same line format as the C02 families (state + raw|err); the Lean driver adds the padding
// monitors: unpadded length recovered from the parsed raw bytes, policy boundaries, zero body,
// no second padding extension, captured-length reproduction.

// boundary-biased unpadded lengths
var padTargets = []int{200, 254, 255, 256, 257, 300, 400, 506, 507, 508, 509, 510, 511, 512, 513, 600}

// unpaddedOf: what the implementation itself accounts for without the padding extension.
func unpaddedOf(uc *tls.UConn) int {
	h := uc.HandshakeState.Hello
	n := 4 + 2 + 32 + 1 + len(h.SessionId) + 2 + 2*len(h.CipherSuites) + 1 + len(h.CompressionMethods) + 2
	for _, e := range uc.Extensions {
		if _, ok := e.(*tls.UtlsPaddingExtension); !ok {
			n += e.Len()
		}
	}
	return n
}

// execPadSweep: parrot `id` with a server name chosen so that the unpadded length lands on `target`
// (when reachable), or with the explicit length `snilen`.
func execPadSweep(in KV) string {
	id := tls.HelloCustom
	if in["exts"] == "" {
		var ok bool
		if id, ok = chIDByName(in["id"], in.U64("rseed")); !ok {
			return "out=bad-id"
		}
	}
	s := shapeOf(in)
	r := NewRng(s.rseed ^ 0xabc)
	var spec *tls.ClientHelloSpec
	mk := func() *tls.ClientHelloSpec {
		if in["exts"] != "" {
			return specFrom(in)
		}
		return spec
	}
	snilen := -1
	if v, ok := in["snilen"]; ok {
		fmt.Sscanf(v, "%d", &snilen)
	} else {
		s.sni = ""
		uc0, err := buildWith(id, mk(), s)
		if err != nil {
			return "err=pre:probe-" + marshalErrClass(err)
		}
		snilen = int(in.U64("target")) - unpaddedOf(uc0) - 9
		if snilen < 1 {
			snilen = 1 + r.Intn(3)
		}
	}
	s.sni = hostOfLen(r, snilen)
	uc, err := buildWith(id, mk(), s)
	return fmt.Sprintf("snilen=%d %s", snilen, buildOutcome(uc, err))
}

func genPadSweep(r *Rng, i int, tier string) string {
	base := fmt.Sprintf("alpn=- omitpsk=1 quic=0 rseed=%d", r.U64()>>1)
	id := paddingIDNames[(i/4*3+i%4)%len(paddingIDNames)]
	if i%4 != 3 {
		switch {
		case ticketIDs[id] && r.Intn(5) == 0:
			base += fmt.Sprintf(" ticket=%d", Pick(r, []int{1, 30, 100, 180}))
		case pskIDs[id] && r.Intn(3) == 0:
			base += fmt.Sprintf(" fakepsk=%d", Pick(r, []int{1, 30, 100}))
		case r.Intn(8) == 0:
			base += " cache=1"
		}
	}
	if i%4 == 3 { // generated spec with an ALPN list and a padding extension
		exts := []string{"sni|-", "alpn|" + genValidProtos(r), "curves|29,23", "sigalgs|1027,2052", "versions|772,771", "key_share|29:e"}
		at := r.Intn(len(exts) + 1)
		exts = append(exts[:at], append([]string{"padding|0|0"}, exts[at:]...)...)
		return fmt.Sprintf("exts=%s pol=boring suites=%s comp=00 vmax=772 target=%d %s", joinSemi(exts), genSuites(r), Pick(r, padTargets), base)
	}
	if r.Intn(3) == 0 {
		return fmt.Sprintf("id=%s snilen=%d %s", id, r.Intn(256), base)
	}
	return fmt.Sprintf("id=%s target=%d %s", id, Pick(r, padTargets), base)
}

// genPadDirect: MarshalClientHelloNoECH on a hand-made state whose unpadded length is exactly `target`.
func genPadDirect(r *Rng, i int) string {
	sid := r.Bytes(Pick(r, []int{0, 32}))
	nsuites := 1 + r.Intn(8)
	var suites []uint16
	for k := 0; k < nsuites; k++ {
		suites = append(suites, uint16(0x1301+k))
	}
	target := Pick(r, padTargets)
	if r.Intn(4) == 0 {
		target = 250 + r.Intn(270)
	}
	pol := Pick(r, []string{"boring", "boring", "boring", "none", "padto"})
	fixed := []string{"ems", "curves|29,23,24"}
	if r.Bool() {
		fixed = append(fixed, "sni|"+hx([]byte(hostOfLen(r, 3+r.Intn(20)))))
	}
	used := 4 + 2 + 32 + 1 + len(sid) + 2 + 2*nsuites + 1 + 1 + 2
	for _, d := range fixed {
		used += buildExt(d).Len()
	}
	k := target - used - 4
	if k < 0 {
		k = 0
	}
	exts := append(fixed, fmt.Sprintf("zeros|%d|%d", 0x7777, k))
	pad := "padding|0|0"
	if pol == "none" {
		pad = fmt.Sprintf("padding|%d|%d", Pick(r, []int{0, 1, 5, 100}), r.Intn(2))
	}
	if pol == "padto" {
		pol = fmt.Sprintf("padto:%d", used+4+k+Pick(r, []int{-3, 0, 1, 4, 5, 6, 100, 1000}))
	}
	at := r.Intn(len(exts) + 1)
	exts = append(exts[:at], append([]string{pad}, exts[at:]...)...)
	if r.Intn(12) == 0 {
		exts = append(exts, "padding|0|0")
	}
	return fmt.Sprintf("vers=771 random=%s sid=%s suites=%s comp=00 exts=%s pol=%s", hx(r.Bytes(32)), hx(sid), u16list(suites), joinSemi(exts), pol)
}

func init() {
	register(&Family{Name: "pad_sweep", Gen: genPadSweep, Exec: execPadSweep})
	register(&Family{Name: "pad_direct", Gen: func(r *Rng, i int, tier string) string { return genPadDirect(r, i) }, Exec: execMarshal})
	register(&Family{
		Name: "pad_fp",
		Gen: func(r *Rng, i int, tier string) string {
			t := genFingerprint(r, paddingIDNames)
			if i%2 == 0 { // captures that do carry padding: names long enough to enter the padded range
				kv := parseKV(strings.Fields(t))
				n := 20 + r.Intn(120)
				kv["sni"] = hx([]byte(hostOfLen(r, n)))
				kv["sni2"] = hx([]byte(hostOfLen(r, n)))
				if r.Intn(4) == 0 {
					kv["sni2"] = hx([]byte(hostOfLen(r, n+1+r.Intn(9))))
				}
				t = fmt.Sprintf("id=%s flags=%s sni=%s sni2=%s alpn=- omitpsk=1 quic=0 rseed=%s", kv["id"], kv["flags"], kv["sni"], kv["sni2"], kv["rseed"])
			}
			return t
		},
		Exec: execFingerprint,
	})
}
