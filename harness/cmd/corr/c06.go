package main

// C06 — fingerprint → apply reproduces the shape.
//
// Family fp_rt: connection 1 builds a hello (every parrot id, randomized ids, generated custom
// specs); Fingerprinter{flags}.FingerprintClientHello of its record gives spec 1, which is applied
// with ApplyPreset on a fresh HelloCustom connection 2 (other Config.Rand, server name of the same or
// another length) and built; the record of hello 2 is fingerprinted again (spec 2). The line carries
// the state connection 1 marshalled from, both hellos, the material of connection 2 (observed through
// Config.Rand and the UConn, not through the bytes), and both specs. The Lean driver normalises both
// hellos by `shape`, compares lengths, compares the specs modulo per-connection parts, and predicts
// hello 2 exactly from hello 1 + material 2 with its model of FromRaw ∘ ApplyPreset ∘ Marshal.

import (
	"fmt"
	"strings"

	tls "github.com/refraction-networking/utls"
)

// c06NeedKeys: for every key-share entry of the spec, in order, whether ApplyPreset will generate a key.
func c06NeedKeys(exts []tls.TLSExtension) []bool {
	var out []bool
	for _, e := range exts {
		if k, ok := e.(*tls.KeyShareExtension); ok {
			for _, s := range k.KeyShares {
				g := uint16(s.Group)
				grease := (g>>8) == (g&0xff) && g&0xf == 0xa
				out = append(out, !grease && len(s.Data) <= 1)
			}
		}
	}
	return out
}

func c06Keys(need []bool, now []tls.TLSExtension) string {
	var ks [][]byte
	i := 0
	for _, e := range now {
		if k, ok := e.(*tls.KeyShareExtension); ok {
			for _, s := range k.KeyShares {
				if i < len(need) && need[i] {
					ks = append(ks, s.Data)
				}
				i++
			}
		}
	}
	return hexList(ks)
}

func c06SpecTokens(p string, s *tls.ClientHelloSpec) string {
	var ds []string
	for _, e := range s.Extensions {
		ds = append(ds, describeSExt(e))
	}
	return fmt.Sprintf("%ssuites=%s %scomp=%s %svmin=%d %svmax=%d %sexts=%s", p, u16list(s.CipherSuites), p, hx(s.CompressionMethods), p, s.TLSVersMin, p, s.TLSVersMax, p, joinSemi(ds))
}

func execFpRT(in KV) string {
	rseed := in.U64("rseed")
	s := shapeOf(in)
	s.omitPsk = true
	var uc1 *tls.UConn
	var err error
	if in["id"] == "Custom" {
		uc1, err = buildWith(tls.HelloCustom, specFrom(in), s)
	} else {
		id, ok := chIDByName(in["id"], rseed)
		if !ok {
			return "out=bad-id"
		}
		uc1, err = buildWith(id, nil, s)
	}
	if err != nil {
		return "err=pre:capture-" + marshalErrClass(err)
	}
	if cc, ok := in["capcomp"]; ok {
		// a capture the library's own ApplyPreset would not produce by default: other compression methods
		// (what pre-TLS-1.3 browsers sent), obtained by re-marshalling connection 1 with the field edited
		uc1.HandshakeState.Hello.CompressionMethods = unhex(cc)
		if err := uc1.MarshalClientHelloNoECH(); err != nil {
			return "err=pre:capture-" + marshalErrClass(err)
		}
	}
	if cg, ok := in["capgrease"]; ok {
		// a capture whose GREASE key share carries a key_exchange of another length than Chrome's single
		// byte (RFC 8701 allows any): connection 1 re-marshalled with that entry edited
		n := 0
		fmt.Sscanf(cg, "%d", &n)
		done := false
		for _, e := range uc1.Extensions {
			if k, ok := e.(*tls.KeyShareExtension); ok {
				for i := range k.KeyShares {
					g := uint16(k.KeyShares[i].Group)
					if (g>>8) == (g&0xff) && g&0xf == 0xa {
						k.KeyShares[i].Data = NewRng(rseed ^ 0x6ea5e).Bytes(n)
						done = true
					}
				}
			}
		}
		if done {
			if err := uc1.MarshalClientHelloNoECH(); err != nil {
				return "err=pre:capture-" + marshalErrClass(err)
			}
		}
	}
	raw1 := uc1.HandshakeState.Hello.Raw
	state1 := helloState(uc1)
	flags := in["flags"]
	fp := &tls.Fingerprinter{AllowBluntMimicry: strings.Contains(flags, "b"), AlwaysAddPadding: strings.Contains(flags, "p"), RealPSKResumption: strings.Contains(flags, "r")}
	var spec1 *tls.ClientHelloSpec
	if rb, ok := in["reuse"]; ok {
		// one ClientHelloSpec value used as the receiver of FromRaw for several hellos (what a caller that
		// fingerprints many captures does); a result kept BY VALUE must stay what it was when later calls
		// reuse the receiver. mode 1: FromRaw(A); keep a copy; FromRaw(B)[; FromRaw(A)]; apply the copy.
		// mode 0: FromRaw(B); FromRaw(A); apply the receiver itself.
		parts := strings.SplitN(rb, ":", 2)
		idB, okB := chIDByName(parts[0], rseed+7)
		var rawB []byte
		if okB {
			if ucB, errB := buildWith(idB, nil, s); errB == nil {
				rawB = ucB.HandshakeState.Hello.Raw
			}
		}
		if rawB == nil {
			rawB = raw1
		}
		var sp tls.ClientHelloSpec
		if parts[1] == "0" {
			sp.FromRaw(recordOf(rawB), fp.AllowBluntMimicry, fp.RealPSKResumption)
			err = sp.FromRaw(recordOf(raw1), fp.AllowBluntMimicry, fp.RealPSKResumption)
			if err == nil && fp.AlwaysAddPadding {
				sp.AlwaysAddPadding()
			}
			spec1 = &sp
		} else {
			err = sp.FromRaw(recordOf(raw1), fp.AllowBluntMimicry, fp.RealPSKResumption)
			if err == nil && fp.AlwaysAddPadding {
				sp.AlwaysAddPadding()
			}
			kept := sp
			sp.FromRaw(recordOf(rawB), fp.AllowBluntMimicry, fp.RealPSKResumption)
			if parts[1] == "2" {
				sp.FromRaw(recordOf(raw1), fp.AllowBluntMimicry, fp.RealPSKResumption)
			}
			spec1 = &kept
		}
	} else {
		spec1, err = fp.FingerprintClientHello(recordOf(raw1))
	}
	if err != nil {
		return state1 + " raw1=" + hx(raw1) + " fperr=" + sanitize(err.Error())
	}
	s1 := c06SpecTokens("s1", spec1)
	need := c06NeedKeys(spec1.Extensions)
	rr := &recReader{r: NewRng(rseed + 1)}
	cfg2 := &tls.Config{ServerName: string(in.Bytes("sni2")), Rand: rr, OmitEmptyPsk: true, InsecureSkipVerify: true}
	var uc2 *tls.UConn
	var err2 error
	func() {
		defer func() {
			if p := recover(); p != nil {
				err2 = fmt.Errorf("panic: %v", p)
			}
		}()
		withCryptoRand(rseed^0xc06, func() {
			uc2 = tls.UClient(nil, cfg2, tls.HelloCustom)
			if err2 = uc2.ApplyPreset(spec1); err2 != nil {
				return
			}
			err2 = uc2.BuildHandshakeState()
		})
	}()
	base := fmt.Sprintf("%s raw1=%s %s capsni=%d newsni=%d", state1, hx(raw1), s1, len(tls.VerifHostnameInSNI(s.sni)), len(tls.VerifHostnameInSNI(cfg2.ServerName)))
	if err2 != nil {
		return base + " applyerr=" + sanitize(strings.TrimPrefix(err2.Error(), "tls: "))
	}
	raw2 := uc2.HandshakeState.Hello.Raw
	// material of connection 2
	var g10 []byte
	n10 := 0
	for _, b := range rr.log {
		if len(b) == 10 {
			if n10 == 0 {
				g10 = b
			}
			n10++
		}
	}
	h2 := uc2.HandshakeState.Hello
	mat := fmt.Sprintf("n10=%d gseed=%s random2=%s sid2=%s keys=%s", n10, hx(g10), hx(h2.Random), hx(h2.SessionId), c06Keys(need, uc2.Extensions))
	for _, e := range uc2.Extensions {
		if x, ok := e.(*tls.GREASEEncryptedClientHelloExtension); ok {
			kdf, aead, cid, enc, payload := tls.VerifGreaseECHFields(x)
			mat += fmt.Sprintf(" ech=%d|%d|%d|%s|%s", kdf, aead, cid, hx(enc), hx(payload))
		}
	}
	out := base + " raw2=" + hx(raw2) + " " + mat
	spec2, err := fp.FingerprintClientHello(recordOf(raw2))
	if err != nil {
		return out + " fp2err=" + sanitize(err.Error())
	}
	return out + " " + c06SpecTokens("s2", spec2)
}

// c06GenSpec: a generated custom spec whose hello uTLS emits and can represent again.
func c06GenSpec(r *Rng, blunt bool) (exts []string, vmax int) {
	tls13 := r.Intn(3) > 0
	vmax = 0x0303
	exts = []string{"sni|-", "curves|" + Pick(r, []string{"29,23,24", "2570,29,23", "23,29,25,256", "2570,4588,29,23"}), "sigalgs|" + genU16s(r, 1+r.Intn(5), false)}
	if tls13 {
		vmax = 0x0304
		exts = append(exts, "versions|"+Pick(r, []string{"772,771", "2570,772,771", "772", "772,771,770,769"}),
			"key_share|"+Pick(r, []string{"29:e", "2570:00,29:e", "23:e", "2570:00,4588:e,29:e", "29:e,23:e", "29:" + hx(r.Bytes(32)), "24:e",
				"2570:" + hx(r.Bytes(Pick(r, []int{1, 2, 3, 4, 32, 255, 256}))) + ",29:e", "29:e,2570:" + hx(r.Bytes(Pick(r, []int{2, 4, 32}))), "2570:e,29:e"}), "psk_modes|1")
	} else if r.Intn(3) == 0 {
		exts = append(exts, "versions|"+Pick(r, []string{"771", "771,770", "771,770,769"}))
	}
	for _, k := range []int{1, 3, 5, 6, 7, 8, 9, 11, 14, 20, 22, 23, 24, 25} {
		if r.Intn(3) == 0 {
			exts = append(exts, genValidExt(r, k))
		}
	}
	if r.Intn(3) == 0 {
		exts = append(exts, "reneg|-")
	}
	if r.Intn(3) == 0 {
		exts = append(exts, "session_ticket|"+hx(r.Bytes(Pick(r, []int{0, 0, 16, 180}))))
	}
	if tls13 && r.Intn(4) == 0 {
		exts = append(exts, genValidExt(r, 28))
	}
	if blunt && r.Intn(2) == 0 {
		exts = append(exts, fmt.Sprintf("generic|%d|%s", Pick(r, []int{0x7777, 0x1234, 65000, 99, 40, 42}), hx(r.Bytes(Pick(r, []int{0, 1, 7, 32})))))
		if r.Intn(3) == 0 {
			exts = append(exts, "cookie|"+hx(r.Bytes(1+r.Intn(20))))
		}
	}
	for k := len(exts) - 1; k > 0; k-- {
		j := r.Intn(k + 1)
		exts[k], exts[j] = exts[j], exts[k]
	}
	ng := r.Intn(3)
	if ng >= 1 {
		exts = append([]string{fmt.Sprintf("grease|2570|%s", hx(r.Bytes(Pick(r, []int{0, 0, 1, 5}))))}, exts...)
	}
	if ng == 2 {
		exts = append(exts, "grease|2570|-")
	}
	if r.Intn(3) > 0 {
		at := len(exts)
		if r.Bool() {
			at = r.Intn(len(exts) + 1)
		}
		exts = append(exts[:at], append([]string{"padding|0|0"}, exts[at:]...)...)
	}
	if tls13 && r.Intn(4) == 0 {
		exts = append(exts, fmt.Sprintf("psk|1|0|0|%s:%d|%s", hxe(r.Bytes(Pick(r, []int{1, 16, 100}))), r.U64()&0xffffffff, hxe(r.Bytes(Pick(r, []int{32, 48})))))
	}
	return
}

func genFpRT(r *Rng, i int, tier string) string {
	flags := []string{"-", "b", "p", "bp", "r", "br", "pr", "bpr"}[i%8]
	sni := hostOfLen(r, 4+r.Intn(60))
	if r.Intn(8) == 0 {
		sni = hostOfLen(r, Pick(r, []int{1, 100, 180, 200, 253}))
	}
	sni2 := sni
	switch r.Intn(4) {
	case 0:
	case 1, 2:
		sni2 = hostOfLen(r, len(sni))
	default:
		sni2 = hostOfLen(r, 1+r.Intn(120))
	}
	common := fmt.Sprintf("flags=%s sni=%s sni2=%s alpn=- omitpsk=1 quic=0 rseed=%d", flags, hx([]byte(sni)), hx([]byte(sni2)), r.U64()>>1)
	if (i/8)%3 == 2 {
		exts, vmax := c06GenSpec(r, strings.Contains(flags, "b"))
		comp := "00"
		if r.Intn(8) == 0 {
			comp = "0100"
		}
		return fmt.Sprintf("id=Custom exts=%s pol=%s suites=%s comp=%s vmax=%d %s", joinSemi(exts), Pick(r, []string{"boring", "boring", "none", "padto:700"}), genSuites(r), comp, vmax, common)
	}
	id := chIDNames[(i/8+i)%len(chIDNames)]
	t := "id=" + id + " " + common
	if r.Intn(12) == 0 {
		t += " capcomp=" + Pick(r, []string{"0100", "0001", "01"})
	}
	if r.Intn(8) == 0 {
		t += fmt.Sprintf(" capgrease=%d", Pick(r, []int{0, 1, 2, 4, 32, 256}))
	}
	if r.Intn(5) == 0 {
		t += fmt.Sprintf(" reuse=%s:%d", chIDNames[r.Intn(len(parrotIDs))], r.Intn(3))
	}
	if pskIDs[id] && r.Bool() {
		t += fmt.Sprintf(" fakepsk=%d", Pick(r, []int{1, 16, 100}))
	} else if ticketIDs[id] && r.Intn(4) == 0 {
		t += fmt.Sprintf(" ticket=%d", Pick(r, []int{16, 100}))
	}
	return t
}

// ---- fp_bound: boundary sizes of every variable part ----

// c06BoundSizes: sizes of the variable part of one extension of a capture (0/1-element lists, the
// Chrome single byte and its neighbours, a key-sized part, both sides of the one-byte length limit).
var c06BoundSizes = []int{1, 2, 3, 4, 5, 8, 32, 33, 64, 254, 255, 256, 257, 300}

// c06BoundKinds: extension kinds with a variable-size part (numbers as in genExtDesc); 100 = the GREASE
// entry of key_share, 101 = a second GREASE extension body (ApplyPreset forces [0]: not representable otherwise).
var c06BoundKinds = []int{0, 2, 3, 4, 6, 7, 8, 10, 12, 14, 15, 17, 18, 19, 21, 24, 25, 26, 27, 28, 100, 101}

// genFpBound: exhaustive sweep kind x size x variant; the swept extension sits inside a spec that uTLS
// emits and (for sizes within the type's limits) can represent again.
func genFpBound(r *Rng, i int, tier string) string {
	nk, ns := len(c06BoundKinds), len(c06BoundSizes)
	if i >= nk*ns*2 {
		return ""
	}
	kind, s, variant := c06BoundKinds[i%nk], c06BoundSizes[(i/nk)%ns], i/(nk*ns)
	base := map[int]string{0: "sni|-", 2: "curves|2570,29,23", 4: "sigalgs|2052,1027", 18: "versions|2570,772,771", 15: "key_share|2570:00,29:e", 17: "psk_modes|1"}
	var swept, last string
	switch kind {
	case 0: // the name comes from the Config: a server name of s bytes
		swept = ""
	case 100:
		g := "2570:" + hxe(r.Bytes(s))
		if variant == 1 {
			base[15] = "key_share|29:e," + g
		} else {
			base[15] = "key_share|" + g + ",29:e"
		}
	case 101:
		swept = "grease|2570|" + hx(r.Bytes(s%7))
		last = "grease|2570|" + hx(r.Bytes(s))
		if variant == 1 && s == 1 {
			last = "grease|2570|00"
		}
	case 27:
		if variant == 0 {
			last = fmt.Sprintf("psk|1|0|0|%s:%d|%s", hxe(r.Bytes(s)), r.U64()&0xffffffff, hxe(r.Bytes(32)))
		} else {
			b := s
			if b < 32 {
				b = 32
			}
			if b > 255 {
				b = 255
			}
			last = fmt.Sprintf("psk|1|0|0|%s:%d|%s", hxe(r.Bytes(8)), r.U64()&0xffffffff, hxe(r.Bytes(b)))
		}
	case 15: // real shares with given keys of that size
		base[15] = "key_share|2570:00," + fmt.Sprintf("%d:%s", []int{29, 23}[variant], hxe(r.Bytes(s)))
	default:
		if _, ok := base[kind]; ok {
			delete(base, kind)
		}
		swept = genBoundaryExt(r, kind, max(s, 2), variant)
		if kind == 2 {
			swept = "curves|29,23," + strings.TrimPrefix(swept, "curves|")
		}
		if kind == 18 {
			swept = "versions|772,771," + strings.TrimPrefix(swept, "versions|")
		}
	}
	var exts []string
	for _, k := range []int{0, 2, 4, 18, 15, 17} {
		if d, ok := base[k]; ok {
			exts = append(exts, d)
		}
	}
	if swept != "" {
		at := 1 + r.Intn(len(exts))
		exts = append(exts[:at], append([]string{swept}, exts[at:]...)...)
	}
	if r.Bool() {
		exts = append(exts, "padding|0|0")
	}
	if last != "" {
		exts = append(exts, last)
	}
	flags := []string{"-", "p", "b", "bp"}[(i/3)%4]
	if kind == 10 || kind == 19 {
		flags = []string{"b", "bp"}[(i/3)%2]
	}
	sni := hostOfLen(r, 4+r.Intn(30))
	if kind == 0 {
		sni = hostOfLen(r, s)
	}
	sni2 := hostOfLen(r, len(sni))
	return fmt.Sprintf("id=Custom exts=%s pol=%s suites=2570,4865,4866,49195 comp=00 vmax=772 flags=%s sni=%s sni2=%s alpn=- omitpsk=1 quic=0 rseed=%d bound=%d:%d",
		joinSemi(exts), Pick(r, []string{"boring", "none"}), flags, hx([]byte(sni)), hx([]byte(sni2)), r.U64()>>1, kind, s)
}

func init() {
	register(&Family{Name: "fp_rt", Gen: genFpRT, Exec: execFpRT})
	register(&Family{Name: "fp_bound", Gen: genFpBound, Exec: execFpRT})
}
