package main

// ---- C07: importers never panic; valid captures give usable specs ----
//
// fp    raw=<hex record> blunt= pad= psk= valid= api= src=   => out=ok|err [suites= comp= vmin= vmax= exts=d;d;… apply=ok|err:…|panic:…]
// imp   <key>=<hex|-> … vmin0= vmax0= src=                   => out=ok|err [spec] jsame=1|0
// json  doc=<polish tokens> pad= syn= src=                   => out=ok|err [spec]
//
// (a panic inside the importer is recovered by the runner and printed as out=panic)

import (
	"bytes"
	crand "crypto/rand"
	"encoding/base64"
	"encoding/hex"
	"encoding/json"
	"fmt"
	"io"
	"log"
	"os"
	"path/filepath"
	"runtime"
	"sort"
	"strconv"
	"strings"
	"sync/atomic"
	"time"

	tls "github.com/refraction-networking/utls"
	"github.com/refraction-networking/utls/dicttls"
)

// ---------- rendering a spec ----------

var padProbes = []int{0, 100, 256, 300, 511, 512, 600, 2000}

func padProbe(f func(int) (int, bool)) string {
	if f == nil {
		return "nil"
	}
	var ss []string
	for _, n := range padProbes {
		l, w := f(n)
		ss = append(ss, fmt.Sprintf("%d:%s", l, b2i(w)))
	}
	return strings.Join(ss, "_")
}

func describeSExt(e tls.TLSExtension) string {
	d := describeExt(e)
	if f := strings.Split(d, "|"); f[0] == "ech" && f[4] == "-" {
		// an empty encapsulated key is "unset": init() draws a 32-byte key (same convention as the model's Ext.write)
		f[4] = strings.Repeat("00", 32)
		d = strings.Join(f, "|")
	}
	if p, ok := e.(*tls.UtlsPaddingExtension); ok {
		d += "@" + padProbe(p.GetPaddingLen)
	}
	return d
}

func describeSpec(s *tls.ClientHelloSpec) string {
	var ds []string
	for _, e := range s.Extensions {
		ds = append(ds, describeSExt(e))
	}
	exts := "-"
	if len(ds) > 0 {
		exts = strings.Join(ds, ";")
	}
	return fmt.Sprintf("suites=%s comp=%s vmin=%d vmax=%d exts=%s", u16list(s.CipherSuites), hx(s.CompressionMethods), s.TLSVersMin, s.TLSVersMax, exts)
}

// applySpec: ApplyPreset + BuildHandshakeState (ApplyConfig, MarshalClientHello) of an imported spec.
func applySpec(spec *tls.ClientHelloSpec, seed uint64) (res string) {
	defer func() {
		if p := recover(); p != nil {
			res = "panic:" + sanitize(fmt.Sprint(p))
		}
	}()
	uc := tls.UClient(nil, &tls.Config{ServerName: "example.com", Rand: NewRng(seed), OmitEmptyPsk: true, InsecureSkipVerify: true}, tls.HelloCustom)
	if err := uc.ApplyPreset(spec); err != nil {
		return "err:" + sanitize(err.Error())
	}
	if err := uc.BuildHandshakeState(); err != nil {
		return "err:" + sanitize(err.Error())
	}
	if len(uc.HandshakeState.Hello.Raw) == 0 {
		return "err:empty-raw"
	}
	return "ok"
}

// ---------- building hellos ----------

func recordOf_c07(msg []byte) []byte {
	out := []byte{22, 3, 1, byte(len(msg) >> 8), byte(len(msg))}
	return append(out, msg...)
}

// The base hellos are built with Config.Rand and crypto/rand.Reader both served from the run's PRNG
// (extension shuffling, the GREASE ECH draws and the randomized-spec seed read crypto/rand.Reader
// directly): the shape of every base hello - extension order, lengths - and with it the number of
// draws the mutators take from the run's PRNG is a function of VERIF_SEED, so a seed generates the
// same cases on every run. (crypto/ecdh reads or skips one byte at random by design - see detReader -
// and ML-KEM key generation takes no reader: detKeyShares overwrites the key_exchange bytes, which
// every importer treats as opaque, with PRNG bytes.)
func helloFromID(id tls.ClientHelloID, seed uint64, sni string) (raw []byte, err error) {
	withDetRand(seed^0x9e3779b97f4a7c15, func() {
		uc := tls.UClient(nil, &tls.Config{ServerName: sni, Rand: &detReader{r: NewRng(seed)}, OmitEmptyPsk: true, InsecureSkipVerify: true}, id)
		if err = uc.BuildHandshakeState(); err != nil {
			return
		}
		raw = recordOf_c07(uc.HandshakeState.Hello.Raw)
	})
	return detKeyShares(raw, seed), err
}

// detReader serves a PRNG stream, except that the byte crypto/internal/randutil.MaybeReadByte reads
// or does not read - at random, by design, in every ecdh / ecdsa key generation (also the one inside the
// GREASE ECH HPKE setup) - is answered without advancing the stream: what later reads return must
// not depend on that coin.
type detReader struct{ r *Rng }

func (d *detReader) Read(p []byte) (int, error) {
	if len(p) == 1 {
		var pcs [8]uintptr
		n := runtime.Callers(2, pcs[:])
		fr := runtime.CallersFrames(pcs[:n])
		for {
			f, more := fr.Next()
			if strings.HasSuffix(f.Function, "randutil.MaybeReadByte") {
				p[0] = 0
				return 1, nil
			}
			if !more {
				break
			}
		}
	}
	d.r.Read(p)
	return len(p), nil
}

func withDetRand(seed uint64, f func()) {
	cryptoRandMu.Lock()
	defer cryptoRandMu.Unlock()
	old := crand.Reader
	crand.Reader = &detReader{r: NewRng(seed)}
	defer func() { crand.Reader = old }()
	f()
}

// detKeyShares overwrites, in place, the key_exchange bytes of every entry of the key_share
// extension of a well-formed hello record with PRNG bytes (lengths and groups are kept).
func detKeyShares(raw []byte, seed uint64) []byte {
	lay := parseLayout(raw)
	if lay == nil || lay.parts.noExts {
		return raw
	}
	// offset of the first extension: record(5) handshake(4) version(2) random(32) sid suites comp exts-len
	p := 9 + 2 + 32 + 1 + len(lay.parts.sid) + 2 + len(lay.parts.suites) + 1 + len(lay.parts.comp) + 2
	r := NewRng(seed ^ 0x6b65797368617265)
	for _, e := range lay.parts.exts {
		body := raw[p+4 : p+4+len(e.body)]
		if e.id == 51 && len(body) >= 2 && int(body[0])<<8|int(body[1]) == len(body)-2 {
			for q := 2; q+4 <= len(body); {
				n := int(body[q+2])<<8 | int(body[q+3])
				if q+4+n > len(body) {
					break
				}
				copy(body[q+4:q+4+n], r.Bytes(n))
				q += 4 + n
			}
		}
		p += 4 + len(e.body)
	}
	return raw
}

// UTLSIdToSpec shuffles the Chrome extension lists from crypto/rand.Reader.
func specOfID_c07(id tls.ClientHelloID, seed uint64) (spec tls.ClientHelloSpec, err error) {
	withDetRand(seed, func() { spec, err = tls.UTLSIdToSpec(id) })
	return spec, err
}

func helloFromSpec(spec *tls.ClientHelloSpec, seed uint64, sni string) (raw []byte, err error) {
	withDetRand(seed^0x9e3779b97f4a7c15, func() {
		defer func() {
			if p := recover(); p != nil {
				err = fmt.Errorf("panic: %v", p)
			}
		}()
		uc := tls.UClient(nil, &tls.Config{ServerName: sni, Rand: &detReader{r: NewRng(seed)}, OmitEmptyPsk: true, InsecureSkipVerify: true}, tls.HelloCustom)
		if err = uc.ApplyPreset(spec); err != nil {
			return
		}
		if err = uc.BuildHandshakeState(); err != nil {
			return
		}
		raw = recordOf_c07(uc.HandshakeState.Hello.Raw)
	})
	return detKeyShares(raw, seed), err
}

type rawExt struct {
	id   uint16
	body []byte
}

type helloParts struct {
	recVer, hsVer uint16
	random, sid   []byte
	suites, comp  []byte
	exts          []rawExt
	noExts        bool
}

func (h *helloParts) bytes() []byte {
	var eb []byte
	for _, e := range h.exts {
		eb = append(eb, byte(e.id>>8), byte(e.id), byte(len(e.body)>>8), byte(len(e.body)))
		eb = append(eb, e.body...)
	}
	var m []byte
	m = append(m, byte(h.hsVer>>8), byte(h.hsVer))
	m = append(m, h.random...)
	m = append(m, byte(len(h.sid)))
	m = append(m, h.sid...)
	m = append(m, byte(len(h.suites)>>8), byte(len(h.suites)))
	m = append(m, h.suites...)
	m = append(m, byte(len(h.comp)))
	m = append(m, h.comp...)
	if !h.noExts {
		m = append(m, byte(len(eb)>>8), byte(len(eb)))
		m = append(m, eb...)
	}
	out := []byte{22, byte(h.recVer >> 8), byte(h.recVer), byte((len(m) + 4) >> 8), byte(len(m) + 4), 1, byte(len(m) >> 16), byte(len(m) >> 8), byte(len(m))}
	return append(out, m...)
}

// field offsets of a well-formed hello record (nil if it does not parse).
type layout struct {
	lenFields [][2]int // offset, width
	bounds    []int    // structural boundaries
	parts     *helloParts
}

func parseLayout(raw []byte) *layout {
	l := &layout{parts: &helloParts{}}
	p := 0
	need := func(n int) bool { return p+n <= len(raw) }
	if !need(9 + 2 + 32 + 1) {
		return nil
	}
	l.parts.recVer = uint16(raw[1])<<8 | uint16(raw[2])
	l.lenFields = append(l.lenFields, [2]int{3, 2}, [2]int{6, 3})
	p = 9
	l.parts.hsVer = uint16(raw[9])<<8 | uint16(raw[10])
	p = 11
	l.parts.random = append([]byte(nil), raw[p:p+32]...)
	p += 32
	l.bounds = append(l.bounds, 1, 3, 5, 6, 9, 11, p)
	l.lenFields = append(l.lenFields, [2]int{p, 1})
	n := int(raw[p])
	p++
	if !need(n + 2) {
		return nil
	}
	l.parts.sid = append([]byte(nil), raw[p:p+n]...)
	p += n
	l.bounds = append(l.bounds, p)
	l.lenFields = append(l.lenFields, [2]int{p, 2})
	n = int(raw[p])<<8 | int(raw[p+1])
	p += 2
	if !need(n + 1) {
		return nil
	}
	l.parts.suites = append([]byte(nil), raw[p:p+n]...)
	p += n
	l.bounds = append(l.bounds, p)
	l.lenFields = append(l.lenFields, [2]int{p, 1})
	n = int(raw[p])
	p++
	if !need(n) {
		return nil
	}
	l.parts.comp = append([]byte(nil), raw[p:p+n]...)
	p += n
	l.bounds = append(l.bounds, p)
	if p == len(raw) {
		l.parts.noExts = true
		return l
	}
	if !need(2) {
		return nil
	}
	l.lenFields = append(l.lenFields, [2]int{p, 2})
	n = int(raw[p])<<8 | int(raw[p+1])
	p += 2
	if !need(n) {
		return nil
	}
	end := p + n
	for p < end {
		if p+4 > end {
			return nil
		}
		id := uint16(raw[p])<<8 | uint16(raw[p+1])
		bl := int(raw[p+2])<<8 | int(raw[p+3])
		l.lenFields = append(l.lenFields, [2]int{p + 2, 2})
		l.bounds = append(l.bounds, p, p+2, p+4)
		if p+4+bl > end {
			return nil
		}
		body := append([]byte(nil), raw[p+4:p+4+bl]...)
		// first inner length prefix of the body (most extensions start with one)
		if bl >= 2 {
			switch id {
			case 11, 27, 43, 45:
				l.lenFields = append(l.lenFields, [2]int{p + 4, 1})
			case 0, 10, 13, 16, 17, 34, 41, 50, 51, 17513, 17613:
				l.lenFields = append(l.lenFields, [2]int{p + 4, 2})
			}
		}
		l.parts.exts = append(l.parts.exts, rawExt{id, body})
		p += 4 + bl
	}
	l.bounds = append(l.bounds, p)
	return l
}

// ---------- custom specs ----------

var c07Suites = []uint16{0x0a0a, 0x1301, 0x1302, 0x1303, 0xc02b, 0xc02f, 0xc02c, 0xc030, 0xcca9, 0xcca8, 0xc013, 0xc014, 0x009c, 0x009d, 0x002f, 0x0035, 0x000a}

func genSaneSpec(r *Rng) *tls.ClientHelloSpec {
	s := &tls.ClientHelloSpec{CompressionMethods: []byte{0}}
	n := 1 + r.Intn(len(c07Suites))
	perm := r.Intn(3)
	for i := 0; i < n; i++ {
		s.CipherSuites = append(s.CipherSuites, c07Suites[(i*(1+perm))%len(c07Suites)])
	}
	tls13 := r.Intn(4) > 0
	var xs []tls.TLSExtension
	add := func(p int, e tls.TLSExtension) {
		if r.Intn(100) < p {
			xs = append(xs, e)
		}
	}
	add(40, &tls.UtlsGREASEExtension{})
	add(85, &tls.SNIExtension{})
	add(60, &tls.ExtendedMasterSecretExtension{})
	add(50, &tls.RenegotiationInfoExtension{Renegotiation: tls.RenegotiateOnceAsClient})
	groups := []tls.CurveID{tls.X25519, tls.CurveP256, tls.CurveP384}
	if r.Bool() {
		groups = append([]tls.CurveID{tls.GREASE_PLACEHOLDER}, groups...)
	}
	if r.Intn(4) == 0 {
		groups = append(groups, tls.X25519MLKEM768)
	}
	xs = append(xs, &tls.SupportedCurvesExtension{Curves: groups})
	add(70, &tls.SupportedPointsExtension{SupportedPoints: []byte{0}})
	add(50, &tls.SessionTicketExtension{})
	add(60, &tls.ALPNExtension{AlpnProtocols: Pick(r, [][]string{{"h2", "http/1.1"}, {"http/1.1"}, {"h2"}, {"h3", "h2", "spdy/3.1"}})})
	add(50, &tls.StatusRequestExtension{})
	xs = append(xs, &tls.SignatureAlgorithmsExtension{SupportedSignatureAlgorithms: []tls.SignatureScheme{tls.ECDSAWithP256AndSHA256, tls.PSSWithSHA256, tls.PKCS1WithSHA256, tls.ECDSAWithP384AndSHA384, tls.PKCS1WithSHA1}[:1+r.Intn(5)]})
	add(40, &tls.SCTExtension{})
	add(15, &tls.StatusRequestV2Extension{})
	add(15, &tls.NPNExtension{})
	add(15, &tls.FakeChannelIDExtension{OldExtensionID: r.Bool()})
	add(15, &tls.FakeTokenBindingExtension{MajorVersion: 0, MinorVersion: 13, KeyParameters: []uint8{2, 0}})
	add(25, &tls.FakeRecordSizeLimitExtension{Limit: 0x4001})
	add(25, &tls.FakeDelegatedCredentialsExtension{SupportedSignatureAlgorithms: []tls.SignatureScheme{tls.ECDSAWithP256AndSHA256, tls.ECDSAWithP384AndSHA384}})
	add(25, &tls.SignatureAlgorithmsCertExtension{SupportedSignatureAlgorithms: []tls.SignatureScheme{tls.ECDSAWithP256AndSHA256, tls.PSSWithSHA256}})
	if tls13 {
		ks := []tls.KeyShare{{Group: tls.X25519}}
		if groups[0] == tls.GREASE_PLACEHOLDER {
			ks = append([]tls.KeyShare{{Group: tls.GREASE_PLACEHOLDER, Data: []byte{0}}}, ks...)
		}
		if r.Intn(3) == 0 {
			ks = append(ks, tls.KeyShare{Group: tls.CurveP256})
		}
		if groups[len(groups)-1] == tls.X25519MLKEM768 {
			ks = append(ks, tls.KeyShare{Group: tls.X25519MLKEM768})
		}
		xs = append(xs, &tls.KeyShareExtension{KeyShares: ks})
		add(80, &tls.PSKKeyExchangeModesExtension{Modes: []uint8{tls.PskModeDHE}})
		vers := []uint16{tls.VersionTLS13, tls.VersionTLS12}
		if r.Bool() {
			vers = append([]uint16{tls.GREASE_PLACEHOLDER}, vers...)
		}
		xs = append(xs, &tls.SupportedVersionsExtension{Versions: vers})
		add(40, &tls.UtlsCompressCertExtension{Algorithms: []tls.CertCompressionAlgo{tls.CertCompressionBrotli, tls.CertCompressionZlib}[:1+r.Intn(2)]})
		if r.Bool() {
			add(50, &tls.ApplicationSettingsExtension{SupportedProtocols: []string{"h2"}})
		} else {
			add(50, &tls.ApplicationSettingsExtensionNew{SupportedProtocols: []string{"h2"}})
		}
		add(30, tls.BoringGREASEECH())
	} else {
		s.TLSVersMin = tls.VersionTLS10
		s.TLSVersMax = tls.VersionTLS12
	}
	// types ExtensionFromID cannot rebuild: kept verbatim under blunt mimicry, an error otherwise
	// (never a type the spec already carries - FakeChannelIDExtension marshals as 0x7550 too: a hello
	// with a repeated extension type is not a valid capture)
	gid := uint16(Pick(r, []int{1, 15, 22, 49, 0x7550, 64000}))
	for _, e := range xs {
		if c, ok := e.(*tls.FakeChannelIDExtension); ok && !c.OldExtensionID && gid == 0x7550 {
			gid = 64000
		}
	}
	add(12, &tls.GenericExtension{Id: gid, Data: r.Bytes(r.Intn(6))})
	add(6, &tls.CookieExtension{Cookie: r.Bytes(1 + r.Intn(8))})
	add(40, &tls.UtlsGREASEExtension{})
	add(50, &tls.UtlsPaddingExtension{GetPaddingLen: tls.BoringPaddingStyle})
	if tls13 && r.Intn(4) == 0 {
		xs = append(xs, &tls.FakePreSharedKeyExtension{
			Identities: []tls.PskIdentity{{Label: r.Bytes(1 + r.Intn(120)), ObfuscatedTicketAge: uint32(r.U64())}},
			Binders:    [][]byte{r.Bytes(Pick(r, []int{32, 48}))}})
	}
	s.Extensions = xs
	return s
}

// assembled hello: arbitrary extension values (C08 generator), framed by hand.
func genAssembled(r *Rng) []byte {
	h := &helloParts{recVer: uint16(Pick(r, []int{0x0301, 0x0303, 0x0300, 0x7f12})), hsVer: uint16(Pick(r, []int{0x0303, 0x0301, 0x0304, 0})),
		random: r.Bytes(32), sid: r.Bytes(Pick(r, []int{0, 32, 32, 1, 255})), comp: r.Bytes(Pick(r, []int{1, 1, 0, 2, 255}))}
	ns := Pick(r, []int{0, 1, 2, 17, 40})
	for i := 0; i < ns; i++ {
		v := Pick(r, c07Suites)
		if r.Intn(8) == 0 {
			g := r.Intn(16)<<4 | 0xa
			v = uint16(g<<8 | g)
		}
		h.suites = append(h.suites, byte(v>>8), byte(v))
	}
	ne := Pick(r, []int{0, 1, 2, 5, 9, 14})
	if ne == 0 && r.Bool() {
		h.noExts = true
	}
	for i := 0; i < ne; i++ {
		e := buildExt(genExtDesc(r, r.Intn(nExtKinds)))
		l := e.Len()
		if l < 4 || l > 3000 {
			continue
		}
		buf := make([]byte, l)
		n, err := e.Read(buf)
		if err != io.EOF || n < 4 {
			continue
		}
		h.exts = append(h.exts, rawExt{uint16(buf[0])<<8 | uint16(buf[1]), buf[4:n]})
	}
	return h.bytes()
}

// ---------- fp generator ----------

type fpCase struct {
	raw   []byte
	valid int
	src   string
}

func fpLine(r *Rng, c fpCase, flags int) string {
	if flags < 0 {
		flags = r.Intn(8)
	}
	api := "fp"
	if r.Bool() {
		api = "raw"
	}
	return fmt.Sprintf("raw=%s blunt=%d pad=%d psk=%d valid=%d api=%s src=%s", hx(c.raw), flags&1, (flags>>1)&1, (flags>>2)&1, c.valid, api, c.src)
}

var knownExtIDs = []uint16{0, 5, 10, 11, 13, 16, 17, 18, 21, 23, 24, 27, 28, 34, 35, 41, 43, 45, 50, 51, 57, 44, 13172, 17513, 17613, 30031, 30032, 65037, 65281, 0x0a0a, 0xfafa, 1, 22, 49}

func setLen(raw []byte, off, width, v int) []byte {
	out := append([]byte(nil), raw...)
	for i := 0; i < width; i++ {
		out[off+width-1-i] = byte(v >> (8 * i))
	}
	return out
}

func getLen(raw []byte, off, width int) int {
	v := 0
	for i := 0; i < width; i++ {
		v = v<<8 | int(raw[off+i])
	}
	return v
}

// zero-length elements and other degenerate list bodies, by extension type
func degenerateBodies(r *Rng, id uint16) [][]byte {
	switch id {
	case 16, 17513, 17613:
		return [][]byte{{0, 1, 0}, {0, 3, 0, 1, 'a'}, {0, 4, 1, 'a', 0, 0}, {0, 0}, {0, 2, 1}, {0, 3, 2, 'h', '2', 9}}
	case 0:
		return [][]byte{{0, 3, 0, 0, 0}, {0, 0}, {0, 5, 1, 0, 0, 0, 0}, {0, 8, 0, 0, 1, 'a', 0, 0, 1, 'b'}, {0, 5, 0, 0, 2, 'a', '.'}, {0, 8, 7, 0, 1, 'a', 7, 0, 1, 'b'}}
	case 51:
		return [][]byte{{0, 4, 0, 29, 0, 0}, {0, 0}, {0, 5, 0, 29, 0, 1, 9, 7}, {0, 8, 10, 10, 0, 1, 0, 0, 29, 0}, {0, 3, 0, 29, 0}}
	case 41:
		return [][]byte{{0, 0, 0, 0}, {0, 6, 0, 0, 0, 0, 0, 0, 0, 1, 0}, {0, 2, 0, 0}, {0, 7, 0, 1, 'x', 0, 0, 0, 0, 0, 2, 1, 0}, {0xff, 0xff}, {0, 6, 0, 0, 0, 0, 0, 0, 0xff, 0xff, 0}, {0, 1, 0}}
	case 10, 13, 50, 34:
		return [][]byte{{0, 0}, {0, 1, 0}, {0, 3, 0, 29, 0}, {0, 2, 0x1a, 0x1a}}
	case 43, 27:
		return [][]byte{{0}, {1, 3}, {3, 3, 4, 3}, {2, 0x2a, 0x2a}, {255}}
	case 5:
		return [][]byte{{1}, {1, 0, 0}, {2, 0, 0, 0, 0}, {1, 0, 1, 0, 0}, {}}
	case 17:
		return [][]byte{{0, 0}, {0, 1, 2}, {0, 1, 1}, {0, 7, 2}, {}}
	case 65037:
		return [][]byte{{0, 0, 1, 0, 1, 7, 0, 0, 0, 0}, {0, 0, 1, 0, 1, 7, 0, 0, 0, 16, 1, 2, 3, 4, 5, 6, 7, 8, 9, 10, 11, 12, 13, 14, 15, 16}, {1}, {0, 0, 9, 0, 1}, {0, 0, 1, 0, 9, 7}, {0, 0, 1, 0, 1}, {}}
	case 24:
		return [][]byte{{}, {0}, {0, 13}, {0, 13, 0}, {0, 13, 2, 1}}
	}
	return [][]byte{{}, {0}, {0, 0}, r.Bytes(3)}
}

func fpBatch(r *Rng, b int, tier string) []string {
	var base fpCase
	kind := b % 6
	switch kind {
	case 0, 1, 2:
		id := parrotIDs[(b/6*3+kind)%len(parrotIDs)]
		raw, err := helloFromID(id, r.U64(), Pick(r, []string{"example.com", "a.b", "", "verif.test", strings.Repeat("x", 60) + ".example"}))
		if err != nil {
			return nil
		}
		base = fpCase{raw, 1, "parrot:" + idName(id)}
	case 3:
		id := Pick(r, []tls.ClientHelloID{tls.HelloRandomized, tls.HelloRandomizedALPN, tls.HelloRandomizedNoALPN})
		var seed tls.PRNGSeed
		copy(seed[:], r.Bytes(len(seed)))
		id.Seed = &seed
		raw, err := helloFromID(id, r.U64(), "example.com")
		if err != nil {
			return nil
		}
		base = fpCase{raw, 1, "randomized"}
	case 4:
		spec := genSaneSpec(r)
		src := "custom"
		if b%12 == 4 {
			// a PSK parrot with a filled-in pre_shared_key (last): AlwaysAddPadding x RealPSKResumption on a real capture
			id := Pick(r, []tls.ClientHelloID{tls.HelloChrome_100_PSK, tls.HelloChrome_112_PSK_Shuf, tls.HelloChrome_114_Padding_PSK_Shuf, tls.HelloChrome_115_PQ_PSK})
			ps, err := specOfID_c07(id, r.U64())
			if err != nil {
				return nil
			}
			for i, e := range ps.Extensions {
				if _, ok := e.(tls.PreSharedKeyExtension); ok {
					ps.Extensions[i] = &tls.FakePreSharedKeyExtension{
						Identities: []tls.PskIdentity{{Label: r.Bytes(1 + r.Intn(200)), ObfuscatedTicketAge: uint32(r.U64())}},
						Binders:    [][]byte{r.Bytes(Pick(r, []int{32, 48}))}}
				}
			}
			spec, src = &ps, "pskparrot"
		}
		raw, err := helloFromSpec(spec, r.U64(), "example.com")
		if err != nil {
			return nil
		}
		base = fpCase{raw, 1, src}
	default:
		base = fpCase{genAssembled(r), 2, "assembled"}
	}
	var out []string
	if b%48 == 1 {
		out = append(out, fpEnumLines(r)...)
	}
	for f := 0; f < 8; f++ {
		out = append(out, fpLine(r, base, f))
	}
	raw := base.raw
	mut := func(src string, m []byte) {
		out = append(out, fpLine(r, fpCase{m, 0, src}, -1))
	}
	lay := parseLayout(raw)
	// truncation: every offset for a few bases (thorough: all), else boundaries ±1 and random offsets
	if b < 2 || tier == "thorough" {
		for k := 0; k < len(raw); k++ {
			mut("trunc", raw[:k])
		}
	} else {
		offs := map[int]bool{0: true, 1: true, 4: true, 5: true, 8: true, 9: true, 10: true, 11: true, 42: true, 43: true, 44: true, len(raw) - 1: true}
		if lay != nil {
			for _, x := range lay.bounds {
				for _, d := range []int{-1, 0, 1} {
					offs[x+d] = true
				}
			}
		}
		for i := 0; i < 16; i++ {
			offs[r.Intn(len(raw))] = true
		}
		var ks []int
		for k := range offs {
			if k >= 0 && k < len(raw) {
				ks = append(ks, k)
			}
		}
		sort.Ints(ks)
		if len(ks) > 60 {
			// keep a spread
			step := len(ks) / 60
			var kk []int
			for i := 0; i < len(ks); i += step + 1 {
				kk = append(kk, ks[i])
			}
			ks = kk
		}
		for _, k := range ks {
			mut("trunc", raw[:k])
		}
	}
	// byte flips
	for i := 0; i < 12; i++ {
		m := append([]byte(nil), raw...)
		k := r.Intn(len(m))
		if r.Bool() {
			m[k] ^= 1 << uint(r.Intn(8))
		} else {
			m[k] = byte(r.U64())
		}
		mut("flip", m)
	}
	mut("trail", append(append([]byte(nil), raw...), r.Bytes(1+r.Intn(9))...))
	mut("rnd", r.Bytes(Pick(r, []int{0, 1, 5, 9, 43, 44, 80, 300})))
	{
		m := append([]byte(nil), raw...)
		m[0] = byte(Pick(r, []int{20, 21, 23, 0, 255}))
		mut("rectype", m)
		if len(raw) > 5 {
			m = append([]byte(nil), raw...)
			m[5] = byte(Pick(r, []int{2, 0, 11, 255}))
			mut("hstype", m)
		}
	}
	if lay != nil {
		// length fields: zero, one, maximal, ±1
		var lm []string
		_ = lm
		fields := lay.lenFields
		pick := fields
		if len(pick) > 14 && tier != "thorough" {
			pick = nil
			for i := 0; i < 8; i++ {
				pick = append(pick, fields[i%len(fields)])
			}
			for i := 0; i < 8; i++ {
				pick = append(pick, Pick(r, fields))
			}
		}
		for _, f := range pick {
			cur := getLen(raw, f[0], f[1])
			max := 1<<(8*uint(f[1])) - 1
			for _, v := range []int{0, 1, max, cur + 1, cur - 1, cur + 2, r.Intn(max + 1)} {
				if v < 0 || v > max || v == cur {
					continue
				}
				if tier != "thorough" && r.Intn(2) == 0 {
					continue
				}
				mut("len", setLen(raw, f[0], f[1], v))
			}
		}
		p := lay.parts
		if len(p.exts) > 0 {
			cp := func() *helloParts {
				q := *p
				q.exts = append([]rawExt(nil), p.exts...)
				return &q
			}
			// duplicate an extension
			for i := 0; i < 2; i++ {
				q := cp()
				e := Pick(r, q.exts)
				at := r.Intn(len(q.exts) + 1)
				q.exts = append(q.exts[:at], append([]rawExt{e}, q.exts[at:]...)...)
				mut("dup", q.bytes())
			}
			// decode a body under another type's decoder
			for i := 0; i < 8; i++ {
				q := cp()
				k := r.Intn(len(q.exts))
				q.exts[k].id = Pick(r, knownExtIDs)
				mut("retype", q.bytes())
			}
			// every known decoder on degenerate bodies (zero-length elements, inner lengths off)
			for i := 0; i < 10; i++ {
				q := cp()
				k := r.Intn(len(q.exts))
				id := Pick(r, knownExtIDs)
				q.exts[k] = rawExt{id, Pick(r, degenerateBodies(r, id))}
				mut("zel", q.bytes())
			}
			// oversize lists
			if b%3 == 0 {
				q := cp()
				k := r.Intn(len(q.exts))
				n := Pick(r, []int{20000, 32766, 40000})
				body := make([]byte, 2+n)
				body[0], body[1] = byte(n>>8), byte(n)
				for j := 0; j+1 < n; j += 2 {
					body[2+j], body[3+j] = 0x13, byte(j)
				}
				q.exts = []rawExt{q.exts[k], {uint16(Pick(r, []int{10, 13, 50, 34, 16, 51})), body}}
				mut("big", q.bytes())
				q2 := cp()
				q2.suites = make([]byte, Pick(r, []int{65534, 65535, 40001}))
				mut("big", q2.bytes())
			}
			// shuffle, drop, reverse
			{
				q := cp()
				for i, j := 0, len(q.exts)-1; i < j; i, j = i+1, j-1 {
					q.exts[i], q.exts[j] = q.exts[j], q.exts[i]
				}
				mut("reorder", q.bytes())
			}
		}
		// cut / insert without fixing lengths
		for i := 0; i < 3; i++ {
			k := r.Intn(len(raw))
			n := 1 + r.Intn(6)
			if k+n <= len(raw) {
				mut("cut", append(append([]byte(nil), raw[:k]...), raw[k+n:]...))
			}
			ins := append(append(append([]byte(nil), raw[:k]...), r.Bytes(n)...), raw[k:]...)
			mut("ins", ins)
		}
	}
	return out
}

// ---------- enumerated id fields ----------
//
// Every decoder that reads an *enumerated* field (a registry code point, a type byte, a version) gets
// well-formed bodies carrying the boundary and registry-special values of that field: 0, the first and
// last assigned values and their neighbours, reserved / private-use / export-only points, 0xff / 0xffff,
// GREASE. Lengths stay consistent, so the value itself is what reaches the code behind the parser.

var enumU16 = []int{0, 1, 2, 3, 4, 5, 0x10, 0x11, 0x12, 0x13, 0xff, 0x100, 0x0a0a, 0xfafa, 0x7fff, 0x8000, 0xfe00, 0xfffe, 0xffff}
var enumU8 = []int{0, 1, 2, 3, 4, 64, 127, 128, 254, 255}

func c07be16(v int) []byte { return []byte{byte(v >> 8), byte(v)} }

func c07vec8(b []byte) []byte  { return append([]byte{byte(len(b))}, b...) }
func c07vec16(b []byte) []byte { return append(c07be16(len(b)), b...) }

func c07cat(bs ...[]byte) []byte {
	var out []byte
	for _, b := range bs {
		out = append(out, b...)
	}
	return out
}

// enumExtBodies: (extension type, body) pairs.
func enumExtBodies(r *Rng) []rawExt {
	var out []rawExt
	add := func(id int, body []byte) { out = append(out, rawExt{uint16(id), body}) }
	// encrypted_client_hello: type, HPKE KDF id, HPKE AEAD id (full cross product of the special values), payload sizes
	echIDs := []int{0, 1, 2, 3, 4, 5, 0x10, 0xff, 0xfffe, 0xffff}
	for _, kdf := range echIDs {
		for _, aead := range echIDs {
			pl := Pick(r, []int{16, 17, 144, 32})
			add(65037, c07cat([]byte{0}, c07be16(kdf), c07be16(aead), []byte{byte(r.Intn(256))}, c07vec16(r.Bytes(Pick(r, []int{32, 32, 1, 65}))), c07vec16(r.Bytes(pl))))
		}
	}
	for _, t := range enumU8 {
		add(65037, c07cat([]byte{byte(t)}, c07be16(1), c07be16(1), []byte{7}, c07vec16(r.Bytes(32)), c07vec16(r.Bytes(144))))
	}
	for _, pl := range []int{0, 1, 15, 16, 17, 65535 - 50} {
		add(65037, c07cat([]byte{0}, c07be16(1+r.Intn(3)), c07be16(1+r.Intn(3)), []byte{7}, c07vec16(r.Bytes(32)), c07vec16(make([]byte, pl))))
	}
	// lists of 16-bit code points: groups, signature schemes (three extensions), certificate compression, versions
	for _, v := range enumU16 {
		w := Pick(r, enumU16)
		add(10, c07vec16(c07cat(c07be16(v), c07be16(w))))
		add(13, c07vec16(c07cat(c07be16(v), c07be16(w))))
		add(50, c07vec16(c07be16(v)))
		add(34, c07vec16(c07be16(v)))
		add(27, c07vec8(c07cat(c07be16(v), c07be16(w))))
		add(43, c07vec8(c07cat(c07be16(v), c07be16(w))))
		add(28, c07be16(v))
		// key_share: the group with a key of a size that fits / does not fit it
		kl := Pick(r, []int{1, 32, 65, 97, 133, 1216, 1120})
		add(51, c07vec16(c07cat(c07be16(v), c07vec16(r.Bytes(kl)))))
	}
	for _, v := range []int{0x0300, 0x0301, 0x0302, 0x0303, 0x0304, 0x0305, 0x7f1c, 0xfeff, 0xfefd} {
		add(43, c07vec8(c07be16(v)))
	}
	for _, g := range []int{23, 24, 25, 29, 30, 256, 257, 260, 4587, 4588, 4589, 25497, 25498, 0x6399, 0xfe32} {
		add(10, c07vec16(c07be16(g)))
		add(51, c07vec16(c07cat(c07be16(g), c07vec16(r.Bytes(Pick(r, []int{32, 65, 97, 133, 1216, 1120, 1}))))))
	}
	// single-byte enumerations: point formats, PSK modes, status types, SNI name type, token binding
	for _, v := range enumU8 {
		add(11, c07vec8([]byte{byte(v)}))
		add(45, c07vec8([]byte{byte(v), byte(Pick(r, enumU8))}))
		add(5, c07cat([]byte{byte(v)}, c07vec16(nil), c07vec16(nil)))
		add(17, c07vec16(c07cat([]byte{byte(v)}, c07be16(4), c07vec16(nil), c07vec16(nil))))
		add(0, c07vec16(c07cat([]byte{byte(v)}, c07vec16([]byte("a.example")))))
		add(24, c07cat([]byte{byte(v), byte(Pick(r, enumU8))}, c07vec8([]byte{byte(Pick(r, enumU8)), byte(v)})))
	}
	// pre_shared_key: ticket ages and binder sizes at the edges
	for _, bl := range []int{0, 1, 31, 32, 33, 48, 64, 255} {
		add(41, c07cat(c07vec16(c07cat(c07vec16(r.Bytes(1+r.Intn(40))), []byte{0xff, 0xff, 0xff, byte(bl)})), c07vec16(c07vec8(r.Bytes(bl)))))
	}
	return out
}

func enumHello(r *Rng, e rawExt) []byte {
	h := &helloParts{recVer: 0x0301, hsVer: 0x0303, random: r.Bytes(32), sid: r.Bytes(32), suites: []byte{0x13, 0x01, 0xc0, 0x2f}, comp: []byte{0}}
	h.exts = []rawExt{{0, c07vec16(c07cat([]byte{0}, c07vec16([]byte("example.com"))))}, e}
	if e.id == 0 {
		h.exts = h.exts[1:]
	}
	if e.id == 41 {
		h.exts = append([]rawExt{h.exts[0], {43, []byte{2, 3, 4}}, {45, []byte{1, 1}}}, e)
	}
	return h.bytes()
}

func fpEnumLines(r *Rng) []string {
	var out []string
	for _, e := range enumExtBodies(r) {
		out = append(out, fpLine(r, fpCase{enumHello(r, e), 0, "enum"}, -1))
	}
	return out
}

type batchGen struct {
	q    []string
	b    int
	fill func(r *Rng, b int, tier string) []string
}

func (g *batchGen) next(r *Rng, tier string) string {
	for tries := 0; len(g.q) == 0 && tries < 50; tries++ {
		g.q = g.fill(r, g.b, tier)
		g.b++
	}
	if len(g.q) == 0 {
		return ""
	}
	s := g.q[0]
	g.q = g.q[1:]
	return s
}

func execFp(in KV) string {
	raw := in.Bytes("raw")
	f := &tls.Fingerprinter{AllowBluntMimicry: in["blunt"] == "1", AlwaysAddPadding: in["pad"] == "1", RealPSKResumption: in["psk"] == "1"}
	var spec *tls.ClientHelloSpec
	var err error
	if in["api"] == "raw" {
		spec, err = f.RawClientHello(raw)
	} else {
		spec, err = f.FingerprintClientHello(raw)
	}
	if err != nil {
		return "out=err"
	}
	d := describeSpec(spec)
	return "out=ok " + d + " apply=" + applySpec(spec, 7)
}

// ---------- imp: ImportTLSClientHello ----------

var impKeys = []string{"cipher_suites", "compression_methods", "extensions", "pt_fmts", "sig_algs", "supported_versions", "curves", "alpn", "key_share", "psk_key_exchange_modes", "cert_compression_algs", "record_size_limit"}

// the tlsfingerprint.io rendering of a hello
func mapOfHello(p *helloParts) map[string][]byte {
	m := map[string][]byte{"cipher_suites": p.suites, "compression_methods": p.comp}
	var ids []byte
	for _, e := range p.exts {
		ids = append(ids, byte(e.id>>8), byte(e.id))
		b := e.body
		switch e.id {
		case 11:
			m["pt_fmts"] = b
		case 13:
			m["sig_algs"] = b
		case 43:
			if len(b) > 0 {
				m["supported_versions"] = b[1:]
			}
		case 10:
			m["curves"] = b
		case 16:
			m["alpn"] = b
		case 51:
			var ks []byte
			if len(b) >= 2 {
				q := b[2:]
				for len(q) >= 4 {
					l := int(q[2])<<8 | int(q[3])
					ks = append(ks, q[:4]...)
					if 4+l > len(q) {
						break
					}
					q = q[4+l:]
				}
			}
			m["key_share"] = ks
		case 45:
			if len(b) > 0 {
				m["psk_key_exchange_modes"] = b[1:]
			}
		case 27:
			if len(b) > 0 {
				m["cert_compression_algs"] = b[1:]
			}
		case 28:
			m["record_size_limit"] = b
		}
	}
	m["extensions"] = ids
	for k, v := range m {
		if v == nil {
			m[k] = []byte{}
		}
	}
	return m
}

func impLine(m map[string][]byte, vmin0, vmax0 int, src string) string {
	var toks []string
	for _, k := range impKeys {
		if v, ok := m[k]; ok && v != nil {
			toks = append(toks, k+"="+hx(v))
		}
	}
	return fmt.Sprintf("%s vmin0=%d vmax0=%d src=%s", strings.Join(toks, " "), vmin0, vmax0, src)
}

func impBatch(r *Rng, b int, tier string) []string {
	var raw []byte
	var err error
	src := ""
	switch b % 4 {
	case 0, 1:
		id := parrotIDs[(b/2)%len(parrotIDs)]
		raw, err = helloFromID(id, r.U64(), "example.com")
		src = "parrot"
	case 2:
		raw, err = helloFromSpec(genSaneSpec(r), r.U64(), "example.com")
		src = "custom"
	default:
		raw = genAssembled(r)
		src = "assembled"
	}
	if err != nil {
		return nil
	}
	lay := parseLayout(raw)
	if lay == nil {
		return nil
	}
	base := mapOfHello(lay.parts)
	var out []string
	vm := func() (int, int) { return Pick(r, []int{0, 0x0301, 0x0303}), Pick(r, []int{0, 0x0303, 0x0304}) }
	emit := func(m map[string][]byte, s string) {
		a, c := vm()
		out = append(out, impLine(m, a, c, s))
	}
	cp := func() map[string][]byte {
		m := map[string][]byte{}
		for k, v := range base {
			m[k] = append([]byte{}, v...)
		}
		return m
	}
	emit(base, src)
	// drop each key / empty each key
	for _, k := range impKeys {
		if _, ok := base[k]; !ok {
			continue
		}
		m := cp()
		delete(m, k)
		emit(m, "drop")
		if r.Intn(2) == 0 {
			m = cp()
			m[k] = []byte{}
			emit(m, "empty")
		}
		// ragged: cut 1..3 bytes off the end, add 1..3 bytes
		m = cp()
		if n := len(m[k]); n > 0 {
			m[k] = m[k][:n-min(n, 1+r.Intn(3))]
			emit(m, "ragged")
		}
		m = cp()
		m[k] = append(m[k], r.Bytes(1+r.Intn(3))...)
		emit(m, "ragged")
		if r.Intn(3) == 0 {
			m = cp()
			m[k] = r.Bytes(Pick(r, []int{1, 2, 3, 4, 7, 16, 300}))
			emit(m, "random")
		}
	}
	// key_share values of every small length and with large recorded lengths
	for _, n := range []int{1, 2, 3, 4, 5, 6, 7, 8, 9, 11, 12} {
		m := cp()
		m["extensions"] = append(m["extensions"], 0, 51)
		ks := r.Bytes(n)
		for i := 3; i < n; i += 4 {
			ks[i] = byte(Pick(r, []int{0, 1, 32, 65, 255}))
			ks[i-1] = byte(Pick(r, []int{0, 0, 1, 4}))
		}
		m["key_share"] = ks
		emit(m, "keyshare")
	}
	// extension id lists: unknown ids, ids without a writer, ids without data, GREASE, duplicates, odd length
	for i := 0; i < 10; i++ {
		m := cp()
		var ids []byte
		n := 1 + r.Intn(6)
		for j := 0; j < n; j++ {
			id := Pick(r, knownExtIDs)
			if r.Intn(5) == 0 {
				id = uint16(r.Intn(65536))
			}
			ids = append(ids, byte(id>>8), byte(id))
		}
		if r.Intn(6) == 0 {
			ids = append(ids, 7)
		}
		m["extensions"] = ids
		emit(m, "idlist")
	}
	// enumerated code points in every data-carrying field
	for i := 0; i < 12; i++ {
		m := cp()
		v, w := Pick(r, enumU16), Pick(r, enumU16)
		m["extensions"] = []byte{0, 10, 0, 11, 0, 13, 0, 43, 0, 45, 0, 27, 0, 28, 0, 51}
		m["curves"] = c07vec16(c07cat(c07be16(v), c07be16(w)))
		m["pt_fmts"] = c07vec8([]byte{byte(Pick(r, enumU8))})
		m["sig_algs"] = c07vec16(c07cat(c07be16(w), c07be16(v)))
		m["supported_versions"] = c07cat(c07be16(Pick(r, []int{0x0300, 0x0304, 0x0305, 0x7f1c, v})), c07be16(w))
		m["psk_key_exchange_modes"] = []byte{byte(Pick(r, enumU8)), byte(Pick(r, enumU8))}
		m["cert_compression_algs"] = c07cat(c07be16(v), c07be16(w))
		m["record_size_limit"] = c07be16(v)
		m["key_share"] = c07cat(c07be16(v), c07be16(Pick(r, []int{0, 1, 32, 65, 255, 256, 1216})), c07be16(w), c07be16(Pick(r, []int{1, 32})))
		emit(m, "enum")
	}
	{
		m := cp()
		m["cipher_suites"] = append(m["cipher_suites"], 1)
		emit(m, "oddsuites")
		// from scratch: random subsets of keys with random values
		for i := 0; i < 4; i++ {
			m = map[string][]byte{}
			for _, k := range impKeys {
				if r.Intn(3) > 0 {
					m[k] = r.Bytes(Pick(r, []int{0, 1, 2, 3, 4, 6, 8, 20}))
				}
			}
			emit(m, "scratch")
		}
	}
	return out
}

func execImp(in KV) string {
	m := map[string][]byte{}
	for _, k := range impKeys {
		if v, ok := in[k]; ok {
			if v == "-" {
				m[k] = []byte{}
			} else {
				m[k] = unhex(v)
			}
		}
	}
	run := func(viaJSON bool) (res string) {
		defer func() {
			if p := recover(); p != nil {
				res = "out=panic msg=" + sanitize(fmt.Sprint(p))
			}
		}()
		spec := &tls.ClientHelloSpec{TLSVersMin: uint16(in.Int("vmin0")), TLSVersMax: uint16(in.Int("vmax0"))}
		var err error
		if viaJSON {
			// {"key": "<base64>", …}: what ImportTLSClientHelloFromJSON is given
			jm := map[string]string{}
			for k, v := range m {
				jm[k] = base64.StdEncoding.EncodeToString(v)
			}
			jb, _ := json.Marshal(jm)
			err = spec.ImportTLSClientHelloFromJSON(jb)
		} else {
			err = spec.ImportTLSClientHello(m)
		}
		if err != nil {
			return "out=err"
		}
		return "out=ok " + describeSpec(spec)
	}
	direct := run(false)
	if strings.HasPrefix(direct, "out=panic") {
		return direct
	}
	via := run(true)
	if via == direct {
		return direct + " jsame=1"
	}
	return direct + " jsame=0:" + sanitize(via)
}

// ---------- json: ClientHelloSpec.UnmarshalJSON ----------

// JSON value tree with ordered object keys
type jv struct {
	kind byte // z t f i r s a o
	num  int64
	str  string
	arr  []*jv
	keys []string
}

func jNull() *jv         { return &jv{kind: 'z'} }
func jBool(b bool) *jv   { return &jv{kind: map[bool]byte{true: 't', false: 'f'}[b]} }
func jNum(n int64) *jv   { return &jv{kind: 'i', num: n} }
func jFrac() *jv         { return &jv{kind: 'r'} }
func jStr(s string) *jv  { return &jv{kind: 's', str: s} }
func jArr(xs ...*jv) *jv { return &jv{kind: 'a', arr: xs} }
func jObj() *jv          { return &jv{kind: 'o'} }
func (o *jv) set(k string, v *jv) *jv {
	for i, kk := range o.keys {
		if kk == k {
			o.arr[i] = v
			return o
		}
	}
	o.keys = append(o.keys, k)
	o.arr = append(o.arr, v)
	return o
}
func (o *jv) del(k string) {
	for i, kk := range o.keys {
		if kk == k {
			o.keys = append(o.keys[:i:i], o.keys[i+1:]...)
			o.arr = append(o.arr[:i:i], o.arr[i+1:]...)
			return
		}
	}
}
func (o *jv) get(k string) *jv {
	for i, kk := range o.keys {
		if kk == k {
			return o.arr[i]
		}
	}
	return nil
}
func jStrs(ss []string) *jv {
	a := jArr()
	for _, s := range ss {
		// documents stay ASCII (encoding/json replaces invalid UTF-8, which the token-level model does not describe)
		b := []byte(s)
		for i, c := range b {
			if c < 0x20 || c >= 0x7f {
				b[i] = 'a' + c%26
			}
		}
		a.arr = append(a.arr, jStr(string(b)))
	}
	return a
}
func (v *jv) clone() *jv {
	c := *v
	c.keys = append([]string(nil), v.keys...)
	c.arr = nil
	for _, x := range v.arr {
		c.arr = append(c.arr, x.clone())
	}
	return &c
}

func hexStr(s string) string { return hex.EncodeToString([]byte(s)) }

func (v *jv) tokens(out *[]string) {
	switch v.kind {
	case 'z', 't', 'f', 'r':
		*out = append(*out, string(v.kind))
	case 'i':
		*out = append(*out, "i"+strconv.FormatInt(v.num, 10))
	case 's':
		*out = append(*out, "s"+hexStr(v.str))
	case 'a':
		*out = append(*out, "a"+strconv.Itoa(len(v.arr)))
		for _, x := range v.arr {
			x.tokens(out)
		}
	case 'o':
		*out = append(*out, "o"+strconv.Itoa(len(v.arr)))
		for i, x := range v.arr {
			*out = append(*out, "k"+hexStr(v.keys[i]))
			x.tokens(out)
		}
	}
}

func (v *jv) text(b *bytes.Buffer) {
	switch v.kind {
	case 'z':
		b.WriteString("null")
	case 't':
		b.WriteString("true")
	case 'f':
		b.WriteString("false")
	case 'r':
		b.WriteString("1.5")
	case 'i':
		b.WriteString(strconv.FormatInt(v.num, 10))
	case 's':
		q, _ := json.Marshal(v.str)
		b.Write(q)
	case 'a':
		b.WriteByte('[')
		for i, x := range v.arr {
			if i > 0 {
				b.WriteByte(',')
			}
			x.text(b)
		}
		b.WriteByte(']')
	case 'o':
		b.WriteByte('{')
		for i, x := range v.arr {
			if i > 0 {
				b.WriteByte(',')
			}
			q, _ := json.Marshal(v.keys[i])
			b.Write(q)
			b.WriteByte(':')
			x.text(b)
		}
		b.WriteByte('}')
	}
}

func parseTokens(toks []string, p *int) *jv {
	if *p >= len(toks) {
		panic("bad doc")
	}
	t := toks[*p]
	*p++
	switch t[0] {
	case 'z', 't', 'f', 'r':
		return &jv{kind: t[0]}
	case 'i':
		n, err := strconv.ParseInt(t[1:], 10, 64)
		if err != nil {
			panic("bad doc int")
		}
		return jNum(n)
	case 's':
		return jStr(string(unhex(t[1:])))
	case 'a':
		n, _ := strconv.Atoi(t[1:])
		a := jArr()
		for i := 0; i < n; i++ {
			a.arr = append(a.arr, parseTokens(toks, p))
		}
		return a
	case 'o':
		n, _ := strconv.Atoi(t[1:])
		o := jObj()
		for i := 0; i < n; i++ {
			k := toks[*p]
			*p++
			o.keys = append(o.keys, string(unhex(k[1:])))
			o.arr = append(o.arr, parseTokens(toks, p))
		}
		return o
	}
	panic("bad doc token " + t)
}

// JSON text → tree (object key order kept); used for the repository's own example documents
func treeOfText(text []byte) (*jv, error) {
	dec := json.NewDecoder(bytes.NewReader(text))
	dec.UseNumber()
	var rd func() (*jv, error)
	rd = func() (*jv, error) {
		t, err := dec.Token()
		if err != nil {
			return nil, err
		}
		switch x := t.(type) {
		case json.Delim:
			if x == '[' {
				a := jArr()
				for dec.More() {
					e, err := rd()
					if err != nil {
						return nil, err
					}
					a.arr = append(a.arr, e)
				}
				_, err := dec.Token()
				return a, err
			}
			o := jObj()
			for dec.More() {
				kt, err := dec.Token()
				if err != nil {
					return nil, err
				}
				e, err := rd()
				if err != nil {
					return nil, err
				}
				o.keys = append(o.keys, kt.(string))
				o.arr = append(o.arr, e)
			}
			_, err := dec.Token()
			return o, err
		case string:
			return jStr(x), nil
		case json.Number:
			n, err := strconv.ParseInt(string(x), 10, 64)
			if err != nil {
				return jFrac(), nil
			}
			return jNum(n), nil
		case bool:
			return jBool(x), nil
		case nil:
			return jNull(), nil
		}
		return nil, fmt.Errorf("token %T", t)
	}
	return rd()
}

func nameOr[K comparable](m map[K]string, k K, alt string) string {
	if s, ok := m[k]; ok {
		return s
	}
	return alt
}

func sigNames(xs []tls.SignatureScheme) *jv {
	a := jArr()
	for _, x := range xs {
		if uint16(x) == tls.GREASE_PLACEHOLDER {
			a.arr = append(a.arr, jStr("GREASE"))
		} else {
			a.arr = append(a.arr, jStr(nameOr(dicttls.DictSignatureSchemeValueIndexed, uint16(x), "no_such_scheme")))
		}
	}
	return a
}

func bytesVal(r *Rng, b []byte) *jv {
	if r.Bool() {
		return jStr(base64.StdEncoding.EncodeToString(b))
	}
	a := jArr()
	for _, x := range b {
		a.arr = append(a.arr, jNum(int64(x)))
	}
	return a
}

// the JSON entry describing one extension of a spec (nil: type has no JSON form)
func entryOfExt(r *Rng, e tls.TLSExtension) *jv {
	o := jObj()
	name := func(id uint16) { o.set("name", jStr(nameOr(dicttls.DictExtTypeValueIndexed, id, "no_such_ext"))) }
	switch x := e.(type) {
	case *tls.SNIExtension:
		name(0)
	case *tls.StatusRequestExtension:
		name(5)
	case *tls.SupportedCurvesExtension:
		name(10)
		a := jArr()
		for _, c := range x.Curves {
			if uint16(c) == tls.GREASE_PLACEHOLDER {
				a.arr = append(a.arr, jStr("GREASE"))
			} else {
				a.arr = append(a.arr, jStr(nameOr(dicttls.DictSupportedGroupsValueIndexed, uint16(c), "no_such_group")))
			}
		}
		o.set("named_group_list", a)
	case *tls.SupportedPointsExtension:
		name(11)
		a := jArr()
		for _, c := range x.SupportedPoints {
			a.arr = append(a.arr, jStr(nameOr(dicttls.DictECPointFormatValueIndexed, c, "no_such_format")))
		}
		o.set("ec_point_format_list", a)
	case *tls.SignatureAlgorithmsExtension:
		name(13)
		o.set("supported_signature_algorithms", sigNames(x.SupportedSignatureAlgorithms))
	case *tls.SignatureAlgorithmsCertExtension:
		name(50)
		o.set("supported_signature_algorithms", sigNames(x.SupportedSignatureAlgorithms))
	case *tls.FakeDelegatedCredentialsExtension:
		name(34)
		o.set("supported_signature_algorithms", sigNames(x.SupportedSignatureAlgorithms))
	case *tls.ALPNExtension:
		name(16)
		o.set("protocol_name_list", jStrs(x.AlpnProtocols))
	case *tls.ApplicationSettingsExtension:
		name(17513)
		o.set("supported_protocols", jStrs(x.SupportedProtocols))
	case *tls.ApplicationSettingsExtensionNew:
		name(17613)
		o.set("supported_protocols", jStrs(x.SupportedProtocols))
	case *tls.StatusRequestV2Extension:
		name(17)
	case *tls.SCTExtension:
		name(18)
	case *tls.UtlsPaddingExtension:
		name(21)
		if r.Bool() {
			o.set("len", jNum(int64(Pick(r, []int{0, 1, 17, 512, 65535}))))
		}
	case *tls.ExtendedMasterSecretExtension:
		name(23)
	case *tls.FakeTokenBindingExtension:
		name(24)
		o.set("token_binding_version", jObj().set("major", jNum(int64(x.MajorVersion))).set("minor", jNum(int64(x.MinorVersion))))
		a := jArr()
		for _, p := range x.KeyParameters {
			a.arr = append(a.arr, jStr(nameOr(map[uint8]string{0: "rsa2048_pkcs1.5", 1: "rsa2048_pss", 2: "ecdsap256"}, p, "no_such_param")))
		}
		o.set("key_parameters_list", a)
	case *tls.UtlsCompressCertExtension:
		name(27)
		a := jArr()
		for _, c := range x.Algorithms {
			a.arr = append(a.arr, jStr(nameOr(dicttls.DictCertificateCompressionAlgorithmValueIndexed, uint16(c), "no_such_alg")))
		}
		o.set("algorithms", a)
	case *tls.FakeRecordSizeLimitExtension:
		name(28)
		o.set("record_size_limit", jNum(int64(x.Limit)))
	case *tls.SessionTicketExtension:
		name(35)
	case *tls.FakePreSharedKeyExtension:
		name(41)
		ids := jArr()
		for _, id := range x.Identities {
			ids.arr = append(ids.arr, jObj().set("identity", bytesVal(r, id.Label)).set("obfuscated_ticket_age", jNum(int64(id.ObfuscatedTicketAge))))
		}
		bs := jArr()
		for _, b := range x.Binders {
			bs.arr = append(bs.arr, bytesVal(r, b))
		}
		o.set("identities", ids).set("binders", bs)
	case *tls.UtlsPreSharedKeyExtension:
		name(41)
	case *tls.SupportedVersionsExtension:
		name(43)
		a := jArr()
		for _, v := range x.Versions {
			a.arr = append(a.arr, jStr(nameOr(map[uint16]string{tls.GREASE_PLACEHOLDER: "GREASE", 0x0304: "TLS 1.3", 0x0303: "TLS 1.2", 0x0302: "TLS 1.1", 0x0301: "TLS 1.0", 0x0300: "SSL 3.0"}, v, "TLS 9.9")))
		}
		o.set("versions", a)
	case *tls.CookieExtension:
		name(44)
		o.set("cookie", bytesVal(r, x.Cookie))
	case *tls.PSKKeyExchangeModesExtension:
		name(45)
		a := jArr()
		for _, m := range x.Modes {
			a.arr = append(a.arr, jStr(nameOr(dicttls.DictPSKKeyExchangeModeValueIndexed, m, "no_such_mode")))
		}
		o.set("ke_modes", a)
	case *tls.KeyShareExtension:
		name(51)
		a := jArr()
		for _, k := range x.KeyShares {
			s := jObj()
			if uint16(k.Group) == tls.GREASE_PLACEHOLDER {
				s.set("group", jStr("GREASE"))
			} else {
				s.set("group", jStr(nameOr(dicttls.DictSupportedGroupsValueIndexed, uint16(k.Group), "no_such_group")))
			}
			if len(k.Data) > 0 || r.Intn(3) == 0 {
				s.set("key_exchange", bytesVal(r, k.Data))
			}
			a.arr = append(a.arr, s)
		}
		o.set("client_shares", a)
	case *tls.QUICTransportParametersExtension:
		name(57)
	case *tls.NPNExtension:
		name(13172)
	case *tls.FakeChannelIDExtension:
		if x.OldExtensionID {
			name(30031)
		} else {
			name(30032)
		}
	case *tls.RenegotiationInfoExtension:
		name(65281)
	case *tls.UtlsGREASEExtension:
		o.set("name", jStr("GREASE"))
		switch r.Intn(4) {
		case 1:
			g := r.Intn(16)<<4 | 0xa
			o.set("id", jNum(int64(g<<8|g))).set("keep_id", jBool(r.Bool())).set("keep_data", jBool(r.Bool())).set("data", bytesVal(r, r.Bytes(r.Intn(5))))
		case 2:
			o.set("id", jNum(int64(Pick(r, []int{0, 1, 2570, 0x1a2a, 65536, -1}))))
		}
	case *tls.GREASEEncryptedClientHelloExtension:
		o.set("name", jStr("encrypted_client_hello"))
	case *tls.GenericExtension:
		name(x.Id)
		o.set("data", bytesVal(r, x.Data))
	default:
		return nil
	}
	return o
}

func docOfSpec(r *Rng, s *tls.ClientHelloSpec) *jv {
	cs := jArr()
	for _, c := range s.CipherSuites {
		if c == tls.GREASE_PLACEHOLDER {
			cs.arr = append(cs.arr, jStr("GREASE"))
		} else {
			cs.arr = append(cs.arr, jStr(nameOr(dicttls.DictCipherSuiteValueIndexed, c, "TLS_NO_SUCH_SUITE")))
		}
	}
	cm := jArr()
	for _, c := range s.CompressionMethods {
		cm.arr = append(cm.arr, jStr(nameOr(dicttls.DictCompMethValueIndexed, c, "no_such_method")))
	}
	ex := jArr()
	for _, e := range s.Extensions {
		if o := entryOfExt(r, e); o != nil {
			ex.arr = append(ex.arr, o)
		}
	}
	d := jObj().set("cipher_suites", cs).set("compression_methods", cm).set("extensions", ex)
	if s.TLSVersMin != 0 || r.Intn(4) == 0 {
		d.set("min_vers", jNum(int64(s.TLSVersMin)))
	}
	if s.TLSVersMax != 0 || r.Intn(4) == 0 {
		d.set("max_vers", jNum(int64(s.TLSVersMax)))
	}
	return d
}

func jsonLine(r *Rng, d *jv, syn, src string) string {
	var toks []string
	d.tokens(&toks)
	return fmt.Sprintf("doc=%s pad=%d syn=%s src=%s", strings.Join(toks, ","), r.Intn(2), syn, src)
}

func wrongTypes(r *Rng) *jv {
	return Pick(r, []*jv{jNull(), jBool(true), jNum(5), jNum(-1), jFrac(), jStr("x"), jStr(""), jArr(), jArr(jNum(1)), jArr(jNull()), jObj(), jObj().set("name", jNum(3)), jArr(jStr("GREASE"), jNull())})
}

var repoJSONDocs []*jv
var repoJSONLoaded bool

func loadRepoJSON() {
	if repoJSONLoaded {
		return
	}
	repoJSONLoaded = true
	repo := os.Getenv("VERIF_REPO")
	if repo == "" {
		repo = "/repo"
	}
	files, _ := filepath.Glob(filepath.Join(repo, "testdata", "ClientHello-JSON-*.json"))
	sort.Strings(files)
	for _, f := range files {
		b, err := os.ReadFile(f)
		if err != nil {
			continue
		}
		if t, err := treeOfText(b); err == nil {
			repoJSONDocs = append(repoJSONDocs, t)
		}
	}
}

func jsonBatch(r *Rng, b int, tier string) []string {
	loadRepoJSON()
	var d *jv
	src := ""
	switch {
	case b < len(repoJSONDocs):
		d = repoJSONDocs[b]
		src = "testdata"
	case b%3 == 0:
		d = docOfSpec(r, genSaneSpec(r))
		src = "custom"
	case b%3 == 1:
		spec, err := specOfID_c07(parrotIDs[(b/3)%len(parrotIDs)], r.U64())
		if err != nil {
			return nil
		}
		d = docOfSpec(r, &spec)
		src = "parrot"
	default:
		// assembled from arbitrary extension values
		s := &tls.ClientHelloSpec{CompressionMethods: r.Bytes(r.Intn(3)), TLSVersMin: uint16(Pick(r, []int{0, 0x0301})), TLSVersMax: uint16(Pick(r, []int{0, 0x0303}))}
		for i := r.Intn(5); i > 0; i-- {
			s.CipherSuites = append(s.CipherSuites, Pick(r, c07Suites))
		}
		for i := r.Intn(7); i > 0; i-- {
			e := buildExt(genExtDesc(r, r.Intn(nExtKinds)))
			if l := e.Len(); l < 600 {
				s.Extensions = append(s.Extensions, e)
			}
		}
		d = docOfSpec(r, s)
		src = "assembled"
	}
	var out []string
	out = append(out, jsonLine(r, d, "none", src))
	mut := func(m *jv, s string) { out = append(out, jsonLine(r, m, "none", s)) }
	// top-level fields absent / null / of the wrong type
	for _, k := range []string{"cipher_suites", "compression_methods", "extensions", "min_vers", "max_vers"} {
		m := d.clone()
		m.del(k)
		mut(m, "absent")
		m = d.clone()
		m.set(k, jNull())
		mut(m, "null")
		m = d.clone()
		m.set(k, wrongTypes(r))
		mut(m, "wrongtype")
	}
	mut(Pick(r, []*jv{jNull(), jObj(), jArr(), jStr("x"), jNum(1), jBool(false)}), "toplevel")
	mut(d.clone().set("min_vers", jNum(int64(Pick(r, []int{-1, 65535, 65536, 1 << 40})))).set("max_vers", jFrac()), "versrange")
	// names
	{
		m := d.clone()
		a := m.get("cipher_suites")
		a.arr = append(a.arr, jStr(Pick(r, []string{"TLS_BOGUS", "", "grease", "GREASE", "TLS_AES_128_GCM_SHA256"})))
		mut(m, "suitename")
		m = d.clone()
		a = m.get("compression_methods")
		a.arr = append(a.arr, Pick(r, []*jv{jStr("GREASE"), jStr("DEFLATE"), jStr("NULL"), jNull(), jNum(0)}))
		mut(m, "compname")
	}
	exts := d.get("extensions")
	if exts != nil && exts.kind == 'a' {
		// entries: null, non-objects, missing / odd names, names without JSON form
		for i := 0; i < 6; i++ {
			m := d.clone()
			a := m.get("extensions")
			e := Pick(r, []*jv{jNull(), jNum(1), jStr("server_name"), jArr(), jObj(), jObj().set("name", jNull()), jObj().set("name", jNum(0)),
				jObj().set("name", jStr("")), jObj().set("name", jStr("cookie")), jObj().set("name", jStr("quic_transport_parameters")),
				jObj().set("name", jStr("early_data")), jObj().set("name", jStr("Server_Name_X")), jObj().set("name", jStr("GREASE")).set("id", jStr("x")),
				jObj().set("name", jStr("padding")).set("len", jNum(int64(Pick(r, []int{-1, 0, 7, 1 << 33})))),
				jObj().set("name", jStr("record_size_limit")).set("record_size_limit", Pick(r, []*jv{jNum(65536), jNum(-1), jFrac(), jStr("1"), jNull(), jNum(16385)})),
				jObj().set("name", jStr("token_binding")).set("token_binding_version", Pick(r, []*jv{jNull(), jArr(), jObj().set("major", jNum(256)), jObj().set("minor", jNum(255))})),
				jObj().set("name", jStr("pre_shared_key")).set("identities", Pick(r, []*jv{jNull(), jArr(jNull()), jArr(jObj().set("identity", jStr("!!!"))), jArr(jObj().set("identity", jStr("QUJD")).set("obfuscated_ticket_age", jNum(1<<32))), jArr(jNum(1))})).set("binders", Pick(r, []*jv{jNull(), jArr(jStr("QQ==")), jArr(jStr("QQ=")), jArr(jArr(jNum(1), jNum(255), jNum(256))), jArr(jArr(jNull()))})),
				jObj().set("name", jStr("key_share")).set("client_shares", Pick(r, []*jv{jNull(), jObj(), jArr(jNull()), jArr(jObj()), jArr(jObj().set("group", jStr("x25519")).set("key_exchange", jStr("QUI"))), jArr(jObj().set("group", jStr("GREASE")).set("key_exchange", jStr("QUI=")))})),
				jObj().set("name", jStr("supported_versions")).set("versions", jStrs([]string{Pick(r, []string{"SSL 3.0", "TLS 1.3", "tls 1.3", "GREASE", ""})})),
			})
			at := r.Intn(len(a.arr) + 1)
			a.arr = append(a.arr[:at:at], append([]*jv{e}, a.arr[at:]...)...)
			mut(m, "entry")
		}
		// per-extension fields: wrong types, unknown names, null
		for i := 0; i < 8 && len(exts.arr) > 0; i++ {
			m := d.clone()
			a := m.get("extensions")
			e := Pick(r, a.arr)
			if e.kind != 'o' || len(e.keys) < 2 {
				continue
			}
			k := e.keys[1+r.Intn(len(e.keys)-1)]
			switch r.Intn(4) {
			case 0:
				e.set(k, wrongTypes(r))
			case 1:
				e.set(k, jNull())
			case 2:
				if v := e.get(k); v.kind == 'a' {
					v.arr = append(v.arr, Pick(r, []*jv{jStr("no_such_name"), jNull(), jNum(3), jStr("GREASE"), jStr("")}))
				}
			default:
				e.del(k)
			}
			mut(m, "field")
		}
	}
	// enumerated / numeric fields at their boundaries (uint8, uint16, uint32, uint64 targets; GREASE ids)
	if exts != nil && exts.kind == 'a' {
		nums := []int64{0, 1, 2, 255, 256, 2570, 0x1a1a, 65535, 65536, 1<<32 - 1, 1 << 32, 1<<63 - 1, -1}
		for i := 0; i < 6; i++ {
			m := d.clone()
			a := m.get("extensions")
			n := Pick(r, nums)
			e := Pick(r, []*jv{
				jObj().set("name", jStr("padding")).set("len", jNum(n)),
				jObj().set("name", jStr("record_size_limit")).set("record_size_limit", jNum(n)),
				jObj().set("name", jStr("GREASE")).set("id", jNum(n)).set("keep_id", jBool(r.Bool())).set("keep_data", jBool(r.Bool())).set("data", jStr("AAEC")),
				jObj().set("name", jStr("token_binding")).set("token_binding_version", jObj().set("major", jNum(n)).set("minor", jNum(Pick(r, nums)))).set("key_parameters_list", jStrs([]string{"ecdsap256"})),
				jObj().set("name", jStr("pre_shared_key")).set("identities", jArr(jObj().set("identity", jStr("QUJD")).set("obfuscated_ticket_age", jNum(n)))).set("binders", jArr(jArr(jNum(n%300), jNum(7)))),
			})
			a.arr = append(a.arr, e)
			mut(m, "enum")
		}
	}
	// malformed text
	var buf bytes.Buffer
	d.text(&buf)
	for i := 0; i < 4; i++ {
		out = append(out, jsonLine(r, d, fmt.Sprintf("trunc:%d", r.Intn(buf.Len())), "syntax"))
	}
	out = append(out, jsonLine(r, d, "garbage", "syntax"))
	return out
}

func execJSON_c07(in KV) string {
	toks := strings.Split(in["doc"], ",")
	p := 0
	d := parseTokens(toks, &p)
	var buf bytes.Buffer
	d.text(&buf)
	text := buf.Bytes()
	switch syn := in["syn"]; {
	case strings.HasPrefix(syn, "trunc:"):
		k, _ := strconv.Atoi(syn[6:])
		if k < len(text) {
			text = text[:k]
		}
	case syn == "garbage":
		text = append(text, '}')
	}
	f := &tls.Fingerprinter{AlwaysAddPadding: in["pad"] == "1"}
	spec, err := f.UnmarshalJSONClientHello(text)
	if err != nil {
		return "out=err"
	}
	return "out=ok " + describeSpec(spec)
}

// A hanging importer cannot be killed from inside the process: every case runs under its own
// deadline (shorter than the runner's), and after a few timeouts the generators stop, so that a
// non-terminating decoder costs seconds, not the per-case deadline times the number of cases.
var c07Timeouts int32

const c07Deadline = 6 * time.Second

func guarded(f func(KV) string) func(KV) string {
	return func(in KV) string {
		ch := make(chan string, 1)
		go func() {
			defer func() {
				if p := recover(); p != nil {
					ch <- "out=panic msg=" + sanitize(fmt.Sprint(p))
				}
			}()
			ch <- f(in)
		}()
		select {
		case s := <-ch:
			return s
		case <-time.After(c07Deadline):
			atomic.AddInt32(&c07Timeouts, 1)
			return "out=timeout"
		}
	}
}

func (g *batchGen) gen(r *Rng, i int, tier string) string {
	if atomic.LoadInt32(&c07Timeouts) >= 3 {
		return "" // stop: the run already has its failing inputs
	}
	return g.next(r, tier)
}

func init() {
	log.SetOutput(io.Discard) // ImportTLSClientHello logs a warning per data-less extension
	fp := &batchGen{fill: fpBatch}
	register(&Family{Name: "fp", Timeout: 10 * time.Second, Exec: guarded(execFp), Gen: fp.gen})
	imp := &batchGen{fill: impBatch}
	register(&Family{Name: "imp", Timeout: 10 * time.Second, Exec: guarded(execImp), Gen: imp.gen})
	js := &batchGen{fill: jsonBatch}
	register(&Family{Name: "json", Timeout: 10 * time.Second, Exec: guarded(execJSON_c07), Gen: js.gen})
}
