package main

import (
	"errors"
	"fmt"
	"io"
	"strings"

	tls "github.com/refraction-networking/utls"
)

// ---- C08: every extension's Len/Read/Write ----
// ext e=<desc> buf=<delta> => len=<n> read=<ok:hex|short|eof0|err:cls> n=<returned n> write=<desc|err|none> reread=<...>

var listLens = []int{0, 1, 2, 3, 5, 17, 127, 128, 129, 255, 256}
var bigListLens = []int{32766, 32767, 32768}

func genLen(r *Rng, big bool) int {
	if big && r.Intn(25) == 0 {
		return Pick(r, bigListLens)
	}
	return Pick(r, listLens[:3+r.Intn(len(listLens)-2)])
}

func genU16s(r *Rng, n int, grease bool) string {
	var ss []string
	for i := 0; i < n; i++ {
		v := r.Intn(65536)
		if grease && r.Intn(6) == 0 {
			g := r.Intn(16)<<4 | 0xa
			v = g<<8 | g
		}
		ss = append(ss, fmt.Sprint(v))
	}
	return joinList(ss)
}

func genU8s(r *Rng, n int) string {
	var ss []string
	for i := 0; i < n; i++ {
		ss = append(ss, fmt.Sprint(r.Intn(256)))
	}
	return joinList(ss)
}

func genBytes(r *Rng) []byte {
	n := Pick(r, []int{0, 1, 2, 31, 32, 33, 254, 255, 256, 257, 1000})
	if r.Intn(40) == 0 {
		n = Pick(r, []int{65530, 65531, 65532, 65535, 65536, 65540})
	}
	return r.Bytes(n)
}

func genProtos(r *Rng) string {
	n := Pick(r, []int{0, 1, 2, 3, 8})
	var ss []string
	for i := 0; i < n; i++ {
		l := Pick(r, []int{1, 2, 8, 254, 255, 0, 256, 300})
		if r.Intn(3) > 0 {
			l = 1 + r.Intn(10)
		}
		ss = append(ss, hxe(r.Bytes(l)))
	}
	return joinList(ss)
}

var sniNames = []string{"", "example.com", "example.com.", "a", "...", "a..", "1.2.3.4", "01.2.3.4", "1.2.3.256", "1.2.3", "::1", "[::1]", "[fe80::1%eth0]",
	"fe80::1%eth0", "[example.com]", "1:2:3:4:5:6:7:8", "1:2:3:4:5:6:7:8:9", "::ffff:1.2.3.4", "1::2::3", "12345::", "::", ":", "x%y", "%", "[", "]", "[]",
	"xn--nxasmq6b.example", "EXAMPLE.COM", "a.b.c.d.e.f.g.h.i.j.k", "1.2.3.4.", "0x1.2.3.4", "1.2.3.4%eth0", "::1%", "[::1]:443", "1:2:3:4:5:6:1.2.3.4", "1:2:3:4:5:6:7:1.2.3.4", "::1.2.3.4", "fe80::%25eth0"}

func genSNI(r *Rng) string {
	switch r.Intn(4) {
	case 0:
		return Pick(r, sniNames)
	case 1:
		n := Pick(r, []int{1, 63, 250, 251, 252, 253, 254, 255, 256, 300, 65525, 65526, 65530, 65531, 65540})
		b := make([]byte, n)
		for i := range b {
			b[i] = "abcdefghijklmnopqrstuvwxyz0123456789-."[r.Intn(38)]
		}
		if b[0] == '.' {
			b[0] = 'a'
		}
		return string(b)
	case 2:
		// IP-like
		alphabet := "0123456789abcdef:.%[]x"
		n := 1 + r.Intn(24)
		b := make([]byte, n)
		for i := range b {
			b[i] = alphabet[r.Intn(len(alphabet))]
		}
		return string(b)
	default:
		s := Pick(r, sniNames)
		return s + strings.Repeat(".", r.Intn(3))
	}
}

func genExtDesc(r *Rng, kind int) string {
	switch kind {
	case 0:
		return "sni|" + hx([]byte(genSNI(r)))
	case 1:
		return "status_request"
	case 2:
		return "curves|" + genU16s(r, genLen(r, true), true)
	case 3:
		return "points|" + genU8s(r, genLen(r, false))
	case 4:
		return "sigalgs|" + genU16s(r, genLen(r, true), false)
	case 5:
		return "status_request_v2"
	case 6:
		return "sigalgs_cert|" + genU16s(r, genLen(r, true), false)
	case 7:
		return "alpn|" + genProtos(r)
	case 8:
		return fmt.Sprintf("alps|%d|%s", r.Intn(2), genProtos(r))
	case 9:
		return "sct"
	case 10:
		return fmt.Sprintf("generic|%d|%s", r.Intn(65536), hx(genBytes(r)))
	case 11:
		return "ems"
	case 12:
		g := r.Intn(16)<<4 | 0xa
		return fmt.Sprintf("grease|%d|%s", g<<8|g, hx(genBytes(r)))
	case 13:
		return fmt.Sprintf("padding|%d|%d", Pick(r, []int{0, 1, 2, 100, 250, 512, 65535, 65536, 70000}), r.Intn(2))
	case 14:
		return "compress_cert|" + genU16s(r, Pick(r, []int{0, 1, 2, 3, 126, 127, 128, 129, 200}), false)
	case 15:
		n := Pick(r, []int{0, 1, 2, 3, 4})
		var ss []string
		for i := 0; i < n; i++ {
			g := Pick(r, []int{29, 23, 24, 25, 4588, 25497, 0x0a0a, 0x3a3a, r.Intn(65536)})
			l := Pick(r, []int{1, 32, 65, 97, 133, 1216, 0, 2})
			ss = append(ss, fmt.Sprintf("%d:%s", g, hxe(r.Bytes(l))))
		}
		return "key_share|" + joinList(ss)
	case 16:
		n := r.Intn(4)
		var ss []string
		for i := 0; i < n; i++ {
			ss = append(ss, fmt.Sprintf("%d:%s", 1+r.Intn(1<<30), hxe(r.Bytes(Pick(r, []int{0, 1, 8, 63, 64, 100})))))
		}
		return "quic_tp|" + joinList(ss)
	case 17:
		return "psk_modes|" + genU8s(r, Pick(r, []int{0, 1, 2, 255, 256, 300}))
	case 18:
		return "versions|" + genU16s(r, Pick(r, []int{0, 1, 2, 3, 4, 126, 127, 128, 200}), true)
	case 19:
		return "cookie|" + hx(genBytes(r))
	case 20:
		return "npn"
	case 21:
		return "reneg|" + hx(r.Bytes(Pick(r, []int{0, 0, 12, 36, 255, 256, 300})))
	case 22:
		return fmt.Sprintf("channel_id|%d", r.Intn(2))
	case 23:
		return fmt.Sprintf("record_size_limit|%d", Pick(r, []int{0, 1, 255, 256, 16385, 65535}))
	case 24:
		return fmt.Sprintf("token_binding|%d|%d|%s", r.Intn(256), r.Intn(256), genU8s(r, Pick(r, []int{0, 1, 2, 3, 255, 256})))
	case 25:
		return "delegated|" + genU16s(r, genLen(r, true), false)
	case 26:
		return "session_ticket|" + hx(genBytes(r))
	case 27:
		nid := Pick(r, []int{0, 1, 1, 2, 3})
		var ids []string
		for i := 0; i < nid; i++ {
			ids = append(ids, fmt.Sprintf("%s:%d", hxe(r.Bytes(Pick(r, []int{0, 1, 16, 100, 300}))), r.U64()&0xffffffff))
		}
		nb := Pick(r, []int{0, 1, 1, 2})
		var bs []string
		for i := 0; i < nb; i++ {
			bs = append(bs, hxe(r.Bytes(Pick(r, []int{32, 32, 48, 48, 0, 20, 33, 255}))))
		}
		fake := r.Intn(2)
		sess := r.Intn(2)
		if fake == 0 && r.Intn(4) > 0 {
			sess = 1 // the documented way to have identities is an initialised session
		}
		return fmt.Sprintf("psk|%d|%d|%d|%s|%s", fake, r.Intn(2), sess, joinList(ids), joinList(bs))
	default:
		// "regenerated at the same sizes": the encapsulated key takes every KEM's size (X25519 32, P-256 65,
		// P-384 97, P-521 133) and lengths around them, not just the 32 bytes init() would draw by itself;
		// the payload takes lengths around the AEAD tag and the usual padded sizes
		return fmt.Sprintf("ech|%d|%d|%d|%s|%s", Pick(r, []int{1, 2, 3, 1, 4}), Pick(r, []int{1, 2, 3, 1, 7}), r.Intn(256),
			hx(r.Bytes(Pick(r, c08EchEncLens))), hx(r.Bytes(Pick(r, c08EchPayloadLens))))
	}
}

const nExtKinds = 29

var c08EchEncLens = []int{32, 0, 1, 16, 31, 33, 65, 97, 133, 300, 32, 64}
var c08EchPayloadLens = []int{144, 176, 208, 240, 0, 5, 15, 16, 17, 32, 33, 145, 272, 1000}

func classifyErr(err error) string {
	switch {
	case err == nil:
		return "nil"
	case err == io.EOF:
		return "eof"
	case err == io.ErrShortBuffer:
		return "short"
	case errors.Is(err, tls.ErrEmptyPsk):
		return "err:empty-psk"
	case strings.Contains(err.Error(), "invalid binder size"):
		return "err:binder-size"
	case strings.Contains(err.Error(), "too many"):
		return "err:too-many"
	}
	return "err:other"
}

func init() {
	register(&Family{
		Name: "ext",
		Gen: func(r *Rng, i int, tier string) string {
			kind := i % nExtKinds
			return fmt.Sprintf("e=%s buf=%s", genExtDesc(r, kind), Pick(r, []string{"0", "-1", "-1", "+0", "+0", "+0", "+1", "+2000", "half"}))
		},
		Exec: execExt,
	})
}

func execExt(in KV) string {
	e := buildExt(in["e"])
	l := e.Len()
	var bufLen int
	switch in["buf"] {
	case "0":
		bufLen = 0
	case "-1":
		bufLen = l - 1
	case "+0":
		bufLen = l
	case "+1":
		bufLen = l + 1
	case "+2000":
		bufLen = l + 2000
	case "half":
		bufLen = l / 2
	}
	if bufLen < 0 {
		bufLen = 0
	}
	// PSK compares the buffer with pskExtLen even when Len() is 0: give it room so that case is observable
	if strings.HasPrefix(in["e"], "psk|0|1|0|") && in["buf"] == "+2000" {
		bufLen = 4000
	}
	buf := make([]byte, bufLen)
	n, err := e.Read(buf)
	rd := classifyErr(err)
	var out string
	switch {
	case rd == "eof" && n > 0:
		out = "ok:" + hx(buf[:n])
	case rd == "eof":
		out = "eof0"
	default:
		out = rd
	}
	// nothing beyond n may be touched
	dirty := 0
	for _, c := range buf[min(n, len(buf)):] {
		if c != 0 {
			dirty++
		}
	}
	res := fmt.Sprintf("len=%d buf=%d n=%d read=%s dirty=%d", l, bufLen, n, out, dirty)
	// decode the body with the extension ExtensionFromID provides and encode again
	if strings.HasPrefix(out, "ok:") && n >= 4 {
		id := uint16(buf[0])<<8 | uint16(buf[1])
		body := append([]byte(nil), buf[4:n]...)
		ne := tls.ExtensionFromID(id)
		w, ok := ne.(tls.TLSExtensionWriter)
		if ne == nil || !ok {
			res += " write=unknown"
		} else {
			if id == 41 {
				if strings.HasPrefix(in["e"], "psk|1") {
					w = &tls.FakePreSharedKeyExtension{}
				} else {
					w = &tls.UtlsPreSharedKeyExtension{}
				}
			}
			if _, err := w.Write(body); err != nil {
				res += " write=err"
			} else {
				res += " write=" + describeExt(w)
				// encode the decoded extension again
				l2 := w.Len()
				b2 := make([]byte, l2)
				n2, err2 := w.Read(b2)
				r2 := classifyErr(err2)
				if r2 == "eof" && n2 > 0 {
					if id == 65037 {
						// regenerated bytes: report the deterministic prefix and the sizes
						res += fmt.Sprintf(" reread=ok:ech:%s:%d", hx(b2[:9]), n2)
					} else {
						res += " reread=ok:" + hx(b2[:n2])
					}
				} else if r2 == "eof" {
					res += " reread=eof0"
				} else {
					res += " reread=" + r2
				}
			}
		}
	}
	return res
}
