package main

import (
	"encoding/binary"
	"fmt"
	"math"
	"reflect"
	"strings"

	tls "github.com/refraction-networking/utls"
)

// ---- C09: randomized fingerprints (generateRandomizedSpec) ----
//
// rspec client=R|A|N seed=<32 bytes hex> w=<17 float64 bit patterns, struct order> sni=<hex> protos=<hex list>
//   => vmin= vmax= suites= cm= exts=<ext;ext;...> again=<bool> hello=same|<reason> wsuites= wexts=<ids> draws=<Uint64 words> adraws=<words of the "ALPS"-salted prng>
//
// The spec is built by the real generateRandomizedSpec (hook VerifGenerateRandomizedSpec), a second time
// (through the public UTLSIdToSpec when serverName/nextProtos are empty), and a third time through
// UClient(HelloRandomized / HelloRandomizedALPN / HelloRandomizedNoALPN with Seed and Weights set) +
// BuildHandshakeState, whose extension list (per-connection material masked) and marshalled ClientHello
// are reported. The stream tap is a second prng with the same seed (C30 checks that this is the stream).

const c09Draws = 160
const c09AlpsDraws = 4

var c09DefaultW = weightsToBits(tls.DefaultWeights)

func weightsToBits(w tls.Weights) []uint64 {
	v := reflect.ValueOf(w)
	out := make([]uint64, v.NumField())
	for i := range out {
		out[i] = math.Float64bits(v.Field(i).Float())
	}
	return out
}

func weightsFromBits(bits []uint64) tls.Weights {
	var w tls.Weights
	v := reflect.ValueOf(&w).Elem()
	if len(bits) != v.NumField() {
		panic(fmt.Sprintf("weights: want %d values, got %d", v.NumField(), len(bits)))
	}
	for i, b := range bits {
		v.Field(i).SetFloat(math.Float64frombits(b))
	}
	return w
}

func c09Client(tok string) tls.ClientHelloID {
	switch tok {
	case "R":
		return tls.HelloRandomized
	case "A":
		return tls.HelloRandomizedALPN
	case "N":
		return tls.HelloRandomizedNoALPN
	}
	panic("bad client " + tok)
}

var boringPaddingPtr = reflect.ValueOf(tls.BoringPaddingStyle).Pointer()

// describeRExt renders every field of the extension types generateRandomizedSpec can emit.
// mask hides per-connection material (key-share data, computed padding, ticket state).
func describeRExt(e tls.TLSExtension, mask bool) string {
	switch x := e.(type) {
	case *tls.SNIExtension:
		return "sni|" + hx([]byte(x.ServerName))
	case *tls.SessionTicketExtension:
		if mask {
			return "session_ticket"
		}
		return fmt.Sprintf("session_ticket|%s|%s|%s", hx(x.Ticket), b2i(x.Session != nil), b2i(x.Initialized))
	case *tls.SignatureAlgorithmsExtension:
		return "sigalgs|" + sigsStr(x.SupportedSignatureAlgorithms)
	case *tls.SupportedPointsExtension:
		return "points|" + u8list(x.SupportedPoints)
	case *tls.SupportedCurvesExtension:
		var xs []uint16
		for _, c := range x.Curves {
			xs = append(xs, uint16(c))
		}
		return "curves|" + u16list(xs)
	case *tls.ALPNExtension:
		return "alpn|" + hexList(bytesList(x.AlpnProtocols))
	case *tls.UtlsPaddingExtension:
		pol := "none"
		if x.GetPaddingLen != nil {
			pol = "other"
			if reflect.ValueOf(x.GetPaddingLen).Pointer() == boringPaddingPtr {
				pol = "boring"
			}
		}
		if mask {
			return "padding|" + pol
		}
		return fmt.Sprintf("padding|%d|%s|%s", x.PaddingLen, b2i(x.WillPad), pol)
	case *tls.StatusRequestExtension:
		return "status_request"
	case *tls.SCTExtension:
		return "sct"
	case *tls.RenegotiationInfoExtension:
		return fmt.Sprintf("reneg|%d|%s", int(x.Renegotiation), hx(x.RenegotiatedConnection))
	case *tls.ExtendedMasterSecretExtension:
		return "ems"
	case *tls.KeyShareExtension:
		var ss []string
		for _, k := range x.KeyShares {
			d := hxe(k.Data)
			if mask {
				d = "e"
			}
			ss = append(ss, fmt.Sprintf("%d:%s", uint16(k.Group), d))
		}
		return "key_share|" + joinList(ss)
	case *tls.PSKKeyExchangeModesExtension:
		return "psk_modes|" + u8list(x.Modes)
	case *tls.SupportedVersionsExtension:
		return "versions|" + u16list(x.Versions)
	case *tls.ApplicationSettingsExtension:
		return "alps|" + hexList(bytesList(x.SupportedProtocols))
	}
	return fmt.Sprintf("unknown|%T", e)
}

func describeRExts(es []tls.TLSExtension, mask bool) string {
	if len(es) == 0 {
		return "-"
	}
	ss := make([]string, len(es))
	for i, e := range es {
		ss[i] = describeRExt(e, mask)
	}
	return strings.Join(ss, ";")
}

func describeRSpec(s *tls.ClientHelloSpec, mask bool) string {
	return fmt.Sprintf("vmin=%d vmax=%d suites=%s cm=%s exts=%s", s.TLSVersMin, s.TLSVersMax, u16list(s.CipherSuites),
		u8list(s.CompressionMethods), describeRExts(s.Extensions, mask))
}

// chShape parses a marshalled ClientHello (handshake message with header) into suites and extension ids.
func chShape(raw []byte) (suites []uint16, exts []uint16, ok bool) {
	defer func() {
		if recover() != nil {
			ok = false
		}
	}()
	p := raw[4+2+32:]
	p = p[1+int(p[0]):]
	n := int(binary.BigEndian.Uint16(p))
	for i := 0; i < n; i += 2 {
		suites = append(suites, binary.BigEndian.Uint16(p[2+i:]))
	}
	p = p[2+n:]
	p = p[1+int(p[0]):]
	if len(p) == 0 {
		return suites, nil, true
	}
	n = int(binary.BigEndian.Uint16(p))
	p = p[2:]
	if n != len(p) {
		return nil, nil, false
	}
	for len(p) > 0 {
		exts = append(exts, binary.BigEndian.Uint16(p))
		l := int(binary.BigEndian.Uint16(p[2:]))
		p = p[4+l:]
	}
	return suites, exts, true
}

func tapWords(seed tls.PRNGSeed, salt string, salted bool, n int) string {
	p, err := tls.VerifNewPRNG(seed, salt, salted)
	if err != nil {
		panic(err)
	}
	buf := make([]byte, 8*n)
	p.Read(buf)
	ws := make([]string, n)
	for i := range ws {
		ws[i] = fmt.Sprint(binary.BigEndian.Uint64(buf[8*i:]))
	}
	return joinList(ws)
}

func c09Exec(in KV) string {
	seed := seedFrom(in["seed"])
	w := weightsFromBits(parseU64s(in["w"]))
	sni := string(unhex(in["sni"]))
	protos := strList(parseHexList(in["protos"]))
	mkID := func() tls.ClientHelloID {
		id := c09Client(in["client"])
		s := seed
		ww := w
		id.Seed = &s
		id.Weights = &ww
		return id
	}
	id1 := mkID()
	spec1, err := tls.VerifGenerateRandomizedSpec(&id1, sni, append([]string(nil), protos...))
	if err != nil {
		return "out=err msg=" + sanitize(err.Error())
	}
	d1 := describeRSpec(&spec1, false)

	// second build: public path when it denotes the same call, the hook otherwise
	var spec2 tls.ClientHelloSpec
	if sni == "" && len(protos) == 0 {
		spec2, err = tls.UTLSIdToSpec(mkID())
	} else {
		id2 := mkID()
		spec2, err = tls.VerifGenerateRandomizedSpec(&id2, sni, append([]string(nil), protos...))
	}
	again := err == nil && describeRSpec(&spec2, false) == d1
	untouched := *id1.Seed == seed && u64s(weightsToBits(*id1.Weights)) == u64s(weightsToBits(w)) // bit patterns: NaN weights compare unequal as floats

	// third build: the public client path
	hello, wsuites, wexts := "same", "-", "-"
	func() {
		defer func() {
			if p := recover(); p != nil {
				hello = "panic:" + sanitize(fmt.Sprint(p))
			}
		}()
		cfg := &tls.Config{ServerName: sni, NextProtos: append([]string(nil), protos...), InsecureSkipVerify: true,
			Rand: NewRng(binary.BigEndian.Uint64(seed[:8]))}
		uc := tls.UClient(nil, cfg, mkID())
		if err := uc.BuildHandshakeState(); err != nil {
			hello = "err:" + sanitize(err.Error())
			return
		}
		got := fmt.Sprintf("suites=%s exts=%s", u16list(uc.HandshakeState.Hello.CipherSuites), describeRExts(uc.Extensions, true))
		want := fmt.Sprintf("suites=%s exts=%s", u16list(spec1.CipherSuites), describeRExts(spec1.Extensions, true))
		if got != want {
			hello = "differs:" + sanitize(got)
		}
		ws, we, ok := chShape(uc.HandshakeState.Hello.Raw)
		if !ok {
			hello = "unparsable-client-hello"
			return
		}
		wsuites, wexts = u16list(ws), u16list(we)
	}()

	return fmt.Sprintf("%s again=%v idkept=%v hello=%s wsuites=%s wexts=%s draws=%s adraws=%s", d1, again, untouched, hello, wsuites, wexts,
		tapWords(seed, "", false, c09Draws), tapWords(seed, "ALPS", true, c09AlpsDraws))
}

func c09WeightVector(r *Rng, class int) []uint64 {
	n := len(c09DefaultW)
	out := make([]uint64, n)
	fill := func(f float64) {
		for i := range out {
			out[i] = math.Float64bits(f)
		}
	}
	switch class {
	case 0:
		fill(0)
	case 1:
		fill(1)
	case 2:
		copy(out, c09DefaultW)
	case 3: // defaults with one weight forced to a corner
		copy(out, c09DefaultW)
		out[r.Intn(n)] = math.Float64bits(float64(r.Intn(2)))
	case 4: // defaults, TLS 1.3 forced (the 1.3 rules and the key-share section are always exercised)
		copy(out, c09DefaultW)
		out[1] = math.Float64bits(1)
		if r.Bool() {
			out[14] = math.Float64bits(Pick(r, []float64{0, 0.5, 1})) // legacy first-key-share branch
		}
	default: // independent mix incl. out-of-range and non-finite weights
		pool := []float64{0, 1, 0.5, 0.25, 0.75, 0.9, 0.1, 1.5, -0.5, math.Inf(1), math.Inf(-1), math.NaN(), 1e-9, 1 - 1e-16}
		for i := range out {
			switch r.Intn(4) {
			case 0:
				out[i] = c09DefaultW[i]
			case 1:
				out[i] = math.Float64bits(float64(r.U64()>>11) / (1 << 53))
			default:
				out[i] = math.Float64bits(Pick(r, pool))
			}
		}
	}
	return out
}

func init() {
	register(&Family{
		Name: "rspec",
		Gen: func(r *Rng, i int, tier string) string {
			client := []string{"R", "A", "N"}[i%3]
			class := (i / 3) % 8 // classes 5,6,7 = mix
			sni := Pick(r, []string{"example.com", "example.com", "example.com", "", "a.b.example.org", "192.0.2.1"})
			protos := Pick(r, [][]string{nil, nil, nil, {"h2"}, {"http/1.1", "h2", "spdy/3.1"}, {"x"}})
			return fmt.Sprintf("client=%s seed=%s w=%s sni=%s protos=%s", client, hx(r.Bytes(32)), u64s(c09WeightVector(r, class)),
				hx([]byte(sni)), hexList(bytesList(protos)))
		},
		Exec: c09Exec,
	})
}
