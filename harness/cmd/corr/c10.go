package main

// C10 / C11 / C18 (work package neg2): the engine shared by the three properties and the C10 grid.
//
// One case = one real handshake (runHS: UClient [+ ApplyPreset] + Handshake against the in-package
// server over TCP loopback, real cryptography) between
//   * a client built from one of four spec sources — a predefined ClientHelloID (`src=parrot`), the
//     Fingerprinter's copy of that id's own ClientHello applied as a custom spec (`src=fp`), a
//     randomized spec with a seed derived from the case (`src=rand`), or a custom spec derived from the
//     id's spec by `mods=` (key-share list, supported_groups, dropped suites/versions/extensions,
//     renegotiation policy, SNI handling, no EMS, TLS 1.3 only) — and
//   * a *compliant* server steered only through its Config (MaxVersion, one CurvePreferences entry,
//     one CipherSuites entry, NextProtos, certificate type) and the two server hooks that let the
//     in-package server make choices it cannot be configured for (ForceSuiteTLS13, KyberDraftTLS13).
//     No outgoing message is rewritten.
//
// The output line carries raw material only (the engine of C12 plus both ConnectionStates, the
// exporter probes and the facts the exporter policy consults); the Lean driver parses the bytes itself,
// predicts accept/abort and the negotiated parameters with `Negotiate.clientStep`, and evaluates the
// monitors of the three properties.

import (
	"bytes"
	"crypto/ecdh"
	"errors"
	"fmt"
	"strconv"
	"strings"

	tls "github.com/refraction-networking/utls"
)

// ---- deterministic Config.Rand ----

// n2Reader is a deterministic Config.Rand. crypto/ecdh and friends call randutil.MaybeReadByte, which
// reads one extra byte with probability 1/2 (scheduler-dependent); one-byte reads are served from a
// side stream so that every other read returns the same bytes for the same seed. Reads of two or
// more bytes are logged.
//
// Reader disciplines (`mode`): "" / "full" as above; "one" serves one byte per Read, "short" a random
// non-empty prefix of what was asked for, "zero" like "short" but every fourth Read returns (0, nil). Under
// these every request — the one-byte probes included — is served from the main stream, whose bytes are
// kept in `served` in the order they were handed out.
type n2Reader struct {
	main, side *Rng
	log        [][]byte
	mode       string
	chunk      *Rng
	served     []byte
}

func newN2Reader(seed uint64) *n2Reader {
	return &n2Reader{main: NewRng(seed), side: NewRng(seed ^ 0x5bd1e995), chunk: NewRng(seed ^ 0x63686b)}
}

func newN2ReaderMode(seed uint64, mode string) *n2Reader {
	r := newN2Reader(seed)
	r.mode = mode
	return r
}

func (r *n2Reader) Read(p []byte) (int, error) {
	if r.mode == "" || r.mode == "full" {
		if len(p) == 1 {
			r.side.Read(p)
			return 1, nil
		}
		r.main.Read(p)
		r.log = append(r.log, append([]byte(nil), p...))
		r.served = append(r.served, p...)
		return len(p), nil
	}
	if len(p) == 0 {
		return 0, nil
	}
	k := 1
	switch r.mode {
	case "short":
		k = 1 + r.chunk.Intn(len(p))
	case "zero":
		if r.chunk.Intn(4) == 0 {
			return 0, nil
		}
		k = 1 + r.chunk.Intn(len(p))
	}
	r.main.Read(p[:k])
	r.served = append(r.served, p[:k]...)
	return k, nil
}

// ---- spec sources ----

type n2Client struct {
	id      tls.ClientHelloID
	spec    *tls.ClientHelloSpec // applied with ApplyPreset when non-nil (id is HelloCustom then)
	rmSNI   bool                 // call RemoveSNIExtension before building
	baseID  tls.ClientHelloID
	omitPsk bool
	// captured: for src=fp the ClientHello the Fingerprinter was given (handshake message)
	captured []byte
}

func n2ParseGroups(s string) ([]tls.KeyShare, []tls.CurveID, error) {
	var ks []tls.KeyShare
	var gs []tls.CurveID
	if s == "none" || s == "" {
		return ks, gs, nil
	}
	for _, t := range strings.Split(s, "+") {
		if t == "G" {
			ks = append(ks, tls.KeyShare{Group: tls.CurveID(tls.GREASE_PLACEHOLDER), Data: []byte{0}})
			gs = append(gs, tls.CurveID(tls.GREASE_PLACEHOLDER))
			continue
		}
		g, err := strconv.Atoi(t)
		if err != nil {
			return nil, nil, fmt.Errorf("bad group %q", t)
		}
		ks = append(ks, tls.KeyShare{Group: tls.CurveID(g)})
		gs = append(gs, tls.CurveID(g))
	}
	return ks, gs, nil
}

// n2ApplyMods edits a spec in place. Items (comma-separated):
//
//	ks=<g>+<g>..|none   key_share entries (decimal groups, G = GREASE placeholder)
//	sg=<g>+<g>..        supported_groups list
//	s<hex>              drop a cipher suite      v<hex>  drop a supported_versions entry
//	g<dec>              drop a group from supported_groups and key_share
//	alpn | cc | nosni | noems | noreneg | noticket | nosigalgs   remove that extension
//	reneg=never         keep renegotiation_info on the wire but set the policy to RenegotiateNever
//	sni=<hex>           set the SNIExtension's ServerName explicitly
//	only13              supported_versions {1.3}, TLSVersMin = TLSVersMax = 1.3
//	quictp              add a quic_transport_parameters extension
func n2ApplyMods(spec *tls.ClientHelloSpec, mods string) error {
	for _, it := range splitList(mods) {
		dropExt := func(match func(tls.TLSExtension) bool) {
			var keep []tls.TLSExtension
			for _, e := range spec.Extensions {
				if !match(e) {
					keep = append(keep, e)
				}
			}
			spec.Extensions = keep
		}
		switch {
		case strings.HasPrefix(it, "ks="):
			ks, _, err := n2ParseGroups(it[3:])
			if err != nil {
				return err
			}
			found := false
			for _, e := range spec.Extensions {
				if x, ok := e.(*tls.KeyShareExtension); ok {
					x.KeyShares = ks
					found = true
				}
			}
			if !found {
				return errors.New("spec has no key_share extension")
			}
		case strings.HasPrefix(it, "sg="):
			_, gs, err := n2ParseGroups(it[3:])
			if err != nil {
				return err
			}
			found := false
			for _, e := range spec.Extensions {
				if x, ok := e.(*tls.SupportedCurvesExtension); ok {
					x.Curves = gs
					found = true
				}
			}
			if !found {
				return errors.New("spec has no supported_groups extension")
			}
		case it == "alpn":
			dropExt(func(e tls.TLSExtension) bool { _, ok := e.(*tls.ALPNExtension); return ok })
		case it == "cc":
			dropExt(func(e tls.TLSExtension) bool { _, ok := e.(*tls.UtlsCompressCertExtension); return ok })
		case it == "nosni":
			dropExt(func(e tls.TLSExtension) bool { _, ok := e.(*tls.SNIExtension); return ok })
		case it == "noems":
			dropExt(func(e tls.TLSExtension) bool { _, ok := e.(*tls.ExtendedMasterSecretExtension); return ok })
		case it == "noreneg":
			dropExt(func(e tls.TLSExtension) bool { _, ok := e.(*tls.RenegotiationInfoExtension); return ok })
		case it == "nosigalgs":
			dropExt(func(e tls.TLSExtension) bool { _, ok := e.(*tls.SignatureAlgorithmsExtension); return ok })
		case it == "noticket":
			dropExt(func(e tls.TLSExtension) bool { _, ok := e.(*tls.SessionTicketExtension); return ok })
		case it == "reneg=never":
			for _, e := range spec.Extensions {
				if x, ok := e.(*tls.RenegotiationInfoExtension); ok {
					x.Renegotiation = tls.RenegotiateNever
				}
			}
		case strings.HasPrefix(it, "sni="):
			for _, e := range spec.Extensions {
				if x, ok := e.(*tls.SNIExtension); ok {
					x.ServerName = string(unhex(it[4:]))
				}
			}
		case it == "only13":
			spec.TLSVersMin, spec.TLSVersMax = tls.VersionTLS13, tls.VersionTLS13
			for _, e := range spec.Extensions {
				if x, ok := e.(*tls.SupportedVersionsExtension); ok {
					var keep []uint16
					for _, v := range x.Versions {
						if v == tls.VersionTLS13 || negIsGrease(v) || v == tls.GREASE_PLACEHOLDER {
							keep = append(keep, v)
						}
					}
					x.Versions = keep
				}
			}
		case it == "quictp":
			spec.Extensions = append(spec.Extensions, &tls.QUICTransportParametersExtension{
				TransportParameters: tls.TransportParameters{tls.InitialMaxData(1 << 20), tls.MaxIdleTimeout(30000)}})
		case strings.HasPrefix(it, "s") && len(it) == 5:
			v := negHex16(it[1:])
			var keep []uint16
			for _, s := range spec.CipherSuites {
				if s != v {
					keep = append(keep, s)
				}
			}
			spec.CipherSuites = keep
		case strings.HasPrefix(it, "v") && len(it) == 5:
			v := negHex16(it[1:])
			for _, e := range spec.Extensions {
				if sv, ok := e.(*tls.SupportedVersionsExtension); ok {
					var keep []uint16
					for _, x := range sv.Versions {
						if x != v {
							keep = append(keep, x)
						}
					}
					sv.Versions = keep
				}
			}
		case strings.HasPrefix(it, "g"):
			g, err := strconv.Atoi(it[1:])
			if err != nil {
				return fmt.Errorf("bad mod %q", it)
			}
			for _, e := range spec.Extensions {
				switch x := e.(type) {
				case *tls.SupportedCurvesExtension:
					var keep []tls.CurveID
					for _, c := range x.Curves {
						if int(c) != g {
							keep = append(keep, c)
						}
					}
					x.Curves = keep
				case *tls.KeyShareExtension:
					var keep []tls.KeyShare
					for _, k := range x.KeyShares {
						if int(k.Group) != g {
							keep = append(keep, k)
						}
					}
					x.KeyShares = keep
				}
			}
		default:
			return fmt.Errorf("bad mod %q", it)
		}
	}
	return nil
}

func n2RandID(kind string, seed uint64) tls.ClientHelloID {
	var ps tls.PRNGSeed
	NewRng(seed ^ 0x72616e64).Read(ps[:])
	client := "Randomized"
	switch kind {
	case "alpn":
		client = "Randomized-ALPN"
	case "noalpn":
		client = "Randomized-NoALPN"
	}
	return tls.ClientHelloID{Client: client, Version: "0", Seed: &ps}
}

// n2BuildHello builds the ClientHello of (id, spec) offline (no connection) and returns the
// marshalled handshake message.
func n2BuildHello(cl *n2Client, cfg *tls.Config) ([]byte, error) {
	u := tls.UClient(nullConn{}, cfg, cl.id)
	if cl.spec != nil {
		if err := u.ApplyPreset(cl.spec); err != nil {
			return nil, err
		}
	}
	if cl.rmSNI {
		if err := u.RemoveSNIExtension(); err != nil {
			return nil, err
		}
	}
	if err := u.BuildHandshakeState(); err != nil {
		return nil, err
	}
	return append([]byte(nil), u.HandshakeState.Hello.Raw...), nil
}

// n2ClientFor resolves the spec source of a case. Every call returns fresh spec/extension objects
// (ApplyPreset fills the key shares of the spec it is given in place).
func n2ClientFor(in KV) (*n2Client, error) {
	base, ok := idByName(in["id"])
	if !ok {
		return nil, fmt.Errorf("bad id %q", in["id"])
	}
	cl := &n2Client{id: base, baseID: base, omitPsk: negIsPSKParrot(base), rmSNI: in["rmsni"] == "1"}
	seed := uint64(1)
	if in["seed"] != "" {
		seed = in.U64("seed")
	}
	switch in["src"] {
	case "", "parrot":
	case "fp":
		raw, err := n2BuildHello(&n2Client{id: base}, &tls.Config{ServerName: "example.golang", OmitEmptyPsk: cl.omitPsk, Rand: newN2Reader(seed ^ 0x6670)})
		if err != nil {
			return nil, fmt.Errorf("fp-build: %v", err)
		}
		rec := append([]byte{22, 3, 1, byte(len(raw) >> 8), byte(len(raw))}, raw...)
		spec, err := (&tls.Fingerprinter{}).FingerprintClientHello(rec)
		if err != nil {
			return nil, fmt.Errorf("fingerprint: %v", err)
		}
		cl.id, cl.spec, cl.captured = tls.HelloCustom, spec, raw
	case "rand", "randalpn", "randnoalpn":
		cl.id = n2RandID(strings.TrimPrefix(in["src"], "rand"), seed)
		cl.omitPsk = false
	case "custom":
		spec, err := tls.UTLSIdToSpec(base)
		if err != nil {
			return nil, err
		}
		if err := n2ApplyMods(&spec, in["mods"]); err != nil {
			return nil, err
		}
		cl.id, cl.spec = tls.HelloCustom, &spec
	default:
		return nil, fmt.Errorf("bad src %q", in["src"])
	}
	return cl, nil
}

// ---- ECH configuration (one static key pair per process) ----

type n2ECH struct {
	configList []byte
	keys       []tls.EncryptedClientHelloKey
}

var n2ECHOnce *n2ECH

func n2ECHKit() *n2ECH {
	if n2ECHOnce != nil {
		return n2ECHOnce
	}
	key, err := ecdh.X25519().NewPrivateKey(bytes.Repeat([]byte{0x42}, 32))
	if err != nil {
		panic(err)
	}
	pub := key.PublicKey().Bytes()
	name := []byte("public.verif.test")
	var body []byte
	body = append(body, 7)         // config id
	body = append(body, 0x00, 0x20) // DHKEM(X25519, HKDF-SHA256)
	body = append(body, byte(len(pub)>>8), byte(len(pub)))
	body = append(body, pub...)
	suites := []byte{0, 1, 0, 1, 0, 1, 0, 2, 0, 1, 0, 3} // HKDF-SHA256 x AES-128-GCM, AES-256-GCM, ChaCha20Poly1305
	body = append(body, byte(len(suites)>>8), byte(len(suites)))
	body = append(body, suites...)
	body = append(body, 32) // maximum_name_length
	body = append(body, byte(len(name)))
	body = append(body, name...)
	body = append(body, 0, 0) // extensions
	cfg := append([]byte{0xfe, 0x0d, byte(len(body) >> 8), byte(len(body))}, body...)
	list := append([]byte{byte(len(cfg) >> 8), byte(len(cfg))}, cfg...)
	n2ECHOnce = &n2ECH{configList: list, keys: []tls.EncryptedClientHelloKey{{Config: cfg, PrivateKey: key.Bytes(), SendAsRetry: true}}}
	return n2ECHOnce
}

// ---- exporter probes ----

type n2Probe struct {
	label string
	ctx   []byte // nil = no context
	n     int
}

// probes: `<label hex>:<context hex | nil | ->:<length>` joined by `;` (`-` = empty, non-nil context).
func n2ParseProbes(s string) []n2Probe {
	var out []n2Probe
	if s == "" || s == "-" {
		return out
	}
	for _, t := range strings.Split(s, ";") {
		p := strings.Split(t, ":")
		if len(p) != 3 {
			panic("bad ekm probe " + t)
		}
		pr := n2Probe{label: string(unhex(p[0]))}
		switch p[1] {
		case "nil":
		case "-":
			pr.ctx = []byte{}
		default:
			if strings.HasPrefix(p[1], "z") { // z<n>: n zero bytes (long contexts)
				k, _ := strconv.Atoi(p[1][1:])
				pr.ctx = make([]byte, k)
			} else {
				pr.ctx = unhex(p[1])
			}
		}
		pr.n, _ = strconv.Atoi(p[2])
		out = append(out, pr)
	}
	return out
}

func n2EKMClass(err error) string {
	s := err.Error()
	switch {
	case strings.Contains(s, "renegotiation is enabled"):
		return "Ereneg"
	case strings.Contains(s, "neither TLS 1.3 nor Extended Master Secret"):
		return "Enoems"
	case strings.Contains(s, "reserved ExportKeyingMaterial label"):
		return "Ereserved"
	case strings.Contains(s, "context too long"):
		return "Ectxlong"
	}
	return "Eother:" + sanitize(s)
}

func n2RunProbes(cs tls.ConnectionState, conn *tls.Conn, probes []n2Probe) (pub, raw []string) {
	for _, p := range probes {
		out, err := cs.ExportKeyingMaterial(p.label, p.ctx, p.n)
		if err != nil {
			pub = append(pub, n2EKMClass(err))
		} else {
			pub = append(pub, "B"+hx(out))
		}
		rout, ok, rerr := tls.VerifRawEKM(conn, p.label, p.ctx, p.n)
		switch {
		case !ok:
			raw = append(raw, "Enone")
		case rerr != nil:
			raw = append(raw, n2EKMClass(rerr))
		default:
			raw = append(raw, "B"+hx(rout))
		}
	}
	return
}

// n2PostBuild edits an already built UConn before Handshake:
//
//	rmext             delete the SNIExtension from uconn.Extensions
//	extname:<hex>     set the SNIExtension's ServerName
//	setsni:<hex>      UConn.SetSNI
//	dropshare:<g>     remove the key share of group g from the KeyShareExtension (supported_groups untouched)
//	reapply-nosni     apply a fresh copy of the id's spec without SNIExtension (ApplyPreset on a built UConn)
//	reapply           apply a fresh copy of the id's spec
func n2PostBuild(u *tls.UConn, cl *n2Client, post string) error {
	switch {
	case post == "rmext":
		var keep []tls.TLSExtension
		for _, e := range u.Extensions {
			if _, ok := e.(*tls.SNIExtension); !ok {
				keep = append(keep, e)
			}
		}
		u.Extensions = keep
	case strings.HasPrefix(post, "extname:"):
		for _, e := range u.Extensions {
			if x, ok := e.(*tls.SNIExtension); ok {
				x.ServerName = string(unhex(post[8:]))
			}
		}
	case strings.HasPrefix(post, "setsni:"):
		u.SetSNI(string(unhex(post[7:])))
	case strings.HasPrefix(post, "dropshare:"):
		// the documented customisation flow: build, then take a key share out of the KeyShareExtension
		g, err := strconv.Atoi(post[10:])
		if err != nil {
			return err
		}
		for _, e := range u.Extensions {
			if x, ok := e.(*tls.KeyShareExtension); ok {
				var keep []tls.KeyShare
				for _, k := range x.KeyShares {
					if int(k.Group) != g {
						keep = append(keep, k)
					}
				}
				x.KeyShares = keep
			}
		}
	case post == "reapply-nosni" || post == "reapply":
		spec, err := tls.UTLSIdToSpec(cl.baseID)
		if err != nil {
			return err
		}
		if post == "reapply-nosni" {
			if err := n2ApplyMods(&spec, "nosni"); err != nil {
				return err
			}
		}
		return u.ApplyPreset(&spec)
	default:
		return fmt.Errorf("harness: bad post %q", post)
	}
	return nil
}

func n2State(cs tls.ConnectionState) string {
	b2i := func(b bool) int {
		if b {
			return 1
		}
		return 0
	}
	return fmt.Sprintf("%04x,%04x,%d,%s,%d,%d,%d,%s", cs.Version, cs.CipherSuite, tls.VerifStateCurveID(cs),
		hx([]byte(cs.NegotiatedProtocol)), b2i(cs.DidResume), b2i(tls.VerifStateDidHRR(cs)), b2i(cs.ECHAccepted), hx([]byte(cs.ServerName)))
}

// ---- the engine ----

func n2Exec(in KV) string {
	cl, err := n2ClientFor(in)
	if err != nil {
		return "out=bad-spec msg=" + sanitize(err.Error())
	}
	seed := uint64(1)
	if in["seed"] != "" {
		seed = in.U64("seed")
	}
	n := &negRun{hrrRnd: tls.VerifHelloRetryRequestRandom()} // records the server messages as sent; rewrites nothing
	scfg := &tls.Config{MinVersion: negHex16(in["smin"]), MaxVersion: negHex16(in["smax"])}
	for _, c := range parseU64s(in["curves"]) {
		scfg.CurvePreferences = append(scfg.CurvePreferences, tls.CurveID(c))
	}
	for _, p := range splitList(in["salpn"]) {
		scfg.NextProtos = append(scfg.NextProtos, string(unhex(p)))
	}
	for _, s := range splitList(in["suites"]) {
		scfg.CipherSuites = append(scfg.CipherSuites, negHex16(s))
	}
	switch in["cert"] {
	case "":
	case "rsa", "ecdsa", "ed25519":
		scfg.Certificates = []tls.Certificate{kit().leaf[in["cert"]]}
	default:
		return "out=bad-cert"
	}
	switch in["cauth"] {
	case "", "none":
	case "request":
		scfg.ClientAuth = tls.RequestClientCert
	case "require", "requestcert":
		scfg.ClientAuth = tls.RequireAnyClientCert
		if in["cauth"] == "requestcert" {
			scfg.ClientAuth = tls.RequestClientCert
		}
	default:
		return "out=bad-cauth"
	}
	hooks := &tls.VerifServerHooks{
		RewriteHandshake: n.rewrite,
		ForceSuiteTLS13:  negHex16(in["fs13"]),
		KyberDraftTLS13:  in["kyber"] == "1",
	}
	sname := "example.golang"
	if in["sname"] != "" {
		sname = string(unhex(in["sname"]))
	}
	ccfg := &tls.Config{OmitEmptyPsk: cl.omitPsk, ServerName: sname, Rand: newN2Reader(seed)}
	if in["cauth"] == "require" || in["cauth"] == "requestcert" {
		ccfg.Certificates = []tls.Certificate{kit().leaf["ecdsa"]} // any certificate will do: the server does not verify it
	}
	if in["ech"] == "1" {
		ccfg.EncryptedClientHelloConfigList = n2ECHKit().configList
		ccfg.MinVersion = tls.VersionTLS13
		scfg.EncryptedClientHelloKeys = n2ECHKit().keys
	}
	probes := n2ParseProbes(in["ekm"])

	pskSuite, sess12 := "-", "-"
	if in["resume"] == "1" {
		scfg.SetSessionTicketKeys([][32]byte{{1, 2, 3, 4, 5, 6, 7, 8}})
		ccfg.ClientSessionCache = tls.NewLRUClientSessionCache(4)
		pcl, perr := n2ClientFor(in)
		if perr != nil {
			return "out=bad-spec msg=" + sanitize(perr.Error())
		}
		pcfg := ccfg.Clone()
		pcfg.Rand = newN2Reader(seed ^ 0x7072696d65)
		var pems bool
		prime := runHS(HSOpts{ID: pcl.id, Spec: pcl.spec, ClientCfg: pcfg, ServerCfg: scfg, Hooks: &tls.VerifServerHooks{ForceSuiteTLS13: hooks.ForceSuiteTLS13, KyberDraftTLS13: hooks.KyberDraftTLS13},
			AppData: []byte("prime"),
			Prepare: func(u *tls.UConn) error {
				if pcl.rmSNI {
					return u.RemoveSNIExtension()
				}
				return nil
			},
			AfterHandshake: func(u *tls.UConn) error { _, pems = tls.VerifConnFacts(u.Conn); return nil }})
		if prime.PrepareErr != nil || prime.ClientErr != nil || !prime.EchoOK {
			e := prime.ClientErr
			if prime.PrepareErr != nil {
				e = prime.PrepareErr
			}
			return "out=skip reason=prime-failed:" + errClass(e)
		}
		if prime.ClientState.Version == tls.VersionTLS13 {
			pskSuite = fmt.Sprintf("%04x", prime.ClientState.CipherSuite)
		} else {
			e := 0
			if pems {
				e = 1
			}
			sess12 = fmt.Sprintf("%04x,%04x,%d", prime.ClientState.Version, prime.ClientState.CipherSuite, e)
		}
	}

	var cfgMin, cfgMax uint16
	var ech bool
	var ecdheG, hybrid int
	kx := "0,0,-,-"
	var raw []byte
	pre, post := in["pre"], in["post"]
	snapped := false
	snap := func(u *tls.UConn) {
		cfgMin, cfgMax, ech = tls.VerifConfigVersions(u)
		ecdheG, hybrid, kx = 0, 0, "0,0,-,-"
		if ks := u.HandshakeState.State13.KeyShareKeys; ks != nil {
			ecdheG = negCurveIDOf(ks.Ecdhe)
			if ks.Mlkem != nil && ks.MlkemEcdhe != nil {
				hybrid = 1
			}
			kx = negKeySet(ks)
		}
	}
	var creneg, cems, sems int
	var cpub, craw, spub, sraw []string
	res := runHS(HSOpts{ID: cl.id, Spec: cl.spec, ClientCfg: ccfg, ServerCfg: scfg, Hooks: hooks, AppData: []byte("ping"),
		Prepare: func(u *tls.UConn) error {
			if cl.rmSNI {
				if err := u.RemoveSNIExtension(); err != nil {
					return err
				}
			}
			// what the caller does before Handshake (which itself calls BuildHandshakeState)
			switch pre {
			case "direct":
			case "nosess":
				if err := u.BuildHandshakeStateWithoutSession(); err != nil {
					return err
				}
			case "build2":
				if err := u.BuildHandshakeState(); err != nil {
					return err
				}
				if err := u.BuildHandshakeState(); err != nil {
					return err
				}
			case "apply2": // the same custom spec object applied a second time
				if cl.spec == nil {
					return fmt.Errorf("harness: pre=apply2 needs a custom spec")
				}
				if err := u.ApplyPreset(cl.spec); err != nil {
					return err
				}
			case "applymods2": // another spec (the id's spec edited by mods2=) applied over the first application
				spec2, err := tls.UTLSIdToSpec(cl.baseID)
				if err != nil {
					return err
				}
				if err := n2ApplyMods(&spec2, in["mods2"]); err != nil {
					return err
				}
				if err := u.ApplyPreset(&spec2); err != nil {
					return err
				}
			case "applyfresh": // a fresh copy of the same spec applied over the first application (a caller changing its mind)
				if cl.spec == nil {
					return fmt.Errorf("harness: pre=applyfresh needs a custom spec")
				}
				cl2, err := n2ClientFor(in)
				if err != nil {
					return err
				}
				if err := u.ApplyPreset(cl2.spec); err != nil {
					return err
				}
			case "", "build":
				if err := u.BuildHandshakeState(); err != nil {
					return err
				}
			default:
				return fmt.Errorf("harness: bad pre %q", pre)
			}
			if post != "" {
				if pre == "direct" || pre == "apply2" || pre == "applyfresh" || pre == "applymods2" {
					if err := u.BuildHandshakeState(); err != nil {
						return err
					}
				}
				if err := n2PostBuild(u, cl, post); err != nil {
					return err
				}
			}
			if (pre == "" || pre == "build" || pre == "build2") && post == "" {
				// the hello is final: snapshot what the checks consult
				snap(u)
				snapped = true
				raw = append([]byte(nil), u.HandshakeState.Hello.Raw...)
			}
			return nil
		},
		AfterHandshake: func(u *tls.UConn) error {
			r, e := tls.VerifConnFacts(u.Conn)
			creneg = int(r)
			if e {
				cems = 1
			}
			cpub, craw = n2RunProbes(u.ConnectionState(), u.Conn, probes)
			return nil
		},
		ServerAfter: func(s *tls.Conn) error {
			if _, e := tls.VerifConnFacts(s); e {
				sems = 1
			}
			spub, sraw = n2RunProbes(s.ConnectionState(), s, probes)
			return nil
		}})
	if res.PrepareErr != nil {
		return "out=prepare-error msg=" + sanitize(res.PrepareErr.Error())
	}
	hellos := clientHellos(res.ClientWire)
	if snapped && in["ech"] != "1" && (len(hellos) == 0 || !bytes.Equal(hellos[0], raw)) {
		return "out=hello-changed"
	}
	if !snapped {
		// the hello was (re)built inside Handshake: the Config range is unchanged by the handshake, and the key
		// set is the one the handshake started from unless a HelloRetryRequest replaced it (the model does not
		// consult the original key set after a retry that selects a group)
		if len(hellos) == 0 {
			return "out=no-hello-sent cerr=" + errClass(res.ClientErr)
		}
		snap(res.UConn)
	}
	wire := raw
	if len(hellos) > 0 {
		wire = hellos[0]
	}
	ch2 := "-"
	if len(hellos) > 1 {
		ch2 = hx(hellos[1])
	}
	cstate, sstate := "-", "-"
	if res.ClientErr == nil {
		cstate = n2State(res.ClientState)
	}
	if res.ServerErr == nil && res.ServerState.HandshakeComplete {
		sstate = n2State(res.ServerState)
	}
	app := 0
	if res.EchoOK {
		app = 1
	}
	ee := n.sentEE
	if ee == "" {
		ee = "-"
	}
	cert := n.cert
	if cert == "" {
		cert = "-"
	}
	e := 0
	if ech {
		e = 1
	}
	to := 0
	if res.TimedOut {
		to = 1
	}
	calert := "-"
	for _, r := range splitRecords(res.ClientWire) {
		if r.Type == 21 && len(r.Payload) == 2 {
			calert = strconv.Itoa(int(r.Payload[1]))
			break
		}
	}
	recv := 0
	if rs := splitRecords(res.ServerWire); len(rs) > 0 {
		recv = int(rs[0].Version)
	}
	ekm := "-"
	if len(probes) > 0 && len(cpub) == len(probes) && len(spub) == len(probes) {
		var parts []string
		for i := range probes {
			parts = append(parts, cpub[i]+"|"+spub[i]+"|"+craw[i]+"|"+sraw[i])
		}
		ekm = strings.Join(parts, ";")
	}
	return fmt.Sprintf("ch=%s ch2=%s cfg=%04x,%04x,%d keys=%d,%d kx=%s psks=%s sess12=%s sh=%s recv=%04x ee=%s cert=%s skx=%d cerr=%s calert=%s salert=%s cstate=%s sstate=%s app=%d timeout=%d facts=%d,%d,%d ekmr=%s",
		hx(wire), ch2, cfgMin, cfgMax, e, ecdheG, hybrid, kx, pskSuite, sess12, joinList(n.sentSH), recv, ee, cert, n.skx,
		errClass(res.ClientErr), calert, errClass(res.ServerErr), cstate, sstate, app, to, creneg, cems, sems, ekm)
}

// ---- generator helpers ----

// n2Inspect builds the hello a case would send (same seed, same source) and returns its parsed view.
func n2Inspect(toks string) (*negCH, error) {
	in := parseKV(strings.Fields(toks))
	cl, err := n2ClientFor(in)
	if err != nil {
		return nil, err
	}
	seed := uint64(1)
	if in["seed"] != "" {
		seed = in.U64("seed")
	}
	raw, err := n2BuildHello(cl, &tls.Config{ServerName: "example.golang", OmitEmptyPsk: cl.omitPsk, Rand: newN2Reader(seed)})
	if err != nil {
		return nil, err
	}
	ci, ok := negParseCH(raw)
	if !ok {
		return nil, errors.New("unparsable hello")
	}
	return ci, nil
}

func n2Real(xs []uint16) []uint16 {
	var out []uint16
	for _, x := range xs {
		if !negIsGrease(x) {
			out = append(out, x)
		}
	}
	return out
}

// n2ServerConfigs enumerates the compliant server configurations for a hello: tag + tokens.
// full = every group / suite / protocol / certificate; otherwise a rotating sample of `k` of them.
func n2ServerConfigs(ch *negCH, full bool, r *Rng, k int) [][2]string {
	var out [][2]string
	add := func(tag, toks string) { out = append(out, [2]string{tag, toks}) }
	add("max13", "smax=0304")
	add("max12", "smax=0303")
	add("max11", "smax=0302")
	add("max10", "smax=0301")
	has13 := negHas16(ch.vers, 0x0304)
	for _, g := range n2Real(ch.groups) {
		if g >= 256 && g < 512 { // ffdhe: not implemented by uTLS
			continue
		}
		if has13 {
			kind := "share"
			if !negHas16(ch.shares, g) {
				kind = "hrr"
			}
			if g == 0x6399 {
				// the KyberDraftTLS13 hook answers the Kyber share of the first hello after the server made its
				// own choice: let that choice be a classical share the hello carries (no HelloRetryRequest)
				if negHas16(ch.shares, g) {
					for _, c := range []uint16{29, 23, 24, 25} {
						if negHas16(ch.shares, c) {
							add("g13-kyber", fmt.Sprintf("smax=0304 kyber=1 curves=%d", c))
							break
						}
					}
				}
				continue
			}
			add("g13-"+kind, fmt.Sprintf("smax=0304 curves=%d", g))
		}
		if g == 23 || g == 24 || g == 25 || g == 29 {
			add("g12", fmt.Sprintf("smax=0303 curves=%d", g))
		}
	}
	for _, s := range n2Real(ch.suites) {
		if s>>8 == 0x13 {
			if has13 {
				add("s13", fmt.Sprintf("smax=0304 fs13=%04x", s))
			}
			continue
		}
		if known, _ := tls.VerifSuite12(s); known {
			add("s12", fmt.Sprintf("smax=0303 suites=%04x", s))
		}
	}
	for i, p := range ch.alpn {
		if i >= 3 {
			break
		}
		add("alpn13", "smax=0304 salpn="+hx(p))
		add("alpn12", "smax=0303 salpn="+hx(p))
	}
	if len(ch.alpn) >= 2 {
		add("alpn13-both", "smax=0304 salpn="+hx(ch.alpn[1])+","+hx(ch.alpn[0]))
	}
	for _, c := range []string{"rsa", "ecdsa", "ed25519"} {
		add("cert13-"+c, "smax=0304 cert="+c)
		add("cert12-"+c, "smax=0303 cert="+c)
	}
	for _, a := range []string{"request", "require"} {
		add("cauth13-"+a, "smax=0304 cauth="+a)
		add("cauth12-"+a, "smax=0303 cauth="+a)
	}
	if full || k >= len(out) {
		return out
	}
	// sample: keep the four version caps, then k others chosen by r
	keep := out[:4:4]
	rest := out[4:]
	for i := 0; i < k && len(rest) > 0; i++ {
		j := r.Intn(len(rest))
		keep = append(keep, rest[j])
		rest = append(rest[:j:j], rest[j+1:]...)
	}
	return keep
}

// c10 custom specs: key-share lists (every share must be selectable), dropped items with the server
// picking among what is left, TLS 1.3 only.
var c10Customs = []struct{ id, mods string }{
	{"Chrome-133", "ks=29+23,sg=29+23+24"},
	{"Chrome-133", "ks=23+29,sg=29+23+24"},
	{"Chrome-133", "ks=25+24+23+29,sg=29+23+24+25"},
	{"Chrome-133", "ks=4588,sg=4588+29+23"},
	{"Chrome-133", "ks=4588+23,sg=4588+29+23"},
	{"Chrome-133", "ks=23+4588,sg=4588+29+23"},
	{"Chrome-133", "ks=G+4588+29+23+24,sg=4588+29+23+24+25"},
	{"Chrome-133", "ks=24,sg=24+23"},
	{"Firefox-120", "ks=23+29"},
	{"Firefox-120", "ks=29+23+24"},
	{"Firefox-120", "g29"},
	{"Chrome-133", "s1301,s1303"},
	{"Chrome-133", "sc02b,sc02f,alpn"},
	{"Chrome-133", "only13"},
	{"Chrome-133", "cc,noticket"},
	{"Firefox-105", "ks=23"},
	{"iOS-14", "ks=23+29+24+25"},
	{"Chrome-115_PQ", "ks=G+25497+29+23"},
	{"Edge-106", "reneg=never,ks=29+24"},
	{"Safari-16.0", "nosni,ks=29+23"},
	// no signature_algorithms extension: a TLS 1.2 server signs with the SHA-1 defaults of RFC 5246 7.4.1.4.1
	{"Chrome-133", "nosigalgs"},
	{"Firefox-120", "nosigalgs"},
	{"Chrome-58", "nosigalgs,noems"},
	{"iOS-12.1", "nosigalgs"},
	// a TLS 1.3 hello without usable key share asks for a HelloRetryRequest (repaired: used to abort)
	{"Chrome-133", "ks=none,sg=29+23"},
	{"Chrome-133", "ks=G,sg=23+24"},
}

var c10RetrySeqs = []struct{ tag, toks string }{
	{"respec-hrr", "id=Chrome-133 src=custom mods=ks=29+23,sg=29+23+24 pre=applymods2 mods2=ks=29,sg=29+23+24 smax=0304 curves=23"},
	{"respec-hrr", "id=Chrome-133 src=custom mods=ks=29+24+25,sg=29+23+24+25 pre=applymods2 mods2=ks=29,sg=29+23+24+25 smax=0304 curves=24"},
	{"respec-hrr", "id=Chrome-133 src=custom mods=ks=4588+29+25,sg=4588+29+25 pre=applymods2 mods2=ks=4588,sg=4588+29+25 smax=0304 curves=29"},
	{"respec-hrr", "id=Firefox-120 src=custom mods=g25 pre=applymods2 mods2=ks=29 smax=0304 curves=23"},
	{"respec-share", "id=Firefox-120 src=custom mods=ks=29 pre=applymods2 mods2=ks=29+23 smax=0304 curves=23"},
	{"respec-share", "id=Chrome-133 src=custom mods=ks=23,sg=4588+29+23 pre=applymods2 mods2=ks=4588+23,sg=4588+29+23 smax=0304 curves=4588"},
	{"dropshare-share", "id=Firefox-120 src=parrot smax=0304 curves=29 post=dropshare:23"},
	{"dropshare-hrr", "id=Chrome-133 src=custom mods=ks=29+23+24,sg=29+23+24 smax=0304 curves=24 post=dropshare:24"},
}

// open findings of C10 (completeness holes outside the predefined parrots), reproduced on every run
var c10Findings = []struct{ tag, toks string }{
	// PSK parrot resuming a session + HelloRetryRequest: uTLS refuses to re-process the PSK (D11)
	{"psk-hrr", "id=Chrome-112_PSK src=parrot resume=1 smax=0304 curves=24"},
	{"psk-hrr", "id=Chrome-100_PSK src=parrot resume=1 smax=0304 curves=24"},
	// a hybrid group listed without a key share: the server's HelloRetryRequest selects it, the client cannot generate it
	{"hrr-hybrid", "id=Chrome-133 src=custom mods=ks=29,sg=4588+29+23 smax=0304 curves=4588"},
}

type n2Case struct{ tag, toks string }

// c10PreConfigs: the server choices the pre-handshake dimension is crossed with: both version caps, every key
// share position (classical, hybrid, Kyber draft) and one HelloRetryRequest.
func c10PreConfigs(ch *negCH) [][2]string {
	var out [][2]string
	hrr := false
	for _, c := range n2ServerConfigs(ch, true, nil, 0) {
		switch c[0] {
		case "max13", "max12", "g13-share", "g13-kyber":
			out = append(out, c)
		case "g13-hrr":
			if !hrr && !strings.Contains(c[1], "curves=4588") && !strings.Contains(c[1], "curves=25497") {
				out = append(out, c)
				hrr = true
			}
		}
	}
	return out
}

// c10Plan is the deterministic part of the grid (everything but seeds): built once per run.
func c10Plan(r *Rng, tier string) []n2Case {
	var plan []n2Case
	full := tier == "thorough"
	for _, id := range parrotIDs {
		name := idName(id)
		ch, err := n2Inspect("id=" + name + " src=parrot seed=1")
		if err != nil {
			plan = append(plan, n2Case{"inspect-failed", "id=" + name + " src=parrot"})
			continue
		}
		for _, c := range n2ServerConfigs(ch, true, r, 0) {
			plan = append(plan, n2Case{"parrot," + c[0], "id=" + name + " src=parrot " + c[1]})
		}
		k := 8
		for _, c := range n2ServerConfigs(ch, full, r, k) {
			plan = append(plan, n2Case{"fp," + c[0], "id=" + name + " src=fp " + c[1]})
		}
		// what the caller does before Handshake: nothing / BuildHandshakeStateWithoutSession / BuildHandshakeState twice
		// (the default everywhere else: BuildHandshakeState once) x every offered share position, one retry, both versions
		for _, pre := range []string{"direct", "nosess", "build2"} {
			for _, c := range c10PreConfigs(ch) {
				plan = append(plan, n2Case{"parrot-" + pre + "," + c[0], "id=" + name + " src=parrot " + c[1] + " pre=" + pre})
			}
		}
		// custom spec objects (the fingerprinted copy): applied once more, replaced by a fresh copy, or just handshaken
		for _, pre := range []string{"direct", "apply2", "applyfresh"} {
			for i, c := range c10PreConfigs(ch) {
				if i%2 == 0 || full {
					plan = append(plan, n2Case{"fp-" + pre + "," + c[0], "id=" + name + " src=fp " + c[1] + " pre=" + pre})
				}
			}
		}
	}
	for _, cu := range c10Customs {
		toks := "id=" + cu.id + " src=custom mods=" + cu.mods
		ch, err := n2Inspect(toks + " seed=1")
		if err != nil {
			plan = append(plan, n2Case{"inspect-failed", toks})
			continue
		}
		for _, c := range n2ServerConfigs(ch, true, r, 0) {
			if !strings.Contains(cu.mods, "nosigalgs") && (strings.HasPrefix(c[0], "cert") || strings.HasPrefix(c[0], "alpn") || strings.HasPrefix(c[0], "s12")) {
				continue
			}
			plan = append(plan, n2Case{"custom," + c[0], toks + " " + c[1]})
		}
		if strings.Contains(cu.mods, "ks=") {
			for _, pre := range []string{"direct", "apply2", "applyfresh", "nosess"} {
				for _, c := range c10PreConfigs(ch) {
					if strings.HasPrefix(c[0], "g13-") {
						plan = append(plan, n2Case{"custom-" + pre + "," + c[0], toks + " " + c[1] + " pre=" + pre})
					}
				}
			}
		}
	}
	// a HelloRetryRequest for a group whose key share was generated earlier and then taken back: by a second
	// spec without that share, or by removing the share from the built KeyShareExtension. The retry must use
	// the key it generates itself, whatever the key set still holds.
	for _, sq := range c10RetrySeqs {
		plan = append(plan, n2Case{"seq," + sq.tag, sq.toks})
	}
	for _, id := range parrotIDs {
		name := idName(id)
		ch, err := n2Inspect("id=" + name + " src=parrot seed=1")
		if err != nil || !negHas16(ch.vers, 0x0304) {
			continue
		}
		for _, g := range n2Real(ch.shares) {
			if g == 23 || g == 24 || g == 25 || g == 29 {
				plan = append(plan, n2Case{"seq,dropshare-hrr", fmt.Sprintf("id=%s src=parrot smax=0304 curves=%d post=dropshare:%d", name, g, g)})
			}
		}
	}
	for _, f := range c10Findings {
		plan = append(plan, n2Case{"finding," + f.tag, f.toks})
	}
	return plan
}

var c10PlanCache = map[string][]n2Case{}

func c10Gen(r *Rng, i int, tier string) string {
	plan, ok := c10PlanCache[tier]
	if !ok {
		plan = c10Plan(NewRng(12345), tier)
		c10PlanCache[tier] = plan
	}
	if i < len(plan) {
		return fmt.Sprintf("%s seed=%d mode=%s", plan[i].toks, r.U64()>>1, plan[i].tag)
	}
	// randomized specs: fresh PRNG seed per case, server configuration sampled from what that hello offers
	nr := 500
	if tier == "thorough" {
		nr = 6000
	}
	j := i - len(plan)
	if j >= nr {
		return ""
	}
	src := []string{"rand", "randalpn", "randnoalpn"}[j%3]
	seed := r.U64() >> 1
	toks := fmt.Sprintf("id=Golang-0 src=%s seed=%d", src, seed)
	ch, err := n2Inspect(toks)
	if err != nil {
		return toks + " mode=rand,inspect-failed"
	}
	cfgs := n2ServerConfigs(ch, true, r, 0)
	c := cfgs[r.Intn(len(cfgs))]
	return fmt.Sprintf("%s %s mode=rand,%s", toks, c[1], c[0])
}

func init() {
	register(&Family{Name: "c10_hs", Gen: c10Gen, Exec: n2Exec})
}
