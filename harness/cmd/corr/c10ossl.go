package main

// C10, thorough tier: OpenSSL `s_server` (when the binary is on PATH) as an independent peer.
//
// Family c10_ossl: every predefined ClientHelloID (and its fingerprinted copy) against `openssl s_server
// -rev` configured with one choice at a time — protocol version 1.3 / 1.2, each classical group the hello
// lists as the only entry of -groups (key share present, or HelloRetryRequest), each offered TLS 1.3 suite
// as the only -ciphersuites entry, a few TLS 1.2 cipher strings, the first offered ALPN protocol — over
// TCP loopback. The handshake must complete and "ping\n" must come back reversed, unless the *server*
// refused the offer (the client then sees an alert or a closed connection). Only the client side is
// observable; the Lean driver checks the monitor and that the reported suite / curve / protocol were
// offered by the recorded hello. The quick tier generates no case.

import (
	"bytes"
	"crypto/ecdsa"
	"crypto/rsa"
	"crypto/x509"
	"encoding/pem"
	"fmt"
	"io"
	"net"
	"os"
	"os/exec"
	"path/filepath"
	"strings"
	"sync"
	"time"

	tls "github.com/refraction-networking/utls"
)

var (
	osslOnce sync.Once
	osslDir  string
	osslBin  string
)

func osslSetup() {
	osslOnce.Do(func() {
		bin, err := exec.LookPath("openssl")
		if err != nil {
			return
		}
		// one directory per process; directories left behind by earlier runs are removed
		if old, _ := filepath.Glob(filepath.Join(os.TempDir(), "verif-ossl-*")); old != nil {
			for _, d := range old {
				if st, err := os.Stat(d); err == nil && time.Since(st.ModTime()) > 30*time.Minute {
					os.RemoveAll(d)
				}
			}
		}
		dir := filepath.Join(os.TempDir(), fmt.Sprintf("verif-ossl-%d", os.Getpid()))
		if err := os.MkdirAll(dir, 0o700); err != nil {
			return
		}
		write := func(name string, blocks ...*pem.Block) {
			var b bytes.Buffer
			for _, bl := range blocks {
				pem.Encode(&b, bl)
			}
			os.WriteFile(filepath.Join(dir, name), b.Bytes(), 0o600)
		}
		for _, kind := range []string{"ecdsa", "rsa"} {
			leaf := kit().leaf[kind]
			write(kind+".crt", &pem.Block{Type: "CERTIFICATE", Bytes: leaf.Certificate[0]})
			var der []byte
			switch k := leaf.PrivateKey.(type) {
			case *ecdsa.PrivateKey:
				der, _ = x509.MarshalPKCS8PrivateKey(k)
			case *rsa.PrivateKey:
				der, _ = x509.MarshalPKCS8PrivateKey(k)
			}
			write(kind+".key", &pem.Block{Type: "PRIVATE KEY", Bytes: der})
		}
		osslDir, osslBin = dir, bin
	})
}

func osslFreePort() int {
	l, err := net.Listen("tcp", "127.0.0.1:0")
	if err != nil {
		return 0
	}
	defer l.Close()
	return l.Addr().(*net.TCPAddr).Port
}

func osslGroupName(g uint64) string {
	switch g {
	case 29:
		return "X25519"
	case 23:
		return "P-256"
	case 24:
		return "P-384"
	case 25:
		return "P-521"
	}
	return ""
}

func osslSuiteName(s uint16) string {
	switch s {
	case 0x1301:
		return "TLS_AES_128_GCM_SHA256"
	case 0x1302:
		return "TLS_AES_256_GCM_SHA384"
	case 0x1303:
		return "TLS_CHACHA20_POLY1305_SHA256"
	}
	return ""
}

func osslExec(in KV) string {
	osslSetup()
	if osslBin == "" {
		return "out=skip reason=no-openssl"
	}
	cl, err := n2ClientFor(in)
	if err != nil {
		return "out=bad-spec msg=" + sanitize(err.Error())
	}
	seed := uint64(1)
	if in["seed"] != "" {
		seed = in.U64("seed")
	}
	port := osslFreePort()
	args := []string{"s_server", "-accept", fmt.Sprintf("127.0.0.1:%d", port), "-rev", "-naccept", "1",
		"-cert", filepath.Join(osslDir, "ecdsa.crt"), "-key", filepath.Join(osslDir, "ecdsa.key"),
		"-dcert", filepath.Join(osslDir, "rsa.crt"), "-dkey", filepath.Join(osslDir, "rsa.key")}
	switch in["smax"] {
	case "0304":
		args = append(args, "-tls1_3")
	case "0303":
		args = append(args, "-tls1_2")
	}
	if gs := parseU64s(in["curves"]); len(gs) > 0 {
		args = append(args, "-groups", osslGroupName(gs[0]))
	}
	if in["fs13"] != "" {
		args = append(args, "-ciphersuites", osslSuiteName(negHex16(in["fs13"])))
	}
	if in["cipher"] != "" {
		args = append(args, "-cipher", in["cipher"])
	}
	if ps := splitList(in["salpn"]); len(ps) > 0 {
		args = append(args, "-alpn", string(unhex(ps[0])))
	}
	cmd := exec.Command(osslBin, args...)
	var stderr bytes.Buffer
	cmd.Stderr = &stderr
	cmd.Stdout = io.Discard
	if err := cmd.Start(); err != nil {
		return "out=skip reason=openssl-start-failed"
	}
	defer func() {
		cmd.Process.Kill()
		cmd.Wait()
	}()
	var conn net.Conn
	for i := 0; i < 100; i++ {
		conn, err = net.DialTimeout("tcp", fmt.Sprintf("127.0.0.1:%d", port), time.Second)
		if err == nil {
			break
		}
		time.Sleep(20 * time.Millisecond)
	}
	if conn == nil {
		return "out=skip reason=openssl-not-listening"
	}
	defer conn.Close()
	conn.SetDeadline(time.Now().Add(8 * time.Second))
	rec := &recConn{Conn: conn}
	ccfg := &tls.Config{OmitEmptyPsk: cl.omitPsk, ServerName: "example.golang", RootCAs: kit().pool, Rand: newN2Reader(seed)}
	u := tls.UClient(rec, ccfg, cl.id)
	var raw []byte
	cerr := func() (err error) {
		defer func() {
			if p := recover(); p != nil {
				err = fmt.Errorf("client-panic: %v", p)
			}
		}()
		if cl.spec != nil {
			if err := u.ApplyPreset(cl.spec); err != nil {
				return fmt.Errorf("prepare: %v", err)
			}
		}
		if err := u.BuildHandshakeState(); err != nil {
			return fmt.Errorf("prepare: %v", err)
		}
		raw = append([]byte(nil), u.HandshakeState.Hello.Raw...)
		return u.Handshake()
	}()
	state, app := "-", 0
	if cerr == nil {
		state = n2State(u.ConnectionState())
		if _, err := u.Write([]byte("ping\n")); err == nil {
			buf := make([]byte, 5)
			if _, err := io.ReadFull(u, buf); err == nil && string(buf) == "gnip\n" {
				app = 1
			}
		}
	}
	hrr := 0
	if len(clientHellos(rec.Written())) > 1 {
		hrr = 1
	}
	serr := "-"
	if i := strings.Index(stderr.String(), "error:"); i >= 0 {
		line := stderr.String()[i:]
		if j := strings.IndexByte(line, '\n'); j >= 0 {
			line = line[:j]
		}
		serr = sanitize(line)
	}
	return fmt.Sprintf("ch=%s cerr=%s cstate=%s app=%d hrr=%d serr=%s", hx(raw), errClass(cerr), state, app, hrr, serr)
}

var osslPlanCache []n2Case

func osslPlan() []n2Case {
	var plan []n2Case
	for _, id := range parrotIDs {
		name := idName(id)
		ch, err := n2Inspect("id=" + name + " src=parrot seed=1")
		if err != nil {
			continue
		}
		has13 := negHas16(ch.vers, 0x0304)
		for _, src := range []string{"parrot", "fp"} {
			base := "id=" + name + " src=" + src + " "
			plan = append(plan, n2Case{"v12", base + "smax=0303"})
			plan = append(plan, n2Case{"v12-rsa", base + "smax=0303 cipher=ECDHE-RSA-AES128-GCM-SHA256:ECDHE-RSA-AES256-SHA:AES128-SHA"})
			plan = append(plan, n2Case{"v12-ecdsa", base + "smax=0303 cipher=ECDHE-ECDSA-AES128-GCM-SHA256:ECDHE-ECDSA-AES256-SHA"})
			if len(ch.alpn) > 0 {
				plan = append(plan, n2Case{"v12-alpn", base + "smax=0303 salpn=" + hx(ch.alpn[0])})
			}
			for _, g := range n2Real(ch.groups) {
				if osslGroupName(uint64(g)) != "" {
					plan = append(plan, n2Case{"g12", base + fmt.Sprintf("smax=0303 curves=%d", g)})
				}
			}
			if !has13 {
				continue
			}
			plan = append(plan, n2Case{"v13", base + "smax=0304"})
			if len(ch.alpn) > 0 {
				plan = append(plan, n2Case{"v13-alpn", base + "smax=0304 salpn=" + hx(ch.alpn[len(ch.alpn)-1])})
			}
			for _, g := range n2Real(ch.groups) {
				if osslGroupName(uint64(g)) == "" {
					continue
				}
				kind := "g13-share"
				if !negHas16(ch.shares, g) {
					kind = "g13-hrr"
				}
				plan = append(plan, n2Case{kind, base + fmt.Sprintf("smax=0304 curves=%d", g)})
			}
			for _, s := range n2Real(ch.suites) {
				if osslSuiteName(s) != "" {
					plan = append(plan, n2Case{"s13", base + fmt.Sprintf("smax=0304 fs13=%04x", s)})
				}
			}
		}
	}
	return plan
}

func osslGen(r *Rng, i int, tier string) string {
	if tier != "thorough" {
		return ""
	}
	if _, err := exec.LookPath("openssl"); err != nil {
		if i == 0 {
			return "id=Chrome-133 src=parrot smax=0304 mode=no-openssl"
		}
		return ""
	}
	if osslPlanCache == nil {
		osslPlanCache = osslPlan()
	}
	if i >= len(osslPlanCache) {
		return ""
	}
	c := osslPlanCache[i]
	return fmt.Sprintf("%s seed=%d mode=%s", c.toks, r.U64()>>1, c.tag)
}

func init() {
	register(&Family{Name: "c10_ossl", Gen: osslGen, Exec: osslExec, Timeout: 30 * time.Second})
}
