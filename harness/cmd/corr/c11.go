package main

// C11: client and server agree on every negotiated parameter and exported key.
//
// Family c11_hs rides on the neg2 engine (n2Exec, c10.go): every case is a real handshake with a
// compliant in-package server; the output carries both ConnectionStates (version, suite, curve, ALPN,
// DidResume, HRR, ECHAccepted, ServerName), the facts the exporter policy consults on each side
// (Config.Renegotiation, extended master secret) and, per exporter probe, four answers: client and
// server through ConnectionState.ExportKeyingMaterial, and both through the raw exporter closure below
// the policy (VerifRawEKM), so that the keying material is compared even where the policy refuses to
// hand it out. The grid adds to C10's: resumed handshakes over a shared session cache (TLS 1.3 PSK
// and TLS 1.2 tickets), HelloRetryRequest, ECH (ids that carry an ECH extension), every way of not
// sending or changing the SNI (RemoveSNIExtension, spec without SNIExtension, explicit name in the
// extension, IP literal / trailing dot / upper case Config.ServerName), specs whose renegotiation
// policy is Never or that lack renegotiation_info / extended_master_secret.

import (
	"encoding/hex"
	"fmt"
	"strings"

	tls "github.com/refraction-networking/utls"
)

var c11Labels = []string{
	"EXPORTER-verif", "", "client finished", "server finished", "master secret", "key expansion",
	"EXPORTER_TLS_Channel_ID", "ttls keying material", "x", "client finishe", "key expansion ",
}

func c11Probe(r *Rng) string {
	var label string
	switch r.Intn(4) {
	case 0:
		label = c11Labels[r.Intn(len(c11Labels))]
	case 1:
		label = string(r.Bytes(1 + r.Intn(40)))
	default:
		b := make([]byte, r.Intn(32))
		for i := range b {
			b[i] = byte(0x20 + r.Intn(0x5f))
		}
		label = "EXPORTER-" + string(b)
	}
	var ctx string
	switch r.Intn(8) {
	case 0, 1:
		ctx = "nil"
	case 2:
		ctx = "-"
	case 3:
		ctx = "z70000" // 70 000 zero bytes: beyond the uint16 length prefix of RFC 5705
	case 4:
		ctx = "z65535"
	default:
		ctx = hex.EncodeToString(r.Bytes(1 + r.Intn(64)))
	}
	lens := []int{0, 1, 16, 20, 32, 33, 48, 64, 100, 255, 256, 1000}
	return fmt.Sprintf("%s:%s:%d", hx([]byte(label)), ctx, lens[r.Intn(len(lens))])
}

func c11Probes(r *Rng, n int) string {
	ps := make([]string, n)
	for i := range ps {
		ps[i] = c11Probe(r)
	}
	return strings.Join(ps, ";")
}

func n2HasExt(raw []byte, typ uint16) bool {
	if len(raw) < 4+2+32+1 {
		return false
	}
	r := &negRd{raw[4:]}
	r.take(34)
	if _, ok := r.vec8(); !ok {
		return false
	}
	if _, ok := r.vec16(); !ok {
		return false
	}
	if _, ok := r.vec8(); !ok {
		return false
	}
	exts, ok := r.vec16()
	if !ok {
		return false
	}
	er := &negRd{exts}
	for len(er.b) > 0 {
		t, ok1 := er.u16()
		_, ok2 := er.vec16()
		if !ok1 || !ok2 {
			return false
		}
		if uint16(t) == typ {
			return true
		}
	}
	return false
}

type c11Mode struct{ tag, toks string }

// c11Modes apply to every predefined id (src=parrot unless the tokens say otherwise); `%A` is replaced
// by the first ALPN protocol the id offers (the mode is dropped for ids without ALPN), `%H` by a group
// the hello lists without key share (dropped when there is none).
var c11Modes = []c11Mode{
	{"v13", "smax=0304"},
	{"v12", "smax=0303"},
	{"v11", "smax=0302"},
	{"v13-resumed", "smax=0304 resume=1"},
	{"v12-resumed", "smax=0303 resume=1"},
	{"v13-hrr", "smax=0304 curves=%H"},
	{"v13-alpn", "smax=0304 salpn=%A"},
	{"v12-alpn", "smax=0303 salpn=%A"},
	{"v13-rsa", "smax=0304 cert=rsa"},
	// exporter available through the public API on the client
	{"v13-renegnever", "src=custom mods=reneg=never smax=0304"},
	{"v12-renegnever", "src=custom mods=reneg=never smax=0303"},
	{"v12-renegnever-resumed", "src=custom mods=reneg=never smax=0303 resume=1"},
	{"v12-noreneg", "src=custom mods=noreneg smax=0303"},
	{"v12-noems", "src=custom mods=reneg=never,noems smax=0303"},
	{"v11-renegnever", "src=custom mods=reneg=never smax=0302"},
	// server name
	{"v13-rmsni", "smax=0304 rmsni=1"},
	{"v12-rmsni", "smax=0303 rmsni=1"},
	{"v13-nosniext", "src=custom mods=nosni smax=0304"},
	{"v12-nosniext-resumed", "src=custom mods=nosni smax=0303 resume=1"},
	{"v13-sni-explicit", "src=custom mods=sni=76657269662e74657374 smax=0304"},                    // verif.test
	{"v13-ip", "smax=0304 sname=3132372e302e302e31"},                                               // 127.0.0.1
	{"v12-ip6", "smax=0303 sname=5b3a3a315d"},                                                      // [::1] — not in the certificate: fails verification unless … see below
	{"v13-dot", "smax=0304 sname=76657269662e746573742e"},                                          // verif.test.
	{"v12-upper", "smax=0303 sname=56657269662e54657374"},                                          // Verif.Test
	{"v13-wild", "smax=0304 sname=612e76657269662e74657374"},                                       // a.verif.test
	{"v13-fp", "src=fp smax=0304"},
	{"v12-fp-rmsni", "src=fp smax=0303 rmsni=1"},
	// the name edited after the hello was built once (Handshake builds it again)
	{"v13-post-rmext", "smax=0304 post=rmext"},
	{"v12-post-rmext", "smax=0303 post=rmext"},
	{"v13-post-setsni", "smax=0304 post=setsni:76657269662e74657374"},   // SetSNI("verif.test")
	{"v12-post-setsni-dot", "smax=0303 post=setsni:76657269662e746573742e"}, // SetSNI("verif.test."): sent without the dot
	{"v13-post-extname", "smax=0304 post=extname:612e76657269662e74657374"}, // extension renamed to a.verif.test
	{"v12-post-rmext-fp", "src=fp smax=0303 post=rmext"},
	{"v13-build2", "smax=0304 pre=build2"},
	{"v13-direct-rmsni", "smax=0304 pre=direct rmsni=1"},
	{"v12-nosess-rmsni", "smax=0303 pre=nosess rmsni=1"},
	{"v13-nosess", "smax=0304 pre=nosess"},
	// client authentication (the client's Certificate / CertificateVerify follow the server Finished)
	{"v13-cauth-request", "smax=0304 cauth=request"},
	{"v13-cauth-require", "smax=0304 cauth=require"},
	{"v13-cauth-requestcert", "smax=0304 cauth=requestcert"},
	{"v12-cauth-request", "smax=0303 cauth=request"},
	{"v12-cauth-require", "smax=0303 cauth=require"},
	{"v13-renegnever-cauth-require", "src=custom mods=reneg=never smax=0304 cauth=require"},
	{"v13-renegnever-cauth-request", "src=custom mods=reneg=never smax=0304 cauth=request"},
	{"v12-renegnever-cauth-require", "src=custom mods=reneg=never smax=0303 cauth=require"},
	{"v13-resumed-cauth", "smax=0304 resume=1 cauth=require"},
	// ECH (only ids whose spec carries an ECH extension)
	{"v13-ech", "smax=0304 ech=1 sname=76657269662e74657374"},
	{"v13-ech-hrr", "smax=0304 ech=1 sname=76657269662e74657374 curves=%H"},
}

var c11PlanCache []n2Case

func c11Plan() []n2Case {
	var plan []n2Case
	for _, id := range parrotIDs {
		name := idName(id)
		ch, err := n2Inspect("id=" + name + " src=parrot seed=1")
		if err != nil {
			plan = append(plan, n2Case{"inspect-failed", "id=" + name})
			continue
		}
		raw, _ := n2BuildHello(&n2Client{id: id}, &tls.Config{ServerName: "example.golang", OmitEmptyPsk: negIsPSKParrot(id), Rand: newN2Reader(1)})
		hasECH := n2HasExt(raw, 0xfe0d)
		hrrGroup := ""
		for _, g := range n2Real(ch.groups) {
			if !negHas16(ch.shares, g) && (g == 23 || g == 24 || g == 25 || g == 29) {
				hrrGroup = fmt.Sprint(g)
			}
		}
		for _, m := range c11Modes {
			toks := m.toks
			if strings.Contains(toks, "%A") {
				if len(ch.alpn) == 0 {
					continue
				}
				toks = strings.Replace(toks, "%A", hx(ch.alpn[0]), 1)
			}
			if strings.Contains(toks, "%H") {
				if hrrGroup == "" || !negHas16(ch.vers, 0x0304) {
					continue
				}
				toks = strings.Replace(toks, "%H", hrrGroup, 1)
			}
			if strings.Contains(toks, "ech=1") && !hasECH {
				continue
			}
			if m.tag == "v12-ip6" {
				continue // [::1] is not among the certificate's names; the IPv4 literal covers the no-SNI path
			}
			if !strings.Contains(toks, "src=") {
				toks = "src=parrot " + toks
			}
			plan = append(plan, n2Case{m.tag, "id=" + name + " " + toks})
		}
	}
	return plan
}

func c11Gen(r *Rng, i int, tier string) string {
	if c11PlanCache == nil {
		c11PlanCache = c11Plan()
	}
	reps := 1
	if tier == "thorough" {
		reps = 6
	}
	total := len(c11PlanCache) * reps
	if i < total {
		c := c11PlanCache[i%len(c11PlanCache)]
		return fmt.Sprintf("%s seed=%d ekm=%s mode=%s", c.toks, r.U64()>>1, c11Probes(r, 3), c.tag)
	}
	// randomized specs
	nr := 250
	if tier == "thorough" {
		nr = 3000
	}
	j := i - total
	if j >= nr {
		return ""
	}
	src := []string{"rand", "randalpn", "randnoalpn"}[j%3]
	seed := r.U64() >> 1
	toks := fmt.Sprintf("id=Golang-0 src=%s seed=%d", src, seed)
	cfg := []string{"smax=0304", "smax=0303", "smax=0304 resume=1", "smax=0303 resume=1", "smax=0304 rmsni=1", "smax=0303 rmsni=1",
		"smax=0304 curves=24", "smax=0304 sname=3132372e302e302e31", "smax=0304 post=rmext", "smax=0303 pre=nosess rmsni=1",
		"smax=0304 cauth=require", "smax=0303 cauth=request"}[r.Intn(12)]
	return fmt.Sprintf("%s %s ekm=%s mode=rand", toks, cfg, c11Probes(r, 3))
}

func init() {
	register(&Family{Name: "c11_hs", Gen: c11Gen, Exec: n2Exec})
}
