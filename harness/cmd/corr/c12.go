package main

// C12 (+ the engine shared with C13): the client accepts only what its on-wire ClientHello offered.
//
// One case = one real handshake (runHS: UClient + Handshake against the in-package server over TCP
// loopback). The server is steered by its Config and by the verif server hooks; outgoing server
// handshake messages are rewritten *before* transcript hashing (VerifServerHooks.RewriteHandshake),
// so both transcripts stay consistent and the only thing that can fail is the client's own check of
// the rewritten parameter. Rewrites are symbolic ("a GREASE suite other than the offered one",
// "a group listed without a key share", …) and resolved against the ClientHello this connection
// actually sent. The output line carries raw material only — the recorded ClientHello, the server
// messages as sent, the client's error class, the alert the server received, the ConnectionState —
// and the Lean driver parses the bytes itself, predicts accept/abort(+alert) with the model and
// evaluates the monitors.

import (
	"bytes"
	"compress/zlib"
	"crypto/ecdh"
	"fmt"
	"sort"
	"strconv"
	"strings"

	tls "github.com/refraction-networking/utls"
)

// ---- minimal ClientHello view (only to resolve symbolic rewrites; the Lean side re-parses the bytes) ----

type negCH struct {
	legacy    uint16
	sid       []byte
	suites    []uint16
	hasVers   bool
	vers      []uint16
	hasGroups bool
	groups    []uint16
	shares    []uint16
	alpn      [][]byte
	pskCount  int
	ccAlgs    []uint16
}

type negRd struct{ b []byte }

func (r *negRd) u8() (int, bool) {
	if len(r.b) < 1 {
		return 0, false
	}
	v := int(r.b[0])
	r.b = r.b[1:]
	return v, true
}
func (r *negRd) u16() (int, bool) {
	if len(r.b) < 2 {
		return 0, false
	}
	v := int(r.b[0])<<8 | int(r.b[1])
	r.b = r.b[2:]
	return v, true
}
func (r *negRd) u24() (int, bool) {
	if len(r.b) < 3 {
		return 0, false
	}
	v := int(r.b[0])<<16 | int(r.b[1])<<8 | int(r.b[2])
	r.b = r.b[3:]
	return v, true
}
func (r *negRd) take(n int) ([]byte, bool) {
	if n < 0 || len(r.b) < n {
		return nil, false
	}
	v := r.b[:n]
	r.b = r.b[n:]
	return v, true
}
func (r *negRd) vec8() ([]byte, bool) {
	n, ok := r.u8()
	if !ok {
		return nil, false
	}
	return r.take(n)
}
func (r *negRd) vec16() ([]byte, bool) {
	n, ok := r.u16()
	if !ok {
		return nil, false
	}
	return r.take(n)
}

func negU16s(b []byte) []uint16 {
	var out []uint16
	for i := 0; i+1 < len(b); i += 2 {
		out = append(out, uint16(b[i])<<8|uint16(b[i+1]))
	}
	return out
}

func negParseCH(msg []byte) (*negCH, bool) {
	if len(msg) < 4 || msg[0] != 1 {
		return nil, false
	}
	r := &negRd{msg[4:]}
	ci := &negCH{}
	v, ok := r.u16()
	if !ok {
		return nil, false
	}
	ci.legacy = uint16(v)
	if _, ok = r.take(32); !ok {
		return nil, false
	}
	if ci.sid, ok = r.vec8(); !ok {
		return nil, false
	}
	cs, ok := r.vec16()
	if !ok {
		return nil, false
	}
	ci.suites = negU16s(cs)
	if _, ok = r.vec8(); !ok {
		return nil, false
	}
	if len(r.b) == 0 {
		return ci, true
	}
	exts, ok := r.vec16()
	if !ok {
		return nil, false
	}
	er := &negRd{exts}
	for len(er.b) > 0 {
		t, ok1 := er.u16()
		body, ok2 := er.vec16()
		if !ok1 || !ok2 {
			return nil, false
		}
		br := &negRd{body}
		switch t {
		case 43:
			l, _ := br.vec8()
			ci.hasVers, ci.vers = true, negU16s(l)
		case 10:
			l, _ := br.vec16()
			ci.hasGroups, ci.groups = true, negU16s(l)
		case 51:
			l, _ := br.vec16()
			sr := &negRd{l}
			for len(sr.b) > 0 {
				g, ok1 := sr.u16()
				_, ok2 := sr.vec16()
				if !ok1 || !ok2 {
					return nil, false
				}
				ci.shares = append(ci.shares, uint16(g))
			}
		case 16:
			l, _ := br.vec16()
			pr := &negRd{l}
			for len(pr.b) > 0 {
				p, ok := pr.vec8()
				if !ok {
					return nil, false
				}
				ci.alpn = append(ci.alpn, p)
			}
		case 41:
			l, _ := br.vec16()
			ir := &negRd{l}
			for len(ir.b) > 0 {
				_, ok1 := ir.vec16()
				_, ok2 := ir.take(4)
				if !ok1 || !ok2 {
					return nil, false
				}
				ci.pskCount++
			}
		case 27:
			l, _ := br.vec8()
			ci.ccAlgs = negU16s(l)
		}
	}
	return ci, true
}

func negHas16(xs []uint16, v uint16) bool {
	for _, x := range xs {
		if x == v {
			return true
		}
	}
	return false
}

func negIsGrease(v uint16) bool { return v>>8 == v&0xff && v&0xf == 0xa }

// ---- ServerHello / EncryptedExtensions editing ----

type negExt struct {
	typ  uint16
	body []byte
}

type negSH struct {
	vers    uint16
	random  []byte
	sid     []byte
	suite   uint16
	comp    uint8
	hasExts bool
	exts    []negExt
}

func negParseExts(b []byte) ([]negExt, bool) {
	var out []negExt
	r := &negRd{b}
	for len(r.b) > 0 {
		t, ok1 := r.u16()
		body, ok2 := r.vec16()
		if !ok1 || !ok2 {
			return nil, false
		}
		out = append(out, negExt{uint16(t), append([]byte(nil), body...)})
	}
	return out, true
}

func negMarshalExts(es []negExt) []byte {
	var b []byte
	for _, e := range es {
		b = append(b, byte(e.typ>>8), byte(e.typ), byte(len(e.body)>>8), byte(len(e.body)))
		b = append(b, e.body...)
	}
	return b
}

func negParseSH(data []byte) (*negSH, bool) {
	if len(data) < 4 || data[0] != 2 {
		return nil, false
	}
	r := &negRd{data[4:]}
	m := &negSH{}
	v, ok := r.u16()
	if !ok {
		return nil, false
	}
	m.vers = uint16(v)
	rnd, ok := r.take(32)
	if !ok {
		return nil, false
	}
	m.random = append([]byte(nil), rnd...)
	sid, ok := r.vec8()
	if !ok {
		return nil, false
	}
	m.sid = append([]byte(nil), sid...)
	s, ok := r.u16()
	if !ok {
		return nil, false
	}
	m.suite = uint16(s)
	c, ok := r.u8()
	if !ok {
		return nil, false
	}
	m.comp = uint8(c)
	if len(r.b) == 0 {
		return m, true
	}
	eb, ok := r.vec16()
	if !ok || len(r.b) != 0 {
		return nil, false
	}
	m.hasExts = true
	m.exts, ok = negParseExts(eb)
	return m, ok
}

func negHsMsg(typ byte, body []byte) []byte {
	out := []byte{typ, byte(len(body) >> 16), byte(len(body) >> 8), byte(len(body))}
	return append(out, body...)
}

func (m *negSH) marshal() []byte {
	var b []byte
	b = append(b, byte(m.vers>>8), byte(m.vers))
	b = append(b, m.random...)
	b = append(b, byte(len(m.sid)))
	b = append(b, m.sid...)
	b = append(b, byte(m.suite>>8), byte(m.suite), m.comp)
	if m.hasExts || len(m.exts) > 0 {
		eb := negMarshalExts(m.exts)
		b = append(b, byte(len(eb)>>8), byte(len(eb)))
		b = append(b, eb...)
	}
	return negHsMsg(2, b)
}

func negFindExt(es []negExt, typ uint16) int {
	for i, e := range es {
		if e.typ == typ {
			return i
		}
	}
	return -1
}

func negSetExt(es []negExt, typ uint16, body []byte) []negExt {
	if i := negFindExt(es, typ); i >= 0 {
		es[i].body = body
		return es
	}
	return append(es, negExt{typ, body})
}

func negDelExt(es []negExt, typ uint16) []negExt {
	if i := negFindExt(es, typ); i >= 0 {
		return append(es[:i:i], es[i+1:]...)
	}
	return es
}

func negAlpnBody(proto []byte) []byte {
	inner := append([]byte{byte(len(proto))}, proto...)
	return append([]byte{byte(len(inner) >> 8), byte(len(inner))}, inner...)
}

// ---- the engine ----

type negOp struct{ target, field, val string }

func negParseOps(s string) []negOp {
	var ops []negOp
	for _, t := range strings.Split(s, "+") {
		if t == "" || t == "-" {
			continue
		}
		p := strings.SplitN(t, ".", 3)
		if len(p) != 3 {
			panic("bad rewrite op " + t)
		}
		ops = append(ops, negOp{p[0], p[1], p[2]})
	}
	return ops
}

type negRun struct {
	ch      *negCH
	ops     []negOp
	hrrRnd  []byte
	sawHRR  bool
	is13    bool
	skip    string   // set when a symbolic value cannot be resolved for this ClientHello
	sentSH  []string // ServerHello-type messages as sent (HRR first)
	sentEE  string
	cert    string
	skx     int
	applied int
}

var negImpl12Pool = []uint16{0xc02f, 0xc02b, 0xc030, 0xc02c, 0xcca8, 0xcca9, 0xc013, 0xc014, 0xc009, 0xc00a,
	0x009c, 0x009d, 0x002f, 0x0035, 0x000a, 0xc012, 0x003c, 0xc023, 0xc027}
var negGroupPool = []uint16{25, 24, 23, 29, 30, 256, 4588, 0x6399}

func negHexOrSym(val string) (uint16, bool) {
	if v, err := strconv.ParseUint(val, 16, 16); err == nil && len(val) == 4 {
		return uint16(v), true
	}
	return 0, false
}

// negOtherGrease returns a GREASE-shaped value not in any of the lists.
func negOtherGrease(lists ...[]uint16) uint16 {
	for k := 0; k < 16; k++ {
		v := uint16(k<<4|0xa)<<8 | uint16(k<<4|0xa)
		in := false
		for _, l := range lists {
			in = in || negHas16(l, v)
		}
		if !in {
			return v
		}
	}
	return 0
}

func negSameGrease(l []uint16) (uint16, bool) {
	for _, v := range l {
		if negIsGrease(v) {
			return v, true
		}
	}
	return 0, false
}

func (n *negRun) resolveSuite(val string) (uint16, bool) {
	if v, ok := negHexOrSym(val); ok {
		return v, true
	}
	ch := n.ch
	switch val {
	case "unknown":
		for _, v := range []uint16{0x1234, 0x00ff, 0x5600, 0xfefe, 0x0001} {
			if !negHas16(ch.suites, v) {
				return v, true
			}
		}
	case "grease-other":
		return negOtherGrease(ch.suites), true
	case "grease-same":
		return negSameGrease(ch.suites)
	case "unoff13":
		for _, v := range []uint16{0x1301, 0x1302, 0x1303, 0x1304, 0x1305} {
			if !negHas16(ch.suites, v) {
				return v, true
			}
		}
	case "unoff12":
		for _, v := range negImpl12Pool {
			if !negHas16(ch.suites, v) {
				return v, true
			}
		}
	case "conf": // an *offered* suite of the other protocol generation
		for _, v := range ch.suites {
			is13suite := v>>8 == 0x13
			if !negIsGrease(v) && is13suite != n.is13 && v != 0x00ff && v != 0x5600 {
				return v, true
			}
		}
	}
	return 0, false
}

func (n *negRun) resolveGroup(val string) (uint16, bool) {
	if v, ok := negHexOrSym(val); ok {
		return v, true
	}
	ch := n.ch
	switch val {
	case "unlisted": // neither in supported_groups nor in key_share
		for _, v := range negGroupPool {
			if !negHas16(ch.groups, v) && !negHas16(ch.shares, v) {
				return v, true
			}
		}
	case "noshare": // listed without a key share
		for _, v := range ch.groups {
			if !negIsGrease(v) && !negHas16(ch.shares, v) {
				return v, true
			}
		}
	case "shared": // first non-GREASE group a share was sent for
		for _, v := range ch.shares {
			if !negIsGrease(v) {
				return v, true
			}
		}
	case "grease-other":
		return negOtherGrease(ch.groups, ch.shares), true
	case "grease-same":
		return negSameGrease(ch.shares)
	}
	return 0, false
}

func (n *negRun) resolveVersion(val string) (uint16, bool) {
	if v, ok := negHexOrSym(val); ok {
		return v, true
	}
	ch := n.ch
	adv := func(v uint16) bool {
		if ch.hasVers {
			return negHas16(ch.vers, v)
		}
		return v <= ch.legacy
	}
	switch val {
	case "unadv": // a real TLS version the hello did not advertise (highest such)
		for _, v := range []uint16{0x0304, 0x0303, 0x0302, 0x0301} {
			if !adv(v) {
				return v, true
			}
		}
	case "unadv-low": // lowest real TLS version the hello did not advertise
		for _, v := range []uint16{0x0301, 0x0302, 0x0303, 0x0304} {
			if !adv(v) {
				return v, true
			}
		}
	case "grease-other":
		return negOtherGrease(ch.vers), true
	case "grease-same":
		return negSameGrease(ch.vers)
	}
	return 0, false
}

func (n *negRun) rewriteSH(data []byte) []byte {
	m, ok := negParseSH(data)
	if !ok {
		n.skip = "unparsable-server-hello"
		return data
	}
	isHRR := bytes.Equal(m.random, n.hrrRnd)
	if !isHRR {
		if i := negFindExt(m.exts, 43); i >= 0 && bytes.Equal(m.exts[i].body, []byte{3, 4}) {
			n.is13 = true
		}
	}
	target := "sh"
	if isHRR {
		target = "hrr"
		n.sawHRR = true
	}
	changed := false
	for _, op := range n.ops {
		if op.target != target {
			continue
		}
		switch op.field {
		case "suite":
			v, ok := n.resolveSuite(op.val)
			if !ok {
				n.skip = "suite-" + op.val
				continue
			}
			m.suite = v
		case "comp":
			v, _ := strconv.Atoi(op.val)
			m.comp = uint8(v)
		case "sid":
			switch op.val {
			case "flip":
				if len(m.sid) == 0 {
					m.sid = []byte{0x5a}
				} else {
					m.sid[0] ^= 0x01
				}
			case "empty":
				if len(m.sid) == 0 {
					n.skip = "sid-empty"
					continue
				}
				m.sid = nil
			case "trunc":
				if len(m.sid) == 0 {
					n.skip = "sid-trunc"
					continue
				}
				m.sid = m.sid[:len(m.sid)-1]
			case "extend":
				if len(m.sid) >= 32 {
					n.skip = "sid-extend"
					continue
				}
				m.sid = append(m.sid, 0x77)
			case "fresh":
				m.sid = bytes.Repeat([]byte{0xa5}, 32)
			}
		case "group": // key_share: server share group (ServerHello) / selected group (HRR)
			v, ok := n.resolveGroup(op.val)
			if !ok {
				n.skip = "group-" + op.val
				continue
			}
			i := negFindExt(m.exts, 51)
			if i < 0 {
				if !isHRR {
					n.skip = "no-key-share"
					continue
				}
				m.exts = append(m.exts, negExt{51, []byte{byte(v >> 8), byte(v)}})
			} else {
				b := append([]byte(nil), m.exts[i].body...)
				b[0], b[1] = byte(v>>8), byte(v)
				m.exts[i].body = b
			}
		case "psk": // pre_shared_key: selected identity; "over<k>" = offered count + k
			idx := 0
			if strings.HasPrefix(op.val, "over") {
				k, _ := strconv.Atoi(op.val[4:])
				idx = n.ch.pskCount + k
			} else {
				idx, _ = strconv.Atoi(op.val)
			}
			m.exts = negSetExt(m.exts, 41, []byte{byte(idx >> 8), byte(idx)})
			m.hasExts = true
		case "alpn": // ALPN inside the ServerHello (TLS <= 1.2; forbidden in 1.3)
			p, ok := n.resolveALPN(op.val)
			if !ok {
				n.skip = "alpn-" + op.val
				continue
			}
			m.exts = negSetExt(m.exts, 16, negAlpnBody(p))
			m.hasExts = true
		case "sv": // supported_versions selected version
			if op.val == "none" {
				m.exts = negDelExt(m.exts, 43)
				break
			}
			v, ok := n.resolveVersion(op.val)
			if !ok {
				n.skip = "sv-" + op.val
				continue
			}
			m.exts = negSetExt(m.exts, 43, []byte{byte(v >> 8), byte(v)})
			m.hasExts = true
		case "lv": // legacy_version field
			v, ok := n.resolveVersion(op.val)
			if !ok {
				n.skip = "lv-" + op.val
				continue
			}
			m.vers = v
		case "canary": // last 8 bytes of the random
			switch op.val {
			case "12":
				copy(m.random[24:], "DOWNGRD\x01")
			case "11":
				copy(m.random[24:], "DOWNGRD\x00")
			case "near": // differs from the sentinel in the last byte only
				copy(m.random[24:], "DOWNGRD\x02")
			}
		default:
			panic("unknown rewrite field " + op.field)
		}
		changed = true
		n.applied++
	}
	out := data
	if changed {
		out = m.marshal()
	}
	n.sentSH = append(n.sentSH, hx(out))
	return out
}

func (n *negRun) resolveALPN(val string) ([]byte, bool) {
	switch val {
	case "foreign":
		return []byte("zz-verif"), true
	case "prefix": // proper prefix of an offered protocol
		for _, p := range n.ch.alpn {
			if len(p) > 1 {
				return p[:len(p)-1], true
			}
		}
		return nil, false
	case "case": // same letters, other case
		for _, p := range n.ch.alpn {
			q := bytes.ToUpper(p)
			if !bytes.Equal(p, q) {
				return q, true
			}
		}
		return nil, false
	case "last": // the last protocol the client offered
		if len(n.ch.alpn) == 0 {
			return nil, false
		}
		return n.ch.alpn[len(n.ch.alpn)-1], true
	}
	if strings.HasPrefix(val, "x") {
		return unhex(val[1:]), true
	}
	return nil, false
}

func (n *negRun) rewriteEE(data []byte) []byte {
	out := data
	for _, op := range n.ops {
		if op.target != "ee" {
			continue
		}
		r := &negRd{data[4:]}
		eb, ok := r.vec16()
		if !ok {
			n.skip = "unparsable-ee"
			break
		}
		es, _ := negParseExts(eb)
		switch op.field {
		case "alpn":
			p, ok := n.resolveALPN(op.val)
			if !ok {
				n.skip = "alpn-" + op.val
				continue
			}
			es = negSetExt(es, 16, negAlpnBody(p))
		default:
			panic("unknown ee field " + op.field)
		}
		b := negMarshalExts(es)
		out = negHsMsg(8, append([]byte{byte(len(b) >> 8), byte(len(b))}, b...))
		n.applied++
	}
	n.sentEE = hx(out)
	return out
}

func (n *negRun) rewriteCert(data []byte) []byte {
	if !n.is13 {
		return data
	}
	n.cert = "plain"
	for _, op := range n.ops {
		if op.target != "cert" || op.field != "comp" {
			continue
		}
		var alg uint16
		valid := false
		switch op.val {
		case "unadv": // a defined algorithm the hello did not advertise
			found := false
			for _, v := range []uint16{2, 1, 3} {
				if !negHas16(n.ch.ccAlgs, v) {
					alg, found = v, true
					break
				}
			}
			if !found {
				alg = 4
			}
		case "bogus":
			alg = 0xfefe
		case "grease":
			alg = 0x0a0a
		case "zlib": // genuine zlib compression (accepted iff zlib was advertised)
			alg, valid = 1, true
		case "adv-garbage": // an advertised algorithm with a payload that is not a valid stream
			if len(n.ch.ccAlgs) == 0 {
				n.skip = "no-advertised-alg"
				continue
			}
			alg = n.ch.ccAlgs[0]
		default:
			panic("unknown cert.comp value " + op.val)
		}
		body := data[4:]
		var payload []byte
		if alg == 1 {
			var buf bytes.Buffer
			w := zlib.NewWriter(&buf)
			w.Write(body)
			w.Close()
			payload = buf.Bytes()
			valid = op.val != "adv-garbage"
			if !valid {
				payload = []byte{0xde, 0xad, 0xbe, 0xef}
			}
		} else {
			payload = []byte{0xde, 0xad, 0xbe, 0xef}
		}
		cb := []byte{byte(alg >> 8), byte(alg), byte(len(body) >> 16), byte(len(body) >> 8), byte(len(body)),
			byte(len(payload) >> 16), byte(len(payload) >> 8), byte(len(payload))}
		cb = append(cb, payload...)
		v := 0
		if valid {
			v = 1
		}
		n.cert = fmt.Sprintf("c%dv%d", alg, v)
		n.applied++
		return negHsMsg(25, cb)
	}
	return data
}

func (n *negRun) rewrite(data []byte) []byte {
	if len(data) < 4 {
		return data
	}
	switch data[0] {
	case 2:
		return n.rewriteSH(data)
	case 8:
		return n.rewriteEE(data)
	case 11:
		return n.rewriteCert(data)
	case 12:
		if len(data) >= 8 && data[4] == 3 {
			n.skx = int(data[5])<<8 | int(data[6])
		}
	}
	return data
}

func negCurveIDOf(k *ecdh.PrivateKey) int {
	if k == nil {
		return 0
	}
	switch k.Curve() {
	case ecdh.X25519():
		return 29
	case ecdh.P256():
		return 23
	case ecdh.P384():
		return 24
	case ecdh.P521():
		return 25
	}
	return 0
}

// negKeySet renders the per-share private keys of a key set:
// <Mlkem held>,<MlkemEcdhe held>,<groups in EcdheKeys, +-separated, sorted>,<groups in MlkemKeys>.
func negKeySet(ks *tls.KeySharePrivateKeys) string {
	b := func(v bool) int {
		if v {
			return 1
		}
		return 0
	}
	var eg, mg []int
	for g, k := range ks.EcdheKeys {
		if k != nil {
			eg = append(eg, int(g))
		}
	}
	for g, k := range ks.MlkemKeys {
		if k != nil {
			mg = append(mg, int(g))
		}
	}
	sort.Ints(eg)
	sort.Ints(mg)
	plus := func(xs []int) string {
		if len(xs) == 0 {
			return "-"
		}
		ss := make([]string, len(xs))
		for i, x := range xs {
			ss[i] = strconv.Itoa(x)
		}
		return strings.Join(ss, "+")
	}
	return fmt.Sprintf("%d,%d,%s,%s", b(ks.Mlkem != nil), b(ks.MlkemEcdhe != nil), plus(eg), plus(mg))
}

func negHex16(s string) uint16 {
	if s == "" || s == "0" {
		return 0
	}
	v, err := strconv.ParseUint(s, 16, 16)
	if err != nil {
		panic("bad hex16 " + s)
	}
	return uint16(v)
}

func negIsPSKParrot(id tls.ClientHelloID) bool { return strings.Contains(id.Version, "PSK") }

// negSpecFor returns what to hand to runHS: the predefined id itself, or — when `drop` names things
// to remove — HelloCustom with that id's spec minus the dropped items (a custom spec derived from the
// parrot, applied through ApplyPreset like any user-supplied spec). Items: `s<hex>` cipher suite,
// `v<hex>` supported_versions entry, `g<dec>` group (supported_groups and key_share), `alpn` the ALPN
// extension, `cc` the compress_certificate extension.
func negSpecFor(id tls.ClientHelloID, drop, tmin, tmax string) (tls.ClientHelloID, *tls.ClientHelloSpec, error) {
	items := splitList(drop)
	spec, err := tls.UTLSIdToSpec(id)
	if err != nil {
		return id, nil, err
	}
	if len(items) == 0 && tmin == "" && tmax == "" {
		return id, &spec, nil
	}
	if tmin != "" {
		spec.TLSVersMin = negHex16(tmin)
	}
	if tmax != "" {
		spec.TLSVersMax = negHex16(tmax)
	}
	for _, it := range items {
		if strings.HasPrefix(it, "s") && it != "sv" && it != "sg" {
			v := negHex16(it[1:])
			var keep []uint16
			for _, s := range spec.CipherSuites {
				if s != v {
					keep = append(keep, s)
				}
			}
			spec.CipherSuites = keep
			continue
		}
		exts, err := negDropExt(spec.Extensions, it)
		if err != nil {
			return id, nil, err
		}
		spec.Extensions = exts
	}
	return tls.HelloCustom, &spec, nil
}

// negDropExt removes one item from an extension list: whole extensions `alpn`, `cc`
// (compress_certificate), `sv` (supported_versions), `sg` (supported_groups), `ks` (key_share);
// list entries `v<hex>` (a supported_versions entry), `g<dec>` (a group, from supported_groups and key_share).
func negDropExt(exts []tls.TLSExtension, it string) ([]tls.TLSExtension, error) {
	{
		switch {
		case it == "alpn" || it == "cc" || it == "sv" || it == "sg" || it == "ks":
			var keep []tls.TLSExtension
			for _, e := range exts {
				_, isALPN := e.(*tls.ALPNExtension)
				_, isCC := e.(*tls.UtlsCompressCertExtension)
				_, isSV := e.(*tls.SupportedVersionsExtension)
				_, isSG := e.(*tls.SupportedCurvesExtension)
				_, isKS := e.(*tls.KeyShareExtension)
				if (it == "alpn" && isALPN) || (it == "cc" && isCC) || (it == "sv" && isSV) || (it == "sg" && isSG) || (it == "ks" && isKS) {
					continue
				}
				keep = append(keep, e)
			}
			return keep, nil
		case it == "cz": // not a removal: compress_certificate advertises zlib only (the harness can produce real zlib)
			for _, e := range exts {
				if cc, ok := e.(*tls.UtlsCompressCertExtension); ok {
					cc.Algorithms = []tls.CertCompressionAlgo{tls.CertCompressionZlib}
				}
			}
			return exts, nil
		case strings.HasPrefix(it, "v"):
			v := negHex16(it[1:])
			for _, e := range exts {
				if sv, ok := e.(*tls.SupportedVersionsExtension); ok {
					var keep []uint16
					for _, x := range sv.Versions {
						if x != v {
							keep = append(keep, x)
						}
					}
					sv.Versions = keep
				}
			}
		case strings.HasPrefix(it, "g"):
			g, err := strconv.Atoi(it[1:])
			if err != nil {
				return nil, err
			}
			for _, e := range exts {
				switch x := e.(type) {
				case *tls.SupportedCurvesExtension:
					var keep []tls.CurveID
					for _, c := range x.Curves {
						if int(c) != g {
							keep = append(keep, c)
						}
					}
					x.Curves = keep
				case *tls.KeyShareExtension:
					var keep []tls.KeyShare
					for _, k := range x.KeyShares {
						if int(k.Group) != g {
							keep = append(keep, k)
						}
					}
					x.KeyShares = keep
				}
			}
		default:
			return nil, fmt.Errorf("bad drop item %q", it)
		}
	}
	return exts, nil
}

// negExec runs one handshake described by the input tokens (see the generators below).
func negExec(in KV) string {
	id, ok := idByName(in["id"])
	if !ok {
		return "out=bad-id"
	}
	n := &negRun{ops: negParseOps(in["rw"]), hrrRnd: tls.VerifHelloRetryRequestRandom()}
	scfg := &tls.Config{MinVersion: negHex16(in["smin"]), MaxVersion: negHex16(in["smax"])}
	for _, c := range parseU64s(in["curves"]) {
		scfg.CurvePreferences = append(scfg.CurvePreferences, tls.CurveID(c))
	}
	for _, p := range splitList(in["salpn"]) {
		scfg.NextProtos = append(scfg.NextProtos, string(unhex(p)))
	}
	for _, s := range splitList(in["suites"]) {
		scfg.CipherSuites = append(scfg.CipherSuites, negHex16(s))
	}
	if in["cert"] == "rsa" {
		scfg.Certificates = []tls.Certificate{kit().leaf["rsa"]}
	}
	hooks := &tls.VerifServerHooks{
		RewriteHandshake:        n.rewrite,
		LegacyVersionOnly:       in["legacy"] == "1",
		SuppressDowngradeCanary: in["canary"] == "off",
		ForceSuiteTLS13:         negHex16(in["fs13"]),
	}
	curve12 := in["curve12"]
	ccfg := &tls.Config{OmitEmptyPsk: negIsPSKParrot(id), ServerName: "example.golang"}
	if in["seed"] != "" {
		ccfg.Rand = NewRng(in.U64("seed"))
	}
	for _, p := range splitList(in["calpn"]) {
		ccfg.NextProtos = append(ccfg.NextProtos, string(unhex(p)))
	}
	pskSuite := "-"
	if in["resume"] == "1" {
		// one ticket key for both connections (runHS clones the server Config per connection)
		scfg.SetSessionTicketKeys([][32]byte{{1, 2, 3, 4, 5, 6, 7, 8}})
		ccfg.ClientSessionCache = tls.NewLRUClientSessionCache(4)
		// priming connection: obtain a ticket (the echo makes the client read the NewSessionTicket)
		pid, pspec, perr := negSpecFor(id, in["drop"], in["tmin"], in["tmax"])
		if perr != nil {
			return "out=bad-drop msg=" + sanitize(perr.Error())
		}
		if pid != tls.HelloCustom {
			pspec = nil
		}
		prime := runHS(HSOpts{ID: pid, Spec: pspec, ClientCfg: ccfg, ServerCfg: scfg, AppData: []byte("prime")})
		if prime.ClientErr != nil || !prime.EchoOK {
			return "out=skip reason=prime-failed:" + errClass(prime.ClientErr)
		}
		if prime.ClientState.Version != tls.VersionTLS13 {
			return "out=skip reason=resume-below-1.3" // session-id/ticket resumption is C19's subject
		}
		pskSuite = fmt.Sprintf("%04x", prime.ClientState.CipherSuite)
	}
	if in["canary"] == "force" {
		tls.VerifSetForceDowngradeCanary(true)
		defer tls.VerifSetForceDowngradeCanary(false)
	}
	var cfgMin, cfgMax uint16
	var ech bool
	var ecdheG, hybrid int
	kx := "0,0,-,-"
	var raw []byte
	hsID, hsSpec, serr := negSpecFor(id, in["drop"], in["tmin"], in["tmax"])
	if serr != nil {
		return "out=bad-drop msg=" + sanitize(serr.Error())
	}
	// the spec as declared (for the model's SetTLSVers): explicit min/max and every supported_versions list
	var specExts []string
	for _, e := range hsSpec.Extensions {
		if sv, ok := e.(*tls.SupportedVersionsExtension); ok {
			var vs []string
			for _, v := range sv.Versions {
				vs = append(vs, fmt.Sprintf("%04x", v))
			}
			if len(vs) == 0 {
				specExts = append(specExts, "e")
			} else {
				specExts = append(specExts, strings.Join(vs, "."))
			}
		}
	}
	specTok := fmt.Sprintf("spec=%04x,%04x specexts=%s", hsSpec.TLSVersMin, hsSpec.TLSVersMax, joinList(specExts))
	specArg := hsSpec
	if hsID != tls.HelloCustom {
		specArg = nil
	}
	// caller-pinned Config bounds, and an earlier connection that used the same *Config (UClient does
	// not clone it; whatever SetTLSVers / writeToUConn left there is what this connection starts from)
	ccfg.MinVersion, ccfg.MaxVersion = negHex16(in["cmin"]), negHex16(in["cmax"])
	if p := in["prev"]; p != "" {
		pid, ok := idByName(p)
		if !ok {
			return "out=bad-prev"
		}
		u0 := tls.UClient(nullConn{}, ccfg, pid)
		if err := u0.BuildHandshakeState(); err != nil {
			return "out=prepare-error msg=prev:" + sanitize(err.Error())
		}
	}
	edits := splitList(in["edit"])
	res := runHS(HSOpts{ID: hsID, Spec: specArg, ClientCfg: ccfg, ServerCfg: scfg, Hooks: hooks, AppData: []byte("ping"),
		Prepare: func(u *tls.UConn) error {
			if err := u.BuildHandshakeState(); err != nil {
				return err
			}
			if len(edits) > 0 {
				// "edited after build": the caller inspects the built hello, removes extensions from
				// uconn.Extensions and handshakes; Handshake re-applies and re-marshals what is left
				for _, it := range edits {
					exts, err := negDropExt(u.Extensions, it)
					if err != nil {
						return err
					}
					u.Extensions = exts
				}
				if err := u.BuildHandshakeState(); err != nil {
					return err
				}
			}
			cfgMin, cfgMax, ech = tls.VerifConfigVersions(u)
			if ks := u.HandshakeState.State13.KeyShareKeys; ks != nil {
				ecdheG = negCurveIDOf(ks.Ecdhe)
				if ks.Mlkem != nil && ks.MlkemEcdhe != nil {
					hybrid = 1
				}
				kx = negKeySet(ks)
			}
			raw = append([]byte(nil), u.HandshakeState.Hello.Raw...)
			ci, ok := negParseCH(raw)
			if !ok {
				return fmt.Errorf("harness: unparsable ClientHello")
			}
			n.ch = ci
			if curve12 != "" { // resolved against this hello; the hook struct is read by the server later
				g, ok := n.resolveGroup(curve12)
				if !ok {
					n.skip = "curve12-" + curve12
				} else {
					hooks.ForceCurveTLS12 = tls.CurveID(g)
				}
			}
			return nil
		}})
	if res.PrepareErr != nil {
		return "out=prepare-error msg=" + sanitize(res.PrepareErr.Error())
	}
	hellos := clientHellos(res.ClientWire)
	if len(hellos) == 0 || !bytes.Equal(hellos[0], raw) {
		return "out=hello-changed"
	}
	if n.skip != "" {
		return "out=skip reason=" + n.skip
	}
	ch2 := "-"
	if len(hellos) > 1 {
		ch2 = hx(hellos[1])
	}
	state := "-"
	if res.ClientErr == nil {
		cs := res.ClientState
		b2i := func(b bool) int {
			if b {
				return 1
			}
			return 0
		}
		state = fmt.Sprintf("%04x,%04x,%d,%s,%d,%d", cs.Version, cs.CipherSuite, tls.VerifStateCurveID(cs),
			hx([]byte(cs.NegotiatedProtocol)), b2i(cs.DidResume), b2i(tls.VerifStateDidHRR(cs)))
	}
	app := 0
	if res.EchoOK {
		app = 1
	}
	cert := n.cert
	if cert == "" {
		cert = "-"
	}
	ee := n.sentEE
	if ee == "" {
		ee = "-"
	}
	e := 0
	if ech {
		e = 1
	}
	to := 0
	if res.TimedOut {
		to = 1
	}
	// the alert the client put on the wire in plaintext (TLS 1.3 aborts on the ServerHello happen
	// before the client installs handshake keys, so the server — already reading with them — only
	// sees a bad record); later alerts are encrypted and show up as the server's remote error
	calert := "-"
	for _, r := range splitRecords(res.ClientWire) {
		if r.Type == 21 && len(r.Payload) == 2 {
			calert = strconv.Itoa(int(r.Payload[1]))
			break
		}
	}
	// record-layer version the server writes with (header of its first record)
	recv := 0
	if rs := splitRecords(res.ServerWire); len(rs) > 0 {
		recv = int(rs[0].Version)
	}
	return specTok + fmt.Sprintf(" ch=%s ch2=%s cfg=%04x,%04x,%d keys=%d,%d kx=%s psks=%s sh=%s recv=%04x ee=%s cert=%s skx=%d applied=%d cerr=%s calert=%s salert=%s state=%s app=%d timeout=%d",
		hx(raw), ch2, cfgMin, cfgMax, e, ecdheG, hybrid, kx, pskSuite, joinList(n.sentSH), recv, ee, cert, n.skx, n.applied,
		errClass(res.ClientErr), calert, errClass(res.ServerErr), state, app, to)
}

// ---- C12 generator: parrots x adversarial server choices ----

type negMode struct {
	name string // tag
	toks string // server/rewrite tokens
}

// c12Modes: every entry is one adversarial (or control) server behaviour. `13` modes run against a
// TLS 1.3 server, `12` modes against a server capped at TLS 1.2.
var c12Modes = []negMode{
	// controls: nothing rewritten, the server's own (offered) choices
	{"ctl13", "smax=0304"},
	{"ctl12", "smax=0303"},
	{"ctl12rsa", "smax=0303 cert=rsa"},
	{"ctl13-alpn-last", "smax=0304 rw=ee.alpn.last"},
	{"ctl12-alpn-last", "smax=0303 rw=sh.alpn.last"},
	{"ctl13-fs1302", "smax=0304 fs13=1302"},
	{"ctl13-fs1303", "smax=0304 fs13=1303"},
	{"ctl13-hrr-p256", "smax=0304 curves=23"},
	{"ctl13-hrr-p384", "smax=0304 curves=24"},
	{"ctl12-p256", "smax=0303 curves=23"},
	{"ctl12-sid-fresh", "smax=0303 rw=sh.sid.fresh"},
	{"ctl13-zlib", "smax=0304 rw=cert.comp.zlib"},
	{"ctl13-grease-share", "smax=0304 rw=sh.group.grease-same"},
	// cipher suite
	{"suite13-unknown", "smax=0304 rw=sh.suite.unknown"},
	{"suite13-grease-other", "smax=0304 rw=sh.suite.grease-other"},
	{"suite13-grease-same", "smax=0304 rw=sh.suite.grease-same"},
	{"suite13-unoff13", "smax=0304 rw=sh.suite.unoff13"},
	{"suite13-conf12", "smax=0304 rw=sh.suite.conf"},
	{"suite13-unoff12", "smax=0304 rw=sh.suite.unoff12"},
	{"suite12-unknown", "smax=0303 rw=sh.suite.unknown"},
	{"suite12-grease-other", "smax=0303 rw=sh.suite.grease-other"},
	{"suite12-grease-same", "smax=0303 rw=sh.suite.grease-same"},
	{"suite12-conf13", "smax=0303 rw=sh.suite.conf"},
	{"suite12-unoff12", "smax=0303 rw=sh.suite.unoff12"},
	{"suite12-unoff13", "smax=0303 rw=sh.suite.unoff13"},
	{"suite13-hrr-unknown", "smax=0304 curves=24 rw=hrr.suite.unknown"},
	{"suite13-hrr-changed", "smax=0304 curves=24 fs13=1301 rw=hrr.suite.1302"},
	// key-exchange group
	{"group13-unlisted", "smax=0304 rw=sh.group.unlisted"},
	{"group13-noshare", "smax=0304 rw=sh.group.noshare"},
	{"group13-grease-other", "smax=0304 rw=sh.group.grease-other"},
	{"group13-hrr-unlisted", "smax=0304 curves=24 rw=hrr.group.unlisted"},
	{"group13-hrr-shared", "smax=0304 curves=24 rw=hrr.group.shared"},
	{"group13-hrr-grease-other", "smax=0304 curves=24 rw=hrr.group.grease-other"},
	{"group13-hrr-grease-same", "smax=0304 curves=24 rw=hrr.group.grease-same"},
	{"group13-afterhrr-orig", "smax=0304 curves=24 rw=sh.group.shared"},
	{"group13-afterhrr-unlisted", "smax=0304 curves=24 rw=sh.group.unlisted"},
	{"group12-unlisted", "smax=0303 curve12=unlisted"},
	{"group12-listed", "smax=0303 curve12=0017"},
	{"group11-unlisted", "smax=0302 legacy=1 curve12=unlisted"},
	// ALPN
	{"alpn13-foreign", "smax=0304 rw=ee.alpn.foreign"},
	{"alpn13-prefix", "smax=0304 rw=ee.alpn.prefix"},
	{"alpn13-case", "smax=0304 rw=ee.alpn.case"},
	{"alpn13-in-sh", "smax=0304 rw=sh.alpn.last"},
	{"alpn12-foreign", "smax=0303 rw=sh.alpn.foreign"},
	{"alpn12-prefix", "smax=0303 rw=sh.alpn.prefix"},
	{"alpn12-case", "smax=0303 rw=sh.alpn.case"},
	{"alpn13-cfg-foreign", "smax=0304 calpn=7a7a2d7665726966 rw=ee.alpn.foreign"},
	{"alpn12-cfg-foreign", "smax=0303 calpn=7a7a2d7665726966 rw=sh.alpn.foreign"},
	// compression method
	{"comp13-1", "smax=0304 rw=sh.comp.1"},
	{"comp13-64", "smax=0304 rw=sh.comp.64"},
	{"comp12-1", "smax=0303 rw=sh.comp.1"},
	{"comp12-255", "smax=0303 rw=sh.comp.255"},
	// PSK identity
	{"psk13-0", "smax=0304 rw=sh.psk.over0"},
	{"psk13-1", "smax=0304 rw=sh.psk.over1"},
	{"psk13-big", "smax=0304 rw=sh.psk.65535"},
	{"psk13-resumed-over", "smax=0304 resume=1 rw=sh.psk.over0"},
	{"psk13-resumed-over7", "smax=0304 resume=1 rw=sh.psk.over7"},
	{"ctl13-resumed", "smax=0304 resume=1"},
	// certificate compression
	{"cc13-unadv", "smax=0304 rw=cert.comp.unadv"},
	{"cc13-bogus", "smax=0304 rw=cert.comp.bogus"},
	{"cc13-grease", "smax=0304 rw=cert.comp.grease"},
	{"cc13-adv-garbage", "smax=0304 rw=cert.comp.adv-garbage"},
	// legacy session id echo
	{"sid13-flip", "smax=0304 rw=sh.sid.flip"},
	{"sid13-empty", "smax=0304 rw=sh.sid.empty"},
	{"sid13-trunc", "smax=0304 rw=sh.sid.trunc"},
	{"sid13-fresh", "smax=0304 rw=sh.sid.fresh"},
	{"sid13-hrr-flip", "smax=0304 curves=24 rw=hrr.sid.flip"},
	{"sid13-afterhrr-flip", "smax=0304 curves=24 rw=sh.sid.flip"},
	// custom specs derived from each parrot (HelloCustom + ApplyPreset): something is removed from the
	// spec, then the server selects exactly that — implemented by the library, but no longer offered
	{"custom13-ctl", "smax=0304 drop=s1302,s1303"},
	{"custom13-suite-dropped", "smax=0304 drop=s1302,s1303 rw=sh.suite.1302"},
	{"custom12-suite-dropped", "smax=0303 drop=sc02f,sc02b,sc030,sc02c rw=sh.suite.unoff12"},
	{"custom13-group-dropped", "smax=0304 drop=g23 rw=sh.group.0017"},
	{"custom13-hrr-group-dropped", "smax=0304 curves=24 drop=g23 rw=hrr.group.0017"},
	{"custom12-curve-dropped", "smax=0303 drop=g23 curve12=0017"},
	{"custom13-noalpn-foreign", "smax=0304 drop=alpn calpn=7a7a2d7665726966 rw=ee.alpn.foreign"},
	{"custom12-noalpn-foreign", "smax=0303 drop=alpn calpn=7a7a2d7665726966 rw=sh.alpn.foreign"},
	{"custom13-nocc-zlib", "smax=0304 drop=cc rw=cert.comp.zlib"},
	// edited after build: BuildHandshakeState, then an extension whose writeToUConn caches state in the
	// UConn / Hello is removed from uconn.Extensions, then Handshake; the server selects the removed value
	{"edit13-cc-ctl", "smax=0304 edit=cc"},
	{"edit13-cc-zlib", "smax=0304 edit=cc rw=cert.comp.zlib"},
	{"edit13-cc-unadv", "smax=0304 edit=cc rw=cert.comp.unadv"},
	{"custom13-cz-zlib", "smax=0304 drop=cz rw=cert.comp.zlib"},
	{"edit13-cz-cc-zlib", "smax=0304 drop=cz edit=cc rw=cert.comp.zlib"},
	{"edit13-alpn-ctl", "smax=0304 edit=alpn"},
	{"edit13-alpn-h2", "smax=0304 edit=alpn rw=ee.alpn.x6832"},
	{"edit12-alpn-h2", "smax=0303 edit=alpn rw=sh.alpn.x6832"},
	{"edit13-alpn-cc-h2", "smax=0304 edit=alpn,cc rw=ee.alpn.x6832"},
	{"edit12-sg-p256", "smax=0303 edit=sg curve12=0017"},
	// two at once (first failing check decides the alert)
	{"combo13-suite-sid", "smax=0304 rw=sh.suite.unknown+sh.sid.flip"},
	{"combo13-comp-group", "smax=0304 rw=sh.comp.1+sh.group.unlisted"},
	{"combo12-suite-comp", "smax=0303 rw=sh.suite.unknown+sh.comp.1"},
	{"combo12-comp-alpn", "smax=0303 rw=sh.comp.1+sh.alpn.foreign"},
}

// negGen enumerates the grid modes x parrot ids (mode-major, so a truncated run still touches every
// id for the first modes); every case draws its own client Config.Rand seed from the run's Rng, so
// VERIF_SEED changes the GREASE values, session ids and key shares of every hello. The thorough
// tier repeats the grid four times with fresh seeds.
func negGen(modes []negMode) func(r *Rng, i int, tier string) string {
	return func(r *Rng, i int, tier string) string {
		total := len(parrotIDs) * len(modes)
		if i >= total && (tier != "thorough" || i >= 4*total) {
			return ""
		}
		k := i % total
		id := parrotIDs[k%len(parrotIDs)]
		m := modes[k/len(parrotIDs)]
		return fmt.Sprintf("id=%s mode=%s seed=%d %s", idName(id), m.name, r.U64()>>1, m.toks)
	}
}

func init() {
	register(&Family{Name: "c12_hs", Gen: negGen(c12Modes), Exec: negExec})
}
