package main

// c12_quic — the C12 grid over QUIC: a real UQUICClient (HelloGolang, and every TLS 1.3 parrot adapted
// for QUIC by c23BuildSpec) pumped single-threaded against a real tls.QUICServer whose outgoing
// handshake messages go through the same symbolic rewrite engine as c12_hs (negRun). A QUIC
// ClientHello carries an *empty* legacy_session_id (RFC 9001, Section 8.4), so "does not echo the
// legacy session ID" here means a ServerHello / HelloRetryRequest with any non-empty one.
//
// The QUIC server connection has no net.Conn; the verif hook table is keyed by the server's
// underlying conn, so the hooks are registered under the nil key for the duration of one case
// (cases run sequentially).
//
// Output tokens are those of negExec (the Lean driver evaluates both with the same code) plus
// quic=1 (the model's quic flag), golang=1 / nospec=1 for HelloGolang (no spec, no SetTLSVers).
// There is no record layer (recv is the constant 0303), alerts surface as the AlertError wrapped
// in the error HandleData returns, app=1 means both sides reported QUICHandshakeDone.

import (
	"context"
	"errors"
	"fmt"
	"strconv"
	"strings"
	"time"

	tls "github.com/refraction-networking/utls"
)

type negQMsg struct {
	level tls.QUICEncryptionLevel
	data  []byte
}

func negQUICExec(in KV) string {
	name := in["id"]
	golang := name == "Golang-0"
	n := &negRun{ops: negParseOps(in["rw"]), hrrRnd: tls.VerifHelloRetryRequestRandom()}
	cfg := &tls.Config{ServerName: "example.golang", RootCAs: kit().pool, MinVersion: tls.VersionTLS13}
	if in["seed"] != "" {
		cfg.Rand = NewRng(in.U64("seed"))
	}
	tp := []byte{0x04, 0x04, 0x80, 0x10, 0x00, 0x00, 0x0f, 0x00}
	var cli *tls.UQUICConn
	specTok := "spec=0000,0000 specexts=- nospec=1 golang=1"
	if golang {
		cfg.NextProtos = []string{"h3"}
		cli = tls.UQUICClient(&tls.QUICConfig{TLSConfig: cfg}, tls.HelloGolang)
		cli.SetTransportParameters(tp)
	} else {
		if _, ok := idByName(name); !ok {
			return "out=bad-id"
		}
		spec, err := c23BuildSpec("q-"+name, 0, []string{"h3"}, true)
		if err != nil {
			return "out=skip reason=no-quic-spec"
		}
		var specExts []string
		for _, e := range spec.Extensions {
			if sv, ok := e.(*tls.SupportedVersionsExtension); ok {
				var vs []string
				for _, v := range sv.Versions {
					vs = append(vs, fmt.Sprintf("%04x", v))
				}
				if len(vs) == 0 {
					specExts = append(specExts, "e")
				} else {
					specExts = append(specExts, strings.Join(vs, "."))
				}
			}
		}
		specTok = fmt.Sprintf("spec=%04x,%04x specexts=%s", spec.TLSVersMin, spec.TLSVersMax, joinList(specExts))
		cli = tls.UQUICClient(&tls.QUICConfig{TLSConfig: cfg}, tls.HelloCustom)
		if err := cli.ApplyPreset(spec); err != nil {
			return "out=prepare-error msg=" + sanitize(err.Error())
		}
	}
	scfg := &tls.Config{
		Certificates: []tls.Certificate{kit().leaf["ecdsa"], kit().leaf["rsa"]},
		MinVersion:   tls.VersionTLS13,
		NextProtos:   []string{"h3"},
	}
	for _, c := range parseU64s(in["curves"]) {
		scfg.CurvePreferences = append(scfg.CurvePreferences, tls.CurveID(c))
	}
	srv := tls.QUICServer(&tls.QUICConfig{TLSConfig: scfg})
	srv.SetTransportParameters(tp)
	hooks := &tls.VerifServerHooks{RewriteHandshake: n.rewrite, ForceSuiteTLS13: negHex16(in["fs13"])}
	tls.VerifSetServerHooks(nil, hooks)
	defer tls.VerifSetServerHooks(nil, nil)

	ctx, cancel := context.WithTimeout(context.Background(), 8*time.Second)
	defer cancel()
	var cerr, serr error
	if err := cli.Start(ctx); err != nil {
		cerr = err
	}
	defer cli.Close()
	if err := srv.Start(ctx); err != nil {
		serr = err
	}
	defer srv.Close()

	u := tls.VerifUQUICUConn(cli)
	cfgMin, cfgMax, ech := tls.VerifConfigVersions(u)
	var ecdheG, hybrid int
	kx := "0,0,-,-"
	if ks := u.HandshakeState.State13.KeyShareKeys; ks != nil {
		ecdheG = negCurveIDOf(ks.Ecdhe)
		if ks.Mlkem != nil && (golang || ks.MlkemEcdhe != nil) {
			hybrid = 1
		}
		kx = negKeySet(ks)
	}

	var hellos [][]byte
	cDone, sDone := false, false
	var toServer, toClient []negQMsg
	for iter := 0; iter < 40; iter++ {
		progressed := false
		for {
			e := cli.NextEvent()
			if e.Kind == tls.QUICNoEvent {
				break
			}
			progressed = true
			switch e.Kind {
			case tls.QUICWriteData:
				d := append([]byte(nil), e.Data...)
				if e.Level == tls.QUICEncryptionLevelInitial && len(d) > 0 && d[0] == 1 {
					hellos = append(hellos, d)
					if len(hellos) == 1 {
						ci, ok := negParseCH(d)
						if !ok {
							return "out=unparsable-client-hello"
						}
						n.ch = ci
					}
				}
				toServer = append(toServer, negQMsg{e.Level, d})
			case tls.QUICTransportParametersRequired:
				cli.SetTransportParameters(tp)
			case tls.QUICHandshakeDone:
				cDone = true
			}
		}
		for _, m := range toServer {
			if serr == nil {
				if err := srv.HandleData(m.level, m.data); err != nil {
					serr = err
				}
			}
		}
		toServer = nil
		for {
			e := srv.NextEvent()
			if e.Kind == tls.QUICNoEvent {
				break
			}
			progressed = true
			switch e.Kind {
			case tls.QUICWriteData:
				toClient = append(toClient, negQMsg{e.Level, append([]byte(nil), e.Data...)})
			case tls.QUICHandshakeDone:
				sDone = true
			}
		}
		for _, m := range toClient {
			if cerr == nil {
				if err := cli.HandleData(m.level, m.data); err != nil {
					cerr = err
				}
			}
		}
		toClient = nil
		if !progressed {
			break
		}
	}
	if len(hellos) == 0 {
		return "out=no-client-hello cerr=" + errClass(cerr)
	}
	if n.skip != "" {
		return "out=skip reason=" + n.skip
	}
	completed := cerr == nil && cDone
	if cerr == nil && !cDone && serr != nil {
		// the server gave up and nothing more will arrive: the client never completes
		cerr = fmt.Errorf("server-aborted: %v", serr)
	}
	ch2 := "-"
	if len(hellos) > 1 {
		ch2 = hx(hellos[1])
	}
	state := "-"
	if completed {
		cs := cli.ConnectionState()
		b2i := func(b bool) int {
			if b {
				return 1
			}
			return 0
		}
		state = fmt.Sprintf("%04x,%04x,%d,%s,%d,%d", cs.Version, cs.CipherSuite, tls.VerifStateCurveID(cs),
			hx([]byte(cs.NegotiatedProtocol)), b2i(cs.DidResume), b2i(tls.VerifStateDidHRR(cs)))
	}
	calert := "-"
	var ae tls.AlertError
	if cerr != nil && errors.As(cerr, &ae) {
		calert = strconv.Itoa(int(uint8(ae)))
	}
	cclass := "ok"
	if !completed {
		cclass = "err:" + sanitize(fmt.Sprint(cerr))
		if cerr == nil {
			cclass = "err:handshake-did-not-complete"
		}
	}
	app := 0
	if completed && sDone {
		app = 1
	}
	cert := n.cert
	if cert == "" {
		cert = "-"
	}
	ee := n.sentEE
	if ee == "" {
		ee = "-"
	}
	e := 0
	if ech {
		e = 1
	}
	return specTok + fmt.Sprintf(" quic=1 ch=%s ch2=%s cfg=%04x,%04x,%d keys=%d,%d kx=%s psks=- sh=%s recv=0303 ee=%s cert=%s skx=0 applied=%d cerr=%s calert=%s salert=%s state=%s app=%d timeout=0",
		hx(hellos[0]), ch2, cfgMin, cfgMax, e, ecdheG, hybrid, kx, joinList(n.sentSH), ee, cert, n.applied,
		cclass, calert, errClass(serr), state, app)
}

var negQUICModes = []negMode{
	{"q-ctl", ""},
	{"q-ctl-hrr", "curves=24"},
	{"q-ctl-fs1303", "fs13=1303"},
	// the legacy session id: the hello's is empty, the server's is not
	{"q-sid-fresh", "rw=sh.sid.fresh"},
	{"q-sid-one", "rw=sh.sid.flip"},
	{"q-hrr-sid-fresh", "curves=24 rw=hrr.sid.fresh"},
	{"q-afterhrr-sid-fresh", "curves=24 rw=sh.sid.fresh"},
	// the other selections, over QUIC
	{"q-suite-unknown", "rw=sh.suite.unknown"},
	{"q-suite-conf12", "rw=sh.suite.conf"},
	{"q-group-unlisted", "rw=sh.group.unlisted"},
	{"q-hrr-group-shared", "curves=24 rw=hrr.group.shared"},
	{"q-alpn-foreign", "rw=ee.alpn.foreign"},
	{"q-comp-1", "rw=sh.comp.1"},
	{"q-psk-0", "rw=sh.psk.over0"},
	{"q-cc-unadv", "rw=cert.comp.unadv"},
}

func negQUICClients() []string {
	out := []string{"Golang-0"}
	for _, n := range c23ParrotNames() {
		out = append(out, strings.TrimPrefix(n, "q-"))
	}
	return out
}

func negQUICGen(r *Rng, i int, tier string) string {
	clients := negQUICClients()
	total := len(clients) * len(negQUICModes)
	if i >= total && (tier != "thorough" || i >= 4*total) {
		return ""
	}
	k := i % total
	m := negQUICModes[k/len(clients)]
	return strings.TrimSpace(fmt.Sprintf("id=%s mode=%s seed=%d %s", clients[k%len(clients)], m.name, r.U64()>>1, m.toks))
}

func init() {
	register(&Family{Name: "c12_quic", Gen: negQUICGen, Exec: negQUICExec})
}
