package main

// C13: the client never settles on a protocol version its on-wire ClientHello did not advertise.
//
//   c13_hs      — the C12 engine (negExec) with servers that cap / ignore / confuse the version:
//                 MaxVersion 1.0–1.3, negotiation from legacy_version only (LegacyVersionOnly hook),
//                 downgrade canary forced / suppressed, and ServerHellos whose legacy_version or
//                 supported_versions field is rewritten to something the hello never advertised.
//   c13_setvers — UConn.SetTLSVers on generated (min, max, supported_versions) triples: resulting
//                 Config.MinVersion/MaxVersion, Hello.SupportedVersions or the error.

import (
	"fmt"
	"net"
	"strings"

	tls "github.com/refraction-networking/utls"
)

var c13Modes = []negMode{
	// well-behaved servers capped at each version (negotiate from supported_versions when present)
	{"max13", "smax=0304"},
	{"max12", "smax=0303"},
	{"max11", "smax=0302"},
	{"max10", "smax=0301"},
	{"min13", "smin=0304 smax=0304"},
	// legacy servers: negotiate from legacy_version only, ignoring supported_versions
	{"legacy13", "smax=0304 legacy=1"},
	{"legacy13-nocanary", "smax=0304 legacy=1 canary=off"},
	{"legacy12", "smax=0303 legacy=1"},
	{"legacy12-canary", "smax=0303 legacy=1 canary=force"},
	{"legacy11", "smax=0302 legacy=1"},
	{"legacy11-canary", "smax=0302 legacy=1 canary=force"},
	{"legacy11-nocanary", "smax=0302 legacy=1 canary=off"},
	{"legacy10", "smax=0301 legacy=1"},
	{"legacy10-canary", "smax=0301 legacy=1 canary=force"},
	{"max12-canary", "smax=0303 canary=force"},
	{"max11-canary", "smax=0302 canary=force"},
	// ServerHello version fields rewritten to values the hello did not advertise
	{"sv-0305", "smax=0304 rw=sh.sv.0305"},
	{"sv-7f1c", "smax=0304 rw=sh.sv.7f1c"},
	{"sv-grease-other", "smax=0304 rw=sh.sv.grease-other"},
	{"sv-grease-same", "smax=0304 rw=sh.sv.grease-same"},
	{"sv-0300", "smax=0304 rw=sh.sv.0300"},
	{"sv13-to-12", "smax=0304 rw=sh.sv.0303"},
	{"sv13-to-11", "smax=0304 rw=sh.sv.0302"},
	{"sv13-none", "smax=0304 rw=sh.sv.none"},
	{"sv13-legacy-field", "smax=0304 rw=sh.sv.none+sh.lv.0304"},
	{"sv13-lv-0302", "smax=0304 rw=sh.lv.0302"},
	{"sv-hrr-0305", "smax=0304 curves=24 rw=hrr.sv.0305"},
	{"sv-afterhrr-0303", "smax=0304 curves=24 rw=sh.sv.0303"},
	{"lv12-0300", "smax=0303 rw=sh.lv.0300"},
	{"lv12-0304", "smax=0303 rw=sh.lv.0304"},
	{"lv12-unadv", "smax=0303 rw=sh.lv.unadv"},
	{"lv12-unadv-low", "smax=0303 rw=sh.lv.unadv-low"},
	{"sv12-0304", "smax=0303 rw=sh.sv.0304"},
	{"sv12-unadv", "smax=0303 rw=sh.sv.unadv"},
	{"sv12-unadv-low", "smax=0303 rw=sh.sv.unadv-low"},
	{"sv12-grease-same", "smax=0303 rw=sh.sv.grease-same"},
	{"lv11-unadv-low", "smax=0302 legacy=1 rw=sh.lv.unadv-low"},
	// custom specs derived from each parrot: supported_versions entries removed while the spec's
	// explicit TLSVersMin/TLSVersMax (or the min..max range SetTLSVers derives) still cover them
	{"custom-only13-max13", "smax=0304 drop=v0303,v0302,v0301"},
	{"custom-only13-legacy12", "smax=0303 legacy=1 drop=v0303,v0302,v0301"},
	{"custom-gap11-legacy11", "smax=0302 legacy=1 drop=v0302"},
	{"custom-gap12-legacy12", "smax=0303 legacy=1 canary=off drop=v0303"},
	// custom specs without supported_versions (the hello advertises spec minimum .. legacy_version)
	{"nosv-10-12-legacy10", "drop=sv tmin=0301 tmax=0303 smax=0301 legacy=1"},
	{"nosv-10-12-legacy11", "drop=sv tmin=0301 tmax=0303 smax=0302 legacy=1"},
	{"nosv-10-12-legacy12", "drop=sv tmin=0301 tmax=0303 smax=0303 legacy=1"},
	{"nosv-12-12-legacy11", "drop=sv tmin=0303 tmax=0303 smax=0302 legacy=1"},
	{"nosv-11-12-max10", "drop=sv tmin=0302 tmax=0303 smax=0301"},
	{"nosv-10-11-max12", "drop=sv tmin=0301 tmax=0302 smax=0303"},
	// the caller pinned Config.MinVersion/MaxVersion (below / above / inside the spec range): the spec wins
	{"pin-min10-nosv12-legacy11", "cmin=0301 drop=sv tmin=0303 tmax=0303 smax=0302 legacy=1"},
	{"pin-min10-nosv12-legacy10", "cmin=0301 drop=sv tmin=0303 tmax=0303 smax=0301 legacy=1"},
	{"pin-min10-max12-nosv12-max12", "cmin=0301 cmax=0303 drop=sv tmin=0303 tmax=0303 smax=0303"},
	{"pin-min12-legacy11", "cmin=0303 smax=0302 legacy=1"},
	{"pin-max12-max13", "cmax=0303 smax=0304"},
	{"pin-13only-max12", "cmin=0304 cmax=0304 smax=0303"},
	{"pin-min10-legacy10", "cmin=0301 cmax=0304 smax=0301 legacy=1"},
	// the same *Config was used by an earlier connection with another id (UClient does not clone it)
	{"reuse-ff102-nosv12-legacy11", "prev=Firefox-102 drop=sv tmin=0303 tmax=0303 smax=0302 legacy=1"},
	{"reuse-ff102-legacy10", "prev=Firefox-102 smax=0301 legacy=1"},
	{"reuse-chrome133-legacy11", "prev=Chrome-133 smax=0302 legacy=1"},
	{"reuse-chrome58-max13", "prev=Chrome-58 smax=0304"},
	// supported_versions removed from uconn.Extensions after BuildHandshakeState
	{"edit-sv-max13", "smax=0304 edit=sv"},
	{"edit-sv-sh13", "smax=0304 edit=sv rw=sh.sv.0304"},
	{"edit-sv-legacy11", "smax=0302 legacy=1 edit=sv"},
}

// nullConn is a net.Conn that is never used for I/O (SetTLSVers needs a UConn, not a connection).
type nullConn struct{ net.Conn }

func c13SetVersGen(r *Rng, i int, tier string) string {
	versPool := []uint16{0, 0x0300, 0x0301, 0x0302, 0x0303, 0x0304, 0x0305, 0x0a0a, 0x7a7a, 0x0201, 0xffff}
	pick := func() uint16 {
		if r.Intn(8) == 0 {
			return uint16(r.U64())
		}
		return versPool[r.Intn(len(versPool))]
	}
	var mn, mx uint16
	switch r.Intn(4) {
	case 0: // both unset: derive from the extension
	case 1:
		mn, mx = pick(), pick()
	default:
		mn, mx = []uint16{0x0301, 0x0302, 0x0303, 0x0304}[r.Intn(4)], []uint16{0x0301, 0x0302, 0x0303, 0x0304}[r.Intn(4)]
		if r.Intn(6) == 0 {
			mn = 0
		}
		if r.Intn(6) == 0 {
			mx = 0
		}
	}
	next := r.Intn(8) // number of SupportedVersionsExtension values in the spec: mostly 1, sometimes 0 or 2
	nexts := 1
	if next == 0 {
		nexts = 0
	} else if next == 1 {
		nexts = 2
	}
	var exts []string
	for e := 0; e < nexts; e++ {
		n := []int{0, 1, 1, 2, 2, 3, 4, 5}[r.Intn(8)]
		var vs []string
		for k := 0; k < n; k++ {
			vs = append(vs, fmt.Sprintf("%04x", pick()))
		}
		if len(vs) == 0 {
			exts = append(exts, "e")
		} else {
			exts = append(exts, strings.Join(vs, "."))
		}
	}
	ech := 0
	if r.Intn(10) == 0 {
		ech = 1
	}
	// what the Config held before the call (a caller-pinned bound, or a previous connection's range)
	var c0min, c0max uint16
	if r.Intn(2) == 0 {
		c0min, c0max = versPool[r.Intn(6)], versPool[r.Intn(6)]
	}
	return fmt.Sprintf("min=%04x max=%04x exts=%s ech=%d cfg0=%04x,%04x", mn, mx, joinList(exts), ech, c0min, c0max)
}

func c13SetVersExec(in KV) string {
	cfg := &tls.Config{ServerName: "example.golang"}
	if c0 := splitList(in["cfg0"]); len(c0) == 2 {
		cfg.MinVersion, cfg.MaxVersion = negHex16(c0[0]), negHex16(c0[1])
	}
	if in["ech"] == "1" {
		cfg.EncryptedClientHelloConfigList = []byte{0}
	}
	u := tls.UClient(nullConn{}, cfg, tls.HelloCustom)
	var exts []tls.TLSExtension
	exts = append(exts, &tls.SNIExtension{})
	for _, e := range splitList(in["exts"]) {
		sv := &tls.SupportedVersionsExtension{}
		if e != "e" {
			for _, v := range strings.Split(e, ".") {
				sv.Versions = append(sv.Versions, negHex16(v))
			}
		}
		exts = append(exts, sv)
	}
	err := u.SetTLSVers(negHex16(in["min"]), negHex16(in["max"]), exts)
	if err != nil {
		cls := "other"
		switch {
		case strings.Contains(err.Error(), "invalid Versions field"):
			cls = "invalid-versions"
		case strings.Contains(err.Error(), "separate SupportedVersions"):
			cls = "multiple-exts"
		case strings.Contains(err.Error(), "as min version"):
			cls = "bad-min"
		case strings.Contains(err.Error(), "as max version"):
			cls = "bad-max"
		}
		return "err=" + cls
	}
	mn, mx, _ := tls.VerifConfigVersions(u)
	sv := u.HandshakeState.Hello.SupportedVersions
	var svs []string
	for k, v := range sv {
		if k >= 6 {
			break
		}
		svs = append(svs, fmt.Sprintf("%04x", v))
	}
	var cs []string
	for _, v := range tls.VerifClientSupportedVersions(u) {
		cs = append(cs, fmt.Sprintf("%04x", v))
	}
	return fmt.Sprintf("err=- cfg=%04x,%04x svlen=%d svhead=%s accepts=%s", mn, mx, len(sv), joinList(svs), joinList(cs))
}

func init() {
	register(&Family{Name: "c13_hs", Gen: negGen(c13Modes), Exec: negExec})
	register(&Family{Name: "c13_setvers", Gen: c13SetVersGen, Exec: c13SetVersExec})
}
