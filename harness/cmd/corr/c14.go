package main

// C14 — server certificates are verified exactly as the Config requests.
//
// Family cert_hs: real handshakes over the grid
//   leaf kind {valid, wrongname, untrusted, expired, notyet} x name settings (ServerName,
//   InsecureServerNameToVerify in {unset, "*", a name}) x InsecureSkipVerify x InsecureSkipTimeVerify
//   x {fresh, resumed over a shared cache} x {no ECH, ECH accepted, ECH rejected} x ids x TLS 1.2/1.3.
// x509 is the oracle: for the presented leaf the harness asks Go's crypto/x509 directly (same roots)
// for every (name, time) the model may plan, and prints the table; the model turns the Config into a
// plan, looks the plan up and predicts accept / certificate error / ECHRejectionError / resumed.

import (
	"crypto/ecdsa"
	"crypto/elliptic"
	crand "crypto/rand"
	"crypto/x509"
	"crypto/x509/pkix"
	"fmt"
	"math/big"
	"net"
	"sort"
	"strings"
	"sync"
	"time"

	tls "github.com/refraction-networking/utls"
)

var (
	c14Mu        sync.Mutex
	c14Key       *ecdsa.PrivateKey
	c14BadCA     *x509.Certificate
	c14BadCAKey  *ecdsa.PrivateKey
	c14Leaves          = map[string]tls.Certificate{}
	c14Serial    int64 = 5000
	c14FutureDur       = 400 * 24 * time.Hour
)

// kindLeaf returns a leaf of the given kind valid for names (cached).
func kindLeaf(kind string, names []string) tls.Certificate {
	c14Mu.Lock()
	defer c14Mu.Unlock()
	key := kind + ":" + strings.Join(names, "+")
	if c, ok := c14Leaves[key]; ok {
		return c
	}
	if c14Key == nil {
		c14Key, _ = ecdsa.GenerateKey(elliptic.P256(), crand.Reader)
		c14BadCA, c14BadCAKey = mkCA("verif untrusted CA")
	}
	k := kit()
	now := time.Now()
	nb, na := now.Add(-24*time.Hour), now.Add(365*24*time.Hour)
	ca, caKey := k.caCert, k.caKey
	switch kind {
	case "untrusted":
		ca, caKey = c14BadCA, c14BadCAKey
	case "expired":
		nb, na = now.Add(-72*time.Hour), now.Add(-48*time.Hour)
	case "notyet":
		nb, na = now.Add(48*time.Hour), now.Add(72*time.Hour)
	}
	c14Serial++
	// names that are IP literals become IP SANs; no other IP SAN (so an IP-literal ServerName can mismatch)
	tmpl := &x509.Certificate{
		SerialNumber: big.NewInt(c14Serial),
		Subject:      pkix.Name{CommonName: names[0], Organization: []string{"verif"}},
		NotBefore:    nb, NotAfter: na,
		KeyUsage:    x509.KeyUsageDigitalSignature | x509.KeyUsageKeyEncipherment,
		ExtKeyUsage: []x509.ExtKeyUsage{x509.ExtKeyUsageServerAuth},
	}
	for _, n := range names {
		if ip := net.ParseIP(n); ip != nil {
			tmpl.IPAddresses = append(tmpl.IPAddresses, ip)
		} else {
			tmpl.DNSNames = append(tmpl.DNSNames, n)
		}
	}
	der, err := x509.CreateCertificate(crand.Reader, tmpl, ca, &c14Key.PublicKey, caKey)
	if err != nil {
		panic(err)
	}
	c := tls.Certificate{Certificate: [][]byte{der}, PrivateKey: c14Key}
	c14Leaves[key] = c
	return c
}

const (
	c14Secret = "secret.hidden.test"
	c14Public = "public.verif.test"
)

var c14IDs = []struct {
	name         string
	v12, v13, ec bool // supports 1.2 / 1.3 / real ECH
}{
	{"Golang-0", true, true, true},
	{"Chrome-133", true, true, true},
	{"Firefox-120", true, true, true},
	{"Chrome-120", true, true, true},
	{"Chrome-100", true, true, false},
	{"Chrome-112_PSK", true, true, false},
	{"Firefox-105", true, true, false},
	{"iOS-14", true, true, false},
	{"Chrome-58", true, false, false},
	{"Firefox-55", true, false, false},
	{"Safari-16.0", true, true, false},
	{"Edge-106", true, true, false},
	{"Chrome-100_PSK", true, true, false},
	{"Chrome-115_PQ_PSK", true, true, false},
}

// ids whose spec lets a TLS 1.3 session be resumed (pre_shared_key slot) or crypto/tls itself
var c14Resumers = []int{0, 0, 0, 5, 5, 12, 13}

func genCertHS(r *Rng, i int, tier string) string {
	idx := c14IDs[i%len(c14IDs)]
	wantResume := r.Intn(5) < 2
	if wantResume && r.Intn(10) < 6 {
		idx = c14IDs[Pick(r, c14Resumers)]
	}
	ech := "none"
	if idx.ec {
		ech = Pick(r, []string{"none", "acc", "rej", "rej"})
	}
	vers := 13
	if ech == "none" {
		switch {
		case !idx.v13:
			vers = 12
		case r.Bool():
			vers = 12
		}
	}
	kind := Pick(r, []string{"valid", "valid", "wrongname", "wrongname", "untrusted", "expired", "notyet"})
	// incl. an IP literal: the ClientHello then carries no SNI, the verification name stays ServerName
	sn := Pick(r, []string{"example.golang", "verif.test", "host.verif.test", "127.0.0.1", "127.0.0.1"})
	if ech != "none" {
		sn = c14Secret
	}
	nosni := ech == "none" && idx.name != "Golang-0" && r.Intn(5) == 0
	// names the leaf is valid for
	var names []string
	switch ech {
	case "none":
		names = []string{"example.golang", "verif.test", "*.verif.test", "localhost", "127.0.0.1"}
		if kind == "wrongname" {
			names = Pick(r, [][]string{{"other.invalid"}, {"other.invalid", "127.0.0.9"}})
		}
	case "acc":
		names = []string{c14Secret, "localhost"}
		if kind == "wrongname" {
			names = Pick(r, [][]string{{"other.invalid"}, {c14Public}})
		}
	case "rej":
		names = []string{c14Public, "localhost"}
		if kind == "wrongname" {
			names = Pick(r, [][]string{{"other.invalid"}, {c14Secret}, {c14Secret}})
		}
	}
	nv := Pick(r, []string{"-", "-", "-", "*", "other.invalid", "localhost"})
	if ech == "rej" && r.Intn(4) != 0 {
		nv = "-"
	}
	skipv, skipt := r.Intn(4) == 0, r.Intn(3) == 0
	mode, first, t2 := "fresh", "-", "now"
	if ech != "rej" && wantResume {
		mode = "resumed"
		first = Pick(r, []string{"same", "skipv", "star", "skipt", "starskipt", "skipvt"})
		if r.Intn(4) == 0 {
			t2 = "future"
		}
	} else if r.Intn(12) == 0 {
		t2 = "future"
	}
	return fmt.Sprintf("id=%s vers=%d ech=%s leaf=%s:%s sn=%s nv=%s skipv=%s skipt=%s mode=%s first=%s t2=%s ks=%d nosni=%s",
		idx.name, vers, ech, kind, strings.Join(names, "+"), sn, nv, b2i(skipv), b2i(skipt), mode, first, t2, r.U64()>>1, b2i(nosni))
}

// x509Oracle: does the leaf verify against the kit roots for name at time t (the question the
// client's x509.VerifyOptions ask; "" = no host name check)?
func x509Oracle(leaf *x509.Certificate, name string, t time.Time) bool {
	_, err := leaf.Verify(x509.VerifyOptions{Roots: kit().pool, CurrentTime: t, DNSName: name, Intermediates: x509.NewCertPool()})
	return err == nil
}

func execCertHS(in KV) string {
	id, ok := idByName(in["id"])
	if !ok {
		return "out=bad-id"
	}
	lp := strings.SplitN(in["leaf"], ":", 2)
	kind, names := lp[0], strings.Split(lp[1], "+")
	leaf := kindLeaf(kind, names)
	leafX, _ := x509.ParseCertificate(leaf.Certificate[0])
	sn, nvTok, ech := in["sn"], in["nv"], in["ech"]
	nv := nvTok
	if nv == "-" {
		nv = ""
	}
	now := time.Now()
	t2 := now
	if in["t2"] == "future" {
		t2 = now.Add(c14FutureDur)
	}
	vers := uint16(tls.VersionTLS12)
	if in["vers"] == "13" {
		vers = tls.VersionTLS13
	}
	srvCfg := &tls.Config{Certificates: []tls.Certificate{leaf}, MaxVersion: vers}
	var ticketKey [32]byte
	copy(ticketKey[:], NewRng(in.U64("ks")).Bytes(32))
	srvCfg.SetSessionTicketKeys([][32]byte{ticketKey})
	var echList []byte
	if ech != "none" {
		key := echKeyFromSeed(in.U64("ks"))
		cfg := mkECHConfig(0xfe0d, 7, 0x0020, key.PublicKey().Bytes(), [][2]int{{1, 1}}, 32, c14Public, nil)
		echList = echListOf(cfg)
		if ech == "acc" {
			srvCfg.EncryptedClientHelloKeys = []tls.EncryptedClientHelloKey{{Config: cfg, PrivateKey: key.Bytes(), SendAsRetry: true}}
		} else {
			other := echKeyFromSeed(in.U64("ks") ^ 0x77)
			ocfg := mkECHConfig(0xfe0d, 9, 0x0020, other.PublicKey().Bytes(), [][2]int{{1, 1}}, 32, c14Public, nil)
			srvCfg.EncryptedClientHelloKeys = []tls.EncryptedClientHelloKey{{Config: ocfg, PrivateKey: other.Bytes(), SendAsRetry: true}}
		}
	}
	cache := newCapCache()
	mkClient := func(nv string, skipv, skipt bool, at time.Time) *tls.Config {
		return &tls.Config{ServerName: sn, InsecureServerNameToVerify: nv, InsecureSkipVerify: skipv, InsecureSkipTimeVerify: skipt,
			RootCAs: kit().pool, ClientSessionCache: cache, OmitEmptyPsk: true, EncryptedClientHelloConfigList: echList,
			Time: func() time.Time { return at }}
	}
	// a spec that sends no server_name extension at all
	var prep func(u *tls.UConn) error
	if in["nosni"] == "1" {
		prep = func(u *tls.UConn) error { return u.RemoveSNIExtension() }
	}
	var sb strings.Builder
	sb.WriteString("out=ok")
	hadChains, sess := false, false
	if in["mode"] == "resumed" {
		var c1 *tls.Config
		switch in["first"] {
		case "same":
			c1 = mkClient(nv, in["skipv"] == "1", in["skipt"] == "1", now)
		case "skipv":
			c1 = mkClient("", true, false, now)
		case "star":
			c1 = mkClient("*", false, false, now)
		case "skipt":
			c1 = mkClient("", false, true, now)
		case "starskipt":
			c1 = mkClient("*", false, true, now)
		default:
			c1 = mkClient("", true, true, now)
		}
		r1 := runHS(HSOpts{ID: id, ClientCfg: c1, ServerCfg: srvCfg, AppData: []byte("first"), Prepare: prep})
		fc, _ := clientResult(r1.ClientErr)
		for _, s := range cache.m {
			if s != nil {
				sess = true
				if f := tls.VerifClientSessionFields(s); f != nil {
					hadChains = len(f.VerifiedChains) > 0
				}
			}
		}
		fmt.Fprintf(&sb, " first=%s", fc)
	}
	c2 := mkClient(nv, in["skipv"] == "1", in["skipt"] == "1", t2)
	res := runHS(HSOpts{ID: id, ClientCfg: c2, ServerCfg: srvCfg, AppData: []byte("second"), Prepare: prep})
	if res.PrepareErr != nil {
		return "out=prepare-failed msg=" + sanitize(res.PrepareErr.Error())
	}
	cls, _ := clientResult(res.ClientErr)
	fmt.Fprintf(&sb, " sni=%s", sniOfFirstHello(res.ClientWire))
	fmt.Fprintf(&sb, " c=%s resumed=%s sess=%s chains1=%s csn=%s cech=%s s=%s", cls, b2i(res.ClientState.DidResume), b2i(sess), b2i(hadChains),
		nameTok(res.ClientState.ServerName), b2i(res.ClientState.ECHAccepted), errClass(res.ServerErr))
	// the x509 oracle for every plan the model may form
	qnames := map[string]bool{"": true, sn: true}
	if nv != "" && nv != "*" {
		qnames[nv] = true
	}
	if ech != "none" {
		qnames[c14Public] = true
	}
	var ns []string
	for n := range qnames {
		ns = append(ns, n)
	}
	sort.Strings(ns)
	var orc, host []string
	for _, n := range ns {
		for _, tt := range []struct {
			k string
			t time.Time
		}{{"cfg", t2}, {"na", leafX.NotAfter}} {
			orc = append(orc, fmt.Sprintf("%s@%s:%s", nameTok(n), tt.k, b2i(x509Oracle(leafX, n, tt.t))))
		}
		if n != "" {
			host = append(host, fmt.Sprintf("%s:%s", n, b2i(leafX.VerifyHostname(n) == nil)))
		}
	}
	fmt.Fprintf(&sb, " orc=%s host=%s exp2=%s", joinList(orc), joinList(host), b2i(t2.After(leafX.NotAfter)))
	return sb.String()
}

func echListOf(cfg []byte) []byte { return echList(cfg) }

// sniOfFirstHello: the server_name the first recorded ClientHello carries ("-" = none).
func sniOfFirstHello(wire []byte) string {
	hs := clientHellos(wire)
	if len(hs) == 0 {
		return "?"
	}
	exts, _ := helloExts(hs[0])
	for _, e := range exts {
		if e.typ == 0 && len(e.data) > 5 {
			return nameTok(string(e.data[5:]))
		}
	}
	return "-"
}

func init() {
	register(&Family{Name: "cert_hs", Gen: genCertHS, Exec: execCertHS, Timeout: 40 * time.Second})
}
