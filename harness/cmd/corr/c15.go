package main

// C15 — ECH hides the name and is honoured end to end.
//
// Families:
//   ech_hs     real handshakes: ECH-capable ids x ECH config variants x server behaviours.
//              Observables: client/server result, ConnectionState (ECHAccepted, ServerName) on both
//              sides, ECHRejectionError.RetryConfigList, every recorded ClientHello, the decrypted
//              EncodedClientHelloInner of each (opened with the harness' copy of the HPKE key through
//              the repo's own hpke code), the server-side reconstruction, the client's inner hello.
//   ech_codec  encodeInnerClientHelloReorderOuterExts / decodeInnerClientHello on generated hellos
//              (compression, reordering, padding, malformed encodings).
//
// Also the ECH test kit shared with c14.go (HPKE keys, ECHConfig wire format, per-name leaves).

import (
	"bytes"
	"crypto/ecdh"
	"crypto/ecdsa"
	"crypto/elliptic"
	crand "crypto/rand"
	"errors"
	"fmt"
	"net"
	"strings"
	"sync"
	"time"

	tls "github.com/refraction-networking/utls"
)

// ---- ECH kit ----

func appendU16(b []byte, v int) []byte { return append(b, byte(v>>8), byte(v)) }

func vec16(b []byte) []byte { return append(appendU16(nil, len(b)), b...) }

// mkECHConfig marshals a draft-ietf-tls-esni-18 ECHConfig (same layout as the repo's tests).
func mkECHConfig(version int, id uint8, kem int, pub []byte, suites [][2]int, maxNameLen uint8, publicName string, exts []byte) []byte {
	var c []byte
	c = append(c, id)
	c = appendU16(c, kem)
	c = append(c, vec16(pub)...)
	var cs []byte
	for _, s := range suites {
		cs = appendU16(cs, s[0])
		cs = appendU16(cs, s[1])
	}
	c = append(c, vec16(cs)...)
	c = append(c, maxNameLen)
	c = append(c, byte(len(publicName)))
	c = append(c, publicName...)
	c = append(c, vec16(exts)...)
	out := appendU16(nil, version)
	return append(out, vec16(c)...)
}

func echList(configs ...[]byte) []byte {
	var b []byte
	for _, c := range configs {
		b = append(b, c...)
	}
	return vec16(b)
}

// echKeyFromSeed derives an X25519 HPKE key deterministically from a seed.
func echKeyFromSeed(seed uint64) *ecdh.PrivateKey {
	k, err := ecdh.X25519().NewPrivateKey(NewRng(seed ^ 0x5ec4e7).Bytes(32))
	if err != nil {
		panic(err)
	}
	return k
}

func parseSuites(s string) [][2]int {
	var out [][2]int
	for _, t := range splitList(s) {
		var a, b int
		fmt.Sscanf(t, "%d:%d", &a, &b)
		out = append(out, [2]int{a, b})
	}
	return out
}

// per-name leaves signed by the kit CA (cached; one shared ECDSA key)
var (
	nameLeafMu  sync.Mutex
	nameLeafKey *ecdsa.PrivateKey
	nameLeaves        = map[string]tls.Certificate{}
	nameSerial  int64 = 1000
)

func leafFor(names ...string) tls.Certificate {
	nameLeafMu.Lock()
	defer nameLeafMu.Unlock()
	key := strings.Join(names, ",")
	if c, ok := nameLeaves[key]; ok {
		return c
	}
	if nameLeafKey == nil {
		nameLeafKey, _ = ecdsa.GenerateKey(elliptic.P256(), crand.Reader)
	}
	k := kit()
	now := time.Now()
	nameSerial++
	c := tls.Certificate{Certificate: [][]byte{mkLeaf(k.caCert, k.caKey, &nameLeafKey.PublicKey, nameSerial, names, now.Add(-24*time.Hour), now.Add(365*24*time.Hour))}, PrivateKey: nameLeafKey}
	if len(nameLeaves) > 4000 {
		nameLeaves = map[string]tls.Certificate{}
	}
	nameLeaves[key] = c
	return c
}

// ---- ClientHello helpers ----

type rawExt_c15 struct {
	typ  int
	data []byte
}

// helloExts returns the raw extensions of a ClientHello handshake message (with 4-byte header).
func helloExts(ch []byte) ([]rawExt_c15, bool) {
	p := 4 + 2 + 32
	if len(ch) < p+1 {
		return nil, false
	}
	p += 1 + int(ch[p])
	if len(ch) < p+2 {
		return nil, false
	}
	p += 2 + (int(ch[p])<<8 | int(ch[p+1]))
	if len(ch) < p+1 {
		return nil, false
	}
	p += 1 + int(ch[p])
	if len(ch) == p {
		return nil, true
	}
	if len(ch) < p+2 {
		return nil, false
	}
	n := int(ch[p])<<8 | int(ch[p+1])
	p += 2
	if len(ch) < p+n {
		return nil, false
	}
	e := ch[p : p+n]
	var out []rawExt_c15
	for len(e) > 0 {
		if len(e) < 4 {
			return out, false
		}
		t := int(e[0])<<8 | int(e[1])
		l := int(e[2])<<8 | int(e[3])
		if len(e) < 4+l {
			return out, false
		}
		out = append(out, rawExt_c15{t, e[4 : 4+l]})
		e = e[4+l:]
	}
	return out, true
}

// ---- ech_hs ----

var echIDs = []string{"Golang-0", "Chrome-120", "Chrome-120_PQ", "Chrome-131", "Chrome-133", "Firefox-120"}

var echSrvModes = []string{"accept", "accept", "accept2", "hrr", "hrr", "rejkey", "rejretry2", "rejnone", "rejnoretry", "rejhrr"}

// layouts of the client's ECHConfigList: P = the config the client must pick; before it only
// entries the selection logic has to skip (V unknown version, S no supported cipher suite, K unsupported
// KEM, M mandatory extension, N invalid public name); after it anything, incl. G = another valid
// config (other key), as in a key-rotation list.
var echListLayouts = []string{"P", "P", "V+M+P", "P+G", "P+G", "V+P+G", "S+P+G", "K+P+V", "N+M+P", "P+S", "S+P", "P+G+G", "M+P+G+V", "P+V"}

func echNames(r *Rng) (pub, sn string) {
	lab := func(n int) string {
		const al = "abcdefghijklmnopqrstuvwxyz0123456789"
		b := make([]byte, n)
		for i := range b {
			b[i] = al[r.Intn(len(al))]
		}
		return string(b)
	}
	pub = "pub-" + lab(1+r.Intn(6)) + ".verif.test"
	switch r.Intn(4) {
	case 0:
		sn = "s-" + lab(4) + ".hidden.test"
	case 1:
		sn = "s-" + lab(6+r.Intn(40)) + "." + lab(3+r.Intn(20)) + ".hidden.test"
	case 2:
		sn = "x" + lab(5) + ".hid"
	default:
		sn = "s-" + lab(3+r.Intn(12)) + ".hidden.example"
	}
	return
}

func genEchHS(r *Rng, i int, tier string) string {
	id := echIDs[i%len(echIDs)]
	srv := echSrvModes[(i/len(echIDs))%len(echSrvModes)]
	pub, sn := echNames(r)
	suites := Pick(r, []string{"1:1", "1:2", "1:3", "1:1,1:3", "2:1,1:3", "1:9,1:2", "1:3,1:1"})
	mnl := Pick(r, []int{0, 1, 8, 16, 32, 64, 128, 255, r.Intn(256)})
	// what the caller does with the UConn / the spec before Handshake
	pre := Pick(r, []string{"plain", "plain", "build1", "build2", "remarshal", "specpin", "specshared"})
	if id == "Golang-0" && (pre == "specpin" || pre == "specshared" || pre == "remarshal") {
		pre = Pick(r, []string{"plain", "build1", "build2"})
	}
	return fmt.Sprintf("id=%s srv=%s cid=%d suites=%s mnl=%d pub=%s sn=%s cl=%s alpn=%d ks=%d pre=%s",
		id, srv, r.Intn(256), suites, mnl, pub, sn, Pick(r, echListLayouts), r.Intn(2), r.U64()>>1, pre)
}

// echPreOpts turns a pre-handshake op sequence into runHS options:
//
//	plain       UClient(id).Handshake()
//	build1/2    BuildHandshakeState() once / twice (inspecting the hello), then Handshake()
//	remarshal   BuildHandshakeState(), an explicit MarshalClientHello(), then Handshake()
//	specpin     HelloCustom + a spec of that id whose SNIExtension already names Config.ServerName
//	specshared  one spec object applied first to a non-ECH connection to the same host, then here
func echPreOpts(pre string, id tls.ClientHelloID, sn string) (o HSOpts, note string) {
	o = HSOpts{ID: id}
	note = "ok"
	builds := func(n int, remarshal bool) func(u *tls.UConn) error {
		return func(u *tls.UConn) error {
			for k := 0; k < n; k++ {
				if err := u.BuildHandshakeState(); err != nil {
					return err
				}
			}
			if remarshal {
				return u.MarshalClientHello()
			}
			return nil
		}
	}
	switch pre {
	case "build1":
		o.Prepare = builds(1, false)
	case "build2":
		o.Prepare = builds(2, false)
	case "remarshal":
		o.Prepare = builds(1, true)
	case "specpin", "specshared":
		spec, err := tls.UTLSIdToSpec(id)
		if err != nil {
			return o, "spec:" + sanitize(err.Error())
		}
		if pre == "specpin" {
			for _, e := range spec.Extensions {
				if sni, ok := e.(*tls.SNIExtension); ok {
					sni.ServerName = sn
				}
			}
		} else {
			// an ordinary use first: ApplyPreset fills the shared *SNIExtension (and key shares) in place
			c0, c0peer := net.Pipe()
			u0 := tls.UClient(c0, &tls.Config{ServerName: sn}, tls.HelloCustom)
			err := u0.ApplyPreset(&spec)
			if err == nil {
				err = u0.BuildHandshakeState()
			}
			c0.Close()
			c0peer.Close()
			if err != nil {
				note = "first:" + sanitize(err.Error())
			}
			// the caller hands the spec on with fresh key-share slots (ApplyPreset keeps non-empty key
			// share data as caller-supplied keys without private halves; that is C18/C20 matter)
			for _, e := range spec.Extensions {
				if ks, ok := e.(*tls.KeyShareExtension); ok {
					for k := range ks.KeyShares {
						if len(ks.KeyShares[k].Data) > 1 {
							ks.KeyShares[k].Data = nil
						}
					}
				}
			}
		}
		o.ID = tls.HelloCustom
		o.Spec = &spec
	}
	return o, note
}

type echSetup struct {
	cliKey            *ecdh.PrivateKey
	cliCfg            []byte // the ECHConfig the client uses
	cliList           []byte
	srvKeys           []tls.EncryptedClientHelloKey
	srvRetry          []byte // the retry list the server is configured to send ("" = none)
	serverCfg         *tls.Config
	hrr               bool
	serverHasKey      bool
	pubLeaf, secrLeaf tls.Certificate
}

// mkEchSetup builds the client's config list and the server configuration for a server mode.
func mkEchSetup(srv string, cid uint8, suites [][2]int, mnl uint8, pub, sn string, layout string, ks uint64) *echSetup {
	es := &echSetup{}
	es.cliKey = echKeyFromSeed(ks)
	pk := es.cliKey.PublicKey().Bytes()
	es.cliCfg = mkECHConfig(0xfe0d, cid, 0x0020, pk, suites, mnl, pub, nil)
	var entries [][]byte
	for j, kind := range strings.Split(layout, "+") {
		switch kind {
		case "P":
			entries = append(entries, es.cliCfg)
		case "V": // unknown version: skipped while parsing
			entries = append(entries, mkECHConfig(0xfe0a, cid, 0x0020, pk, suites, mnl, pub, nil))
		case "S": // no supported cipher suite
			entries = append(entries, mkECHConfig(0xfe0d, cid^2, 0x0020, pk, [][2]int{{2, 1}, {1, 9}}, mnl, pub, nil))
		case "K": // unsupported KEM
			entries = append(entries, mkECHConfig(0xfe0d, cid^3, 0x0010, make([]byte, 65), suites, mnl, pub, nil))
		case "M": // mandatory extension
			entries = append(entries, mkECHConfig(0xfe0d, cid^1, 0x0020, pk, suites, mnl, pub, []byte{0x80, 0x01, 0, 0}))
		case "N": // public name that is not a valid DNS name
			entries = append(entries, mkECHConfig(0xfe0d, cid^4, 0x0020, pk, suites, mnl, "localhost", nil))
		case "G": // another valid config (key rotation)
			gk := echKeyFromSeed(ks ^ uint64(0x1111*(j+1)))
			entries = append(entries, mkECHConfig(0xfe0d, cid+uint8(11*(j+1)), 0x0020, gk.PublicKey().Bytes(), [][2]int{{1, 1}, {1, 3}}, 24, "next-"+pub, nil))
		}
	}
	es.cliList = echList(entries...)
	otherKey := echKeyFromSeed(ks ^ 0xabcdef)
	otherCfg := mkECHConfig(0xfe0d, cid+7, 0x0020, otherKey.PublicKey().Bytes(), [][2]int{{1, 1}}, 40, "retry-"+pub, nil)
	other := tls.EncryptedClientHelloKey{Config: otherCfg, PrivateKey: otherKey.Bytes(), SendAsRetry: true}
	other2Key := echKeyFromSeed(ks ^ 0x123457)
	other2Cfg := mkECHConfig(0xfe0d, cid+9, 0x0020, other2Key.PublicKey().Bytes(), [][2]int{{1, 3}, {1, 1}}, 12, "retry2-"+pub, nil)
	other2 := tls.EncryptedClientHelloKey{Config: other2Cfg, PrivateKey: other2Key.Bytes(), SendAsRetry: true}
	mine := tls.EncryptedClientHelloKey{Config: es.cliCfg, PrivateKey: es.cliKey.Bytes(), SendAsRetry: true}
	sc := &tls.Config{}
	switch srv {
	case "accept":
		es.srvKeys = []tls.EncryptedClientHelloKey{mine}
		es.serverHasKey = true
	case "accept2":
		es.srvKeys = []tls.EncryptedClientHelloKey{other, mine}
		es.serverHasKey = true
	case "hrr":
		es.srvKeys = []tls.EncryptedClientHelloKey{mine}
		es.serverHasKey = true
		es.hrr = true
	case "rejkey":
		es.srvKeys = []tls.EncryptedClientHelloKey{other}
	case "rejretry2": // two retry configs: the client will pick the first, which is followed by another
		es.srvKeys = []tls.EncryptedClientHelloKey{other, other2}
	case "rejhrr":
		es.srvKeys = []tls.EncryptedClientHelloKey{other}
		es.hrr = true
	case "rejnoretry":
		other.SendAsRetry = false
		es.srvKeys = []tls.EncryptedClientHelloKey{other}
	case "rejnone":
	}
	if es.hrr {
		sc.CurvePreferences = []tls.CurveID{tls.CurveP384}
	}
	sc.EncryptedClientHelloKeys = es.srvKeys
	if !es.serverHasKey {
		var b []byte
		for _, k := range es.srvKeys {
			if k.SendAsRetry {
				b = append(b, k.Config...)
			}
		}
		if len(b) > 0 {
			es.srvRetry = vec16(b)
		}
	}
	es.pubLeaf = leafFor(pub)
	es.secrLeaf = leafFor(sn)
	sc.Certificates = []tls.Certificate{es.pubLeaf, es.secrLeaf}
	es.serverCfg = sc
	return es
}

func clientResult(err error) (class string, retry []byte) {
	if err == nil {
		return "ok", nil
	}
	var rej *tls.ECHRejectionError
	if errors.As(err, &rej) {
		return "echrej", rej.RetryConfigList
	}
	var cve *tls.CertificateVerificationError
	if errors.As(err, &cve) {
		return "certerr", nil
	}
	return errClass(err), nil
}

func execEchHS(in KV) string {
	id, ok := idByName(in["id"])
	if !ok {
		return "out=bad-id"
	}
	pub, sn := in["pub"], in["sn"]
	layout := in["cl"]
	if layout == "" {
		layout = "P"
	}
	es := mkEchSetup(in["srv"], uint8(in.Int("cid")), parseSuites(in["suites"]), uint8(in.Int("mnl")), pub, sn, layout, in.U64("ks"))
	cc := &tls.Config{ServerName: sn, EncryptedClientHelloConfigList: es.cliList}
	if in["alpn"] == "1" {
		cc.NextProtos = []string{"h2", "http/1.1"}
	}
	var sawSNI []string
	var mu sync.Mutex
	es.serverCfg.GetConfigForClient = func(chi *tls.ClientHelloInfo) (*tls.Config, error) {
		mu.Lock()
		sawSNI = append(sawSNI, chi.ServerName)
		mu.Unlock()
		return nil, nil
	}
	hso, preNote := echPreOpts(in["pre"], id, sn)
	hso.ClientCfg, hso.ServerCfg, hso.AppData = cc, es.serverCfg, []byte("ech-ping")
	res := runHS(hso)
	cls, retry := clientResult(res.ClientErr)
	hellos := clientHellos(res.ClientWire)
	if res.PrepareErr != nil || len(hellos) == 0 {
		// no ClientHello at all: the model decides from the list whether that is acceptable
		return fmt.Sprintf("out=no-hello c=%s prep=%s pre=%s clist=%s", cls, errTok(res.PrepareErr), preNote, hx(es.cliList))
	}
	var sb strings.Builder
	fmt.Fprintf(&sb, "out=ok c=%s s=%s cech=%s sech=%s csn=%s ssn=%s chrr=%d retry=%s srvretry=%s echo=%s nch=%d",
		cls, errClass(res.ServerErr), b2i(res.ClientState.ECHAccepted), b2i(res.ServerState.ECHAccepted),
		nameTok(res.ClientState.ServerName), nameTok(res.ServerState.ServerName), len(hellos)-1, hx(retry), hx(es.srvRetry), b2i(res.EchoOK), len(hellos))
	mu.Lock()
	fmt.Fprintf(&sb, " seen=%s", joinList(mapStr(sawSNI, nameTok)))
	mu.Unlock()
	// the client's config list and the server's keys, verbatim (inputs of the model's selection / HPKE-info logic)
	var sk []string
	for _, k := range es.srvKeys {
		sk = append(sk, hx(k.Config)+":"+b2i(k.SendAsRetry))
	}
	fmt.Fprintf(&sb, " clist=%s skeys=%s prenote=%s", hx(es.cliList), joinList(sk), preNote)
	// a rejected client retries with the list it was handed: that server must now accept
	if cls == "echrej" && len(retry) > 0 {
		c2 := &tls.Config{ServerName: sn, EncryptedClientHelloConfigList: retry, NextProtos: cc.NextProtos}
		r2 := runHS(HSOpts{ID: id, ClientCfg: c2, ServerCfg: es.serverCfg, AppData: []byte("ech-retry")})
		c2cls, _ := clientResult(r2.ClientErr)
		if r2.PrepareErr != nil {
			c2cls = "prepare:" + sanitize(r2.PrepareErr.Error())
		}
		fmt.Fprintf(&sb, " c2=%s cech2=%s sech2=%s csn2=%s ssn2=%s", c2cls, b2i(r2.ClientState.ECHAccepted), b2i(r2.ServerState.ECHAccepted),
			nameTok(r2.ClientState.ServerName), nameTok(r2.ServerState.ServerName))
	} else {
		sb.WriteString(" c2=-")
	}
	// the secret name anywhere in what the client put on the wire (ciphertext included)
	fmt.Fprintf(&sb, " leak=%s", b2i(bytes.Contains(res.ClientWire, []byte(sn))))
	encs, oerr := tls.VerifECHOpen(es.cliCfg, es.cliKey.Bytes(), hellos)
	fmt.Fprintf(&sb, " open=%s", errTok(oerr))
	for i, h := range hellos {
		fmt.Fprintf(&sb, " ch%d=%s", i+1, hx(h))
		if i < len(encs) {
			fmt.Fprintf(&sb, " enc%d=%s", i+1, hx(encs[i]))
			recon, derr := tls.VerifDecodeInner(h, encs[i])
			if derr != nil {
				fmt.Fprintf(&sb, " recon%d=err:%s", i+1, decClass(derr))
			} else {
				fmt.Fprintf(&sb, " recon%d=%s", i+1, hx(recon))
			}
		}
	}
	if inner, mnl, oext, reorder, ok := tls.VerifECHInner(res.UConn); ok {
		fmt.Fprintf(&sb, " inner=%s imnl=%d oext=%s reorder=%s", hx(inner), mnl, u16list(oext), b2i(reorder))
	} else {
		sb.WriteString(" inner=none")
	}
	return sb.String()
}

func nameTok(s string) string {
	if s == "" {
		return "-"
	}
	return sanitize(s)
}

func errTok(err error) string {
	if err == nil {
		return "ok"
	}
	return "err:" + sanitize(err.Error())
}

func mapStr(xs []string, f func(string) string) []string {
	out := make([]string, len(xs))
	for i, x := range xs {
		out[i] = f(x)
	}
	return out
}

// ---- ech_codec ----

func encRawExt(t int, d []byte) []byte { return append(appendU16(appendU16(nil, t), len(d)), d...) }

func vec8b(b []byte) []byte { return append([]byte{byte(len(b))}, b...) }

func u16sBytes(xs []int) []byte {
	var b []byte
	for _, x := range xs {
		b = appendU16(b, x)
	}
	return b
}

// mkHello marshals a ClientHello handshake message from parts.
func mkHello(vr, sid, suites, comp []byte, exts []rawExt_c15) []byte {
	body := append([]byte(nil), vr...)
	body = append(body, vec8b(sid)...)
	body = append(body, vec16(suites)...)
	body = append(body, vec8b(comp)...)
	if len(exts) > 0 {
		var eb []byte
		for _, e := range exts {
			eb = append(eb, encRawExt(e.typ, e.data)...)
		}
		body = append(body, vec16(eb)...)
	}
	return append([]byte{1, byte(len(body) >> 16), byte(len(body) >> 8), byte(len(body))}, body...)
}

func randU16s(r *Rng, n int) []int {
	xs := make([]int, n)
	for i := range xs {
		xs[i] = 1 + r.Intn(0xfffe)
	}
	return xs
}

// wfBody returns a well-formed body for a ClientHello extension type the repo's unmarshal knows.
func wfBody(r *Rng, t int, name string) []byte {
	switch t {
	case 0:
		return vec16(append([]byte{0}, vec16([]byte(name))...))
	case 11:
		return []byte{1, 0}
	case 35:
		return r.Bytes(r.Intn(20))
	case 65281:
		return []byte{0}
	case 23, 18, 42:
		return nil
	case 57:
		return r.Bytes(1 + r.Intn(12))
	case 65037:
		return []byte{1}
	case 5:
		return []byte{1, 0, 0, 0, 0}
	case 10, 13, 50:
		return vec16(u16sBytes(randU16s(r, 1+r.Intn(5))))
	case 16:
		var b []byte
		for i := 0; i < 1+r.Intn(3); i++ {
			b = append(b, vec8b([]byte(Pick(r, []string{"h2", "http/1.1", "h3", "x"})))...)
		}
		return vec16(b)
	case 43:
		return vec8b(u16sBytes([]int{0x0304}))
	case 44:
		return vec16(r.Bytes(1 + r.Intn(20)))
	case 51:
		var b []byte
		for i := 0; i < 1+r.Intn(3); i++ {
			b = append(b, appendU16(nil, Pick(r, []int{29, 23, 24, 4588}))...)
			b = append(b, vec16(r.Bytes(1+r.Intn(40)))...)
		}
		return vec16(b)
	case 45:
		return vec8b([]byte{1})
	case 41:
		id := append(vec16(r.Bytes(1+r.Intn(20))), 0, 0, 0, 1)
		return append(vec16(id), vec16(vec8b(r.Bytes(32)))...)
	}
	return r.Bytes(r.Intn(8))
}

var compressibleTypes = []int{5, 10, 13, 50, 16, 43, 44, 51, 45}

func shuffleExts(r *Rng, xs []rawExt_c15) {
	for i := len(xs) - 1; i > 0; i-- {
		j := r.Intn(i + 1)
		xs[i], xs[j] = xs[j], xs[i]
	}
}

func extTypes(xs []rawExt_c15) []int {
	out := make([]int, len(xs))
	for i, x := range xs {
		out[i] = x.typ
	}
	return out
}

func intsStr(xs []int) string {
	ss := make([]string, len(xs))
	for i, x := range xs {
		ss[i] = fmt.Sprint(x)
	}
	return joinList(ss)
}

// genOuter builds an outer hello containing (most of) the given compressible types.
func genOuter(r *Rng, have map[int][]byte, pub string, canonical bool) []rawExt_c15 {
	var outer []rawExt_c15
	outer = append(outer, rawExt_c15{0, wfBody(r, 0, pub)})
	ech := append([]byte{0, 0, 1, 0, 1, byte(r.Intn(256))}, vec16(r.Bytes(32))...)
	ech = append(ech, vec16(r.Bytes(32+r.Intn(64)))...)
	outer = append(outer, rawExt_c15{65037, ech})
	for _, t := range compressibleTypes {
		body, ok := have[t]
		switch {
		case ok && r.Intn(40) == 0:
			// the outer hello lacks a type the inner one compresses
		case ok:
			outer = append(outer, rawExt_c15{t, body})
		case r.Intn(3) == 0:
			outer = append(outer, rawExt_c15{t, wfBody(r, t, "")})
		}
	}
	if r.Bool() {
		outer = append(outer, rawExt_c15{0x0a0a, nil})
	}
	if r.Bool() {
		outer = append(outer, rawExt_c15{27, []byte{2, 0, 2}})
	}
	if r.Bool() {
		outer = append(outer, rawExt_c15{23, nil})
	}
	if r.Bool() {
		outer = append(outer, rawExt_c15{21, make([]byte, r.Intn(30))})
	}
	shuffleExts(r, outer)
	if canonical {
		// crypto/tls order: the compressible extensions in marshal order, the others around them
		var cs []rawExt_c15
		for _, t := range compressibleTypes {
			for _, e := range outer {
				if e.typ == t {
					cs = append(cs, e)
				}
			}
		}
		k := 0
		for i := range outer {
			if containsInt(compressibleTypes, outer[i].typ) {
				outer[i] = cs[k]
				k++
			}
		}
	}
	return outer
}

func genEchCodec(r *Rng, i int, tier string) string {
	name := Pick(r, []string{"a.b", "secret.hidden.test", "s-0123456789abcdefghij.klmnopqrstuvwxyz.hidden.example", "x.yz"})
	vr := append([]byte{3, 3}, r.Bytes(32)...)
	suites := u16sBytes(randU16s(r, 1+r.Intn(6)))
	comp := []byte{0}
	mnl := Pick(r, []int{0, 1, 8, 16, 32, 64, 128, 255, r.Intn(256)})
	if r.Intn(10) < 6 {
		// kind=enc: real encoder on a generated inner hello, real decoder on its output
		var inner []rawExt_c15
		have := map[int][]byte{}
		add := func(t int) {
			b := wfBody(r, t, name)
			inner = append(inner, rawExt_c15{t, b})
			have[t] = b
		}
		if r.Intn(10) < 9 {
			add(0)
		}
		switch r.Intn(20) {
		case 0:
		case 1:
			inner = append(inner, rawExt_c15{65037, []byte{0, 0, 1}})
		default:
			add(65037)
		}
		for _, t := range compressibleTypes {
			p := 70
			if t == 43 {
				p = 92
			}
			if r.Intn(100) < p {
				add(t)
			}
		}
		if t43, ok := have[43]; ok && r.Intn(15) == 0 {
			_ = t43
			for k := range inner {
				if inner[k].typ == 43 {
					inner[k].data = vec8b(u16sBytes([]int{0x0304, 0x0303}))
					have[43] = inner[k].data
				}
			}
		}
		for _, t := range []int{11, 35, 65281, 23, 18, 57} {
			if r.Intn(6) == 0 {
				add(t)
			}
		}
		shuffleExts(r, inner)
		if r.Intn(10) == 0 {
			inner = append(inner, rawExt_c15{41, wfBody(r, 41, "")})
		}
		comprOnly := map[int][]byte{}
		for _, t := range compressibleTypes {
			if b, ok := have[t]; ok {
				comprOnly[t] = b
			}
		}
		reorder := r.Bool()
		outer := genOuter(r, comprOnly, "pub.verif.test", !reorder && r.Intn(8) != 0)
		sid := r.Bytes(Pick(r, []int{0, 32}))
		oext := extTypes(outer)
		if reorder && r.Intn(8) == 0 {
			// a spec order that does not match the marshalled outer hello
			oext[r.Intn(len(oext))], oext[r.Intn(len(oext))] = oext[r.Intn(len(oext))], oext[r.Intn(len(oext))]
		}
		if reorder && r.Intn(12) == 0 {
			oext = oext[:r.Intn(len(oext)+1)]
		}
		return fmt.Sprintf("kind=enc in=%s outer=%s mnl=%d oext=%s reorder=%s", hx(mkHello(vr, sid, suites, comp, inner)),
			hx(mkHello(append([]byte{3, 3}, r.Bytes(32)...), sid, suites, comp, outer)), mnl, intsStr(oext), b2i(reorder))
	}
	// kind=dec: hand-made encodings for the decoder
	have := map[int][]byte{}
	for _, t := range compressibleTypes {
		if r.Intn(100) < 75 {
			have[t] = wfBody(r, t, "")
		}
	}
	outer := genOuter(r, have, "pub.verif.test", false)
	otypes := extTypes(outer)
	// the referenced list: a sub-sequence of the outer order, sometimes damaged
	var list []int
	for _, t := range otypes {
		if _, ok := have[t]; ok && t != 0 && t != 65037 && r.Intn(10) < 8 {
			list = append(list, t)
		}
	}
	mut := "none"
	switch r.Intn(16) {
	case 0:
		if len(list) >= 2 {
			a := r.Intn(len(list) - 1)
			list[a], list[a+1] = list[a+1], list[a]
			mut = "swap"
		}
	case 1:
		list = append(list, 65037)
		mut = "echtype"
	case 2:
		list = append([]int{12345}, list...)
		mut = "missing"
	case 3:
		if len(list) >= 1 {
			list = append(list, list[len(list)-1])
			mut = "dup"
		}
	case 4:
		if len(list) >= 1 {
			list = append(list[:1], list...)
			mut = "dupfirst"
		}
	}
	lb := vec8b(u16sBytes(list))
	switch r.Intn(24) {
	case 0:
		lb = append(vec8b(append(u16sBytes(list), 7)), []byte{}...)
		mut += "+odd"
	case 1:
		lb = append(lb, 1, 2, 3)
		mut += "+trail"
	case 2:
		if len(lb) > 1 {
			lb = lb[:len(lb)-1]
			mut += "+short"
		}
	}
	var exts []rawExt_c15
	if r.Intn(10) < 9 {
		exts = append(exts, rawExt_c15{0, wfBody(r, 0, name)})
	}
	switch r.Intn(12) {
	case 0:
	case 1:
		exts = append(exts, rawExt_c15{65037, []byte{0}})
	default:
		exts = append(exts, rawExt_c15{65037, []byte{1}})
	}
	if _, listed := have[43]; !(listed && containsInt(list, 43)) && r.Intn(10) < 9 {
		exts = append(exts, rawExt_c15{43, wfBody(r, 43, "")})
	}
	shuffleExts(r, exts)
	nOuterExt := 1
	if r.Intn(15) == 0 {
		nOuterExt = 2
	}
	if len(list) == 0 && r.Bool() {
		nOuterExt = 0
	}
	for k := 0; k < nOuterExt; k++ {
		pos := r.Intn(len(exts) + 1)
		exts = append(exts[:pos], append([]rawExt_c15{{64768, lb}}, exts[pos:]...)...)
	}
	if r.Intn(12) == 0 {
		exts = append(exts, rawExt_c15{41, wfBody(r, 41, "")})
		if r.Intn(3) == 0 {
			exts = append(exts, rawExt_c15{18, nil})
			mut += "+pskmid"
		}
	}
	innerSid := []byte{}
	if r.Intn(20) == 0 {
		innerSid = r.Bytes(1 + r.Intn(4))
		mut += "+sid"
	}
	enc := mkHello(vr, innerSid, suites, comp, exts)[4:]
	pad := make([]byte, r.Intn(40))
	if len(pad) > 0 && r.Intn(10) == 0 {
		pad[r.Intn(len(pad))] = byte(1 + r.Intn(255))
		mut += "+pad"
	}
	enc = append(enc, pad...)
	if r.Intn(25) == 0 {
		enc = enc[:r.Intn(len(enc))]
		mut += "+trunc"
	}
	sid := r.Bytes(Pick(r, []int{0, 32}))
	return fmt.Sprintf("kind=dec mut=%s outer=%s e=%s", mut, hx(mkHello(append([]byte{3, 3}, r.Bytes(32)...), sid, suites, comp, outer)), hx(enc))
}

func containsInt(xs []int, x int) bool {
	for _, y := range xs {
		if y == x {
			return true
		}
	}
	return false
}

func decClass(err error) string {
	s := err.Error()
	switch {
	case strings.Contains(s, "invalid inner client hello"):
		return "invalidInner"
	case strings.Contains(s, "invalid outer extensions"):
		return "invalidOuterExts"
	case strings.Contains(s, "invalid reconstructed"):
		return "invalidRecon"
	case strings.Contains(s, "invalid encrypted_client_hello"):
		return "invalidEchExt"
	case strings.Contains(s, "incompatible versions"):
		return "badVersions"
	}
	return "other:" + sanitize(s)
}

func execEchCodec(in KV) string {
	outer := in.Bytes("outer")
	var enc []byte
	var sb strings.Builder
	sb.WriteString("out=ok")
	if in["kind"] == "enc" {
		raw := in.Bytes("in")
		canon, err := tls.VerifInnerCanon(raw)
		if err != nil {
			return "out=inner-unparsable"
		}
		var oext []uint16
		for _, v := range parseU64s(in["oext"]) {
			oext = append(oext, uint16(v))
		}
		enc, err = tls.VerifEncodeInner(raw, in.Int("mnl"), oext, in["reorder"] == "1")
		if err != nil {
			return "out=ok canon=" + hx(canon) + " enc=err:" + sanitize(err.Error())
		}
		fmt.Fprintf(&sb, " canon=%s enc=%s", hx(canon), hx(enc))
	} else {
		enc = in.Bytes("e")
	}
	recon, err := tls.VerifDecodeInner(outer, enc)
	if err != nil {
		fmt.Fprintf(&sb, " recon=err:%s", decClass(err))
	} else {
		fmt.Fprintf(&sb, " recon=%s", hx(recon))
	}
	return sb.String()
}

func init() {
	register(&Family{Name: "ech_hs", Gen: genEchHS, Exec: execEchHS, Timeout: 30 * time.Second})
	register(&Family{Name: "ech_codec", Gen: genEchCodec, Exec: execEchCodec})
}
