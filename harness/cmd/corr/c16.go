package main

// C16 — GREASE ECH looks like real outer ECH, stays frozen across a HelloRetryRequest, and is
// drawn afresh for every connection.
//
//	ech_init  one GREASEEncryptedClientHelloExtension with generated candidate lists, initialised
//	          (Len) under a logged crypto/rand.Reader; the model replays the draws from the log.
//	          Then Len/Read again under a *different* reader: nothing may be drawn, nothing may change.
//	ech_conn  the five parrots with GREASE ECH x {plain, HelloRetryRequest} server x K connections:
//	          both ClientHellos, the frozen state of each connection's extension object, the
//	          candidate lists of the spec, and two more UTLSIdToSpec calls initialised side by side.

import (
	crand "crypto/rand"
	"fmt"
	"strings"
	"time"

	tls "github.com/refraction-networking/utls"
)

// swapCrand installs rr as crypto/rand.Reader; the returned func restores the old one and hands out the log.
func swapCrand(rr *recReader, log *[][]byte) func() {
	old := crand.Reader
	crand.Reader = rr
	return func() { crand.Reader = old; *log = rr.log }
}

func suitesStr(ss []tls.HPKESymmetricCipherSuite) string {
	var out []string
	for _, s := range ss {
		out = append(out, fmt.Sprintf("%d:%d", s.KdfId, s.AeadId))
	}
	return joinList(out)
}

func parseSuites_c16(s string) []tls.HPKESymmetricCipherSuite {
	var out []tls.HPKESymmetricCipherSuite
	for _, t := range splitList(s) {
		var k, a uint16
		fmt.Sscanf(t, "%d:%d", &k, &a)
		out = append(out, tls.HPKESymmetricCipherSuite{KdfId: k, AeadId: a})
	}
	return out
}

func frozenStr(g *tls.GREASEEncryptedClientHelloExtension) string {
	kdf, aead, cid, enc, payload := tls.VerifGreaseECHFields(g)
	return fmt.Sprintf("%d|%d|%d|%s|%s", kdf, aead, cid, hx(enc), hx(payload))
}

func cfgStr(g *tls.GREASEEncryptedClientHelloExtension) string {
	return fmt.Sprintf("suites=%s ids=%s encpre=%s lens=%s", suitesStr(g.CandidateCipherSuites), u8list(g.CandidateConfigIds),
		hx(g.EncapsulatedKey), u16list(g.CandidatePayloadLens))
}

func chunksStr(log [][]byte) string {
	var out []string
	for _, b := range log {
		out = append(out, hxe(b))
	}
	return joinList(out)
}

func readAt(g *tls.GREASEEncryptedClientHelloExtension, n int) string {
	if n < 0 {
		n = 0
	}
	buf := make([]byte, n)
	m, err := g.Read(buf)
	switch {
	case err != nil && err.Error() == "short buffer":
		return "short"
	case m == 0:
		return "err"
	}
	return "ok:" + hx(buf[:m])
}

var echGenSuites = []string{"1:1", "1:3", "1:2", "2:2", "3:3", "2:1"}

func genEchInit(r *Rng, i int, tier string) string {
	ns := Pick(r, []int{0, 1, 2, 2, 3, 4, 5})
	var ss []string
	for k := 0; k < ns; k++ {
		ss = append(ss, echGenSuites[r.Intn(len(echGenSuites))])
	}
	if i%97 == 96 && ns > 0 {
		ss[r.Intn(ns)] = "1:4" // an AEAD id cipherLen does not know: may panic
	}
	nid := Pick(r, []int{0, 0, 1, 2, 3, 5, 200})
	var ids []uint8
	for k := 0; k < nid; k++ {
		ids = append(ids, uint8(r.Intn(256)))
	}
	preset := r.Intn(2) == 0
	enc := "-"
	if preset {
		enc = hx(r.Bytes(Pick(r, []int{32, 32, 1, 65, 100})))
	}
	nl := Pick(r, []int{0, 1, 2, 4, 3, 5, 7})
	if !preset {
		nl = Pick(r, []int{0, 1, 2, 4}) // no rand.Int rejection after the HPKE draws (see Drv/C16)
	}
	var lens []uint16
	for k := 0; k < nl; k++ {
		lens = append(lens, uint16(Pick(r, []int{0, 1, 16, 128, 160, 192, 223, 224, 500, 4000})))
	}
	return fmt.Sprintf("suites=%s ids=%s enc=%s lens=%s seed=%d", joinList(ss), u8list(ids), enc, u16list(lens), r.U64()>>1)
}

func execEchInit(in KV) string {
	g := &tls.GREASEEncryptedClientHelloExtension{
		CandidateCipherSuites: parseSuites_c16(in["suites"]),
		CandidateConfigIds:    toU8(parseU64s(in["ids"])),
		EncapsulatedKey:       unhex(in["enc"]),
		CandidatePayloadLens:  toU16(parseU64s(in["lens"])),
	}
	var l1 int
	var log [][]byte
	func() {
		cryptoRandMu.Lock()
		defer cryptoRandMu.Unlock()
		defer swapCrand(&recReader{r: NewRng(in.U64("seed"))}, &log)()
		l1 = g.Len()
	}()
	fr := frozenStr(g)
	after := cfgStr(g)
	var log2 [][]byte
	var l2 int
	var rd, rdShort, rdBig string
	func() {
		cryptoRandMu.Lock()
		defer cryptoRandMu.Unlock()
		defer swapCrand(&recReader{r: NewRng(in.U64("seed") ^ 0x5555)}, &log2)()
		l2 = g.Len()
		rdShort = readAt(g, l2-1)
		rd = readAt(g, l2)
		rdBig = readAt(g, l2+9)
	}()
	n2 := 0
	for _, b := range log2 {
		n2 += len(b)
	}
	return fmt.Sprintf("log=%s frozen=%s len=%d len2=%d drawn2=%d read=%s readshort=%s readbig=%s frozen2=%s after:%s",
		chunksStr(log), fr, l1, l2, n2, rd, rdShort, rdBig, frozenStr(g), strings.ReplaceAll(after, " ", " after:"))
}

// ---- ech_conn ----

var echIDs_c16 = []tls.ClientHelloID{tls.HelloChrome_120, tls.HelloChrome_120_PQ, tls.HelloChrome_131, tls.HelloChrome_133, tls.HelloFirefox_120}

func findECH(exts []tls.TLSExtension) *tls.GREASEEncryptedClientHelloExtension {
	for _, e := range exts {
		if g, ok := e.(*tls.GREASEEncryptedClientHelloExtension); ok {
			return g
		}
	}
	return nil
}

func genEchConn(r *Rng, i int, tier string) string {
	id := echIDs_c16[i%len(echIDs_c16)]
	srv := []string{"plain", "hrr", "hrr-cookie"}[(i/len(echIDs_c16))%3]
	return fmt.Sprintf("id=%s srv=%s k=%d rseed=%d", idName(id), srv, 3, r.U64()>>1)
}

func execEchConn(in KV) string {
	id, ok := idByName(in["id"])
	if !ok {
		return "out=bad-id"
	}
	k := in.Int("k")
	rr := NewRng(in.U64("rseed"))
	var out []string
	// the candidate lists, from a spec of its own
	sp0, err := tls.UTLSIdToSpec(id)
	if err != nil {
		return "out=nospec"
	}
	g0 := findECH(sp0.Extensions)
	if g0 == nil {
		return "out=no-ech-in-spec"
	}
	out = append(out, cfgStr(g0))
	for c := 0; c < k; c++ {
		scfg := &tls.Config{}
		hooks := &tls.VerifServerHooks{}
		if in["srv"] != "plain" {
			scfg.CurvePreferences = []tls.CurveID{tls.CurveP384}
		}
		if in["srv"] == "hrr-cookie" {
			cookie := rr.Bytes(24)
			hooks.TolerateCookieEcho = true
			hooks.RewriteHandshake = func(d []byte) []byte {
				if m, ok := parseSH(d); ok && m.isHRR() {
					applyHRRMut(m, "valid", 0, cookie)
					return m.bytes()
				}
				return d
			}
		}
		var pre string
		var res *HSResult
		for attempt := 0; attempt < 3; attempt++ { // a deadline expired under load: run the connection again
			res = runHS(HSOpts{ID: id, Timeout: 20 * time.Second, ClientCfg: &tls.Config{Rand: &recReader{r: NewRng(rr.U64())}}, ServerCfg: scfg, Hooks: hooks, AppData: []byte("ping"),
				Prepare: func(u *tls.UConn) error {
					if err := u.BuildHandshakeState(); err != nil {
						return err
					}
					if g := findECH(u.Extensions); g != nil {
						pre = frozenStr(g)
					}
					return nil
				}})
			if res.ClientErr == nil && res.ServerErr == nil && res.EchoOK {
				break
			}
		}
		chs := clientHellos(res.ClientWire)
		ch1, ch2 := "-", "-"
		if len(chs) > 0 {
			ch1 = hx(chs[0])
		}
		if len(chs) > 1 {
			ch2 = hx(chs[1])
		}
		post := "-"
		if g := findECH(res.UConn.Extensions); g != nil {
			post = frozenStr(g)
		}
		out = append(out, fmt.Sprintf("c%d.ch1=%s c%d.ch2=%s c%d.pre=%s c%d.post=%s c%d.done=%s c%d.cerr=%s", c, ch1, c, ch2, c, pre, c, post, c,
			b2i(res.ClientErr == nil && res.ServerErr == nil && res.EchoOK), c, cerrClass(res.ClientErr)))
	}
	// two more specs, initialised side by side: distinct objects, distinct draws
	spA, _ := tls.UTLSIdToSpec(id)
	spB, _ := tls.UTLSIdToSpec(id)
	gA, gB := findECH(spA.Extensions), findECH(spB.Extensions)
	same := gA == gB || gA == g0
	gA.Len()
	gB.Len()
	out = append(out, fmt.Sprintf("specA=%s specB=%s sameobj=%s", frozenStr(gA), frozenStr(gB), b2i(same)))
	return strings.Join(out, " ")
}

func init() {
	register(&Family{Name: "ech_init", Gen: genEchInit, Exec: execEchInit})
	register(&Family{Name: "ech_conn", Gen: genEchConn, Exec: execEchConn, Timeout: 240 * time.Second})
}
