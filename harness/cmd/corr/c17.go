package main

// C17 — a HelloRetryRequest changes only what RFC 8446 allows in the second ClientHello.
//
// Two families, one output format (checked by lean/UtlsVerif/Drv/C17.lean):
//
//	hrr        real in-package server (CurvePreferences = one group the client lists without a
//	           share => HRR), the outgoing HRR optionally rewritten through the RewriteHandshake
//	           hook (cookie attached, invalid selections); valid HRRs must then complete.
//	hrr_script a scripted raw TCP peer answers the first ClientHello with a hand-built HRR (any
//	           field value), custom specs with tiny / unusual extension lists; crypto/rand.Reader is
//	           replaced for the duration of Handshake so the seed of the prng that draws the cookie
//	           index is known and the model predicts the index from the SHAKE stream.
//
// Output tokens (both families):
//
//	exts=<d;d;...>   uconn.Extensions after BuildHandshakeState, before the handshake (describeExtFull_c17)
//	pol=<none|boring|other>   policy of the padding extension(s)
//	psk=<0|1>        hello.PskIdentities non-empty
//	hcurves=<list>   Hello.SupportedCurves (differs from the wire only when the spec has no supported_groups)
//	ch1= ch2=        the ClientHello handshake messages on the wire (ch2 "-" if none)
//	alert=<n|->      plaintext alert sent by the client
//	cerr=<class>     class of the client's Handshake error
//	h.vers h.sv h.suite h.sid h.comp h.group h.share h.cookie h.flags   the HRR the client received
//	fresh=<hex>      data of the share the client holds for h.group after the handshake
//	done=<0|1>       handshake completed and application data echoed (hrr only)
//	stream=<u64,...> crlog=<sizes>  first words of the prng stream seeded by the (only) 32-byte
//	                 crypto/rand read during Handshake, sizes of all crypto/rand reads (hrr_script only)

import (
	"bytes"
	crand "crypto/rand"
	"fmt"
	"io"
	"net"
	"strings"
	"time"

	tls "github.com/refraction-networking/utls"
)

type rawExt_c17 struct {
	T uint16
	B []byte
}

type shMsg struct {
	Vers   uint16
	Random []byte
	Sid    []byte
	Suite  uint16
	Comp   uint8
	Exts   []rawExt_c17
}

var hrrRandom = unhex("cf21ad74e59a6111be1d8c021e65b891c2a211167abb8c5e079e09e2c8a8339c")

func parseSH(msg []byte) (*shMsg, bool) {
	if len(msg) < 4 || msg[0] != 2 {
		return nil, false
	}
	b := msg[4:]
	if len(b) < 2+32+1 {
		return nil, false
	}
	m := &shMsg{Vers: uint16(b[0])<<8 | uint16(b[1]), Random: append([]byte(nil), b[2:34]...)}
	b = b[34:]
	n := int(b[0])
	if len(b) < 1+n+3 {
		return nil, false
	}
	m.Sid = append([]byte(nil), b[1:1+n]...)
	b = b[1+n:]
	m.Suite = uint16(b[0])<<8 | uint16(b[1])
	m.Comp = b[2]
	b = b[3:]
	if len(b) == 0 {
		return m, true
	}
	if len(b) < 2 {
		return nil, false
	}
	el := int(b[0])<<8 | int(b[1])
	b = b[2:]
	if len(b) != el {
		return nil, false
	}
	for len(b) > 0 {
		if len(b) < 4 {
			return nil, false
		}
		t := uint16(b[0])<<8 | uint16(b[1])
		l := int(b[2])<<8 | int(b[3])
		if len(b) < 4+l {
			return nil, false
		}
		m.Exts = append(m.Exts, rawExt_c17{t, append([]byte(nil), b[4:4+l]...)})
		b = b[4+l:]
	}
	return m, true
}

func (m *shMsg) bytes() []byte {
	var ex []byte
	for _, e := range m.Exts {
		ex = append(ex, byte(e.T>>8), byte(e.T), byte(len(e.B)>>8), byte(len(e.B)))
		ex = append(ex, e.B...)
	}
	body := []byte{byte(m.Vers >> 8), byte(m.Vers)}
	body = append(body, m.Random...)
	body = append(body, byte(len(m.Sid)))
	body = append(body, m.Sid...)
	body = append(body, byte(m.Suite>>8), byte(m.Suite), m.Comp)
	body = append(body, byte(len(ex)>>8), byte(len(ex)))
	body = append(body, ex...)
	return append([]byte{2, byte(len(body) >> 16), byte(len(body) >> 8), byte(len(body))}, body...)
}

func (m *shMsg) isHRR() bool { return bytes.Equal(m.Random, hrrRandom) }

func (m *shMsg) drop(t uint16) {
	var out []rawExt_c17
	for _, e := range m.Exts {
		if e.T != t {
			out = append(out, e)
		}
	}
	m.Exts = out
}

func (m *shMsg) set(t uint16, b []byte) {
	for i := range m.Exts {
		if m.Exts[i].T == t {
			m.Exts[i].B = b
			return
		}
	}
	m.Exts = append(m.Exts, rawExt_c17{t, b})
}

func (m *shMsg) get(t uint16) ([]byte, bool) {
	for _, e := range m.Exts {
		if e.T == t {
			return e.B, true
		}
	}
	return nil, false
}

// hrrTokens renders the HRR fields the client's checks read (what the model receives).
func hrrTokens(m *shMsg) string { return shTokens(m, "h") }

func shTokens(m *shMsg, p string) string {
	sv, group, share := 0, 0, 0
	cookie := "none"
	var flags []string
	for _, e := range m.Exts {
		switch e.T {
		case 43:
			if len(e.B) == 2 {
				sv = int(e.B[0])<<8 | int(e.B[1])
			}
		case 51:
			if len(e.B) == 2 {
				group = int(e.B[0])<<8 | int(e.B[1])
			} else if len(e.B) >= 4 {
				share = int(e.B[0])<<8 | int(e.B[1])
			}
		case 44:
			if len(e.B) >= 2 {
				cookie = hx(e.B[2:])
			}
		case 5:
			flags = append(flags, "ocsp")
		case 35:
			flags = append(flags, "ticket")
		case 23:
			flags = append(flags, "ems")
		case 65281:
			flags = append(flags, "reneg")
		case 16:
			flags = append(flags, "alpn")
		case 18:
			flags = append(flags, "sct")
		case 0xfe0d:
			flags = append(flags, "ech")
		}
	}
	out := fmt.Sprintf("P.vers=%d P.sv=%d P.suite=%d P.sid=%s P.comp=%d P.group=%d P.share=%d P.cookie=%s P.flags=%s P.hrr=%s",
		m.Vers, sv, m.Suite, hx(m.Sid), m.Comp, group, share, cookie, joinList(flags), b2i(m.isHRR()))
	return strings.ReplaceAll(out, "P.", p+".")
}

// ---- mutations of an HRR ----

// applyHRRMut edits a well-formed HRR according to the case. grp: parameter of the mutation.
func applyHRRMut(m *shMsg, mut string, grp uint16, cookie []byte) {
	u16 := func(v uint16) []byte { return []byte{byte(v >> 8), byte(v)} }
	if len(cookie) > 0 {
		m.set(44, append(u16(uint16(len(cookie))), cookie...))
	}
	switch mut {
	case "valid":
	case "group": // unlisted / already shared / GREASE / ffdhe: any other selected group
		m.set(51, u16(grp))
	case "nogroup": // no key_share: with a cookie a cookie-only HRR, without one "no change at all"
		m.drop(51)
	case "fullshare": // key_share in ServerHello form
		m.set(51, append(u16(grp), 0, 2, 1, 2))
	case "vers":
		m.Vers = 0x0304
	case "sid":
		if len(m.Sid) > 0 {
			m.Sid[0] ^= 1
		} else {
			m.Sid = []byte{1}
		}
	case "comp":
		m.Comp = 1
	case "suite": // a suite the client did not offer / a non-1.3 suite
		m.Suite = grp
	case "alpn":
		m.set(16, []byte{0, 3, 2, 'h', '2'})
	case "ems":
		m.set(23, nil)
	case "ech":
		m.set(0xfe0d, make([]byte, 8))
	}
}

// ---- observation helpers ----

func paddingPolicy(e *tls.UtlsPaddingExtension) string {
	if e.GetPaddingLen == nil {
		return "none"
	}
	for _, x := range []int{0, 255, 256, 300, 507, 508, 509, 511, 512, 1000} {
		a, b := e.GetPaddingLen(x)
		c, d := tls.BoringPaddingStyle(x)
		if a != c || b != d {
			return "other"
		}
	}
	return "boring"
}

// describeExtFull_c17: describeExt, with the frozen bytes of GREASE ECH and a generic fallback.
func describeExtFull_c17(e tls.TLSExtension) string {
	switch x := e.(type) {
	case *tls.GREASEEncryptedClientHelloExtension:
		x.Len() // init()
		kdf, aead, cid, enc, payload := tls.VerifGreaseECHFields(x)
		return fmt.Sprintf("ech|%d|%d|%d|%s|%s", kdf, aead, cid, hx(enc), hx(payload))
	}
	d := describeExt(e)
	if strings.HasPrefix(d, "unknown|") || strings.HasPrefix(d, "quic_tp|") {
		n := e.Len()
		buf := make([]byte, n)
		if n >= 4 {
			if m, _ := e.Read(buf); m == n {
				return fmt.Sprintf("generic|%d|%s", int(buf[0])<<8|int(buf[1]), hx(buf[4:]))
			}
		}
	}
	return d
}

func describeExts(u *tls.UConn) (string, string) {
	var ds []string
	pol := "none"
	for _, e := range u.Extensions {
		ds = append(ds, describeExtFull_c17(e))
		if p, ok := e.(*tls.UtlsPaddingExtension); ok {
			pol = paddingPolicy(p)
		}
	}
	if len(ds) == 0 {
		return "-", pol
	}
	return strings.Join(ds, ";"), pol
}

// clientAlert finds a plaintext alert record in the client's output.
func clientAlert(wire []byte) string {
	for _, r := range splitRecords(wire) {
		if r.Type == 21 && len(r.Payload) == 2 {
			return fmt.Sprint(r.Payload[1])
		}
	}
	return "-"
}

var cerrClasses = []struct{ sub, cls string }{
	{"unnecessary HelloRetryRequest message", "unnecessary-hrr"},
	{"malformed key_share extension", "malformed-keyshare"},
	{"server selected unsupported group", "unsupported-group"},
	{"unnecessary HelloRetryRequest key_share", "unnecessary-keyshare"},
	{"CurvePreferences includes unsupported curve", "unsupported-curve"},
	{"does not support reprocessing of PSK", "utls-psk-hrr"},
	{"keyshare not found", "no-keyshare-ext"},
	{"cookieIndex >=", "cookie-index"},
	{"incorrect legacy version", "legacy-version"},
	{"did not echo the legacy session ID", "session-id"},
	{"unsupported compression format", "compression"},
	{"changed cipher suite after", "suite-changed"},
	{"unconfigured cipher suite", "suite-unconfigured"},
	{"forbidden in TLS 1.3", "forbidden-ext"},
	{"unexpected encrypted client hello extension", "unexpected-ech"},
	{"two HelloRetryRequest", "two-hrr"},
	{"multiple padding extensions", "multi-padding"},
	{"that the ClientHello did not advertise", "version-not-advertised"},
	{"too long to be encoded", "too-long"},
}

func cerrClass(err error) string {
	if err == nil {
		return "ok"
	}
	for _, c := range cerrClasses {
		if strings.Contains(err.Error(), c.sub) {
			return c.cls
		}
	}
	return errClass(err)
}

// freshShare: the data of the share the client holds for group g after the handshake.
func freshShare(u *tls.UConn, g int) string {
	out := "-"
	if u == nil || g == 0 {
		return out
	}
	for _, e := range u.Extensions {
		if ks, ok := e.(*tls.KeyShareExtension); ok {
			for _, s := range ks.KeyShares {
				if int(s.Group) == g {
					out = hx(s.Data)
				}
			}
		}
	}
	return out
}

func specGroups(id tls.ClientHelloID) (groups, shares []uint16, tls13 bool) {
	spec, err := tls.UTLSIdToSpec(id)
	if err != nil {
		return
	}
	for _, e := range spec.Extensions {
		switch x := e.(type) {
		case *tls.SupportedCurvesExtension:
			for _, c := range x.Curves {
				groups = append(groups, uint16(c))
			}
		case *tls.KeyShareExtension:
			for _, k := range x.KeyShares {
				shares = append(shares, uint16(k.Group))
			}
		case *tls.SupportedVersionsExtension:
			for _, v := range x.Versions {
				if v == tls.VersionTLS13 {
					tls13 = true
				}
			}
		}
	}
	return
}

func hasU16(xs []uint16, v uint16) bool {
	for _, x := range xs {
		if x == v {
			return true
		}
	}
	return false
}

func isGreaseVal(v uint16) bool { return v&0x0f0f == 0x0a0a && v>>8 == v&0xff }

func isECGroup(g uint16) bool { return g == 23 || g == 24 || g == 25 || g == 29 }

// ---- family hrr: the real server ----

type hrrCase struct{ id, mut string }

// tls13IDs: ids whose spec carries supported_versions with TLS 1.3 and a key_share extension.
func tls13IDs() []tls.ClientHelloID {
	var out []tls.ClientHelloID
	for _, id := range parrotIDs {
		_, shares, ok := specGroups(id)
		if ok && len(shares) > 0 {
			out = append(out, id)
		}
	}
	return out
}

var hrrMuts = []string{"valid", "valid", "valid", "valid", "unlisted", "shared", "greasegroup", "nochange", "cookieonly", "ffdhe",
	"fullshare", "vers", "sid", "comp", "suite", "suite12", "alpn", "ems", "ech"}
var cookieLens = []int{0, 1, 32, 1000}

func genHRR(r *Rng, i int, tier string) string {
	ids := tls13IDs()
	id := ids[i%len(ids)]
	groups, shares, _ := specGroups(id)
	var free []uint16 // listed without a share, supported by the in-package server
	for _, g := range groups {
		if isECGroup(g) && !hasU16(shares, g) {
			free = append(free, g)
		}
	}
	if len(free) == 0 {
		return fmt.Sprintf("id=%s g=0 mut=skip ck=0 rseed=%d", idName(id), r.U64()>>1)
	}
	round := i / len(ids)
	g := free[round%len(free)]
	mut := hrrMuts[(round/len(free)+i)%len(hrrMuts)]
	ck := cookieLens[(round+i/3)%len(cookieLens)]
	if tier == "thorough" && r.Intn(4) == 0 {
		ck = 1 + r.Intn(3000)
	}
	// what happened to the UConn before the handshake (see hrrPrepare): the second ClientHello and the
	// completion of the handshake must not depend on it
	pre := "-"
	if mut == "valid" {
		pre = hrrPres[(round+i)%len(hrrPres)]
	}
	return fmt.Sprintf("id=%s g=%d mut=%s ck=%d pre=%s rseed=%d", idName(id), g, mut, ck, pre, r.U64()>>1)
}

var hrrPres = []string{"-", "wider", "-", "drop", "twice", "wider-all"}

// specWithShares returns the id's spec with (to-be-generated) key shares added for the extra groups.
func specWithShares(id tls.ClientHelloID, extra ...tls.CurveID) (*tls.ClientHelloSpec, error) {
	sp, err := tls.UTLSIdToSpec(id)
	if err != nil {
		return nil, err
	}
	for _, e := range sp.Extensions {
		if ks, ok := e.(*tls.KeyShareExtension); ok {
			for _, g := range extra {
				ks.KeyShares = append(ks.KeyShares, tls.KeyShare{Group: g})
			}
		}
	}
	return &sp, nil
}

// hrrPrepare brings a HelloCustom UConn into the state "the id's spec is applied and built" along
// different histories:
//
//	twice      ApplyPreset(spec); ApplyPreset(spec)
//	wider      ApplyPreset(spec + a share for g); ApplyPreset(spec)          (a key for g was generated earlier)
//	wider-all  ApplyPreset(spec + shares for every listed EC group); ApplyPreset(spec)
//	drop       ApplyPreset(spec + a share for g); BuildHandshakeState; remove that share from the
//	           KeyShareExtension; BuildHandshakeState again
func hrrPrepare(uc *tls.UConn, id tls.ClientHelloID, g tls.CurveID, pre string) error {
	plain, err := specWithShares(id)
	if err != nil {
		return err
	}
	switch pre {
	case "twice":
		first, _ := specWithShares(id)
		if err := uc.ApplyPreset(first); err != nil {
			return err
		}
		return uc.ApplyPreset(plain)
	case "wider", "wider-all":
		extra := []tls.CurveID{g}
		if pre == "wider-all" {
			groups, shares, _ := specGroups(id)
			extra = nil
			for _, x := range groups {
				if isECGroup(x) && !hasU16(shares, x) {
					extra = append(extra, tls.CurveID(x))
				}
			}
		}
		first, _ := specWithShares(id, extra...)
		if err := uc.ApplyPreset(first); err != nil {
			return err
		}
		return uc.ApplyPreset(plain)
	case "drop":
		first, _ := specWithShares(id, g)
		if err := uc.ApplyPreset(first); err != nil {
			return err
		}
		if err := uc.BuildHandshakeState(); err != nil {
			return err
		}
		for _, e := range uc.Extensions {
			if ks, ok := e.(*tls.KeyShareExtension); ok {
				var keep []tls.KeyShare
				for _, sh := range ks.KeyShares {
					if sh.Group != g {
						keep = append(keep, sh)
					}
				}
				ks.KeyShares = keep
			}
		}
		return nil
	}
	return fmt.Errorf("unknown pre %q", pre)
}

// resolveMut turns a case-level mutation name into (applyHRRMut name, parameter) for this id.
func resolveMut(id tls.ClientHelloID, mut string, u *tls.UConn) (string, uint16, bool) {
	groups, shares, _ := specGroups(id)
	switch mut {
	case "valid", "fullshare", "vers", "sid", "comp", "alpn", "ems", "ech":
		return mut, 29, true
	case "unlisted":
		for _, g := range []uint16{30, 25, 24, 23, 29} {
			if !hasU16(groups, g) {
				return "group", g, true
			}
		}
	case "shared":
		for _, g := range shares {
			if !isGreaseVal(g) {
				return "group", g, true
			}
		}
	case "greasegroup": // the connection's GREASE group: listed and "shared"
		if u != nil {
			for _, e := range u.Extensions {
				if ks, ok := e.(*tls.KeyShareExtension); ok {
					for _, s := range ks.KeyShares {
						if isGreaseVal(uint16(s.Group)) {
							return "group", uint16(s.Group), true
						}
					}
				}
			}
		}
	case "ffdhe":
		for _, g := range groups {
			if g == 256 || g == 257 {
				return "group", g, true
			}
		}
	case "nochange", "cookieonly":
		return "nogroup", 0, true
	case "suite":
		return "suite", 0x1304, true // TLS_AES_128_CCM_SHA256: never offered by a parrot, not implemented
	case "suite12":
		return "suite", 0xc02f, true
	}
	return "", 0, false
}

func execHRR(in KV) string {
	id, ok := idByName(in["id"])
	if !ok {
		return "out=bad-id"
	}
	mut := in["mut"]
	if mut == "skip" {
		return "out=skip"
	}
	g := tls.CurveID(in.U64("g"))
	rr := NewRng(in.U64("rseed"))
	var cookie []byte
	if mut != "nochange" {
		cookie = rr.Bytes(in.Int("ck"))
	}
	var u *tls.UConn
	var seen *shMsg
	hooks := &tls.VerifServerHooks{TolerateCookieEcho: true}
	hooks.RewriteHandshake = func(d []byte) []byte {
		m, ok := parseSH(d)
		if !ok || !m.isHRR() || seen != nil {
			return d
		}
		am, p, ok := resolveMut(id, mut, u)
		if !ok {
			am = "valid"
		}
		applyHRRMut(m, am, p, cookie)
		seen = m
		return m.bytes()
	}
	var extsDesc, pol string
	psk := 0
	pre := in["pre"]
	if pre == "" {
		pre = "-"
	}
	uid := id
	if pre != "-" {
		uid = tls.HelloCustom
	}
	// A handshake that should complete and does not is run again (twice at most): under heavy load a
	// deadline can expire; a defect in the code under test fails every time.
	var res *HSResult
	for attempt := 0; attempt < 3; attempt++ {
		seen = nil
		res = runHS(HSOpts{
			ID:        uid,
			Timeout:   20 * time.Second,
			ClientCfg: &tls.Config{OmitEmptyPsk: true, Rand: &recReader{r: NewRng(in.U64("rseed") + 1)}},
			ServerCfg: &tls.Config{CurvePreferences: []tls.CurveID{g}},
			Hooks:     hooks,
			AppData:   []byte("ping"),
			Prepare: func(uc *tls.UConn) error {
				u = uc
				if pre != "-" {
					if err := hrrPrepare(uc, id, g, pre); err != nil {
						return err
					}
				}
				if err := uc.BuildHandshakeState(); err != nil {
					return err
				}
				extsDesc, pol = describeExts(uc)
				if len(uc.HandshakeState.Hello.PskIdentities) > 0 {
					psk = 1
				}
				return nil
			},
		})
		if mut != "valid" || (res.ClientErr == nil && res.ServerErr == nil && res.EchoOK) {
			break
		}
	}
	if res.PrepareErr != nil {
		return "out=prepare-err msg=" + sanitize(res.PrepareErr.Error())
	}
	if seen == nil {
		return "out=no-hrr cerr=" + cerrClass(res.ClientErr) + " serr=" + errClass(res.ServerErr)
	}
	if _, _, ok := resolveMut(id, mut, u); !ok {
		return "out=na"
	}
	return renderHRR(res.UConn, extsDesc, pol, psk, res.ClientWire, res.ClientErr, seen) +
		fmt.Sprintf(" done=%s serr=%s", b2i(res.ClientErr == nil && res.ServerErr == nil && res.EchoOK), errClass(res.ServerErr))
}

func renderHRR(u *tls.UConn, extsDesc, pol string, psk int, wire []byte, cerr error, h *shMsg) string {
	chs := clientHellos(wire)
	ch1, ch2 := "-", "-"
	if len(chs) > 0 {
		ch1 = hx(chs[0])
	}
	if len(chs) > 1 {
		ch2 = hx(chs[1])
	}
	grp := 0
	if b, ok := h.get(51); ok && len(b) == 2 {
		grp = int(b[0])<<8 | int(b[1])
	}
	var hc []uint16
	for _, c := range u.HandshakeState.Hello.SupportedCurves {
		hc = append(hc, uint16(c))
	}
	return fmt.Sprintf("exts=%s pol=%s psk=%d hcurves=%s ch1=%s ch2=%s alert=%s cerr=%s %s fresh=%s",
		extsDesc, pol, psk, u16list(hc), ch1, ch2, clientAlert(wire), cerrClass(cerr), hrrTokens(h), freshShare(u, grp))
}

// ---- family hrr_script: scripted peer ----

// readCH reads records from c until one complete ClientHello handshake message has arrived.
func readCH(c net.Conn) ([]byte, error) {
	var hs []byte
	hdr := make([]byte, 5)
	for {
		if _, err := io.ReadFull(c, hdr); err != nil {
			return nil, err
		}
		n := int(hdr[3])<<8 | int(hdr[4])
		p := make([]byte, n)
		if _, err := io.ReadFull(c, p); err != nil {
			return nil, err
		}
		switch hdr[0] {
		case 20:
			continue
		case 22:
			hs = append(hs, p...)
		default:
			return nil, fmt.Errorf("record type %d", hdr[0])
		}
		if len(hs) >= 4 {
			l := int(hs[1])<<16 | int(hs[2])<<8 | int(hs[3])
			if len(hs) >= 4+l {
				return hs[:4+l], nil
			}
		}
	}
}

func hsRecord(msg []byte) []byte {
	var out []byte
	for len(msg) > 0 {
		n := len(msg)
		if n > 16384 {
			n = 16384
		}
		out = append(out, 22, 3, 3, byte(n>>8), byte(n))
		out = append(out, msg[:n]...)
		msg = msg[n:]
	}
	return out
}

// chFields: session id and cipher suites of a ClientHello message.
func chFields(ch []byte) (sid []byte, suites []uint16) {
	b := ch[4+2+32:]
	n := int(b[0])
	sid = b[1 : 1+n]
	b = b[1+n:]
	l := int(b[0])<<8 | int(b[1])
	for i := 0; i+1 < l; i += 2 {
		suites = append(suites, uint16(b[2+i])<<8|uint16(b[3+i]))
	}
	return
}

// baseHRR: a well-formed HRR for this ClientHello selecting group g (0: no key_share).
func baseHRR(ch []byte, g uint16) *shMsg {
	sid, suites := chFields(ch)
	m := &shMsg{Vers: 0x0303, Random: append([]byte(nil), hrrRandom...), Sid: append([]byte(nil), sid...), Suite: 0x1301}
	for _, s := range suites {
		if s == 0x1301 || s == 0x1302 || s == 0x1303 {
			m.Suite = s
			break
		}
	}
	m.Exts = []rawExt_c17{{43, []byte{3, 4}}}
	if g != 0 {
		m.Exts = append(m.Exts, rawExt_c17{51, []byte{byte(g >> 8), byte(g)}})
	}
	return m
}

type scriptRes struct {
	u          *tls.UConn
	cerr       error
	prepErr    error
	wire       []byte
	hrr        *shMsg
	sh2        *shMsg
	extsDesc   string
	pol        string
	psk        int
	crlog      [][]byte
	serverSeen int
}

// runScripted: the client (id or custom spec) against a peer that answers the first ClientHello
// with mk(ch1) and the second with second(ch2) (nil: close). crypto/rand.Reader is replaced while
// Handshake runs; everything random in the hello itself comes from Config.Rand.
func runScripted(id tls.ClientHelloID, spec *tls.ClientHelloSpec, rseed uint64, mk func(ch1 []byte) *shMsg, second func(ch2 []byte, h *shMsg) []byte) *scriptRes {
	kit()
	sr := &scriptRes{}
	cRaw, sRaw, err := tcpPair()
	if err != nil {
		sr.cerr = err
		return sr
	}
	defer cRaw.Close()
	defer sRaw.Close()
	dl := time.Now().Add(20 * time.Second)
	cRaw.SetDeadline(dl)
	sRaw.SetDeadline(dl)
	sDone := make(chan struct{})
	go func() {
		defer close(sDone)
		defer sRaw.Close()
		ch1, err := readCH(sRaw)
		if err != nil {
			return
		}
		sr.serverSeen = 1
		h := mk(ch1)
		sr.hrr = h
		sRaw.Write(hsRecord(h.bytes()))
		sRaw.Write([]byte{20, 3, 3, 0, 1, 1})
		ch2, err := readCH(sRaw)
		if err != nil {
			// drain (an alert) until the client closes
			io.Copy(io.Discard, sRaw)
			return
		}
		sr.serverSeen = 2
		if second != nil {
			if m := second(ch2, h); m != nil {
				sr.sh2, _ = parseSH(m)
				sRaw.Write(hsRecord(m))
				io.Copy(io.Discard, sRaw)
			}
		}
	}()
	cRec := &recConn{Conn: cRaw}
	cfg := &tls.Config{ServerName: "example.golang", RootCAs: kit().pool, OmitEmptyPsk: true, Rand: &recReader{r: NewRng(rseed + 1)}}
	u := tls.UClient(cRec, cfg, id)
	sr.u = u
	func() {
		defer func() {
			if p := recover(); p != nil {
				sr.cerr = fmt.Errorf("client-panic: %v", p)
			}
		}()
		if spec != nil {
			if err := u.ApplyPreset(spec); err != nil {
				sr.prepErr = err
				return
			}
		}
		if err := u.BuildHandshakeState(); err != nil {
			sr.prepErr = err
			return
		}
		sr.extsDesc, sr.pol = describeExts(u)
		if len(u.HandshakeState.Hello.PskIdentities) > 0 {
			sr.psk = 1
		}
		cryptoRandMu.Lock()
		old := crand.Reader
		lr := &recReader{r: NewRng(rseed + 2)}
		crand.Reader = lr
		func() {
			defer func() {
				crand.Reader = old
				cryptoRandMu.Unlock()
			}()
			sr.cerr = u.Handshake()
		}()
		sr.crlog = lr.log
	}()
	cRaw.Close()
	select {
	case <-sDone:
	case <-time.After(21 * time.Second):
	}
	sr.wire = cRec.Written()
	return sr
}

// custom specs: shapes of extension lists around the cookie-insertion code
var scriptShapes = []string{
	"ks", "ver+ks", "ver+curves+ks", "min4", "min5", "cookie-first", "cookie-mid", "cookie-last", "two-cookies",
	"pad-last-boring", "pad-last-fixed", "pad-mid-boring", "pad-last-off", "psk-last", "pad+psk", "fakepsk-last", "two-ks", "big", "no-ver",
}

func shapeExts(shape string, r *Rng) []string {
	ver := "versions|772,771"
	curves := "curves|29,23,24,25"
	ks := "key_share|29:e"
	sig := "sigalgs|1027,2052,1025,1283,2053"
	sni := "sni|-"
	ck := "cookie|" + hx(r.Bytes(1+r.Intn(20)))
	padB := "padding|0|0|boring"
	padF := fmt.Sprintf("padding|%d|1|none", r.Intn(300))
	padOff := "padding|7|0|none"
	psk := "psk|0|1|0|-|-"
	fill := []string{"ems", "reneg|-", "status_request", "sct", "points|0", "alpn|6832,687474702f312e31", "psk_modes|1", "session_ticket|-", "compress_cert|2"}
	switch shape {
	case "ks":
		return []string{ks}
	case "ver+ks":
		return []string{ver, ks}
	case "ver+curves+ks":
		return []string{ver, curves, ks}
	case "min4":
		return []string{ver, curves, ks, sig}
	case "min5":
		return []string{sni, ver, curves, ks, sig}
	case "cookie-first":
		return []string{ck, sni, ver, curves, ks, sig}
	case "cookie-mid":
		return []string{sni, ver, ck, curves, ks, sig}
	case "cookie-last":
		return []string{sni, ver, curves, ks, sig, ck}
	case "two-cookies":
		return []string{ck, sni, ver, curves, ks, sig, "cookie|" + hx(r.Bytes(3))}
	case "pad-last-boring":
		return []string{sni, ver, curves, ks, sig, fill[r.Intn(len(fill))], padB}
	case "pad-last-fixed":
		return []string{sni, ver, curves, ks, sig, padF}
	case "pad-mid-boring":
		return []string{sni, ver, padB, curves, ks, sig}
	case "pad-last-off":
		return []string{sni, ver, curves, ks, sig, padOff}
	case "psk-last":
		return []string{sni, ver, curves, ks, sig, "psk_modes|1", psk}
	case "pad+psk":
		return []string{sni, ver, curves, ks, sig, "psk_modes|1", padB, psk}
	case "fakepsk-last": // a pre_shared_key that is on the wire (no session cache: not "in use" for the retry logic)
		return []string{sni, ver, curves, ks, sig, "psk_modes|1", padB,
			fmt.Sprintf("psk|1|0|0|%s:%d|%s", hx(r.Bytes(1+r.Intn(40))), r.Intn(1<<30), hx(r.Bytes(32)))}
	case "no-ver": // TLS 1.3 allowed by TLSVersMax only, not advertised on the wire: the HRR must be refused
		return []string{sni, curves, ks, sig}
	case "no-ks":
		return []string{sni, ver, curves, sig}
	case "empty":
		return nil
	case "two-ks":
		return []string{sni, ver, curves, ks, sig, "key_share|23:e"}
	case "two-pad":
		return []string{sni, ver, curves, ks, sig, padB, padB}
	case "big":
		out := []string{sni, ver, curves, ks, sig}
		for i := 0; i < 12; i++ {
			out = append(out, fmt.Sprintf("generic|%d|%s", 60000+i, hx(r.Bytes(r.Intn(40)))))
		}
		out = append(out, padB)
		return out
	}
	return nil
}

func buildSpec(descs []string) *tls.ClientHelloSpec {
	spec := &tls.ClientHelloSpec{
		TLSVersMax: tls.VersionTLS13, TLSVersMin: tls.VersionTLS12,
		CipherSuites:       []uint16{0x1301, 0x1302, 0x1303, 0xc02b, 0xc02f},
		CompressionMethods: []uint8{0},
	}
	for _, d := range descs {
		f := strings.Split(d, "|")
		if f[0] == "padding" {
			n := 0
			fmt.Sscan(f[1], &n)
			p := &tls.UtlsPaddingExtension{PaddingLen: n, WillPad: f[2] == "1"}
			if len(f) > 3 && f[3] == "boring" {
				p.GetPaddingLen = tls.BoringPaddingStyle
			}
			spec.Extensions = append(spec.Extensions, p)
			continue
		}
		spec.Extensions = append(spec.Extensions, buildExt(d))
	}
	return spec
}

var scriptMuts = []string{"valid", "valid", "valid", "cookieonly", "cookieonly", "nochange", "unlisted", "shared", "fullshare", "vers", "sid", "comp", "suite", "alpn", "ech", "suite2", "hrr2", "nonec"}

func genScript(r *Rng, i int, tier string) string {
	ids := tls13IDs()
	rseed := r.U64() >> 1
	ck := cookieLens[r.Intn(len(cookieLens))]
	if r.Intn(3) == 0 {
		ck = 1 + r.Intn(200)
	}
	if i%53 == 7 {
		ck = 65400 // the second hello no longer fits the uint16 extensions length
	}
	if i%3 == 2 {
		id := ids[(i/3)%len(ids)]
		return fmt.Sprintf("id=%s spec=- mut=%s g=%d ck=%d rseed=%d", idName(id), scriptMuts[r.Intn(len(scriptMuts))], Pick(r, []int{23, 24}), ck, rseed)
	}
	shape := scriptShapes[(i/3*2+i%3)%len(scriptShapes)]
	exts := shapeExts(shape, r)
	mut := scriptMuts[r.Intn(len(scriptMuts))]
	if r.Intn(2) == 0 {
		mut = Pick(r, []string{"valid", "cookieonly"})
	}
	if ck == 0 && r.Intn(4) != 0 {
		ck = 8
	}
	sp := "-"
	if len(exts) > 0 {
		sp = strings.Join(exts, ";")
	}
	return fmt.Sprintf("id=Custom-%s spec=%s mut=%s g=%d ck=%d rseed=%d", shape, sp, mut, Pick(r, []int{23, 24, 25}), ck, rseed)
}

func execScript(in KV) string {
	var id tls.ClientHelloID
	var spec *tls.ClientHelloSpec
	if strings.HasPrefix(in["id"], "Custom-") {
		id = tls.HelloCustom
		var descs []string
		if in["spec"] != "-" {
			descs = strings.Split(in["spec"], ";")
		}
		spec = buildSpec(descs)
	} else {
		var ok bool
		if id, ok = idByName(in["id"]); !ok {
			return "out=bad-id"
		}
	}
	mut := in["mut"]
	g := uint16(in.U64("g"))
	rseed := in.U64("rseed")
	rr := NewRng(rseed)
	var cookie []byte
	if mut != "nochange" {
		cookie = rr.Bytes(in.Int("ck"))
	}
	mk := func(ch1 []byte) *shMsg {
		h := baseHRR(ch1, g)
		switch mut {
		case "valid", "suite2", "hrr2":
			applyHRRMut(h, "valid", 0, cookie)
		case "cookieonly", "nochange":
			applyHRRMut(h, "nogroup", 0, cookie)
		case "unlisted":
			applyHRRMut(h, "group", 30, cookie)
		case "shared":
			applyHRRMut(h, "group", 29, cookie)
		case "nonec":
			applyHRRMut(h, "group", 256, cookie)
		case "suite":
			applyHRRMut(h, "suite", 0x1304, cookie)
		default:
			applyHRRMut(h, mut, g, cookie)
		}
		return h
	}
	var second func(ch2 []byte, h *shMsg) []byte
	switch mut {
	case "suite2": // a ServerHello that changes the suite chosen in the HRR
		second = func(ch2 []byte, h *shMsg) []byte {
			m := *h
			m.Random = bytes.Repeat([]byte{7}, 32)
			m.Suite = 0x1301
			if h.Suite == 0x1301 {
				m.Suite = 0x1303
			}
			m.Exts = []rawExt_c17{{43, []byte{3, 4}}, {51, append([]byte{byte(g >> 8), byte(g), 0, 65}, make([]byte, 65)...)}}
			return m.bytes()
		}
	case "hrr2":
		second = func(ch2 []byte, h *shMsg) []byte { return h.bytes() }
	}
	sr := runScripted(id, spec, rseed, mk, second)
	for attempt := 0; attempt < 2 && sr.cerr != nil && errClass(sr.cerr) == "timeout"; attempt++ {
		sr = runScripted(id, spec, rseed, mk, second) // a deadline expired under load
	}
	if sr.prepErr != nil {
		return "out=prepare-err msg=" + cerrClass(sr.prepErr)
	}
	if sr.hrr == nil {
		return "out=no-hrr cerr=" + cerrClass(sr.cerr)
	}
	// the prng seed: the only 32-byte crypto/rand read (when a cookie index is drawn)
	var sizes []string
	var seed []byte
	n32 := 0
	for _, b := range sr.crlog {
		sizes = append(sizes, fmt.Sprint(len(b)))
		if len(b) == 32 {
			seed = b
			n32++
		}
	}
	stream := "-"
	if n32 == 1 {
		var s tls.PRNGSeed
		copy(s[:], seed)
		if p, err := tls.VerifNewPRNG(s, "", false); err == nil {
			var ws []uint64
			for i := 0; i < 6; i++ {
				ws = append(ws, p.Uint64())
			}
			stream = u64s(ws)
		}
	}
	s2 := ""
	if sr.sh2 != nil {
		s2 = " " + shTokens(sr.sh2, "s")
	}
	return renderHRR(sr.u, sr.extsDesc, sr.pol, sr.psk, sr.wire, sr.cerr, sr.hrr) +
		fmt.Sprintf(" stream=%s crlog=%s seen=%d", stream, joinList(sizes), sr.serverSeen) + s2
}

func init() {
	register(&Family{Name: "hrr", Gen: genHRR, Exec: execHRR, Timeout: 90 * time.Second})
	register(&Family{Name: "hrr_script", Gen: genScript, Exec: execScript, Timeout: 90 * time.Second})
}
