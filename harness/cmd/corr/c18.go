package main

// C18: key shares are fresh, correctly sized, and backed by the matching private key.
//
//   c18_shares  — build the ClientHello of a spec (every predefined id, its fingerprinted copy, randomized
//                 specs, custom key-share lists incl. GREASE / caller-supplied / ungenerable entries; TLS or
//                 QUIC client) under a logging deterministic Config.Rand and report: the spec's key shares,
//                 the shares on the wire (group, length), the retained private keys, per share whether the
//                 retained key reproduces the public bytes on the wire, the session id length, the lengths
//                 of the reads of Config.Rand and which read each piece of material (random, session id,
//                 GREASE seed, every key) came from.
//   c18_reapply — the same after BuildHandshakeStateWithoutSession followed by BuildHandshakeState (the
//                 preset is applied twice), plus the outcome of a handshake started that way (D12).
//   c18_hs      — the neg2 handshake engine with the server forced to every key share the hello offers
//                 (CurvePreferences of one group; KyberDraftTLS13 hook for X25519Kyber768Draft00) and to
//                 every listed group without share (HelloRetryRequest): the derived secrets match iff the
//                 handshake completes.
//   c18_fresh   — n connections of one id with the real crypto/rand: number of distinct client randoms,
//                 session ids and key shares (measured, must all be distinct).

import (
	"bytes"
	"context"
	"crypto/ecdh"
	crand "crypto/rand"
	"encoding/binary"
	"fmt"
	"sort"
	"strconv"
	"strings"
	"time"

	tls "github.com/refraction-networking/utls"
)

type c18Share struct {
	group uint16
	data  []byte
}

func c18ParseShares(raw []byte) ([]c18Share, bool) {
	if len(raw) < 4+2+32+1 {
		return nil, false
	}
	r := &negRd{raw[4:]}
	r.take(34)
	if _, ok := r.vec8(); !ok {
		return nil, false
	}
	if _, ok := r.vec16(); !ok {
		return nil, false
	}
	if _, ok := r.vec8(); !ok {
		return nil, false
	}
	if len(r.b) == 0 {
		return nil, true
	}
	exts, ok := r.vec16()
	if !ok {
		return nil, false
	}
	er := &negRd{exts}
	var out []c18Share
	for len(er.b) > 0 {
		t, ok1 := er.u16()
		body, ok2 := er.vec16()
		if !ok1 || !ok2 {
			return nil, false
		}
		if t != 51 {
			continue
		}
		br := &negRd{body}
		l, ok := br.vec16()
		if !ok {
			return nil, false
		}
		sr := &negRd{l}
		for len(sr.b) > 0 {
			g, ok1 := sr.u16()
			d, ok2 := sr.vec16()
			if !ok1 || !ok2 {
				return nil, false
			}
			out = append(out, c18Share{uint16(g), d})
		}
	}
	return out, true
}

// c18SpecShares lists the key shares of a spec before it is applied: group (GREASE placeholder as is)
// and length of the pre-set data.
func c18SpecShares(spec *tls.ClientHelloSpec) string {
	var out []string
	for _, e := range spec.Extensions {
		if ks, ok := e.(*tls.KeyShareExtension); ok {
			for _, s := range ks.KeyShares {
				out = append(out, fmt.Sprintf("%d:%d", uint16(s.Group), len(s.Data)))
			}
		}
	}
	return joinList(out)
}

func c18Curve(g uint16) ecdh.Curve {
	switch g {
	case 29:
		return ecdh.X25519()
	case 23:
		return ecdh.P256()
	case 24:
		return ecdh.P384()
	case 25:
		return ecdh.P521()
	}
	return nil
}

// c18FindRead returns the index of the logged read that produced key material `want`: equal bytes, or —
// the NIST-curve generator of crypto/ecdh tweaks the first two bytes of what it read (masking to the
// field size, a fixed xor against all-zero test readers) — equal from the third byte on.
func c18FindRead(log [][]byte, want []byte, used map[int]bool) int {
	for i, l := range log {
		if !used[i] && bytes.Equal(l, want) {
			used[i] = true
			return i
		}
	}
	for i, l := range log {
		if !used[i] && len(l) == len(want) && len(l) > 2 && bytes.Equal(l[2:], want[2:]) {
			used[i] = true
			return i
		}
	}
	return -1
}

type c18Built struct {
	raw   []byte
	keys  *tls.KeySharePrivateKeys
	seed  []uint16
	err   error
	uconn *tls.UConn
}

// c18Describe renders everything c18_shares / c18_reapply report about a built hello.
func c18Describe(b *c18Built, rd *n2Reader) string {
	shares, ok := c18ParseShares(b.raw)
	if !ok {
		return "out=unparsable-hello"
	}
	ks := b.keys
	if ks == nil {
		ks = &tls.KeySharePrivateKeys{}
	}
	var wire, match []string
	var srcs []string
	used := map[int]bool{}
	// random, session id, GREASE seed
	random := b.raw[6:38]
	sidLen := int(b.raw[38])
	sid := b.raw[39 : 39+sidLen]
	srcs = append(srcs, fmt.Sprintf("random:%d", c18FindRead(rd.log, random, used)))
	if sidLen > 0 {
		// the session id is drawn twice (makeClientHelloForApplyPreset, then ApplyPreset); the wire carries the second
		srcs = append(srcs, fmt.Sprintf("sid:%d", c18FindRead(rd.log, sid, used)))
	}
	if len(b.seed) > 0 {
		gb := make([]byte, 2*len(b.seed))
		for i, v := range b.seed {
			binary.LittleEndian.PutUint16(gb[2*i:], v)
		}
		// the duplicate-extension fix-up may flip bits of one seed word after the read: match on the other words
		gi := -1
		for i, l := range rd.log {
			if !used[i] && len(l) == len(gb) && bytes.Equal(l[:4], gb[:4]) {
				gi = i
				used[i] = true
				break
			}
		}
		srcs = append(srcs, fmt.Sprintf("grease:%d", gi))
	}
	seenGroup := map[uint16]bool{}
	for idx, s := range shares {
		wire = append(wire, fmt.Sprintf("%d:%d", s.group, len(s.data)))
		m := "n"
		if !negIsGrease(s.group) && !seenGroup[s.group] {
			switch s.group {
			case 4588, 0x6399:
				ek, mk := ks.EcdheKeys[tls.CurveID(s.group)], ks.MlkemKeys[tls.CurveID(s.group)]
				if ek == nil {
					ek = ks.MlkemEcdhe
				}
				if mk == nil {
					mk = ks.Mlkem
				}
				if ek != nil && mk != nil {
					var want []byte
					if s.group == 4588 {
						want = append(append([]byte(nil), mk.EncapsulationKey().Bytes()...), ek.PublicKey().Bytes()...)
					} else {
						want = append(append([]byte(nil), ek.PublicKey().Bytes()...), mk.EncapsulationKey().Bytes()...)
					}
					m = "0"
					if bytes.Equal(want, s.data) {
						m = "1"
						srcs = append(srcs, fmt.Sprintf("k%d:%d", idx, c18FindRead(rd.log, ek.Bytes(), used)))
						srcs = append(srcs, fmt.Sprintf("m%d:%d", idx, c18FindRead(rd.log, mk.Bytes(), used)))
					}
				}
			default:
				k := ks.EcdheKeys[tls.CurveID(s.group)]
				if k == nil && ks.Ecdhe != nil && ks.Ecdhe.Curve() == c18Curve(s.group) {
					k = ks.Ecdhe
				}
				if k != nil {
					m = "0"
					if bytes.Equal(k.PublicKey().Bytes(), s.data) {
						m = "1"
						srcs = append(srcs, fmt.Sprintf("k%d:%d", idx, c18FindRead(rd.log, k.Bytes(), used)))
					}
				}
			}
		}
		seenGroup[s.group] = true
		match = append(match, m)
	}
	var reads []string
	for _, l := range rd.log {
		reads = append(reads, strconv.Itoa(len(l)))
	}
	keys := fmt.Sprintf("%d,%s", negCurveIDOf(ks.Ecdhe), negKeySet(ks))
	// where in the stream the reader served (all chunks concatenated) each secret lies: name:offset:length
	var offs []string
	locate := func(name string, want []byte, tolerant bool) {
		off := bytes.Index(rd.served, want)
		if off < 0 && tolerant && len(want) > 2 {
			if i := bytes.Index(rd.served, want[2:]); i >= 2 {
				off = i - 2
			}
		}
		offs = append(offs, fmt.Sprintf("%s:%d:%d", name, off, len(want)))
	}
	locate("random", random, false)
	if sidLen > 0 {
		locate("sid", sid, false)
	}
	if len(b.seed) > 0 {
		gb := make([]byte, 2*len(b.seed))
		for i, v := range b.seed {
			binary.LittleEndian.PutUint16(gb[2*i:], v)
		}
		off := bytes.Index(rd.served, gb[:4])
		offs = append(offs, fmt.Sprintf("grease:%d:%d", off, len(gb)))
	}
	seen2 := map[uint16]bool{}
	for idx, s := range shares {
		if negIsGrease(s.group) || seen2[s.group] || match[idx] != "1" {
			seen2[s.group] = seen2[s.group] || !negIsGrease(s.group)
			continue
		}
		seen2[s.group] = true
		switch s.group {
		case 4588, 0x6399:
			ek, mk := ks.EcdheKeys[tls.CurveID(s.group)], ks.MlkemKeys[tls.CurveID(s.group)]
			if ek == nil {
				ek = ks.MlkemEcdhe
			}
			if mk == nil {
				mk = ks.Mlkem
			}
			locate(fmt.Sprintf("k%d", idx), ek.Bytes(), false)
			locate(fmt.Sprintf("m%d", idx), mk.Bytes(), false)
		default:
			k := ks.EcdheKeys[tls.CurveID(s.group)]
			if k == nil {
				k = ks.Ecdhe
			}
			locate(fmt.Sprintf("k%d", idx), k.Bytes(), s.group != 29)
		}
	}
	readsTok, srcsTok := joinList(reads), joinList(srcs)
	if rd.mode != "" && rd.mode != "full" {
		readsTok, srcsTok = "-", "-" // logical reads are not observable under a chunking reader; offsets are
	}
	return fmt.Sprintf("wire=%s keys=%s match=%s sid=%d reads=%s srcs=%s offs=%s total=%d", joinList(wire), keys, joinList(match), sidLen, readsTok, srcsTok, joinList(offs), len(rd.served))
}

// c18Build builds the hello of a case (TLS or QUIC client; optionally the preset applied twice).
func c18Build(in KV, rd *n2Reader) (*c18Built, string, string) {
	cl, err := n2ClientFor(in)
	if err != nil {
		return nil, "", "out=bad-spec msg=" + sanitize(err.Error())
	}
	// the spec as it is before anything is applied (a fresh copy: ApplyPreset writes into the spec's shares)
	specDesc := "-"
	if cl.spec != nil {
		specDesc = c18SpecShares(cl.spec)
	} else if sp, err := tls.UTLSIdToSpec(cl.id); err == nil {
		specDesc = c18SpecShares(&sp)
	}
	if cl.captured != nil {
		// the key shares of the hello the Fingerprinter was given
		if cs, ok := c18ParseShares(cl.captured); ok {
			var caps []string
			for _, s := range cs {
				caps = append(caps, fmt.Sprintf("%d:%d", s.group, len(s.data)))
			}
			specDesc += " cap=" + joinList(caps)
		}
	}
	cfg := &tls.Config{ServerName: "example.golang", OmitEmptyPsk: cl.omitPsk, Rand: rd}
	b := &c18Built{}
	var u *tls.UConn
	switch in["via"] {
	case "", "tls":
		u = tls.UClient(nullConn{}, cfg, cl.id)
	case "quic", "quicstart":
		cfg.MinVersion = tls.VersionTLS13
		q := tls.UQUICClient(&tls.QUICConfig{TLSConfig: cfg}, cl.id)
		u = tls.VerifUQUICUConn(q)
		if in["via"] == "quicstart" {
			// the public path: ApplyPreset, Start, first QUICWriteData event = the ClientHello
			if cl.spec != nil {
				if err := q.ApplyPreset(cl.spec); err != nil {
					b.err = err
					return b, specDesc, ""
				}
			}
			q.SetTransportParameters([]byte{})
			ctx, cancel := context.WithTimeout(context.Background(), 3*time.Second)
			defer cancel()
			if err := q.Start(ctx); err != nil {
				b.err = err
				return b, specDesc, ""
			}
			for {
				ev := q.NextEvent()
				if ev.Kind == tls.QUICNoEvent {
					break
				}
				if ev.Kind == tls.QUICWriteData && len(b.raw) == 0 {
					b.raw = append([]byte(nil), ev.Data...)
				}
			}
			cancel()
			q.Close()
			if len(b.raw) == 0 {
				b.err = fmt.Errorf("no ClientHello event")
				return b, specDesc, ""
			}
			b.keys = u.HandshakeState.State13.KeyShareKeys
			b.seed = u.VerifGreaseSeed()
			return b, specDesc, ""
		}
	default:
		return nil, "", "out=bad-via"
	}
	if cl.spec != nil {
		if err := u.ApplyPreset(cl.spec); err != nil {
			b.err = err
			return b, specDesc, ""
		}
	}
	if in["twice"] == "1" {
		// the preset applied twice: for a predefined / randomized id through BuildHandshakeStateWithoutSession
		// followed by BuildHandshakeState (what Handshake calls); for a custom spec (which only the caller
		// applies) by applying the same spec object again
		if cl.spec != nil {
			if err := u.ApplyPreset(cl.spec); err != nil {
				b.err = err
				return b, specDesc, ""
			}
		} else if err := u.BuildHandshakeStateWithoutSession(); err != nil {
			b.err = err
			return b, specDesc, ""
		}
	}
	if err := u.BuildHandshakeState(); err != nil {
		b.err = err
		return b, specDesc, ""
	}
	b.raw = append([]byte(nil), u.HandshakeState.Hello.Raw...)
	b.keys = u.HandshakeState.State13.KeyShareKeys
	b.seed = u.VerifGreaseSeed()
	b.uconn = u
	return b, specDesc, ""
}

func c18SharesExec(in KV) string {
	seed := uint64(1)
	if in["seed"] != "" {
		seed = in.U64("seed")
	}
	rd := newN2ReaderMode(seed, in["rd"])
	b, specDesc, bad := c18Build(in, rd)
	if bad != "" {
		return bad
	}
	if b.err != nil {
		return fmt.Sprintf("spec=%s err=%s", specDesc, sanitize(b.err.Error()))
	}
	return fmt.Sprintf("spec=%s err=- %s", specDesc, c18Describe(b, rd))
}

// c18ReapplyExec: the preset applied twice (BuildHandshakeStateWithoutSession, then BuildHandshakeState as
// Handshake does), the state after the second application, and what a handshake started that way does.
func c18ReapplyExec(in KV) string {
	seed := uint64(1)
	if in["seed"] != "" {
		seed = in.U64("seed")
	}
	// state after the first application only
	rd1 := newN2Reader(seed)
	in1 := KV{}
	for k, v := range in {
		in1[k] = v
	}
	in1["twice"] = ""
	b1, specDesc, bad := c18Build(in1, rd1)
	if bad != "" {
		return bad
	}
	if b1.err != nil {
		return fmt.Sprintf("spec=%s err=%s", specDesc, sanitize(b1.err.Error()))
	}
	first := len(rd1.log)
	rd2 := newN2Reader(seed)
	in2 := KV{}
	for k, v := range in {
		in2[k] = v
	}
	in2["twice"] = "1"
	b2, _, _ := c18Build(in2, rd2)
	if b2.err != nil {
		return fmt.Sprintf("spec=%s err=%s", specDesc, sanitize(b2.err.Error()))
	}
	shares1, _ := c18ParseShares(b1.raw)
	var wire1 []string
	for _, s := range shares1 {
		wire1 = append(wire1, fmt.Sprintf("%d:%d", s.group, len(s.data)))
	}
	// a real handshake started the same way
	cl, _ := n2ClientFor(in)
	res := runHS(HSOpts{ID: cl.id, Spec: cl.spec, ClientCfg: &tls.Config{OmitEmptyPsk: cl.omitPsk, Rand: newN2Reader(seed ^ 0x6873)}, AppData: []byte("ping"),
		ServerCfg: &tls.Config{CurvePreferences: []tls.CurveID{tls.X25519, tls.CurveP256, tls.CurveP384, tls.CurveP521}},
		Prepare: func(u *tls.UConn) error {
			if cl.spec != nil {
				return u.ApplyPreset(cl.spec)
			}
			return u.BuildHandshakeStateWithoutSession()
		}})
	app := 0
	if res.EchoOK {
		app = 1
	}
	herr := errClass(res.ClientErr)
	if res.PrepareErr != nil {
		herr = "prepare:" + sanitize(res.PrepareErr.Error())
	}
	return fmt.Sprintf("spec=%s err=- first=%d wire1=%s %s hs=%s app=%d", specDesc, first, joinList(wire1), c18Describe(b2, rd2), herr, app)
}

func c18FreshExec(in KV) string {
	cl, err := n2ClientFor(in)
	if err != nil {
		return "out=bad-spec msg=" + sanitize(err.Error())
	}
	n := in.Int("n")
	rands, sids, shares := map[string]bool{}, map[string]bool{}, map[string]bool{}
	nshares := 0
	shared := &tls.Config{ServerName: "example.golang", OmitEmptyPsk: cl.omitPsk} // Rand nil: crypto/rand
	if in["rd"] != "" && in["rd"] != "full" {
		shared.Rand = &c18ChunkedCryptoRand{mode: in["rd"]} // real randomness handed out in short reads
	}
	for i := 0; i < n; i++ {
		c, err := n2ClientFor(in)
		if err != nil {
			return "out=bad-spec"
		}
		raw, err := n2BuildHello(c, shared)
		if err != nil {
			return "out=build-error msg=" + sanitize(err.Error())
		}
		rands[string(raw[6:38])] = true
		sl := int(raw[38])
		sids[string(raw[39:39+sl])] = true
		ss, _ := c18ParseShares(raw)
		for _, s := range ss {
			if negIsGrease(s.group) {
				continue
			}
			nshares++
			shares[string(s.data)] = true
		}
	}
	return fmt.Sprintf("rands=%d sids=%d shares=%d/%d", len(rands), len(sids), len(shares), nshares)
}

// c18ChunkedCryptoRand serves crypto/rand bytes under a reader discipline (see n2Reader).
type c18ChunkedCryptoRand struct {
	mode string
	n    int
}

func (r *c18ChunkedCryptoRand) Read(p []byte) (int, error) {
	if len(p) == 0 {
		return 0, nil
	}
	r.n++
	k := 1
	switch r.mode {
	case "short":
		k = 1 + r.n%len(p)
	case "zero":
		if r.n%4 == 0 {
			return 0, nil
		}
		k = 1 + r.n%len(p)
	}
	return crand.Read(p[:k])
}

// ---- generators ----

var c18Customs = []string{
	"ks=29", "ks=23", "ks=24", "ks=25", "ks=4588", "ks=25497",
	"ks=29+23", "ks=23+29", "ks=G+29+23+24+25", "ks=25+24+23+29",
	"ks=G+4588+29", "ks=4588+25497+29", "ks=25497+4588", "ks=G+25497+29+23",
	"ks=29+29", "ks=4588+4588+23", "ks=none", "ks=G", "ks=G+G+29",
	"ks=30", "ks=256", "ks=29+65281", "ks=0",
}

// a HelloRetryRequest to a hybrid group is C10's open finding `hrr-hybrid`, not a key share
func c18HybridHRR(c [2]string) bool {
	return c[0] == "g13-hrr" && (strings.Contains(c[1], "curves=4588") || strings.Contains(c[1], "curves=25497"))
}

type c18Plan struct{ shares, reapply, hs, fresh []string }

var c18PlanCache *c18Plan

func c18MkPlan() *c18Plan {
	p := &c18Plan{}
	for _, id := range parrotIDs {
		name := idName(id)
		for _, via := range []string{"tls", "quic"} {
			p.shares = append(p.shares, fmt.Sprintf("id=%s src=parrot via=%s", name, via))
		}
		p.shares = append(p.shares, fmt.Sprintf("id=%s src=fp via=tls", name))
		// reader disciplines: Config.Rand serving one byte per Read / random short reads / occasional empty reads
		for i, rd := range []string{"one", "short", "zero"} {
			via := "tls"
			if i == len(name)%3 {
				via = "quic"
			}
			p.shares = append(p.shares, fmt.Sprintf("id=%s src=parrot via=%s rd=%s", name, via, rd))
		}
		p.reapply = append(p.reapply, fmt.Sprintf("id=%s src=parrot", name))
		p.fresh = append(p.fresh, fmt.Sprintf("id=%s src=parrot n=12", name))
		// handshakes: the server forced to every offered share and to every listed classical group without share
		ch, err := n2Inspect("id=" + name + " src=parrot seed=1")
		if err != nil || !negHas16(ch.vers, 0x0304) {
			continue
		}
		hybrid := negHas16(ch.shares, 4588) || negHas16(ch.shares, 0x6399)
		for _, c := range n2ServerConfigs(ch, true, nil, 0) {
			if strings.HasPrefix(c[0], "g13-") && !c18HybridHRR(c) {
				p.hs = append(p.hs, fmt.Sprintf("id=%s src=parrot %s mode=%s", name, c[1], c[0]))
				// the fingerprinted copy of a hello with a hybrid share: every share regenerated and backed
				if hybrid && c[0] != "g13-hrr" {
					p.hs = append(p.hs, fmt.Sprintf("id=%s src=fp %s mode=fp-%s", name, c[1], c[0]))
				}
			}
		}
		if hybrid {
			p.fresh = append(p.fresh, fmt.Sprintf("id=%s src=fp n=12", name))
		}
		// a key share generated and then taken out of the built KeyShareExtension; the server retries with its group
		for _, g := range n2Real(ch.shares) {
			if g == 23 || g == 24 || g == 25 || g == 29 {
				p.hs = append(p.hs, fmt.Sprintf("id=%s src=parrot smax=0304 curves=%d post=dropshare:%d mode=seq-dropshare-hrr", name, g, g))
			}
		}
	}
	for _, ks := range c18Customs {
		for _, via := range []string{"tls", "quic"} {
			p.shares = append(p.shares, fmt.Sprintf("id=Chrome-133 src=custom mods=%s,sg=4588+29+23+24+25+25497 via=%s", ks, via))
		}
		toks := fmt.Sprintf("id=Chrome-133 src=custom mods=%s,sg=4588+29+23+24+25+25497", ks)
		p.shares = append(p.shares, toks+" via=tls rd=one", toks+" via=tls rd=zero")
		p.reapply = append(p.reapply, toks)
		ch, err := n2Inspect(toks + " seed=1")
		if err != nil {
			continue
		}
		for _, c := range n2ServerConfigs(ch, true, nil, 0) {
			if strings.HasPrefix(c[0], "g13-") && !c18HybridHRR(c) {
				p.hs = append(p.hs, fmt.Sprintf("%s %s mode=custom-%s", toks, c[1], c[0]))
			}
		}
	}
	for _, sq := range c10RetrySeqs {
		p.hs = append(p.hs, sq.toks+" mode=seq-"+sq.tag)
	}
	p.fresh = append(p.fresh, "id=Firefox-120 src=fp n=12")
	// caller-supplied share data (no key generated), and the QUIC public path
	p.shares = append(p.shares, "id=Chrome-133 src=custom mods=quictp,only13 via=quicstart", "id=Firefox-120 src=custom mods=quictp,only13 via=quicstart",
		"id=Chrome-133 src=custom mods=quictp,only13,ks=4588+23+29 via=quicstart")
	p.fresh = append(p.fresh, "id=Chrome-133 src=custom mods=ks=4588+25497+29+23+24+25,sg=4588+29+23+24+25+25497 n=8",
		"id=Golang-0 src=rand n=10",
		// real randomness served one byte per Read / in short reads: enough connections that a key derived from
		// a single byte of it would repeat (64 draws from 256 values collide with probability > 0.999)
		"id=Chrome-133 src=parrot n=64 rd=one", "id=Chrome-115_PQ src=parrot n=64 rd=one", "id=Chrome-131 src=parrot n=64 rd=short",
		"id=Firefox-120 src=parrot n=64 rd=one", "id=Chrome-133 src=custom mods=ks=4588+25497+25+24,sg=4588+29+23+24+25+25497 n=64 rd=zero")
	sort.Strings(p.hs)
	return p
}

func c18Get() *c18Plan {
	if c18PlanCache == nil {
		c18PlanCache = c18MkPlan()
	}
	return c18PlanCache
}

func c18GenFrom(sel func(*c18Plan) []string, extraRand int, extraToks func(r *Rng, seed uint64) string) func(r *Rng, i int, tier string) string {
	return func(r *Rng, i int, tier string) string {
		plan := sel(c18Get())
		reps := 1
		if tier == "thorough" {
			reps = 8
		}
		if i < len(plan)*reps {
			return fmt.Sprintf("%s seed=%d", plan[i%len(plan)], r.U64()>>1)
		}
		j := i - len(plan)*reps
		if extraToks == nil || j >= extraRand*reps {
			return ""
		}
		return extraToks(r, r.U64()>>1)
	}
}

func init() {
	register(&Family{Name: "c18_shares", Exec: c18SharesExec,
		Gen: c18GenFrom(func(p *c18Plan) []string { return p.shares }, 160, func(r *Rng, seed uint64) string {
			src := []string{"rand", "randalpn", "randnoalpn"}[r.Intn(3)]
			via := []string{"tls", "tls", "quic"}[r.Intn(3)]
			return fmt.Sprintf("id=Golang-0 src=%s via=%s seed=%d", src, via, seed)
		})})
	register(&Family{Name: "c18_reapply", Exec: c18ReapplyExec,
		Gen: c18GenFrom(func(p *c18Plan) []string { return p.reapply }, 30, func(r *Rng, seed uint64) string {
			return fmt.Sprintf("id=Golang-0 src=rand seed=%d", seed)
		})})
	register(&Family{Name: "c18_hs", Exec: n2Exec,
		Gen: c18GenFrom(func(p *c18Plan) []string { return p.hs }, 0, nil)})
	register(&Family{Name: "c18_fresh", Exec: c18FreshExec, Timeout: 60 * time.Second,
		Gen: c18GenFrom(func(p *c18Plan) []string { return p.fresh }, 0, nil)})
}
