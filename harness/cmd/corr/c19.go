package main

// C19 — session resumption over a shared ClientSessionCache (cache-driven path:
// loadSession guards, uLoadSession / uApplyPatch, PSK placement and binder patching).
//
// Families:
//   resume_load  one client, one crafted cache entry, no server: the ClientHello the real code
//                writes (Handshake against a sink conn) is parsed and the offer decision, the PSK
//                extension layout, the binder (checked with an independent HMAC/HKDF), the hello
//                length before/after the binder patch and the cache operations are reported.
//   resume_seq   2-5 real handshakes (TCP loopback, kit CA) over one cache and one set of
//                server ticket keys; per connection: spec features, offer, DidResume on both
//                sides, error classes, cache operations, a peek at the cache entry.
//   resume_ext   pskExtLen on generated identity/binder lists.

import (
	"bytes"
	"crypto/hmac"
	"crypto/sha256"
	"crypto/sha512"
	"crypto/x509"
	"fmt"
	"hash"
	"io"
	"net"
	"strings"
	"time"

	tls "github.com/refraction-networking/utls"
)

// ---------------------------------------------------------------------------------------------
// time base: all times on the lines are second offsets from E = B - 100 days, where B is the
// second at which the kit's certificates were created (good leaves: NotBefore B-24h, NotAfter
// B+365d; expired leaf: NotAfter B-48h).

const c19EpochBack = 100 * 86400

func c19Epoch() int64 {
	leaf, _ := x509.ParseCertificate(kit().leaf["ecdsa"].Certificate[0])
	return leaf.NotAfter.Unix() - 365*86400 - c19EpochBack
}

func c19Time(off int64) func() time.Time {
	e := c19Epoch()
	return func() time.Time { return time.Unix(e+off, 0) }
}

var c19Names = map[string]string{"a": "example.golang", "b": "verif.test", "w": "other.invalid", "-": ""}

const c19Remote = "192.0.2.7:443"

func c19KeyLabel(k string) string {
	for l, n := range c19Names {
		if n == k && l != "-" {
			return l
		}
	}
	if k == c19Remote {
		return "r"
	}
	if k == "" {
		return "e"
	}
	return "x"
}

// ---------------------------------------------------------------------------------------------
// ClientHello parsing (strict: every length field must be exact)

type chExt struct {
	id   uint16
	body []byte
}

type parsedCH struct {
	ok        bool
	sessionID []byte
	suites    []uint16
	exts      []chExt
}

func parseCH(msg []byte) (p parsedCH) {
	if len(msg) < 4 || msg[0] != 1 {
		return
	}
	n := int(msg[1])<<16 | int(msg[2])<<8 | int(msg[3])
	b := msg[4:]
	if n != len(b) || len(b) < 35 {
		return
	}
	b = b[34:]
	sl := int(b[0])
	if len(b) < 1+sl+2 {
		return
	}
	p.sessionID = b[1 : 1+sl]
	b = b[1+sl:]
	cl := int(b[0])<<8 | int(b[1])
	if cl%2 != 0 || len(b) < 2+cl+1 {
		return
	}
	for i := 0; i < cl; i += 2 {
		p.suites = append(p.suites, uint16(b[2+i])<<8|uint16(b[3+i]))
	}
	b = b[2+cl:]
	ml := int(b[0])
	if len(b) < 1+ml {
		return
	}
	b = b[1+ml:]
	if len(b) == 0 {
		p.ok = true
		return
	}
	if len(b) < 2 {
		return
	}
	el := int(b[0])<<8 | int(b[1])
	b = b[2:]
	if el != len(b) {
		return
	}
	for len(b) > 0 {
		if len(b) < 4 {
			return
		}
		id := uint16(b[0])<<8 | uint16(b[1])
		l := int(b[2])<<8 | int(b[3])
		if len(b) < 4+l {
			return
		}
		p.exts = append(p.exts, chExt{id, b[4 : 4+l]})
		b = b[4+l:]
	}
	p.ok = true
	return
}

type parsedPSK struct {
	ok      bool
	labels  [][]byte
	ages    []uint32
	binders [][]byte
	bindLen int // length of the binders block incl. its uint16 prefix
}

func parsePSKBody(b []byte) (p parsedPSK) {
	if len(b) < 2 {
		return
	}
	il := int(b[0])<<8 | int(b[1])
	if len(b) < 2+il+2 {
		return
	}
	ids := b[2 : 2+il]
	for len(ids) > 0 {
		if len(ids) < 2 {
			return
		}
		l := int(ids[0])<<8 | int(ids[1])
		if len(ids) < 2+l+4 {
			return
		}
		p.labels = append(p.labels, ids[2:2+l])
		a := ids[2+l:]
		p.ages = append(p.ages, uint32(a[0])<<24|uint32(a[1])<<16|uint32(a[2])<<8|uint32(a[3]))
		ids = ids[2+l+4:]
	}
	r := b[2+il:]
	bl := int(r[0])<<8 | int(r[1])
	if len(r) != 2+bl {
		return
	}
	p.bindLen = 2 + bl
	bs := r[2:]
	for len(bs) > 0 {
		l := int(bs[0])
		if len(bs) < 1+l {
			return
		}
		p.binders = append(p.binders, bs[1:1+l])
		bs = bs[1+l:]
	}
	p.ok = true
	return
}

// helloOffer renders the resumption-relevant part of one ClientHello message.
type helloOffer struct {
	parsed   bool
	kind     string // none | tk | psk | bad
	ticket   []byte // session_ticket body or first PSK identity
	pos, n   int    // index of pre_shared_key, number of extensions
	nid      int
	age      uint32
	binder   []byte
	nbind    int
	xl       int // total length of the pre_shared_key extension incl. its 4-byte header
	bindLen  int
	hasEMS   bool
	dupSess  bool // more than one session_ticket / pre_shared_key extension
	tkBodyLn int
}

func offerOf(msg []byte) helloOffer {
	o := helloOffer{kind: "none", pos: -1}
	p := parseCH(msg)
	if !p.ok {
		o.kind = "bad"
		return o
	}
	o.parsed = true
	o.n = len(p.exts)
	ntk, npsk := 0, 0
	for i, e := range p.exts {
		switch e.id {
		case 23:
			o.hasEMS = true
		case 35:
			ntk++
			o.tkBodyLn = len(e.body)
			if len(e.body) > 0 && o.kind == "none" {
				o.kind = "tk"
				o.ticket = e.body
			}
		case 41:
			npsk++
			q := parsePSKBody(e.body)
			if !q.ok || len(q.labels) == 0 || len(q.binders) == 0 {
				o.kind = "bad"
				return o
			}
			o.kind = "psk"
			o.pos = i
			o.ticket = q.labels[0]
			o.nid = len(q.labels)
			o.age = q.ages[0]
			o.binder = q.binders[0]
			o.nbind = len(q.binders)
			o.xl = 4 + len(e.body)
			o.bindLen = q.bindLen
		}
	}
	o.dupSess = ntk > 1 || npsk > 1
	return o
}

// ---------------------------------------------------------------------------------------------
// independent binder computation (RFC 8446 7.1 / 4.2.11.2) with the standard library only

func c19Hash(size int) func() hash.Hash {
	if size == 48 {
		return sha512.New384
	}
	return sha256.New
}

func hkdfExtract(h func() hash.Hash, salt, ikm []byte) []byte {
	if salt == nil {
		salt = make([]byte, h().Size())
	}
	m := hmac.New(h, salt)
	m.Write(ikm)
	return m.Sum(nil)
}

func hkdfExpandLabel(h func() hash.Hash, secret []byte, label string, ctx []byte, n int) []byte {
	full := "tls13 " + label
	info := []byte{byte(n >> 8), byte(n), byte(len(full))}
	info = append(info, full...)
	info = append(info, byte(len(ctx)))
	info = append(info, ctx...)
	m := hmac.New(h, secret)
	m.Write(info)
	m.Write([]byte{1})
	return m.Sum(nil)[:n]
}

// binderFor computes the resumption binder over `transcriptPrefix || truncatedHello`.
func binderFor(hashSize int, psk, transcriptPrefix, truncatedHello []byte) []byte {
	h := c19Hash(hashSize)
	early := hkdfExtract(h, nil, psk)
	e := h()
	binderKey := hkdfExpandLabel(h, early, "res binder", e.Sum(nil), hashSize)
	fk := hkdfExpandLabel(h, binderKey, "finished", nil, hashSize)
	t := h()
	t.Write(transcriptPrefix)
	t.Write(truncatedHello)
	m := hmac.New(h, fk)
	m.Write(t.Sum(nil))
	return m.Sum(nil)
}

// ---------------------------------------------------------------------------------------------
// logging cache

type logCache struct {
	inner  tls.ClientSessionCache
	mirror map[string]*tls.ClientSessionState
	log    []string
	frozen bool // stop logging (after the ClientHello went out, for resume_load)
	faulty bool // Get ignores the key and returns the only entry
}

func newLogCache() *logCache {
	return &logCache{inner: tls.NewLRUClientSessionCache(16), mirror: map[string]*tls.ClientSessionState{}}
}

func (c *logCache) Get(k string) (*tls.ClientSessionState, bool) {
	var s *tls.ClientSessionState
	var ok bool
	if c.faulty {
		for _, v := range c.mirror {
			if v != nil {
				s, ok = v, true
			}
		}
	} else {
		s, ok = c.inner.Get(k)
	}
	if !c.frozen {
		if ok && s != nil {
			c.log = append(c.log, "g"+c19KeyLabel(k))
		} else {
			c.log = append(c.log, "m"+c19KeyLabel(k))
		}
	}
	return s, ok
}

func (c *logCache) Put(k string, s *tls.ClientSessionState) {
	if !c.frozen {
		if s == nil {
			c.log = append(c.log, "d"+c19KeyLabel(k))
		} else {
			c.log = append(c.log, "p"+c19KeyLabel(k))
		}
	}
	c.inner.Put(k, s)
	if s == nil {
		delete(c.mirror, k)
	} else {
		c.mirror[k] = s
	}
}

func (c *logCache) takeLog() string {
	l := c.log
	c.log = nil
	if len(l) == 0 {
		return "-"
	}
	return strings.Join(l, ".")
}

// ---------------------------------------------------------------------------------------------
// ids and spec variants:  <base>[~mod]*   mods: custom noems notk nopk rec

// recPSK wraps the real UtlsPreSharedKeyExtension and records the marshalled hello before and
// after the real PatchBuiltHello.
type recPSK struct {
	*tls.UtlsPreSharedKeyExtension
	called        int
	before, after []byte
	err           error
}

func (r *recPSK) PatchBuiltHello(h *tls.PubClientHelloMsg) error {
	r.called++
	r.before = append([]byte(nil), h.Raw...)
	r.err = r.UtlsPreSharedKeyExtension.PatchBuiltHello(h)
	r.after = append([]byte(nil), h.Raw...)
	return r.err
}

type c19ID struct {
	name   string
	id     tls.ClientHelloID
	spec   *tls.ClientHelloSpec // non-nil: HelloCustom + ApplyPreset
	rec    *recPSK
	golang bool
}

func c19ParseID(name string) (*c19ID, error) {
	parts := strings.Split(name, "~")
	base, ok := idByName(parts[0])
	if !ok {
		return nil, fmt.Errorf("bad id %q", name)
	}
	out := &c19ID{name: name, id: base, golang: base == tls.HelloGolang}
	if len(parts) == 1 {
		return out, nil
	}
	if out.golang {
		return nil, fmt.Errorf("no variants of Golang")
	}
	spec, err := tls.UTLSIdToSpec(base)
	if err != nil {
		return nil, err
	}
	for _, m := range parts[1:] {
		var keep []tls.TLSExtension
		for _, e := range spec.Extensions {
			drop := false
			switch e.(type) {
			case *tls.ExtendedMasterSecretExtension:
				drop = m == "noems"
			case tls.ISessionTicketExtension:
				drop = m == "notk"
			case tls.PreSharedKeyExtension:
				drop = m == "nopk"
				if m == "rec" {
					if u, ok := e.(*tls.UtlsPreSharedKeyExtension); ok {
						out.rec = &recPSK{UtlsPreSharedKeyExtension: u}
						e = out.rec
					}
				}
			}
			if !drop {
				keep = append(keep, e)
			}
		}
		spec.Extensions = keep
		switch m {
		case "custom", "noems", "notk", "nopk", "rec":
		default:
			return nil, fmt.Errorf("bad variant %q", m)
		}
	}
	out.id = tls.HelloCustom
	out.spec = &spec
	return out, nil
}

// specFeatures: what the resumption logic looks at, read from the built handshake state.
type c19Feat struct {
	golang, tk, pk, ems, modes, skip bool
	vers, suites                     []uint16
}

func featOf(id *c19ID, u *tls.UConn) c19Feat {
	f := c19Feat{golang: id.golang, skip: u.VerifSkipResumptionOnNilExtension()}
	if id.golang {
		f.tk, f.pk = true, true
	}
	if id.golang {
		f.ems = true
	}
	for _, e := range u.Extensions {
		switch x := e.(type) {
		case tls.ISessionTicketExtension:
			f.tk = true
		case tls.PreSharedKeyExtension:
			f.pk = true
		case *tls.ExtendedMasterSecretExtension:
			f.ems = true
		case *tls.GenericExtension:
			if x.Id == 23 {
				f.ems = true
			}
		}
	}
	if h := u.HandshakeState.Hello; h != nil {
		f.vers = h.SupportedVersions
		f.suites = h.CipherSuites
		for _, m := range h.PskModes {
			if m == 1 {
				f.modes = true
			}
		}
		if id.golang {
			// crypto/tls's loadSession sets psk_key_exchange_modes itself when TLS 1.3 is offered
			f.modes = len(h.SupportedVersions) > 0 && h.SupportedVersions[0] == tls.VersionTLS13
		}
	}
	return f
}

func dotHex16(xs []uint16) string {
	if len(xs) == 0 {
		return "-"
	}
	ss := make([]string, len(xs))
	for i, x := range xs {
		ss[i] = fmt.Sprintf("%04x", x)
	}
	return strings.Join(ss, ".")
}

func (f c19Feat) String() string {
	return fmt.Sprintf("g:%s;tk:%s;pk:%s;ems:%s;md:%s;sk:%s;vs:%s;cs:%s", b2i(f.golang), b2i(f.tk), b2i(f.pk), b2i(f.ems), b2i(f.modes),
		b2i(f.skip), dotHex16(f.vers), dotHex16(f.suites))
}

// suite tables of the code under test for the suites that occur in a case
func suiteTables(suites map[uint16]bool) (k12, h13 string) {
	var ks, hs []string
	for _, id := range sortedU16(suites) {
		if tls.VerifSuiteKnown12(id) {
			ks = append(ks, fmt.Sprintf("%04x", id))
		}
		if n := tls.VerifSuiteHash13(id); n != 0 {
			hs = append(hs, fmt.Sprintf("%04x:%d", id, n))
		}
	}
	return joinDots(ks), joinDots(hs)
}

func joinDots(xs []string) string {
	if len(xs) == 0 {
		return "-"
	}
	return strings.Join(xs, ".")
}

func sortedU16(m map[uint16]bool) []uint16 {
	var xs []uint16
	for k := range m {
		xs = append(xs, k)
	}
	for i := 1; i < len(xs); i++ {
		for j := i; j > 0 && xs[j] < xs[j-1]; j-- {
			xs[j], xs[j-1] = xs[j-1], xs[j]
		}
	}
	return xs
}

func c19ErrClass(err error) string {
	if err == nil {
		return "ok"
	}
	s := err.Error()
	switch {
	case strings.Contains(s, "session resumption is enabled, but there is no"):
		return "panic-noext"
	case strings.Contains(s, "does not support reprocessing of PSK key"):
		return "psk-hrr"
	case strings.Contains(s, "empty psk detected"):
		return "emptypsk"
	case strings.Contains(s, "certificate has expired or is not yet valid"):
		return "certtime"
	case strings.Contains(s, "x509: certificate is valid for") || strings.Contains(s, "x509: certificate is not valid for any names"):
		return "certname"
	case strings.Contains(s, "session supported extended_master_secret but client does not"):
		return "ems-abort"
	case strings.Contains(s, "invalid PSK binder"):
		return "bad-binder"
	case strings.Contains(s, "at least one of ServerName, InsecureSkipVerify"):
		return "noname"
	case strings.Contains(s, "the patch should never change the length"):
		return "panic-patchlen"
	case strings.HasPrefix(s, "client-panic:") || strings.HasPrefix(s, "server-panic:"):
		return "panic:" + sanitize(s)[:min(len(sanitize(s)), 90)]
	}
	return errClass(err)
}

// applyCfgFlags: d SessionTicketsDisabled, v InsecureSkipVerify, t InsecureSkipTimeVerify,
// o OmitEmptyPsk, p PreferSkipResumptionOnNilExtension, n no cache
func applyCfgFlags(c *tls.Config, flags string) {
	c.SessionTicketsDisabled = strings.Contains(flags, "d")
	c.InsecureSkipVerify = strings.Contains(flags, "v")
	c.InsecureSkipTimeVerify = strings.Contains(flags, "t")
	c.OmitEmptyPsk = strings.Contains(flags, "o")
	c.PreferSkipResumptionOnNilExtension = strings.Contains(flags, "p")
	if strings.Contains(flags, "n") {
		c.ClientSessionCache = nil
	}
}

// ---------------------------------------------------------------------------------------------
// resume_load

type sinkConn struct {
	wrote   bytes.Buffer
	onWrite func()
}

func (s *sinkConn) Read(p []byte) (int, error) { return 0, io.EOF }
func (s *sinkConn) Write(p []byte) (int, error) {
	if s.onWrite != nil {
		s.onWrite()
	}
	s.wrote.Write(p)
	return len(p), nil
}
func (s *sinkConn) Close() error                     { return nil }
func (s *sinkConn) LocalAddr() net.Addr              { return &net.TCPAddr{IP: net.IPv4(192, 0, 2, 1), Port: 50000} }
func (s *sinkConn) RemoteAddr() net.Addr             { return &net.TCPAddr{IP: net.IPv4(192, 0, 2, 7), Port: 443} }
func (s *sinkConn) SetDeadline(time.Time) error      { return nil }
func (s *sinkConn) SetReadDeadline(time.Time) error  { return nil }
func (s *sinkConn) SetWriteDeadline(time.Time) error { return nil }

func c19Cert(kind string) *x509.Certificate {
	var der []byte
	switch kind {
	case "expired":
		der = kit().expired.Certificate[0]
	case "wrong":
		der = kit().wrongName.Certificate[0]
	default:
		der = kit().leaf["ecdsa"].Certificate[0]
	}
	c, _ := x509.ParseCertificate(der)
	return c
}

var loadIDs = []string{
	"Chrome-100_PSK", "Chrome-112_PSK", "Chrome-114_PSK", "Chrome-115_PQ_PSK", "Chrome-100_PSK~rec", "Chrome-115_PQ_PSK~rec",
	"Chrome-100_PSK~rec~noems", "Chrome-100_PSK~notk", "Chrome-100_PSK~custom", "Chrome-100", "Chrome-120", "Chrome-100~custom",
	"Chrome-58", "Chrome-58~noems", "Firefox-55", "Firefox-105", "360Browser-7.5", "iOS-14", "iOS-12.1", "Safari-16.0", "Edge-106", "Golang-0",
}

func genResumeLoad(r *Rng, i int, tier string) string {
	id := loadIDs[i%len(loadIDs)]
	// mostly-valid stream: each guard is switched off with small probability
	p := func(n int) bool { return r.Intn(n) == 0 }
	flags := ""
	if !p(12) {
		flags += "o"
	}
	if p(12) {
		flags += "d"
	}
	if p(8) {
		flags += "v"
	}
	if p(6) {
		flags += "t"
	}
	if p(3) {
		flags += "p"
	}
	if p(25) {
		flags += "n"
	}
	if p(10) {
		flags += "f"
	}
	if flags == "" {
		flags = "-"
	}
	sn := "a"
	if p(6) {
		sn = "b"
	}
	if p(15) {
		sn = "-"
		if !strings.Contains(flags, "v") {
			flags += "v"
		}
	}
	key := sn
	if sn == "-" {
		key = "r"
	}
	if p(8) {
		key = Pick(r, []string{"a", "b", "r"})
	}
	isn := "-"
	if p(5) {
		isn = Pick(r, []string{"*", "*", "a", "b", "w"})
	}
	sv := Pick(r, []string{"0303", "0303", "0304", "0304", "0304", "0302", "0301"})
	var ss string
	if sv == "0304" {
		ss = Pick(r, []string{"1301", "1301", "1302", "1303", "1304", "c02b"})
	} else {
		ss = Pick(r, []string{"c02b", "c02f", "c02b", "c009", "cca9", "c02c", "009c", "0a0a", "1301", "c0ff", "c013"})
	}
	now := int64(c19EpochBack) + int64(r.Intn(3))*3600
	// createdAt / useBy around now and the 7-day limit
	age := Pick(r, []int64{0, 1, 60, 3600, 86400, 7*86400 - 1, 7 * 86400, 7*86400 + 1, 8 * 86400, -5})
	sc := now - age
	su := sc + 7*86400
	if p(6) {
		su = now + Pick(r, []int64{-1, 0, 1})
	}
	if p(12) {
		now = int64(c19EpochBack) + 365*86400 + Pick(r, []int64{-1, 0, 1, 86400})
		if p(2) {
			sc = now - 3600
			su = sc + 7*86400
		}
	}
	cert := "good"
	if p(8) {
		cert = Pick(r, []string{"expired", "wrong"})
	}
	if isn == "*" && p(2) {
		cert = "wrong" // "*": the names of the cached certificate must not matter
	}
	ch := 1
	if p(8) {
		ch = 0
	}
	tl := Pick(r, []int{1, 16, 32, 100, 193, 255, 256, 300, 1000})
	return fmt.Sprintf("id=%s cfg=%s sn=%s key=%s isn=%s sv=%s ss=%s sems=%d sc=%d su=%d sa=%d tl=%d cert=%s ch=%d now=%d seed=%d",
		id, flags, sn, key, isn, sv, ss, r.Intn(2), sc, su, r.U64()&0xffffffff, tl, cert, ch, now, r.U64()>>1)
}

func parseHex16(s string) uint16 {
	var v uint16
	fmt.Sscanf(s, "%x", &v)
	return v
}

func execResumeLoad(in KV) string {
	id, err := c19ParseID(in["id"])
	if err != nil {
		return "out=bad-id"
	}
	E := c19Epoch()
	rr := NewRng(in.U64("seed"))
	flags := in["cfg"]
	cache := newLogCache()
	cache.faulty = strings.Contains(flags, "f")
	cfg := &tls.Config{ServerName: c19Names[in["sn"]], RootCAs: kit().pool, Time: c19Time(int64(in.Int("now"))),
		ClientSessionCache: cache, Rand: rr}
	applyCfgFlags(cfg, flags)
	switch in["isn"] {
	case "-":
	case "*":
		cfg.InsecureServerNameToVerify = "*"
	default:
		cfg.InsecureServerNameToVerify = c19Names[in["isn"]]
	}
	// the crafted session
	cert := c19Cert(in["cert"])
	leafGood, ca := kitCerts()
	_ = leafGood
	ticket := rr.Bytes(in.Int("tl"))
	secret := rr.Bytes(32)
	sv, ss := parseHex16(in["sv"]), parseHex16(in["ss"])
	hs := tls.VerifSuiteHash13(ss)
	if hs != 0 {
		secret = rr.Bytes(hs)
	}
	f := tls.VerifSessionFields{Version: sv, CipherSuite: ss, IsClient: true, CreatedAt: uint64(E + int64(in.Int("sc"))),
		Secret: secret, ExtMasterSecret: in["sems"] == "1", PeerCertificates: []*x509.Certificate{cert},
		UseBy: uint64(E + int64(in.Int("su"))), AgeAdd: uint32(in.U64("sa")), Ticket: ticket}
	if in["ch"] == "1" {
		f.VerifiedChains = [][]*x509.Certificate{{cert, ca}}
	}
	css, _ := tls.NewResumptionState(ticket, tls.VerifMakeSessionState(f))
	keyName := c19Names[in["key"]]
	if in["key"] == "r" {
		keyName = c19Remote
	}
	cache.inner.Put(keyName, css)
	cache.mirror[keyName] = css

	conn := &sinkConn{}
	conn.onWrite = func() { cache.frozen = true }
	u := tls.UClient(conn, cfg, id.id)
	var herr error
	func() {
		defer func() {
			if p := recover(); p != nil {
				herr = fmt.Errorf("client-panic: %v", p)
			}
		}()
		if id.spec != nil {
			if err := u.ApplyPreset(id.spec); err != nil {
				herr = err
				return
			}
		}
		herr = u.Handshake()
	}()
	cacheKey := c19KeyLabel(u.VerifClientSessionCacheKey())
	feat := featOf(id, u)
	suites := map[uint16]bool{ss: true}
	for _, s := range feat.suites {
		suites[s] = true
	}
	k12, h13 := suiteTables(suites)
	vh := ""
	for _, n := range []string{"a", "b", "w"} {
		vh += b2i(cert.VerifyHostname(c19Names[n]) == nil)
	}
	out := fmt.Sprintf("out=%s ck=%s f=%s k12=%s h13=%s vh=%s na=%d ops=%s", c19ErrClass(herr), cacheKey, feat, k12, h13, vh,
		cert.NotAfter.Unix()-E, cache.takeLog())
	chs := clientHellos(conn.wrote.Bytes())
	if len(chs) == 0 {
		return out + " off=nohello"
	}
	o := offerOf(chs[0])
	out += fmt.Sprintf(" off=%s n=%d dup=%s wems=%s", o.kind, o.n, b2i(o.dupSess), b2i(o.hasEMS))
	switch o.kind {
	case "tk":
		out += fmt.Sprintf(" idl=%d idm=%s", len(o.ticket), b2i(bytes.Equal(o.ticket, ticket)))
	case "psk":
		trunc := chs[0][:len(chs[0])-o.bindLen]
		want := binderFor(len(o.binder), secret, nil, trunc)
		out += fmt.Sprintf(" pos=%d nid=%d nb=%d idl=%d idm=%s age=%d bl=%d xl=%d bv=%s extlen=%d", o.pos, o.nid, o.nbind, len(o.ticket),
			b2i(bytes.Equal(o.ticket, ticket)), o.age, len(o.binder), o.xl, b2i(hmac.Equal(want, o.binder)),
			tls.VerifPskExtLen([]tls.PskIdentity{{Label: o.ticket, ObfuscatedTicketAge: o.age}}, [][]byte{o.binder}))
		if id.rec != nil {
			out += fmt.Sprintf(" patch=%d raw0=%s raw1=%s bnd=%s sent=%s", id.rec.called, hx(id.rec.before), hx(id.rec.after), hx(want),
				b2i(bytes.Equal(id.rec.after, chs[0])))
		}
	}
	return out
}

// ---------------------------------------------------------------------------------------------
// resume_seq

type seqConn struct {
	id     string
	sn     string // a | b
	smax   int    // 12 | 13
	ct, st int64
	hrr    bool
	flags  string
	isn    string // InsecureServerNameToVerify: "-" unset, "*", or a name label (a b w)
	ops    string // pre-handshake calls, '.'-separated: B BuildHandshakeState, R SetClientRandom, S SetSNI(same name), A edit of the ALPN extension; "-" = Handshake directly
}

func parseSeqConn(s string) (c seqConn, ok bool) {
	p := strings.Split(s, "/")
	if len(p) < 7 || len(p) > 9 {
		return c, false
	}
	c.id, c.sn, c.flags, c.ops, c.isn = p[0], p[1], p[6], "-", "-"
	if len(p) >= 8 {
		c.ops = p[7]
		for _, o := range strings.Split(c.ops, ".") {
			if o != "B" && o != "R" && o != "S" && o != "A" && o != "W" && o != "-" {
				return c, false
			}
		}
	}
	if len(p) == 9 {
		c.isn = p[8]
		if c.isn != "-" && c.isn != "*" && c.isn != "a" && c.isn != "b" && c.isn != "w" {
			return c, false
		}
	}
	var h int
	if _, err := fmt.Sscanf(p[2]+" "+p[3]+" "+p[4]+" "+p[5], "%d %d %d %d", &c.smax, &c.ct, &c.st, &h); err != nil {
		return c, false
	}
	c.hrr = h == 1
	if (c.smax != 12 && c.smax != 13) || (c.sn != "a" && c.sn != "b" && c.sn != "w") {
		return c, false
	}
	return c, true
}

func (c seqConn) String() string {
	base := fmt.Sprintf("%s/%s/%d/%d/%d/%s/%s", c.id, c.sn, c.smax, c.ct, c.st, b2i(c.hrr), c.flags)
	ops := c.ops
	if ops == "" {
		ops = "-"
	}
	if c.isn != "" && c.isn != "-" {
		return base + "/" + ops + "/" + c.isn
	}
	if ops == "-" {
		return base
	}
	return base + "/" + ops
}

// preOps runs the documented pre-handshake calls of one connection on the UConn.
func preOps(u *tls.UConn, ops string, name string, r *Rng) error {
	if ops == "" || ops == "-" {
		return nil
	}
	for _, o := range strings.Split(ops, ".") {
		switch o {
		case "B":
			if err := u.BuildHandshakeState(); err != nil {
				return err
			}
		case "W":
			if err := u.BuildHandshakeStateWithoutSession(); err != nil {
				return err
			}
		case "R":
			if err := u.SetClientRandom(r.Bytes(32)); err != nil {
				return err
			}
		case "S":
			u.SetSNI(name)
		case "A":
			for _, e := range u.Extensions {
				if a, ok := e.(*tls.ALPNExtension); ok {
					a.AlpnProtocols = append(append([]string(nil), a.AlpnProtocols...), "verif/1")
				}
			}
		}
	}
	return nil
}

// nBuilds: BuildHandshakeState calls of a connection (Handshake always builds once more).
func nBuilds(ops string) int {
	return strings.Count(ops, "B") + 1
}

// hrrGroup picks a group the hello lists without sending a share for it (server-supported).
func hrrGroup(id *c19ID) tls.CurveID {
	if id.golang {
		return tls.CurveP256
	}
	var spec tls.ClientHelloSpec
	if id.spec != nil {
		spec = *id.spec
	} else {
		s, err := tls.UTLSIdToSpec(id.id)
		if err != nil {
			return 0
		}
		spec = s
	}
	listed, shared := map[tls.CurveID]bool{}, map[tls.CurveID]bool{}
	for _, e := range spec.Extensions {
		switch x := e.(type) {
		case *tls.SupportedCurvesExtension:
			for _, g := range x.Curves {
				listed[g] = true
			}
		case *tls.KeyShareExtension:
			for _, k := range x.KeyShares {
				shared[k.Group] = true
			}
		}
	}
	for _, g := range []tls.CurveID{tls.CurveP256, tls.CurveP384, tls.X25519, tls.CurveP521} {
		if listed[g] && !shared[g] {
			return g
		}
	}
	return 0
}

var (
	seq12      = []string{"Chrome-58", "Firefox-55", "Chrome-62"}
	seq12noEMS = []string{"360Browser-7.5", "Chrome-58~noems", "Firefox-55~noems"}
	seq13      = []string{"Chrome-100", "Chrome-120", "Firefox-105", "Edge-106", "Chrome-133"}
	seqPSK     = []string{"Chrome-100_PSK", "Chrome-112_PSK", "Chrome-114_PSK", "Chrome-115_PQ_PSK", "Chrome-100_PSK~rec"}
	seqNoExt   = []string{"iOS-14", "Safari-16.0", "iOS-12.1", "Android-11"}
	seqCustom  = []string{"Chrome-100_PSK~noems", "Chrome-100_PSK~notk", "Chrome-100~custom", "Chrome-100_PSK~custom", "Chrome-100_PSK~nopk"}
)

const week = 7 * 86400

func genResumeSeq(r *Rng, i int, tier string) string {
	n := 2 + r.Intn(4)
	var conns []seqConn
	base := int64(c19EpochBack)
	pickID := func(pools ...[]string) string {
		return Pick(r, Pick(r, pools))
	}
	steps := []int64{0, 1, 3600, 86400, week - 1, week, week + 1, 8 * 86400}
	mode := i % 9
	switch mode {
	case 8:
		// which name the cached certificate is re-checked against: InsecureServerNameToVerify unset / "*" /
		// a covered name / an uncovered name x ServerName covered (a, b) / uncovered (w)
		id := pickID(seqPSK, seq12, seq13, []string{"Golang-0"}, seqPSK)
		smax := 13
		if r.Intn(3) == 0 {
			smax = 12
		}
		type nv struct{ sn, isn string }
		combos := []nv{{"w", "*"}, {"w", "*"}, {"w", "*"}, {"w", "a"}, {"w", "b"}, {"a", "*"}, {"a", "b"}, {"a", "-"}, {"w", "-"}, {"a", "w"}, {"b", "*"}}
		cur := Pick(r, combos)
		t := base
		for k := 0; k < n; k++ {
			if k > 0 && r.Intn(5) == 0 {
				cur = Pick(r, combos)
			}
			conns = append(conns, seqConn{id: id, sn: cur.sn, isn: cur.isn, smax: smax, ct: t, st: t, flags: "o"})
			t += Pick(r, []int64{0, 1, 60, 3600})
		}
	case 0, 1, 2:
		// the property's main case: one parrot, one name, one server configuration
		var id string
		switch mode {
		case 0:
			id = pickID(seqPSK, seqPSK, []string{"Golang-0"})
		case 1:
			id = pickID(seq12, seq13, seqNoExt, []string{"Golang-0"})
		default:
			id = pickID(seqPSK, seq12, seq12noEMS, seqCustom)
		}
		smax := 13
		if r.Intn(3) == 0 {
			smax = 12
		}
		t := base
		for k := 0; k < n; k++ {
			c := seqConn{id: id, sn: "a", smax: smax, ct: t, st: t, flags: "o"}
			if strings.Contains(id, "~") && r.Intn(3) > 0 {
				c.flags = "op"
			}
			if k > 0 && r.Intn(4) == 0 {
				c.hrr = true
			}
			conns = append(conns, c)
			t += Pick(r, []int64{0, 1, 60, 3600, 86400})
		}
	case 3:
		// expiry: ages around the 7-day lifetime, optionally skewed clocks
		id := pickID(seqPSK, seq12, []string{"Golang-0"}, seqPSK)
		smax := 13
		if r.Intn(3) == 0 {
			smax = 12
		}
		t, s := base, base
		for k := 0; k < n; k++ {
			conns = append(conns, seqConn{id: id, sn: "a", smax: smax, ct: t, st: s, flags: "o"})
			d := Pick(r, steps)
			t += d
			s += d
			if r.Intn(5) == 0 {
				s += Pick(r, []int64{1, 2, 86400})
			}
			if r.Intn(25) == 0 {
				t += 365 * 86400 // beyond the certificate's NotAfter
				s = t
				if r.Intn(2) == 0 {
					conns[len(conns)-1].flags = "ot"
				}
			}
		}
	case 4:
		// EMS mixes over one cache (D13): an EMS parrot then a spec without EMS, same server
		first := Pick(r, seq12)
		second := Pick(r, seq12noEMS)
		ids := []string{first, second, first, second, Pick(r, seq12)}
		if r.Intn(2) == 0 {
			ids = []string{second, first, second, first, second}
		}
		if r.Intn(3) == 0 {
			ids = []string{"Chrome-100_PSK", "Chrome-100_PSK~noems", "Chrome-100_PSK", "Chrome-100_PSK~noems", "Chrome-100"}
		}
		smax := 12
		if r.Intn(4) == 0 {
			smax = 13
		}
		t := base
		for k := 0; k < n; k++ {
			conns = append(conns, seqConn{id: ids[k], sn: "a", smax: smax, ct: t, st: t, flags: "op"})
			t += Pick(r, []int64{0, 60, 3600})
		}
	default:
		// mixes: ids, names, server versions, times, HRR, flags
		pool := []string{pickID(seqPSK, seq13, seq12), pickID(seqPSK, seq12, seqNoExt, seqCustom, []string{"Golang-0"}),
			pickID(seqPSK, seq13, seq12noEMS, seqCustom)}
		t, s := base, base
		for k := 0; k < n; k++ {
			c := seqConn{id: Pick(r, pool[:1+r.Intn(3)]), sn: "a", smax: 13, ct: t, st: s, flags: "o"}
			if r.Intn(4) == 0 {
				c.sn = "b"
			}
			if r.Intn(4) == 0 {
				c.smax = 12
			}
			if r.Intn(5) == 0 {
				c.hrr = true
			}
			if strings.Contains(c.id, "~") && r.Intn(4) > 0 {
				c.flags += "p"
			}
			if r.Intn(20) == 0 {
				c.flags += "d"
			}
			if r.Intn(20) == 0 {
				c.flags += "v"
			}
			if r.Intn(30) == 0 {
				c.flags = strings.Replace(c.flags, "o", "", 1)
				if c.flags == "" {
					c.flags = "-"
				}
			}
			conns = append(conns, c)
			d := Pick(r, []int64{0, 1, 3600, 86400, 86400, week, week + 1})
			t += d
			s += d
		}
	}
	// pre-handshake calls: explicit BuildHandshakeState, documented edits, rebuilds
	opsPool := []string{"B", "B.B", "B.R", "B.S", "B.A", "B.R.B", "B.R.A", "B.A.S", "B.S.R", "B.B.R", "B.A.B.R",
		"W", "W", "W.B", "W.R", "B.W", "W.B.R", "W.W"} // W = BuildHandshakeStateWithoutSession
	if mode == 0 || mode == 2 || mode == 3 || r.Intn(3) == 0 {
		for k := range conns {
			if r.Intn(2) == 0 {
				conns[k].ops = Pick(r, opsPool)
			}
		}
	}
	ss := make([]string, len(conns))
	for k, c := range conns {
		ss[k] = c.String()
	}
	return fmt.Sprintf("seed=%d conns=%s", r.U64()>>1, strings.Join(ss, ","))
}

var c19HrrRandom = []byte{0xCF, 0x21, 0xAD, 0x74, 0xE5, 0x9A, 0x61, 0x11, 0xBE, 0x1D, 0x8C, 0x02, 0x1E, 0x65, 0xB8, 0x91,
	0xC2, 0xA2, 0x11, 0x16, 0x7A, 0xBB, 0x8C, 0x5E, 0x07, 0x9E, 0x09, 0xE2, 0xC8, 0xA8, 0x33, 0x9C}

// serverSentHRR: the server's first handshake message is a ServerHello with the HelloRetryRequest random.
func serverSentHRR(wire []byte) bool {
	rs := splitRecords(wire)
	if len(rs) == 0 || rs[0].Type != 22 || len(rs[0].Payload) < 38 || rs[0].Payload[0] != 2 {
		return false
	}
	return bytes.Equal(rs[0].Payload[6:38], c19HrrRandom)
}

// hrrTranscriptPrefix: message_hash(first hello) || HelloRetryRequest, what precedes the second
// hello in the binder transcript (RFC 8446 4.4.1).
func hrrTranscriptPrefix(hashSize int, ch1 []byte, serverWire []byte) []byte {
	h := c19Hash(hashSize)()
	h.Write(ch1)
	sum := h.Sum(nil)
	out := append([]byte{254, 0, 0, byte(len(sum))}, sum...)
	rs := splitRecords(serverWire)
	if len(rs) == 0 || rs[0].Type != 22 || len(rs[0].Payload) < 4 {
		return out
	}
	pl := rs[0].Payload
	n := int(pl[1])<<16 | int(pl[2])<<8 | int(pl[3])
	if len(pl) < 4+n {
		return out
	}
	return append(out, pl[:4+n]...)
}

func peekEntry(cache *logCache, key string, E int64) string {
	s := cache.mirror[key]
	if s == nil {
		return "-"
	}
	f := tls.VerifClientSessionFields(s)
	if f == nil {
		return "-"
	}
	na := int64(0)
	if len(f.PeerCertificates) > 0 {
		na = f.PeerCertificates[0].NotAfter.Unix() - E
	}
	ub := int64(0)
	if f.UseBy != 0 {
		ub = int64(f.UseBy) - E
	}
	return fmt.Sprintf("%04x.%04x.%s.%d.%d.%d.%d", f.Version, f.CipherSuite, b2i(f.ExtMasterSecret), int64(f.CreatedAt)-E, ub,
		na, min(len(f.VerifiedChains), 1))
}

func execResumeSeq(in KV) string {
	E := c19Epoch()
	var keySeed [32]byte
	copy(keySeed[:], NewRng(in.U64("seed")).Bytes(32))
	cache := newLogCache()
	suites := map[uint16]bool{}
	var recs []string
	for _, cs := range splitList(in["conns"]) {
		c, ok := parseSeqConn(cs)
		if !ok {
			return "out=bad-conn"
		}
		id, err := c19ParseID(c.id)
		if err != nil {
			return "out=bad-id"
		}
		srv := &tls.Config{Time: c19Time(c.st), MinVersion: tls.VersionTLS12, MaxVersion: tls.VersionTLS13}
		if c.smax == 12 {
			srv.MaxVersion = tls.VersionTLS12
		}
		srv.SetSessionTicketKeys([][32]byte{keySeed})
		if c.hrr && c.smax == 13 {
			// (a TLS 1.2-only server keeps its curve preferences: they also select its certificate)
			if hg := hrrGroup(id); hg != 0 {
				srv.CurvePreferences = []tls.CurveID{hg}
			}
		}
		cli := &tls.Config{ServerName: c19Names[c.sn], RootCAs: kit().pool, Time: c19Time(c.ct), ClientSessionCache: cache}
		applyCfgFlags(cli, c.flags)
		switch c.isn {
		case "", "-":
		case "*":
			cli.InsecureServerNameToVerify = "*"
		default:
			cli.InsecureServerNameToVerify = c19Names[c.isn]
		}
		key := c19Names[c.sn]
		peek := peekEntry(cache, key, E)
		var peekTicket, peekSecret []byte
		var peekAgeAdd uint32
		if s := cache.mirror[key]; s != nil {
			if f := tls.VerifClientSessionFields(s); f != nil {
				peekTicket, peekSecret, peekAgeAdd = f.Ticket, f.Secret, f.AgeAdd
			}
		}
		cache.takeLog()
		opRng := NewRng(in.U64("seed") ^ uint64(len(recs)+1)*0x9e3779b97f4a7c15)
		ops, name := c.ops, c19Names[c.sn]
		res := runHS(HSOpts{ID: id.id, Spec: id.spec, ClientCfg: cli, ServerCfg: srv, AppData: []byte("ping"),
			Prepare: func(u *tls.UConn) error { return preOps(u, ops, name, opRng) }})
		cerr := res.ClientErr
		if cerr == nil {
			cerr = res.PrepareErr
		}
		if cerr == nil && res.EchoErr != nil {
			cerr = res.EchoErr
		}
		feat := featOf(id, res.UConn)
		for _, s := range feat.suites {
			suites[s] = true
		}
		rec := fmt.Sprintf("f=%s;pe:%s;c:%s;s:%s;cr:%s;sr:%s;v:%04x;su:%04x;ops:%s", feat, peek, c19ErrClass(cerr), c19ErrClass(res.ServerErr),
			b2i(res.ClientState.DidResume), b2i(res.ServerState.DidResume), res.ClientState.Version, res.ClientState.CipherSuite, cache.takeLog())
		suites[res.ClientState.CipherSuite] = true
		rec = strings.TrimPrefix(rec, "f=")
		chs := clientHellos(res.ClientWire)
		rec += fmt.Sprintf(";nch:%d;hrr:%s", len(chs), b2i(serverSentHRR(res.ServerWire)))
		for k, ch := range chs {
			o := offerOf(ch)
			sfx := ""
			if k == 1 {
				sfx = "2"
			}
			rec += fmt.Sprintf(";off%s:%s", sfx, o.kind)
			switch o.kind {
			case "tk":
				rec += fmt.Sprintf(";idm%s:%s;wems%s:%s", sfx, b2i(peekTicket != nil && bytes.Equal(o.ticket, peekTicket)), sfx, b2i(o.hasEMS))
			case "psk":
				rec += fmt.Sprintf(";idm%s:%s;pos%s:%d;n%s:%d;nid%s:%d;idl%s:%d;bl%s:%d;xl%s:%d;dage%s:%d;xok%s:%s", sfx, b2i(peekTicket != nil && bytes.Equal(o.ticket, peekTicket)),
					sfx, o.pos, sfx, o.n, sfx, o.nid, sfx, len(o.ticket), sfx, len(o.binder), sfx, o.xl, sfx, o.age-peekAgeAdd, sfx,
					b2i(o.xl == tls.VerifPskExtLen([]tls.PskIdentity{{Label: o.ticket}}, [][]byte{o.binder})))
				// the binder, recomputed independently over the bytes actually sent
				if peekSecret != nil && len(ch) >= o.bindLen {
					var prefix []byte
					if k == 1 {
						prefix = hrrTranscriptPrefix(len(o.binder), chs[0], res.ServerWire)
					}
					want := binderFor(len(o.binder), peekSecret, prefix, ch[:len(ch)-o.bindLen])
					rec += fmt.Sprintf(";bv%s:%s", sfx, b2i(hmac.Equal(want, o.binder)))
				}
			}
			if o.dupSess {
				rec += ";dup" + sfx + ":1"
			}
		}
		if id.rec != nil && id.rec.called > 0 {
			rec += fmt.Sprintf(";pl:%d.%d.%s;pn:%d", len(id.rec.before), len(id.rec.after), b2i(len(chs) > 0 && bytes.Equal(id.rec.after, chs[0])), id.rec.called)
		}
		recs = append(recs, rec)
	}
	k12, h13 := suiteTables(suites)
	leaf := c19Cert("good")
	return fmt.Sprintf("out=ok na=%d k12=%s h13=%s r=%s", leaf.NotAfter.Unix()-E, k12, h13, strings.Join(recs, ","))
}

// ---------------------------------------------------------------------------------------------
// resume_ext: pskExtLen

func genResumeExt(r *Rng, i int, tier string) string {
	ni := Pick(r, []int{0, 1, 1, 2, 3})
	nb := Pick(r, []int{0, 1, 1, 2, 3})
	var ids, bs []string
	for k := 0; k < ni; k++ {
		ids = append(ids, fmt.Sprint(Pick(r, []int{0, 1, 32, 193, 255, 256, 1000, 65535, 70000})))
	}
	for k := 0; k < nb; k++ {
		bs = append(bs, fmt.Sprint(Pick(r, []int{0, 1, 32, 48, 64, 255, 256})))
	}
	return fmt.Sprintf("ids=%s bs=%s", joinList(ids), joinList(bs))
}

func execResumeExt(in KV) string {
	var ids []tls.PskIdentity
	var bs [][]byte
	for _, l := range parseU64s(in["ids"]) {
		ids = append(ids, tls.PskIdentity{Label: make([]byte, l)})
	}
	for _, l := range parseU64s(in["bs"]) {
		bs = append(bs, make([]byte, l))
	}
	return fmt.Sprintf("len=%d", tls.VerifPskExtLen(ids, bs))
}

func init() {
	register(&Family{Name: "resume_load", Gen: genResumeLoad, Exec: execResumeLoad})
	register(&Family{Name: "resume_seq", Gen: genResumeSeq, Exec: execResumeSeq, Timeout: 90 * time.Second})
	register(&Family{Name: "resume_ext", Gen: genResumeExt, Exec: execResumeExt})
}
