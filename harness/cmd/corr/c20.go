package main

// C20 — injected sessions are used as given, under any legal call order.
//
// Family "c20": one case = one real UConn (a parrot of a given kind, a Config with/without a
// session cache) driven through a sequence of public session-API calls. Every call runs with its
// own panic recovery; outcomes are classified by message into ok / err:<class> /
// pan:doc:<site> / pan:assert:<site>; after every call the sessionController + build state is
// dumped (zz_verif_c20.go) together with what the marshalled hello carries. Sequences that contain
// a Handshake run against the in-package server over TCP loopback; injected tickets / PSKs come
// from earlier real connections against the same server ticket keys.
//
//   c20 kind=psk cfg=1 kc=s12 smax=13 ops=C,Pi,W,H => r=ok,ok,ok,ok d=<dump>,<dump>,<dump>,h
//       hs=<client>/<server>/<vers>/<cDidResume>/<sDidResume> wt=<tok>/<#hellos> wp=<tok> wage=.. uage=.. inj=<hex> wire=<hex>

import (
	"bytes"
	"crypto/hmac"
	"fmt"
	"net"
	"strings"
	"sync"
	"time"

	tls "github.com/refraction-networking/utls"
)

// ---- configuration grid ----

var c20Kinds = []string{"t12", "t13", "psk", "noext", "golang", "cpsk"}

func c20ID(kind string) tls.ClientHelloID {
	switch kind {
	case "t12":
		return tls.HelloChrome_58 // TLS 1.2 only, session_ticket, no pre_shared_key
	case "t13":
		return tls.HelloChrome_100 // TLS 1.3, session_ticket, no pre_shared_key
	case "psk":
		return tls.HelloChrome_100_PSK // TLS 1.3, session_ticket + pre_shared_key
	case "noext":
		return tls.HelloIOS_14 // TLS 1.3, neither extension
	case "golang":
		return tls.HelloGolang
	case "cpsk":
		return tls.HelloChrome_100_PSK
	}
	panic("c20: bad kind " + kind)
}

const c20ServerName = "example.golang"

var c20TicketKey = [32]byte{0xc2, 0x0c, 0x20, 1, 2, 3, 4, 5, 6, 7, 8, 9, 10, 11, 12, 13, 14, 15, 16, 17, 18, 19, 20, 21, 22, 23, 24, 25, 26, 27, 28, 29}

func c20ServerCfg(smax int) *tls.Config {
	c := &tls.Config{MinVersion: tls.VersionTLS10}
	if smax == 12 {
		c.MaxVersion = tls.VersionTLS12
	} else {
		c.MaxVersion = tls.VersionTLS13
	}
	c.SetSessionTicketKeys([][32]byte{c20TicketKey})
	return c
}

// c20Cache is a plain map cache (fresh per case; Put(nil) deletes).
type c20Cache struct {
	mu sync.Mutex
	m  map[string]*tls.ClientSessionState
}

func newC20Cache() *c20Cache { return &c20Cache{m: map[string]*tls.ClientSessionState{}} }
func (c *c20Cache) Get(k string) (*tls.ClientSessionState, bool) {
	c.mu.Lock()
	defer c.mu.Unlock()
	s, ok := c.m[k]
	return s, ok
}
func (c *c20Cache) Put(k string, s *tls.ClientSessionState) {
	c.mu.Lock()
	defer c.mu.Unlock()
	if s == nil {
		delete(c.m, k)
	} else {
		c.m[k] = s
	}
}

// ---- real sessions from first connections (memoised per process) ----

var (
	c20MemoMu sync.Mutex
	c20Memo   = map[string]*tls.ClientSessionState{}
)

// c20Session returns a real session of the given protocol version obtained by a first connection
// of this kind of client against the harness server (slot distinguishes the session that is
// injected by the user from the one that sits in the cache).
func c20Session(kind string, vers int, slot string) *tls.ClientSessionState {
	key := fmt.Sprintf("%s/%d/%s", kind, vers, slot)
	c20MemoMu.Lock()
	defer c20MemoMu.Unlock()
	if s, ok := c20Memo[key]; ok {
		return s
	}
	src := kind
	if kind == "noext" && vers == 12 {
		src = "t12" // a spec without session_ticket never receives a TLS 1.2 ticket
	}
	if kind == "t12" && vers == 13 {
		src = "t13"
	}
	var got *tls.ClientSessionState
	for try := 0; try < 3 && got == nil; try++ {
		cache := newC20Cache()
		res := runHS(HSOpts{
			ID:        c20ID(src),
			ClientCfg: &tls.Config{ServerName: c20ServerName, ClientSessionCache: cache, OmitEmptyPsk: true},
			ServerCfg: c20ServerCfg(vers),
			AppData:   []byte("ping"),
		})
		if res.ClientErr != nil {
			continue
		}
		if s, ok := cache.Get(c20ServerName); ok && s != nil && int(s.Vers()) == 0x0300+vers-9 {
			got = s
		}
	}
	c20Memo[key] = got
	return got
}

// ---- panic / error classification ----

func c20ClassifyPanic(p any) string {
	s := fmt.Sprint(p)
	has := func(x string) bool { return strings.Contains(s, x) }
	switch {
	case has("you must not modify the session after it's locked"):
		return "pan:doc:locked"
	case has("we can't modify the session after the clientHello is built") && !has("checkSessionExts"):
		return "pan:doc:built"
	case has("session resumption is enabled, but there is no"):
		return "pan:doc:canskip"
	case has("overrideExtension failed: undesired controller state"):
		return "pan:doc:state"
	case has("overrideExtension failed: the ["):
		return "pan:doc:nilparam"
	case has("don't let utls initialize FakePreSharedKeyExtension"):
		return "pan:doc:fakepsk"
	case has("finalCheck failed: undesired controller state"):
		return "pan:assert:finalcheck"
	case has("checkSessionExts failed"):
		return "pan:assert:sync"
	case has("initSessionTicketExt failed") || has("initPskExt failed"):
		return "pan:assert:init"
	case has("aboutToLoadSession failed"):
		return "pan:assert:about"
	case has("setSessionTicketExt failed"):
		return "pan:assert:setticket"
	case has("setPskToUConn failed"):
		return "pan:assert:setpsk"
	case has("updateBinders failed"):
		return "pan:assert:binders"
	case has("initialization failed") || has("InitializeByUtls failed"):
		return "pan:assert:initguard"
	case has("LoadSessionCoordinator") || has("shouldWriteBinders failed"):
		return "pan:assert:tracker"
	case has("uApplyPatch Failed"):
		return "pan:assert:patch"
	case has("BuildHandshakeState failed: invalid call"):
		return "pan:assert:buildstatus"
	case has("runtime error"):
		return "pan:assert:runtime"
	}
	return "pan:assert:other:" + sanitize(s)
}

func c20ClassifyErr(err error) string {
	if err == nil {
		return "ok"
	}
	s := err.Error()
	switch {
	case strings.Contains(s, "session is disabled"):
		return "err:disabled"
	case strings.Contains(s, "the user provided a session ticket, but the specification doesn't contain one"):
		return "err:noticketspec"
	case strings.Contains(s, "the user provided a psk, but the specification doesn't contain one"):
		return "err:nopskspec"
	case strings.Contains(s, "empty psk detected"):
		return "err:emptypsk"
	}
	return "err:hs:" + strings.TrimPrefix(errClass(err), "err:")
}

// ---- ClientHello inspection ----

// c20PskID is one identity of a pre_shared_key extension.
type c20PskID struct {
	label []byte
	age   uint32
}

// c20ParseHello returns the session_ticket body and the pre_shared_key identities of a marshalled
// ClientHello handshake message (with its 4-byte header).
func c20ParseHello(msg []byte) (ticket []byte, hasTicket bool, ids []c20PskID, hasPsk bool, ok bool) {
	b := msg
	take := func(n int) []byte {
		if len(b) < n {
			b = nil
			return nil
		}
		x := b[:n]
		b = b[n:]
		return x
	}
	if len(b) < 4 || b[0] != 1 {
		return
	}
	take(4)
	if take(2+32) == nil {
		return
	}
	x := take(1)
	if x == nil || take(int(x[0])) == nil && x[0] != 0 {
		return
	}
	x = take(2)
	if x == nil {
		return
	}
	if n := int(x[0])<<8 | int(x[1]); take(n) == nil && n != 0 {
		return
	}
	x = take(1)
	if x == nil || take(int(x[0])) == nil && x[0] != 0 {
		return
	}
	ok = true
	x = take(2)
	if x == nil {
		return
	}
	exts := take(int(x[0])<<8 | int(x[1]))
	for len(exts) >= 4 {
		id := int(exts[0])<<8 | int(exts[1])
		n := int(exts[2])<<8 | int(exts[3])
		if len(exts) < 4+n {
			ok = false
			return
		}
		body := exts[4 : 4+n]
		exts = exts[4+n:]
		switch id {
		case 35:
			hasTicket = true
			ticket = append([]byte{}, body...)
		case 41:
			hasPsk = true
			if len(body) < 2 {
				continue
			}
			l := int(body[0])<<8 | int(body[1])
			if len(body) < 2+l {
				continue
			}
			idb := body[2 : 2+l]
			for len(idb) >= 2 {
				k := int(idb[0])<<8 | int(idb[1])
				if len(idb) < 2+k+4 {
					break
				}
				ids = append(ids, c20PskID{append([]byte{}, idb[2:2+k]...), uint32(idb[2+k])<<24 | uint32(idb[3+k])<<16 | uint32(idb[4+k])<<8 | uint32(idb[5+k])})
				idb = idb[2+k+4:]
			}
		}
	}
	return
}

// c20PskBody returns the body of the pre_shared_key extension of a ClientHello message (nil if absent).
func c20PskBody(msg []byte) []byte {
	if len(msg) < 4+2+32+1 {
		return nil
	}
	b := msg[4+2+32:]
	skip := func(n int) bool {
		if len(b) < n {
			return false
		}
		b = b[n:]
		return true
	}
	if !skip(1 + int(b[0])) || len(b) < 2 || !skip(2+(int(b[0])<<8|int(b[1]))) || len(b) < 1 || !skip(1+int(b[0])) || len(b) < 2 {
		return nil
	}
	exts := b[2:]
	for len(exts) >= 4 {
		id := int(exts[0])<<8 | int(exts[1])
		n := int(exts[2])<<8 | int(exts[3])
		if len(exts) < 4+n {
			return nil
		}
		if id == 41 {
			return exts[4 : 4+n]
		}
		exts = exts[4+n:]
	}
	return nil
}

// ---- one case ----

type c20Run struct {
	kind         string
	cache0       *c20Cache // copy of the initial cache content
	u            *tls.UConn
	cache        *c20Cache
	userCS       *tls.ClientSessionState // real TLS 1.2 session injected by T*/S* ops
	userTicket   []byte
	userSess     *tls.SessionState
	forged       *tls.ClientSessionState
	forgedTicket []byte
	forgedSess   *tls.SessionState
	pskCS        *tls.ClientSessionState // real TLS 1.3 session injected by P* ops
	pskLabel     []byte
	pskSess      *tls.SessionState
	pskAge       uint32
	cacheTicket  []byte
	cacheSess    *tls.SessionState
}

// tok names a byte string relative to the case's known tickets.
func (c *c20Run) tok(b []byte) string {
	switch {
	case len(b) == 0:
		return "-"
	case c.userTicket != nil && bytes.Equal(b, c.userTicket):
		return "U"
	case c.forgedTicket != nil && bytes.Equal(b, c.forgedTicket):
		return "F"
	case c.pskLabel != nil && bytes.Equal(b, c.pskLabel):
		return "P"
	case c.cacheTicket != nil && bytes.Equal(b, c.cacheTicket):
		return "K"
	}
	return "X"
}

func (c *c20Run) sessTok(s *tls.SessionState) string {
	switch {
	case s == nil:
		return "n"
	case s == c.userSess:
		return "U"
	case s == c.forgedSess:
		return "F"
	case s == c.pskSess:
		return "P"
	case s == c.cacheSess:
		return "K"
	}
	return "X"
}

func c20b(b bool) string {
	if b {
		return "1"
	}
	return "0"
}

// dump renders the controller state and what the current hello carries.
func (c *c20Run) dump() string {
	u := c.u
	s := u.VerifSessionCtl()
	te := "n"
	if s.TicketExt != nil {
		te = "u"
		if s.TicketExt.IsInitialized() {
			te = "i"
		}
		te += c.tok(s.TicketExt.GetTicket())
	}
	pe := "n"
	if s.PskExt != nil {
		pe = "u"
		if s.PskExt.IsInitialized() {
			pe = "i"
		}
		ids := s.PskExt.GetPreSharedKeyCommon().Identities
		if len(ids) > 0 {
			pe += c.tok(ids[0].Label)
		} else {
			pe += "-"
		}
	}
	h := u.HandshakeState.Hello
	hst, hsp, rawT, rawP := "-", "-", "N", "N"
	if h != nil {
		hst = c.tok(h.SessionTicket)
		if len(h.PskIdentities) > 0 {
			hsp = c.tok(h.PskIdentities[0].Label)
		}
		if len(h.Raw) > 0 {
			if t, ht, ids, hp, ok := c20ParseHello(h.Raw); ok {
				if ht {
					rawT = c.tok(t)
				}
				if hp {
					rawP = "-"
					if len(ids) > 0 {
						rawP = c.tok(ids[0].label)
					}
				}
			} else {
				rawT, rawP = "?", "?"
			}
		} else {
			rawT, rawP = "0", "0"
		}
	}
	return fmt.Sprintf("%d.%s.%d.%s.%d.%s.%s.%s.%s.%s.%s.%s.%s", s.State, c20b(s.Locked), s.Tracker, c20b(s.Calling), s.BuildStatus,
		te, pe, c.sessTok(u.HandshakeState.Session), hst, hsp, rawT, rawP, u.VerifKeyShareState())
}

func c20Exec(in KV) string {
	kind := in["kind"]
	cfgMode := in.Int("cfg")
	kc := in["kc"]
	smax := in.Int("smax")
	ops := splitList(in["ops"])
	needHS := false
	for _, o := range ops {
		if o == "H" {
			needHS = true
		}
	}
	c := &c20Run{kind: kind, cache: newC20Cache(), cache0: newC20Cache()}
	// material
	if cs := c20Session(kind, 12, "user"); cs != nil {
		c.userCS = cs
		c.userTicket, c.userSess, _ = cs.ResumptionState()
	}
	c.forgedTicket = []byte("forged-ticket-not-issued-by-any-server-0123456789")
	c.forged = tls.MakeClientSessionState(c.forgedTicket, tls.VersionTLS12, tls.TLS_ECDHE_ECDSA_WITH_AES_128_GCM_SHA256,
		bytes.Repeat([]byte{0x42}, 48), nil, nil)
	_, c.forgedSess, _ = c.forged.ResumptionState()
	if cs := c20Session(kind, 13, "user"); cs != nil {
		c.pskCS = cs
		c.pskLabel, c.pskSess, _ = cs.ResumptionState()
	}
	switch kc {
	case "s12", "s13":
		v := 12
		if kc == "s13" {
			v = 13
		}
		if cs := c20Session(kind, v, "cache"); cs != nil {
			c.cache.Put(c20ServerName, cs)
			c.cache0.Put(c20ServerName, cs)
			c.cacheTicket, c.cacheSess, _ = cs.ResumptionState()
		} else {
			return "out=nosession"
		}
	}
	if c.userCS == nil || c.pskCS == nil {
		return "out=nosession"
	}
	ccfg := &tls.Config{ServerName: c20ServerName, OmitEmptyPsk: true, RootCAs: kit().pool}
	if cfgMode >= 1 {
		ccfg.ClientSessionCache = c.cache
	}
	if cfgMode == 2 {
		ccfg.SessionTicketsDisabled = true
	}

	var cRaw, sRaw net.Conn
	var cRec *recConn
	type srvRes struct {
		err error
		st  tls.ConnectionState
	}
	sDone := make(chan srvRes, 1)
	if needHS {
		var err error
		cRaw, sRaw, err = tcpPair()
		if err != nil {
			return "out=tcp-error"
		}
		defer cRaw.Close()
		defer sRaw.Close()
		dl := time.Now().Add(8 * time.Second)
		cRaw.SetDeadline(dl)
		sRaw.SetDeadline(dl)
		srv := tls.Server(sRaw, defaultServerCfg(c20ServerCfg(smax)))
		go func() {
			var r srvRes
			defer func() {
				if p := recover(); p != nil {
					r.err = fmt.Errorf("server-panic: %v", p)
				}
				sDone <- r
			}()
			if err := srv.Handshake(); err != nil {
				r.err = err
				sRaw.Close()
				return
			}
			r.st = srv.ConnectionState()
		}()
	} else {
		a, b := net.Pipe()
		cRaw = a
		defer a.Close()
		defer b.Close()
	}
	cRec = &recConn{Conn: cRaw}
	if kind == "cpsk" {
		// HelloCustom with a spec that has pre_shared_key but no session_ticket extension
		// (Chrome 100 PSK minus session_ticket), applied right after UClient.
		ccfg.PreferSkipResumptionOnNilExtension = true
		c.u = tls.UClient(cRec, ccfg, tls.HelloCustom)
		spec, _ := tls.UTLSIdToSpec(tls.HelloChrome_100_PSK)
		var exts []tls.TLSExtension
		for _, e := range spec.Extensions {
			if _, ok := e.(*tls.SessionTicketExtension); !ok {
				exts = append(exts, e)
			}
		}
		spec.Extensions = exts
		if err := c.u.ApplyPreset(&spec); err != nil {
			return "out=preset-error"
		}
	} else {
		c.u = tls.UClient(cRec, ccfg, c20ID(kind))
	}

	var outs, dumps []string
	nEdits := 0
	hsOut := ""
	for _, op := range ops {
		var f func() error
		switch op {
		case "C":
			f = func() error { c.u.SetSessionCache(c.cache); return nil }
		case "W":
			f = c.u.BuildHandshakeStateWithoutSession
		case "B":
			f = c.u.BuildHandshakeState
		case "H":
			f = c.u.Handshake
		case "Ti":
			f = func() error {
				return c.u.SetSessionTicketExtension(&tls.SessionTicketExtension{Session: c.userSess, Ticket: c.userTicket, Initialized: true})
			}
		case "Tu":
			f = func() error { return c.u.SetSessionTicketExtension(&tls.SessionTicketExtension{}) }
		case "Tn":
			f = func() error { return c.u.SetSessionTicketExtension(nil) }
		case "Sr":
			f = func() error { return c.u.SetSessionState(c.userCS) }
		case "Sf":
			f = func() error { return c.u.SetSessionState(c.forged) }
		case "Sn":
			f = func() error { return c.u.SetSessionState(nil) }
		case "Pi":
			f = func() error {
				e := tls.VerifMakePskExt(c.pskCS, time.Now())
				c.pskAge = e.Identities[0].ObfuscatedTicketAge
				return c.u.SetPskExtension(e)
			}
		case "Pu":
			f = func() error { return c.u.SetPskExtension(&tls.UtlsPreSharedKeyExtension{}) }
		case "Pn":
			f = func() error { return c.u.SetPskExtension(nil) }
		case "Er":
			// documented edit of another ClientHello field: the client random
			nEdits++
			rnd := bytes.Repeat([]byte{byte(0xe0 + nEdits)}, 32)
			f = func() error { return c.u.SetClientRandom(rnd) }
		case "En":
			// SetSNI with the configured name (no byte of the hello changes)
			f = func() error { c.u.SetSNI(c20ServerName); return nil }
		case "Ea":
			// edit of the ALPN extension of the applied spec (changes the length of the hello)
			nEdits++
			n := nEdits
			f = func() error {
				for _, e := range c.u.Extensions {
					if a, ok := e.(*tls.ALPNExtension); ok {
						a.AlpnProtocols = append(append([]string{}, a.AlpnProtocols...), fmt.Sprintf("verif/%d", n))
					}
				}
				return nil
			}
		default:
			return "out=bad-op"
		}
		out := func() (o string) {
			defer func() {
				if p := recover(); p != nil {
					o = c20ClassifyPanic(p)
				}
			}()
			return c20ClassifyErr(f())
		}()
		outs = append(outs, out)
		stop := strings.HasPrefix(out, "pan:")
		if op != "H" {
			dumps = append(dumps, c.dump())
		} else {
			// Handshake is terminal: nothing is executed after it and the post-handshake state
			// (rebuilt by toPublic12/13) is not part of the call protocol.
			dumps = append(dumps, "h")
			stop = true
			if out != "ok" {
				cRaw.Close()
			}
			var sr srvRes
			select {
			case sr = <-sDone:
			case <-time.After(9 * time.Second):
				sr.err = fmt.Errorf("server timeout")
			}
			srvOut := "-"
			if out == "ok" {
				srvOut = c20ClassifyErr(sr.err)
			}
			cs := c.u.ConnectionState()
			wt, wp, wage := "N", "N", "-"
			var wtBytes []byte
			wire := cRec.Written()
			if chs := clientHellos(wire); len(chs) > 0 {
				if t, ht, ids, hp, ok := c20ParseHello(chs[0]); ok {
					if ht {
						wt = c.tok(t)
						wtBytes = t
					}
					if hp {
						wp = "-"
						if len(ids) > 0 {
							wp = c.tok(ids[0].label)
							wage = fmt.Sprint(ids[0].age)
							if wp == "P" {
								wtBytes = ids[0].label
							}
						}
					}
				}
				wt += fmt.Sprintf("/%d", len(chs))
			} else {
				wt = "nowire"
			}
			// the binder on the wire, recomputed independently (standard library HMAC/HKDF) over
			// exactly the bytes sent
			bv := "-"
			if chs := clientHellos(wire); len(chs) > 0 && (wp == "P" || wp == "K") {
				var sec []byte
				src := c.pskCS
				if wp == "K" {
					src, _ = c.cache0.Get(c20ServerName)
				}
				if f := tls.VerifClientSessionFields(src); f != nil {
					sec = f.Secret
				}
				bv = "0"
				if body := c20PskBody(chs[0]); body != nil && sec != nil {
					if q := parsePSKBody(body); q.ok && len(q.binders) > 0 && len(chs[0]) >= q.bindLen {
						want := binderFor(len(q.binders[0]), sec, nil, chs[0][:len(chs[0])-q.bindLen])
						if hmac.Equal(want, q.binders[0]) {
							bv = "1"
						}
					}
				}
			}
			hsOut = fmt.Sprintf(" hs=%s/%s/%04x/%s/%s wt=%s wp=%s bv=%s wage=%s uage=%d", out, srvOut, cs.Version, c20b(cs.DidResume), c20b(sr.st.DidResume), wt, wp, bv, wage, c.pskAge)
			// literal bytes of the injected identity and of what the wire carried
			inj := ""
			switch {
			case wp == "P":
				inj = " inj=" + hx(c.pskLabel)
			case strings.HasPrefix(wt, "U"):
				inj = " inj=" + hx(c.userTicket)
			case strings.HasPrefix(wt, "F"):
				inj = " inj=" + hx(c.forgedTicket)
			}
			if inj != "" {
				hsOut += inj + " wire=" + hx(wtBytes)
			}
		}
		if stop {
			break
		}
	}
	c20Dead(in, ops, outs)
	return fmt.Sprintf("r=%s d=%s%s", joinList(outs), joinList(dumps), hsOut)
}

// ---- generator: exhaustive with dead-prefix pruning, then random ----

var (
	c20DeadMu  sync.Mutex
	c20DeadSet = map[string]bool{}
)

func c20CfgKey(kind string, cfg int, kc string, smax int) string {
	return fmt.Sprintf("kind=%s cfg=%d kc=%s smax=%d", kind, cfg, kc, smax)
}

// c20Dead records that the executed prefix ended the sequence (panic or failed handshake): any
// longer sequence with that prefix behaves identically and is skipped by the exhaustive generator.
func c20Dead(in KV, ops, outs []string) {
	if len(outs) == 0 {
		return
	}
	last := outs[len(outs)-1]
	dead := strings.HasPrefix(last, "pan:") || ops[len(outs)-1] == "H"
	if !dead {
		return
	}
	key := c20CfgKey(in["kind"], in.Int("cfg"), in["kc"], in.Int("smax")) + " " + strings.Join(ops[:len(outs)], ",")
	c20DeadMu.Lock()
	c20DeadSet[key] = true
	c20DeadMu.Unlock()
}

func c20HasDeadPrefix(cfgKey string, ops []string) bool {
	c20DeadMu.Lock()
	defer c20DeadMu.Unlock()
	for n := 1; n < len(ops); n++ {
		if c20DeadSet[cfgKey+" "+strings.Join(ops[:n], ",")] {
			return true
		}
	}
	return false
}

// c20CustomOK: on the HelloCustom kind only calls that do not hand over an extension are generated
// (setters after ApplyPreset are outside the model).
func c20CustomOK(ops []string) bool {
	for _, o := range ops {
		switch o {
		case "C", "W", "B", "H", "Tn", "Pn", "Er", "En", "Ea":
		default:
			return false
		}
	}
	return true
}

// builds, edits of other ClientHello fields and the handshake: what may follow an injection
var c20EditAlphabet = []string{"B", "Er", "Ea", "H"}
var c20EditAlphabetFull = []string{"B", "W", "Er", "En", "Ea", "H"}
var c20EditPrefixes = [][]string{{}, {"Pi"}, {"Ti"}}

// c20EditCfgs: configurations (cache in Config) where a session is injected or loaded from the cache
func c20EditCfgs() []c20Cfg {
	return []c20Cfg{{"psk", 1, "s13", 13}, {"psk", 1, "e", 13}, {"psk", 1, "s12", 12}, {"t13", 1, "s12", 12},
		{"t12", 1, "s12", 12}, {"golang", 1, "s13", 13}, {"cpsk", 1, "s13", 13}}
}

var c20CoreAlphabet = []string{"C", "W", "B", "H", "Ti", "Pi", "Tu", "Pu"}
var c20FullAlphabet = []string{"C", "W", "B", "H", "Ti", "Pi", "Tu", "Pu", "Sr", "Sf", "Sn", "Tn", "Pn"}

type c20Cfg struct {
	kind string
	cfg  int
	kc   string
	smax int
}

func (c c20Cfg) key() string { return c20CfgKey(c.kind, c.cfg, c.kc, c.smax) }

// c20CoreCfgs: the configurations enumerated exhaustively.
func c20CoreCfgs() []c20Cfg {
	var out []c20Cfg
	for _, k := range c20Kinds {
		vs := []int{13}
		if k != "t12" {
			vs = []int{12, 13}
		} else {
			vs = []int{12}
		}
		for _, v := range vs {
			kc := "s12"
			if v == 13 {
				kc = "s13"
			}
			out = append(out, c20Cfg{k, 0, kc, v}, c20Cfg{k, 1, kc, v})
		}
	}
	return out
}

func c20AllCfgs() []c20Cfg {
	var out []c20Cfg
	for _, k := range c20Kinds {
		vs := []int{12, 13}
		if k == "t12" {
			vs = []int{12}
		}
		for _, v := range vs {
			for _, cc := range []struct {
				cfg int
				kc  string
			}{{0, "e"}, {0, "s12"}, {0, "s13"}, {1, "e"}, {1, "s12"}, {1, "s13"}, {2, "s12"}} {
				out = append(out, c20Cfg{k, cc.cfg, cc.kc, v})
			}
		}
	}
	return out
}

// exhaustive enumeration state (the generator is called with increasing i by one process)
type c20Enum struct {
	cfgs   []c20Cfg
	prefix [][]string // if set: every sequence is tried after each of these prefixes
	pi     int
	alpha  []string
	maxLen int
	length int
	ci     int
	idx    []int // current sequence as digits, nil = start of (length, ci)
	done   bool
}

func (e *c20Enum) next() (c20Cfg, []string, bool) {
	for !e.done {
		if e.length == 0 {
			e.length = 1
		}
		if e.idx == nil {
			e.idx = make([]int, e.length)
		} else {
			// increment
			p := e.length - 1
			for p >= 0 {
				e.idx[p]++
				if e.idx[p] < len(e.alpha) {
					break
				}
				e.idx[p] = 0
				p--
			}
			if p < 0 {
				e.idx = nil
				if e.pi+1 < len(e.prefix) {
					e.pi++
					continue
				}
				e.pi = 0
				e.ci++
				if e.ci >= len(e.cfgs) {
					e.ci = 0
					e.length++
					if e.length > e.maxLen {
						e.done = true
					}
				}
				continue
			}
		}
		ops := make([]string, 0, e.length+2)
		if len(e.prefix) > 0 {
			ops = append(ops, e.prefix[e.pi]...)
		}
		for _, d := range e.idx {
			ops = append(ops, e.alpha[d])
		}
		cfg := e.cfgs[e.ci]
		if cfg.kind == "cpsk" && !c20CustomOK(ops) {
			continue
		}
		if c20HasDeadPrefix(cfg.key(), ops) {
			// skip the whole subtree below the dead prefix: advance the digit after it
			continue
		}
		return cfg, ops, true
	}
	return c20Cfg{}, nil, false
}

var c20Enums []*c20Enum
var c20EnumTier string

func c20Gen(r *Rng, i int, tier string) string {
	if c20Enums == nil || c20EnumTier != tier {
		c20EnumTier = tier
		if tier == "thorough" {
			c20Enums = []*c20Enum{
				{cfgs: c20AllCfgs(), alpha: c20FullAlphabet, maxLen: 3},
				{cfgs: c20CoreCfgs(), alpha: c20CoreAlphabet, maxLen: 5},
				{cfgs: []c20Cfg{{"psk", 1, "s13", 13}, {"t13", 0, "s12", 12}}, alpha: c20CoreAlphabet, maxLen: 6},
				{cfgs: c20EditCfgs(), prefix: c20EditPrefixes, alpha: c20EditAlphabetFull, maxLen: 5},
			}
		} else {
			c20Enums = []*c20Enum{
				{cfgs: c20AllCfgs(), alpha: c20FullAlphabet, maxLen: 2},
				{cfgs: c20CoreCfgs(), alpha: c20CoreAlphabet, maxLen: 3},
				{cfgs: c20EditCfgs(), prefix: c20EditPrefixes, alpha: c20EditAlphabet, maxLen: 4},
			}
		}
	}
	for _, e := range c20Enums {
		if cfg, ops, ok := e.next(); ok {
			return cfg.key() + " ops=" + strings.Join(ops, ",")
		}
	}
	// random tail: any configuration, length 3..6, ops biased towards orders that stay alive
	cfgs := c20AllCfgs()
	cfg := cfgs[r.Intn(len(cfgs))]
	n := 3 + r.Intn(3)
	if tier == "thorough" {
		n = 3 + r.Intn(5)
	}
	ops := make([]string, 0, n)
	for len(ops) < n {
		if r.Intn(3) == 0 {
			ops = append(ops, Pick(r, []string{"C", "W", "B", "H", "B", "H", "Er", "Ea", "En"}))
		} else {
			ops = append(ops, Pick(r, c20FullAlphabet))
		}
	}
	if cfg.kind == "cpsk" {
		for i, o := range ops {
			if !c20CustomOK([]string{o}) {
				ops[i] = Pick(r, []string{"C", "W", "B", "H", "Tn", "Pn", "Er", "En", "Ea"})
			}
		}
	}
	return cfg.key() + " ops=" + strings.Join(ops, ",")
}

func init() {
	register(&Family{Name: "c20", Gen: c20Gen, Exec: c20Exec, Timeout: 30 * time.Second})
}
