package main

// C21 — compressed server certificates are recovered exactly.
//
// Families
//   cc_decomp  the real (*clientHandshakeStateTLS13).decompressCert (through the verif export) on
//              certificate messages 0 B … 256 KiB x {zlib, brotli, zstd} x encoder settings x
//              mutations of the compressed bytes, of the declared length and of the algorithm id.
//              The decoder the code uses is also opened by the harness behind a recording reader,
//              which reports the pieces (chunk sizes) the real decoder hands out under a c21Drain
//              policy and how its stream ends; the Lean model is fed exactly that chunking.
//   cc_codec   utlsCompressedCertificateMsg marshal / unmarshal.
//   cc_hs      full TLS 1.3 handshakes: the in-package server's Certificate message is replaced
//              (hook 1, before transcript hashing) by a CompressedCertificate.

import (
	"bytes"
	"compress/zlib"
	"crypto/ecdsa"
	"crypto/elliptic"
	crand "crypto/rand"
	"crypto/x509"
	"crypto/x509/pkix"
	"encoding/asn1"
	"encoding/binary"
	"errors"
	"fmt"
	"hash/adler32"
	"io"
	"math/big"
	"net"
	"runtime"
	"strconv"
	"strings"
	"sync"
	"time"

	"github.com/andybalholm/brotli"
	kflate "github.com/klauspost/compress/flate"
	"github.com/klauspost/compress/zstd"
	tls "github.com/refraction-networking/utls"
)

// ---------- small helpers ----------

// c21SinkConn is a net.Conn that records what is written (the alert records of decompressCert).
type c21SinkConn struct {
	mu  sync.Mutex
	buf bytes.Buffer
}

func (s *c21SinkConn) Write(p []byte) (int, error) {
	s.mu.Lock()
	defer s.mu.Unlock()
	return s.buf.Write(p)
}
func (s *c21SinkConn) Read(p []byte) (int, error)         { return 0, io.EOF }
func (s *c21SinkConn) Close() error                       { return nil }
func (s *c21SinkConn) LocalAddr() net.Addr                { return nil }
func (s *c21SinkConn) RemoteAddr() net.Addr               { return nil }
func (s *c21SinkConn) SetDeadline(t time.Time) error      { return nil }
func (s *c21SinkConn) SetReadDeadline(t time.Time) error  { return nil }
func (s *c21SinkConn) SetWriteDeadline(t time.Time) error { return nil }

// alerts returns the descriptions of the plaintext fatal alerts written to the sink.
func (s *c21SinkConn) alerts() []int {
	var out []int
	for _, r := range splitRecords(s.buf.Bytes()) {
		if r.Type == 21 && len(r.Payload) == 2 {
			out = append(out, int(r.Payload[1]))
		}
	}
	return out
}

var c21AlertNames = map[int]string{10: "unexpected_message", 42: "bad_certificate", 50: "decode_error", 80: "internal_error", 47: "illegal_parameter", 51: "decrypt_error"}

func c21AlertName(a int) string {
	if n, ok := c21AlertNames[a]; ok {
		return n
	}
	return fmt.Sprintf("alert%d", a)
}

func c21Ints(s string, sep string) []int {
	var out []int
	if s == "" || s == "-" {
		return nil
	}
	for _, t := range strings.Split(s, sep) {
		v, err := strconv.Atoi(t)
		if err != nil {
			panic("bad int list " + s)
		}
		out = append(out, v)
	}
	return out
}

func c21IntsStr(xs []int, sep string) string {
	if len(xs) == 0 {
		return "-"
	}
	ss := make([]string, len(xs))
	for i, x := range xs {
		ss[i] = strconv.Itoa(x)
	}
	return strings.Join(ss, sep)
}

func c21HexListE(xs [][]byte) string {
	if len(xs) == 0 {
		return "-"
	}
	ss := make([]string, len(xs))
	for i, x := range xs {
		ss[i] = hx(x)
		if len(x) == 0 {
			ss[i] = "e" // an empty element of a non-empty list
		}
	}
	return strings.Join(ss, ",")
}

// c21FillBytes: deterministic content of a given compressibility.
//
//	r random, z zeros, t text-like (small alphabet, repeats), m DER-like mix of random and repeated runs
func c21FillBytes(mode byte, seed uint64, n int) []byte {
	r := NewRng(seed*0x9e3779b97f4a7c15 + uint64(mode))
	out := make([]byte, n)
	switch mode {
	case 'z':
	case 't':
		words := [][]byte{[]byte("certificate "), []byte("0\x82\x03"), []byte("example.com"), []byte("\x06\x03U\x04\x03"), []byte("Let's Verify "), []byte("\x30\x0d\x06\x09\x2a\x86\x48\x86\xf7\x0d\x01\x01\x0b\x05\x00")}
		for i := 0; i < n; {
			w := words[r.Intn(len(words))]
			i += copy(out[i:], w)
		}
	case 'm':
		for i := 0; i < n; {
			l := 1 + r.Intn(300)
			if i+l > n {
				l = n - i
			}
			if r.Intn(3) == 0 && i > 0 {
				src := r.Intn(i)
				for j := 0; j < l; j++ {
					out[i+j] = out[src+(j%(i-src))]
				}
			} else {
				copy(out[i:i+l], r.Bytes(l))
			}
			i += l
		}
	default:
		r.Read(out)
	}
	return out
}

// ---------- certificate message bodies ----------

// c21MkBody builds the body of a TLS 1.3 Certificate message (the bytes after the 4-byte handshake
// header) from a descriptor:
//
//	chain:<fill><seed>:<n1>+<n2>+…[:o<k>][:s<k1>+<k2>…]   marshalled by the package (certs of n_i bytes)
//	junk:<fill><seed>:<n>                                  n arbitrary bytes
//	odd:<variant>:<seed>                                   hand-built corner cases of the message grammar
func c21MkBody(desc string) []byte {
	p := strings.Split(desc, ":")
	switch p[0] {
	case "junk":
		n, _ := strconv.Atoi(p[2])
		seed, _ := strconv.ParseUint(p[1][1:], 10, 64)
		return c21FillBytes(p[1][0], seed, n)
	case "chain":
		seed, _ := strconv.ParseUint(p[1][1:], 10, 64)
		var v tls.VerifCertMsg
		for i, n := range c21Ints(p[2], "+") {
			v.Certificates = append(v.Certificates, c21FillBytes(p[1][0], seed+uint64(i)*7919, n))
		}
		for _, o := range p[3:] {
			switch o[0] {
			case 'o':
				k, _ := strconv.Atoi(o[1:])
				v.OCSPStaple = c21FillBytes('r', seed+1, k)
			case 's':
				for i, k := range c21Ints(o[1:], "+") {
					v.SCTs = append(v.SCTs, c21FillBytes('r', seed+2+uint64(i), k))
				}
			}
		}
		raw, err := tls.VerifMarshalCertificateMsgTLS13(v)
		if err != nil {
			panic(err)
		}
		return raw[4:]
	case "odd":
		seed, _ := strconv.ParseUint(p[2], 10, 64)
		c1, c2 := c21FillBytes('m', seed, 40), c21FillBytes('m', seed+1, 30)
		u24 := func(n int) []byte { return []byte{byte(n >> 16), byte(n >> 8), byte(n)} }
		u16 := func(n int) []byte { return []byte{byte(n >> 8), byte(n)} }
		ext := func(t int, b []byte) []byte { return append(append(u16(t), u16(len(b))...), b...) }
		entry := func(c []byte, exts []byte) []byte {
			e := append(u24(len(c)), c...)
			return append(append(e, u16(len(exts))...), exts...)
		}
		msg := func(ctx []byte, entries ...[]byte) []byte {
			l := bytes.Join(entries, nil)
			out := append([]byte{byte(len(ctx))}, ctx...)
			return append(append(out, u24(len(l))...), l...)
		}
		ocsp := func(b []byte) []byte { return append([]byte{1}, append(u24(len(b)), b...)...) }
		sct := func(items ...[]byte) []byte {
			var l []byte
			for _, it := range items {
				l = append(append(l, u16(len(it))...), it...)
			}
			return append(u16(len(l)), l...)
		}
		switch p[1] {
		case "empty-list":
			return msg(nil)
		case "ctx":
			return msg([]byte{1, 2}, entry(c1, nil))
		case "unknown-ext":
			return msg(nil, entry(c1, ext(0x1234, []byte{9, 9, 9})), entry(c2, nil))
		case "ocsp-on-second":
			return msg(nil, entry(c1, nil), entry(c2, ext(5, []byte{7}))) // ignored for non-leaf, even malformed
		case "two-ocsp":
			return msg(nil, entry(c1, append(ext(5, ocsp([]byte{1, 2, 3})), ext(5, ocsp([]byte{4, 5}))...)))
		case "two-sct":
			return msg(nil, entry(c1, append(ext(18, sct([]byte{1}, []byte{2, 3})), ext(18, sct([]byte{4}))...)))
		case "empty-ocsp":
			return msg(nil, entry(c1, ext(5, ocsp(nil))))
		case "empty-sct":
			return msg(nil, entry(c1, ext(18, sct([]byte{}))))
		case "ocsp-trailing":
			return msg(nil, entry(c1, ext(5, append(ocsp([]byte{1}), 0))))
		case "bad-status-type":
			return msg(nil, entry(c1, ext(5, append([]byte{2}, u24(1)...))))
		case "trailing":
			return append(msg(nil, entry(c1, nil)), 0)
		case "empty-cert":
			return msg(nil, entry(nil, nil), entry(c2, nil))
		case "short-list":
			b := msg(nil, entry(c1, nil))
			return b[:len(b)-1]
		}
	}
	panic("bad body descriptor " + desc)
}

// ---------- encoders ----------

// c21Encode compresses body according to the descriptor
//
//	zlib:<level>:<wbits>:<flush offsets '+'>          level -2..9; wbits 8..15 (15 = compress/zlib itself)
//	brotli:<quality>:<lgwin>:<flush offsets>          quality 0..11, lgwin 10..24 (0 = automatic)
//	zstd:<level>:<wlog>:<flush offsets>:<frame starts>:<flags>   level 1..4, window 2^wlog (10..25);
//	       flags: c = content checksum, k = skippable frame between frames, e = an empty frame first
//	raw                                                 the body itself (not compressed)
func c21Encode(desc string, body []byte) []byte {
	p := strings.Split(desc, ":")
	cut := func(offs []int) [][]byte {
		var parts [][]byte
		prev := 0
		for _, o := range offs {
			if o < prev {
				o = prev
			}
			if o > len(body) {
				o = len(body)
			}
			parts = append(parts, body[prev:o])
			prev = o
		}
		return append(parts, body[prev:])
	}
	var out bytes.Buffer
	switch p[0] {
	case "raw":
		return body
	case "zlib":
		level, _ := strconv.Atoi(p[1])
		wbits, _ := strconv.Atoi(p[2])
		parts := cut(c21Ints(p[3], "+"))
		if wbits >= 15 {
			w, err := zlib.NewWriterLevel(&out, level)
			if err != nil {
				panic(err)
			}
			for i, part := range parts {
				w.Write(part)
				if i < len(parts)-1 {
					w.Flush()
				}
			}
			w.Close()
			return out.Bytes()
		}
		// zlib container written by hand around a deflate stream with a smaller window
		cmf := byte(8 | (wbits-8)<<4)
		flg := byte(0)
		for (uint16(cmf)<<8|uint16(flg))%31 != 0 {
			flg++
		}
		out.Write([]byte{cmf, flg})
		w, err := kflate.NewWriterWindow(&out, 1<<wbits)
		if err != nil {
			panic(err)
		}
		for i, part := range parts {
			w.Write(part)
			if i < len(parts)-1 {
				w.Flush()
			}
		}
		w.Close()
		var sum [4]byte
		binary.BigEndian.PutUint32(sum[:], adler32.Checksum(body))
		out.Write(sum[:])
		return out.Bytes()
	case "brotli":
		q, _ := strconv.Atoi(p[1])
		lg, _ := strconv.Atoi(p[2])
		parts := cut(c21Ints(p[3], "+"))
		w := brotli.NewWriterOptions(&out, brotli.WriterOptions{Quality: q, LGWin: lg})
		for i, part := range parts {
			w.Write(part)
			if i < len(parts)-1 {
				w.Flush()
			}
		}
		w.Close()
		return out.Bytes()
	case "zstd":
		level, _ := strconv.Atoi(p[1])
		wlog, _ := strconv.Atoi(p[2])
		flushes := c21Ints(p[3], "+")
		frames := c21Ints(p[4], "+")
		flags := p[5]
		enc := c21ZstdEncoder(level, wlog, strings.Contains(flags, "c"))
		if strings.Contains(flags, "e") {
			out.Write(enc.EncodeAll(nil, nil))
		}
		prev := 0
		fparts := cut(frames)
		for fi, fp := range fparts {
			enc.Reset(&out)
			// flush offsets are absolute; apply those inside this frame
			pos := prev
			for _, f := range flushes {
				if f > pos && f < prev+len(fp) {
					enc.Write(body[pos:f])
					enc.Flush()
					pos = f
				}
			}
			enc.Write(body[pos : prev+len(fp)])
			enc.Close()
			prev += len(fp)
			if strings.Contains(flags, "k") && fi < len(fparts)-1 {
				out.Write([]byte{0x50, 0x2a, 0x4d, 0x18, 3, 0, 0, 0, 'x', 'y', 'z'})
			}
		}
		return out.Bytes()
	}
	panic("bad encoder descriptor " + desc)
}

var c21ZstdEncCache = map[string]*zstd.Encoder{}

// c21ZstdEncoder returns a (cached: table set-up is slow) single-threaded encoder; callers Reset it.
func c21ZstdEncoder(level, wlog int, crc bool) *zstd.Encoder {
	key := fmt.Sprintf("%d:%d:%v", level, wlog, crc)
	if e, ok := c21ZstdEncCache[key]; ok {
		return e
	}
	enc, err := zstd.NewWriter(nil, zstd.WithEncoderLevel(zstd.EncoderLevel(level)), zstd.WithWindowSize(1<<wlog),
		zstd.WithEncoderConcurrency(1), zstd.WithEncoderCRC(crc), zstd.WithZeroFrames(true))
	if err != nil {
		panic(err)
	}
	c21ZstdEncCache[key] = enc
	return enc
}

// c21Mutate applies a mutation to the compressed bytes
//
//	none | trunc:<keep> | chop:<drop> | truncp:<per mille kept> | flip:<bit> | tail:<n> | empty | dup | fdict | byte:<pos>:<xor>
func c21Mutate(desc string, comp []byte) []byte {
	p := strings.Split(desc, ":")
	c := append([]byte(nil), comp...)
	switch p[0] {
	case "none":
	case "trunc": // keep the first k bytes
		k, _ := strconv.Atoi(p[1])
		if k < len(c) {
			c = c[:k]
		}
	case "chop": // drop the last k bytes
		k, _ := strconv.Atoi(p[1])
		if k > len(c) {
			k = len(c)
		}
		c = c[:len(c)-k]
	case "truncp": // keep k per mille
		k, _ := strconv.Atoi(p[1])
		c = c[:len(c)*k/1000]
	case "flip":
		k, _ := strconv.Atoi(p[1])
		if len(c) > 0 {
			k %= len(c) * 8
			c[k/8] ^= 1 << (k % 8)
		}
	case "byte":
		k, _ := strconv.Atoi(p[1])
		x, _ := strconv.Atoi(p[2])
		if len(c) > 0 {
			c[k%len(c)] ^= byte(x)
		}
	case "tail":
		k, _ := strconv.Atoi(p[1])
		c = append(c, c21FillBytes('r', uint64(k), k)...)
	case "empty":
		c = nil
	case "dup":
		c = append(c, comp...)
	case "fdict":
		// zlib header announcing a preset dictionary
		if len(c) >= 2 {
			c[1] |= 0x20
			c[1] &^= 0x1f
			for (uint16(c[0])<<8|uint16(c[1]))%31 != 0 {
				c[1]++
			}
		}
	default:
		panic("bad mutation " + desc)
	}
	return c
}

// ---------- the recording reader around the real decoders ----------

type c21Drained struct {
	data   []byte
	chunks []int
	term   string // eof | trunc | err | open | cut
	eager  bool   // the final status came together with the last data
	alloc  uint64
}

// c21OpenDecoder creates the decoder decompressCert creates for this algorithm id.
func c21OpenDecoder(alg int, comp []byte) (io.Reader, func(), error) {
	switch alg {
	case 2:
		return brotli.NewReader(bytes.NewReader(comp)), func() {}, nil
	case 1:
		rc, err := zlib.NewReader(bytes.NewReader(comp))
		if err != nil {
			return nil, nil, err
		}
		return rc, func() { rc.Close() }, nil
	case 3:
		rc, err := zstd.NewReader(bytes.NewReader(comp))
		if err != nil {
			return nil, nil, err
		}
		return rc, func() { rc.Close() }, nil
	}
	return nil, nil, errors.New("no decoder")
}

const c21DrainCap = 300000 // > maxHandshakeCertificateMsg: everything beyond is "longer than any acceptable declared length"

// c21Drain opens the real decoder and records the pieces it hands out under the read policy
//
//	big        every Read gets a 1 MiB buffer (the decoder's own chunking)
//	one        1-byte buffers
//	rnd<seed>  random buffer sizes 1..8192
//	decl       a buffer of the declared length (what is left of it), then 1-byte buffers
var c21DrainBuf = make([]byte, 1<<20) // cases run one at a time

func c21Drain(alg int, comp []byte, pol string, declared int) (d c21Drained) {
	buf := c21DrainBuf
	var m0, m1 runtime.MemStats
	runtime.ReadMemStats(&m0)
	defer func() {
		runtime.ReadMemStats(&m1)
		d.alloc = m1.TotalAlloc - m0.TotalAlloc
	}()
	rd, closeFn, err := c21OpenDecoder(alg, comp)
	if err != nil {
		d.term = "open"
		return d
	}
	defer closeFn()
	var rng *Rng
	if strings.HasPrefix(pol, "rnd") {
		s, _ := strconv.ParseUint(pol[3:], 10, 64)
		rng = NewRng(s)
	}
	zero := 0
	for {
		k := len(buf)
		switch {
		case pol == "one":
			k = 1
		case rng != nil:
			k = 1 + rng.Intn(8192)
		case pol == "decl":
			k = declared - len(d.data)
			if k <= 0 {
				k = 1
			}
			if k > len(buf) {
				k = len(buf)
			}
		}
		n, err := rd.Read(buf[:k])
		if n > 0 || err == nil {
			d.chunks = append(d.chunks, n)
		}
		d.data = append(d.data, buf[:n]...)
		if err != nil {
			d.eager = n > 0
			switch {
			case err == io.EOF:
				d.term = "eof"
			case errors.Is(err, io.ErrUnexpectedEOF):
				d.term = "trunc" // indistinguishable from io.ReadFull's own ErrUnexpectedEOF
			default:
				d.term = "err"
			}
			return d
		}
		if n == 0 {
			zero++
			if zero > 64 {
				d.term = "err" // a decoder that makes no progress: never observed
				return d
			}
		}
		if len(d.data) > c21DrainCap || len(d.chunks) > 6000 {
			d.term = "cut"
			return d
		}
	}
}

// c21WhyClass maps the error text of decompressCert / the client handshake to the return statement.
func c21WhyClass(err error) string {
	if err == nil {
		return "-"
	}
	s := err.Error()
	switch {
	case strings.Contains(s, "unadvertised algorithm"):
		return "unadvertised"
	case strings.Contains(s, "exceeds maximum of") && strings.Contains(s, "specified len"):
		return "tooLarge"
	case strings.Contains(s, "unsupported algorithm"):
		return "unsupported"
	case strings.Contains(s, "failed to open"):
		return "openFailed"
	case strings.Contains(s, "does not match specified len"):
		return "short"
	case strings.Contains(s, "exceeds specified len"):
		return "long"
	case strings.Contains(s, "handshake message of length"):
		return "oversize"
	case strings.Contains(s, "received empty certificates message"):
		return "emptyCerts"
	case strings.Contains(s, "unexpected message"), strings.Contains(s, "unexpected handshake message"):
		return "unexpected"
	case strings.Contains(s, "failed to decompress"):
		return "decode"
	}
	return "decode"
}

// c21MadeByDecompressCert runs f with every allocation profiled and returns the bytes allocated
// directly by (*clientHandshakeStateTLS13).decompressCert (first non-runtime frame of the stack).
func c21MadeByDecompressCert(f func()) uint64 {
	sum := func() uint64 {
		runtime.GC() // the profile is published with a delay of up to two collections
		runtime.GC()
		n, _ := runtime.MemProfile(nil, true)
		recs := make([]runtime.MemProfileRecord, n+200)
		n, ok := runtime.MemProfile(recs, true)
		if !ok {
			return 0
		}
		var total uint64
		for _, r := range recs[:n] {
			frames := runtime.CallersFrames(r.Stack())
			for {
				fr, more := frames.Next()
				if !strings.HasPrefix(fr.Function, "runtime.") {
					if strings.HasSuffix(fr.Function, ".decompressCert") {
						total += uint64(r.AllocBytes)
					}
					break
				}
				if !more {
					break
				}
			}
		}
		return total
	}
	before := sum()
	old := runtime.MemProfileRate
	runtime.MemProfileRate = 1
	f()
	runtime.MemProfileRate = old
	return sum() - before
}

// ---------- family cc_decomp ----------

type c21SizeClass struct {
	name   string
	lo, hi int
}

var c21BodySizes = []c21SizeClass{{"s0", 0, 16}, {"s1", 17, 600}, {"s2", 601, 5000}, {"s3", 5001, 32700}, {"s4", 32701, 70000}, {"s5", 70001, 262144}}

func c21PickSize(r *Rng, tier string) int {
	// weights: small sizes dominate, every class is reached in a quick run
	w := []int{8, 22, 30, 18, 16, 6}
	if tier != "quick" {
		w = []int{6, 16, 24, 20, 20, 14}
	}
	t := 0
	for _, x := range w {
		t += x
	}
	k := r.Intn(t)
	ci := 0
	for i, x := range w {
		if k < x {
			ci = i
			break
		}
		k -= x
	}
	c := c21BodySizes[ci]
	switch r.Intn(8) {
	case 0:
		return c.lo
	case 1:
		return c.hi
	}
	// boundaries of interest inside the classes
	if ci == 4 && r.Intn(4) == 0 {
		return Pick(r, []int{32767, 32768, 32769, 65535, 65536, 65537})
	}
	return c.lo + r.Intn(c.hi-c.lo+1)
}

func c21GenBodyDesc(r *Rng, size int) string {
	fill := string("rtmmmz"[r.Intn(6)])
	seed := r.Intn(1 << 30)
	if size < 12 || r.Intn(12) == 0 {
		return fmt.Sprintf("junk:%s%d:%d", fill, seed, size)
	}
	if r.Intn(14) == 0 {
		return fmt.Sprintf("odd:%s:%d", Pick(r, []string{"empty-list", "ctx", "unknown-ext", "ocsp-on-second", "two-ocsp", "two-sct", "empty-ocsp", "empty-sct", "ocsp-trailing", "bad-status-type", "trailing", "empty-cert", "short-list"}), seed)
	}
	// split `size` into a certificate chain: overhead 4 + 5 per entry (+ extensions on the leaf)
	n := 1 + r.Intn(4)
	opts := ""
	over := 4 + 5*n
	if r.Intn(4) == 0 && size > 200 {
		k := 1 + r.Intn(60)
		opts += fmt.Sprintf(":o%d", k)
		over += 8 + k
	}
	if r.Intn(4) == 0 && size > 300 {
		k1, k2 := 1+r.Intn(40), 1+r.Intn(40)
		opts += fmt.Sprintf(":s%d+%d", k1, k2)
		over += 6 + 4 + k1 + k2
	}
	rest := size - over
	if rest < n {
		return fmt.Sprintf("junk:%s%d:%d", fill, seed, size)
	}
	sizes := make([]int, n)
	for i := 0; i < n-1; i++ {
		sizes[i] = 1 + r.Intn(rest-(n-1-i))
		if r.Intn(2) == 0 && sizes[i] > 2000 {
			sizes[i] = 300 + r.Intn(1700)
		}
		rest -= sizes[i]
	}
	sizes[n-1] = rest
	// the leaf is usually not the largest: rotate
	if n > 1 && r.Bool() {
		sizes[0], sizes[n-1] = sizes[n-1], sizes[0]
	}
	return fmt.Sprintf("chain:%s%d:%s%s", fill, seed, c21IntsStr(sizes, "+"), opts)
}

func c21GenOffsets(r *Rng, size int) string {
	if size < 2 {
		return "-"
	}
	n := []int{0, 0, 1, 1, 2, 3, 7}[r.Intn(7)]
	var offs []int
	for i := 0; i < n; i++ {
		offs = append(offs, 1+r.Intn(size-1))
	}
	// sorted
	for i := range offs {
		for j := i + 1; j < len(offs); j++ {
			if offs[j] < offs[i] {
				offs[i], offs[j] = offs[j], offs[i]
			}
		}
	}
	return c21IntsStr(offs, "+")
}

func c21GenEnc(r *Rng, codec string, size int) string {
	switch codec {
	case "zlib":
		level := Pick(r, []int{-2, -1, 0, 1, 2, 5, 6, 9})
		wbits := Pick(r, []int{15, 15, 15, 9, 10, 12, 14})
		return fmt.Sprintf("zlib:%d:%d:%s", level, wbits, c21GenOffsets(r, size))
	case "brotli":
		q := Pick(r, []int{0, 1, 2, 4, 0, 1, 2, 4, 5, 6}) // 5 and above zero a large hash table per writer
		if r.Intn(20) == 0 {
			q = Pick(r, []int{9, 11}) // ~0.5 s of hasher set-up per writer
		}
		if size > 40000 && q > 9 {
			q = 9 // quality 10/11 is very slow on large inputs
		}
		lg := Pick(r, []int{10, 12, 16, 18, 18, 16})
		if r.Intn(8) == 0 {
			lg = Pick(r, []int{0, 20, 22, 24}) // large windows are slow to set up
		}

		return fmt.Sprintf("brotli:%d:%d:%s", q, lg, c21GenOffsets(r, size))
	default:
		level := 1 + r.Intn(3)
		wlog := Pick(r, []int{10, 12, 15, 17, 20, 20})
		if r.Intn(30) == 0 {
			// 8 MiB is what every decoder is expected to take (RFC 8878); 16/32 MiB are still valid encodings
			// (klauspost's own best-compression stream encoder declares such windows): a window cap in
			// decompressCert must not refuse them (D34)
			wlog = Pick(r, []int{23, 23, 24, 25})
		}
		if r.Intn(50) == 0 {
			level, wlog = 4, Pick(r, []int{10, 15}) // SpeedBestCompression: ~1 s of table set-up per encoder
		}
		frames := "-"
		if r.Intn(3) == 0 {
			frames = c21GenOffsets(r, size)
		}
		flags := Pick(r, []string{"-", "-", "c", "c", "ck", "k", "e", "ce"})
		return fmt.Sprintf("zstd:%d:%d:%s:%s:%s", level, wlog, c21GenOffsets(r, size), frames, flags)
	}
}

var c21CodecAlg = map[string]int{"zlib": 1, "brotli": 2, "zstd": 3}

func c21GenAlgs(r *Rng, must int) []int {
	sets := [][]int{{2}, {1}, {3}, {2, 1}, {1, 2, 3}, {2, 1, 3}, {3, 2}, {1, 3}}
	a := append([]int(nil), Pick(r, sets)...)
	if must >= 0 {
		found := false
		for _, x := range a {
			found = found || x == must
		}
		if !found {
			a = append(a, must)
		}
	}
	return a
}

func c21GenDecomp(r *Rng, i int, tier string) string {
	size := c21PickSize(r, tier)
	bodyDesc := c21GenBodyDesc(r, size)
	body := c21MkBody(bodyDesc)
	size = len(body)
	codec := []string{"zlib", "brotli", "zstd"}[i%3]
	enc := c21GenEnc(r, codec, size)
	alg := c21CodecAlg[codec]
	algs := c21GenAlgs(r, alg)
	declared := size
	mut := "none"
	pol := Pick(r, []string{"big", "big", "decl", "decl", "rnd" + strconv.Itoa(r.Intn(1000)), "one"})
	switch k := r.Intn(100); {
	case k < 46: // valid encoding, everything right
	case k < 60: // declared length off
		d := Pick(r, []int{-1, 1, -8, 8, size, -size / 2, 1000, -1000, 16777215 - size, 262144 - size, 262145 - size, 300000 - size, 65536})
		declared = size + d
		if declared < 0 {
			declared = 0
		}
		if declared > 16777215 {
			declared = 16777215
		}
	case k < 68: // unadvertised algorithm (the bytes are a valid stream of that algorithm)
		var a2 []int
		for _, x := range algs {
			if x != alg {
				a2 = append(a2, x)
			}
		}
		algs = a2
	case k < 73: // some other algorithm id, advertised or not, over valid bytes
		alg = Pick(r, []int{0, 4, 5, 255, 256, 4660, 65535})
		if r.Bool() {
			algs = append(algs, alg)
		}
	case k < 77: // the stream of one codec under the id of another (advertised)
		other := Pick(r, []int{1, 2, 3})
		alg = other
		algs = c21GenAlgs(r, other)
	case k < 85:
		mut = Pick(r, []string{"trunc:0", "trunc:1", "trunc:2", "trunc:3", "trunc:10", "chop:1", "chop:4", "chop:5", "chop:9",
			fmt.Sprintf("truncp:%d", r.Intn(1000)), fmt.Sprintf("truncp:%d", 900+r.Intn(100))})
	case k < 92:
		mut = fmt.Sprintf("flip:%d", r.Intn(1<<20))
	case k < 95:
		mut = fmt.Sprintf("tail:%d", Pick(r, []int{1, 4, 100}))
	case k < 97:
		mut = "dup"
	case k < 98:
		mut = "empty"
	case k < 99:
		mut = "fdict"
	default:
		enc = "raw"
	}
	if pol == "one" && size > 3000 {
		pol = "big"
	}
	return fmt.Sprintf("algs=%s alg=%d body=%s enc=%s mut=%s declared=%d pol=%s", c21IntsStr(algs, ","), alg, bodyDesc, enc, mut, declared, pol)
}

func c21ExecDecomp(in KV) string {
	algsI := c21Ints(in["algs"], ",")
	alg := in.Int("alg")
	body := c21MkBody(in["body"])
	comp := c21Mutate(in["mut"], c21Encode(in["enc"], body))
	declared := in.Int("declared")
	// the decoder's stream, observed behind a recording reader
	d := c21Drain(alg, comp, in["pol"], declared)
	var algs []uint16
	for _, a := range algsI {
		algs = append(algs, uint16(a))
	}
	sink := &c21SinkConn{}
	var m0, m1 runtime.MemStats
	runtime.ReadMemStats(&m0)
	cm, err := tls.VerifDecompressCert(sink, algs, uint16(alg), uint32(declared), comp)
	runtime.ReadMemStats(&m1)
	alloc := m1.TotalAlloc - m0.TotalAlloc
	// TotalAlloc includes what the decoder allocates for itself, which depends on the read pattern
	// (brotli sizes its ring buffer from the output position). When the coarse figure looks
	// excessive, the call is repeated with every allocation profiled and the bytes allocated by
	// decompressCert itself (its make) are reported exactly.
	mk := "-"
	if alloc > d.alloc+uint64(tls.VerifMaxHandshakeCertificateMsg)+4+(1<<20) {
		mk = strconv.FormatUint(c21MadeByDecompressCert(func() {
			tls.VerifDecompressCert(&c21SinkConn{}, algs, uint16(alg), uint32(declared), comp)
		}), 10)
	}
	res := "ok"
	certs, ocsp, scts := "-", "-", "-"
	al := sink.alerts()
	if err != nil || cm == nil {
		res = "abort:none"
		if len(al) == 1 {
			res = "abort:" + c21AlertName(al[0])
		} else if len(al) > 1 {
			res = "abort:many"
		}
	} else {
		certs, ocsp, scts = c21HexListE(cm.Certificates), hx(cm.OCSPStaple), c21HexListE(cm.SCTs)
		if len(al) > 0 {
			res = "ok+alert"
		}
	}
	// The recovered message must stay what it is while the caller holds it: other connections of
	// the process receive their compressed certificates (same and another algorithm, messages of
	// the same and of a slightly smaller size, different content), then the held result is read again.
	after := "-"
	if cm != nil && err == nil {
		c21LaterDecompressions(alg, len(body))
		after = "same"
		if c2, o2, s2 := c21HexListE(cm.Certificates), hx(cm.OCSPStaple), c21HexListE(cm.SCTs); c2 != certs || o2 != ocsp || s2 != scts {
			after = c2 + "|" + o2 + "|" + s2
		}
	}
	dstr := hx(d.data)
	if bytes.Equal(d.data, body) && len(body) > 0 {
		dstr = "orig"
	}
	return fmt.Sprintf("orig=%s d=%s cs=%s term=%s eager=%v clen=%d res=%s why=%s certs=%s ocsp=%s scts=%s after=%s alloc=%d base=%d mk=%s lim=%d",
		hx(body), dstr, c21IntsStr(d.chunks, ","), d.term, d.eager, len(comp), res, c21WhyClass(err), certs, ocsp, scts, after, alloc, d.alloc, mk, tls.VerifMaxHandshakeCertificateMsg)
}

// c21LaterDecompressions runs decompressCert for other connections after a result has been handed
// out: three messages (0x5a.. / 0xa5.. filled, unparsable on purpose — the bytes are what matters)
// of n, n-1 and n/2 bytes under the same and the next algorithm.
func c21LaterDecompressions(alg, n int) {
	encs := map[int]string{1: "zlib:1:15:-", 2: "brotli:1:16:-", 3: "zstd:1:15:-:-:-"}
	for i, sz := range []int{n, n - 1, n / 2} {
		if sz < 0 {
			sz = 0
		}
		a := alg
		if i == 1 {
			a = alg%3 + 1
		}
		body := bytes.Repeat([]byte{byte(0x5a + 0x4b*i)}, sz)
		comp := c21Encode(encs[a], body)
		tls.VerifDecompressCert(&c21SinkConn{}, []uint16{1, 2, 3}, uint16(a), uint32(sz), comp)
	}
}

// ---------- family cc_codec ----------

func c21GenCodec(r *Rng, i int, tier string) string {
	plen := Pick(r, []int{0, 1, 2, 3, 100, 255, 256, 1000})
	if r.Intn(3) == 0 {
		plen = r.Intn(3000)
	}
	if r.Intn(25) == 0 {
		plen = Pick(r, []int{65535, 65536, 70000})
	}
	alg := Pick(r, []int{0, 1, 2, 3, 255, 256, 65535})
	declared := Pick(r, []uint64{0, 1, 255, 256, 65535, 65536, 16777215, 16777216, 16777217, 4294967295, uint64(r.Intn(1 << 24))})
	pay := hx(r.Bytes(plen))
	switch r.Intn(10) {
	case 0, 1: // unmarshal of a truncated message
		return fmt.Sprintf("op=cut alg=%d declared=%d payload=%s cut=%d", alg, declared, pay, r.Intn(12+plen+1))
	case 2: // trailing bytes after the payload
		return fmt.Sprintf("op=tail alg=%d declared=%d payload=%s tail=%s", alg, declared, pay, hx(r.Bytes(1+r.Intn(5))))
	case 3: // arbitrary bytes
		return fmt.Sprintf("op=raw data=%s", hx(r.Bytes(r.Intn(40))))
	case 4: // inner length field pointing beyond the message
		return fmt.Sprintf("op=lie alg=%d declared=%d payload=%s add=%d", alg, declared, pay, 1+r.Intn(300))
	}
	return fmt.Sprintf("op=rt alg=%d declared=%d payload=%s", alg, declared, pay)
}

func c21ExecCodec(in KV) string {
	var data []byte
	mres := "-"
	if in["op"] == "raw" {
		data = in.Bytes("data")
	} else {
		m, err := tls.VerifCompressedCertMarshal(uint16(in.Int("alg")), uint32(in.U64("declared")), in.Bytes("payload"))
		if err != nil {
			return "m=err u=-"
		}
		mres = hx(m)
		data = append([]byte(nil), m...)
		switch in["op"] {
		case "cut":
			data = data[:in.Int("cut")]
		case "tail":
			data = append(data, in.Bytes("tail")...)
		case "lie":
			n := len(in.Bytes("payload")) + in.Int("add")
			data[9], data[10], data[11] = byte(n>>16), byte(n>>8), byte(n)
		}
	}
	alg, decl, pay, raw, ok := tls.VerifCompressedCertUnmarshal(data)
	if !ok {
		return fmt.Sprintf("m=%s u=fail", mres)
	}
	return fmt.Sprintf("m=%s u=%d:%d:%s rawsame=%v", mres, alg, decl, hx(pay), bytes.Equal(raw, data))
}

// ---------- family cc_hs ----------

type c21IdInfo struct {
	id     tls.ClientHelloID
	tls13  bool
	hasExt bool
	algs   []int
}

var (
	c21IDsOnce sync.Once
	c21IDs     []c21IdInfo
)

func c21IDList() []c21IdInfo {
	c21IDsOnce.Do(func() {
		for _, id := range parrotIDs {
			spec, err := tls.UTLSIdToSpec(id)
			if err != nil {
				continue
			}
			inf := c21IdInfo{id: id}
			for _, e := range spec.Extensions {
				switch x := e.(type) {
				case *tls.SupportedVersionsExtension:
					for _, v := range x.Versions {
						if v == tls.VersionTLS13 {
							inf.tls13 = true
						}
					}
				case *tls.UtlsCompressCertExtension:
					inf.hasExt = true
					for _, a := range x.Algorithms {
						inf.algs = append(inf.algs, int(a))
					}
				}
			}
			if inf.tls13 {
				c21IDs = append(c21IDs, inf)
			}
		}
	})
	return c21IDs
}

var c21FillerOID = asn1.ObjectIdentifier{1, 3, 6, 1, 4, 1, 55555, 21}

var (
	c21FillerMu    sync.Mutex
	c21FillerCache = map[string][]byte{}
	c21FillerKey   *ecdsa.PrivateKey
)

// c21FillerCert is a CA-signed certificate carrying an opaque extension of n bytes (to grow the chain).
func c21FillerCert(fill byte, seed uint64, n int) []byte {
	key := fmt.Sprintf("%c:%d:%d", fill, seed, n)
	c21FillerMu.Lock()
	defer c21FillerMu.Unlock()
	if c, ok := c21FillerCache[key]; ok {
		return c
	}
	if c21FillerKey == nil {
		c21FillerKey, _ = ecdsa.GenerateKey(elliptic.P256(), crand.Reader)
	}
	k := kit()
	now := time.Now()
	t := &x509.Certificate{
		SerialNumber: big.NewInt(int64(1000 + seed%100000)),
		Subject:      pkix.Name{CommonName: "filler", Organization: []string{"verif"}},
		NotBefore:    now.Add(-24 * time.Hour), NotAfter: now.Add(365 * 24 * time.Hour),
		KeyUsage:        x509.KeyUsageDigitalSignature,
		ExtraExtensions: []pkix.Extension{{Id: c21FillerOID, Value: c21FillBytes(fill, seed, n)}},
	}
	der, err := x509.CreateCertificate(crand.Reader, t, k.caCert, &c21FillerKey.PublicKey, k.caKey)
	if err != nil {
		panic(err)
	}
	if len(c21FillerCache) > 64 {
		c21FillerCache = map[string][]byte{}
	}
	c21FillerCache[key] = der
	return der
}

// c21HelloCompressAlgs extracts the compress_certificate extension (27) from a ClientHello message.
func c21HelloCompressAlgs(ch []byte) (bool, []int) {
	defer func() { recover() }()
	p := ch[4:]
	p = p[2+32:]
	p = p[1+int(p[0]):]
	n := int(p[0])<<8 | int(p[1])
	p = p[2+n:]
	p = p[1+int(p[0]):]
	n = int(p[0])<<8 | int(p[1])
	p = p[2 : 2+n]
	for len(p) >= 4 {
		t := int(p[0])<<8 | int(p[1])
		l := int(p[2])<<8 | int(p[3])
		b := p[4 : 4+l]
		p = p[4+l:]
		if t == 27 {
			var algs []int
			k := int(b[0])
			for i := 0; i+1 < k; i += 2 {
				algs = append(algs, int(b[1+i])<<8|int(b[2+i]))
			}
			return true, algs
		}
	}
	return false, nil
}

func c21GenHS(r *Rng, i int, tier string) string {
	ids := c21IDList()
	var inf c21IdInfo
	if i < len(ids) {
		inf = ids[i] // every TLS 1.3 parrot once with a valid compressed certificate (or plain if it has no extension)
	} else {
		inf = ids[r.Intn(len(ids))]
	}
	// chain: the kit's ECDSA leaf plus filler certificates
	nf := []int{0, 0, 1, 1, 2, 3}[r.Intn(6)]
	var fs []string
	for j := 0; j < nf; j++ {
		sz := Pick(r, []int{10, 200, 1500, 4000, 12000, 30000, 50000})
		if tier != "quick" && r.Intn(6) == 0 {
			sz = 60000
		}
		fs = append(fs, fmt.Sprintf("%s%d.%d", string("rtmz"[r.Intn(4)]), r.Intn(1000), sz))
	}
	chain := joinList(fs)
	chain = strings.ReplaceAll(chain, ",", "+")
	mode := "comp"
	alg := 0
	// most parrots advertise brotli only: every other case replaces the algorithm list of the
	// parrot's compress_certificate extension (same hello otherwise, applied as a custom spec)
	advS := "-"
	must := 0
	if inf.hasExt && i >= len(ids) && r.Bool() {
		a := append([]int(nil), Pick(r, [][]int{{1}, {3}, {1, 2, 3}, {3, 1}, {2, 3}, {1, 2}, {3, 2, 1}})...)
		must = 1 + i%3 // the three algorithms in rotation
		found := false
		for _, x := range a {
			found = found || x == must
		}
		if !found {
			a = append(a, must)
		}
		inf.algs = a
		advS = c21IntsStr(a, "+")
	}
	if must != 0 {
		alg = must
	} else if len(inf.algs) > 0 {
		alg = inf.algs[r.Intn(len(inf.algs))]
	} else {
		alg = 1 + r.Intn(3)
	}
	codec := map[int]string{1: "zlib", 2: "brotli", 3: "zstd"}[alg]
	enc := c21GenEnc(r, codec, 600)
	mut, dd, tail, creq := "none", 0, 0, 0
	if i >= len(ids) {
		switch k := r.Intn(100); {
		case k < 40:
		case k < 48:
			mode = "plain"
		case k < 60:
			dd = Pick(r, []int{-1, 1, -8, 8, 100000, 400000, 16000000})
		case k < 70: // an algorithm the client did not advertise
			cands := []int{1, 2, 3, 4, 0}
			alg = cands[r.Intn(len(cands))]
			for _, a := range inf.algs {
				if a == alg {
					alg = 77
				}
			}
		case k < 78:
			mut = Pick(r, []string{"trunc:0", "trunc:1", "trunc:5", "chop:1", "chop:40", "truncp:500"})
		case k < 84:
			mut = fmt.Sprintf("flip:%d", r.Intn(1<<16))
		case k < 88:
			mut = "tail:3"
		case k < 92:
			tail = 1 + r.Intn(4)
		case k < 96:
			enc = "raw" // not compressed at all: large chains exceed the 64 KiB limit for this message type
		default:
			creq = 1
		}
		if r.Intn(12) == 0 {
			creq = 1
		}
	}
	if !inf.hasExt && i < len(ids) && r.Bool() {
		mode = "plain"
	}
	// rebuilt hellos: the UConn gets several presets (hello built in between), with and without the
	// compress_certificate extension; what counts is the hello that is finally sent
	seq := "-"
	if i >= len(ids) && inf.hasExt && !strings.Contains(idName(inf.id), "PSK") && (i%6 == 0 || r.Intn(12) == 0) {
		sets := [][]int{{1}, {2}, {3}, {1, 2}, {2, 3}, {3, 1}, {1, 2, 3}}
		a, b := Pick(r, sets), Pick(r, sets)
		w := func(x []int) string { return "w" + c21IntsStr(x, "+") }
		stale := a[r.Intn(len(a))]
		switch (i / 6) % 5 {
		case 0:
			seq, alg = w(a)+">wo", stale
		case 1:
			seq, alg = w(a)+">drop", stale
		case 2:
			seq, alg = w(a)+">"+w(b), stale // stale or still advertised, as it falls
		case 3:
			seq, alg = "wo>"+w(b), b[r.Intn(len(b))]
		default:
			seq, alg = w(a)+">wo>"+w(b), Pick(r, []int{stale, b[0]})
		}
		advS, mode, mut, dd, tail = "-", "comp", "none", 0, 0
		enc = c21GenEnc(r, map[int]string{1: "zlib", 2: "brotli", 3: "zstd"}[alg], 600)
	}
	return fmt.Sprintf("id=%s adv=%s seq=%s chain=%s mode=%s alg=%d enc=%s mut=%s dd=%d tail=%d creq=%d ocsp=%d pol=%s",
		idName(inf.id), advS, seq, chain, mode, alg, enc, mut, dd, tail, creq, r.Intn(2), Pick(r, []string{"big", "decl", "rnd7"}))
}

// c21SpecWith returns the parrot's spec with the algorithm list of its compress_certificate
// extension replaced (algs != nil) or with the extension removed (algs == nil).
func c21SpecWith(id tls.ClientHelloID, algs []int) (*tls.ClientHelloSpec, error) {
	spec, err := tls.UTLSIdToSpec(id)
	if err != nil {
		return nil, err
	}
	var kept []tls.TLSExtension
	for _, e := range spec.Extensions {
		if x, ok := e.(*tls.UtlsCompressCertExtension); ok {
			if algs == nil {
				continue
			}
			x.Algorithms = nil
			for _, a := range algs {
				x.Algorithms = append(x.Algorithms, tls.CertCompressionAlgo(a))
			}
		}
		kept = append(kept, e)
	}
	spec.Extensions = kept
	return &spec, nil
}

// c21ExecHS: a handshake that runs into its deadline (encoder set-up inside the server's hook on a
// loaded machine) says nothing about the property: it is repeated once with a longer deadline.
func c21ExecHS(in KV) string {
	c21Encode(in["enc"], []byte("warm-up")) // cached zstd encoders are built outside the deadline
	out, timedOut := c21ExecHSOnce(in, 20*time.Second)
	if timedOut {
		out, timedOut = c21ExecHSOnce(in, 60*time.Second)
		if timedOut {
			return "out=timeout"
		}
	}
	return out
}

func c21ExecHSOnce(in KV, timeout time.Duration) (string, bool) {
	id, ok := idByName(in["id"])
	if !ok {
		return "out=bad-id", false
	}
	k := kit()
	leaf := k.leaf["ecdsa"]
	cert := tls.Certificate{Certificate: append([][]byte(nil), leaf.Certificate...), PrivateKey: leaf.PrivateKey}
	for _, f := range strings.Split(in["chain"], "+") {
		if f == "" || f == "-" {
			continue
		}
		dot := strings.IndexByte(f, '.')
		seed, _ := strconv.ParseUint(f[1:dot], 10, 64)
		n, _ := strconv.Atoi(f[dot+1:])
		cert.Certificate = append(cert.Certificate, c21FillerCert(f[0], seed, n))
	}
	if in["ocsp"] == "1" {
		cert.OCSPStaple = c21FillBytes('r', 5, 120)
		cert.SignedCertificateTimestamps = [][]byte{c21FillBytes('r', 6, 40), c21FillBytes('r', 7, 33)}
	}
	alg := in.Int("alg")
	var mu sync.Mutex
	var orig, raw, comp []byte
	declared := 0
	hooks := &tls.VerifServerHooks{RewriteHandshake: func(data []byte) []byte {
		mu.Lock()
		defer mu.Unlock()
		if len(data) < 4 || data[0] != 11 || orig != nil {
			return data
		}
		orig = append([]byte(nil), data[4:]...)
		if in["mode"] == "plain" {
			raw = append([]byte(nil), data...)
			return data
		}
		comp = c21Mutate(in["mut"], c21Encode(in["enc"], orig))
		declared = len(orig) + in.Int("dd")
		if declared < 0 {
			declared = 0
		}
		if declared > 16777215 {
			declared = 16777215
		}
		m, err := tls.VerifCompressedCertMarshal(uint16(alg), uint32(declared), comp)
		if err != nil {
			panic(err)
		}
		m = append(append([]byte(nil), m...), c21FillBytes('r', 9, in.Int("tail"))...)
		n := len(m) - 4
		m[1], m[2], m[3] = byte(n>>16), byte(n>>8), byte(n)
		raw = m
		return m
	}}
	scfg := &tls.Config{Certificates: []tls.Certificate{cert}}
	if in["creq"] == "1" {
		scfg.ClientAuth = tls.RequestClientCert
	}
	opts := HSOpts{ID: id, ClientCfg: &tls.Config{OmitEmptyPsk: true}, ServerCfg: scfg, Hooks: hooks, AppData: []byte("c21"), Timeout: timeout}
	if adv := c21Ints(in["adv"], "+"); len(adv) > 0 {
		spec, err := tls.UTLSIdToSpec(id)
		if err != nil {
			return "out=no-spec", false
		}
		for _, e := range spec.Extensions {
			if x, ok := e.(*tls.UtlsCompressCertExtension); ok {
				x.Algorithms = nil
				for _, a := range adv {
					x.Algorithms = append(x.Algorithms, tls.CertCompressionAlgo(a))
				}
			}
		}
		opts.ID, opts.Spec = tls.HelloCustom, &spec
	}
	if seq := in["seq"]; seq != "" && seq != "-" {
		// w<algs> = ApplyPreset of the parrot's spec with that algorithm list, wo = ApplyPreset of the
		// spec without the extension, drop = the extension taken out of uconn.Extensions. The hello is
		// built (BuildHandshakeStateWithoutSession) after every step but the last; Handshake builds the
		// one that is sent.
		steps := strings.Split(seq, ">")
		stepSpec := func(st string) (*tls.ClientHelloSpec, error) {
			if st == "wo" {
				return c21SpecWith(id, nil)
			}
			return c21SpecWith(id, c21Ints(st[1:], "+"))
		}
		first, err := stepSpec(steps[0])
		if err != nil {
			return "out=no-spec", false
		}
		opts.ID, opts.Spec = tls.HelloCustom, first
		opts.Prepare = func(u *tls.UConn) error {
			for _, st := range steps[1:] {
				if err := u.BuildHandshakeStateWithoutSession(); err != nil {
					return err
				}
				if st == "drop" {
					var kept []tls.TLSExtension
					for _, e := range u.Extensions {
						if _, ok := e.(*tls.UtlsCompressCertExtension); !ok {
							kept = append(kept, e)
						}
					}
					u.Extensions = kept
					continue
				}
				sp, err := stepSpec(st)
				if err != nil {
					return err
				}
				if err := u.ApplyPreset(sp); err != nil {
					return err
				}
			}
			return nil
		}
	}
	res := runHS(opts)
	mu.Lock()
	defer mu.Unlock()
	hasExt, algs := false, []int(nil)
	if chs := clientHellos(res.ClientWire); len(chs) > 0 {
		hasExt, algs = c21HelloCompressAlgs(chs[len(chs)-1])
	}
	if orig == nil {
		return fmt.Sprintf("out=no-certificate client=%s server=%s", errClass(res.ClientErr), errClass(res.ServerErr)), res.TimedOut
	}
	var d c21Drained
	if in["mode"] != "plain" {
		d = c21Drain(alg, comp, in["pol"], declared)
	}
	dstr := hx(d.data)
	if bytes.Equal(d.data, orig) {
		dstr = "orig"
	}
	var peer [][]byte
	for _, c := range res.ClientState.PeerCertificates {
		peer = append(peer, c.Raw)
	}
	// What the first connection holds must stay what it is: another connection of the process then
	// receives its own (smaller) compressed certificate, and the first one's peer certificates are
	// read again afterwards.
	// rendered now: the slices may alias the buffer the certificate was decompressed into
	peerS, ocspS, sctsS := c21HexListE(peer), hx(res.ClientState.OCSPResponse), c21HexListE(res.ClientState.SignedCertificateTimestamps)
	peerAfter := "-"
	if res.ClientErr == nil && res.PrepareErr == nil && in["mode"] != "plain" && len(peer) > 0 {
		before := peerS
		c21LaterHandshake()
		var again [][]byte
		for _, c := range res.UConn.ConnectionState().PeerCertificates {
			again = append(again, c.Raw)
		}
		peerAfter = "same"
		if a := c21HexListE(again); a != before {
			peerAfter = a
		}
	}
	cl := "ok"
	if res.PrepareErr != nil {
		cl = "prepare:" + errClass(res.PrepareErr)
	} else if res.ClientErr != nil {
		cl = "fail"
	}
	rawOut := hx(raw)
	if in["mode"] == "plain" {
		rawOut = "plain" // the Certificate message itself: header + orig
	} else if len(raw) > 70000 {
		// only the header matters for an over-long message; keep the line small
		rawOut = hx(raw[:12]) + fmt.Sprintf(" rawpad=%d", len(raw)-12)
	}
	return fmt.Sprintf("ext=%v algs=%s vers=%04x orig=%s raw=%s d=%s cs=%s term=%s eager=%v client=%s why=%s server=%s peer=%s ocsp=%s scts=%s echo=%v peerafter=%s",
		hasExt, c21IntsStr(algs, ","), res.ClientState.Version, hx(orig), rawOut, dstr, c21IntsStr(d.chunks, ","), d.term, d.eager,
		cl, c21WhyClass(res.ClientErr), errClass(res.ServerErr), peerS, ocspS, sctsS, res.EchoOK, peerAfter), res.TimedOut
}

// c21LaterHandshake: a second connection (Chrome 120, brotli) receives a compressed certificate
// message that is smaller than any the first connection can have received and differs from it (the
// kit's ECDSA leaf for another name, alone; that handshake then fails name verification, after the
// decompression) — also a third connection with zlib (Safari 16).
func c21LaterHandshake() {
	k := kit()
	for _, c := range []struct {
		id  tls.ClientHelloID
		alg uint16
		enc string
	}{{tls.HelloChrome_120, 2, "brotli:1:16:-"}, {tls.HelloSafari_16_0, 1, "zlib:1:15:-"}} {
		c := c
		done := false
		hooks := &tls.VerifServerHooks{RewriteHandshake: func(data []byte) []byte {
			if len(data) < 4 || data[0] != 11 || done {
				return data
			}
			done = true
			m, err := tls.VerifCompressedCertMarshal(c.alg, uint32(len(data)-4), c21Encode(c.enc, data[4:]))
			if err != nil {
				return data
			}
			return m
		}}
		runHS(HSOpts{ID: c.id, ServerCfg: &tls.Config{Certificates: []tls.Certificate{k.wrongName}}, Hooks: hooks})
	}
}

func init() {
	register(&Family{Name: "cc_decomp", Gen: c21GenDecomp, Exec: c21ExecDecomp, Timeout: 60 * time.Second})
	register(&Family{Name: "cc_codec", Gen: c21GenCodec, Exec: c21ExecCodec})
	register(&Family{Name: "cc_hs", Gen: c21GenHS, Exec: c21ExecHS, Timeout: 180 * time.Second})
}
