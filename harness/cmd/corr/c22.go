package main

// C22 — application settings (ALPS) are exchanged consistently.
//
//	alps_hs     real handshakes: the in-package server is made ALPS-capable through the verif
//	            hooks (RewriteHandshake adds the ALPS extension(s) to its EncryptedExtensions or
//	            ServerHello; ClientEncryptedExtensions reads the client's answer through the
//	            transcript). Observed: both error classes, the server EE as sent, the client's
//	            ConnectionState (PeerApplicationSettings, NegotiatedProtocol, Version), the raw
//	            client EncryptedExtensions the server read, and whether application data flows.
//	alps_codec  the three message codecs on generated / mutated byte strings.

import (
	"bytes"
	"fmt"
	"sort"
	"strings"
	"sync"

	tls "github.com/refraction-networking/utls"
)

const (
	alpsOld = 17513
	alpsNew = 17613
)

// ---- which parrots offer ALPS ----

var (
	c22Once    sync.Once
	c22AlpsIDs []string             // ids whose spec carries an ALPS extension
	c22Offer   = map[string][]int{} // id -> offered ALPS code points
	c22Plain   = []string{"Firefox-120", "Chrome-83", "Safari-16.0", "Golang-0"}
	// parrots whose spec ends in a pre_shared_key extension (can resume a TLS 1.3 session)
	c22PskIDs []string
)

func c22Init() {
	c22Once.Do(func() {
		for _, id := range parrotIDs {
			spec, err := tls.UTLSIdToSpec(id)
			if err != nil {
				continue
			}
			for _, e := range spec.Extensions {
				switch e.(type) {
				case *tls.ApplicationSettingsExtension:
					c22Offer[idName(id)] = append(c22Offer[idName(id)], alpsOld)
				case *tls.ApplicationSettingsExtensionNew:
					c22Offer[idName(id)] = append(c22Offer[idName(id)], alpsNew)
				case *tls.UtlsPreSharedKeyExtension:
					c22PskIDs = append(c22PskIDs, idName(id))
				}
			}
			if len(c22Offer[idName(id)]) > 0 {
				c22AlpsIDs = append(c22AlpsIDs, idName(id))
			}
		}
	})
}

// c22Spec builds a small TLS 1.3/1.2 spec offering ALPS on the given code points
// ("old", "new", "both", "none") and ALPN iff alpn.
func c22Spec(offer string, alpn bool, psk bool) *tls.ClientHelloSpec {
	exts := []tls.TLSExtension{
		&tls.SNIExtension{},
		&tls.ExtendedMasterSecretExtension{},
		&tls.RenegotiationInfoExtension{Renegotiation: tls.RenegotiateOnceAsClient},
		&tls.SupportedCurvesExtension{Curves: []tls.CurveID{tls.X25519, tls.CurveP256}},
		&tls.SupportedPointsExtension{SupportedPoints: []byte{0}},
		&tls.SignatureAlgorithmsExtension{SupportedSignatureAlgorithms: []tls.SignatureScheme{
			tls.ECDSAWithP256AndSHA256, tls.PSSWithSHA256, tls.PKCS1WithSHA256, tls.ECDSAWithP384AndSHA384, tls.PSSWithSHA384, tls.PKCS1WithSHA384}},
		&tls.KeyShareExtension{KeyShares: []tls.KeyShare{{Group: tls.X25519}}},
		&tls.PSKKeyExchangeModesExtension{Modes: []uint8{tls.PskModeDHE}},
		&tls.SupportedVersionsExtension{Versions: []uint16{tls.VersionTLS13, tls.VersionTLS12}},
	}
	if alpn {
		exts = append(exts, &tls.ALPNExtension{AlpnProtocols: []string{"h2", "http/1.1"}})
	}
	switch offer {
	case "old":
		exts = append(exts, &tls.ApplicationSettingsExtension{SupportedProtocols: []string{"h2"}})
	case "new":
		exts = append(exts, &tls.ApplicationSettingsExtensionNew{SupportedProtocols: []string{"h2"}})
	case "both":
		exts = append(exts, &tls.ApplicationSettingsExtension{SupportedProtocols: []string{"h2"}},
			&tls.ApplicationSettingsExtensionNew{SupportedProtocols: []string{"h2"}})
	}
	if psk {
		// must stay last (RFC 8446 4.2.11); omitted on the wire while there is no session (OmitEmptyPsk)
		exts = append(exts, &tls.UtlsPreSharedKeyExtension{})
	}
	return &tls.ClientHelloSpec{
		TLSVersMin: tls.VersionTLS12, TLSVersMax: tls.VersionTLS13,
		CipherSuites: []uint16{tls.TLS_AES_128_GCM_SHA256, tls.TLS_CHACHA20_POLY1305_SHA256,
			tls.TLS_ECDHE_ECDSA_WITH_AES_128_GCM_SHA256, tls.TLS_ECDHE_RSA_WITH_AES_128_GCM_SHA256},
		CompressionMethods: []uint8{0},
		Extensions:         exts,
	}
}

// ---- small wire helpers ----

func c22Ext(t int, body []byte) []byte {
	return append([]byte{byte(t >> 8), byte(t), byte(len(body) >> 8), byte(len(body))}, body...)
}

// c22AddToEE appends (or prepends) extension bytes to an EncryptedExtensions message.
func c22AddToEE(msg, exts []byte, front bool) []byte {
	if len(msg) < 6 || msg[0] != 8 {
		return msg
	}
	old := msg[6:]
	var body []byte
	if front {
		body = append(append([]byte{}, exts...), old...)
	} else {
		body = append(append([]byte{}, old...), exts...)
	}
	n := len(body)
	out := []byte{8, byte((n + 2) >> 16), byte((n + 2) >> 8), byte(n + 2), byte(n >> 8), byte(n)}
	return append(out, body...)
}

var hrrRandom_c22 = []byte{0xCF, 0x21, 0xAD, 0x74, 0xE5, 0x9A, 0x61, 0x11, 0xBE, 0x1D, 0x8C, 0x02, 0x1E, 0x65, 0xB8, 0x91,
	0xC2, 0xA2, 0x11, 0x16, 0x7A, 0xBB, 0x8C, 0x5E, 0x07, 0x9E, 0x09, 0xE2, 0xC8, 0xA8, 0x33, 0x9C}

// c22AddToSH appends extension bytes to a ServerHello (not a HelloRetryRequest).
func c22AddToSH(msg, exts []byte) []byte {
	if len(msg) < 4+2+32+1 || msg[0] != 2 || bytes.Equal(msg[6:38], hrrRandom_c22) {
		return msg
	}
	p := 4 + 2 + 32
	p += 1 + int(msg[p]) // session id
	p += 2 + 1           // suite, compression
	if p > len(msg) {
		return msg
	}
	var old []byte
	if p+2 <= len(msg) {
		old = msg[p+2:]
	}
	body := append(append([]byte{}, old...), exts...)
	out := append([]byte{}, msg[4:p]...)
	out = append(out, byte(len(body)>>8), byte(len(body)))
	out = append(out, body...)
	n := len(out)
	return append([]byte{2, byte(n >> 16), byte(n >> 8), byte(n)}, out...)
}

// c22HelloExts returns the extensions of a ClientHello handshake message (type -> body, first wins)
// and their order.
func c22HelloExts(ch []byte) (map[int][]byte, []int) {
	m := map[int][]byte{}
	var order []int
	if len(ch) < 4+2+32+1 {
		return m, nil
	}
	p := 4 + 2 + 32
	p += 1 + int(ch[p])
	if p+2 > len(ch) {
		return m, nil
	}
	p += 2 + (int(ch[p])<<8 | int(ch[p+1]))
	if p+1 > len(ch) {
		return m, nil
	}
	p += 1 + int(ch[p])
	if p+2 > len(ch) {
		return m, nil
	}
	p += 2
	for p+4 <= len(ch) {
		t := int(ch[p])<<8 | int(ch[p+1])
		n := int(ch[p+2])<<8 | int(ch[p+3])
		if p+4+n > len(ch) {
			break
		}
		if _, dup := m[t]; !dup {
			m[t] = ch[p+4 : p+4+n]
		}
		order = append(order, t)
		p += 4 + n
	}
	return m, order
}

// alpnOffered renders the client's offered protocol list (each hex, comma-separated).
func c22AlpnOffered(body []byte) string {
	if len(body) < 2 {
		return "-"
	}
	b := body[2:]
	var out []string
	for len(b) > 0 {
		n := int(b[0])
		if 1+n > len(b) {
			break
		}
		out = append(out, hx(b[1:1+n]))
		b = b[1+n:]
	}
	return joinList(out)
}

// ---- settings maps on the line: "nil" | "empty" | hexname:hexvalue,... (sorted) ----

func c22MapStr(m map[string][]byte) string {
	if m == nil {
		return "nil"
	}
	if len(m) == 0 {
		return "empty"
	}
	var ks []string
	for k := range m {
		ks = append(ks, k)
	}
	sort.Strings(ks)
	var out []string
	for _, k := range ks {
		out = append(out, hx([]byte(k))+":"+hx(m[k]))
	}
	return strings.Join(out, ",")
}

func c22ParseMap(s string) map[string][]byte {
	switch s {
	case "nil", "":
		return nil
	case "empty":
		return map[string][]byte{}
	}
	m := map[string][]byte{}
	for _, e := range strings.Split(s, ",") {
		kv := strings.SplitN(e, ":", 2)
		if len(kv) != 2 {
			panic("bad cset " + s)
		}
		v := unhex(kv[1])
		if v == nil {
			v = []byte{}
		}
		m[string(unhex(kv[0]))] = v
	}
	return m
}

// server ALPS list on the line: "-" | cp:hex,cp:hex (in wire order)
type c22Alps struct {
	cp   int
	body []byte
}

func c22ParseAlps(s string) []c22Alps {
	var out []c22Alps
	for _, e := range splitList(s) {
		kv := strings.SplitN(e, ":", 2)
		var cp int
		fmt.Sscanf(kv[0], "%d", &cp)
		out = append(out, c22Alps{cp, unhex(kv[1])})
	}
	return out
}

func c22Settings(r *Rng) []byte {
	switch r.Intn(12) {
	case 0:
		return nil
	case 1:
		return r.Bytes(1)
	case 2, 3:
		return r.Bytes(1024)
	case 4:
		return r.Bytes(Pick(r, []int{255, 256, 257, 4096, 16384, 20000}))
	default:
		return r.Bytes(2 + r.Intn(40))
	}
}

func c22GenMap(r *Rng, alpn string) map[string][]byte {
	switch r.Intn(10) {
	case 0:
		return nil
	case 1:
		return map[string][]byte{}
	case 2, 3: // only for another protocol
		other := "http/1.1"
		if alpn == "http/1.1" {
			other = "h2"
		}
		return map[string][]byte{Pick(r, []string{other, "h3", "", "h2c"}): c22Settings(r)}
	case 4: // several protocols incl. the empty name
		return map[string][]byte{"h2": c22Settings(r), "http/1.1": c22Settings(r), "": c22Settings(r)}
	case 5:
		return map[string][]byte{"h2": c22Settings(r), "http/1.1": c22Settings(r)}
	default:
		return map[string][]byte{"h2": c22Settings(r)}
	}
}

func init() {
	register(&Family{
		Name: "alps_hs",
		Gen: func(r *Rng, i int, tier string) string {
			c22Init()
			// client
			var id, offer, calpn string
			var offered []int
			// prev=1: the observed connection is the second of two over one ClientSessionCache and one
			// set of server ticket keys (the first, with the same parameters, obtains the ticket), so it
			// RESUMES a TLS 1.3 session; only clients that can offer a PSK
			prev := r.Intn(5) == 0
			psk := ""
			switch k := r.Intn(10); {
			case prev && k < 5:
				id = Pick(r, c22PskIDs)
				offered = c22Offer[id]
			case prev && k < 6:
				id = "Golang-0"
			case prev:
				id = "custom"
				offer = Pick(r, []string{"old", "new", "both", "old", "new"})
				offered = map[string][]int{"old": {alpsOld}, "new": {alpsNew}, "both": {alpsOld, alpsNew}}[offer]
				calpn, psk = "1", "1"
			case k < 4:
				id = c22AlpsIDs[(i/2)%len(c22AlpsIDs)]
				offered = c22Offer[id]
			case k < 5:
				id = "Chrome-133" // the only parrot on the new code point
				offered = c22Offer[id]
			case k < 6:
				id = Pick(r, c22Plain)
			default:
				id = "custom"
				offer = Pick(r, []string{"old", "new", "both", "none", "old", "new"})
				offered = map[string][]int{"old": {alpsOld}, "new": {alpsNew}, "both": {alpsOld, alpsNew}}[offer]
				calpn = "1"
				if r.Intn(6) == 0 {
					calpn = "0"
				}
			}
			// server
			smax := 13
			where := "ee"
			switch r.Intn(10) {
			case 0, 1:
				smax, where = 12, "sh"
			case 2:
				where = "sh"
			}
			if prev {
				smax = 13
				if r.Intn(8) != 0 {
					where = "ee"
				}
			}
			salpn := Pick(r, []string{"h2", "h2", "h2", "h2", "http/1.1", "none"})
			one := func(cp int) string { return fmt.Sprintf("%d:%s", cp, hx(c22Settings(r))) }
			other := func(cp int) int {
				if cp == alpsOld {
					return alpsNew
				}
				return alpsOld
			}
			var sa []string
			switch k := r.Intn(20); {
			case k < 1:
				// no ALPS at all
			case k < 3:
				sa = []string{one(alpsOld), one(alpsNew)}
			case k < 5:
				sa = []string{one(alpsNew), one(alpsOld)}
			case k < 6: // the same code point twice (EncryptedExtensions only: the ServerHello
				// parser rejects duplicate extensions of any type, which is not this property's business)
				cp := Pick(r, []int{alpsOld, alpsNew})
				sa = []string{one(cp), one(cp)}
				smax, where = 13, "ee"
			case k < 16 && len(offered) > 0: // a code point the client offered
				sa = []string{one(Pick(r, offered))}
			case k < 18 && len(offered) > 0: // one it did not offer
				sa = []string{one(other(Pick(r, offered)))}
			default:
				sa = []string{one(Pick(r, []int{alpsOld, alpsNew}))}
			}
			proto := salpn
			if proto == "none" {
				proto = "h2"
			}
			cset := c22MapStr(c22GenMap(r, proto))
			ccert, hrr, front := 0, 0, 0
			if r.Intn(5) == 0 {
				ccert = 1
			}
			// HelloRetryRequest (server insists on P-256): only for clients known to take it
			// (Firefox parrots fail there for an unrelated reason, D06)
			if where == "ee" && smax == 13 && r.Intn(6) == 0 && (id == "custom" || len(c22Offer[id]) > 0) && !prev {
				hrr = 1
			}
			if r.Intn(3) == 0 {
				front = 1
			}
			s := fmt.Sprintf("id=%s smax=%d where=%s salpn=%s salps=%s cset=%s ccert=%d hrr=%d front=%d", id, smax, where, salpn, joinList(sa), cset, ccert, hrr, front)
			if id == "custom" {
				s += fmt.Sprintf(" offer=%s calpn=%s", offer, calpn)
				if psk != "" {
					s += " psk=1"
				}
			}
			if prev {
				s += " prev=1"
			}
			return s
		},
		Exec: c22ExecHS,
	})
	register(&Family{Name: "alps_codec", Gen: c22GenCodec, Exec: c22ExecCodec})
}

func c22ExecHS(in KV) string {
	if in["prev"] != "1" {
		return c22OneConn(in, nil, nil)
	}
	// two connections over one client session cache and one set of server ticket keys
	cache := tls.NewLRUClientSessionCache(4)
	keys := [][32]byte{{0xc2, 0x02, 0x02}}
	first := c22OneConn(in, cache, keys)
	fkv := parseKV(strings.Fields(first))
	second := c22OneConn(in, cache, keys)
	return second + fmt.Sprintf(" first=%s/%s/%s", fkv["c"], fkv["s"], fkv["ceed"])
}

// c22OneConn runs one handshake (+ echo, during which the client stores the server's ticket).
func c22OneConn(in KV, cache tls.ClientSessionCache, ticketKeys [][32]byte) string {
	var o HSOpts
	if in["id"] == "custom" {
		o.ID = tls.HelloCustom
		o.Spec = c22Spec(in["offer"], in["calpn"] != "0", in["psk"] == "1")
	} else {
		id, ok := idByName(in["id"])
		if !ok {
			return "out=bad-id"
		}
		o.ID = id
	}
	o.ClientCfg = &tls.Config{OmitEmptyPsk: true, ApplicationSettings: c22ParseMap(in["cset"]), ClientSessionCache: cache}
	if o.ID == tls.HelloGolang {
		o.ClientCfg.NextProtos = []string{"h2", "http/1.1"}
	}
	scfg := &tls.Config{}
	if in["smax"] == "12" {
		scfg.MaxVersion = tls.VersionTLS12
	}
	if in["salpn"] != "none" {
		scfg.NextProtos = []string{in["salpn"]}
	}
	if in["ccert"] == "1" {
		scfg.ClientAuth = tls.RequestClientCert
	}
	if in["hrr"] == "1" {
		scfg.CurvePreferences = []tls.CurveID{tls.CurveP256}
	}
	if ticketKeys != nil {
		scfg.SetSessionTicketKeys(ticketKeys)
	}
	o.ServerCfg = scfg
	alps := c22ParseAlps(in["salps"])
	var extBytes []byte
	for _, a := range alps {
		extBytes = append(extBytes, c22Ext(a.cp, a.body)...)
	}
	var mu sync.Mutex
	var eeSent, cee []byte
	ceeSeen := false
	hooks := &tls.VerifServerHooks{}
	hooks.RewriteHandshake = func(data []byte) []byte {
		if len(data) == 0 {
			return data
		}
		out := data
		switch {
		case data[0] == 8 && in["where"] == "ee" && len(extBytes) > 0:
			out = c22AddToEE(data, extBytes, in["front"] == "1")
		case data[0] == 2 && in["where"] == "sh" && len(extBytes) > 0:
			out = c22AddToSH(data, extBytes)
		}
		if data[0] == 8 {
			mu.Lock()
			eeSent = append([]byte(nil), out...)
			mu.Unlock()
		}
		return out
	}
	if in["where"] == "ee" && len(alps) > 0 {
		// an ALPS-negotiating server reads the client's EncryptedExtensions before its Finished
		hooks.ClientEncryptedExtensions = func(raw []byte) {
			mu.Lock()
			cee = append([]byte(nil), raw...)
			ceeSeen = true
			mu.Unlock()
		}
	}
	o.Hooks = hooks
	o.AppData = []byte("ping-c22")
	res := runHS(o)
	if res.PrepareErr != nil {
		return "out=prepare-err msg=" + sanitize(res.PrepareErr.Error())
	}
	if res.TimedOut {
		return "out=timeout"
	}
	// what the client put on the wire
	offered, calpn, nh := "-", "-", 0
	if chs := clientHellos(res.ClientWire); len(chs) > 0 {
		nh = len(chs)
		m, _ := c22HelloExts(chs[len(chs)-1])
		var cps []string
		for _, cp := range []int{alpsOld, alpsNew} {
			if _, ok := m[cp]; ok {
				cps = append(cps, fmt.Sprint(cp))
			}
		}
		offered = joinList(cps)
		if b, ok := m[16]; ok {
			calpn = c22AlpnOffered(b)
		}
	}
	// the client's view (also after a failed handshake: the state is what a caller can read)
	st := res.ClientState
	if res.ClientErr != nil && res.UConn != nil {
		st = res.UConn.ConnectionState()
	}
	mu.Lock()
	defer mu.Unlock()
	ceeS, ceed := "none", "none"
	if ceeSeen {
		ceeS = hx(cee)
		if ok, cp, set := tls.VerifClientEEUnmarshal(cee); ok {
			ceed = fmt.Sprintf("%d:%s", cp, hx(set))
		} else {
			ceed = "bad"
		}
	}
	echo := 0
	if res.EchoOK {
		echo = 1
	}
	b2i := func(b bool) int {
		if b {
			return 1
		}
		return 0
	}
	return fmt.Sprintf("out=ok c=%s s=%s vers=%04x np=%s offered=%s calpn=%s hellos=%d ees=%s peer=%s cee=%s ceed=%s echo=%d cres=%d sres=%d",
		errClass(res.ClientErr), errClass(res.ServerErr), st.Version, hx([]byte(st.NegotiatedProtocol)), offered, calpn, nh,
		hx(eeSent), hx(st.PeerApplicationSettings), ceeS, ceed, echo, b2i(st.DidResume), b2i(res.ServerState.DidResume))
}

// ---- alps_codec ----
//
//	op=cm  cp=<n> set=<hex> cust=<hex>      marshal of a client EE  => out=<hex>|err
//	op=cu  data=<hex>                       unmarshal of a client EE => ok=0 | ok=1 cp=<n> set=<hex>
//	op=su  data=<hex>                       unmarshal of a server EE => ok=0 | ok=1 alpn= cp= set= quic= early= ech=

func c22RandExts(r *Rng, server bool) []byte {
	var out []byte
	for i, n := 0, r.Intn(4); i < n; i++ {
		var t int
		var body []byte
		switch k := r.Intn(10); {
		case k < 3:
			t, body = Pick(r, []int{alpsOld, alpsNew}), c22Settings(r)
		case k < 5 && server:
			t = 16
			p := r.Bytes(r.Intn(4))
			switch r.Intn(6) {
			case 0:
				body = r.Bytes(r.Intn(5))
			case 1: // two protocols
				body = append([]byte{0, byte(len(p) + 3), byte(len(p))}, append(p, 1, 'x')...)
			default:
				body = append([]byte{0, byte(len(p) + 1), byte(len(p))}, p...)
			}
		case k < 6 && server:
			t, body = Pick(r, []int{57, 42, 0xfe0d}), r.Bytes(r.Intn(3))
		case k < 7:
			t, body = 1234, r.Bytes(r.Intn(6))
		default:
			t, body = int(r.U64()&0xffff), r.Bytes(r.Intn(8))
		}
		out = append(out, c22Ext(t, body)...)
	}
	return out
}

func c22Frame(r *Rng, exts []byte) []byte {
	n := len(exts)
	msg := append([]byte{8, byte((n + 2) >> 16), byte((n + 2) >> 8), byte(n + 2), byte(n >> 8), byte(n)}, exts...)
	switch r.Intn(12) {
	case 0: // truncated
		if len(msg) > 0 {
			msg = msg[:r.Intn(len(msg))]
		}
	case 1: // trailing byte
		msg = append(msg, byte(r.U64()))
	case 2: // corrupt one byte
		msg[r.Intn(len(msg))] ^= byte(1 << uint(r.Intn(8)))
	case 3: // header bytes are not inspected by unmarshal
		msg[0], msg[1] = byte(r.U64()), byte(r.U64())
	}
	return msg
}

func c22GenCodec(r *Rng, i int, tier string) string {
	switch i % 3 {
	case 0:
		cp := Pick(r, []int{alpsOld, alpsNew, alpsOld, alpsNew, 0, 0, 1234, int(r.U64() & 0xffff)})
		set := c22Settings(r)
		if cp == 0 && r.Bool() {
			set = nil
		}
		if r.Intn(25) == 0 {
			set = r.Bytes(Pick(r, []int{65531, 65532, 65535, 65536, 70000}))
		}
		var cust []byte
		if r.Intn(8) == 0 {
			cust = r.Bytes(1 + r.Intn(5))
		}
		return fmt.Sprintf("op=cm cp=%d set=%s cust=%s", cp, hx(set), hx(cust))
	case 1:
		return "op=cu data=" + hx(c22Frame(r, c22RandExts(r, false)))
	default:
		return "op=su data=" + hx(c22Frame(r, c22RandExts(r, true)))
	}
}

func c22ExecCodec(in KV) string {
	switch in["op"] {
	case "cm":
		raw, err := tls.VerifClientEEMarshal(uint16(in.Int("cp")), in.Bytes("set"), in.Bytes("cust"))
		if err != nil {
			return "out=err"
		}
		// decode-of-encode by the real decoder, for the round-trip monitor
		ok, cp, set := tls.VerifClientEEUnmarshal(raw)
		back := "bad"
		if ok {
			back = fmt.Sprintf("%d:%s", cp, hx(set))
		}
		return fmt.Sprintf("out=%s back=%s", hx(raw), back)
	case "cu":
		ok, cp, set := tls.VerifClientEEUnmarshal(in.Bytes("data"))
		if !ok {
			return "ok=0"
		}
		return fmt.Sprintf("ok=1 cp=%d set=%s", cp, hx(set))
	case "su":
		ok, m := tls.VerifServerEEUnmarshal(in.Bytes("data"))
		if !ok {
			return "ok=0"
		}
		q := "nil"
		if m.HasQUICTP {
			q = hx(m.QUICTP)
		}
		e := "nil"
		if m.ECHRetry != nil {
			e = hx(m.ECHRetry)
		}
		early := 0
		if m.EarlyData {
			early = 1
		}
		return fmt.Sprintf("ok=1 alpn=%s cp=%d set=%s quic=%s early=%d ech=%s", hx([]byte(m.ALPN)), m.ALPSCode, hx(m.ALPS), q, early, e)
	}
	return "out=bad-op"
}
