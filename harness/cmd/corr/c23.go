package main

// ---- C23: UQUICConn Start / HandleData / NextEvent / Close against the in-package QUIC server ----
//
// One case = one real UQUICClient paired with one real tls.QUICServer, driven by a single-threaded
// event pump. Every API call of the client runs under a deadline; a call that does not return is
// recorded as `timeout` (and the pump stops). The output is the client's call history (each call
// with its result and the events drained after it: kinds, levels, data lengths), the server's event
// list and the facts read from the ClientHello(s) the client emitted.

import (
	"context"
	"fmt"
	"strings"
	"time"

	tls "github.com/refraction-networking/utls"
)

const c23CallDeadline = 6 * time.Second

// ---------- specs ----------

func c23TPs(variant int) tls.TransportParameters {
	switch variant {
	case 1:
		return tls.TransportParameters{}
	case 2:
		return tls.TransportParameters{
			tls.InitialMaxStreamDataBidiRemote(0x100000),
			tls.InitialMaxStreamsUni(100),
			&tls.GREASETransportParameter{Length: 5},
			tls.InitialSourceConnectionID([]byte{}),
			&tls.VersionInformation{ChoosenVersion: tls.VERSION_1, AvailableVersions: []uint32{tls.VERSION_GREASE, tls.VERSION_1}, LegacyID: true},
			tls.MaxDatagramFrameSize(65536),
		}
	case 3:
		return tls.TransportParameters{
			tls.MaxIdleTimeout(30000),
			&tls.FakeQUICTransportParameter{Id: 0x4752, Val: make([]byte, 1200)},
			tls.InitialMaxData(1 << 24),
		}
	}
	return tls.TransportParameters{
		tls.InitialMaxStreamsUni(103),
		tls.MaxIdleTimeout(30000),
		tls.InitialMaxData(15728640),
		tls.InitialMaxStreamDataUni(6291456),
		tls.InitialSourceConnectionID([]byte{}),
		tls.MaxUDPPayloadSize(1472),
		tls.InitialMaxStreamDataBidiLocal(6291456),
		tls.InitialMaxStreamsBidi(100),
		tls.InitialMaxStreamDataBidiRemote(6291456),
	}
}

// c23Specs: names of the QUIC-capable specs the harness can build.
//   q-<parrot>   : UTLSIdToSpec(parrot) narrowed to TLS 1.3 only (supported_versions = GREASE? + 0x0304,
//                  pre_shared_key dropped), ALPN replaced by h3, quic_transport_parameters appended
//   c-<custom>   : hand-built QUIC hellos
var c23CustomNames = []string{"c-chrome", "c-firefox", "c-min", "c-p256", "c-p384x", "c-mlkem"}

func c23ParrotNames() []string {
	var out []string
	for _, id := range parrotIDs {
		spec, err := tls.UTLSIdToSpec(id)
		if err != nil {
			continue
		}
		has13 := false
		for _, e := range spec.Extensions {
			if sv, ok := e.(*tls.SupportedVersionsExtension); ok {
				for _, v := range sv.Versions {
					if v == tls.VersionTLS13 {
						has13 = true
					}
				}
			}
		}
		if has13 {
			out = append(out, "q-"+idName(id))
		}
	}
	return out
}

func c23AllSpecNames() []string { return append(c23ParrotNames(), c23CustomNames...) }

type c23SpecInfo struct {
	spec   *tls.ClientHelloSpec
	groups []tls.CurveID // supported_groups offered (GREASE removed)
	shares []tls.CurveID // groups with a key share
	alpn   []string
	hasTP  bool
	has13  bool // offers a TLS 1.3 cipher suite
}

func c23IsGrease(v uint16) bool { return v&0x0f0f == 0x0a0a && v>>8 == v&0xff }

func c23Info(spec *tls.ClientHelloSpec) *c23SpecInfo {
	inf := &c23SpecInfo{spec: spec}
	for _, cs := range spec.CipherSuites {
		if cs == tls.TLS_AES_128_GCM_SHA256 || cs == tls.TLS_AES_256_GCM_SHA384 || cs == tls.TLS_CHACHA20_POLY1305_SHA256 {
			inf.has13 = true
		}
	}
	for _, e := range spec.Extensions {
		switch x := e.(type) {
		case *tls.SupportedCurvesExtension:
			for _, g := range x.Curves {
				if !c23IsGrease(uint16(g)) {
					inf.groups = append(inf.groups, g)
				}
			}
		case *tls.KeyShareExtension:
			for _, ks := range x.KeyShares {
				if !c23IsGrease(uint16(ks.Group)) {
					inf.shares = append(inf.shares, ks.Group)
				}
			}
		case *tls.ALPNExtension:
			inf.alpn = x.AlpnProtocols
		case *tls.QUICTransportParametersExtension:
			inf.hasTP = true
		}
	}
	return inf
}

// c23BuildSpec returns the spec for a name (nil, id for the "golang" pseudo-spec) with the transport
// parameter variant tp (tp < 0: no quic_transport_parameters extension) and the ALPN list.
func c23BuildSpec(name string, tp int, alpn []string, suites13 bool) (*tls.ClientHelloSpec, error) {
	var spec tls.ClientHelloSpec
	switch {
	case strings.HasPrefix(name, "q-"):
		id, ok := idByName(name[2:])
		if !ok {
			return nil, fmt.Errorf("unknown parrot %s", name)
		}
		s, err := tls.UTLSIdToSpec(id)
		if err != nil {
			return nil, err
		}
		spec = s
		var exts []tls.TLSExtension
		for _, e := range spec.Extensions {
			switch x := e.(type) {
			case *tls.SupportedVersionsExtension:
				var vs []uint16
				for _, v := range x.Versions {
					if v == tls.VersionTLS13 || c23IsGrease(v) {
						vs = append(vs, v)
					}
				}
				exts = append(exts, &tls.SupportedVersionsExtension{Versions: vs})
			case *tls.UtlsPreSharedKeyExtension, *tls.FakePreSharedKeyExtension:
				// dropped: no session is offered
			case *tls.ALPNExtension:
				if len(alpn) > 0 {
					exts = append(exts, &tls.ALPNExtension{AlpnProtocols: alpn})
				}
			default:
				exts = append(exts, e)
			}
		}
		spec.Extensions = exts
	case name == "c-chrome":
		spec = tls.ClientHelloSpec{
			CipherSuites:       []uint16{tls.TLS_AES_128_GCM_SHA256, tls.TLS_AES_256_GCM_SHA384, tls.TLS_CHACHA20_POLY1305_SHA256},
			CompressionMethods: []uint8{0},
			Extensions: []tls.TLSExtension{
				&tls.SNIExtension{},
				&tls.ALPNExtension{AlpnProtocols: alpn},
				&tls.SignatureAlgorithmsExtension{SupportedSignatureAlgorithms: []tls.SignatureScheme{
					tls.ECDSAWithP256AndSHA256, tls.PSSWithSHA256, tls.PKCS1WithSHA256, tls.ECDSAWithP384AndSHA384, tls.PSSWithSHA384, tls.PKCS1WithSHA384, tls.PSSWithSHA512, tls.PKCS1WithSHA512}},
				&tls.SupportedCurvesExtension{Curves: []tls.CurveID{tls.X25519, tls.CurveP256, tls.CurveP384}},
				&tls.PSKKeyExchangeModesExtension{Modes: []uint8{tls.PskModeDHE}},
				&tls.KeyShareExtension{KeyShares: []tls.KeyShare{{Group: tls.X25519}}},
				&tls.SupportedVersionsExtension{Versions: []uint16{tls.VersionTLS13}},
				&tls.UtlsCompressCertExtension{Algorithms: []tls.CertCompressionAlgo{tls.CertCompressionBrotli}},
				&tls.ApplicationSettingsExtension{SupportedProtocols: []string{"h3"}},
			},
		}
	case name == "c-firefox":
		spec = tls.ClientHelloSpec{
			CipherSuites:       []uint16{tls.TLS_AES_128_GCM_SHA256, tls.TLS_CHACHA20_POLY1305_SHA256, tls.TLS_AES_256_GCM_SHA384},
			CompressionMethods: []uint8{0},
			Extensions: []tls.TLSExtension{
				&tls.SNIExtension{},
				&tls.ExtendedMasterSecretExtension{},
				&tls.RenegotiationInfoExtension{Renegotiation: tls.RenegotiateOnceAsClient},
				&tls.SupportedCurvesExtension{Curves: []tls.CurveID{tls.X25519, tls.CurveP256, tls.CurveP384, tls.CurveP521}},
				&tls.ALPNExtension{AlpnProtocols: alpn},
				&tls.StatusRequestExtension{},
				&tls.KeyShareExtension{KeyShares: []tls.KeyShare{{Group: tls.X25519}, {Group: tls.CurveP256}}},
				&tls.SupportedVersionsExtension{Versions: []uint16{tls.VersionTLS13}},
				&tls.SignatureAlgorithmsExtension{SupportedSignatureAlgorithms: []tls.SignatureScheme{
					tls.ECDSAWithP256AndSHA256, tls.ECDSAWithP384AndSHA384, tls.ECDSAWithP521AndSHA512, tls.PSSWithSHA256, tls.PSSWithSHA384, tls.PSSWithSHA512, tls.PKCS1WithSHA256, tls.PKCS1WithSHA384, tls.PKCS1WithSHA512}},
				&tls.PSKKeyExchangeModesExtension{Modes: []uint8{tls.PskModeDHE}},
				&tls.FakeRecordSizeLimitExtension{Limit: 0x4001},
			},
		}
	case name == "c-min", name == "c-p256", name == "c-p384x", name == "c-mlkem":
		groups := []tls.CurveID{tls.X25519, tls.CurveP256, tls.CurveP384, tls.CurveP521}
		shares := []tls.KeyShare{{Group: tls.X25519}}
		switch name {
		case "c-p256":
			groups = []tls.CurveID{tls.CurveP256, tls.X25519, tls.CurveP384}
			shares = []tls.KeyShare{{Group: tls.CurveP256}}
		case "c-p384x":
			groups = []tls.CurveID{tls.CurveP384, tls.CurveP521, tls.X25519, tls.CurveP256}
			shares = []tls.KeyShare{{Group: tls.CurveP384}}
		case "c-mlkem":
			groups = []tls.CurveID{tls.X25519MLKEM768, tls.X25519, tls.CurveP256}
			shares = []tls.KeyShare{{Group: tls.X25519MLKEM768}, {Group: tls.X25519}}
		}
		spec = tls.ClientHelloSpec{
			CipherSuites:       []uint16{tls.TLS_AES_128_GCM_SHA256},
			CompressionMethods: []uint8{0},
			Extensions: []tls.TLSExtension{
				&tls.SNIExtension{},
				&tls.SupportedCurvesExtension{Curves: groups},
				&tls.SignatureAlgorithmsExtension{SupportedSignatureAlgorithms: []tls.SignatureScheme{tls.ECDSAWithP256AndSHA256, tls.PSSWithSHA256, tls.Ed25519}},
				&tls.KeyShareExtension{KeyShares: shares},
				&tls.SupportedVersionsExtension{Versions: []uint16{tls.VersionTLS13}},
			},
		}
		if len(alpn) > 0 {
			spec.Extensions = append(spec.Extensions, &tls.ALPNExtension{AlpnProtocols: alpn})
		}
	default:
		return nil, fmt.Errorf("unknown spec %s", name)
	}
	if !suites13 {
		// failure injection: no TLS 1.3 cipher suite is offered
		spec.CipherSuites = []uint16{tls.TLS_ECDHE_ECDSA_WITH_AES_128_GCM_SHA256, tls.TLS_ECDHE_RSA_WITH_AES_128_GCM_SHA256}
	}
	if len(alpn) == 0 {
		var exts []tls.TLSExtension
		for _, e := range spec.Extensions {
			if _, ok := e.(*tls.ALPNExtension); !ok {
				exts = append(exts, e)
			}
		}
		spec.Extensions = exts
	}
	if tp >= 0 {
		q := &tls.QUICTransportParametersExtension{TransportParameters: c23TPs(tp)}
		// keep a trailing padding extension last
		n := len(spec.Extensions)
		if n > 0 {
			if _, ok := spec.Extensions[n-1].(*tls.UtlsPaddingExtension); ok {
				spec.Extensions = append(spec.Extensions[:n-1:n-1], q, spec.Extensions[n-1])
			} else {
				spec.Extensions = append(spec.Extensions, q)
			}
		} else {
			spec.Extensions = append(spec.Extensions, q)
		}
	}
	spec.TLSVersMin, spec.TLSVersMax = tls.VersionTLS13, tls.VersionTLS13
	return &spec, nil
}

// ---------- pump ----------

var c23Kinds = map[tls.QUICEventKind]string{
	tls.QUICNoEvent: "N", tls.QUICSetReadSecret: "SR", tls.QUICSetWriteSecret: "SW", tls.QUICWriteData: "W",
	tls.QUICTransportParameters: "TP", tls.QUICTransportParametersRequired: "TPR", tls.QUICRejectedEarlyData: "RED",
	tls.QUICHandshakeDone: "HD", tls.QUICResumeSession: "RS", tls.QUICStoreSession: "SS",
}

func c23EvStr(e tls.QUICEvent) string {
	k, ok := c23Kinds[e.Kind]
	if !ok {
		k = fmt.Sprintf("K%d", int(e.Kind))
	}
	switch e.Kind {
	case tls.QUICSetReadSecret, tls.QUICSetWriteSecret:
		return fmt.Sprintf("%s%d", k, int(e.Level))
	case tls.QUICWriteData:
		return fmt.Sprintf("%s%d/%d", k, int(e.Level), len(e.Data))
	case tls.QUICTransportParameters:
		return fmt.Sprintf("%s/%d", k, len(e.Data))
	}
	return k
}

// deadlineCall runs f under the per-call deadline. timedOut = the call did not return.
func deadlineCall(f func() error) (err error, timedOut bool, panicked string) {
	type r struct {
		err error
		p   string
	}
	ch := make(chan r, 1)
	go func() {
		defer func() {
			if p := recover(); p != nil {
				ch <- r{nil, sanitize(fmt.Sprint(p))}
			}
		}()
		ch <- r{f(), ""}
	}()
	select {
	case x := <-ch:
		return x.err, false, x.p
	case <-time.After(c23CallDeadline):
		return nil, true, ""
	}
}

type c23Pending struct {
	level tls.QUICEncryptionLevel
	data  []byte
}

type c23Run struct {
	in KV

	cli *tls.UQUICConn
	srv *tls.QUICConn

	hist     []string // client call history: name:result[ev;ev]
	sev      []string // server events
	cerr     error    // first client error
	serr     error    // first server error
	hung     bool
	toServer []c23Pending
	toClient []c23Pending
	hellos   [][]byte // client Initial-level crypto data, one entry per drained WriteData event
	srvInit  [][]byte
	cliTP    [][]byte // payloads of TransportParameters events on the client
	hdCalls  int      // client HandleData calls made so far
	srvTPSet bool
	srvTP    []byte
	pump     string // drain (default) | each | rand
	noDrain  bool   // non-draining pump: API calls are recorded bare, NextEvent calls are their own entries
	cEmpty   bool   // the client's last NextEvent returned QUICNoEvent and nothing was fed to it since
	sEmpty   bool   // same for the server
	cliWrote [4]int // bytes returned by the client's NextEvent as WriteData, per level
	srvGot   [4]int // bytes the server's HandleData accepted, per level
	srvWrote [4]int // bytes returned by the server's NextEvent as WriteData, per level
	cliGot   [4]int // bytes the client's HandleData accepted (returned nil), per level
	needCTP  bool   // the client asked for transport parameters (QUICTransportParametersRequired)
	injected bool // the scheduled injection was actually applied
}

// onClientEvent applies the pump's reaction to one client event and returns its rendering.
func (p *c23Run) onClientEvent(e tls.QUICEvent) string {
	switch e.Kind {
	case tls.QUICWriteData:
		d := append([]byte(nil), e.Data...)
		p.toServer = append(p.toServer, c23Pending{e.Level, d})
		if int(e.Level) < len(p.cliWrote) {
			p.cliWrote[e.Level] += len(d)
		}
		if e.Level == tls.QUICEncryptionLevelInitial {
			p.hellos = append(p.hellos, d)
		}
	case tls.QUICTransportParameters:
		p.cliTP = append(p.cliTP, append([]byte(nil), e.Data...))
	case tls.QUICTransportParametersRequired:
		p.needCTP = true
	}
	return c23EvStr(e)
}

// nextClient is one NextEvent call under the deadline. kind = "timeout" / "panic" / "N" / the event.
func (p *c23Run) nextClient() (rendered string, none bool) {
	var e tls.QUICEvent
	_, to, pn := deadlineCall(func() error { e = p.cli.NextEvent(); return nil })
	if to {
		p.hung = true
		return "timeout", true
	}
	if pn != "" {
		return "panic", true
	}
	if e.Kind == tls.QUICNoEvent {
		return "", true
	}
	return p.onClientEvent(e), false
}

// drainClient reads NextEvent until QUICNoEvent (bounded) and returns the rendered events.
func (p *c23Run) drainClient() []string {
	var evs []string
	for i := 0; i < 64; i++ {
		r, none := p.nextClient()
		if none {
			if r != "" {
				evs = append(evs, r)
			}
			return evs
		}
		evs = append(evs, r)
	}
	evs = append(evs, "overflow")
	return evs
}

// cNext: one NextEvent recorded as its own history entry (non-draining pumps): `ne:ok[ev]`, `ne:ok[]`
// for QUICNoEvent. Returns true when an event was returned.
func (p *c23Run) cNext() bool {
	if p.hung {
		return false
	}
	r, none := p.nextClient()
	switch {
	case r == "timeout":
		p.hist = append(p.hist, "ne:timeout[]")
	case r == "panic":
		p.hist = append(p.hist, "ne:panic[]")
	default:
		p.hist = append(p.hist, "ne:ok["+r+"]")
	}
	p.cEmpty = none
	if p.needCTP && !p.hung && p.in["answertpr"] != "0" {
		p.needCTP = false
		p.ccall("stp", func() error { p.cli.SetTransportParameters(c23TPs(0).Marshal()); return nil })
	}
	return !none
}

// cNextAll: NextEvent until QUICNoEvent, each call its own history entry.
func (p *c23Run) cNextAll() {
	for i := 0; i < 64 && !p.hung; i++ {
		if !p.cNext() {
			return
		}
	}
}

// nextServer is one server NextEvent; returns false on QUICNoEvent.
func (p *c23Run) nextServer() bool {
	e := p.srv.NextEvent()
	p.sEmpty = e.Kind == tls.QUICNoEvent
	if e.Kind == tls.QUICNoEvent {
		return false
	}
	p.sev = append(p.sev, c23EvStr(e))
	switch e.Kind {
	case tls.QUICWriteData:
		d := append([]byte(nil), e.Data...)
		p.toClient = append(p.toClient, c23Pending{e.Level, d})
		if int(e.Level) < len(p.srvWrote) {
			p.srvWrote[e.Level] += len(d)
		}
		if e.Level == tls.QUICEncryptionLevelInitial {
			p.srvInit = append(p.srvInit, d)
		}
	case tls.QUICTransportParametersRequired:
		p.srv.SetTransportParameters(p.srvTP)
		p.srvTPSet = true
		p.sEmpty = false
	}
	return true
}

func (p *c23Run) drainServer() {
	for i := 0; i < 64; i++ {
		if !p.nextServer() {
			return
		}
	}
}

// ccall performs one client API call under the deadline, then drains the client's events.
func (p *c23Run) ccall(name string, f func() error) (ok bool) {
	if p.hung {
		return false
	}
	err, to, pn := deadlineCall(f)
	res := "ok"
	switch {
	case to:
		res = "timeout"
		p.hung = true
	case pn != "":
		res = "panic"
	case err != nil:
		res = "err"
		if p.cerr == nil {
			p.cerr = err
		}
	}
	var evs []string
	p.cEmpty = false
	if !to && !p.noDrain {
		evs = p.drainClient()
	}
	p.hist = append(p.hist, fmt.Sprintf("%s:%s[%s]", name, res, strings.Join(evs, ";")))
	if p.needCTP && res == "ok" && !p.hung && !p.noDrain && p.in["answertpr"] != "0" {
		// the handshake goroutine waits for the client's transport parameters (HelloGolang only)
		p.needCTP = false
		return p.ccall("stp", func() error { p.cli.SetTransportParameters(c23TPs(0).Marshal()); return nil })
	}
	return res == "ok"
}

func c23Curves(s string) []tls.CurveID {
	var out []tls.CurveID
	for _, t := range splitList(s) {
		switch t {
		case "x25519":
			out = append(out, tls.X25519)
		case "p256":
			out = append(out, tls.CurveP256)
		case "p384":
			out = append(out, tls.CurveP384)
		case "p521":
			out = append(out, tls.CurveP521)
		case "mlkem":
			out = append(out, tls.X25519MLKEM768)
		}
	}
	return out
}

// c23Exec runs one case.
//
// inputs: spec= tp= calpn= (client ALPN list) salpn= (server NextProtos) sgroups= (server CurvePreferences)
//
//	sni=1|0 insecure=0|1 minver=13|12|0 s13=1|0 (offer TLS 1.3 suites) chunk=N (0 = whole flights)
//	inject=none|cancel|garbage|close|wronglevel|precancel at=K (before the K-th client HandleData)
//	stp=early|late (server transport parameters) ctp=K (client SetTransportParameters before the K-th HandleData, -1 none)
//	ticket=0|1 (server session ticket after completion) post=none|garbage|hd|stp (extra client calls after the pump)
func c23Exec(in KV) string {
	p := &c23Run{in: in}
	tp := in.Int("tp")
	calpn := splitList(in["calpn"])
	cfg := &tls.Config{RootCAs: kit().pool, Time: nil}
	switch in["minver"] {
	case "12":
		cfg.MinVersion = tls.VersionTLS12
	case "0":
	default:
		cfg.MinVersion = tls.VersionTLS13
	}
	if in["sni"] != "0" {
		cfg.ServerName = "example.golang"
	}
	if in["insecure"] == "1" {
		cfg.InsecureSkipVerify = true
	}
	specName := in["spec"]
	var applyErr error
	if specName == "golang" {
		cfg.NextProtos = calpn
		p.cli = tls.UQUICClient(&tls.QUICConfig{TLSConfig: cfg}, tls.HelloGolang)
	} else if strings.HasPrefix(specName, "raw-") {
		id, _ := idByName(specName[4:])
		p.cli = tls.UQUICClient(&tls.QUICConfig{TLSConfig: cfg}, id)
	} else {
		spec, err := c23BuildSpec(specName, tp, calpn, in["s13"] != "0")
		if err != nil {
			return "out=badspec msg=" + sanitize(err.Error())
		}
		p.cli = tls.UQUICClient(&tls.QUICConfig{TLSConfig: cfg}, tls.HelloCustom)
		if in["apply"] != "0" {
			applyErr = p.cli.ApplyPreset(spec)
		}
	}
	scfg := &tls.Config{
		Certificates:     []tls.Certificate{kit().leaf["ecdsa"], kit().leaf["rsa"]},
		MinVersion:       tls.VersionTLS13,
		NextProtos:       splitList(in["salpn"]),
		CurvePreferences: c23Curves(in["sgroups"]),
	}
	p.srv = tls.QUICServer(&tls.QUICConfig{TLSConfig: scfg})
	p.srvTP = []byte{0x04, 0x04, 0x80, 0x10, 0x00, 0x00, 0x0f, 0x00}
	if in["stp"] != "late" {
		p.srv.SetTransportParameters(p.srvTP)
		p.srvTPSet = true
	}
	inject, at := in["inject"], in.Int("at")
	ctpAt := -1
	if v, ok := in["ctp"]; ok && v != "" {
		ctpAt = in.Int("ctp")
	}
	chunk := in.Int("chunk")

	ctx, cancel := context.WithCancel(context.Background())
	defer cancel()
	if inject == "precancel" {
		cancel()
		p.injected = true
	}
	sctx, scancel := context.WithCancel(context.Background())
	defer scancel()

	p.pump = in["pump"]
	p.noDrain = p.pump == "each" || p.pump == "rand"
	startOK := p.ccall("start", func() error { return p.cli.Start(ctx) })
	if err := p.srv.Start(sctx); err != nil {
		p.serr = err
	}
	if !p.noDrain {
		p.drainServer()
	}

	clientDead := !startOK
	closed := false
	// before the K-th HandleData (K counts from 0) apply the injections scheduled there
	beforeHD := func(level tls.QUICEncryptionLevel, data []byte) (tls.QUICEncryptionLevel, []byte) {
		k := p.hdCalls
		if ctpAt == k {
			p.ccall("stp", func() error { p.cli.SetTransportParameters([]byte{1, 2, 3}); return nil })
		}
		if at == k {
			switch inject {
			case "cancel", "garbage", "wronglevel":
				p.injected = true
			}
			switch inject {
			case "cancel":
				cancel()
				// give the handshake goroutine the chance to observe the cancellation
				time.Sleep(2 * time.Millisecond)
			case "garbage":
				g := []byte{99, 0, 0, 3, 1, 2, 3}
				if in["gkind"] == "long" {
					g = []byte{11, 0xff, 0xff, 0xff}
				} else if in["gkind"] == "trunc" && len(data) > 6 {
					g = append([]byte(nil), data[:len(data)/2]...)
					g[0] ^= 0x55
				}
				return level, g
			case "wronglevel":
				return tls.QUICEncryptionLevelApplication, data
			}
		}
		return level, data
	}
	// deliverServer feeds the oldest pending client flight to the server.
	deliverServer := func() {
		pd := p.toServer[0]
		p.toServer = p.toServer[1:]
		if p.serr != nil {
			return
		}
		p.sEmpty = false
		if err := p.srv.HandleData(pd.level, pd.data); err != nil {
			p.serr = err
		} else if int(pd.level) < len(p.srvGot) {
			p.srvGot[pd.level] += len(pd.data)
		}
	}
	// the QUIC layer would deliver CONNECTION_CLOSE: the client connection is closed
	closeOnServerError := func() {
		if p.serr != nil && !closed && !clientDead {
			closed = true
			p.ccall("close", func() error { return p.cli.Close() })
			clientDead = true
		}
	}
	// deliverClientPiece feeds the next piece (at most `chunk` bytes) of the oldest pending server flight.
	deliverClientPiece := func() {
		pd := &p.toClient[0]
		n := len(pd.data)
		if chunk > 0 && chunk < n {
			n = chunk
		}
		piece := pd.data[:n]
		pd.data = pd.data[n:]
		level := pd.level
		if len(pd.data) == 0 {
			p.toClient = p.toClient[1:]
		}
		if clientDead || p.hung {
			return
		}
		if inject == "close" && at == p.hdCalls {
			closed = true
			p.injected = true
			p.ccall("close", func() error { return p.cli.Close() })
			clientDead = true
			return
		}
		lv, pc := beforeHD(level, piece)
		p.hdCalls++
		if !p.ccall(fmt.Sprintf("hd%d", int(lv)), func() error { return p.cli.HandleData(lv, pc) }) {
			clientDead = true
		} else if int(lv) < len(p.cliGot) {
			p.cliGot[lv] += len(pc)
		}
	}
	switch p.pump {
	case "each":
		// forward every event to the peer as soon as NextEvent returns it, alternating sides
		for step := 0; step < 400 && !p.hung; step++ {
			progressed := false
			if !clientDead && p.cNext() {
				progressed = true
			}
			for len(p.toServer) > 0 {
				deliverServer()
			}
			closeOnServerError()
			if p.nextServer() {
				progressed = true
			}
			for len(p.toClient) > 0 {
				deliverClientPiece()
			}
			if !progressed {
				break
			}
		}
	case "rand":
		// random interleaving of NextEvent / HandleData on both sides (flights stay in order)
		pr := NewRng(in.U64("pseed"))
		for step := 0; step < 3000 && !p.hung; step++ {
			var acts []int
			if !clientDead && !p.cEmpty {
				acts = append(acts, 0)
			}
			if !p.sEmpty {
				acts = append(acts, 1)
			}
			if len(p.toServer) > 0 {
				acts = append(acts, 2, 2)
			}
			if len(p.toClient) > 0 {
				acts = append(acts, 3, 3)
			}
			if len(acts) == 0 {
				break
			}
			switch acts[pr.Intn(len(acts))] {
			case 0:
				p.cNext()
			case 1:
				p.nextServer()
			case 2:
				deliverServer()
				closeOnServerError()
			case 3:
				deliverClientPiece()
			}
		}
	default:
		for round := 0; round < 40 && !p.hung; round++ {
			if len(p.toServer) == 0 && len(p.toClient) == 0 {
				break
			}
			for len(p.toServer) > 0 {
				deliverServer()
				p.drainServer()
			}
			closeOnServerError()
			for len(p.toClient) > 0 {
				deliverClientPiece()
			}
		}
	}
	if p.noDrain && !clientDead {
		p.cNextAll()
	}
	p.drainServer()
	// calls after the pump: in the non-draining modes each is followed by NextEvent until QUICNoEvent
	tcall := func(name string, f func() error) {
		p.ccall(name, f)
		if p.noDrain {
			p.cNextAll()
		}
	}
	cdone := false
	if !p.hung {
		cdone = p.cli.ConnectionState().HandshakeComplete
	}
	sdone := p.srv.ConnectionState().HandshakeComplete
	if in["ticket"] == "1" && cdone && sdone && !clientDead && !p.hung {
		if err := p.srv.SendSessionTicket(tls.QUICSessionTicketOptions{}); err != nil && p.serr == nil {
			p.serr = err
		}
		p.drainServer()
		for _, pd := range p.toClient {
			lv, d := pd.level, pd.data
			before := p.cerr
			tcall(fmt.Sprintf("hd%d", int(lv)), func() error { return p.cli.HandleData(lv, d) })
			if p.cerr == before && !p.hung && int(lv) < len(p.cliGot) {
				p.cliGot[lv] += len(d)
			}
		}
		p.toClient = nil
	}
	switch in["post"] {
	case "garbage":
		lv := tls.QUICEncryptionLevelApplication
		if !cdone {
			lv = tls.QUICEncryptionLevelInitial
		}
		tcall(fmt.Sprintf("hd%d", int(lv)), func() error { return p.cli.HandleData(lv, []byte{24, 0, 0, 1, 0}) })
	case "stp":
		tcall("stp", func() error { p.cli.SetTransportParameters([]byte{9}); return nil })
	}
	if !closed || in["post"] == "close2" {
		tcall("close", func() error { return p.cli.Close() })
	}
	if in["post"] == "hdafterclose" && startOK {
		lv := tls.QUICEncryptionLevelInitial
		tcall(fmt.Sprintf("hd%d", int(lv)), func() error { return p.cli.HandleData(lv, []byte{2, 0, 0, 0}) })
	}
	scancel()
	sclose := make(chan struct{})
	go func() { p.srv.Close(); close(sclose) }()
	select {
	case <-sclose:
	case <-time.After(c23CallDeadline):
	}

	// facts from the ClientHello(s)
	var sids []string
	for _, h := range p.hellos {
		// handshake header 4 + legacy_version 2 + random 32 + session id length
		if len(h) > 38 && h[0] == 1 {
			sids = append(sids, fmt.Sprint(int(h[38])))
		} else {
			sids = append(sids, "x")
		}
	}
	hrr := 0
	for _, s := range p.srvInit {
		// ServerHello with the HelloRetryRequest random
		if len(s) > 38 && s[0] == 2 && s[6] == 0xCF && s[7] == 0x21 && s[8] == 0xAD && s[9] == 0x74 {
			hrr = 1
		}
	}
	tpeq := "-"
	if len(p.cliTP) > 0 {
		tpeq = b2i(string(p.cliTP[0]) == string(p.srvTP))
	}
	st := tls.ConnectionState{}
	if !p.hung {
		st = p.cli.ConnectionState()
	}
	// ClientHello messages in the Initial-level byte stream NextEvent returned
	var stream []byte
	for _, h := range p.hellos {
		stream = append(stream, h...)
	}
	nch := 0
	for len(stream) >= 4 {
		n := int(stream[1])<<16 | int(stream[2])<<8 | int(stream[3])
		if len(stream) < 4+n {
			break
		}
		if stream[0] == 1 {
			nch++
		}
		stream = stream[4+n:]
	}
	lv4 := func(a [4]int) string { return fmt.Sprintf("%d/%d/%d/%d", a[0], a[1], a[2], a[3]) }
	return fmt.Sprintf("apply=%s hist=%s sev=%s cdone=%s sdone=%s inj=%s sids=%s nch=%d rest=%d cwb=%s sgb=%s swb=%s cgb=%s hrr=%d tpn=%d tpeq=%s alpn=%s vers=%04x cerr=%s serr=%s",
		c23ApplyClass(applyErr), joinList(p.hist), joinList(p.sev), b2i(cdone), b2i(sdone), b2i(p.injected), joinList(sids), nch, len(stream),
		lv4(p.cliWrote), lv4(p.srvGot), lv4(p.srvWrote), lv4(p.cliGot), hrr, len(p.cliTP), tpeq,
		sanitizeOrDash(st.NegotiatedProtocol), st.Version, c23ErrClass(p.cerr), c23ErrClass(p.serr))
}

func sanitizeOrDash(s string) string {
	if s == "" {
		return "-"
	}
	return sanitize(s)
}

func c23ApplyClass(err error) string {
	if err == nil {
		return "ok"
	}
	return "err"
}

func c23ErrClass(err error) string {
	if err == nil {
		return "ok"
	}
	s := err.Error()
	s = strings.TrimPrefix(s, "tls: ")
	return sanitize(strings.ReplaceAll(s, ",", ";"))
}

// ---------- generator ----------

type c23Case struct {
	spec, calpn, salpn, sgroups, inject, gkind, stp, post string
	pump                                                 string
	pseed                                                uint64
	tp, chunk, at, ctp, ticket                           int
	sni, insecure, s13, apply                            int
	minver                                               string
	answertpr                                            int
}

func c23Default(spec string) c23Case {
	return c23Case{spec: spec, calpn: "h3", salpn: "h3", sgroups: "-", inject: "none", gkind: "type", stp: "early", post: "none",
		tp: 0, chunk: 0, at: -1, ctp: -1, ticket: 0, sni: 1, insecure: 0, s13: 1, apply: 1, minver: "13", answertpr: 1, pump: "drain"}
}

// c23SpecFacts: the groups and key-share groups the spec offers (inputs of the model's prediction).
func c23SpecFacts(c c23Case) (cg, cs string) {
	switch {
	case c.spec == "golang":
		return "mlkem,x25519,p256,p384,p521", "mlkem,x25519"
	case strings.HasPrefix(c.spec, "raw-"):
		id, _ := idByName(c.spec[4:])
		sp, err := tls.UTLSIdToSpec(id)
		if err != nil {
			return "-", "-"
		}
		inf := c23Info(&sp)
		return c23GroupNames(inf.groups), c23GroupNames(inf.shares)
	}
	sp, err := c23BuildSpec(c.spec, c.tp, splitList(c.calpn), c.s13 != 0)
	if err != nil {
		return "-", "-"
	}
	inf := c23Info(sp)
	return c23GroupNames(inf.groups), c23GroupNames(inf.shares)
}

func (c c23Case) line() string {
	cg, cs := c23SpecFacts(c)
	return fmt.Sprintf("spec=%s tp=%d calpn=%s salpn=%s sgroups=%s sni=%d insecure=%d minver=%s s13=%d apply=%d chunk=%d inject=%s at=%d gkind=%s stp=%s ctp=%d ticket=%d post=%s answertpr=%d pump=%s pseed=%d cg=%s cs=%s",
		c.spec, c.tp, c.calpn, c.salpn, c.sgroups, c.sni, c.insecure, c.minver, c.s13, c.apply, c.chunk, c.inject, c.at, c.gkind, c.stp, c.ctp, c.ticket, c.post, c.answertpr, c.pump, c.pseed, cg, cs)
}

var c23ServerGroups = []string{"x25519", "p256", "p384", "p521", "mlkem"}

// c23HRRGroup: a group the spec lists without a key share and the server supports ("" if none).
func c23HRRGroup(c c23Case, pick int) string {
	cg, cs := c23SpecFacts(c)
	var cand []string
	for _, g := range splitList(cg) {
		isShare := false
		for _, s := range splitList(cs) {
			if s == g {
				isShare = true
			}
		}
		ok := false
		for _, sg := range c23ServerGroups {
			if sg == g {
				ok = true
			}
		}
		if ok && !isShare {
			cand = append(cand, g)
		}
	}
	if len(cand) == 0 {
		return ""
	}
	return cand[pick%len(cand)]
}

// c23FirstShare: the first key-share group the server supports ("" if none): selecting it never needs
// a second ECDHE private key (that is defect D06 of C10/C18, outside this property).
func c23FirstShare(c c23Case) string {
	_, cs := c23SpecFacts(c)
	for _, s := range splitList(cs) {
		for _, sg := range c23ServerGroups {
			if sg == s {
				return s
			}
		}
		return "" // first share is not a server group (e.g. the Kyber draft): leave the server default
	}
	return ""
}

var c23Fixed = []func() c23Case{
	// --- unbuildable ClientHello (D15 and relatives): Start must return an error, Close must return
	func() c23Case { c := c23Default("c-chrome"); c.sni = 0; return c },
	func() c23Case { c := c23Default("golang"); c.sni = 0; return c },
	func() c23Case { c := c23Default("raw-Chrome-100_PSK"); return c },
	func() c23Case { c := c23Default("raw-Chrome-112_PSK_Shuf"); return c },
	func() c23Case { c := c23Default("c-min"); c.apply = 0; return c },
	func() c23Case { c := c23Default("q-Firefox-120"); c.sni = 0; return c },
	func() c23Case { c := c23Default("c-firefox"); c.sni = 0; c.insecure = 1; return c }, // builds: InsecureSkipVerify
	func() c23Case { c := c23Default("golang"); c.minver = "12"; return c },              // Start refuses (MinVersion)
	// --- HelloGolang: waits for transport parameters, then completes
	func() c23Case { c := c23Default("golang"); return c },
	func() c23Case { c := c23Default("golang"); c.inject = "close"; c.at = 0; return c },
	func() c23Case { c := c23Default("golang"); c.answertpr = 0; return c }, // Close while BuildHandshakeState waits
	// --- server refuses: alert reaches the client as a Close
	func() c23Case { c := c23Default("c-chrome"); c.salpn = "nope"; return c },
	func() c23Case { c := c23Default("q-Chrome-133"); c.salpn = "nope"; return c },
	func() c23Case { c := c23Default("c-firefox"); c.s13 = 0; return c },
	func() c23Case { c := c23Default("c-chrome"); c.tp = -1; return c },
	func() c23Case { c := c23Default("c-min"); c.sgroups = "mlkem"; return c },
	func() c23Case { c := c23Default("raw-Chrome-133"); c.salpn = "h2"; return c },
	func() c23Case { c := c23Default("c-chrome"); c.salpn = "-"; return c }, // server selects no ALPN: client aborts
	func() c23Case { c := c23Default("c-min"); c.calpn = "-"; c.salpn = "-"; return c },
	// --- cancelled context
	func() c23Case { c := c23Default("c-chrome"); c.inject = "precancel"; return c },
	func() c23Case { c := c23Default("c-chrome"); c.inject = "cancel"; c.at = 0; return c },
	func() c23Case { c := c23Default("c-firefox"); c.inject = "cancel"; c.at = 1; return c },
	func() c23Case { c := c23Default("q-Chrome-131"); c.inject = "cancel"; c.at = 2; c.chunk = 300; return c },
	// --- garbage / wrong level / close in the middle
	func() c23Case { c := c23Default("c-chrome"); c.inject = "garbage"; c.at = 0; return c },
	func() c23Case { c := c23Default("c-chrome"); c.inject = "garbage"; c.at = 1; c.gkind = "long"; return c },
	func() c23Case { c := c23Default("q-Firefox-105"); c.inject = "garbage"; c.at = 1; c.gkind = "trunc"; return c },
	func() c23Case { c := c23Default("c-min"); c.inject = "garbage"; c.at = 3; c.chunk = 200; return c },
	func() c23Case { c := c23Default("c-chrome"); c.inject = "wronglevel"; c.at = 0; return c },
	func() c23Case { c := c23Default("c-firefox"); c.inject = "wronglevel"; c.at = 1; return c },
	func() c23Case { c := c23Default("c-chrome"); c.inject = "close"; c.at = 0; c.post = "hdafterclose"; return c },
	func() c23Case { c := c23Default("c-chrome"); c.inject = "close"; c.at = 1; c.post = "close2"; return c },
	func() c23Case { c := c23Default("q-iOS-14"); c.inject = "close"; c.at = 2; c.chunk = 150; c.post = "hdafterclose"; return c },
	// --- pump variations on complete handshakes
	func() c23Case { c := c23Default("c-chrome"); c.chunk = 1; return c },
	func() c23Case { c := c23Default("c-firefox"); c.chunk = 7; c.ticket = 1; return c },
	func() c23Case { c := c23Default("q-Chrome-120"); c.chunk = 64; c.stp = "late"; return c },
	func() c23Case { c := c23Default("c-min"); c.ctp = 1; return c },
	func() c23Case { c := c23Default("c-chrome"); c.ctp = 0; c.chunk = 100; return c },
	func() c23Case { c := c23Default("c-chrome"); c.ticket = 1; c.post = "garbage"; return c },
	func() c23Case { c := c23Default("c-mlkem"); c.post = "stp"; return c },
	func() c23Case { c := c23Default("c-p256"); c.post = "garbage"; return c },
	func() c23Case { c := c23Default("c-p384x"); c.sgroups = "x25519"; c.chunk = 33; return c },
	func() c23Case { c := c23Default("c-chrome"); c.calpn = "h3,h3-29"; c.salpn = "h3-29"; return c },
}

func c23Gen(r *Rng, i int, tier string) string {
	specs := c23AllSpecNames()
	n := len(specs)
	switch {
	case i < n: // every spec, default server
		c := c23Default(specs[i])
		c.tp = i % 4
		return c.line()
	case i < 2*n: // every spec, HelloRetryRequest
		c := c23Default(specs[i-n])
		c.tp = (i + 1) % 4
		if g := c23HRRGroup(c, i); g != "" {
			c.sgroups = g
		}
		return c.line()
	case i < 3*n: // every spec, HelloRetryRequest, every event forwarded to the peer at once
		c := c23Default(specs[i-2*n])
		c.tp = (i + 2) % 4
		c.pump = "each"
		if g := c23HRRGroup(c, i); g != "" {
			c.sgroups = g
		}
		return c.line()
	case i < 4*n: // every spec, random interleaving of NextEvent / HandleData on both sides
		c := c23Default(specs[i-3*n])
		c.tp = i % 4
		c.pump, c.pseed = "rand", r.U64()>>1
		c.chunk = Pick(r, []int{0, 0, 50, 400})
		if i%2 == 0 {
			if g := c23HRRGroup(c, i); g != "" {
				c.sgroups = g
			}
		}
		return c.line()
	case i < 4*n+len(c23Fixed):
		c := c23Fixed[i-4*n]()
		switch (i - 4*n) % 3 {
		case 1:
			c.pump = "each"
		case 2:
			c.pump, c.pseed = "rand", r.U64()>>1
		}
		return c.line()
	}
	c := c23Default(Pick(r, specs))
	switch r.Intn(3) {
	case 1:
		c.pump = "each"
	case 2:
		c.pump, c.pseed = "rand", r.U64()>>1
	}
	c.tp = r.Intn(4)
	c.chunk = Pick(r, []int{0, 0, 1, 5, 40, 100, 333, 1000})
	switch r.Intn(4) {
	case 0:
		if g := c23HRRGroup(c, r.Intn(8)); g != "" {
			c.sgroups = g
		}
	case 1:
		if g := c23FirstShare(c); g != "" {
			c.sgroups = g
		}
	}
	if r.Intn(4) == 0 {
		c.stp = "late"
	}
	if r.Intn(5) == 0 {
		c.ticket = 1
	}
	if r.Intn(6) == 0 {
		c.ctp = r.Intn(4)
	}
	switch r.Intn(10) {
	case 0:
		c.inject, c.at = "cancel", r.Intn(5)
	case 1:
		c.inject, c.at, c.gkind = "garbage", r.Intn(5), Pick(r, []string{"type", "long", "trunc"})
	case 2:
		c.inject, c.at = "close", r.Intn(5)
		c.post = Pick(r, []string{"none", "hdafterclose", "close2"})
	case 3:
		c.inject, c.at = "wronglevel", r.Intn(3)
	case 4:
		c.inject = "precancel"
	case 5:
		switch r.Intn(5) {
		case 0:
			c.sni = 0
		case 1:
			c.salpn = "nope"
		case 2:
			c.s13 = 0
		case 3:
			c.tp = -1
		case 4:
			c.apply = 0
		}
	default:
		c.post = Pick(r, []string{"none", "none", "garbage", "stp"})
	}
	return c.line()
}

func init() {
	register(&Family{Name: "quic_hs", Timeout: 90 * time.Second, Gen: c23Gen, Exec: c23Exec})
	register(&Family{Name: "quic_queue", Gen: c23QueueGen, Exec: c23QueueExec})
	// quic_shape: one line; the Lean driver evaluates the discipline predicate on the skeleton that
	// harness/cmd/gen regenerated from the source and names the failing return path.
	register(&Family{Name: "quic_shape",
		Gen: func(r *Rng, i int, tier string) string {
			if i > 0 {
				return ""
			}
			return "what=handshakeContext"
		},
		Exec: func(in KV) string { return "src=" + sanitize(filepathBase(utlsDir())) }})
}

func filepathBase(p string) string {
	if i := strings.LastIndexByte(p, '/'); i >= 0 {
		return p[i+1:]
	}
	return p
}

func utlsDir() string { return "utls" }

func c23GroupName(g tls.CurveID) string {
	switch g {
	case tls.X25519:
		return "x25519"
	case tls.CurveP256:
		return "p256"
	case tls.CurveP384:
		return "p384"
	case tls.CurveP521:
		return "p521"
	case tls.X25519MLKEM768:
		return "mlkem"
	}
	return fmt.Sprintf("g%d", uint16(g))
}

func c23GroupNames(gs []tls.CurveID) string {
	var out []string
	for _, g := range gs {
		out = append(out, c23GroupName(g))
	}
	return joinList(out)
}


// ---------- quic_queue: the event queue alone (verif hook VerifQUICQueue) ----------
//
// ops: W<level>:<hex>  quicWriteCryptoData | SW<level> / SR<level>  secret events | P:<hex> transport
// parameters | D HandshakeDone | N NextEvent.  res: one token per N — the returned event or `-`.

func c23QueueGen(r *Rng, i int, tier string) string {
	fixed := []string{
		"W0:01,N,W0:02,N,N",
		"W0:0102,W0:03,N,N",
		"W0:01,N,N,W0:02,N,N",
		"W0:01,SW2,SR2,W2:07,W2:08,N,N,N,W2:09,N,N,N",
		"W2:aa,N,W2:bb,W2:cc,N,W0:dd,N,N",
		"N,W3:-,N,W3:05,N,N",
	}
	if i < len(fixed) {
		return "ops=" + fixed[i]
	}
	n := 3 + r.Intn(14)
	var ops []string
	lastLevel := r.Intn(4)
	for k := 0; k < n; k++ {
		switch r.Intn(10) {
		case 0, 1, 2, 3:
			l := lastLevel
			if r.Intn(4) == 0 {
				l = r.Intn(4)
			}
			lastLevel = l
			ops = append(ops, fmt.Sprintf("W%d:%s", l, hx(r.Bytes(r.Intn(4)))))
		case 4:
			ops = append(ops, fmt.Sprintf("S%s%d", Pick(r, []string{"W", "R"}), r.Intn(4)))
		case 5:
			if r.Intn(3) == 0 {
				ops = append(ops, "D")
			} else {
				ops = append(ops, "P:"+hx(r.Bytes(r.Intn(3))))
			}
		default:
			ops = append(ops, "N")
		}
	}
	for k := r.Intn(4); k >= 0; k-- {
		ops = append(ops, "N")
	}
	return "ops=" + strings.Join(ops, ",")
}

func c23QueueExec(in KV) string {
	q := tls.VerifNewQUICQueue()
	var res []string
	for _, op := range splitList(in["ops"]) {
		switch {
		case op == "N":
			e := q.Next()
			switch e.Kind {
			case tls.QUICNoEvent:
				res = append(res, "-")
			case tls.QUICWriteData:
				res = append(res, fmt.Sprintf("W%d:%s", int(e.Level), hx(e.Data)))
			case tls.QUICSetWriteSecret:
				res = append(res, fmt.Sprintf("SW%d", int(e.Level)))
			case tls.QUICSetReadSecret:
				res = append(res, fmt.Sprintf("SR%d", int(e.Level)))
			case tls.QUICTransportParameters:
				res = append(res, "P:"+hx(e.Data))
			case tls.QUICHandshakeDone:
				res = append(res, "D")
			default:
				res = append(res, fmt.Sprintf("K%d", int(e.Kind)))
			}
		case op == "D":
			q.Done()
		case strings.HasPrefix(op, "P:"):
			q.Params(unhex(op[2:]))
		case strings.HasPrefix(op, "SW"), strings.HasPrefix(op, "SR"):
			q.Secret(op[1] == 'W', tls.QUICEncryptionLevel(int(op[2]-'0')), []byte{0xaa})
		case strings.HasPrefix(op, "W") && len(op) >= 3:
			q.Write(tls.QUICEncryptionLevel(int(op[1]-'0')), unhex(op[3:]))
		default:
			panic("bad op " + op)
		}
	}
	return "res=" + joinList(res)
}
