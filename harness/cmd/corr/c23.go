package main

// ---- C23: UQUICConn Start / HandleData / NextEvent / Close against the in-package QUIC server ----
//
// One case = one real UQUICClient paired with one real tls.QUICServer, driven by a single-threaded
// event pump. Every API call of the client runs under a deadline; a call that does not return is
// recorded as `timeout` (and the pump stops). The output is the client's call history (each call
// with its result and the events drained after it: kinds, levels, data lengths), the server's event
// list and the facts read from the ClientHello(s) the client emitted.

import (
	"context"
	"fmt"
	"strings"
	"time"

	tls "github.com/refraction-networking/utls"
)

const c23CallDeadline = 6 * time.Second

// ---------- specs ----------

func c23TPs(variant int) tls.TransportParameters {
	switch variant {
	case 1:
		return tls.TransportParameters{}
	case 2:
		return tls.TransportParameters{
			tls.InitialMaxStreamDataBidiRemote(0x100000),
			tls.InitialMaxStreamsUni(100),
			&tls.GREASETransportParameter{Length: 5},
			tls.InitialSourceConnectionID([]byte{}),
			&tls.VersionInformation{ChoosenVersion: tls.VERSION_1, AvailableVersions: []uint32{tls.VERSION_GREASE, tls.VERSION_1}, LegacyID: true},
			tls.MaxDatagramFrameSize(65536),
		}
	case 3:
		return tls.TransportParameters{
			tls.MaxIdleTimeout(30000),
			&tls.FakeQUICTransportParameter{Id: 0x4752, Val: make([]byte, 1200)},
			tls.InitialMaxData(1 << 24),
		}
	}
	return tls.TransportParameters{
		tls.InitialMaxStreamsUni(103),
		tls.MaxIdleTimeout(30000),
		tls.InitialMaxData(15728640),
		tls.InitialMaxStreamDataUni(6291456),
		tls.InitialSourceConnectionID([]byte{}),
		tls.MaxUDPPayloadSize(1472),
		tls.InitialMaxStreamDataBidiLocal(6291456),
		tls.InitialMaxStreamsBidi(100),
		tls.InitialMaxStreamDataBidiRemote(6291456),
	}
}

// c23Specs: names of the QUIC-capable specs the harness can build.
//   q-<parrot>   : UTLSIdToSpec(parrot) narrowed to TLS 1.3 only (supported_versions = GREASE? + 0x0304,
//                  pre_shared_key dropped), ALPN replaced by h3, quic_transport_parameters appended
//   c-<custom>   : hand-built QUIC hellos
var c23CustomNames = []string{"c-chrome", "c-firefox", "c-min", "c-p256", "c-p384x", "c-mlkem"}

func c23ParrotNames() []string {
	var out []string
	for _, id := range parrotIDs {
		spec, err := tls.UTLSIdToSpec(id)
		if err != nil {
			continue
		}
		has13 := false
		for _, e := range spec.Extensions {
			if sv, ok := e.(*tls.SupportedVersionsExtension); ok {
				for _, v := range sv.Versions {
					if v == tls.VersionTLS13 {
						has13 = true
					}
				}
			}
		}
		if has13 {
			out = append(out, "q-"+idName(id))
		}
	}
	return out
}

func c23AllSpecNames() []string { return append(c23ParrotNames(), c23CustomNames...) }

type c23SpecInfo struct {
	spec   *tls.ClientHelloSpec
	groups []tls.CurveID // supported_groups offered (GREASE removed)
	shares []tls.CurveID // groups with a key share
	alpn   []string
	hasTP  bool
	has13  bool // offers a TLS 1.3 cipher suite
}

func c23IsGrease(v uint16) bool { return v&0x0f0f == 0x0a0a && v>>8 == v&0xff }

func c23Info(spec *tls.ClientHelloSpec) *c23SpecInfo {
	inf := &c23SpecInfo{spec: spec}
	for _, cs := range spec.CipherSuites {
		if cs == tls.TLS_AES_128_GCM_SHA256 || cs == tls.TLS_AES_256_GCM_SHA384 || cs == tls.TLS_CHACHA20_POLY1305_SHA256 {
			inf.has13 = true
		}
	}
	for _, e := range spec.Extensions {
		switch x := e.(type) {
		case *tls.SupportedCurvesExtension:
			for _, g := range x.Curves {
				if !c23IsGrease(uint16(g)) {
					inf.groups = append(inf.groups, g)
				}
			}
		case *tls.KeyShareExtension:
			for _, ks := range x.KeyShares {
				if !c23IsGrease(uint16(ks.Group)) {
					inf.shares = append(inf.shares, ks.Group)
				}
			}
		case *tls.ALPNExtension:
			inf.alpn = x.AlpnProtocols
		case *tls.QUICTransportParametersExtension:
			inf.hasTP = true
		}
	}
	return inf
}

// c23BuildSpec returns the spec for a name (nil, id for the "golang" pseudo-spec) with the transport
// parameter variant tp (tp < 0: no quic_transport_parameters extension) and the ALPN list.
func c23BuildSpec(name string, tp int, alpn []string, suites13 bool) (*tls.ClientHelloSpec, error) {
	var spec tls.ClientHelloSpec
	switch {
	case strings.HasPrefix(name, "q-"):
		id, ok := idByName(name[2:])
		if !ok {
			return nil, fmt.Errorf("unknown parrot %s", name)
		}
		s, err := tls.UTLSIdToSpec(id)
		if err != nil {
			return nil, err
		}
		spec = s
		var exts []tls.TLSExtension
		for _, e := range spec.Extensions {
			switch x := e.(type) {
			case *tls.SupportedVersionsExtension:
				var vs []uint16
				for _, v := range x.Versions {
					if v == tls.VersionTLS13 || c23IsGrease(v) {
						vs = append(vs, v)
					}
				}
				exts = append(exts, &tls.SupportedVersionsExtension{Versions: vs})
			case *tls.UtlsPreSharedKeyExtension, *tls.FakePreSharedKeyExtension:
				// dropped: no session is offered
			case *tls.ALPNExtension:
				if len(alpn) > 0 {
					exts = append(exts, &tls.ALPNExtension{AlpnProtocols: alpn})
				}
			default:
				exts = append(exts, e)
			}
		}
		spec.Extensions = exts
	case name == "c-chrome":
		spec = tls.ClientHelloSpec{
			CipherSuites:       []uint16{tls.TLS_AES_128_GCM_SHA256, tls.TLS_AES_256_GCM_SHA384, tls.TLS_CHACHA20_POLY1305_SHA256},
			CompressionMethods: []uint8{0},
			Extensions: []tls.TLSExtension{
				&tls.SNIExtension{},
				&tls.ALPNExtension{AlpnProtocols: alpn},
				&tls.SignatureAlgorithmsExtension{SupportedSignatureAlgorithms: []tls.SignatureScheme{
					tls.ECDSAWithP256AndSHA256, tls.PSSWithSHA256, tls.PKCS1WithSHA256, tls.ECDSAWithP384AndSHA384, tls.PSSWithSHA384, tls.PKCS1WithSHA384, tls.PSSWithSHA512, tls.PKCS1WithSHA512}},
				&tls.SupportedCurvesExtension{Curves: []tls.CurveID{tls.X25519, tls.CurveP256, tls.CurveP384}},
				&tls.PSKKeyExchangeModesExtension{Modes: []uint8{tls.PskModeDHE}},
				&tls.KeyShareExtension{KeyShares: []tls.KeyShare{{Group: tls.X25519}}},
				&tls.SupportedVersionsExtension{Versions: []uint16{tls.VersionTLS13}},
				&tls.UtlsCompressCertExtension{Algorithms: []tls.CertCompressionAlgo{tls.CertCompressionBrotli}},
				&tls.ApplicationSettingsExtension{SupportedProtocols: []string{"h3"}},
			},
		}
	case name == "c-firefox":
		spec = tls.ClientHelloSpec{
			CipherSuites:       []uint16{tls.TLS_AES_128_GCM_SHA256, tls.TLS_CHACHA20_POLY1305_SHA256, tls.TLS_AES_256_GCM_SHA384},
			CompressionMethods: []uint8{0},
			Extensions: []tls.TLSExtension{
				&tls.SNIExtension{},
				&tls.ExtendedMasterSecretExtension{},
				&tls.RenegotiationInfoExtension{Renegotiation: tls.RenegotiateOnceAsClient},
				&tls.SupportedCurvesExtension{Curves: []tls.CurveID{tls.X25519, tls.CurveP256, tls.CurveP384, tls.CurveP521}},
				&tls.ALPNExtension{AlpnProtocols: alpn},
				&tls.StatusRequestExtension{},
				&tls.KeyShareExtension{KeyShares: []tls.KeyShare{{Group: tls.X25519}, {Group: tls.CurveP256}}},
				&tls.SupportedVersionsExtension{Versions: []uint16{tls.VersionTLS13}},
				&tls.SignatureAlgorithmsExtension{SupportedSignatureAlgorithms: []tls.SignatureScheme{
					tls.ECDSAWithP256AndSHA256, tls.ECDSAWithP384AndSHA384, tls.ECDSAWithP521AndSHA512, tls.PSSWithSHA256, tls.PSSWithSHA384, tls.PSSWithSHA512, tls.PKCS1WithSHA256, tls.PKCS1WithSHA384, tls.PKCS1WithSHA512}},
				&tls.PSKKeyExchangeModesExtension{Modes: []uint8{tls.PskModeDHE}},
				&tls.FakeRecordSizeLimitExtension{Limit: 0x4001},
			},
		}
	case name == "c-min", name == "c-p256", name == "c-p384x", name == "c-mlkem":
		groups := []tls.CurveID{tls.X25519, tls.CurveP256, tls.CurveP384, tls.CurveP521}
		shares := []tls.KeyShare{{Group: tls.X25519}}
		switch name {
		case "c-p256":
			groups = []tls.CurveID{tls.CurveP256, tls.X25519, tls.CurveP384}
			shares = []tls.KeyShare{{Group: tls.CurveP256}}
		case "c-p384x":
			groups = []tls.CurveID{tls.CurveP384, tls.CurveP521, tls.X25519, tls.CurveP256}
			shares = []tls.KeyShare{{Group: tls.CurveP384}}
		case "c-mlkem":
			groups = []tls.CurveID{tls.X25519MLKEM768, tls.X25519, tls.CurveP256}
			shares = []tls.KeyShare{{Group: tls.X25519MLKEM768}, {Group: tls.X25519}}
		}
		spec = tls.ClientHelloSpec{
			CipherSuites:       []uint16{tls.TLS_AES_128_GCM_SHA256},
			CompressionMethods: []uint8{0},
			Extensions: []tls.TLSExtension{
				&tls.SNIExtension{},
				&tls.SupportedCurvesExtension{Curves: groups},
				&tls.SignatureAlgorithmsExtension{SupportedSignatureAlgorithms: []tls.SignatureScheme{tls.ECDSAWithP256AndSHA256, tls.PSSWithSHA256, tls.Ed25519}},
				&tls.KeyShareExtension{KeyShares: shares},
				&tls.SupportedVersionsExtension{Versions: []uint16{tls.VersionTLS13}},
			},
		}
		if len(alpn) > 0 {
			spec.Extensions = append(spec.Extensions, &tls.ALPNExtension{AlpnProtocols: alpn})
		}
	default:
		return nil, fmt.Errorf("unknown spec %s", name)
	}
	if !suites13 {
		// failure injection: no TLS 1.3 cipher suite is offered
		spec.CipherSuites = []uint16{tls.TLS_ECDHE_ECDSA_WITH_AES_128_GCM_SHA256, tls.TLS_ECDHE_RSA_WITH_AES_128_GCM_SHA256}
	}
	if len(alpn) == 0 {
		var exts []tls.TLSExtension
		for _, e := range spec.Extensions {
			if _, ok := e.(*tls.ALPNExtension); !ok {
				exts = append(exts, e)
			}
		}
		spec.Extensions = exts
	}
	if tp >= 0 {
		q := &tls.QUICTransportParametersExtension{TransportParameters: c23TPs(tp)}
		// keep a trailing padding extension last
		n := len(spec.Extensions)
		if n > 0 {
			if _, ok := spec.Extensions[n-1].(*tls.UtlsPaddingExtension); ok {
				spec.Extensions = append(spec.Extensions[:n-1:n-1], q, spec.Extensions[n-1])
			} else {
				spec.Extensions = append(spec.Extensions, q)
			}
		} else {
			spec.Extensions = append(spec.Extensions, q)
		}
	}
	spec.TLSVersMin, spec.TLSVersMax = tls.VersionTLS13, tls.VersionTLS13
	return &spec, nil
}

// ---------- pump ----------

var c23Kinds = map[tls.QUICEventKind]string{
	tls.QUICNoEvent: "N", tls.QUICSetReadSecret: "SR", tls.QUICSetWriteSecret: "SW", tls.QUICWriteData: "W",
	tls.QUICTransportParameters: "TP", tls.QUICTransportParametersRequired: "TPR", tls.QUICRejectedEarlyData: "RED",
	tls.QUICHandshakeDone: "HD", tls.QUICResumeSession: "RS", tls.QUICStoreSession: "SS",
}

func c23EvStr(e tls.QUICEvent) string {
	k, ok := c23Kinds[e.Kind]
	if !ok {
		k = fmt.Sprintf("K%d", int(e.Kind))
	}
	switch e.Kind {
	case tls.QUICSetReadSecret, tls.QUICSetWriteSecret:
		return fmt.Sprintf("%s%d", k, int(e.Level))
	case tls.QUICWriteData:
		return fmt.Sprintf("%s%d/%d", k, int(e.Level), len(e.Data))
	case tls.QUICTransportParameters:
		return fmt.Sprintf("%s/%d", k, len(e.Data))
	}
	return k
}

// deadlineCall runs f under the per-call deadline. timedOut = the call did not return.
func deadlineCall(f func() error) (err error, timedOut bool, panicked string) {
	type r struct {
		err error
		p   string
	}
	ch := make(chan r, 1)
	go func() {
		defer func() {
			if p := recover(); p != nil {
				ch <- r{nil, sanitize(fmt.Sprint(p))}
			}
		}()
		ch <- r{f(), ""}
	}()
	select {
	case x := <-ch:
		return x.err, false, x.p
	case <-time.After(c23CallDeadline):
		return nil, true, ""
	}
}

type c23Pending struct {
	level tls.QUICEncryptionLevel
	data  []byte
}

type c23Run struct {
	in KV

	cli *tls.UQUICConn
	srv *tls.QUICConn

	hist     []string // client call history: name:result[ev;ev]
	sev      []string // server events
	cerr     error    // first client error
	serr     error    // first server error
	hung     bool
	toServer []c23Pending
	toClient []c23Pending
	hellos   [][]byte // client Initial-level crypto data, one entry per drained WriteData event
	srvInit  [][]byte
	cliTP    [][]byte // payloads of TransportParameters events on the client
	hdCalls  int      // client HandleData calls made so far
	srvTPSet bool
	srvTP    []byte
	needCTP  bool // the client asked for transport parameters (QUICTransportParametersRequired)
	injected bool // the scheduled injection was actually applied
}

// drainClient reads NextEvent until QUICNoEvent (bounded) and returns the rendered events.
func (p *c23Run) drainClient() []string {
	var evs []string
	for i := 0; i < 64; i++ {
		var e tls.QUICEvent
		_, to, pn := deadlineCall(func() error { e = p.cli.NextEvent(); return nil })
		if to {
			evs = append(evs, "timeout")
			p.hung = true
			return evs
		}
		if pn != "" {
			evs = append(evs, "panic")
			return evs
		}
		if e.Kind == tls.QUICNoEvent {
			return evs
		}
		evs = append(evs, c23EvStr(e))
		switch e.Kind {
		case tls.QUICWriteData:
			d := append([]byte(nil), e.Data...)
			p.toServer = append(p.toServer, c23Pending{e.Level, d})
			if e.Level == tls.QUICEncryptionLevelInitial {
				p.hellos = append(p.hellos, d)
			}
		case tls.QUICTransportParameters:
			p.cliTP = append(p.cliTP, append([]byte(nil), e.Data...))
		case tls.QUICTransportParametersRequired:
			p.needCTP = true
		}
	}
	evs = append(evs, "overflow")
	return evs
}

func (p *c23Run) drainServer() {
	for i := 0; i < 64; i++ {
		e := p.srv.NextEvent()
		if e.Kind == tls.QUICNoEvent {
			return
		}
		p.sev = append(p.sev, c23EvStr(e))
		switch e.Kind {
		case tls.QUICWriteData:
			d := append([]byte(nil), e.Data...)
			p.toClient = append(p.toClient, c23Pending{e.Level, d})
			if e.Level == tls.QUICEncryptionLevelInitial {
				p.srvInit = append(p.srvInit, d)
			}
		case tls.QUICTransportParametersRequired:
			p.srv.SetTransportParameters(p.srvTP)
			p.srvTPSet = true
		}
	}
}

// ccall performs one client API call under the deadline, then drains the client's events.
func (p *c23Run) ccall(name string, f func() error) (ok bool) {
	if p.hung {
		return false
	}
	err, to, pn := deadlineCall(f)
	res := "ok"
	switch {
	case to:
		res = "timeout"
		p.hung = true
	case pn != "":
		res = "panic"
	case err != nil:
		res = "err"
		if p.cerr == nil {
			p.cerr = err
		}
	}
	var evs []string
	if !to {
		evs = p.drainClient()
	}
	p.hist = append(p.hist, fmt.Sprintf("%s:%s[%s]", name, res, strings.Join(evs, ";")))
	if p.needCTP && res == "ok" && !p.hung && p.in["answertpr"] != "0" {
		// the handshake goroutine waits for the client's transport parameters (HelloGolang only)
		p.needCTP = false
		return p.ccall("stp", func() error { p.cli.SetTransportParameters(c23TPs(0).Marshal()); return nil })
	}
	return res == "ok"
}

func c23Curves(s string) []tls.CurveID {
	var out []tls.CurveID
	for _, t := range splitList(s) {
		switch t {
		case "x25519":
			out = append(out, tls.X25519)
		case "p256":
			out = append(out, tls.CurveP256)
		case "p384":
			out = append(out, tls.CurveP384)
		case "p521":
			out = append(out, tls.CurveP521)
		case "mlkem":
			out = append(out, tls.X25519MLKEM768)
		}
	}
	return out
}

// c23Exec runs one case.
//
// inputs: spec= tp= calpn= (client ALPN list) salpn= (server NextProtos) sgroups= (server CurvePreferences)
//
//	sni=1|0 insecure=0|1 minver=13|12|0 s13=1|0 (offer TLS 1.3 suites) chunk=N (0 = whole flights)
//	inject=none|cancel|garbage|close|wronglevel|precancel at=K (before the K-th client HandleData)
//	stp=early|late (server transport parameters) ctp=K (client SetTransportParameters before the K-th HandleData, -1 none)
//	ticket=0|1 (server session ticket after completion) post=none|garbage|hd|stp (extra client calls after the pump)
func c23Exec(in KV) string {
	p := &c23Run{in: in}
	tp := in.Int("tp")
	calpn := splitList(in["calpn"])
	cfg := &tls.Config{RootCAs: kit().pool, Time: nil}
	switch in["minver"] {
	case "12":
		cfg.MinVersion = tls.VersionTLS12
	case "0":
	default:
		cfg.MinVersion = tls.VersionTLS13
	}
	if in["sni"] != "0" {
		cfg.ServerName = "example.golang"
	}
	if in["insecure"] == "1" {
		cfg.InsecureSkipVerify = true
	}
	specName := in["spec"]
	var applyErr error
	if specName == "golang" {
		cfg.NextProtos = calpn
		p.cli = tls.UQUICClient(&tls.QUICConfig{TLSConfig: cfg}, tls.HelloGolang)
	} else if strings.HasPrefix(specName, "raw-") {
		id, _ := idByName(specName[4:])
		p.cli = tls.UQUICClient(&tls.QUICConfig{TLSConfig: cfg}, id)
	} else {
		spec, err := c23BuildSpec(specName, tp, calpn, in["s13"] != "0")
		if err != nil {
			return "out=badspec msg=" + sanitize(err.Error())
		}
		p.cli = tls.UQUICClient(&tls.QUICConfig{TLSConfig: cfg}, tls.HelloCustom)
		if in["apply"] != "0" {
			applyErr = p.cli.ApplyPreset(spec)
		}
	}
	scfg := &tls.Config{
		Certificates:     []tls.Certificate{kit().leaf["ecdsa"], kit().leaf["rsa"]},
		MinVersion:       tls.VersionTLS13,
		NextProtos:       splitList(in["salpn"]),
		CurvePreferences: c23Curves(in["sgroups"]),
	}
	p.srv = tls.QUICServer(&tls.QUICConfig{TLSConfig: scfg})
	p.srvTP = []byte{0x04, 0x04, 0x80, 0x10, 0x00, 0x00, 0x0f, 0x00}
	if in["stp"] != "late" {
		p.srv.SetTransportParameters(p.srvTP)
		p.srvTPSet = true
	}
	inject, at := in["inject"], in.Int("at")
	ctpAt := -1
	if v, ok := in["ctp"]; ok && v != "" {
		ctpAt = in.Int("ctp")
	}
	chunk := in.Int("chunk")

	ctx, cancel := context.WithCancel(context.Background())
	defer cancel()
	if inject == "precancel" {
		cancel()
		p.injected = true
	}
	sctx, scancel := context.WithCancel(context.Background())
	defer scancel()

	startOK := p.ccall("start", func() error { return p.cli.Start(ctx) })
	if err := p.srv.Start(sctx); err != nil {
		p.serr = err
	}
	p.drainServer()

	clientDead := !startOK
	closed := false
	// before the K-th HandleData (K counts from 0) apply the injections scheduled there
	beforeHD := func(level tls.QUICEncryptionLevel, data []byte) (tls.QUICEncryptionLevel, []byte) {
		k := p.hdCalls
		if ctpAt == k {
			p.ccall("stp", func() error { p.cli.SetTransportParameters([]byte{1, 2, 3}); return nil })
		}
		if at == k {
			switch inject {
			case "cancel", "garbage", "wronglevel":
				p.injected = true
			}
			switch inject {
			case "cancel":
				cancel()
				// give the handshake goroutine the chance to observe the cancellation
				time.Sleep(2 * time.Millisecond)
			case "garbage":
				g := []byte{99, 0, 0, 3, 1, 2, 3}
				if in["gkind"] == "long" {
					g = []byte{11, 0xff, 0xff, 0xff}
				} else if in["gkind"] == "trunc" && len(data) > 6 {
					g = append([]byte(nil), data[:len(data)/2]...)
					g[0] ^= 0x55
				}
				return level, g
			case "wronglevel":
				return tls.QUICEncryptionLevelApplication, data
			}
		}
		return level, data
	}
	for round := 0; round < 40 && !p.hung; round++ {
		if len(p.toServer) == 0 && len(p.toClient) == 0 {
			break
		}
		ts := p.toServer
		p.toServer = nil
		for _, pd := range ts {
			if p.serr != nil {
				break
			}
			if err := p.srv.HandleData(pd.level, pd.data); err != nil {
				p.serr = err
			}
			p.drainServer()
		}
		if p.serr != nil && !closed && !clientDead {
			// the QUIC layer would deliver CONNECTION_CLOSE: the client connection is closed
			closed = true
			p.ccall("close", func() error { return p.cli.Close() })
			clientDead = true
		}
		tc := p.toClient
		p.toClient = nil
		for _, pd := range tc {
			if clientDead || p.hung {
				break
			}
			data := pd.data
			for len(data) > 0 && !clientDead && !p.hung {
				n := len(data)
				if chunk > 0 && chunk < n {
					n = chunk
				}
				piece := data[:n]
				data = data[n:]
				if inject == "close" && at == p.hdCalls {
					closed = true
					p.injected = true
					p.ccall("close", func() error { return p.cli.Close() })
					clientDead = true
					break
				}
				lv, pc := beforeHD(pd.level, piece)
				p.hdCalls++
				if !p.ccall(fmt.Sprintf("hd%d", int(lv)), func() error { return p.cli.HandleData(lv, pc) }) {
					clientDead = true
				}
			}
		}
	}
	cdone := false
	if !p.hung {
		cdone = p.cli.ConnectionState().HandshakeComplete
	}
	sdone := p.srv.ConnectionState().HandshakeComplete
	if in["ticket"] == "1" && cdone && sdone && !clientDead && !p.hung {
		if err := p.srv.SendSessionTicket(tls.QUICSessionTicketOptions{}); err != nil && p.serr == nil {
			p.serr = err
		}
		p.drainServer()
		for _, pd := range p.toClient {
			lv, d := pd.level, pd.data
			p.ccall(fmt.Sprintf("hd%d", int(lv)), func() error { return p.cli.HandleData(lv, d) })
		}
		p.toClient = nil
	}
	switch in["post"] {
	case "garbage":
		lv := tls.QUICEncryptionLevelApplication
		if !cdone {
			lv = tls.QUICEncryptionLevelInitial
		}
		p.ccall(fmt.Sprintf("hd%d", int(lv)), func() error { return p.cli.HandleData(lv, []byte{24, 0, 0, 1, 0}) })
	case "stp":
		p.ccall("stp", func() error { p.cli.SetTransportParameters([]byte{9}); return nil })
	}
	if !closed || in["post"] == "close2" {
		p.ccall("close", func() error { return p.cli.Close() })
	}
	if in["post"] == "hdafterclose" && startOK {
		lv := tls.QUICEncryptionLevelInitial
		p.ccall(fmt.Sprintf("hd%d", int(lv)), func() error { return p.cli.HandleData(lv, []byte{2, 0, 0, 0}) })
	}
	scancel()
	sclose := make(chan struct{})
	go func() { p.srv.Close(); close(sclose) }()
	select {
	case <-sclose:
	case <-time.After(c23CallDeadline):
	}

	// facts from the ClientHello(s)
	var sids []string
	for _, h := range p.hellos {
		// handshake header 4 + legacy_version 2 + random 32 + session id length
		if len(h) > 38 && h[0] == 1 {
			sids = append(sids, fmt.Sprint(int(h[38])))
		} else {
			sids = append(sids, "x")
		}
	}
	hrr := 0
	for _, s := range p.srvInit {
		// ServerHello with the HelloRetryRequest random
		if len(s) > 38 && s[0] == 2 && s[6] == 0xCF && s[7] == 0x21 && s[8] == 0xAD && s[9] == 0x74 {
			hrr = 1
		}
	}
	tpeq := "-"
	if len(p.cliTP) > 0 {
		tpeq = b2i(string(p.cliTP[0]) == string(p.srvTP))
	}
	st := tls.ConnectionState{}
	if !p.hung {
		st = p.cli.ConnectionState()
	}
	return fmt.Sprintf("apply=%s hist=%s sev=%s cdone=%s sdone=%s inj=%s sids=%s hrr=%d tpn=%d tpeq=%s alpn=%s vers=%04x cerr=%s serr=%s",
		c23ApplyClass(applyErr), joinList(p.hist), joinList(p.sev), b2i(cdone), b2i(sdone), b2i(p.injected), joinList(sids), hrr, len(p.cliTP), tpeq,
		sanitizeOrDash(st.NegotiatedProtocol), st.Version, c23ErrClass(p.cerr), c23ErrClass(p.serr))
}

func sanitizeOrDash(s string) string {
	if s == "" {
		return "-"
	}
	return sanitize(s)
}

func c23ApplyClass(err error) string {
	if err == nil {
		return "ok"
	}
	return "err"
}

func c23ErrClass(err error) string {
	if err == nil {
		return "ok"
	}
	s := err.Error()
	s = strings.TrimPrefix(s, "tls: ")
	return sanitize(strings.ReplaceAll(s, ",", ";"))
}

// ---------- generator ----------

type c23Case struct {
	spec, calpn, salpn, sgroups, inject, gkind, stp, post string
	tp, chunk, at, ctp, ticket                           int
	sni, insecure, s13, apply                            int
	minver                                               string
	answertpr                                            int
}

func c23Default(spec string) c23Case {
	return c23Case{spec: spec, calpn: "h3", salpn: "h3", sgroups: "-", inject: "none", gkind: "type", stp: "early", post: "none",
		tp: 0, chunk: 0, at: -1, ctp: -1, ticket: 0, sni: 1, insecure: 0, s13: 1, apply: 1, minver: "13", answertpr: 1}
}

// c23SpecFacts: the groups and key-share groups the spec offers (inputs of the model's prediction).
func c23SpecFacts(c c23Case) (cg, cs string) {
	switch {
	case c.spec == "golang":
		return "mlkem,x25519,p256,p384,p521", "mlkem,x25519"
	case strings.HasPrefix(c.spec, "raw-"):
		id, _ := idByName(c.spec[4:])
		sp, err := tls.UTLSIdToSpec(id)
		if err != nil {
			return "-", "-"
		}
		inf := c23Info(&sp)
		return c23GroupNames(inf.groups), c23GroupNames(inf.shares)
	}
	sp, err := c23BuildSpec(c.spec, c.tp, splitList(c.calpn), c.s13 != 0)
	if err != nil {
		return "-", "-"
	}
	inf := c23Info(sp)
	return c23GroupNames(inf.groups), c23GroupNames(inf.shares)
}

func (c c23Case) line() string {
	cg, cs := c23SpecFacts(c)
	return fmt.Sprintf("spec=%s tp=%d calpn=%s salpn=%s sgroups=%s sni=%d insecure=%d minver=%s s13=%d apply=%d chunk=%d inject=%s at=%d gkind=%s stp=%s ctp=%d ticket=%d post=%s answertpr=%d cg=%s cs=%s",
		c.spec, c.tp, c.calpn, c.salpn, c.sgroups, c.sni, c.insecure, c.minver, c.s13, c.apply, c.chunk, c.inject, c.at, c.gkind, c.stp, c.ctp, c.ticket, c.post, c.answertpr, cg, cs)
}

var c23ServerGroups = []string{"x25519", "p256", "p384", "p521", "mlkem"}

// c23HRRGroup: a group the spec lists without a key share and the server supports ("" if none).
func c23HRRGroup(c c23Case, pick int) string {
	cg, cs := c23SpecFacts(c)
	var cand []string
	for _, g := range splitList(cg) {
		isShare := false
		for _, s := range splitList(cs) {
			if s == g {
				isShare = true
			}
		}
		ok := false
		for _, sg := range c23ServerGroups {
			if sg == g {
				ok = true
			}
		}
		if ok && !isShare {
			cand = append(cand, g)
		}
	}
	if len(cand) == 0 {
		return ""
	}
	return cand[pick%len(cand)]
}

// c23FirstShare: the first key-share group the server supports ("" if none): selecting it never needs
// a second ECDHE private key (that is defect D06 of C10/C18, outside this property).
func c23FirstShare(c c23Case) string {
	_, cs := c23SpecFacts(c)
	for _, s := range splitList(cs) {
		for _, sg := range c23ServerGroups {
			if sg == s {
				return s
			}
		}
		return "" // first share is not a server group (e.g. the Kyber draft): leave the server default
	}
	return ""
}

var c23Fixed = []func() c23Case{
	// --- unbuildable ClientHello (D15 and relatives): Start must return an error, Close must return
	func() c23Case { c := c23Default("c-chrome"); c.sni = 0; return c },
	func() c23Case { c := c23Default("golang"); c.sni = 0; return c },
	func() c23Case { c := c23Default("raw-Chrome-100_PSK"); return c },
	func() c23Case { c := c23Default("raw-Chrome-112_PSK_Shuf"); return c },
	func() c23Case { c := c23Default("c-min"); c.apply = 0; return c },
	func() c23Case { c := c23Default("q-Firefox-120"); c.sni = 0; return c },
	func() c23Case { c := c23Default("c-firefox"); c.sni = 0; c.insecure = 1; return c }, // builds: InsecureSkipVerify
	func() c23Case { c := c23Default("golang"); c.minver = "12"; return c },              // Start refuses (MinVersion)
	// --- HelloGolang: waits for transport parameters, then completes
	func() c23Case { c := c23Default("golang"); return c },
	func() c23Case { c := c23Default("golang"); c.inject = "close"; c.at = 0; return c },
	func() c23Case { c := c23Default("golang"); c.answertpr = 0; return c }, // Close while BuildHandshakeState waits
	// --- server refuses: alert reaches the client as a Close
	func() c23Case { c := c23Default("c-chrome"); c.salpn = "nope"; return c },
	func() c23Case { c := c23Default("q-Chrome-133"); c.salpn = "nope"; return c },
	func() c23Case { c := c23Default("c-firefox"); c.s13 = 0; return c },
	func() c23Case { c := c23Default("c-chrome"); c.tp = -1; return c },
	func() c23Case { c := c23Default("c-min"); c.sgroups = "mlkem"; return c },
	func() c23Case { c := c23Default("raw-Chrome-133"); c.salpn = "h2"; return c },
	func() c23Case { c := c23Default("c-chrome"); c.salpn = "-"; return c }, // server selects no ALPN: client aborts
	func() c23Case { c := c23Default("c-min"); c.calpn = "-"; c.salpn = "-"; return c },
	// --- cancelled context
	func() c23Case { c := c23Default("c-chrome"); c.inject = "precancel"; return c },
	func() c23Case { c := c23Default("c-chrome"); c.inject = "cancel"; c.at = 0; return c },
	func() c23Case { c := c23Default("c-firefox"); c.inject = "cancel"; c.at = 1; return c },
	func() c23Case { c := c23Default("q-Chrome-131"); c.inject = "cancel"; c.at = 2; c.chunk = 300; return c },
	// --- garbage / wrong level / close in the middle
	func() c23Case { c := c23Default("c-chrome"); c.inject = "garbage"; c.at = 0; return c },
	func() c23Case { c := c23Default("c-chrome"); c.inject = "garbage"; c.at = 1; c.gkind = "long"; return c },
	func() c23Case { c := c23Default("q-Firefox-105"); c.inject = "garbage"; c.at = 1; c.gkind = "trunc"; return c },
	func() c23Case { c := c23Default("c-min"); c.inject = "garbage"; c.at = 3; c.chunk = 200; return c },
	func() c23Case { c := c23Default("c-chrome"); c.inject = "wronglevel"; c.at = 0; return c },
	func() c23Case { c := c23Default("c-firefox"); c.inject = "wronglevel"; c.at = 1; return c },
	func() c23Case { c := c23Default("c-chrome"); c.inject = "close"; c.at = 0; c.post = "hdafterclose"; return c },
	func() c23Case { c := c23Default("c-chrome"); c.inject = "close"; c.at = 1; c.post = "close2"; return c },
	func() c23Case { c := c23Default("q-iOS-14"); c.inject = "close"; c.at = 2; c.chunk = 150; c.post = "hdafterclose"; return c },
	// --- pump variations on complete handshakes
	func() c23Case { c := c23Default("c-chrome"); c.chunk = 1; return c },
	func() c23Case { c := c23Default("c-firefox"); c.chunk = 7; c.ticket = 1; return c },
	func() c23Case { c := c23Default("q-Chrome-120"); c.chunk = 64; c.stp = "late"; return c },
	func() c23Case { c := c23Default("c-min"); c.ctp = 1; return c },
	func() c23Case { c := c23Default("c-chrome"); c.ctp = 0; c.chunk = 100; return c },
	func() c23Case { c := c23Default("c-chrome"); c.ticket = 1; c.post = "garbage"; return c },
	func() c23Case { c := c23Default("c-mlkem"); c.post = "stp"; return c },
	func() c23Case { c := c23Default("c-p256"); c.post = "garbage"; return c },
	func() c23Case { c := c23Default("c-p384x"); c.sgroups = "x25519"; c.chunk = 33; return c },
	func() c23Case { c := c23Default("c-chrome"); c.calpn = "h3,h3-29"; c.salpn = "h3-29"; return c },
}

func c23Gen(r *Rng, i int, tier string) string {
	specs := c23AllSpecNames()
	n := len(specs)
	switch {
	case i < n: // every spec, default server
		c := c23Default(specs[i])
		c.tp = i % 4
		return c.line()
	case i < 2*n: // every spec, HelloRetryRequest
		c := c23Default(specs[i-n])
		c.tp = (i + 1) % 4
		if g := c23HRRGroup(c, i); g != "" {
			c.sgroups = g
		}
		return c.line()
	case i < 2*n+len(c23Fixed):
		return c23Fixed[i-2*n]().line()
	}
	c := c23Default(Pick(r, specs))
	c.tp = r.Intn(4)
	c.chunk = Pick(r, []int{0, 0, 1, 5, 40, 100, 333, 1000})
	switch r.Intn(4) {
	case 0:
		if g := c23HRRGroup(c, r.Intn(8)); g != "" {
			c.sgroups = g
		}
	case 1:
		if g := c23FirstShare(c); g != "" {
			c.sgroups = g
		}
	}
	if r.Intn(4) == 0 {
		c.stp = "late"
	}
	if r.Intn(5) == 0 {
		c.ticket = 1
	}
	if r.Intn(6) == 0 {
		c.ctp = r.Intn(4)
	}
	switch r.Intn(10) {
	case 0:
		c.inject, c.at = "cancel", r.Intn(5)
	case 1:
		c.inject, c.at, c.gkind = "garbage", r.Intn(5), Pick(r, []string{"type", "long", "trunc"})
	case 2:
		c.inject, c.at = "close", r.Intn(5)
		c.post = Pick(r, []string{"none", "hdafterclose", "close2"})
	case 3:
		c.inject, c.at = "wronglevel", r.Intn(3)
	case 4:
		c.inject = "precancel"
	case 5:
		switch r.Intn(5) {
		case 0:
			c.sni = 0
		case 1:
			c.salpn = "nope"
		case 2:
			c.s13 = 0
		case 3:
			c.tp = -1
		case 4:
			c.apply = 0
		}
	default:
		c.post = Pick(r, []string{"none", "none", "garbage", "stp"})
	}
	return c.line()
}

func init() {
	register(&Family{Name: "quic_hs", Timeout: 90 * time.Second, Gen: c23Gen, Exec: c23Exec})
	// quic_shape: one line; the Lean driver evaluates the discipline predicate on the skeleton that
	// harness/cmd/gen regenerated from the source and names the failing return path.
	register(&Family{Name: "quic_shape",
		Gen: func(r *Rng, i int, tier string) string {
			if i > 0 {
				return ""
			}
			return "what=handshakeContext"
		},
		Exec: func(in KV) string { return "src=" + sanitize(filepathBase(utlsDir())) }})
}

func filepathBase(p string) string {
	if i := strings.LastIndexByte(p, '/'); i >= 0 {
		return p[i+1:]
	}
	return p
}

func utlsDir() string { return "utls" }

func c23GroupName(g tls.CurveID) string {
	switch g {
	case tls.X25519:
		return "x25519"
	case tls.CurveP256:
		return "p256"
	case tls.CurveP384:
		return "p384"
	case tls.CurveP521:
		return "p521"
	case tls.X25519MLKEM768:
		return "mlkem"
	}
	return fmt.Sprintf("g%d", uint16(g))
}

func c23GroupNames(gs []tls.CurveID) string {
	var out []string
	for _, g := range gs {
		out = append(out, c23GroupName(g))
	}
	return joinList(out)
}
