package main

import (
	"bytes"
	"fmt"
	"strconv"
	"strings"

	tls "github.com/refraction-networking/utls"
)

// ---- C24: quicvarint and TransportParameters.Marshal ----

var varintBoundaries = []uint64{
	0, 1, 62, 63, 64, 65, 255, 256, 16382, 16383, 16384, 16385, 65535, 65536,
	1073741822, 1073741823, 1073741824, 1073741825, 4294967295, 4294967296,
	4611686018427387902, 4611686018427387903, 4611686018427387904, 4611686018427387905,
	9223372036854775807, 9223372036854775808, 18446744073709551614, 18446744073709551615,
}

func genVarintValue(r *Rng, i int) uint64 {
	switch {
	case i < len(varintBoundaries):
		return varintBoundaries[i]
	case i < len(varintBoundaries)+64*3:
		j := i - len(varintBoundaries)
		p := uint64(1) << uint(j/3)
		return p + uint64(j%3) - 1 // 2^k-1, 2^k, 2^k+1
	default:
		bits := uint(r.Intn(65))
		if bits == 0 {
			return 0
		}
		v := r.U64()
		if bits < 64 {
			v &= (uint64(1) << bits) - 1
		}
		return v
	}
}

// c24GenDst picks the destination slice of an Append/AppendWithLen case: its visible bytes
// (pre) and how its backing array looks beyond len:
//
//	nil          the nil slice (pre empty)
//	exact        len == cap
//	zero:<k>     k bytes of zeroed spare capacity
//	ff:<k>       k bytes of spare capacity, all 0xff
//	rnd:<hex>    spare capacity holding exactly these bytes
//	scr:<v>:<w>  a scratch buffer of capacity len(pre)+24 that held pre ++ AppendWithLen(v, w)
//	             ++ 0xa5.. and was reset with b = b[:len(pre)]
func c24GenDst(r *Rng, i int) ([]byte, string) {
	pre := r.Bytes(Pick(r, []int{0, 0, 1, 2, 5, 9}))
	switch r.Intn(8) {
	case 0:
		return nil, "nil"
	case 1:
		return pre, "exact"
	case 2:
		return pre, fmt.Sprintf("zero:%d", Pick(r, []int{1, 3, 4, 8, 16}))
	case 3, 4:
		return pre, fmt.Sprintf("ff:%d", Pick(r, []int{1, 2, 3, 4, 5, 7, 8, 9, 16, 32}))
	case 5:
		sp := r.Bytes(Pick(r, []int{1, 2, 4, 6, 8, 12, 20}))
		for k := range sp {
			if sp[k] == 0 {
				sp[k] = 0x5a
			}
		}
		return pre, "rnd:" + hx(sp)
	default:
		v := genVarintValue(r, 1000) >> 2
		return pre, fmt.Sprintf("scr:%d:%d", v|1<<40|0x7f7f7f, 8)
	}
}

func c24MakeDst(pre []byte, dst string) []byte {
	f := strings.Split(dst, ":")
	n := func(s string) int { v, _ := strconv.Atoi(s); return v }
	switch f[0] {
	case "", "nil":
		if len(pre) == 0 {
			return nil
		}
		b := make([]byte, len(pre))
		copy(b, pre)
		return b
	case "exact":
		b := make([]byte, len(pre))
		copy(b, pre)
		return b[:len(pre):len(pre)]
	case "zero":
		b := make([]byte, len(pre), len(pre)+n(f[1]))
		copy(b, pre)
		return b
	case "ff":
		arr := make([]byte, len(pre)+n(f[1]))
		for k := range arr {
			arr[k] = 0xff
		}
		copy(arr, pre)
		return arr[:len(pre):len(arr)]
	case "rnd":
		sp := unhex(f[1])
		arr := make([]byte, len(pre)+len(sp))
		copy(arr, pre)
		copy(arr[len(pre):], sp)
		return arr[:len(pre):len(arr)]
	case "scr":
		v, _ := strconv.ParseUint(f[1], 10, 64)
		arr := make([]byte, len(pre)+24)
		for k := range arr {
			arr[k] = 0xa5
		}
		b := append(arr[:0], pre...)
		b = tls.VerifVarintAppendWithLen(b, v, int64(n(f[2]))) // the earlier, longer encoding
		return b[:len(pre)]                                    // reset for reuse
	}
	panic("bad dst " + dst)
}

func catchPanic(f func() string) (s string) {
	defer func() {
		if p := recover(); p != nil {
			s = "panic"
		}
	}()
	return f()
}

func init() {
	register(&Family{
		Name: "varint",
		Gen: func(r *Rng, i int, tier string) string {
			x := genVarintValue(r, i)
			w := Pick(r, []int{1, 2, 4, 8, 1, 2, 4, 8, 0, 3, 5, 16})
			tail := r.Bytes(r.Intn(3))
			pre, dst := c24GenDst(r, i)
			return fmt.Sprintf("x=%d w=%d tail=%s pre=%s dst=%s", x, w, hx(tail), hx(pre), dst)
		},
		Exec: func(in KV) string {
			x := in.U64("x")
			w := in.Int("w")
			tail := in.Bytes("tail")
			pre := in.Bytes("pre")
			dst := in["dst"]
			// every call gets its own destination slice, built as the case describes (visible
			// bytes = pre; what lies between len and cap is the point of the dst dimension)
			app := catchPanic(func() string { return hx(tls.VerifVarintAppend(c24MakeDst(pre, dst), x)) })
			ln := catchPanic(func() string { return fmt.Sprint(tls.VerifVarintLen(x)) })
			wl := catchPanic(func() string { return hx(tls.VerifVarintAppendWithLen(c24MakeDst(pre, dst), x, int64(w))) })
			rd := func(res string) string {
				if res == "panic" {
					return "na"
				}
				full := unhex(res)
				if len(full) < len(pre) {
					return "short"
				}
				// decode what was appended after the destination's visible bytes
				rdr := bytes.NewReader(append(append([]byte(nil), full[len(pre):]...), tail...))
				v, err := tls.VerifVarintRead(rdr)
				if err != nil {
					return "eof"
				}
				return fmt.Sprintf("%d:%d", v, rdr.Len())
			}
			return fmt.Sprintf("append=%s len=%s withlen=%s read=%s readwl=%s", app, ln, wl, rd(app), rd(wl))
		},
	})
	register(&Family{
		Name: "varint_read",
		Gen: func(r *Rng, i int, tier string) string {
			n := r.Intn(10)
			b := r.Bytes(n)
			if n > 0 && r.Bool() {
				b[0] = byte(r.Intn(4))<<6 | byte(r.Intn(64))
			}
			return "bytes=" + hx(b)
		},
		Exec: func(in KV) string {
			rdr := bytes.NewReader(in.Bytes("bytes"))
			v, err := tls.VerifVarintRead(rdr)
			if err != nil {
				return "read=eof"
			}
			return fmt.Sprintf("read=%d:%d", v, rdr.Len())
		},
	})
	register(&Family{Name: "tps", Gen: genTPs, Exec: execTPs})
	register(&Family{Name: "tps_seq", Gen: c24GenTPSeq, Exec: c24ExecTPSeq})
}

var typedVarintIDs = []uint64{1, 3, 4, 5, 6, 7, 8, 9, 11, 14, 32}

func genTPs(r *Rng, i int, tier string) string {
	n := r.Intn(8)
	if i%17 == 0 {
		n = 0
	}
	var ps []string
	for j := 0; j < n; j++ {
		switch r.Intn(9) {
		case 0, 1:
			ps = append(ps, fmt.Sprintf("v%d:%d", Pick(r, typedVarintIDs), genVarintValue(r, 1000+r.Intn(1000))>>uint(r.Intn(3))))
		case 2:
			ps = append(ps, Pick(r, []string{"e12", "e10930"}))
		case 3:
			ps = append(ps, fmt.Sprintf("b%d:%s", Pick(r, []int{15, 21}), hx(r.Bytes(Pick(r, []int{0, 1, 8, 20, 63, 64, 65, 300})))))
		case 4:
			var av []string
			for k := r.Intn(4); k > 0; k-- {
				av = append(av, fmt.Sprint(Pick(r, []uint64{0, 1, 0x6b3343cf, uint64(r.U64() & 0xffffffff)})))
			}
			a := strings.Join(av, ";")
			if a == "" {
				a = "-"
			}
			ps = append(ps, fmt.Sprintf("vi%d:%d:%s", r.Intn(2), r.U64()&0xffffffff, a))
		case 5:
			// GREASE with overrides
			id := 27 + 31*(r.U64()%148764065110560900)
			// a non-empty ValueOverride is used verbatim whatever Length says (0, equal, shorter, longer)
			ov := r.Bytes(1 + r.Intn(20))
			ps = append(ps, fmt.Sprintf("g:%d:%s:%d", id, hx(ov), Pick(r, []int{0, 0, len(ov), len(ov) + 1 + r.Intn(8), r.Intn(len(ov) + 1), r.Intn(40)})))
		case 6:
			// GREASE drawing its own id and/or value
			ps = append(ps, fmt.Sprintf("g:%d:-:%d", Pick(r, []uint64{0, 26, 28, 58}), r.Intn(40)))
		case 7:
			id := genVarintValue(r, 1000)
			if id == 0 || r.Intn(4) > 0 {
				id = id>>2 | 1
			}
			ps = append(ps, fmt.Sprintf("f:%d:%s", id, hx(r.Bytes(Pick(r, []int{0, 1, 2, 63, 64, 100, 16383, 16384})))))
		case 8:
			ps = append(ps, "f:0:-") // fake parameter without id: documented panic
		}
	}
	return "tps=" + joinList(ps)
}

type noop struct{}

func buildTP(spec string) tls.TransportParameter {
	f := strings.Split(spec, ":")
	u := func(s string) uint64 {
		v, err := strconv.ParseUint(s, 10, 64)
		if err != nil {
			panic("bad tp " + spec)
		}
		return v
	}
	switch {
	case strings.HasPrefix(f[0], "vi"):
		vi := &tls.VersionInformation{ChoosenVersion: uint32(u(f[1])), LegacyID: f[0] == "vi1"}
		if f[2] != "-" {
			for _, a := range strings.Split(f[2], ";") {
				vi.AvailableVersions = append(vi.AvailableVersions, uint32(u(a)))
			}
		}
		return vi
	case f[0][0] == 'v':
		v := u(f[1])
		switch u(f[0][1:]) {
		case 1:
			return tls.MaxIdleTimeout(v)
		case 3:
			return tls.MaxUDPPayloadSize(v)
		case 4:
			return tls.InitialMaxData(v)
		case 5:
			return tls.InitialMaxStreamDataBidiLocal(v)
		case 6:
			return tls.InitialMaxStreamDataBidiRemote(v)
		case 7:
			return tls.InitialMaxStreamDataUni(v)
		case 8:
			return tls.InitialMaxStreamsBidi(v)
		case 9:
			return tls.InitialMaxStreamsUni(v)
		case 11:
			return tls.MaxAckDelay(v)
		case 14:
			return tls.ActiveConnectionIDLimit(v)
		case 32:
			return tls.MaxDatagramFrameSize(v)
		}
	case f[0] == "e12":
		return &tls.DisableActiveMigration{}
	case f[0] == "e10930":
		return &tls.GREASEQUICBit{}
	case f[0] == "b15":
		return tls.InitialSourceConnectionID(unhex(f[1]))
	case f[0] == "b21":
		return tls.PaddingTransportParameter(unhex(f[1]))
	case f[0] == "g":
		return &tls.GREASETransportParameter{IdOverride: u(f[1]), ValueOverride: unhex(f[2]), Length: uint16(u(f[3]))}
	case f[0] == "f":
		return &tls.FakeQUICTransportParameter{Id: u(f[1]), Val: unhex(f[2])}
	}
	panic("bad tp " + spec)
}

func execTPs(in KV) string {
	var tps tls.TransportParameters
	for _, s := range splitList(in["tps"]) {
		tps = append(tps, buildTP(s))
	}
	m := catchPanic(func() string { return hx(tps.Marshal()) })
	if m == "panic" {
		return "marshal=panic"
	}
	// what each parameter reports now (GREASE parameters are frozen by the first call)
	var raw []string
	for _, tp := range tps {
		raw = append(raw, fmt.Sprintf("%d:%s", tp.ID(), hx(tp.Value())))
	}
	// through the extension: body of quic_transport_parameters
	ext := &tls.QUICTransportParametersExtension{TransportParameters: tps}
	buf := make([]byte, ext.Len())
	n, err := ext.Read(buf)
	e := "ok"
	if err != nil && err.Error() != "EOF" {
		e = "err"
	}
	return fmt.Sprintf("marshal=%s raw=%s ext=%s:%s", m, joinList(raw), e, hx(buf[:n]))
}

// ---- tps_seq: several parameter lists marshalled one after the other; every result is held
// and inspected only after all of them were produced (a result must not depend on later calls).
//
//	mode=marshal  r_i = l_i.Marshal() in the order `make`; then hex(r_i) in the order `look`
//	mode=ext      e_i.Len() in the order `make` (Len caches the body); then e_i.Read in the order `look`
//	mode=mixed    odd positions through an extension object, even ones through Marshal
//
// output per list i: now<i> = the bytes right after they were produced, held<i> = the same slice
// (or the extension body) after everything else was produced, raw<i> = what ID()/Value() report.

func c24GenTPNoPanic(r *Rng) string {
	switch r.Intn(8) {
	case 0, 1:
		return fmt.Sprintf("v%d:%d", Pick(r, typedVarintIDs), (genVarintValue(r, 1000+r.Intn(1000))>>uint(r.Intn(3)))>>2)
	case 2:
		return Pick(r, []string{"e12", "e10930"})
	case 3:
		return fmt.Sprintf("b%d:%s", Pick(r, []int{15, 21}), hx(r.Bytes(Pick(r, []int{0, 1, 8, 20, 63, 64, 65, 300}))))
	case 4:
		var av []string
		for k := r.Intn(4); k > 0; k-- {
			av = append(av, fmt.Sprint(Pick(r, []uint64{0, 1, 0x6b3343cf, uint64(r.U64() & 0xffffffff)})))
		}
		a := strings.Join(av, ";")
		if a == "" {
			a = "-"
		}
		return fmt.Sprintf("vi%d:%d:%s", r.Intn(2), r.U64()&0xffffffff, a)
	case 5:
		id := 27 + 31*(r.U64()%148764065110560900)
		ov := r.Bytes(1 + r.Intn(20))
		return fmt.Sprintf("g:%d:%s:%d", id, hx(ov), Pick(r, []int{0, 0, len(ov), len(ov) + 1 + r.Intn(8), r.Intn(len(ov) + 1), r.Intn(40)}))
	case 6:
		return fmt.Sprintf("g:%d:-:%d", Pick(r, []uint64{0, 26, 28, 58}), r.Intn(40))
	default:
		id := genVarintValue(r, 1000)>>2 | 1
		return fmt.Sprintf("f:%d:%s", id, hx(r.Bytes(Pick(r, []int{0, 1, 2, 63, 64, 100, 400}))))
	}
}

func c24Perm(r *Rng, k int) string {
	p := make([]int, k)
	for i := range p {
		p[i] = i
	}
	for i := k - 1; i > 0; i-- {
		j := r.Intn(i + 1)
		p[i], p[j] = p[j], p[i]
	}
	ss := make([]string, k)
	for i, x := range p {
		ss[i] = fmt.Sprint(x)
	}
	return strings.Join(ss, ",")
}

func c24GenTPSeq(r *Rng, i int, tier string) string {
	k := 2 + r.Intn(3)
	parts := []string{"mode=" + []string{"marshal", "ext", "mixed"}[i%3], fmt.Sprintf("k=%d", k)}
	for j := 0; j < k; j++ {
		n := 1 + r.Intn(6)
		if r.Intn(9) == 0 {
			n = 0
		}
		var ps []string
		for ; n > 0; n-- {
			ps = append(ps, c24GenTPNoPanic(r))
		}
		parts = append(parts, fmt.Sprintf("l%d=%s", j, joinList(ps)))
	}
	mk := "0,1,2,3"[:2*k-1]
	if r.Intn(3) == 0 {
		mk = c24Perm(r, k)
	}
	parts = append(parts, "make="+mk, "look="+c24Perm(r, k))
	return strings.Join(parts, " ")
}

func c24ExecTPSeq(in KV) string {
	k := in.Int("k")
	mode := in["mode"]
	lists := make([]tls.TransportParameters, k)
	for i := range lists {
		for _, s := range splitList(in[fmt.Sprintf("l%d", i)]) {
			lists[i] = append(lists[i], buildTP(s))
		}
	}
	order := func(key string) []int {
		var o []int
		for _, s := range splitList(in[key]) {
			v, err := strconv.Atoi(s)
			if err != nil || v < 0 || v >= k {
				panic("bad order " + in[key])
			}
			o = append(o, v)
		}
		return o
	}
	viaExt := func(pos int) bool { return mode == "ext" || (mode == "mixed" && pos%2 == 1) }
	held := make([][]byte, k) // the slices Marshal returned, NOT copied
	exts := make([]*tls.QUICTransportParametersExtension, k)
	now := make([]string, k)
	after := make([]string, k)
	for i := range now {
		now[i], after[i] = "none", "none"
	}
	// phase 1: produce
	for pos, i := range order("make") {
		if viaExt(pos) {
			exts[i] = &tls.QUICTransportParametersExtension{TransportParameters: lists[i]}
			now[i] = fmt.Sprintf("len:%d", exts[i].Len())
		} else {
			held[i] = lists[i].Marshal()
			now[i] = "m:" + hx(held[i])
		}
	}
	// phase 2: inspect what the caller still holds
	for _, i := range order("look") {
		switch {
		case exts[i] != nil:
			buf := make([]byte, exts[i].Len())
			n, err := exts[i].Read(buf)
			e := "ok"
			if err != nil && err.Error() != "EOF" {
				e = "err"
			}
			after[i] = fmt.Sprintf("x:%s:%s", e, hx(buf[:n]))
		case now[i] != "none":
			after[i] = "m:" + hx(held[i])
		}
	}
	var out []string
	for i := 0; i < k; i++ {
		var raw []string
		for _, tp := range lists[i] {
			raw = append(raw, fmt.Sprintf("%d:%s", tp.ID(), hx(tp.Value())))
		}
		out = append(out, fmt.Sprintf("now%d=%s held%d=%s raw%d=%s", i, now[i], i, after[i], i, joinList(raw)))
	}
	return strings.Join(out, " ")
}
