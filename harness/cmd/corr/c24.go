package main

import (
	"bytes"
	"fmt"
	"strconv"
	"strings"

	tls "github.com/refraction-networking/utls"
)

// ---- C24: quicvarint and TransportParameters.Marshal ----

var varintBoundaries = []uint64{
	0, 1, 62, 63, 64, 65, 255, 256, 16382, 16383, 16384, 16385, 65535, 65536,
	1073741822, 1073741823, 1073741824, 1073741825, 4294967295, 4294967296,
	4611686018427387902, 4611686018427387903, 4611686018427387904, 4611686018427387905,
	9223372036854775807, 9223372036854775808, 18446744073709551614, 18446744073709551615,
}

func genVarintValue(r *Rng, i int) uint64 {
	switch {
	case i < len(varintBoundaries):
		return varintBoundaries[i]
	case i < len(varintBoundaries)+64*3:
		j := i - len(varintBoundaries)
		p := uint64(1) << uint(j/3)
		return p + uint64(j%3) - 1 // 2^k-1, 2^k, 2^k+1
	default:
		bits := uint(r.Intn(65))
		if bits == 0 {
			return 0
		}
		v := r.U64()
		if bits < 64 {
			v &= (uint64(1) << bits) - 1
		}
		return v
	}
}

func catchPanic(f func() string) (s string) {
	defer func() {
		if p := recover(); p != nil {
			s = "panic"
		}
	}()
	return f()
}

func init() {
	register(&Family{
		Name: "varint",
		Gen: func(r *Rng, i int, tier string) string {
			x := genVarintValue(r, i)
			w := Pick(r, []int{1, 2, 4, 8, 1, 2, 4, 8, 0, 3, 5, 16})
			tail := r.Bytes(r.Intn(3))
			return fmt.Sprintf("x=%d w=%d tail=%s", x, w, hx(tail))
		},
		Exec: func(in KV) string {
			x := in.U64("x")
			w := in.Int("w")
			tail := in.Bytes("tail")
			app := catchPanic(func() string { return hx(tls.VerifVarintAppend(nil, x)) })
			ln := catchPanic(func() string { return fmt.Sprint(tls.VerifVarintLen(x)) })
			wl := catchPanic(func() string { return hx(tls.VerifVarintAppendWithLen(nil, x, int64(w))) })
			rd := func(enc string) string {
				if enc == "panic" {
					return "na"
				}
				rdr := bytes.NewReader(append(unhex(enc), tail...))
				v, err := tls.VerifVarintRead(rdr)
				if err != nil {
					return "eof"
				}
				return fmt.Sprintf("%d:%d", v, rdr.Len())
			}
			return fmt.Sprintf("append=%s len=%s withlen=%s read=%s readwl=%s", app, ln, wl, rd(app), rd(wl))
		},
	})
	register(&Family{
		Name: "varint_read",
		Gen: func(r *Rng, i int, tier string) string {
			n := r.Intn(10)
			b := r.Bytes(n)
			if n > 0 && r.Bool() {
				b[0] = byte(r.Intn(4))<<6 | byte(r.Intn(64))
			}
			return "bytes=" + hx(b)
		},
		Exec: func(in KV) string {
			rdr := bytes.NewReader(in.Bytes("bytes"))
			v, err := tls.VerifVarintRead(rdr)
			if err != nil {
				return "read=eof"
			}
			return fmt.Sprintf("read=%d:%d", v, rdr.Len())
		},
	})
	register(&Family{Name: "tps", Gen: genTPs, Exec: execTPs})
}

var typedVarintIDs = []uint64{1, 3, 4, 5, 6, 7, 8, 9, 11, 14, 32}

func genTPs(r *Rng, i int, tier string) string {
	n := r.Intn(8)
	if i%17 == 0 {
		n = 0
	}
	var ps []string
	for j := 0; j < n; j++ {
		switch r.Intn(9) {
		case 0, 1:
			ps = append(ps, fmt.Sprintf("v%d:%d", Pick(r, typedVarintIDs), genVarintValue(r, 1000+r.Intn(1000))>>uint(r.Intn(3))))
		case 2:
			ps = append(ps, Pick(r, []string{"e12", "e10930"}))
		case 3:
			ps = append(ps, fmt.Sprintf("b%d:%s", Pick(r, []int{15, 21}), hx(r.Bytes(Pick(r, []int{0, 1, 8, 20, 63, 64, 65, 300})))))
		case 4:
			var av []string
			for k := r.Intn(4); k > 0; k-- {
				av = append(av, fmt.Sprint(Pick(r, []uint64{0, 1, 0x6b3343cf, uint64(r.U64() & 0xffffffff)})))
			}
			a := strings.Join(av, ";")
			if a == "" {
				a = "-"
			}
			ps = append(ps, fmt.Sprintf("vi%d:%d:%s", r.Intn(2), r.U64()&0xffffffff, a))
		case 5:
			// GREASE with overrides
			id := 27 + 31*(r.U64()%148764065110560900)
			ps = append(ps, fmt.Sprintf("g:%d:%s:0", id, hx(r.Bytes(1+r.Intn(20)))))
		case 6:
			// GREASE drawing its own id and/or value
			ps = append(ps, fmt.Sprintf("g:%d:-:%d", Pick(r, []uint64{0, 26, 28, 58}), r.Intn(40)))
		case 7:
			id := genVarintValue(r, 1000)
			if id == 0 || r.Intn(4) > 0 {
				id = id>>2 | 1
			}
			ps = append(ps, fmt.Sprintf("f:%d:%s", id, hx(r.Bytes(Pick(r, []int{0, 1, 2, 63, 64, 100, 16383, 16384})))))
		case 8:
			ps = append(ps, "f:0:-") // fake parameter without id: documented panic
		}
	}
	return "tps=" + joinList(ps)
}

type noop struct{}

func buildTP(spec string) tls.TransportParameter {
	f := strings.Split(spec, ":")
	u := func(s string) uint64 {
		v, err := strconv.ParseUint(s, 10, 64)
		if err != nil {
			panic("bad tp " + spec)
		}
		return v
	}
	switch {
	case strings.HasPrefix(f[0], "vi"):
		vi := &tls.VersionInformation{ChoosenVersion: uint32(u(f[1])), LegacyID: f[0] == "vi1"}
		if f[2] != "-" {
			for _, a := range strings.Split(f[2], ";") {
				vi.AvailableVersions = append(vi.AvailableVersions, uint32(u(a)))
			}
		}
		return vi
	case f[0][0] == 'v':
		v := u(f[1])
		switch u(f[0][1:]) {
		case 1:
			return tls.MaxIdleTimeout(v)
		case 3:
			return tls.MaxUDPPayloadSize(v)
		case 4:
			return tls.InitialMaxData(v)
		case 5:
			return tls.InitialMaxStreamDataBidiLocal(v)
		case 6:
			return tls.InitialMaxStreamDataBidiRemote(v)
		case 7:
			return tls.InitialMaxStreamDataUni(v)
		case 8:
			return tls.InitialMaxStreamsBidi(v)
		case 9:
			return tls.InitialMaxStreamsUni(v)
		case 11:
			return tls.MaxAckDelay(v)
		case 14:
			return tls.ActiveConnectionIDLimit(v)
		case 32:
			return tls.MaxDatagramFrameSize(v)
		}
	case f[0] == "e12":
		return &tls.DisableActiveMigration{}
	case f[0] == "e10930":
		return &tls.GREASEQUICBit{}
	case f[0] == "b15":
		return tls.InitialSourceConnectionID(unhex(f[1]))
	case f[0] == "b21":
		return tls.PaddingTransportParameter(unhex(f[1]))
	case f[0] == "g":
		return &tls.GREASETransportParameter{IdOverride: u(f[1]), ValueOverride: unhex(f[2]), Length: uint16(u(f[3]))}
	case f[0] == "f":
		return &tls.FakeQUICTransportParameter{Id: u(f[1]), Val: unhex(f[2])}
	}
	panic("bad tp " + spec)
}

func execTPs(in KV) string {
	var tps tls.TransportParameters
	for _, s := range splitList(in["tps"]) {
		tps = append(tps, buildTP(s))
	}
	m := catchPanic(func() string { return hx(tps.Marshal()) })
	if m == "panic" {
		return "marshal=panic"
	}
	// what each parameter reports now (GREASE parameters are frozen by the first call)
	var raw []string
	for _, tp := range tps {
		raw = append(raw, fmt.Sprintf("%d:%s", tp.ID(), hx(tp.Value())))
	}
	// through the extension: body of quic_transport_parameters
	ext := &tls.QUICTransportParametersExtension{TransportParameters: tps}
	buf := make([]byte, ext.Len())
	n, err := ext.Read(buf)
	e := "ok"
	if err != nil && err.Error() != "EOF" {
		e = "err"
	}
	return fmt.Sprintf("marshal=%s raw=%s ext=%s:%s", m, joinList(raw), e, hx(buf[:n]))
}
