package main

// C25 — application data arrives intact and tampering is detected (record layer).
//
// Families:
//   rec_sched   real client/server pairs for every (version, suite, client kind) a utls client can
//               negotiate; random schedules of writes / reads / KeyUpdates on both sides; per write
//               the record lengths on the wire, per read the byte count and equality with what the
//               peer wrote; sequence numbers and traffic secrets at the end.
//   rec_tamper  one direction, a few writes, one mutation of one record on the wire (byte flip,
//               stream cut, shortened record with a fixed-up header); what the reader returns.
//
// The suites behind EnableWeakCiphers need a process in which EnableWeakCiphers() has been called
// (it replaces package state); those cases are executed by a persistent child `corr exec` process
// started with VERIF_REC_WEAK=1.

import (
	"bufio"
	"bytes"
	"errors"
	"fmt"
	"io"
	"net"
	"os"
	"os/exec"
	"strings"
	"sync"
	"time"

	tls "github.com/refraction-networking/utls"
)

// ---- the grid ----

type recCombo struct {
	Vers, Suite uint16
	Weak        bool // needs EnableWeakCiphers
}

var recSuites12 = []uint16{
	tls.TLS_ECDHE_RSA_WITH_CHACHA20_POLY1305, tls.TLS_ECDHE_ECDSA_WITH_CHACHA20_POLY1305,
	tls.TLS_ECDHE_RSA_WITH_AES_128_GCM_SHA256, tls.TLS_ECDHE_ECDSA_WITH_AES_128_GCM_SHA256,
	tls.TLS_ECDHE_RSA_WITH_AES_256_GCM_SHA384, tls.TLS_ECDHE_ECDSA_WITH_AES_256_GCM_SHA384,
	tls.TLS_ECDHE_RSA_WITH_AES_128_CBC_SHA256, tls.TLS_ECDHE_ECDSA_WITH_AES_128_CBC_SHA256,
	tls.TLS_RSA_WITH_AES_128_GCM_SHA256, tls.TLS_RSA_WITH_AES_256_GCM_SHA384, tls.TLS_RSA_WITH_AES_128_CBC_SHA256,
	tls.OLD_TLS_ECDHE_RSA_WITH_CHACHA20_POLY1305_SHA256, tls.OLD_TLS_ECDHE_ECDSA_WITH_CHACHA20_POLY1305_SHA256,
}

// suites without the suiteTLS12 flag: usable in TLS 1.0, 1.1 and 1.2
var recSuitesLegacy = []uint16{
	tls.TLS_ECDHE_RSA_WITH_AES_128_CBC_SHA, tls.TLS_ECDHE_ECDSA_WITH_AES_128_CBC_SHA,
	tls.TLS_ECDHE_RSA_WITH_AES_256_CBC_SHA, tls.TLS_ECDHE_ECDSA_WITH_AES_256_CBC_SHA,
	tls.TLS_RSA_WITH_AES_128_CBC_SHA, tls.TLS_RSA_WITH_AES_256_CBC_SHA,
	tls.TLS_ECDHE_RSA_WITH_3DES_EDE_CBC_SHA, tls.TLS_RSA_WITH_3DES_EDE_CBC_SHA,
	tls.TLS_RSA_WITH_RC4_128_SHA, tls.TLS_ECDHE_RSA_WITH_RC4_128_SHA, tls.TLS_ECDHE_ECDSA_WITH_RC4_128_SHA,
}

var recSuitesWeak = []uint16{
	tls.DISABLED_TLS_RSA_WITH_AES_256_CBC_SHA256,
	tls.DISABLED_TLS_ECDHE_ECDSA_WITH_AES_256_CBC_SHA384, tls.DISABLED_TLS_ECDHE_RSA_WITH_AES_256_CBC_SHA384,
}

var recSuites13 = []uint16{tls.TLS_AES_128_GCM_SHA256, tls.TLS_AES_256_GCM_SHA384, tls.TLS_CHACHA20_POLY1305_SHA256}

func recCombos() []recCombo {
	var out []recCombo
	for _, s := range recSuites13 {
		out = append(out, recCombo{tls.VersionTLS13, s, false})
	}
	for _, s := range recSuites12 {
		out = append(out, recCombo{tls.VersionTLS12, s, false})
	}
	for _, v := range []uint16{tls.VersionTLS12, tls.VersionTLS11, tls.VersionTLS10} {
		for _, s := range recSuitesLegacy {
			out = append(out, recCombo{v, s, false})
		}
	}
	for _, s := range recSuitesWeak {
		out = append(out, recCombo{tls.VersionTLS12, s, true})
	}
	return out
}

func recIsAEAD(vers, suite uint16) bool {
	if vers == tls.VersionTLS13 {
		return true
	}
	switch suite {
	case tls.TLS_ECDHE_RSA_WITH_CHACHA20_POLY1305, tls.TLS_ECDHE_ECDSA_WITH_CHACHA20_POLY1305,
		tls.TLS_ECDHE_RSA_WITH_AES_128_GCM_SHA256, tls.TLS_ECDHE_ECDSA_WITH_AES_128_GCM_SHA256,
		tls.TLS_ECDHE_RSA_WITH_AES_256_GCM_SHA384, tls.TLS_ECDHE_ECDSA_WITH_AES_256_GCM_SHA384,
		tls.TLS_RSA_WITH_AES_128_GCM_SHA256, tls.TLS_RSA_WITH_AES_256_GCM_SHA384,
		tls.OLD_TLS_ECDHE_RSA_WITH_CHACHA20_POLY1305_SHA256, tls.OLD_TLS_ECDHE_ECDSA_WITH_CHACHA20_POLY1305_SHA256:
		return true
	}
	return false
}

// ---- which parrots can offer (vers, suite) ----

type parrotCaps struct {
	id     tls.ClientHelloID
	suites map[uint16]bool
	vers   map[uint16]bool
}

var (
	recParrotOnce sync.Once
	recParrots    []parrotCaps
)

func recParrotCaps() []parrotCaps {
	recParrotOnce.Do(func() {
		for _, id := range parrotIDs {
			if strings.Contains(id.Version, "PSK") {
				continue // need a session or OmitEmptyPsk
			}
			spec, err := tls.UTLSIdToSpec(id)
			if err != nil {
				continue
			}
			pc := parrotCaps{id: id, suites: map[uint16]bool{}, vers: map[uint16]bool{}}
			for _, s := range spec.CipherSuites {
				pc.suites[s] = true
			}
			lo, hi := spec.TLSVersMin, spec.TLSVersMax
			var sv []uint16
			for _, e := range spec.Extensions {
				if x, ok := e.(*tls.SupportedVersionsExtension); ok {
					sv = x.Versions
				}
			}
			if lo == 0 && hi == 0 {
				if len(sv) > 0 {
					for _, v := range sv {
						pc.vers[v] = true
					}
				} else {
					lo, hi = tls.VersionTLS10, tls.VersionTLS12
				}
			}
			for v := lo; v != 0 && v <= hi; v++ {
				pc.vers[v] = true
			}
			if len(sv) > 0 { // a supported_versions extension is what the server negotiates from
				pc.vers = map[uint16]bool{}
				for _, v := range sv {
					pc.vers[v] = true
				}
			}
			recParrots = append(recParrots, pc)
		}
	})
	return recParrots
}

// recClientKinds lists the client kinds able to negotiate the combo: "golang", "custom", parrot names.
func recClientKinds(c recCombo) []string {
	kinds := []string{"custom"}
	inPref := !c.Weak && c.Suite != tls.OLD_TLS_ECDHE_RSA_WITH_CHACHA20_POLY1305_SHA256 &&
		c.Suite != tls.OLD_TLS_ECDHE_ECDSA_WITH_CHACHA20_POLY1305_SHA256
	if inPref {
		kinds = append(kinds, "golang")
	}
	for _, pc := range recParrotCaps() {
		if pc.suites[c.Suite] && pc.vers[c.Vers] {
			kinds = append(kinds, idName(pc.id))
		}
	}
	return kinds
}

func recCustomSpec(vers, suite uint16) *tls.ClientHelloSpec {
	exts := []tls.TLSExtension{
		&tls.SNIExtension{},
		&tls.ExtendedMasterSecretExtension{},
		&tls.RenegotiationInfoExtension{Renegotiation: tls.RenegotiateOnceAsClient},
		&tls.SupportedCurvesExtension{Curves: []tls.CurveID{tls.X25519, tls.CurveP256}},
		&tls.SupportedPointsExtension{SupportedPoints: []byte{0}},
		&tls.SignatureAlgorithmsExtension{SupportedSignatureAlgorithms: []tls.SignatureScheme{
			tls.ECDSAWithP256AndSHA256, tls.PSSWithSHA256, tls.PKCS1WithSHA256, tls.PKCS1WithSHA1, tls.ECDSAWithSHA1}},
	}
	spec := &tls.ClientHelloSpec{CipherSuites: []uint16{suite}, CompressionMethods: []byte{0}}
	if vers == tls.VersionTLS13 {
		exts = append(exts,
			&tls.SupportedVersionsExtension{Versions: []uint16{tls.VersionTLS13}},
			&tls.KeyShareExtension{KeyShares: []tls.KeyShare{{Group: tls.X25519}}},
			&tls.PSKKeyExchangeModesExtension{Modes: []uint8{tls.PskModeDHE}})
		spec.TLSVersMin, spec.TLSVersMax = tls.VersionTLS13, tls.VersionTLS13
		spec.CipherSuites = []uint16{suite}
	} else {
		spec.TLSVersMin, spec.TLSVersMax = vers, vers
	}
	spec.Extensions = exts
	return spec
}

// ---- connected pairs ----

type recEnd struct {
	name  byte // 'c' or 's'
	rw    io.ReadWriter
	rec   *recConn
	raw   net.Conn
	state func() tls.VerifRecState
	ku    func(bool) error
	tc    *tls.Conn // the connection itself (client: the Conn embedded in the UConn), for raw records
	mu    sync.Mutex
	chunk [][]byte // every Write call on the underlying conn since the last take()
}

func (e *recEnd) take() [][]byte {
	e.mu.Lock()
	defer e.mu.Unlock()
	c := e.chunk
	e.chunk = nil
	return c
}

type recPair struct {
	c, s *recEnd
	u    *tls.UConn
	srv  *tls.Conn
}

func (p *recPair) Close() {
	p.c.raw.Close()
	p.s.raw.Close()
}

func (p *recPair) end(b byte) *recEnd {
	if b == 'c' {
		return p.c
	}
	return p.s
}

func (p *recPair) peer(b byte) *recEnd {
	if b == 'c' {
		return p.s
	}
	return p.c
}

type recOpts struct {
	Vers, Suite    uint16
	Client         string // "golang", "custom" or a parrot name
	CDynOff        bool
	SDynOff        bool
	NoTickets      bool
	ClientRand     io.Reader
	ServerRand     io.Reader
	Timeout        time.Duration
	AllowSuitesSrv bool
}

var recAllowOnce sync.Once

func newRecPair(o recOpts) (*recPair, error) {
	recAllowOnce.Do(func() {
		tls.VerifServerAllowSuites(tls.OLD_TLS_ECDHE_RSA_WITH_CHACHA20_POLY1305_SHA256, tls.OLD_TLS_ECDHE_ECDSA_WITH_CHACHA20_POLY1305_SHA256)
		tls.VerifServerAllowSuites(recSuitesWeak...)
	})
	to := o.Timeout
	if to == 0 {
		to = 12 * time.Second
	}
	cRaw, sRaw, err := tcpPair()
	if err != nil {
		return nil, err
	}
	dl := time.Now().Add(to)
	cRaw.SetDeadline(dl)
	sRaw.SetDeadline(dl)
	ce := &recEnd{name: 'c', raw: cRaw}
	se := &recEnd{name: 's', raw: sRaw}
	ce.rec = &recConn{Conn: cRaw}
	se.rec = &recConn{Conn: sRaw}
	for _, e := range []*recEnd{ce, se} {
		e := e
		e.rec.OnWrite = func(b []byte) []byte {
			e.mu.Lock()
			e.chunk = append(e.chunk, append([]byte(nil), b...))
			e.mu.Unlock()
			return b
		}
	}
	scfg := &tls.Config{
		Certificates: []tls.Certificate{kit().leaf["ecdsa"], kit().leaf["rsa"]},
		MinVersion:   o.Vers, MaxVersion: o.Vers,
		DynamicRecordSizingDisabled: o.SDynOff,
		SessionTicketsDisabled:      o.NoTickets,
		Rand:                        o.ServerRand,
	}
	if o.Vers != tls.VersionTLS13 {
		scfg.CipherSuites = []uint16{o.Suite}
	} else {
		tls.VerifSetServerHooks(se.rec, &tls.VerifServerHooks{ForceSuiteTLS13: o.Suite})
		defer tls.VerifSetServerHooks(se.rec, nil)
	}
	srv := tls.Server(se.rec, scfg)
	sErr := make(chan error, 1)
	go func() {
		defer func() {
			if p := recover(); p != nil {
				sErr <- fmt.Errorf("server-panic: %v", p)
			}
		}()
		sErr <- srv.Handshake()
	}()
	ccfg := &tls.Config{ServerName: "example.golang", RootCAs: kit().pool,
		DynamicRecordSizingDisabled: o.CDynOff, Rand: o.ClientRand}
	var u *tls.UConn
	switch o.Client {
	case "golang":
		ccfg.MinVersion, ccfg.MaxVersion = o.Vers, o.Vers
		if o.Vers != tls.VersionTLS13 {
			ccfg.CipherSuites = []uint16{o.Suite}
		}
		u = tls.UClient(ce.rec, ccfg, tls.HelloGolang)
	case "custom":
		ccfg.MinVersion = tls.VersionTLS10
		u = tls.UClient(ce.rec, ccfg, tls.HelloCustom)
		if err := u.ApplyPreset(recCustomSpec(o.Vers, o.Suite)); err != nil {
			cRaw.Close()
			sRaw.Close()
			return nil, fmt.Errorf("preset: %v", err)
		}
	default:
		id, ok := idByName(o.Client)
		if !ok {
			cRaw.Close()
			sRaw.Close()
			return nil, errors.New("unknown client kind " + o.Client)
		}
		u = tls.UClient(ce.rec, ccfg, id)
	}
	cerr := func() (err error) {
		defer func() {
			if p := recover(); p != nil {
				err = fmt.Errorf("client-panic: %v", p)
			}
		}()
		return u.Handshake()
	}()
	if cerr != nil {
		cRaw.Close()
		sRaw.Close()
		<-sErr
		return nil, fmt.Errorf("client: %v", cerr)
	}
	if err := <-sErr; err != nil {
		cRaw.Close()
		sRaw.Close()
		return nil, fmt.Errorf("server: %v", err)
	}
	ce.rw, se.rw = u, srv
	ce.state, se.state = u.VerifRecState, srv.VerifRecState
	ce.ku, se.ku = u.VerifSendKeyUpdate, srv.VerifSendKeyUpdate
	ce.tc, se.tc = u.Conn, srv
	ce.take()
	se.take()
	return &recPair{c: ce, s: se, u: u, srv: srv}, nil
}

// recErrClass maps record-layer errors to the model's classes.
func recErrClass(err error) string {
	if err == nil {
		return "ok"
	}
	s := err.Error()
	var ne net.Error
	switch {
	case strings.Contains(s, "bad record MAC"):
		return "alert20"
	case strings.Contains(s, "record overflow"):
		return "alert22"
	case strings.Contains(s, "oversized record"):
		return "oversized"
	case strings.Contains(s, "received record with version"):
		return "version"
	case strings.Contains(s, "error decoding message"):
		return "alert50"
	case strings.Contains(s, "too many ignored records"), strings.Contains(s, "too many non-advancing records"):
		return "toomany"
	case strings.Contains(s, "local error: tls: unexpected message"):
		return "alert10"
	case strings.Contains(s, "remote error"):
		return "remote"
	case errors.Is(err, io.ErrUnexpectedEOF):
		return "short"
	case errors.Is(err, io.EOF):
		return "eof"
	case errors.As(err, &ne) && ne.Timeout():
		return "timeout"
	case strings.Contains(s, "connection reset"), strings.Contains(s, "broken pipe"), strings.Contains(s, "use of closed"):
		return "closed"
	}
	return "err:" + sanitize(s)
}

// chunkLens renders the chunks written by one operation: total lengths joined by '+', and checks
// that each chunk is exactly one record (header length = chunk length - 5); "!" marks a violation.
func chunkLens(ch [][]byte) string {
	if len(ch) == 0 {
		return "-"
	}
	var sb strings.Builder
	for i, c := range ch {
		if i > 0 {
			sb.WriteByte('+')
		}
		fmt.Fprintf(&sb, "%d", len(c))
		if len(c) < 5 || int(c[3])<<8|int(c[4]) != len(c)-5 {
			sb.WriteByte('!')
		}
	}
	return sb.String()
}

func recSnapshot(p *recPair) string {
	cs, ss := p.c.state(), p.s.state()
	keq := 0
	if bytes.Equal(cs.Out.Secret, ss.In.Secret) && bytes.Equal(cs.In.Secret, ss.Out.Secret) {
		keq = 1
	}
	return fmt.Sprintf("%d:%d:%d:%d:%d:%d:%d:%d:%d", cs.In.Seq, cs.Out.Seq, ss.In.Seq, ss.Out.Seq,
		cs.BytesSent, cs.PacketsSent, ss.BytesSent, ss.PacketsSent, keq)
}

func recParamStr(p *recPair) string {
	cs, ss := p.c.state(), p.s.state()
	sym := 1
	if cs.Out.Kind != ss.In.Kind || cs.In.Kind != ss.Out.Kind || cs.Out.Kind != cs.In.Kind ||
		cs.Out.MacSize != ss.Out.MacSize || cs.Out.BlockSize != ss.Out.BlockSize || cs.Out.Overhead != ss.Out.Overhead ||
		cs.Out.ExplicitNonceLen != ss.Out.ExplicitNonceLen {
		sym = 0
	}
	_, _, maxUseless, _, _, _, _, _ := tls.VerifFuzzConsts()
	return fmt.Sprintf("gotvers=%d gotsuite=%d kind=%s mac=%d bs=%d ovh=%d enl=%d sym=%d mur=%d", cs.Vers, cs.Suite,
		cs.Out.Kind, cs.Out.MacSize, cs.Out.BlockSize, cs.Out.Overhead, cs.Out.ExplicitNonceLen, sym, maxUseless)
}

// ---- the weak-suite child ----

var (
	weakMu    sync.Mutex
	weakCmd   *exec.Cmd
	weakIn    io.WriteCloser
	weakOut   *bufio.Reader
	weakIsKid = os.Getenv("VERIF_REC_WEAK") == "1"
)

func init() {
	if weakIsKid {
		tls.EnableWeakCiphers()
	}
}

// execInWeakChild runs one input line of family fam in the EnableWeakCiphers child process.
func execInWeakChild(fam string, in KV) string {
	weakMu.Lock()
	defer weakMu.Unlock()
	if weakCmd == nil {
		cmd := exec.Command(os.Args[0], "exec")
		cmd.Env = append(os.Environ(), "VERIF_REC_WEAK=1")
		wi, err := cmd.StdinPipe()
		if err != nil {
			return "out=weak-child-failed"
		}
		wo, err := cmd.StdoutPipe()
		if err != nil {
			return "out=weak-child-failed"
		}
		if err := cmd.Start(); err != nil {
			return "out=weak-child-failed"
		}
		weakCmd, weakIn, weakOut = cmd, wi, bufio.NewReaderSize(wo, 1<<20)
	}
	var toks []string
	for _, k := range sortedKeys(in) {
		toks = append(toks, k+"="+in[k])
	}
	fmt.Fprintf(weakIn, "%s %s\n", fam, strings.Join(toks, " "))
	line, err := weakOut.ReadString('\n')
	if err != nil {
		weakCmd = nil
		return "out=weak-child-died"
	}
	if i := strings.Index(line, " => "); i >= 0 {
		return strings.TrimSpace(line[i+4:])
	}
	return "out=weak-child-garbled"
}

func sortedKeys(in KV) []string {
	var ks []string
	for k := range in {
		ks = append(ks, k)
	}
	for i := 1; i < len(ks); i++ {
		for j := i; j > 0 && ks[j] < ks[j-1]; j-- {
			ks[j], ks[j-1] = ks[j-1], ks[j]
		}
	}
	return ks
}

// ---- generators ----

func recPickSize(r *Rng) int {
	switch r.Intn(12) {
	case 0:
		return 0
	case 1:
		return 1
	case 2:
		return 2
	case 3:
		return Pick(r, []int{1100, 1138, 1139, 1140, 1150, 1160, 1170, 1179, 1180, 1186, 1187, 1188, 1200, 2300, 2374, 2400})
	case 4:
		return Pick(r, []int{16383, 16384, 16385, 16400, 32767, 32768, 32769, 33000, 40000})
	case 5, 6:
		return r.Intn(40000)
	case 7:
		return r.Intn(5000)
	default:
		return r.Intn(600)
	}
}

// recWeighted: the grid with every TLS 1.3 combo five times (3 of the 61 combos are TLS 1.3, and
// KeyUpdates exist only there).
func recWeighted() []recCombo {
	var out []recCombo
	for _, c := range recCombos() {
		out = append(out, c)
		if c.Vers == tls.VersionTLS13 {
			out = append(out, c, c, c, c)
		}
	}
	return out
}

func recGenParams(r *Rng, i int) (recCombo, string) {
	combos := recWeighted()
	c := combos[i%len(combos)]
	kinds := recClientKinds(c)
	// rotate through the kinds so that custom / golang / parrots all appear for every combo
	k := kinds[(i/len(combos)+r.Intn(2)*r.Intn(len(kinds)))%len(kinds)]
	return c, k
}

func recGenSched(r *Rng, i int, tier string) string {
	c, kind := recGenParams(r, i)
	nops := 4 + r.Intn(14)
	if r.Intn(6) == 0 {
		nops += 20
	}
	var ops []string
	for j := 0; j < nops; j++ {
		side := Pick(r, []string{"c", "s"})
		switch x := r.Intn(20); {
		case x < 9:
			ops = append(ops, fmt.Sprintf("w%s:%d", side, recPickSize(r)))
		case x < 17:
			ops = append(ops, fmt.Sprintf("r%s:%d", side, Pick(r, []int{1, 2, 100, 1000, 5000, 16384, 20000, 70000, 1 + r.Intn(40000)})))
		default:
			if c.Vers == tls.VersionTLS13 {
				ops = append(ops, fmt.Sprintf("k%s:%d", side, r.Intn(2)))
			} else {
				ops = append(ops, fmt.Sprintf("w%s:%d", side, recPickSize(r)))
			}
		}
	}
	// TLS 1.3: long runs of consecutive KeyUpdates from one side (around maxUselessRecords = 32), with
	// or without update_requested, followed by data from that side; the peer then reads everything,
	// and (with update_requested) its own run of responses is read back
	if c.Vers == tls.VersionTLS13 && r.Intn(4) == 0 {
		side := Pick(r, []string{"c", "s"})
		other := map[string]string{"c": "s", "s": "c"}[side]
		n := Pick(r, []int{31, 32, 33, 33, 34, 40, 64, 65, 100})
		req := r.Intn(2)
		for j := 0; j < n; j++ {
			ops = append(ops, fmt.Sprintf("k%s:%d", side, req))
		}
		ops = append(ops, fmt.Sprintf("w%s:%d", side, 1+r.Intn(3000)), fmt.Sprintf("r%s:70000", other), fmt.Sprintf("r%s:70000", other),
			fmt.Sprintf("w%s:%d", other, 1+r.Intn(300)), fmt.Sprintf("r%s:70000", side))
	}
	// ignorable records interleaved with data: groups of (j empty application-data records or, up to
	// TLS 1.2, warning alerts; then a non-empty write of the same side), j mostly 1..3, sometimes
	// 31/32 (the limit for one run is maxUselessRecords = 32); 33..110 ignorable records in total
	if r.Intn(5) == 0 {
		side := Pick(r, []string{"c", "s"})
		other := map[string]string{"c": "s", "s": "c"}[side]
		total := Pick(r, []int{33, 34, 40, 64, 100, 110})
		for done := 0; done < total; {
			j := 1 + r.Intn(3)
			if r.Intn(8) == 0 {
				j = Pick(r, []int{31, 32})
			}
			for i := 0; i < j; i++ {
				kind := "z"
				if c.Vers != tls.VersionTLS13 && r.Intn(2) == 0 {
					kind = "a"
				}
				ops = append(ops, fmt.Sprintf("%s%s:0", kind, side))
			}
			done += j
			ops = append(ops, fmt.Sprintf("w%s:%d", side, 1+r.Intn(300)))
			if r.Intn(3) == 0 {
				ops = append(ops, fmt.Sprintf("r%s:%d", other, Pick(r, []int{1, 100, 70000})))
			}
		}
		ops = append(ops, fmt.Sprintf("r%s:70000", other), fmt.Sprintf("r%s:70000", other))
	}
	// TLS 1.3: several post-handshake messages in ONE record (the in-package peers never do that):
	// KeyUpdates with/without update_requested, and (server -> client) NewSessionTickets; then data
	if c.Vers == tls.VersionTLS13 && r.Intn(3) == 0 {
		for g, ng := 0, 1+r.Intn(3); g < ng; g++ {
			side := Pick(r, []string{"s", "s", "c"})
			other := map[string]string{"c": "s", "s": "c"}[side]
			var code int
			if side == "s" {
				code = Pick(r, []int{11, 31, 13, 33, 313, 331, 12, 32, 111, 3331})
			} else {
				code = Pick(r, []int{11, 12, 21, 111, 22})
			}
			ops = append(ops, fmt.Sprintf("m%s:%d", side, code), fmt.Sprintf("w%s:%d", side, 1+r.Intn(3000)),
				fmt.Sprintf("r%s:70000", other), fmt.Sprintf("r%s:70000", other))
		}
	}
	// long streams cross the 128 KiB boost threshold and the 16 384 cap of the progression
	if r.Intn(10) == 0 {
		side := Pick(r, []string{"c", "s"})
		other := map[string]string{"c": "s", "s": "c"}[side]
		for j := 0; j < 6; j++ {
			ops = append(ops, fmt.Sprintf("w%s:%d", side, 30000+r.Intn(10000)), fmt.Sprintf("r%s:70000", other), fmt.Sprintf("r%s:70000", other), fmt.Sprintf("r%s:70000", other))
		}
	}
	weak := 0
	if c.Weak {
		weak = 1
	}
	return fmt.Sprintf("vers=%d suite=%d client=%s weak=%d cdyn=%d sdyn=%d tick=%d ds=%d ops=%s", c.Vers, c.Suite, kind, weak,
		r.Intn(4)/3, r.Intn(4)/3, r.Intn(2), r.U64()%1000000, joinList(ops))
}

const recMaxPending = 200000

// a minimal well-formed TLS 1.3 NewSessionTicket: lifetime 0, age_add 0, nonce {0}, ticket {1,2,3,4}, no extensions
var recTicketMsg = []byte{4, 0, 0, 18, 0, 0, 0, 0, 0, 0, 0, 0, 1, 0, 0, 4, 1, 2, 3, 4, 0, 0}

// recPrime exchanges one byte in each direction, so that a TLS 1.3 NewSessionTicket in flight is
// consumed and both directions start synchronised. Returns "" or a failure description.
func recPrime(p *recPair) string {
	one := make([]byte, 1)
	for _, w := range []byte{'s', 'c'} {
		if _, err := p.end(w).rw.Write([]byte{0x5a}); err != nil {
			return "prime-write:" + recErrClass(err)
		}
		if n, err := p.peer(w).rw.Read(one); err != nil || n != 1 || one[0] != 0x5a {
			return "prime-read:" + recErrClass(err)
		}
	}
	p.c.take()
	p.s.take()
	return ""
}

func recOptsOf(in KV) recOpts {
	return recOpts{Vers: uint16(in.Int("vers")), Suite: uint16(in.Int("suite")), Client: in["client"],
		CDynOff: in["cdyn"] == "1", SDynOff: in["sdyn"] == "1", NoTickets: in["tick"] == "0"}
}

func recExecSched(in KV) string {
	if in["weak"] == "1" && !weakIsKid {
		return execInWeakChild("rec_sched", in)
	}
	p, err := newRecPair(recOptsOf(in))
	if err != nil {
		return "out=hsfail msg=" + sanitize(err.Error())
	}
	defer p.Close()
	if f := recPrime(p); f != "" {
		return "out=" + f
	}
	data := NewRng(in.U64("ds"))
	sent := map[byte][]byte{'c': nil, 's': nil} // bytes written by that side
	rcvd := map[byte]int{'c': 0, 's': 0}         // bytes of the peer's stream read by that side
	params := recParamStr(p)
	start := recSnapshot(p)
	var res []string
	doRead := func(side byte, n int) string {
		e, pe := p.end(side), p.peer(side)
		pend := len(sent[pe.name]) - rcvd[side]
		if pend == 0 && n > 0 {
			return "x"
		}
		buf := make([]byte, n)
		k, err := e.rw.Read(buf)
		eq := 1
		if rcvd[side]+k > len(sent[pe.name]) || !bytes.Equal(buf[:k], sent[pe.name][rcvd[side]:rcvd[side]+k]) {
			eq = 0
		} else {
			rcvd[side] += k
		}
		return fmt.Sprintf("r%c/%d/%d/%s/%s", side, k, eq, recErrClass(err), chunkLens(e.take()))
	}
	doWrite := func(side byte, n int) string {
		e, pe := p.end(side), p.peer(side)
		if len(sent[side])-rcvd[pe.name]+n > recMaxPending {
			return "x"
		}
		d := data.Bytes(n)
		k, err := e.rw.Write(d)
		sent[side] = append(sent[side], d[:k]...)
		return fmt.Sprintf("w%c/%d/%s/%s", side, k, recErrClass(err), chunkLens(e.take()))
	}
	for _, op := range splitList(in["ops"]) {
		var n int
		fmt.Sscanf(op[3:], "%d", &n)
		side := op[1]
		switch op[0] {
		case 'w':
			res = append(res, doWrite(side, n))
		case 'r':
			res = append(res, doRead(side, n))
		case 'k':
			e := p.end(side)
			err := e.ku(n == 1)
			res = append(res, fmt.Sprintf("k%c/%s/%s", side, recErrClass(err), chunkLens(e.take())))
		case 'z', 'a', 'm':
			// hand-built records under the current write keys: empty application data, a warning alert
			// (TLS <= 1.2), several post-handshake messages coalesced into one record (TLS 1.3; digits of
			// n: 1 = KeyUpdate, 2 = KeyUpdate with update_requested, 3 = NewSessionTicket)
			e, pe := p.end(side), p.peer(side)
			if len(sent[side])-rcvd[pe.name] > recMaxPending-4000 {
				res = append(res, "x")
				break
			}
			var err error
			switch op[0] {
			case 'z':
				err = e.tc.VerifWriteRawRecord(23, nil)
			case 'a':
				err = e.tc.VerifWriteRawRecord(21, []byte{1, 90})
			case 'm':
				var payload []byte
				nku := 0
				for _, d := range fmt.Sprint(n) {
					switch d {
					case '1':
						payload = append(payload, 24, 0, 0, 1, 0)
						nku++
					case '2':
						payload = append(payload, 24, 0, 0, 1, 1)
						nku++
					case '3':
						payload = append(payload, recTicketMsg...)
					}
				}
				err = e.tc.VerifWriteRawRecord(22, payload)
				if err == nil {
					e.tc.VerifRekeyOut(nku)
				}
			}
			res = append(res, fmt.Sprintf("%c%c/%s/%s", op[0], side, recErrClass(err), chunkLens(e.take())))
		}
	}
	// drain both directions, then flush trailing KeyUpdates with two rounds of one-byte exchanges
	var drain []string
	for _, side := range []byte{'c', 's'} {
		for i := 0; i < 1000 && len(sent[p.peer(side).name])-rcvd[side] > 0; i++ {
			drain = append(drain, doRead(side, 70000))
		}
	}
	for round := 0; round < 2; round++ {
		for _, w := range []byte{'c', 's'} {
			drain = append(drain, doWrite(w, 1), doRead(p.peer(w).name, 1))
		}
	}
	return fmt.Sprintf("out=ok %s start=%s res=%s drain=%s end=%s tot=%d:%d:%d:%d", params, start, joinList(res), joinList(drain),
		recSnapshot(p), len(sent['c']), rcvd['s'], len(sent['s']), rcvd['c'])
}

// ---- tampering ----

func recGenTamper(r *Rng, i int, tier string) string {
	c, kind := recGenParams(r, i)
	nw := 1 + r.Intn(3)
	var ws []string
	for j := 0; j < nw; j++ {
		ws = append(ws, fmt.Sprint(Pick(r, []int{1, 2, 17, 100, 600, 1 + r.Intn(3000), 1 + r.Intn(20000)})))
	}
	var mut string
	mrec := func() int {
		if r.Intn(10) < 6 {
			return 0
		}
		return r.Intn(4)
	}
	switch x := r.Intn(20); {
	case x == 0:
		mut = "none"
	case x < 12:
		// flip: record index, offset (reduced modulo the record length), xor mask
		off := r.Intn(40000)
		switch r.Intn(5) {
		case 0:
			off = r.Intn(5) // header
		case 1:
			off = 5 + r.Intn(24) // explicit nonce / first block
		case 2:
			off = -1 - r.Intn(40) // tail: tag, MAC, padding
		}
		mask := 1 << r.Intn(8)
		if r.Intn(3) == 0 {
			mask = 1 + r.Intn(255)
		}
		mut = fmt.Sprintf("flip:%d:%d:%d", mrec(), off, mask)
	case x < 16:
		mut = fmt.Sprintf("cut:%d:%d", mrec(), r.Intn(3000)) // keep that many bytes of the record, then close
	default:
		mut = fmt.Sprintf("shrink:%d:%d", mrec(), 1+r.Intn(40)) // drop bytes from the end, fix the header
	}
	weak := 0
	if c.Weak {
		weak = 1
	}
	return fmt.Sprintf("vers=%d suite=%d client=%s weak=%d cdyn=%d sdyn=%d tick=%d ds=%d dir=%s ws=%s mut=%s", c.Vers, c.Suite, kind, weak,
		r.Intn(4)/3, r.Intn(4)/3, r.Intn(2), r.U64()%1000000, Pick(r, []string{"c", "s"}), joinList(ws), mut)
}

func recExecTamper(in KV) string {
	if in["weak"] == "1" && !weakIsKid {
		return execInWeakChild("rec_tamper", in)
	}
	p, err := newRecPair(recOptsOf(in))
	if err != nil {
		return "out=hsfail msg=" + sanitize(err.Error())
	}
	defer p.Close()
	if f := recPrime(p); f != "" {
		return "out=" + f
	}
	params := recParamStr(p)
	start := recSnapshot(p)
	w := p.end(in["dir"][0])
	rd := p.peer(in["dir"][0])
	mut := strings.Split(in["mut"], ":")
	var mrec, ma, mb int
	if len(mut) >= 3 {
		fmt.Sscanf(mut[1], "%d", &mrec)
		fmt.Sscanf(mut[2], "%d", &ma)
	}
	if len(mut) >= 4 {
		fmt.Sscanf(mut[3], "%d", &mb)
	}
	// the proxy: mutate the mrec-th record the writer puts on the wire from now on
	idx := 0
	cut := false
	applied := "-"
	var lens []string
	w.rec.OnWrite = func(b []byte) []byte {
		defer func() { idx++ }()
		if cut {
			return nil
		}
		lens = append(lens, fmt.Sprint(len(b)))
		if idx != mrec || mut[0] == "none" {
			return b
		}
		q := append([]byte(nil), b...)
		switch mut[0] {
		case "flip":
			off := ma
			if off < 0 {
				off = len(q) + off
				if off < 0 {
					off = 0
				}
			} else {
				off %= len(q)
			}
			q[off] ^= byte(mb)
			applied = fmt.Sprintf("flip@%d", off)
		case "cut":
			keep := ma % len(q)
			q = q[:keep]
			cut = true
			applied = fmt.Sprintf("cut@%d", keep)
		case "shrink":
			n := ma
			if n > len(q)-5 {
				n = len(q) - 5
			}
			q = q[:len(q)-n]
			q[3], q[4] = byte((len(q)-5)>>8), byte(len(q)-5)
			applied = fmt.Sprintf("shrink@%d", n)
		}
		return q
	}
	data := NewRng(in.U64("ds"))
	var all []byte
	werr := "ok"
	for _, s := range splitList(in["ws"]) {
		var n int
		fmt.Sscanf(s, "%d", &n)
		d := data.Bytes(n)
		all = append(all, d...)
		if _, err := w.rw.Write(d); err != nil {
			werr = recErrClass(err)
			break
		}
	}
	// no more bytes will come: the reader sees EOF after what was delivered
	if tc, ok := w.raw.(*net.TCPConn); ok {
		tc.CloseWrite()
	}
	var got []byte
	rerr := "ok"
	buf := make([]byte, 70000)
	for i := 0; i < 200; i++ {
		k, err := rd.rw.Read(buf)
		got = append(got, buf[:k]...)
		if err != nil {
			rerr = recErrClass(err)
			break
		}
	}
	prefix := 0
	if len(got) <= len(all) && bytes.Equal(got, all[:len(got)]) {
		prefix = 1
	}
	return fmt.Sprintf("out=ok %s start=%s applied=%s lens=%s werr=%s got=%d total=%d prefix=%d rerr=%s", params, start, applied,
		joinList(lens), werr, len(got), len(all), prefix, rerr)
}

func init() {
	register(&Family{Name: "rec_sched", Gen: recGenSched, Exec: recExecSched, Timeout: 40 * time.Second})
	register(&Family{Name: "rec_tamper", Gen: recGenTamper, Exec: recExecTamper, Timeout: 40 * time.Second})
}
