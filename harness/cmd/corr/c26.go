package main

// C26 — concurrent use of a UConn.
//
//	c26_shape : re-extracts the lock skeleton of (*UConn).handshakeContext from the source this
//	            binary was compiled from; the Lean driver evaluates the discipline predicate on it
//	            and names the failing clause + path (the replay of a broken shape fact).
//	c26_conc  : a real UConn over TCP loopback with K = 2..4 concurrent HandshakeContext callers
//	            (background / live / cancelled-at-a-random-point / deadline / pre-cancelled contexts,
//	            random start delays), an optional writer+reader pair and an optional closer, against
//	            a server that completes, fails, stalls or is slow, or with a ClientHelloID for which
//	            BuildHandshakeState fails.  Recorded: every caller's return value (nil / its own
//	            context's error / an error value, by identity and class), whether the connection was
//	            closed when it returned, its ConnectionState, and the effect of cancelling all
//	            contexts after every call returned.  The Lean monitor checks the history against
//	            `caller_outcome`.
//	c26_race  : the same scenarios executed by a second harness binary built with `go build -race`;
//	            a race report becomes race=1 (PROPFAIL, the report is the replay).

import (
	"bytes"
	"context"
	"errors"
	"fmt"
	"io"
	"net"
	"os"
	"os/exec"
	"path/filepath"
	"strings"
	"sync"
	"sync/atomic"
	"time"

	tls "github.com/refraction-networking/utls"

)

// ---- c26_shape ----

func init() {
	register(&Family{
		Name: "c26_shape",
		Gen: func(r *Rng, i int, tier string) string {
			fns := []string{"handshakeContext", "Write", "Close"}
			if i >= len(fns) {
				return ""
			}
			return "fn=" + fns[i]
		},
		Exec: c26ShapeExec,
	})
}

// ---- c26_conc ----

// trackConn counts Close calls on the underlying connection.
type trackConn struct {
	net.Conn
	closes atomic.Int32
}

func (c *trackConn) Close() error {
	c.closes.Add(1)
	return c.Conn.Close()
}

var c26IDs = []tls.ClientHelloID{tls.HelloGolang, tls.HelloChrome_133, tls.HelloFirefox_120, tls.HelloChrome_100, tls.HelloFirefox_105, tls.HelloIOS_14, tls.HelloSafari_16_0, tls.HelloChrome_120_PQ, tls.HelloFirefox_63}

var c26Bogus = tls.ClientHelloID{Client: "C26-no-such-client", Version: "0"}

func c26Gen(r *Rng, i int, tier string) string {
	k := 2 + r.Intn(3)
	srv := Pick(r, []string{"ok", "ok", "ok", "slow", "slow", "fail", "stall", "buildfail"})
	// the first cases of every run make sure the deterministic classes are present
	switch i {
	case 0:
		srv = "ok"
	case 1:
		srv = "fail"
	case 2:
		srv = "buildfail"
	case 3:
		srv = "stall"
	}
	id := idName(Pick(r, c26IDs))
	quiet := i < 3 || r.Intn(4) == 0 // no cancellation, no closer: outcome is determined
	var kinds, starts, cuts []string
	for j := 0; j < k; j++ {
		kind := "live"
		if !quiet {
			kind = Pick(r, []string{"bg", "bg", "live", "live", "live", "cancel", "cancel", "cancel", "cancel", "deadline", "deadline", "pre"})
		} else if r.Intn(3) == 0 {
			kind = "bg"
		}
		if srv == "stall" && j == 0 && kind != "deadline" && kind != "pre" {
			kind = "cancel" // somebody must end a stalled handshake before the I/O deadline, too
		}
		kinds = append(kinds, kind)
		starts = append(starts, fmt.Sprint(r.Intn(4)*r.Intn(600)))
		// cancellation points: biased to the first few milliseconds (inside the handshake), some later
		cut := r.Intn(3000)
		if r.Intn(4) == 0 {
			cut = r.Intn(20000)
		}
		cuts = append(cuts, fmt.Sprint(cut))
	}
	wr, rd, cl := -1, -1, -1
	if r.Intn(2) == 0 {
		wr = r.Intn(3000)
		if r.Intn(2) == 0 {
			rd = r.Intn(3000)
		}
	}
	if !quiet && r.Intn(3) == 0 {
		cl = r.Intn(6000)
	}
	sdelay := 0
	if srv == "slow" {
		sdelay = 1000 + r.Intn(8000)
	}
	return fmt.Sprintf("id=%s srv=%s k=%d ctx=%s start=%s cut=%s wr=%d rd=%d cl=%d sdelay=%d",
		id, srv, k, strings.Join(kinds, ","), strings.Join(starts, ","), strings.Join(cuts, ","), wr, rd, cl, sdelay)
}

func us(s string) time.Duration {
	var n int
	fmt.Sscan(s, &n)
	return time.Duration(n) * time.Microsecond
}

// c26Server runs the peer on sRaw according to mode.
func c26Server(sRaw net.Conn, mode string, sdelay time.Duration, done chan<- struct{}) {
	defer close(done)
	defer sRaw.Close()
	switch mode {
	case "stall":
		io.Copy(io.Discard, sRaw) // read everything, answer nothing
		return
	case "fail":
		// read the ClientHello record, then refuse with a fatal handshake_failure alert
		hdr := make([]byte, 5)
		if _, err := io.ReadFull(sRaw, hdr); err != nil {
			return
		}
		io.CopyN(io.Discard, sRaw, int64(hdr[3])<<8|int64(hdr[4]))
		sRaw.Write([]byte{21, 3, 3, 0, 2, 2, 40})
		io.Copy(io.Discard, sRaw)
		return
	}
	if sdelay > 0 {
		time.Sleep(sdelay)
	}
	srv := tls.Server(sRaw, defaultServerCfg(&tls.Config{NextProtos: []string{"h2", "http/1.1"}}))
	if err := srv.Handshake(); err != nil {
		return
	}
	buf := make([]byte, 64)
	for {
		n, err := srv.Read(buf)
		if n > 0 {
			if _, werr := srv.Write(buf[:n]); werr != nil {
				return
			}
		}
		if err != nil {
			return
		}
	}
}

type c26Caller struct {
	panicked string // non-empty: the call panicked
	ret      error
	ctxErr   error // ctx.Err() right after the call returned
	closedAt bool  // underlying conn already closed when the call returned
	cs       tls.ConnectionState
	returned bool
}

func c26Exec(in KV) string {
	k := in.Int("k")
	kinds := splitList(in["ctx"])
	starts := splitList(in["start"])
	cuts := splitList(in["cut"])
	if len(kinds) != k || len(starts) != k || len(cuts) != k {
		panic("c26: list lengths")
	}
	srvMode := in["srv"]
	ioDeadline := 2500 * time.Millisecond
	if srvMode == "stall" {
		ioDeadline = 300 * time.Millisecond
	}
	cRaw, sRaw, err := tcpPair()
	if err != nil {
		return "out=infra-" + sanitize(err.Error())
	}
	dl := time.Now().Add(ioDeadline)
	cRaw.SetDeadline(dl)
	sRaw.SetDeadline(dl.Add(200 * time.Millisecond))
	tc := &trackConn{Conn: cRaw}
	id, ok := idByName(in["id"])
	if !ok {
		panic("c26: unknown id " + in["id"])
	}
	mode := srvMode
	if srvMode == "buildfail" {
		id = c26Bogus
		mode = "stall"
	}
	sDone := make(chan struct{})
	go c26Server(sRaw, mode, us(in["sdelay"]), sDone)
	u := tls.UClient(tc, defaultClientCfg(&tls.Config{NextProtos: []string{"h2", "http/1.1"}}), id)

	callers := make([]c26Caller, k)
	cancels := make([]context.CancelFunc, k)
	ctxs := make([]context.Context, k)
	t0 := time.Now()
	for i, kind := range kinds {
		switch kind {
		case "bg":
			ctxs[i], cancels[i] = context.Background(), func() {}
		case "deadline":
			ctxs[i], cancels[i] = context.WithDeadline(context.Background(), t0.Add(us(starts[i])+us(cuts[i])))
		case "pre":
			ctxs[i], cancels[i] = context.WithCancel(context.Background())
			cancels[i]()
		default: // live, cancel
			ctxs[i], cancels[i] = context.WithCancel(context.Background())
		}
	}
	var wg sync.WaitGroup
	for i := range callers {
		wg.Add(1)
		go func(i int) {
			defer wg.Done()
			time.Sleep(time.Until(t0.Add(us(starts[i]))))
			if kinds[i] == "cancel" {
				go func() {
					time.Sleep(time.Until(t0.Add(us(starts[i]) + us(cuts[i]))))
					cancels[i]()
				}()
			}
			c := &callers[i]
			defer func() {
				if p := recover(); p != nil {
					c.panicked = sanitize(fmt.Sprint(p))
				}
			}()
			c.ret = u.HandshakeContext(ctxs[i])
			c.closedAt = tc.closes.Load() > 0
			c.ctxErr = ctxs[i].Err()
			c.cs = u.ConnectionState()
			c.returned = true
		}(i)
	}
	var wrRes, rdRes, clRes string = "-", "-", "-"
	payload := []byte("ping")
	if w := in.Int("wr"); w >= 0 {
		wg.Add(1)
		go func() {
			defer wg.Done()
			defer func() {
				if p := recover(); p != nil {
					wrRes = "panic:" + sanitize(fmt.Sprint(p))
				}
			}()
			time.Sleep(time.Until(t0.Add(time.Duration(w) * time.Microsecond)))
			_, err := u.Write(payload)
			wrRes = errClass(err)
		}()
	}
	if rd := in.Int("rd"); rd >= 0 {
		wg.Add(1)
		go func() {
			defer wg.Done()
			defer func() {
				if p := recover(); p != nil {
					rdRes = "panic:" + sanitize(fmt.Sprint(p))
				}
			}()
			time.Sleep(time.Until(t0.Add(time.Duration(rd) * time.Microsecond)))
			buf := make([]byte, len(payload))
			_, err := io.ReadFull(u, buf)
			if err == nil && !bytes.Equal(buf, payload) {
				err = errors.New("echo mismatch")
			}
			rdRes = errClass(err)
		}()
	}
	if cl := in.Int("cl"); cl >= 0 {
		wg.Add(1)
		go func() {
			defer wg.Done()
			defer func() {
				if p := recover(); p != nil {
					clRes = "panic:" + sanitize(fmt.Sprint(p))
				}
			}()
			time.Sleep(time.Until(t0.Add(time.Duration(cl) * time.Microsecond)))
			clRes = errClass(u.Close())
		}()
	}
	all := make(chan struct{})
	go func() { wg.Wait(); close(all) }()
	hang := 0
	select {
	case <-all:
	case <-time.After(ioDeadline + 3*time.Second):
		hang = 1
	}
	if hang == 1 {
		tc.Close()
		<-sDone
		return "hang=1"
	}
	// render the callers' results: errors numbered by identity in order of first appearance
	var ids []error
	var rs, ccl, css []string
	allNil := true
	for i := range callers {
		c := &callers[i]
		switch {
		case c.panicked != "":
			allNil = false
			rs = append(rs, "panic:"+c.panicked)
		case c.ret == nil:
			rs = append(rs, "nil")
		case c.ctxErr != nil && c.ret == c.ctxErr:
			allNil = false
			if errors.Is(c.ret, context.DeadlineExceeded) {
				rs = append(rs, "ctx:deadline")
			} else {
				rs = append(rs, "ctx:canceled")
			}
		default:
			allNil = false
			idx := -1
			for j, e := range ids {
				if e == c.ret {
					idx = j
				}
			}
			if idx < 0 {
				ids = append(ids, c.ret)
				idx = len(ids) - 1
			}
			rs = append(rs, fmt.Sprintf("e%d:%s", idx, errClass(c.ret)))
		}
		if c.closedAt {
			ccl = append(ccl, "1")
		} else {
			ccl = append(ccl, "0")
		}
		css = append(css, fmt.Sprintf("%04x:%04x:%v:%s", c.cs.Version, c.cs.CipherSuite, c.cs.HandshakeComplete, sanitizeOr(c.cs.NegotiatedProtocol)))
	}
	complete := u.ConnectionState().HandshakeComplete
	closesBefore := tc.closes.Load()
	// cancelling every context after its call returned must not affect the connection
	post := "skip"
	if allNil && in.Int("cl") < 0 && complete {
		for _, c := range cancels {
			c()
		}
		time.Sleep(3 * time.Millisecond)
		post = "ok"
		if n := tc.closes.Load(); n != closesBefore {
			post = "fail:closed-after-cancel"
		} else {
			msg := []byte("post")
			if _, err := u.Write(msg); err != nil {
				post = "fail:write-" + errClass(err)
			} else {
				buf := make([]byte, len(msg))
				// a reader that never ran leaves the writer's echo in the stream: skip over it
				if in.Int("wr") >= 0 && in.Int("rd") < 0 {
					io.ReadFull(u, make([]byte, len(payload)))
				}
				if _, err := io.ReadFull(u, buf); err != nil {
					post = "fail:read-" + errClass(err)
				} else if !bytes.Equal(buf, msg) {
					post = "fail:echo"
				}
			}
		}
	}
	for _, c := range cancels {
		c()
	}
	u.Close()
	<-sDone
	return fmt.Sprintf("hang=0 r=%s ccl=%s cs=%s complete=%v closes=%d wrr=%s rdr=%s clr=%s post=%s",
		strings.Join(rs, ","), strings.Join(ccl, ","), strings.Join(css, ","), complete, closesBefore, wrRes, rdRes, clRes, post)
}

func sanitizeOr(s string) string {
	if s == "" {
		return "-"
	}
	return sanitize(s)
}

func init() {
	register(&Family{Name: "c26_conc", Gen: c26Gen, Exec: c26Exec, Timeout: 15 * time.Second})
}

// ---- c26_race ----

var (
	raceOnce sync.Once
	raceBin  string
	raceErr  string
)

// buildRaceBinary builds harness/bin/corr-race (`go build -race -tags verif`) from the same
// sources and the same utls working tree as this binary (incremental through the Go build cache).
func buildRaceBinary() {
	exe, err := os.Executable()
	if err != nil {
		raceErr = err.Error()
		return
	}
	bin := filepath.Dir(exe)
	harn := filepath.Dir(bin)
	out := filepath.Join(bin, "corr-race")
	args := []string{"build", "-race", "-tags", "verif", "-o", out}
	repo := os.Getenv("VERIF_REPO")
	if repo == "" {
		repo = "/repo"
	}
	if rp, err := filepath.EvalSymlinks(repo); err == nil && rp != "/repo" {
		if _, err := os.Stat(filepath.Join(harn, "go.scratch.mod")); err == nil {
			args = append(args, "-modfile=go.scratch.mod")
		}
	}
	args = append(args, "./cmd/corr")
	cmd := exec.Command("go", args...)
	cmd.Dir = harn
	cmd.Env = append(os.Environ(), "GOFLAGS=-mod=mod", "GOPROXY=off", "CGO_ENABLED=1")
	if b, err := cmd.CombinedOutput(); err != nil {
		raceErr = "race-build-failed:" + err.Error() + ":" + string(b)
		return
	}
	raceBin = out
}

// raceChild is one long-lived `corr-race exec` process: input lines in, one output line per case
// out; everything it prints on stderr (race reports appear there while a case runs) is collected.
type raceChild struct {
	cmd    *exec.Cmd
	stdin  io.WriteCloser
	lines  chan string
	mu     sync.Mutex
	stderr bytes.Buffer
}

var theRaceChild *raceChild

func startRaceChild() (*raceChild, error) {
	cmd := exec.Command(raceBin, "exec")
	cmd.Env = append(os.Environ(), "GORACE=halt_on_error=0 exitcode=0")
	stdin, err := cmd.StdinPipe()
	if err != nil {
		return nil, err
	}
	stdout, err := cmd.StdoutPipe()
	if err != nil {
		return nil, err
	}
	errPipe, err := cmd.StderrPipe()
	if err != nil {
		return nil, err
	}
	if err := cmd.Start(); err != nil {
		return nil, err
	}
	rc := &raceChild{cmd: cmd, stdin: stdin, lines: make(chan string, 4)}
	go func() {
		buf := make([]byte, 1<<16)
		var pending []byte
		for {
			n, err := stdout.Read(buf)
			pending = append(pending, buf[:n]...)
			for {
				k := bytes.IndexByte(pending, '\n')
				if k < 0 {
					break
				}
				rc.lines <- string(pending[:k])
				pending = pending[k+1:]
			}
			if err != nil {
				close(rc.lines)
				return
			}
		}
	}()
	go func() {
		buf := make([]byte, 1<<16)
		for {
			n, err := errPipe.Read(buf)
			rc.mu.Lock()
			rc.stderr.Write(buf[:n])
			rc.mu.Unlock()
			if err != nil {
				return
			}
		}
	}()
	return rc, nil
}

func (rc *raceChild) takeStderr() string {
	rc.mu.Lock()
	defer rc.mu.Unlock()
	s := rc.stderr.String()
	rc.stderr.Reset()
	return s
}

func c26RaceExec(in KV) string {
	raceOnce.Do(buildRaceBinary)
	if raceBin == "" {
		return "out=infra-" + sanitize(raceErr)
	}
	if theRaceChild == nil {
		rc, err := startRaceChild()
		if err != nil {
			return "out=infra-race-child-" + sanitize(err.Error())
		}
		theRaceChild = rc
	}
	rc := theRaceChild
	// re-render the input line for the c26_conc family of the race binary
	keys := []string{"id", "srv", "k", "ctx", "start", "cut", "wr", "rd", "cl", "sdelay"}
	line := "c26_conc"
	for _, k := range keys {
		line += " " + k + "=" + in[k]
	}
	if _, err := io.WriteString(rc.stdin, line+"\n"); err != nil {
		theRaceChild = nil
		return "out=infra-race-child-" + sanitize(err.Error()+rc.takeStderr())
	}
	var res string
	select {
	case l, ok := <-rc.lines:
		if !ok {
			theRaceChild = nil
			return "out=infra-race-child-died-" + sanitize(rc.takeStderr())
		}
		res = l
	case <-time.After(60 * time.Second):
		rc.cmd.Process.Kill()
		theRaceChild = nil
		return "hang=1"
	}
	time.Sleep(5 * time.Millisecond) // let a report that is being printed reach the pipe
	se := rc.takeStderr()
	if i := strings.Index(res, " => "); i >= 0 {
		res = res[i+4:]
	} else {
		return "out=infra-race-binary-" + sanitize(res)
	}
	race := 0
	rep := "-"
	if strings.Contains(se, "WARNING: DATA RACE") {
		race = 1
		rep = raceSummary(se)
	}
	return fmt.Sprintf("race=%d rep=%s %s", race, rep, res)
}

// raceSummary keeps the function names of the two conflicting accesses (no addresses).
func raceSummary(report string) string {
	var fns []string
	lines := strings.Split(report, "\n")
	for i, l := range lines {
		l = strings.TrimSpace(l)
		if (strings.HasPrefix(l, "Write at") || strings.HasPrefix(l, "Read at") || strings.HasPrefix(l, "Previous write at") || strings.HasPrefix(l, "Previous read at")) && i+1 < len(lines) {
			kind := strings.Fields(l)[0]
			if kind == "Previous" {
				kind = "prev-" + strings.Fields(l)[1]
			}
			fn := strings.TrimSpace(lines[i+1])
			if j := strings.LastIndex(fn, "("); j > 0 {
				fn = fn[:j]
			}
			file := ""
			if i+2 < len(lines) {
				f := strings.Fields(strings.TrimSpace(lines[i+2]))
				if len(f) > 0 {
					file = filepath.Base(f[0])
				}
			}
			fns = append(fns, strings.ToLower(kind)+":"+fn+"@"+file)
		}
		if len(fns) >= 2 {
			break
		}
	}
	s := strings.Join(fns, "|")
	s = strings.Map(func(r rune) rune {
		if r == ' ' || r == '\t' || r == '=' || r == ',' {
			return '_'
		}
		return r
	}, s)
	if s == "" {
		s = "unparsed-report"
	}
	if len(s) > 300 {
		s = s[:300]
	}
	return s
}

func init() {
	register(&Family{Name: "c26_race", Gen: c26Gen, Exec: c26RaceExec, Timeout: 20 * time.Minute})
}
