package main

// C26 (follow-up) — c26_wclose: after a completed handshake a Write is blocked in the transport
// (the peer stopped reading, small socket buffers, a large write) and Close / CloseWrite is called
// from another goroutine, with and without a write deadline.  Every call must return within the
// harness deadline: Close must not queue behind the in-flight Write (it closes the transport, which
// breaks the Write).  Also re-extracts the activeCall skeletons of Write and Close for c26_shape.

import (
	"fmt"
	"net"
	"path/filepath"
	"sync/atomic"
	"time"

	tls "github.com/refraction-networking/utls"

	"verif/harness/internal/lockshape"
)

func c26ShapeExec(in KV) string {
	switch in["fn"] {
	case "Write":
		ss, err := lockshape.ExtractWrite(filepath.Dir(lockshape.SourceFile()))
		if err != nil {
			return "err=" + sanitize(err.Error())
		}
		return "prog=" + lockshape.Tokens(ss)
	case "Close":
		ss, err := lockshape.ExtractClose(filepath.Dir(lockshape.SourceFile()))
		if err != nil {
			return "err=" + sanitize(err.Error())
		}
		return "prog=" + lockshape.Tokens(ss)
	}
	ss, err := lockshape.Extract(lockshape.SourceFile(), "UConn", in["fn"])
	if err != nil {
		return "err=" + sanitize(err.Error())
	}
	return "prog=" + lockshape.Tokens(ss)
}

type countConn struct {
	net.Conn
	written atomic.Int64
	closes  atomic.Int32
}

func (c *countConn) Write(b []byte) (int, error) {
	n, err := c.Conn.Write(b)
	c.written.Add(int64(n))
	return n, err
}

func (c *countConn) Close() error {
	c.closes.Add(1)
	return c.Conn.Close()
}

const c26HangAfter = 7 * time.Second // > closeNotify's own 5 s write deadline

func c26WCloseGen(r *Rng, i int, tier string) string {
	ids := []tls.ClientHelloID{tls.HelloChrome_133, tls.HelloGolang, tls.HelloFirefox_120, tls.HelloIOS_14, tls.HelloChrome_100}
	// Close while the Write is in flight: without any write deadline (even i) and with one that is
	// far away (odd i).  (CloseWrite, and Close after the Write timed out, take c.out by design and are
	// bounded by closeNotify's own 5 s write deadline; they are accepted by Exec but not generated.)
	op, wdl := "close", -1
	if i%2 == 1 {
		wdl = 1500 + r.Intn(1000)
	}
	cdelay := r.Intn(40)
	return fmt.Sprintf("id=%s op=%s size=%d wdl=%d cdelay=%d", idName(ids[i%len(ids)]), op, (2+r.Intn(14))<<20, wdl, cdelay)
}

func c26WCloseExec(in KV) string {
	id, ok := idByName(in["id"])
	if !ok {
		panic("c26: unknown id " + in["id"])
	}
	cRaw, sRaw, err := tcpPair()
	if err != nil {
		return "out=infra-" + sanitize(err.Error())
	}
	defer cRaw.Close()
	defer sRaw.Close()
	if tc, ok := cRaw.(*net.TCPConn); ok {
		tc.SetWriteBuffer(4096)
	}
	if tc, ok := sRaw.(*net.TCPConn); ok {
		tc.SetReadBuffer(4096)
	}
	hsDl := time.Now().Add(8 * time.Second)
	cRaw.SetDeadline(hsDl)
	sRaw.SetDeadline(hsDl)
	release := make(chan struct{})
	defer close(release)
	sErr := make(chan error, 1)
	go func() {
		srv := tls.Server(sRaw, defaultServerCfg(nil))
		sErr <- srv.Handshake()
		<-release // stop reading: the client's writes run into back-pressure
	}()
	cc := &countConn{Conn: cRaw}
	u := tls.UClient(cc, defaultClientCfg(nil), id)
	if err := u.Handshake(); err != nil {
		return "hs=" + errClass(err)
	}
	if err := <-sErr; err != nil {
		return "hs=server-" + errClass(err)
	}
	cRaw.SetDeadline(time.Time{}) // no I/O deadline from here on, unless wdl says so
	wdl := in.Int("wdl")
	if wdl >= 0 {
		cRaw.SetWriteDeadline(time.Now().Add(time.Duration(wdl) * time.Millisecond))
	}
	type wres struct {
		n   int
		err error
		p   string
	}
	size := in.Int("size")
	wdone := make(chan wres, 1)
	go func() {
		defer func() {
			if p := recover(); p != nil {
				wdone <- wres{p: sanitize(fmt.Sprint(p))}
			}
		}()
		n, err := u.Write(make([]byte, size))
		wdone <- wres{n: n, err: err}
	}()
	// wait until the writer made progress and then stalled (or already returned: deadline)
	stalled := 0
	var early *wres
	base := cc.written.Load()
	last, lastChange := base, time.Now()
	limit := time.Now().Add(3 * time.Second)
wait:
	for time.Now().Before(limit) {
		select {
		case r := <-wdone:
			early = &r
			break wait
		default:
		}
		cur := cc.written.Load()
		if cur != last {
			last, lastChange = cur, time.Now()
		} else if cur > base && time.Since(lastChange) > 60*time.Millisecond {
			stalled = 1
			break
		}
		time.Sleep(5 * time.Millisecond)
	}
	time.Sleep(time.Duration(in.Int("cdelay")) * time.Millisecond)
	cdone := make(chan string, 1)
	go func() {
		defer func() {
			if p := recover(); p != nil {
				cdone <- "panic:" + sanitize(fmt.Sprint(p))
			}
		}()
		if in["op"] == "closewrite" {
			cdone <- errClass(u.CloseWrite())
		} else {
			cdone <- errClass(u.Close())
		}
	}()
	cRes, wRes, wn := "hang", "hang", "-"
	hangAt := time.After(c26HangAfter)
	select {
	case cRes = <-cdone:
	case <-hangAt:
	}
	if early == nil {
		select {
		case r := <-wdone:
			early = &r
		case <-hangAt:
		case <-time.After(c26HangAfter / 2):
		}
	}
	if early != nil {
		switch {
		case early.p != "":
			wRes = "panic:" + early.p
		default:
			wRes = errClass(early.err)
		}
		switch {
		case early.n == 0:
			wn = "0"
		case early.n < size:
			wn = "partial"
		default:
			wn = "full"
		}
	}
	// release whatever is still stuck
	cRaw.Close()
	return fmt.Sprintf("hs=ok stalled=%d c=%s w=%s wn=%s closes=%d", stalled, cRes, wRes, wn, cc.closes.Load())
}

func init() {
	register(&Family{Name: "c26_wclose", Gen: c26WCloseGen, Exec: c26WCloseExec, Timeout: 30 * time.Second})
}
