// C27 — forged connections from shared secrets interoperate (MakeConnWithCompleteHandshake).
//
// Families:
//
//	forge_nil   weak ver side ids            => conn=<ids> panic=<ids>   (every other id: nil)
//	forge       weak id ver ms cr sr msgs dseed
//	            => c= s= cin= cout= sin= sout= cmeta= smeta= recs= res=
//	forge_real  id ver msgs dseed            => hs= s= recs= res=
//
// EnableWeakCiphers mutates package state for the rest of the process, so a process never
// switches: a process started with VERIF_C27_WEAK=1 calls EnableWeakCiphers once in init()
// and serves weak=1 cases; any other process serves weak=0 cases. A case whose `weak` field
// does not match the state of the process that is asked to execute it is forwarded to a
// persistent child `corr exec` running in the other state (one child per process, started
// lazily, exits when the parent's pipe closes). The same holds for `corr exec` (corpus,
// replay), so every line reproduces in isolation whatever ran before it.
package main

import (
	"bufio"
	"bytes"
	"fmt"
	"io"
	"net"
	"os"
	"os/exec"
	"sort"
	"strconv"
	"strings"
	"sync"
	"time"

	tls "github.com/refraction-networking/utls"
)

var c27WeakProcess = os.Getenv("VERIF_C27_WEAK") == "1"

// ---- child in the other EnableWeakCiphers state ----

type c27ChildT struct {
	mu  sync.Mutex
	cmd *exec.Cmd
	in  io.WriteCloser
	out *bufio.Reader
}

var c27Child c27ChildT

func c27Forward(fam string, in KV) string {
	c27Child.mu.Lock()
	defer c27Child.mu.Unlock()
	if c27Child.cmd == nil {
		self, err := os.Executable()
		if err != nil {
			return "out=child-error msg=" + sanitize(err.Error())
		}
		cmd := exec.Command(self, "exec")
		v := "1"
		if c27WeakProcess {
			v = "0"
		}
		var env []string
		for _, e := range os.Environ() {
			if !strings.HasPrefix(e, "VERIF_C27_WEAK=") {
				env = append(env, e)
			}
		}
		cmd.Env = append(env, "VERIF_C27_WEAK="+v)
		cmd.Stderr = os.Stderr
		w, err1 := cmd.StdinPipe()
		r, err2 := cmd.StdoutPipe()
		if err1 != nil || err2 != nil {
			return "out=child-error msg=pipe"
		}
		if err := cmd.Start(); err != nil {
			return "out=child-error msg=" + sanitize(err.Error())
		}
		c27Child.cmd, c27Child.in, c27Child.out = cmd, w, bufio.NewReaderSize(r, 1<<20)
	}
	keys := make([]string, 0, len(in))
	for k := range in {
		keys = append(keys, k)
	}
	sort.Strings(keys)
	var sb strings.Builder
	sb.WriteString(fam)
	for _, k := range keys {
		sb.WriteString(" " + k + "=" + in[k])
	}
	sb.WriteString("\n")
	reset := func() { // a dead child is replaced on the next forwarded case
		c27Child.in.Close()
		c27Child.cmd.Process.Kill()
		c27Child.cmd.Wait()
		c27Child.cmd = nil
	}
	if _, err := io.WriteString(c27Child.in, sb.String()); err != nil {
		reset()
		return "out=child-error msg=" + sanitize(err.Error())
	}
	line, err := c27Child.out.ReadString('\n')
	if err != nil {
		reset()
		return "out=child-error msg=" + sanitize(err.Error())
	}
	if i := strings.Index(line, " => "); i >= 0 {
		return strings.TrimSpace(line[i+4:])
	}
	return "out=child-error msg=no-arrow"
}

// c27Dispatch runs f here if this process is in the EnableWeakCiphers state the case asks for,
// else in the child.
func c27Dispatch(fam string, f func(KV) string) func(KV) string {
	return func(in KV) string {
		if (in["weak"] == "1") != c27WeakProcess {
			return c27Forward(fam, in)
		}
		return f(in)
	}
}

// ---- helpers ----

var (
	c27RowsOnce sync.Once
	c27Rows     map[uint16]tls.VerifSuiteRow
	c27RowList  []tls.VerifSuiteRow
)

func c27Table() map[uint16]tls.VerifSuiteRow {
	c27RowsOnce.Do(func() {
		c27Rows = map[uint16]tls.VerifSuiteRow{}
		c27RowList = tls.VerifSuiteTable("supported")
		for _, r := range c27RowList {
			if _, dup := c27Rows[r.ID]; !dup {
				c27Rows[r.ID] = r
			}
		}
	})
	return c27Rows
}

func c27Make(conn net.Conn, ver, id uint16, ms, cr, sr []byte, isClient bool) (c *tls.Conn, outcome string) {
	defer func() {
		if p := recover(); p != nil {
			c, outcome = nil, "panic"
		}
	}()
	c = tls.MakeConnWithCompleteHandshake(conn, ver, id, ms, cr, sr, isClient)
	if c == nil {
		return nil, "nil"
	}
	return c, "conn"
}

func c27Half(h tls.VerifHalfConnInfo, id uint16) string {
	flag := "other"
	row, ok := c27Table()[id]
	switch {
	case h.CipherType == "<nil>":
		flag = "nil"
	case ok && h.CipherType == row.EncType && h.CipherType == row.DecType:
		flag = "rw"
	case ok && h.CipherType == row.DecType:
		flag = "r"
	case ok && h.CipherType == row.EncType:
		flag = "w"
	case ok && row.Kind == "aead":
		flag = "aead"
	}
	b := func(x bool) int {
		if x {
			return 1
		}
		return 0
	}
	return fmt.Sprintf("%d/%s/%d/%d/%d", h.Seq, flag, b(h.HasMac), h.Version, b(h.HasNext))
}

func c27Meta(i tls.VerifConnInfo) string {
	b := func(x bool) int {
		if x {
			return 1
		}
		return 0
	}
	return fmt.Sprintf("%d/%d/%d/%d/%d", i.Vers, i.Suite, b(i.HaveVers), b(i.HandshakeComplete), b(i.IsClient))
}

type c27Msg struct {
	fromClient bool
	size       int
}

func c27ParseMsgs(s string) []c27Msg {
	var out []c27Msg
	for _, t := range splitList(s) {
		p := strings.SplitN(t, ":", 2)
		if len(p) != 2 || (p[0] != "c" && p[0] != "s") {
			panic("bad msgs " + s)
		}
		n, err := strconv.Atoi(p[1])
		if err != nil || n < 0 {
			panic("bad msgs " + s)
		}
		out = append(out, c27Msg{p[0] == "c", n})
	}
	return out
}

func c27Payload(dseed uint64, k, n int) []byte {
	return NewRng(dseed*1000003 + uint64(k)*7919 + 17).Bytes(n)
}

// c27Exchange sends msgs over the connected pair (cw/sw: the TLS ends; crec/srec: recording
// wrappers of the transports), reports the record length fields per message and the outcome.
func c27Exchange(cw, sw *tls.Conn, crec, srec *recConn, msgs []c27Msg, dseed uint64) (recs, res string) {
	var rl []string
	res = "ok"
	for k, m := range msgs {
		w, r, wrec := cw, sw, crec
		tag := "c"
		if !m.fromClient {
			w, r, wrec = sw, cw, srec
			tag = "s"
		}
		payload := c27Payload(dseed, k, m.size)
		mark := len(wrec.Written())
		werr := make(chan error, 1)
		go func() {
			// a panic in this goroutine would take the whole harness process down
			defer func() {
				if p := recover(); p != nil {
					werr <- fmt.Errorf("panic: %v", p)
				}
			}()
			_, err := w.Write(payload)
			werr <- err
		}()
		var rerr error
		buf := make([]byte, m.size)
		if m.size > 0 {
			func() {
				defer func() {
					if p := recover(); p != nil {
						rerr = fmt.Errorf("panic: %v", p)
					}
				}()
				_, rerr = io.ReadFull(r, buf)
			}()
		}
		var we error
		select {
		case we = <-werr:
		case <-time.After(20 * time.Second):
			we = fmt.Errorf("write stuck")
		}
		var ls []string
		for _, rec := range splitRecords(wrec.Written()[mark:]) {
			ls = append(ls, strconv.Itoa(len(rec.Payload)))
		}
		if len(ls) == 0 {
			rl = append(rl, tag+":-")
		} else {
			rl = append(rl, tag+":"+strings.Join(ls, "+"))
		}
		switch {
		case we != nil:
			res = fmt.Sprintf("fail:%d:write:%s", k, errClass(we))
		case rerr != nil:
			res = fmt.Sprintf("fail:%d:read:%s", k, errClass(rerr))
		case !bytes.Equal(buf, payload):
			res = fmt.Sprintf("fail:%d:mismatch", k)
		}
		if res != "ok" {
			break
		}
	}
	return joinList(rl), res
}

func c27PairConns() (*recConn, *recConn, func(), error) {
	a, b, err := tcpPair()
	if err != nil {
		return nil, nil, nil, err
	}
	dl := time.Now().Add(25 * time.Second)
	a.SetDeadline(dl)
	b.SetDeadline(dl)
	return &recConn{Conn: a}, &recConn{Conn: b}, func() { a.Close(); b.Close() }, nil
}

func execForge(in KV) string {
	id, ver := uint16(in.U64("id")), uint16(in.U64("ver"))
	ms, cr, sr := in.Bytes("ms"), in.Bytes("cr"), in.Bytes("sr")
	msgs := c27ParseMsgs(in["msgs"])
	crec, srec, closeFn, err := c27PairConns()
	if err != nil {
		return "out=infra msg=" + sanitize(err.Error())
	}
	defer closeFn()
	c, co := c27Make(crec, ver, id, ms, cr, sr, true)
	s, so := c27Make(srec, ver, id, ms, cr, sr, false)
	out := fmt.Sprintf("c=%s s=%s", co, so)
	desc := func(x *tls.Conn, p string) string {
		if x == nil {
			return fmt.Sprintf(" %sin=- %sout=- %smeta=-", p, p, p)
		}
		i := tls.VerifForgeInfo(x)
		return fmt.Sprintf(" %sin=%s %sout=%s %smeta=%s", p, c27Half(i.In, id), p, c27Half(i.Out, id), p, c27Meta(i))
	}
	out += desc(c, "c") + desc(s, "s")
	if c == nil || s == nil {
		return out + " recs=- res=skip"
	}
	recs, res := c27Exchange(c, s, crec, srec, msgs, in.U64("dseed"))
	return out + " recs=" + recs + " res=" + res
}

func execForgeNil(in KV) string {
	ver := uint16(in.U64("ver"))
	isClient := in["side"] == "c"
	ms, cr, sr := bytes.Repeat([]byte{0x5a}, 48), bytes.Repeat([]byte{0xc1}, 32), bytes.Repeat([]byte{0x5e}, 32)
	var ids []uint64
	if lo, ok := in["lo"]; ok {
		l, _ := strconv.ParseUint(lo, 10, 64)
		for i := uint64(0); i < in.U64("n"); i++ {
			ids = append(ids, l+i)
		}
	} else {
		ids = parseU64s(in["ids"])
	}
	var conns, panics []uint64
	for _, id := range ids {
		_, o := c27Make(nil, ver, uint16(id), ms, cr, sr, isClient)
		switch o {
		case "conn":
			conns = append(conns, id)
		case "panic":
			panics = append(panics, id)
		}
	}
	return "conn=" + u64s(conns) + " panic=" + u64s(panics)
}

// ---- forge_real: a forged server end against a client that completed a real handshake ----

// c27KeyLog captures the TLS 1.2 master secret from Config.KeyLogWriter ("CLIENT_RANDOM <cr> <ms>").
type c27KeyLog struct {
	mu  sync.Mutex
	buf bytes.Buffer
}

func (k *c27KeyLog) Write(p []byte) (int, error) {
	k.mu.Lock()
	defer k.mu.Unlock()
	return k.buf.Write(p)
}

func (k *c27KeyLog) master() []byte {
	k.mu.Lock()
	defer k.mu.Unlock()
	for _, l := range strings.Split(k.buf.String(), "\n") {
		f := strings.Fields(l)
		if len(f) == 3 && f[0] == "CLIENT_RANDOM" {
			return unhex(f[2])
		}
	}
	return nil
}

// execForgeReal: a real utls client (HelloGolang spec, public API only) handshakes with a real
// server over TCP restricted to one suite and version; the server end is then replaced by
// MakeConnWithCompleteHandshake(isClient=false) built from the logged master secret and the
// randoms the client exposes, and data is exchanged between the real client and the forged server.
func execForgeReal(in KV) string {
	id, ver := uint16(in.U64("id")), uint16(in.U64("ver"))
	msgs := c27ParseMsgs(in["msgs"])
	crec, srec, closeFn, err := c27PairConns()
	if err != nil {
		return "out=infra msg=" + sanitize(err.Error())
	}
	defer closeFn()
	kl := &c27KeyLog{}
	scfg := defaultServerCfg(&tls.Config{MinVersion: ver, MaxVersion: ver, CipherSuites: []uint16{id}, SessionTicketsDisabled: true})
	ccfg := defaultClientCfg(&tls.Config{MinVersion: ver, MaxVersion: ver, CipherSuites: []uint16{id}, KeyLogWriter: kl, ServerName: kitNames[0]})
	srv := tls.Server(srec, scfg)
	herr := make(chan error, 1)
	go func() { herr <- srv.Handshake() }()
	uc := tls.UClient(crec, ccfg, tls.HelloGolang)
	cerr := uc.Handshake()
	serr := <-herr
	if cerr != nil || serr != nil {
		return fmt.Sprintf("hs=fail:%s/%s s=- recs=- res=skip", errClass(cerr), errClass(serr))
	}
	st := uc.ConnectionState()
	if st.CipherSuite != id || st.Version != ver {
		return fmt.Sprintf("hs=other:%d/%d s=- recs=- res=skip", st.CipherSuite, st.Version)
	}
	ms := kl.master()
	crand, srand := uc.HandshakeState.Hello.Random, uc.HandshakeState.ServerHello.Random
	if len(ms) == 0 || len(crand) != 32 || len(srand) != 32 {
		return "hs=nosecrets s=- recs=- res=skip"
	}
	// forge the server end on the same transport; the real server object is abandoned
	fs, so := c27Make(srec, ver, id, ms, crand, srand, false)
	if fs == nil {
		return "hs=ok cbytes=0 s=" + so + " recs=- res=skip"
	}
	// only the data records: the recorders already hold the handshake
	cbytes := len(crec.Written())
	recs, res := c27Exchange(uc.Conn, fs, crec, srec, msgs, in.U64("dseed"))
	return fmt.Sprintf("hs=ok cbytes=%d s=%s recs=%s res=%s", cbytes, so, recs, res)
}

// ---- generators ----

var c27Versions = []uint16{tls.VersionTLS10, tls.VersionTLS11, tls.VersionTLS12}
var c27BadVersions = []uint16{0x0300, tls.VersionTLS13, 0, 0xffff, 0x0305, 0x0203, 0x7f1c}

// ids that matter besides the table in force: the weak and legacy code points, TLS 1.3 suites,
// FAKE_* ids of parrots, GREASE, SCSVs, boundaries.
func c27InterestingIDs() []uint16 {
	ids := []uint16{tls.DISABLED_TLS_RSA_WITH_AES_256_CBC_SHA256, tls.DISABLED_TLS_ECDHE_ECDSA_WITH_AES_256_CBC_SHA384,
		tls.DISABLED_TLS_ECDHE_RSA_WITH_AES_256_CBC_SHA384, tls.OLD_TLS_ECDHE_RSA_WITH_CHACHA20_POLY1305_SHA256,
		tls.OLD_TLS_ECDHE_ECDSA_WITH_CHACHA20_POLY1305_SHA256, tls.FAKE_OLD_TLS_DHE_RSA_WITH_CHACHA20_POLY1305_SHA256,
		tls.FAKE_TLS_DHE_RSA_WITH_AES_128_GCM_SHA256, tls.FAKE_TLS_DHE_RSA_WITH_AES_128_CBC_SHA, tls.FAKE_TLS_RSA_WITH_RC4_128_MD5,
		tls.FAKE_TLS_EMPTY_RENEGOTIATION_INFO_SCSV, tls.FAKE_TLS_ECDHE_ECDSA_WITH_3DES_EDE_CBC_SHA, tls.TLS_FALLBACK_SCSV,
		0x0000, 0x0001, 0x00fe, 0x0100, 0x0a0a, 0xfafa, 0x7fff, 0x8000, 0xfffe, 0xffff}
	ids = append(ids, tls.VerifSuiteIDsTLS13()...)
	return ids
}

func c27Universe() []uint16 {
	seen := map[uint16]bool{}
	var out []uint16
	add := func(x uint16) {
		if !seen[x] {
			seen[x] = true
			out = append(out, x)
		}
	}
	c27Table()
	for _, r := range c27RowList {
		add(r.ID)
	}
	for _, x := range c27InterestingIDs() {
		add(x)
	}
	return out
}

var c27Sizes = []int{0, 1, 2, 3, 7, 8, 9, 11, 12, 15, 16, 17, 19, 20, 27, 28, 31, 32, 33, 47, 48, 63, 64, 65, 100, 255, 256, 257,
	1000, 1100, 1130, 1150, 1151, 1152, 1155, 1160, 1163, 1164, 1167, 1168, 1170, 1171, 1175, 1178, 1179, 1180, 1183, 1184, 1187, 1188, 1200, 1203, 1208, 1500,
	2300, 2400, 3500, 5000, 16383, 16384, 16385, 20000, 33000}

func c27GenMsgs(r *Rng, tier string) string {
	n := 1 + r.Intn(6)
	var ms []string
	first := r.Bool()
	for k := 0; k < n; k++ {
		fromClient := r.Bool()
		if k == 0 {
			fromClient = first
		} else if k == 1 {
			fromClient = !first
		}
		var sz int
		switch x := r.Intn(100); {
		case x < 55:
			sz = Pick(r, c27Sizes)
		case x < 90:
			sz = r.Intn(3000)
		case x < 98:
			sz = r.Intn(40000)
		default:
			sz = 131072 + r.Intn(20000) // crosses recordSizeBoostThreshold
		}
		d := "s"
		if fromClient {
			d = "c"
		}
		ms = append(ms, fmt.Sprintf("%s:%d", d, sz))
	}
	return strings.Join(ms, ",")
}

func c27GenSecrets(r *Rng) string {
	ml, cl, sl := 48, 32, 32
	if r.Intn(10) == 0 {
		ml = Pick(r, []int{0, 1, 47, 49, 64, 128})
		cl = Pick(r, []int{0, 31, 32, 33})
		sl = Pick(r, []int{0, 31, 32, 33})
	}
	return fmt.Sprintf("ms=%s cr=%s sr=%s", hx(r.Bytes(ml)), hx(r.Bytes(cl)), hx(r.Bytes(sl)))
}

func init() {
	if c27WeakProcess {
		tls.EnableWeakCiphers()
	}

	register(&Family{
		Name:    "forge",
		Timeout: 90 * time.Second,
		Gen: func(r *Rng, i int, tier string) string {
			uni := c27Universe()
			grid := 2 * len(uni) * len(c27Versions)
			var weak int
			var id, ver uint16
			if i < grid {
				// systematic: both EnableWeakCiphers states x every id of the universe x TLS 1.0-1.2
				weak = i % 2
				id = uni[(i/2)%len(uni)]
				ver = c27Versions[(i/2/len(uni))%len(c27Versions)]
			} else {
				weak = r.Intn(2)
				if r.Intn(8) == 0 {
					id = uint16(r.U64())
				} else {
					id = Pick(r, uni)
				}
				if r.Intn(12) == 0 {
					ver = Pick(r, c27BadVersions)
				} else {
					ver = Pick(r, c27Versions)
				}
			}
			return fmt.Sprintf("weak=%d id=%d ver=%d %s msgs=%s dseed=%d", weak, id, ver, c27GenSecrets(r), c27GenMsgs(r, tier), r.U64()%1000000)
		},
		Exec: c27Dispatch("forge", execForge),
	})

	register(&Family{
		Name:    "forge_nil",
		Timeout: 90 * time.Second,
		Gen: func(r *Rng, i int, tier string) string {
			side := []string{"c", "s"}[i%2]
			weak := (i / 2) % 2
			if tier == "thorough" {
				// phase A, exhaustive: 256 blocks of 256 ids x both states x both sides; TLS 1.0/1.1/1.2
				// rotate over the blocks, every fourth block gets a version outside 1.0-1.2
				blk := i / 4
				if blk < 256 {
					ver := c27Versions[blk%3]
					if blk%4 == 3 {
						ver = c27BadVersions[(blk/4)%len(c27BadVersions)]
					}
					return fmt.Sprintf("weak=%d ver=%d side=%s lo=%d n=256", weak, ver, side, blk*256)
				}
				// phase B: every block that contains an id of the universe (table, weak, legacy,
				// TLS 1.3, FAKE, GREASE, boundaries) x every version (valid and not) x states x sides
				var hit []int
				seen := map[int]bool{}
				for _, x := range c27Universe() {
					if b := int(x >> 8); !seen[b] {
						seen[b] = true
						hit = append(hit, b)
					}
				}
				sort.Ints(hit)
				vs := append(append([]uint16{}, c27Versions...), c27BadVersions...)
				j := blk - 256
				if j >= len(hit)*len(vs) {
					return ""
				}
				return fmt.Sprintf("weak=%d ver=%d side=%s lo=%d n=256", weak, vs[j%len(vs)], side, hit[j/len(vs)]*256)
			}
			// quick: every id of the universe with its neighbours, then boundary-biased samples
			uni := c27Universe()
			var ids []uint64
			ver := c27Versions[(i/4)%3]
			if i < 12 {
				for _, x := range uni {
					ids = append(ids, uint64(x))
					ids = append(ids, uint64(x-1), uint64(x+1))
				}
			} else {
				if r.Intn(5) == 0 {
					ver = Pick(r, c27BadVersions)
				}
				for k := 0; k < 96; k++ {
					switch r.Intn(4) {
					case 0:
						ids = append(ids, uint64(Pick(r, uni)))
					case 1:
						ids = append(ids, uint64(Pick(r, uni)+uint16(r.Intn(5))-2))
					case 2:
						ids = append(ids, uint64(Pick(r, []uint16{0x00, 0xc0, 0xcc, 0x13, 0xff}))<<8|uint64(r.Intn(256)))
					default:
						ids = append(ids, r.U64()&0xffff)
					}
				}
			}
			return fmt.Sprintf("weak=%d ver=%d side=%s ids=%s", weak, ver, side, u64s(ids))
		},
		Exec: c27Dispatch("forge_nil", execForgeNil),
	})

	register(&Family{
		Name:    "forge_real",
		Timeout: 90 * time.Second,
		Gen: func(r *Rng, i int, tier string) string {
			// every suite of the table in force, at a version it is valid for (a handshake the
			// stock client/server pair cannot complete, e.g. the legacy ChaCha20 code points, is
			// reported as hs=fail and skipped by the driver)
			c27Table()
			row := c27RowList[i%len(c27RowList)]
			ver := c27Versions[(i/len(c27RowList))%3]
			if i >= 3*len(c27RowList) {
				row, ver = Pick(r, c27RowList), Pick(r, c27Versions)
			}
			if row.TLS12Only {
				ver = tls.VersionTLS12
			}
			id := row.ID
			return fmt.Sprintf("id=%d ver=%d msgs=%s dseed=%d", id, ver, c27GenMsgs(r, tier), r.U64()%1000000)
		},
		Exec: execForgeReal,
	})
}
