// C27 — family forge_poll: a forged pair whose reader polls with short read deadlines while the
// writer's transport delivers every record in two pieces, the second only after a deadline has
// expired at the reader with the first piece consumed (so the timeout hits inside a header or
// inside a record body, as chosen by `cut`). Both directions, all cipher kinds.
//
//	forge_poll weak id ver ms cr sr msgs dseed cut  => c= s= recs= splits= res=
//
// The outcome does not depend on timing: the second piece is gated on an *observed* timeout at the
// reader (sampled together with the number of transport bytes the TLS layer had consumed), not on a
// sleep. A read half that no longer touches its transport (every Read returns a stored timeout) is
// recognised after 25 consecutive such Reads.
package main

import (
	"bytes"
	"errors"
	"fmt"
	"net"
	"strconv"
	"strings"
	"sync"
	"sync/atomic"
	"time"

	tls "github.com/refraction-networking/utls"
)

const (
	c27PollDeadline  = 4 * time.Millisecond
	c27PollSplitsMax = 2 // records split per message
)

// c27PollEnd wraps one end's transport: counts what the TLS layer reads from it, and delivers
// the first c27PollSplitsMax records of every message in two pieces.
type c27PollEnd struct {
	*recConn
	readBytes atomic.Int64
	readCalls atomic.Int64

	peer *c27PollEnd
	cut  string

	mu       sync.Mutex
	left     int   // records still to split in the current message
	sent     int64 // bytes handed to the transport so far
	splits   int
	gateFail bool

	// highest readBytes sampled right after a Read at this end returned a timeout
	tmu     sync.Mutex
	tmax    int64
	tnotify chan struct{}
}

func (e *c27PollEnd) Read(p []byte) (int, error) {
	e.readCalls.Add(1)
	n, err := e.recConn.Read(p)
	e.readBytes.Add(int64(n))
	return n, err
}

func (e *c27PollEnd) noteTimeout() {
	v := e.readBytes.Load()
	e.tmu.Lock()
	if v > e.tmax {
		e.tmax = v
	}
	e.tmu.Unlock()
	select {
	case e.tnotify <- struct{}{}:
	default:
	}
}

// waitPeerTimeout blocks until the peer's reader has reported a timeout with at least `sent`
// transport bytes consumed.
func (e *c27PollEnd) waitPeerTimeout(sent int64) bool {
	limit := time.After(8 * time.Second)
	for {
		e.peer.tmu.Lock()
		ok := e.peer.tmax >= sent
		e.peer.tmu.Unlock()
		if ok {
			return true
		}
		select {
		case <-e.peer.tnotify:
		case <-time.After(2 * time.Millisecond):
		case <-limit:
			return false
		}
	}
}

func c27CutAt(cut string, l int) int {
	k := l / 2
	switch cut {
	case "h":
		k = 3
	case "e":
		k = 5
	case "b":
		k = 6
	case "l":
		k = l - 1
	}
	if k < 1 {
		k = 1
	}
	if k >= l {
		k = l - 1
	}
	return k
}

// Write: tls.Conn hands the transport exactly one record per call.
func (e *c27PollEnd) Write(p []byte) (int, error) {
	e.mu.Lock()
	split := e.left > 0 && len(p) >= 2
	if split {
		e.left--
	}
	e.mu.Unlock()
	if !split {
		n, err := e.recConn.Write(p)
		e.mu.Lock()
		e.sent += int64(n)
		e.mu.Unlock()
		return n, err
	}
	k := c27CutAt(e.cut, len(p))
	if _, err := e.recConn.Write(p[:k]); err != nil {
		return 0, err
	}
	e.mu.Lock()
	e.sent += int64(k)
	sent := e.sent
	e.mu.Unlock()
	if !e.waitPeerTimeout(sent) {
		e.mu.Lock()
		e.gateFail = true
		e.mu.Unlock()
	}
	if _, err := e.recConn.Write(p[k:]); err != nil {
		return k, err
	}
	e.mu.Lock()
	e.sent += int64(len(p) - k)
	e.splits++
	e.mu.Unlock()
	return len(p), nil
}

func isTimeout(err error) bool {
	var ne net.Error
	return errors.As(err, &ne) && ne.Timeout()
}

// c27PollRead reads n bytes from r by polling with short read deadlines. werr delivers the
// writer's result once it has handed everything to the transport.
func c27PollRead(r *tls.Conn, end *c27PollEnd, n int, werr <-chan error) (got []byte, we error, rerr error) {
	tmp := make([]byte, 32*1024)
	writerDone := false
	idle := 0 // consecutive timeouts, after complete delivery, during which the transport was not read
	start := time.Now()
	for len(got) < n {
		if !writerDone {
			select {
			case we = <-werr:
				writerDone = true
				if we != nil {
					return got, we, nil
				}
			default:
			}
		}
		calls := end.readCalls.Load()
		r.SetReadDeadline(time.Now().Add(c27PollDeadline))
		m, err := r.Read(tmp)
		got = append(got, tmp[:m]...)
		if err != nil {
			if !isTimeout(err) {
				return got, nil, err
			}
			end.noteTimeout()
			// a Read that reports a timeout without having asked the transport for anything is
			// returning a stored error: the read half no longer works (a live one always reads
			// the transport before it can time out)
			if m == 0 && end.readCalls.Load() == calls {
				idle++
				if idle >= 25 {
					return got, nil, fmt.Errorf("read half dead: Read keeps returning a stored timeout without reading the transport")
				}
			} else {
				idle = 0
			}
		}
		if time.Since(start) > 15*time.Second {
			return got, nil, fmt.Errorf("stuck")
		}
	}
	r.SetReadDeadline(time.Now().Add(25 * time.Second))
	if !writerDone {
		select {
		case we = <-werr:
		case <-time.After(10 * time.Second):
			we = fmt.Errorf("write stuck")
		}
	}
	return got, we, nil
}

func execForgePoll(in KV) string {
	id, ver := uint16(in.U64("id")), uint16(in.U64("ver"))
	ms, cr, sr := in.Bytes("ms"), in.Bytes("cr"), in.Bytes("sr")
	msgs := c27ParseMsgs(in["msgs"])
	crec, srec, closeFn, err := c27PairConns()
	if err != nil {
		return "out=infra msg=" + sanitize(err.Error())
	}
	defer closeFn()
	ce := &c27PollEnd{recConn: crec, cut: in["cut"], tnotify: make(chan struct{}, 1)}
	se := &c27PollEnd{recConn: srec, cut: in["cut"], tnotify: make(chan struct{}, 1)}
	ce.peer, se.peer = se, ce
	c, co := c27Make(ce, ver, id, ms, cr, sr, true)
	s, so := c27Make(se, ver, id, ms, cr, sr, false)
	out := fmt.Sprintf("c=%s s=%s", co, so)
	if c == nil || s == nil {
		return out + " recs=- splits=0 res=skip"
	}
	dseed := in.U64("dseed")
	var rl []string
	res := "ok"
	for k, m := range msgs {
		w, r, we, re, tag := c, s, ce, se, "c"
		if !m.fromClient {
			w, r, we, re, tag = s, c, se, ce, "s"
		}
		payload := c27Payload(dseed, k, m.size)
		mark := len(we.Written())
		we.mu.Lock()
		we.left = c27PollSplitsMax
		we.mu.Unlock()
		werr := make(chan error, 1)
		go func() {
			defer func() {
				if p := recover(); p != nil {
					werr <- fmt.Errorf("panic: %v", p)
				}
			}()
			_, err := w.Write(payload)
			werr <- err
		}()
		var got []byte
		var wErr, rErr error
		if m.size > 0 {
			func() {
				defer func() {
					if p := recover(); p != nil {
						rErr = fmt.Errorf("panic: %v", p)
					}
				}()
				got, wErr, rErr = c27PollRead(r, re, m.size, werr)
			}()
		} else {
			wErr = <-werr
		}
		we.mu.Lock()
		we.left = 0
		we.mu.Unlock()
		var ls []string
		for _, rec := range splitRecords(we.Written()[mark:]) {
			ls = append(ls, strconv.Itoa(len(rec.Payload)))
		}
		if len(ls) == 0 {
			rl = append(rl, tag+":-")
		} else {
			rl = append(rl, tag+":"+strings.Join(ls, "+"))
		}
		switch {
		case wErr != nil:
			res = fmt.Sprintf("fail:%d:write:%s", k, errClass(wErr))
		case rErr != nil:
			res = fmt.Sprintf("fail:%d:read:%s", k, errClass(rErr))
		case !bytes.Equal(got, payload):
			res = fmt.Sprintf("fail:%d:mismatch", k)
		}
		if res != "ok" {
			break
		}
	}
	ce.mu.Lock()
	se.mu.Lock()
	splits, gateFail := ce.splits+se.splits, ce.gateFail || se.gateFail
	se.mu.Unlock()
	ce.mu.Unlock()
	if gateFail && res == "ok" {
		return "out=infra msg=no-timeout-observed-at-the-reader-within-8s"
	}
	return fmt.Sprintf("%s recs=%s splits=%d res=%s", out, joinList(rl), splits, res)
}

func init() {
	register(&Family{
		Name:    "forge_poll",
		Timeout: 120 * time.Second,
		Gen: func(r *Rng, i int, tier string) string {
			// one suite of each kind per table state (+ the legacy ChaCha20 and a weak CBC suite),
			// rotating over TLS 1.0-1.2 where valid and over the five cut positions
			type sv struct {
				weak int
				id   uint16
			}
			grid := []sv{
				{0, tls.TLS_ECDHE_RSA_WITH_AES_128_GCM_SHA256}, {0, tls.TLS_ECDHE_RSA_WITH_CHACHA20_POLY1305}, {0, tls.OLD_TLS_ECDHE_RSA_WITH_CHACHA20_POLY1305_SHA256},
				{0, tls.TLS_RSA_WITH_AES_128_CBC_SHA}, {0, tls.TLS_RSA_WITH_3DES_EDE_CBC_SHA}, {0, tls.TLS_RSA_WITH_RC4_128_SHA}, {0, tls.TLS_RSA_WITH_AES_128_CBC_SHA256},
				{1, tls.DISABLED_TLS_ECDHE_RSA_WITH_AES_256_CBC_SHA384}, {1, tls.TLS_RSA_WITH_AES_256_GCM_SHA384}, {1, tls.TLS_ECDHE_ECDSA_WITH_AES_256_CBC_SHA},
				{1, tls.OLD_TLS_ECDHE_ECDSA_WITH_CHACHA20_POLY1305_SHA256}, {0, tls.TLS_AES_128_GCM_SHA256},
			}
			g := grid[i%len(grid)]
			ver := c27Versions[(i/len(grid))%3]
			if row, ok := c27Table()[g.id]; ok && row.TLS12Only {
				ver = tls.VersionTLS12
			}
			switch g.id { // weak/legacy rows may be absent from this process' table
			case tls.DISABLED_TLS_ECDHE_RSA_WITH_AES_256_CBC_SHA384, tls.OLD_TLS_ECDHE_ECDSA_WITH_CHACHA20_POLY1305_SHA256, tls.OLD_TLS_ECDHE_RSA_WITH_CHACHA20_POLY1305_SHA256:
				ver = tls.VersionTLS12
			}
			cut := []string{"e", "m", "b", "l", "h"}[(i/len(grid)+i)%5]
			n := 1 + r.Intn(3)
			first := r.Bool()
			var ms []string
			for k := 0; k < n; k++ {
				d := "s"
				if (k%2 == 0) == first {
					d = "c"
				}
				sz := Pick(r, []int{1, 2, 16, 17, 100, 1000, 1200, 2400, 5000})
				if r.Intn(3) == 0 {
					sz = 1 + r.Intn(3000)
				}
				ms = append(ms, fmt.Sprintf("%s:%d", d, sz))
			}
			if n == 1 { // always both directions
				d := "c"
				if first {
					d = "s"
				}
				ms = append(ms, fmt.Sprintf("%s:%d", d, 1+r.Intn(300)))
			}
			return fmt.Sprintf("weak=%d id=%d ver=%d %s msgs=%s dseed=%d cut=%s", g.weak, g.id, ver, c27GenSecrets(r), strings.Join(ms, ","), r.U64()%1000000, cut)
		},
		Exec: c27Dispatch("forge_poll", execForgePoll),
	})
}
