package main

// C28 — GetOutKeystream returns the keystream of the next record.
//
// Family ks: a real client/server pair; the client writes `pre` small records (optionally sends a
// KeyUpdate), calls GetOutKeystream `calls` times (the last call with length `len`), then writes
// known plaintext; the first record of that write is captured from the wire. The server must read
// everything, and an echo in the other direction must work. Non-AEAD suites are included: there
// GetOutKeystream must fail and leave the connection usable.
//
// After that first (call, write) round the same connection runs up to four more rounds
// `GetOutKeystream(n_i)` -> write -> peer reads, with n_i equal to the first length or different:
// the keystream must track the sequence number (every round is checked against the wire bytes of
// *its* record). For these rounds only the first 80 bytes of keystream / plaintext / record body
// are put on the line.

import (
	"bytes"
	"fmt"
	"io"
	"time"

	tls "github.com/refraction-networking/utls"
)

func ksGen(r *Rng, i int, tier string) string {
	combos := recCombos()
	// AEAD combos three times out of four
	var c recCombo
	for tries := 0; ; tries++ {
		c = combos[(i*7+tries*13+r.Intn(len(combos)))%len(combos)]
		if recIsAEAD(c.Vers, c.Suite) || (i%4 == 3 && tries > 2) || tries > 40 {
			break
		}
	}
	if i%4 == 3 {
		// a non-AEAD combo
		for tries := 0; recIsAEAD(c.Vers, c.Suite) && tries < 200; tries++ {
			c = combos[r.Intn(len(combos))]
		}
	}
	kinds := recClientKinds(c)
	kind := kinds[r.Intn(len(kinds))]
	pre := Pick(r, []int{0, 0, 1, 2, 3, 7, 50, r.Intn(51)})
	klen := Pick(r, []int{0, 1, 2, 15, 16, 17, 100, 1138, 1139, 1140, 1187, 1188, 16383, 16384, 16385, 17000, r.Intn(3000), r.Intn(16385)})
	plen := Pick(r, []int{1, 2, 16, 100, 1138, 1139, 1140, 1200, 16384, 16385, 20000, klen, klen + 1, 1 + r.Intn(3000), 1 + r.Intn(20000)})
	if plen == 0 {
		plen = 1
	}
	ku := 0
	if c.Vers == tls.VersionTLS13 && r.Intn(3) == 0 {
		ku = 1 + r.Intn(2)
	}
	weak := 0
	if c.Weak {
		weak = 1
	}
	// further rounds on the same connection: same length as the first call (most often), or another
	var rounds []string
	for j, nr := 0, r.Intn(5); j < nr; j++ {
		n := klen
		if r.Intn(3) == 0 {
			n = Pick(r, []int{0, 1, 16, 17, 64, 100, 1200, r.Intn(300)})
		}
		rounds = append(rounds, fmt.Sprintf("%d:%d", n, Pick(r, []int{1, 2, 16, 90, 100, 1 + r.Intn(400), 1 + r.Intn(3000)})))
	}
	return fmt.Sprintf("vers=%d suite=%d client=%s weak=%d cdyn=%d sdyn=0 tick=%d ds=%d pre=%d ku=%d calls=%d len=%d plen=%d rounds=%s", c.Vers, c.Suite, kind, weak,
		r.Intn(3)/2, r.Intn(2), r.U64()%1000000, pre, ku, 1+r.Intn(3)/2*r.Intn(3), klen, plen, joinList(rounds))
}

func ksCut(b []byte, n int) []byte {
	if len(b) > n {
		return b[:n]
	}
	return b
}

func ksExec(in KV) string {
	if in["weak"] == "1" && !weakIsKid {
		return execInWeakChild("ks", in)
	}
	p, err := newRecPair(recOptsOf(in))
	if err != nil {
		return "out=hsfail msg=" + sanitize(err.Error())
	}
	defer p.Close()
	if f := recPrime(p); f != "" {
		return "out=" + f
	}
	params := recParamStr(p)
	data := NewRng(in.U64("ds"))
	buf := make([]byte, 70000)
	// pre records: one small write each, read by the server
	for i := 0; i < in.Int("pre"); i++ {
		d := data.Bytes(1 + i%3)
		if _, err := p.c.rw.Write(d); err != nil {
			return "out=pre-write:" + recErrClass(err)
		}
		if _, err := io.ReadFull(p.s.rw, buf[:len(d)]); err != nil || !bytes.Equal(buf[:len(d)], d) {
			return "out=pre-read:" + recErrClass(err)
		}
	}
	if ku := in.Int("ku"); ku > 0 {
		if err := p.c.ku(ku == 2); err != nil {
			return "out=ku:" + recErrClass(err)
		}
	}
	p.c.take()
	s0 := p.c.state()
	var ks []byte
	var kerr error
	calls := in.Int("calls")
	for i := 0; i < calls; i++ {
		n := in.Int("len")
		if i < calls-1 {
			n = data.Intn(200)
		}
		ks, kerr = p.u.GetOutKeystream(n)
	}
	s1 := p.c.state()
	pt := data.Bytes(in.Int("plen"))
	if _, err := p.c.rw.Write(pt); err != nil {
		return "out=write:" + recErrClass(err)
	}
	chunks := p.c.take()
	peer := 0
	got := make([]byte, len(pt))
	if _, err := io.ReadFull(p.s.rw, got); err == nil && bytes.Equal(got, pt) {
		peer = 1
	}
	// the other direction still works (after a KeyUpdate request the server's answer is consumed here)
	echo := 0
	e := data.Bytes(40)
	if _, err := p.s.rw.Write(e); err == nil {
		if _, err := io.ReadFull(p.c.rw, buf[:40]); err == nil && bytes.Equal(buf[:40], e) {
			echo = 1
		}
	}
	// and one more client record, to see the sequence continue
	again := 0
	p.c.take()
	againN := 0
	if _, err := p.c.rw.Write([]byte{1, 2, 3}); err == nil {
		againN = len(p.c.take())
		if _, err := io.ReadFull(p.s.rw, buf[:3]); err == nil && bytes.Equal(buf[:3], []byte{1, 2, 3}) {
			again = 1
		}
	}
	s2 := p.c.state()
	// further (GetOutKeystream, write) rounds on the same connection
	var rres []string
	for _, rd := range splitList(in["rounds"]) {
		var n, pl int
		fmt.Sscanf(rd, "%d:%d", &n, &pl)
		b0 := p.c.state()
		rks, rerr := p.u.GetOutKeystream(n)
		b1 := p.c.state()
		rpt := data.Bytes(pl)
		p.c.take()
		if _, err := p.c.rw.Write(rpt); err != nil {
			rres = append(rres, "werr:"+recErrClass(err))
			break
		}
		ch := p.c.take()
		okPeer := 0
		g := make([]byte, len(rpt))
		if _, err := io.ReadFull(p.s.rw, g); err == nil && bytes.Equal(g, rpt) {
			okPeer = 1
		}
		var rec0 []byte
		if len(ch) > 0 {
			rec0 = ch[0]
		}
		ke := "ok"
		if rerr != nil {
			ke = "err"
		}
		rres = append(rres, fmt.Sprintf("%d/%s/%d/%d/%d/%d/%d/%s/%s/%s", len(rks), ke, b0.Out.Seq, b1.Out.Seq, len(rec0), len(ch), okPeer,
			hx(ksCut(rks, 80)), hx(ksCut(rpt, 80)), hx(ksCut(rec0, 5+16+80))))
	}
	kerrS := "ok"
	if kerr != nil {
		kerrS = "err"
	}
	var first []byte
	if len(chunks) > 0 {
		first = chunks[0]
	}
	same := 0
	if s0.Out.Seq == s1.Out.Seq && s0.In.Seq == s1.In.Seq && s0.BytesSent == s1.BytesSent && s0.PacketsSent == s1.PacketsSent &&
		bytes.Equal(s0.Out.Secret, s1.Out.Secret) && s0.Out.Kind == s1.Out.Kind && s0.Out.Err == s1.Out.Err {
		same = 1
	}
	return fmt.Sprintf("out=ok %s seq0=%d seq1=%d seq2=%d pkts=%d bytes=%d same=%d kerr=%s klen=%d ks=%s p=%s lens=%s rec=%s peer=%d echo=%d again=%d againn=%d rres=%s",
		params, s0.Out.Seq, s1.Out.Seq, s2.Out.Seq, s0.PacketsSent, s0.BytesSent, same, kerrS, len(ks), hx(ks), hx(pt), chunkLens(chunks), hx(first), peer, echo, again, againN, joinList(rres))
}

func init() {
	register(&Family{Name: "ks", Gen: ksGen, Exec: ksExec, Timeout: 40 * time.Second})
}
