package main

// ---- C29: Roller prefers the last working fingerprint and tries each id at most once ----
//
// The real Roller (seeded prng through the verif export, so the shuffle is predicted by the Lean replica
// from the tapped stream) dials a local TCP server that accepts only chosen fingerprints. The server sees
// every ClientHello (fingerprint class, SNI, whether its own handshake completed) in attempt order.
//
//	roller      ids=<tok,..> seed=<hex32> w0=<tok|nil> dials=<a:<cls+cls|*|0>/<n|x:k|b:k>,...>
//	            => nh=<toks that never emit a hello> d=<att/res/work/sni,...> draws=<uint64,...>
//	roller_conc ids=.. seed=.. w0=.. thr=<a:..|a:..,...>     (threads, each a sequence of Dials, run concurrently)
//	            => r=<att/res/start:end|...,...> work=<tok|nil>
//
// id tokens: <Client>-<Version>[~s<label>][~w<D|?>]  (Seed / Weights pointers; D = &DefaultWeights; seed labels
// are letters for configured seeds, numbers for seeds drawn by uTLS in order of first appearance). The
// fingerprint class of a token drops the weights part; unseeded randomized ids are class "rand".
// Injections: x:k = the listener is closed before the k-th TCP dial of that call (connection refused);
// b:k = before the k-th dial the accept queue (backlog 0) is filled and accepting stops for a while, so the
// dial times out while later dials would succeed again (transient failure).

import (
	"crypto/x509"
	"encoding/pem"
	"errors"
	"fmt"
	"net"
	"os"
	"path/filepath"
	"runtime"
	"sort"
	"strconv"
	"strings"
	"sync"
	"sync/atomic"
	"syscall"
	"time"

	"encoding/binary"

	tls "github.com/refraction-networking/utls"
)

var c29CAFile string

// Roller hands UClient a nil Config, so certificates are verified against the system roots, which
// crypto/x509 loads once per process from SSL_CERT_FILE / SSL_CERT_DIR. Point both at this run's CA
// before anything can trigger that load; the file itself is written on first use (c29SystemRoots).
func init() {
	c29CAFile = filepath.Join(os.TempDir(), fmt.Sprintf("verif-c29-ca-%d.pem", os.Getpid()))
	os.Setenv("SSL_CERT_FILE", c29CAFile)
	os.Setenv("SSL_CERT_DIR", filepath.Join(os.TempDir(), "verif-c29-no-such-dir"))
}

var c29RootsOnce sync.Once

func c29SystemRoots() {
	c29RootsOnce.Do(func() {
		p := pem.EncodeToMemory(&pem.Block{Type: "CERTIFICATE", Bytes: kit().caCert.Raw})
		if err := os.WriteFile(c29CAFile, p, 0600); err != nil {
			panic(err)
		}
		x509.SystemCertPool() // forces the once-only load of the system roots
		os.Remove(c29CAFile)
	})
}

// ---- id tokens ----

var c29RandKinds = map[string]tls.ClientHelloID{
	"Randomized-0":        tls.HelloRandomized,
	"Randomized-ALPN-0":   tls.HelloRandomizedALPN,
	"Randomized-NoALPN-0": tls.HelloRandomizedNoALPN,
}

type c29Ctx struct {
	mu      sync.Mutex
	seeds   map[string]*tls.PRNGSeed // configured seed labels (letters)
	labels  map[*tls.PRNGSeed]string
	fresh   int
	sigs    map[string]string // hello signature -> class
	nohello map[string]bool   // tokens whose hello cannot be built
}

func newC29Ctx() *c29Ctx {
	return &c29Ctx{seeds: map[string]*tls.PRNGSeed{}, labels: map[*tls.PRNGSeed]string{}, sigs: map[string]string{}, nohello: map[string]bool{}}
}

func (x *c29Ctx) parseID(tok string) tls.ClientHelloID {
	parts := strings.Split(tok, "~")
	var id tls.ClientHelloID
	if r, ok := c29RandKinds[parts[0]]; ok {
		id = r
	} else if p, ok := idByName(parts[0]); ok {
		id = p
	} else {
		panic("c29: unknown id " + tok)
	}
	for _, p := range parts[1:] {
		switch {
		case strings.HasPrefix(p, "s"):
			l := p[1:]
			x.mu.Lock()
			s := x.seeds[l]
			if s == nil {
				s = new(tls.PRNGSeed)
				for i := range s {
					s[i] = l[0] + byte(i)
				}
				x.seeds[l] = s
				x.labels[s] = l
			}
			x.mu.Unlock()
			id.Seed = s
		case p == "wD":
			id.Weights = &tls.DefaultWeights
		default:
			panic("c29: bad id token " + tok)
		}
	}
	return id
}

func (x *c29Ctx) token(id tls.ClientHelloID) string {
	t := id.Client + "-" + id.Version
	if id.Seed != nil {
		x.mu.Lock()
		l, ok := x.labels[id.Seed]
		if !ok {
			x.fresh++
			l = strconv.Itoa(x.fresh)
			x.labels[id.Seed] = l
		}
		x.mu.Unlock()
		t += "~s" + l
	}
	if id.Weights != nil {
		if id.Weights == &tls.DefaultWeights {
			t += "~wD"
		} else {
			t += "~w?"
		}
	}
	return t
}

func c29Class(tok string) string {
	parts := strings.Split(tok, "~")
	c := parts[0]
	seeded := false
	for _, p := range parts[1:] {
		if strings.HasPrefix(p, "s") {
			c += "~" + p
			seeded = true
		}
	}
	if _, ok := c29RandKinds[parts[0]]; ok && !seeded {
		return "rand"
	}
	return c
}

func isGrease16(v uint16) bool { return v&0x0f0f == 0x0a0a && v>>8 == v&0xff }

// c29Sig: cipher suites in order and the sorted set of extension ids, GREASE, padding and pre_shared_key dropped.
func c29Sig(suites, exts []uint16) string {
	var b strings.Builder
	for _, s := range suites {
		if !isGrease16(s) {
			fmt.Fprintf(&b, "%04x", s)
		}
	}
	b.WriteString("|")
	var es []int
	for _, e := range exts {
		if !isGrease16(e) && e != 21 && e != 41 {
			es = append(es, int(e))
		}
	}
	sort.Ints(es)
	for _, e := range es {
		fmt.Fprintf(&b, "%x.", e)
	}
	return b.String()
}

func c29SigFromRaw(raw []byte) (string, error) {
	bad := errors.New("c29: unparsable hello")
	if len(raw) < 4+2+32+1 {
		return "", bad
	}
	p := raw[4+2+32:]
	n := int(p[0])
	if len(p) < 1+n+2 {
		return "", bad
	}
	p = p[1+n:]
	n = int(binary.BigEndian.Uint16(p))
	if len(p) < 2+n+1 {
		return "", bad
	}
	var suites, exts []uint16
	for i := 0; i+1 < n; i += 2 {
		suites = append(suites, binary.BigEndian.Uint16(p[2+i:]))
	}
	p = p[2+n:]
	n = int(p[0])
	if len(p) < 1+n+2 {
		return "", bad
	}
	p = p[1+n:]
	n = int(binary.BigEndian.Uint16(p))
	p = p[2:]
	if len(p) < n {
		return "", bad
	}
	p = p[:n]
	for len(p) >= 4 {
		exts = append(exts, binary.BigEndian.Uint16(p))
		l := int(binary.BigEndian.Uint16(p[2:]))
		if len(p) < 4+l {
			return "", bad
		}
		p = p[4+l:]
	}
	return c29Sig(suites, exts), nil
}

// learn registers the fingerprint of id (built exactly as Roller builds it: nil Config, SetSNI) under its class.
func (x *c29Ctx) learn(id tls.ClientHelloID) {
	tok := x.token(id)
	cls := c29Class(tok)
	if cls == "rand" {
		return
	}
	c1, c2 := net.Pipe()
	defer c1.Close()
	defer c2.Close()
	u := tls.UClient(c1, nil, id)
	u.SetSNI("d0.verif.test")
	sig := ""
	func() {
		defer func() { recover() }()
		if err := u.BuildHandshakeState(); err == nil {
			sig, _ = c29SigFromRaw(u.HandshakeState.Hello.Raw)
		}
	}()
	x.mu.Lock()
	defer x.mu.Unlock()
	if sig == "" {
		x.nohello[tok] = true
		return
	}
	if _, ok := x.sigs[sig]; !ok {
		x.sigs[sig] = cls
	}
}

func (x *c29Ctx) classify(chi *tls.ClientHelloInfo) string {
	sig := c29Sig(chi.CipherSuites, chi.Extensions)
	x.mu.Lock()
	defer x.mu.Unlock()
	if c, ok := x.sigs[sig]; ok {
		return c
	}
	return "rand"
}

// ---- the fingerprint-filtering server ----

type c29Att struct {
	class, sni, outcome string
	rejected            bool
	conn                net.Conn
	done                chan struct{}
}

type c29Policy struct {
	all    bool
	accept map[string]bool
}

func parseC29Policy(s string) c29Policy {
	s = strings.TrimPrefix(s, "a:")
	p := c29Policy{accept: map[string]bool{}}
	switch s {
	case "*":
		p.all = true
	case "0", "":
	default:
		for _, c := range strings.Split(s, "+") {
			p.accept[c] = true
		}
	}
	return p
}

type c29Srv struct {
	x       *c29Ctx
	ln      net.Listener
	addr    string
	policy  func(sni string) c29Policy
	injKind byte // 0, 'x', 'b'
	injAt   int
	resume  time.Duration

	mu        sync.Mutex
	atts      []*c29Att
	fillers   map[string]bool
	fillConns []net.Conn
	paused    bool
	parked    chan struct{}
	resumeCh  chan struct{}
	resumeOne sync.Once
	lnClosed  bool
	sentinel  chan struct{}
	infra     string
}

// listenBacklog0 returns a loopback listener whose accept queue holds a single connection.
func listenBacklog0() (net.Listener, error) {
	fd, err := syscall.Socket(syscall.AF_INET, syscall.SOCK_STREAM|syscall.SOCK_CLOEXEC, 0)
	if err != nil {
		return nil, err
	}
	if err := syscall.Bind(fd, &syscall.SockaddrInet4{Addr: [4]byte{127, 0, 0, 1}}); err != nil {
		syscall.Close(fd)
		return nil, err
	}
	if err := syscall.Listen(fd, 0); err != nil {
		syscall.Close(fd)
		return nil, err
	}
	f := os.NewFile(uintptr(fd), "c29-listener")
	defer f.Close()
	return net.FileListener(f)
}

func newC29Srv(x *c29Ctx, policy func(string) c29Policy, injKind byte, injAt int, resume time.Duration) *c29Srv {
	s := &c29Srv{x: x, policy: policy, injKind: injKind, injAt: injAt, resume: resume, fillers: map[string]bool{},
		parked: make(chan struct{}), resumeCh: make(chan struct{}), sentinel: make(chan struct{}, 1)}
	var err error
	if injKind == 'b' {
		s.ln, err = listenBacklog0()
	} else {
		s.ln, err = net.Listen("tcp", "127.0.0.1:0")
	}
	if err != nil {
		panic(err)
	}
	s.addr = s.ln.Addr().String()
	go s.loop()
	if injKind != 0 && injAt == 0 {
		s.inject()
	}
	return s
}

func (s *c29Srv) loop() {
	parkedOnce := false
	for {
		s.mu.Lock()
		p := s.paused
		s.mu.Unlock()
		if p {
			if !parkedOnce {
				parkedOnce = true
				close(s.parked)
			}
			<-s.resumeCh
			s.mu.Lock()
			s.paused = false
			s.mu.Unlock()
			s.ln.(*net.TCPListener).SetDeadline(time.Time{})
		}
		c, err := s.ln.Accept()
		if err != nil {
			var ne net.Error
			if errors.As(err, &ne) && ne.Timeout() {
				continue
			}
			return
		}
		s.mu.Lock()
		if s.fillers[c.RemoteAddr().String()] {
			s.mu.Unlock()
			c.Close()
			select {
			case s.sentinel <- struct{}{}:
			default:
			}
			continue
		}
		a := &c29Att{conn: c, done: make(chan struct{})}
		idx := len(s.atts)
		s.atts = append(s.atts, a)
		s.mu.Unlock()
		go s.handle(a, idx)
	}
}

// inject makes the next TCP dial of the client fail: refuse (listener closed) or blackhole (queue full, not accepting).
func (s *c29Srv) inject() {
	switch s.injKind {
	case 'x':
		s.mu.Lock()
		s.lnClosed = true
		s.mu.Unlock()
		s.ln.Close()
	case 'b':
		s.mu.Lock()
		s.paused = true
		s.mu.Unlock()
		s.ln.(*net.TCPListener).SetDeadline(time.Now().Add(-time.Second))
		<-s.parked
		// nobody accepts now: the queue (capacity backlog+1 = 1) is full as soon as one filler is in it; a
		// further filler timing out confirms it. A timeout before any filler got in is load, not fullness.
		full := false
		in := 0
		for i := 0; i < 12 && !full; i++ {
			c, err := net.DialTimeout("tcp", s.addr, 120*time.Millisecond)
			if err != nil {
				full = in > 0
				continue
			}
			in++
			s.mu.Lock()
			s.fillers[c.LocalAddr().String()] = true
			s.fillConns = append(s.fillConns, c)
			s.mu.Unlock()
		}
		if !full {
			s.mu.Lock()
			s.infra = "accept-queue-never-full"
			s.mu.Unlock()
		}
		time.AfterFunc(s.resume, func() { s.resumeOne.Do(func() { close(s.resumeCh) }) })
	}
}

func (s *c29Srv) handle(a *c29Att, idx int) {
	defer close(a.done)
	a.conn.SetDeadline(time.Now().Add(8 * time.Second))
	cfg := &tls.Config{
		Certificates: []tls.Certificate{kit().leaf["ecdsa"], kit().leaf["rsa"]},
		GetConfigForClient: func(chi *tls.ClientHelloInfo) (*tls.Config, error) {
			cls := s.x.classify(chi)
			pol := s.policy(chi.ServerName)
			ok := pol.all || pol.accept[cls]
			s.mu.Lock()
			a.class, a.sni, a.rejected = cls, chi.ServerName, !ok
			s.mu.Unlock()
			if s.injKind != 0 && s.injAt == idx+1 {
				s.inject() // before the answer: the client cannot dial again earlier
			}
			if !ok {
				return nil, errors.New("verif: fingerprint not accepted")
			}
			return nil, nil
		},
	}
	srv := tls.Server(a.conn, cfg)
	err := srv.Handshake()
	s.mu.Lock()
	switch {
	case err == nil:
		a.outcome = "ok"
	case a.class == "":
		a.class = "nohello"
		a.outcome = "none"
		var ne net.Error
		if errors.As(err, &ne) && ne.Timeout() {
			a.outcome = "timeout"
		}
	case a.rejected:
		a.outcome = "rej"
	default:
		a.outcome = "fail"
	}
	s.mu.Unlock()
	if err != nil {
		a.conn.Close()
	}
}

// finish is called after the client returned: makes sure every connection the client opened has been
// accepted and classified (leaked client conns are closed by their finalizers), then tears down.
func (s *c29Srv) finish() []*c29Att {
	s.mu.Lock()
	open := !s.lnClosed && !s.paused && s.injKind != 'b'
	s.mu.Unlock()
	if open {
		// sentinel: accepted strictly after every earlier connection
		s.mu.Lock()
		c, err := net.DialTimeout("tcp", s.addr, 3*time.Second)
		if err == nil {
			s.fillers[c.LocalAddr().String()] = true
			s.fillConns = append(s.fillConns, c)
		}
		s.mu.Unlock()
		if err == nil {
			select {
			case <-s.sentinel:
			case <-time.After(3 * time.Second):
			}
		}
	}
	s.mu.Lock()
	s.lnClosed = true
	s.mu.Unlock()
	s.ln.Close()
	s.resumeOne.Do(func() { close(s.resumeCh) })
	s.mu.Lock()
	atts := append([]*c29Att(nil), s.atts...)
	s.mu.Unlock()
	deadline := time.Now().Add(6 * time.Second)
	for _, a := range atts {
		for waiting := true; waiting; {
			select {
			case <-a.done:
				waiting = false
			case <-time.After(15 * time.Millisecond):
				runtime.GC() // Roller leaks the conns of failed attempts; their finalizers close them
				if time.Now().After(deadline) {
					a.conn.Close()
				}
			}
		}
	}
	for _, a := range atts {
		a.conn.Close()
	}
	for _, c := range s.fillConns {
		c.Close()
	}
	return atts
}

func c29RenderAtts(atts []*c29Att, name string) string {
	if len(atts) == 0 {
		return "."
	}
	var ss []string
	for _, a := range atts {
		sni := "="
		if a.sni != name {
			sni = "!" + sanitize(a.sni)
		}
		if a.class == "nohello" {
			sni = "="
		}
		ss = append(ss, a.class+":"+a.outcome+":"+sni)
	}
	return strings.Join(ss, "+")
}

func c29Result(x *c29Ctx, conn *tls.UConn, err error) (res, sni string) {
	switch {
	case conn != nil:
		res = "ok:" + x.token(conn.ClientHelloID)
		sni = conn.ConnectionState().ServerName
		if sni == "" {
			sni = "."
		}
		if err != nil {
			res = "ok+err:" + x.token(conn.ClientHelloID)
		}
		conn.Close()
		return res, sni
	case err == nil:
		return "nil", "."
	}
	var oe *net.OpError
	if errors.As(err, &oe) && oe.Op == "dial" {
		return "dialerr", "."
	}
	return "hserr", "."
}

func (x *c29Ctx) workToken(r *tls.Roller) string {
	w := r.VerifWorkingHelloID()
	if w == nil {
		return "nil"
	}
	x.learn(*w)
	return x.token(*w)
}

func c29Inject(s string) (byte, int) {
	if len(s) > 2 && (s[0] == 'x' || s[0] == 'b') && s[1] == ':' {
		k, err := strconv.Atoi(s[2:])
		if err == nil && k >= 0 {
			return s[0], k
		}
	}
	return 0, 0
}

func c29Setup(in KV, blackhole bool) (*c29Ctx, []string, *tls.Roller) {
	c29SystemRoots()
	x := newC29Ctx()
	toks := splitList(in["ids"])
	var ids []tls.ClientHelloID
	for _, t := range toks {
		id := x.parseID(t)
		x.learn(id)
		ids = append(ids, id)
	}
	tcpTO := 5 * time.Second
	if blackhole {
		tcpTO = 300 * time.Millisecond
	}
	r, err := tls.VerifNewRoller(seedFrom(in["seed"]), ids, tcpTO, 10*time.Second)
	if err != nil {
		panic(err)
	}
	if w0 := in["w0"]; w0 != "" && w0 != "nil" {
		id := x.parseID(w0)
		x.learn(id)
		r.WorkingHelloID = &id
	}
	return x, toks, r
}

func (x *c29Ctx) nohelloList() string {
	x.mu.Lock()
	defer x.mu.Unlock()
	var nh []string
	for t := range x.nohello {
		nh = append(nh, t)
	}
	sort.Strings(nh)
	return joinList(nh)
}

func c29Draws(in KV, n int) string {
	tap, _ := tls.VerifNewPRNG(seedFrom(in["seed"]), "", false)
	buf := make([]byte, 8*n)
	tap.Read(buf)
	draws := make([]string, n)
	for i := range draws {
		draws[i] = fmt.Sprint(binary.BigEndian.Uint64(buf[8*i:]))
	}
	return joinList(draws)
}

func c29ExecOnce(in KV) (out string, spurious bool) {
	dials := splitList(in["dials"])
	blackhole := false
	for _, d := range dials {
		f := strings.Split(d, "/")
		if len(f) > 1 && strings.HasPrefix(f[1], "b:") {
			blackhole = true
		}
	}
	x, toks, r := c29Setup(in, blackhole)
	var recs []string
	for i, d := range dials {
		f := strings.Split(d, "/")
		pol := parseC29Policy(f[0])
		var kind byte
		var at int
		if len(f) > 1 {
			kind, at = c29Inject(f[1])
		}
		if kind != 0 && x.nohelloList() != "-" {
			// an id that fails before sending anything gives the server no point at which to fail the next
			// dial deterministically: such combinations are not generated and not executed
			recs = append(recs, "skip/skip/"+x.workToken(r)+"/.")
			continue
		}
		srv := newC29Srv(x, func(string) c29Policy { return pol }, kind, at, 360*time.Millisecond)
		name := fmt.Sprintf("d%d.verif.test", i)
		conn, err := r.Dial("tcp", srv.addr, name)
		atts := srv.finish()
		res, sni := c29Result(x, conn, err)
		if srv.infra != "" {
			res = "infra:" + srv.infra
		}
		if kind == 'b' && res == "dialerr" && len(atts) < at {
			spurious = true // a dial that was not blackholed timed out (loaded machine): run the case again
		}
		recs = append(recs, strings.Join([]string{c29RenderAtts(atts, name), res, x.workToken(r), sni}, "/"))
	}
	return fmt.Sprintf("nh=%s d=%s draws=%s", x.nohelloList(), joinList(recs), c29Draws(in, len(dials)*(len(toks)+1)+16)), spurious
}

// ---- generators ----

var (
	c29PoolOnce sync.Once
	c29Pool     []string // hello-sending predefined ids with pairwise distinct fingerprint signatures
)

func c29GetPool() []string {
	c29PoolOnce.Do(func() {
		x := newC29Ctx()
		seen := map[string]bool{}
		cands := append([]tls.ClientHelloID{}, parrotIDs...)
		cands = append(cands, tls.HelloGolang)
		for _, id := range cands {
			c1, c2 := net.Pipe()
			u := tls.UClient(c1, nil, id)
			u.SetSNI("d0.verif.test")
			if err := u.BuildHandshakeState(); err == nil {
				if sig, err := c29SigFromRaw(u.HandshakeState.Hello.Raw); err == nil && !seen[sig] {
					seen[sig] = true
					c29Pool = append(c29Pool, x.token(id))
				}
			}
			c1.Close()
			c2.Close()
		}
	})
	return c29Pool
}

var c29NoHello = []string{"Chrome-100_PSK", "Chrome-112_PSK", "Chrome-115_PQ_PSK"}

func c29GenIDs(r *Rng) (ids []string, hasNoHello bool) {
	pool := c29GetPool()
	if r.Intn(100) < 15 {
		// NewRoller's own list
		return []string{"Chrome-133", "Firefox-120", "iOS-14", "Randomized-0"}, false
	}
	n := []int{0, 1, 1, 2, 2, 3, 3, 3, 4, 4, 4, 5, 5, 6}[r.Intn(14)]
	used := map[string]bool{}
	for len(ids) < n {
		var t string
		switch k := r.Intn(100); {
		case k < 8:
			t = Pick(r, []string{"Randomized-0", "Randomized-ALPN-0", "Randomized-NoALPN-0"})
			if used["rand"] {
				continue // unseeded randomized hellos cannot be told apart: at most one per list
			}
			used["rand"] = true
		case k < 14:
			t = Pick(r, []string{"Randomized-0~sA", "Randomized-ALPN-0~sB", "Randomized-0~sA~wD"})
		case k < 17:
			t = Pick(r, c29NoHello)
			hasNoHello = true
		default:
			t = Pick(r, pool)
		}
		if used[t] {
			continue
		}
		used[t] = true
		ids = append(ids, t)
	}
	if len(ids) > 0 && r.Intn(100) < 10 {
		// a duplicated entry (Go allows it; the property's "at most once" is about duplicate-free lists)
		d := ids[r.Intn(len(ids))]
		if c29Class(d) != "rand" {
			ids = append(ids, d)
		}
	}
	return ids, hasNoHello
}

func c29GenPolicy(r *Rng, classes []string) string {
	switch k := r.Intn(100); {
	case k < 12:
		return "a:*"
	case k < 32 || len(classes) == 0:
		return "a:0"
	}
	var acc []string
	for _, c := range classes {
		if r.Intn(100) < 40 {
			acc = append(acc, c)
		}
	}
	if len(acc) == 0 {
		acc = append(acc, Pick(r, classes))
	}
	return "a:" + strings.Join(acc, "+")
}

func c29GenW0(r *Rng, ids []string) string {
	switch k := r.Intn(100); {
	case k < 55:
		return "nil"
	case k < 75 && len(ids) > 0:
		return Pick(r, ids)
	case k < 82:
		return Pick(r, []string{"Randomized-0~sC~wD", "Randomized-ALPN-0~sB~wD", "Randomized-0~sA~wD"})
	}
	return Pick(r, c29GetPool())
}

func c29Classes(ids []string, w0 string) []string {
	seen := map[string]bool{}
	var cs []string
	for _, t := range append(append([]string{}, ids...), w0) {
		if t == "nil" {
			continue
		}
		c := c29Class(t)
		if !seen[c] {
			seen[c] = true
			cs = append(cs, c)
		}
	}
	return cs
}

func init() {
	register(&Family{
		Name:    "roller",
		Timeout: 90 * time.Second,
		Gen: func(r *Rng, i int, tier string) string {
			// the first cases pin the rare classes (empty list, six ids with a duplicate, NewRoller's list with a
			// rewritten randomized id, transient and refused dial failures); everything after is random
			pool := c29GetPool()
			fixed := []string{
				"ids=- seed=%s w0=nil dials=a:*/n,a:0/n",
				"ids=" + strings.Join(append(append([]string{}, pool[:5]...), pool[2]), ",") + " seed=%s w0=" + pool[4] + " dials=a:0/n,a:" + c29Class(pool[1]) + "/n,a:0/n",
				"ids=Chrome-133,Firefox-120,iOS-14,Randomized-0 seed=%s w0=nil dials=a:rand/n,a:0/n,a:iOS-14/n",
				"ids=" + strings.Join(pool[3:7], ",") + " seed=%s w0=nil dials=a:0/b:1,a:" + c29Class(pool[5]) + "/n,a:0/b:0",
				"ids=" + strings.Join(pool[1:4], ",") + " seed=%s w0=" + pool[2] + " dials=a:*/x:0,a:0/x:2,a:0/n",
			}
			if i < len(fixed) {
				return fmt.Sprintf(fixed[i], hx(r.Bytes(32)))
			}
			ids, noHello := c29GenIDs(r)
			w0 := c29GenW0(r, ids)
			for _, t := range c29NoHello {
				if w0 == t {
					noHello = true
				}
			}
			classes := c29Classes(ids, w0)
			nd := 1 + r.Intn(4)
			var dials []string
			for j := 0; j < nd; j++ {
				inj := "n"
				if !noHello {
					switch k := r.Intn(100); {
					case k < 18:
						inj = fmt.Sprintf("x:%d", r.Intn(len(ids)+2))
					case k < 26 && len(ids) >= 3:
						inj = fmt.Sprintf("b:%d", r.Intn(2))
					}
				}
				pol := c29GenPolicy(r, classes)
				if strings.HasPrefix(inj, "b:") && r.Intn(100) < 70 {
					pol = "a:0" // so that the failing dial is reached
				}
				dials = append(dials, pol+"/"+inj)
			}
			return fmt.Sprintf("ids=%s seed=%s w0=%s dials=%s", joinList(ids), hx(r.Bytes(32)), w0, joinList(dials))
		},
		Exec: func(in KV) string {
			out := ""
			for try := 0; try < 3; try++ {
				var spurious bool
				out, spurious = c29ExecOnce(in)
				if !spurious {
					break
				}
			}
			return out
		},
	})

	register(&Family{
		Name:    "roller_conc",
		Timeout: 90 * time.Second,
		Gen: func(r *Rng, i int, tier string) string {
			var ids []string
			for {
				var nh bool
				ids, nh = c29GenIDs(r)
				if !nh && len(ids) >= 1 {
					break
				}
			}
			w0 := c29GenW0(r, ids)
			for _, t := range c29NoHello {
				if w0 == t {
					w0 = "nil"
				}
			}
			classes := c29Classes(ids, w0)
			nt := 2 + r.Intn(3)
			var thr []string
			for t := 0; t < nt; t++ {
				var ds []string
				for j := 0; j < 1+r.Intn(3); j++ {
					ds = append(ds, c29GenPolicy(r, classes))
				}
				thr = append(thr, strings.Join(ds, "|"))
			}
			return fmt.Sprintf("ids=%s seed=%s w0=%s thr=%s", joinList(ids), hx(r.Bytes(32)), w0, joinList(thr))
		},
		Exec: func(in KV) string {
			x, _, r := c29Setup(in, false)
			if x.nohelloList() != "-" {
				return "r=skip work=" + x.workToken(r)
			}
			thr := splitList(in["thr"])
			pols := map[string]c29Policy{}
			for t, th := range thr {
				for j, d := range strings.Split(th, "|") {
					pols[fmt.Sprintf("t%dn%d.verif.test", t, j)] = parseC29Policy(d)
				}
			}
			srv := newC29Srv(x, func(sni string) c29Policy { return pols[sni] }, 0, 0, 0)
			var clock int64
			type rec struct {
				res        string
				start, end int64
			}
			out := make([][]rec, len(thr))
			var wg sync.WaitGroup
			gate := make(chan struct{})
			for t, th := range thr {
				nd := len(strings.Split(th, "|"))
				out[t] = make([]rec, nd)
				wg.Add(1)
				go func(t, nd int) {
					defer wg.Done()
					<-gate
					for j := 0; j < nd; j++ {
						st := atomic.AddInt64(&clock, 1)
						conn, err := r.Dial("tcp", srv.addr, fmt.Sprintf("t%dn%d.verif.test", t, j))
						en := atomic.AddInt64(&clock, 1)
						res, sni := c29Result(x, conn, err)
						if conn != nil && sni != fmt.Sprintf("t%dn%d.verif.test", t, j) {
							res = "badsni:" + sanitize(sni)
						}
						out[t][j] = rec{res, st, en}
					}
				}(t, nd)
			}
			close(gate)
			wg.Wait()
			atts := srv.finish()
			bySNI := map[string][]*c29Att{}
			stray := 0
			for _, a := range atts {
				if _, ok := pols[a.sni]; !ok {
					stray++
					continue
				}
				bySNI[a.sni] = append(bySNI[a.sni], a)
			}
			var ts []string
			for t := range thr {
				var ds []string
				for j, rc := range out[t] {
					name := fmt.Sprintf("t%dn%d.verif.test", t, j)
					ds = append(ds, fmt.Sprintf("%s/%s/%d:%d", c29RenderAtts(bySNI[name], name), rc.res, rc.start, rc.end))
				}
				ts = append(ts, strings.Join(ds, "|"))
			}
			return fmt.Sprintf("r=%s work=%s stray=%d", joinList(ts), x.workToken(r), stray)
		},
	})
}
