package main

import (
	"bytes"
	stdhkdf "crypto/hkdf"
	stdsha3 "crypto/sha3"
	"encoding/binary"
	"fmt"
	"math"
	"os"
	"os/exec"
	"path/filepath"
	"strconv"
	"strings"
	"sync"
	"time"

	tls "github.com/refraction-networking/utls"
)

// ---- C30: seeded PRNG ----
// ops: I:<n> Intn   J:<n> Int63n   R:<min>:<max> Range   C:<float64 bits> FlipWeightedCoin   P:<n> Perm   U Uint64
// the line carries the first K Int63 draws of the same seed (tap = a second prng with the same seed).

var prngBoundaryN = []int64{-5, -1, 0, 1, 2, 3, 5, 7, 8, 16, 100, 255, 256, 1000, 65535, 65536, 1<<31 - 2, 1<<31 - 1, 1 << 31, 1<<31 + 1,
	1<<32 - 1, 1 << 32, 1<<62 - 1, 1 << 62, 1<<62 + 1, 1<<63 - 2, 1<<63 - 1, math.MinInt64}

func genPrngOp(r *Rng) string {
	switch r.Intn(7) {
	case 0, 1:
		return fmt.Sprintf("I:%d", Pick(r, prngBoundaryN))
	case 2:
		return fmt.Sprintf("J:%d", Pick(r, prngBoundaryN))
	case 3:
		mm := []int64{-3, -1, 0, 1, 2, 5, 17, 1000, 1<<31 - 1, 1 << 31, 1<<63 - 1, math.MinInt64}
		return fmt.Sprintf("R:%d:%d", Pick(r, mm), Pick(r, mm))
	case 4:
		ws := []float64{0, -0.5, 1, 1.5, 0.5, 0.25, 0.99, 1e-9, math.Inf(1), math.Inf(-1), math.NaN(), 0.7, 0.3, math.SmallestNonzeroFloat64, 1 - 1e-16}
		return fmt.Sprintf("C:%d", math.Float64bits(Pick(r, ws)))
	case 5:
		return fmt.Sprintf("P:%d", r.Intn(12))
	default:
		return "U"
	}
}

// salts on the line: "-" = unsalted prng, "s:<hex>" = salted with these bytes ("s:-" = the empty salt).
func c30Salt(tok string) (bool, string) {
	if !strings.HasPrefix(tok, "s:") {
		return false, ""
	}
	return true, string(unhex(tok[2:]))
}

// c30GenSalts picks the salt of a prng case and a second salt to compare it with: salts of
// 0,1,4,31,32,33,64,100 (and a few other) bytes; the second one equal, extended, or differing in
// the first / the last / one byte beyond the first 32 (so the pair shares a 32-byte prefix) or
// beyond the first 64, in the case of one letter, or by one trailing printable/whitespace byte. Salts never end in a NUL byte here: HMAC pads its key with zeros, so
// salts that differ only by trailing NULs are the same HKDF salt by construction (see report).
func c30GenSalts(r *Rng, i int) (string, string) {
	if r.Intn(3) == 0 {
		return "-", "-"
	}
	nz := func(b []byte) []byte {
		if n := len(b); n > 0 && b[n-1] == 0 {
			b[n-1] = 0x41
		}
		return b
	}
	var salt []byte
	if r.Intn(6) == 0 {
		salt = []byte("ALPS")
	} else {
		salt = nz(r.Bytes(Pick(r, []int{0, 1, 4, 31, 32, 33, 64, 100, 33, 40, 65, 136, 137, 200})))
	}
	other := append([]byte(nil), salt...)
	flip := func(k int) {
		other[k] ^= byte(1 + r.Intn(255))
		other = nz(other)
		if bytes.Equal(other, salt) {
			other[k] ^= 0x10
		}
	}
	letter := -1
	for k, c := range salt {
		if c|0x20 >= 'a' && c|0x20 <= 'z' {
			letter = k
			break
		}
	}
	switch k := r.Intn(9); {
	case k == 0:
		// the same salt again
	case k == 1 || len(salt) == 0:
		other = append(other, Pick(r, []byte{0x27, 0x20, 0x0a, 0x2f, 0x61, 0x09}))
	case k == 7 && letter >= 0:
		other[letter] ^= 0x20 // the same text in the other case
	case k == 8 && len(salt) > 1 && salt[len(salt)-2] != 0:
		other = other[:len(other)-1] // a proper prefix
	case k == 2:
		flip(0)
	case k == 3:
		flip(len(other) - 1)
	case k == 4 && len(salt) > 32:
		flip(32 + r.Intn(len(other)-32)) // same first 32 bytes
	case k == 5 && len(salt) > 64:
		flip(64 + r.Intn(len(other)-64)) // same first 64 bytes
	default:
		// extend to beyond 32 bytes with a common prefix, differ in the tail only
		for want := 33 + r.Intn(8); len(salt) < want; {
			salt = append(salt, byte(0x61+r.Intn(26)))
		}
		other = append([]byte(nil), salt...)
		flip(32 + r.Intn(len(other)-32))
	}
	return "s:" + hx(salt), "s:" + hx(other)
}

func seedFrom(hexs string) tls.PRNGSeed {
	var s tls.PRNGSeed
	copy(s[:], unhex(hexs))
	return s
}

func runPrngOps(p *tls.VerifPRNG, ops []string) []string {
	var res []string
	for _, op := range ops {
		f := strings.Split(op, ":")
		i64 := func(s string) int64 { v, _ := strconv.ParseInt(s, 10, 64); return v }
		switch f[0] {
		case "I":
			res = append(res, fmt.Sprint(p.Intn(int(i64(f[1])))))
		case "J":
			res = append(res, fmt.Sprint(p.Int63n(i64(f[1]))))
		case "R":
			res = append(res, fmt.Sprint(p.Range(int(i64(f[1])), int(i64(f[2])))))
		case "C":
			b, _ := strconv.ParseUint(f[1], 10, 64)
			if p.FlipWeightedCoin(math.Float64frombits(b)) {
				res = append(res, "t")
			} else {
				res = append(res, "f")
			}
		case "P":
			perm := p.Perm(int(i64(f[1])))
			ss := make([]string, len(perm))
			for i, x := range perm {
				ss[i] = fmt.Sprint(x)
			}
			res = append(res, "["+strings.Join(ss, ";")+"]")
		case "U":
			res = append(res, fmt.Sprint(p.Uint64()))
		}
	}
	return res
}

func init() {
	register(&Family{
		Name: "prng",
		Gen: func(r *Rng, i int, tier string) string {
			n := 1 + r.Intn(10)
			var ops []string
			for j := 0; j < n; j++ {
				ops = append(ops, genPrngOp(r))
			}
			salt, salt2 := c30GenSalts(r, i)
			return fmt.Sprintf("seed=%s salt=%s salt2=%s ops=%s", hx(r.Bytes(32)), salt, salt2, joinList(ops))
		},
		Exec: func(in KV) string {
			seed := seedFrom(in["seed"])
			salted, salt := c30Salt(in["salt"])
			mk := func() *tls.VerifPRNG {
				p, err := tls.VerifNewPRNG(seed, salt, salted)
				if err != nil {
					panic(err)
				}
				return p
			}
			ops := splitList(in["ops"])
			r1 := runPrngOps(mk(), ops)
			r2 := runPrngOps(mk(), ops)
			// tap: raw stream of an identical prng, as big-endian uint64 words
			tap := mk()
			buf := make([]byte, 8*400)
			tap.Read(buf)
			var draws []string
			for i := 0; i < 400; i++ {
				draws = append(draws, fmt.Sprint(binary.BigEndian.Uint64(buf[8*i:])))
			}
			// the stream under the second salt of the case (same base seed): equal salts must give the
			// same stream, different salts a different one (sampled on the first 64 bytes)
			s2eq, kdf := "na", "na"
			if salted {
				if ok2, other := c30Salt(in["salt2"]); ok2 {
					o, err := tls.VerifNewPRNG(seed, other, true)
					if err != nil {
						panic(err)
					}
					b2 := make([]byte, 64)
					o.Read(b2)
					s2eq = fmt.Sprint(bytes.Equal(b2, buf[:64]))
				}
				// independent derivation with the standard library: the salted seed is
				// HKDF-SHA3-256(secret = seed, salt = the whole salt, info = none), 32 bytes,
				// and the stream is SHAKE256 of it
				derived, err := stdhkdf.Key(stdsha3.New256, seed[:], []byte(salt), "", 32)
				if err != nil {
					panic(err)
				}
				sh := stdsha3.NewSHAKE256()
				sh.Write(derived)
				want := make([]byte, 64)
				sh.Read(want)
				kdf = fmt.Sprint(bytes.Equal(want, buf[:64]))
			} else {
				sh := stdsha3.NewSHAKE256()
				sh.Write(seed[:])
				want := make([]byte, 64)
				sh.Read(want)
				kdf = fmt.Sprint(bytes.Equal(want, buf[:64]))
			}
			return fmt.Sprintf("res=%s again=%v s2eq=%s kdf=%s draws=%s", joinList(r1), strings.Join(r1, ",") == strings.Join(r2, ","), s2eq, kdf, joinList(draws))
		},
	})
	register(&Family{
		Name:    "prng_conc",
		Timeout: 120 * time.Second,
		Gen: func(r *Rng, i int, tier string) string {
			// many goroutines x thousands of draws on ONE prng: every helper that draws exactly one
			// word per call (so that the words handed out can be accounted for one by one)
			threads := 16 + r.Intn(17)
			per := 2000 + r.Intn(2001)
			if i%8 == 7 {
				threads, per = 2+r.Intn(5), 50+r.Intn(200) // the light shape of the first version
			}
			kinds := []string{"U", "UKJN", "UK", "UJ", "UN", "UKJNR", "K", "J", "N"}[i%9]
			return fmt.Sprintf("seed=%s threads=%d per=%d kinds=%s", hx(r.Bytes(32)), threads, per, kinds)
		},
		Exec: c30ExecConc,
	})
	register(&Family{
		Name:    "prng_race",
		Timeout: 30 * time.Minute,
		Gen: func(r *Rng, i int, tier string) string {
			// thorough tier only: the concurrent draws once more under the Go race detector
			if tier != "thorough" || i >= 2 {
				return ""
			}
			return fmt.Sprintf("seed=%s threads=%d per=%d kinds=%s", hx(r.Bytes(32)), 8+4*i, 3000, []string{"UKJNR", "U"}[i])
		},
		Exec: c30ExecRace,
	})
}

// c30ExecRace builds this harness once more with -race (same tags, same module file) into a
// temporary directory and lets that binary execute a prng_conc case; a report of the race
// detector on stderr is a data race between concurrent calls on one prng.
//
//	race=none | detected | unavailable (no race-enabled build possible here: not a verdict)
func c30ExecRace(in KV) string {
	exe, err := os.Executable()
	if err != nil {
		return "race=unavailable why=no-executable-path"
	}
	harn := filepath.Dir(filepath.Dir(exe))
	tmp, err := os.MkdirTemp("", "c30race")
	if err != nil {
		return "race=unavailable why=no-tempdir"
	}
	defer os.RemoveAll(tmp)
	bin := filepath.Join(tmp, "corr-race")
	args := []string{"build", "-race", "-tags", "verif", "-o", bin}
	if repo := os.Getenv("VERIF_REPO"); repo != "" {
		if rp, err := filepath.EvalSymlinks(repo); err == nil && rp != "/repo" {
			args = append(args, "-modfile=go.scratch.mod")
		}
	}
	build := exec.Command("go", append(args, "./cmd/corr")...)
	build.Dir = harn
	build.Env = append(os.Environ(), "CGO_ENABLED=1")
	if out, err := build.CombinedOutput(); err != nil {
		return "race=unavailable why=" + sanitize(string(out))
	}
	line := fmt.Sprintf("prng_conc seed=%s threads=%s per=%s kinds=%s\n", in["seed"], in["threads"], in["per"], in["kinds"])
	run := exec.Command(bin, "exec")
	run.Stdin = strings.NewReader(line)
	run.Env = append(os.Environ(), "GORACE=halt_on_error=0 exitcode=0")
	var stderr, stdout bytes.Buffer
	run.Stderr, run.Stdout = &stderr, &stdout
	if err := run.Run(); err != nil {
		return "race=unavailable why=" + sanitize(err.Error())
	}
	conc := "?"
	if i := strings.Index(stdout.String(), "mismatches="); i >= 0 {
		conc = strings.Fields(stdout.String()[i:])[0]
	}
	if strings.Contains(stderr.String(), "DATA RACE") {
		where := "?"
		for _, l := range strings.Split(stderr.String(), "\n") {
			if strings.Contains(l, "utls.") {
				where = sanitize(strings.TrimSpace(l))
				break
			}
		}
		return fmt.Sprintf("race=detected %s where=%s", conc, where)
	}
	return "race=none " + conc
}

// c30ExecConc: `threads` goroutines draw `per` values each from one prng; goroutine t uses the
// helper kinds[t % len(kinds)]:
//
//	U Uint64()            the whole word
//	K Int63()             word & (2^63-1)
//	J Int63n(1<<62)       word & (2^62-1)   (power of two: one draw, masked)
//	N Intn(1<<62)         word & (2^62-1)   (int is 64-bit: rand.Intn -> Int63n)
//	R Read(8 bytes)       the whole word
//
// Safe concurrent use means the calls behave as if executed one after the other in some order,
// i.e. the draws are a partition of the first threads*per words of the sequential stream of the
// same seed: every drawn value is accounted for by its own word of that prefix and no word of
// the prefix is left over. (All masks keep >= 62 bits, so a draw identifies its word.)
func c30ExecConc(in KV) string {
	seed := seedFrom(in["seed"])
	p, _ := tls.VerifNewPRNG(seed, "", false)
	nt, per := in.Int("threads"), in.Int("per")
	kinds := in["kinds"]
	if kinds == "" {
		kinds = "UR"
	}
	type draw struct {
		v    uint64
		mask uint64
	}
	const m63, m62 = uint64(1)<<63 - 1, uint64(1)<<62 - 1
	results := make([][]draw, nt)
	var wg sync.WaitGroup
	start := make(chan struct{})
	for t := 0; t < nt; t++ {
		wg.Add(1)
		go func(t int) {
			defer wg.Done()
			defer func() { recover() }()
			local := make([]draw, 0, per)
			<-start
			switch kinds[t%len(kinds)] {
			case 'U':
				for i := 0; i < per; i++ {
					local = append(local, draw{p.Uint64(), ^uint64(0)})
				}
			case 'K':
				for i := 0; i < per; i++ {
					local = append(local, draw{uint64(p.Int63()), m63})
				}
			case 'J':
				for i := 0; i < per; i++ {
					local = append(local, draw{uint64(p.Int63n(1 << 62)), m62})
				}
			case 'N':
				for i := 0; i < per; i++ {
					local = append(local, draw{uint64(p.Intn(1 << 62)), m62})
				}
			default:
				for i := 0; i < per; i++ {
					var b [8]byte
					p.Read(b[:])
					local = append(local, draw{binary.BigEndian.Uint64(b[:]), ^uint64(0)})
				}
			}
			results[t] = local
		}(t)
	}
	close(start)
	wg.Wait()
	// the sequential stream of the same seed
	ref, _ := tls.VerifNewPRNG(seed, "", false)
	total := nt * per
	refBytes := make([]byte, 8*total)
	ref.Read(refBytes)
	free := make(map[uint64]int, total) // low 62 bits of a word -> how many unclaimed copies
	full := make(map[uint64][]uint64, total)
	for i := 0; i < total; i++ {
		w := binary.BigEndian.Uint64(refBytes[8*i:])
		free[w&m62]++
		full[w&m62] = append(full[w&m62], w)
	}
	got, foreign, dup := 0, 0, 0
	first := "-"
	for _, loc := range results {
		for _, d := range loc {
			got++
			k := d.v & m62
			cands, ok := full[k]
			match := false
			for _, w := range cands {
				if w&d.mask == d.v {
					match = true
				}
			}
			switch {
			case !ok || !match:
				foreign++ // not a word of the prefix at all (torn, or beyond the prefix)
				if first == "-" {
					first = fmt.Sprintf("foreign:%d", d.v)
				}
			case free[k] == 0:
				dup++ // handed out more often than the stream contains it
				if first == "-" {
					first = fmt.Sprintf("dup:%d", d.v)
				}
			default:
				free[k]--
			}
		}
	}
	lost := 0
	for _, n := range free {
		lost += n
	}
	return fmt.Sprintf("got=%d want=%d mismatches=%d foreign=%d dup=%d lost=%d first=%s", got, total, foreign+dup+lost, foreign, dup, lost, first)
}
