package main

import (
	"encoding/binary"
	"fmt"
	"math"
	"sort"
	"strconv"
	"strings"
	"sync"

	tls "github.com/refraction-networking/utls"
)

// ---- C30: seeded PRNG ----
// ops: I:<n> Intn   J:<n> Int63n   R:<min>:<max> Range   C:<float64 bits> FlipWeightedCoin   P:<n> Perm   U Uint64
// the line carries the first K Int63 draws of the same seed (tap = a second prng with the same seed).

var prngBoundaryN = []int64{-5, -1, 0, 1, 2, 3, 5, 7, 8, 16, 100, 255, 256, 1000, 65535, 65536, 1<<31 - 2, 1<<31 - 1, 1 << 31, 1<<31 + 1,
	1<<32 - 1, 1 << 32, 1<<62 - 1, 1 << 62, 1<<62 + 1, 1<<63 - 2, 1<<63 - 1, math.MinInt64}

func genPrngOp(r *Rng) string {
	switch r.Intn(7) {
	case 0, 1:
		return fmt.Sprintf("I:%d", Pick(r, prngBoundaryN))
	case 2:
		return fmt.Sprintf("J:%d", Pick(r, prngBoundaryN))
	case 3:
		mm := []int64{-3, -1, 0, 1, 2, 5, 17, 1000, 1<<31 - 1, 1 << 31, 1<<63 - 1, math.MinInt64}
		return fmt.Sprintf("R:%d:%d", Pick(r, mm), Pick(r, mm))
	case 4:
		ws := []float64{0, -0.5, 1, 1.5, 0.5, 0.25, 0.99, 1e-9, math.Inf(1), math.Inf(-1), math.NaN(), 0.7, 0.3, math.SmallestNonzeroFloat64, 1 - 1e-16}
		return fmt.Sprintf("C:%d", math.Float64bits(Pick(r, ws)))
	case 5:
		return fmt.Sprintf("P:%d", r.Intn(12))
	default:
		return "U"
	}
}

func seedFrom(hexs string) tls.PRNGSeed {
	var s tls.PRNGSeed
	copy(s[:], unhex(hexs))
	return s
}

func runPrngOps(p *tls.VerifPRNG, ops []string) []string {
	var res []string
	for _, op := range ops {
		f := strings.Split(op, ":")
		i64 := func(s string) int64 { v, _ := strconv.ParseInt(s, 10, 64); return v }
		switch f[0] {
		case "I":
			res = append(res, fmt.Sprint(p.Intn(int(i64(f[1])))))
		case "J":
			res = append(res, fmt.Sprint(p.Int63n(i64(f[1]))))
		case "R":
			res = append(res, fmt.Sprint(p.Range(int(i64(f[1])), int(i64(f[2])))))
		case "C":
			b, _ := strconv.ParseUint(f[1], 10, 64)
			if p.FlipWeightedCoin(math.Float64frombits(b)) {
				res = append(res, "t")
			} else {
				res = append(res, "f")
			}
		case "P":
			perm := p.Perm(int(i64(f[1])))
			ss := make([]string, len(perm))
			for i, x := range perm {
				ss[i] = fmt.Sprint(x)
			}
			res = append(res, "["+strings.Join(ss, ";")+"]")
		case "U":
			res = append(res, fmt.Sprint(p.Uint64()))
		}
	}
	return res
}

func init() {
	register(&Family{
		Name: "prng",
		Gen: func(r *Rng, i int, tier string) string {
			n := 1 + r.Intn(10)
			var ops []string
			for j := 0; j < n; j++ {
				ops = append(ops, genPrngOp(r))
			}
			salt := Pick(r, []string{"", "", "ALPS", "x"})
			if salt == "" {
				salt = "-"
			}
			return fmt.Sprintf("seed=%s salt=%s ops=%s", hx(r.Bytes(32)), salt, joinList(ops))
		},
		Exec: func(in KV) string {
			seed := seedFrom(in["seed"])
			salted := in["salt"] != "-"
			mk := func(salt string) *tls.VerifPRNG {
				p, err := tls.VerifNewPRNG(seed, salt, salted)
				if err != nil {
					panic(err)
				}
				return p
			}
			ops := splitList(in["ops"])
			r1 := runPrngOps(mk(in["salt"]), ops)
			r2 := runPrngOps(mk(in["salt"]), ops)
			// tap: raw stream of an identical prng, as big-endian uint64 words
			tap := mk(in["salt"])
			buf := make([]byte, 8*400)
			tap.Read(buf)
			var draws []string
			for i := 0; i < 400; i++ {
				draws = append(draws, fmt.Sprint(binary.BigEndian.Uint64(buf[8*i:])))
			}
			// other salt => different stream (sampled, cryptographic)
			differs := "na"
			if salted {
				o, _ := tls.VerifNewPRNG(seed, in["salt"]+"'", true)
				b2 := make([]byte, 32)
				o.Read(b2)
				differs = fmt.Sprint(string(b2) != string(buf[:32]))
			}
			return fmt.Sprintf("res=%s again=%v differs=%s draws=%s", joinList(r1), strings.Join(r1, ",") == strings.Join(r2, ","), differs, joinList(draws))
		},
	})
	register(&Family{
		Name: "prng_conc",
		Gen: func(r *Rng, i int, tier string) string {
			return fmt.Sprintf("seed=%s threads=%d per=%d", hx(r.Bytes(32)), 2+r.Intn(5), 50+r.Intn(200))
		},
		Exec: func(in KV) string {
			seed := seedFrom(in["seed"])
			p, _ := tls.VerifNewPRNG(seed, "", false)
			nt, per := in.Int("threads"), in.Int("per")
			var mu sync.Mutex
			var got []uint64
			var wg sync.WaitGroup
			for t := 0; t < nt; t++ {
				wg.Add(1)
				go func(t int) {
					defer wg.Done()
					defer func() { recover() }()
					local := make([]uint64, 0, per)
					for i := 0; i < per; i++ {
						if t%2 == 0 {
							local = append(local, p.Uint64())
						} else {
							var b [8]byte
							p.Read(b[:])
							local = append(local, binary.BigEndian.Uint64(b[:]))
						}
					}
					mu.Lock()
					got = append(got, local...)
					mu.Unlock()
				}(t)
			}
			wg.Wait()
			ref, _ := tls.VerifNewPRNG(seed, "", false)
			want := make([]uint64, nt*per)
			for i := range want {
				want[i] = ref.Uint64()
			}
			sort.Slice(got, func(i, j int) bool { return got[i] < got[j] })
			sort.Slice(want, func(i, j int) bool { return want[i] < want[j] })
			// compare as multisets; report sizes and the number of mismatching positions
			bad := 0
			if len(got) != len(want) {
				bad = 1 + len(want) - len(got)
				if bad < 0 {
					bad = -bad
				}
			} else {
				for i := range got {
					if got[i] != want[i] {
						bad++
					}
				}
			}
			return fmt.Sprintf("got=%d want=%d mismatches=%d", len(got), len(want), bad)
		},
	})
}
