package main

// ---- C31: public views of handshake messages convert losslessly ----
//
// conv_rt  pair=<name> dir=pub|priv seed=<n> pct=<0..100>
//          => src=<leaf~value;...> mid=<...> back=<...>
//          a value of the source type filled through reflection with random values, carried through the
//          real converter and back; every leaf of the three values is reported.
// ch_rt    id=<parrot> rseed=<n>  |  hello=<hex>
//          => out=reject | out=ok same=<0|1> f1=<leaf~value;...> re=<hex|err:..> f2=<leaf~value;...|reject>
//          UnmarshalClientHello; Marshal (must give the input back); clear Raw; Marshal; parse again.

import (
	"fmt"
	"reflect"
	"strings"

	tls "github.com/refraction-networking/utls"

	"verif/harness/internal/vtab"
)

func init() {
	register(&Family{
		Name: "conv_rt",
		Gen: func(r *Rng, i int, tier string) string {
			ds := vtab.Dirs()
			d := ds[i%len(ds)]
			dir := "priv"
			if d.ToPrivate {
				dir = "pub"
			}
			pct := Pick(r, []int{100, 100, 75, 75, 50, 25, 0})
			if i < len(ds) {
				pct = 100
			}
			return fmt.Sprintf("pair=%s dir=%s seed=%d pct=%d", d.Pair, dir, r.U64()%1000000000, pct)
		},
		Exec: func(in KV) string {
			fwd := vtab.DirByName(in["pair"], in["dir"] == "pub")
			bwd := vtab.DirByName(in["pair"], in["dir"] != "pub")
			if fwd == nil || bwd == nil {
				return "out=no-such-pair"
			}
			rr := NewRng(in.U64("seed"))
			id := vtab.NewIdent()
			src := fwd.New()
			vtab.FillAll(reflect.ValueOf(src).Elem(), fwd.SrcLeaves, rr.U64, id, in.Int("pct"))
			s0 := vtab.RenderAll(src, fwd.SrcLeaves, id)
			mid := fwd.Conv(src)
			s1 := vtab.RenderAll(mid, fwd.DstLeaves, id)
			back := bwd.Conv(mid)
			s2 := vtab.RenderAll(back, bwd.DstLeaves, id)
			return fmt.Sprintf("out=ok src=%s mid=%s back=%s", s0, s1, s2)
		},
	})
	register(&Family{Name: "ch_rt", Gen: genCHRT, Exec: execCHRT})
}

// ---------------------------------------------------------------------------------------------
// ClientHello encodings

type bb struct{ b []byte }

func (x *bb) u8(v int) *bb  { x.b = append(x.b, byte(v)); return x }
func (x *bb) u16(v int) *bb { x.b = append(x.b, byte(v>>8), byte(v)); return x }
func (x *bb) u24(v int) *bb { x.b = append(x.b, byte(v>>16), byte(v>>8), byte(v)); return x }
func (x *bb) u32(v uint32) *bb {
	x.b = append(x.b, byte(v>>24), byte(v>>16), byte(v>>8), byte(v))
	return x
}
func (x *bb) raw(p []byte) *bb   { x.b = append(x.b, p...); return x }
func (x *bb) vec8(p []byte) *bb  { return x.u8(len(p)).raw(p) }
func (x *bb) vec16(p []byte) *bb { return x.u16(len(p)).raw(p) }

func u16sBytes_c31(xs []int) []byte {
	x := &bb{}
	for _, v := range xs {
		x.u16(v)
	}
	return x.b
}

func randU16s_c31(r *Rng, n int) []int {
	out := make([]int, n)
	for i := range out {
		out[i] = Pick(r, []int{0x1301, 0x1302, 0xc02b, 0xc02f, 29, 23, 24, 0x0403, 0x0804, 0x0304, 0x0303, 0x0a0a, 0x1a1a, r.Intn(65536)})
	}
	return out
}

type hext struct {
	id   int
	body []byte
}

// genExtBody: a mostly valid body for extension id (bad > 0 selects a malformed variant).
func genExtBody(r *Rng, id int, bad bool) []byte {
	x := &bb{}
	small := func() []byte { return r.Bytes(r.Intn(5)) }
	nonempty := func() []byte { return r.Bytes(1 + r.Intn(6)) }
	switch id {
	case 0: // server_name
		l := &bb{}
		n := Pick(r, []int{1, 1, 1, 2})
		for i := 0; i < n; i++ {
			typ := 0
			if i > 0 || r.Intn(8) == 0 {
				typ = Pick(r, []int{1, 1, 0, 7})
			}
			name := []byte(Pick(r, []string{"example.com", "a.b", "x", "foo.bar.example"}))
			if bad && r.Intn(2) == 0 {
				name = Pick(r, [][]byte{[]byte("example.com."), {}})
			}
			l.u8(typ).vec16(name)
		}
		if bad && r.Intn(3) == 0 {
			l = &bb{}
		}
		return x.vec16(l.b).b
	case 5: // status_request
		x.u8(Pick(r, []int{1, 1, 1, 2})).vec16(small()).vec16(small())
		if bad {
			return x.b[:len(x.b)-1]
		}
		return x.b
	case 10, 13, 50: // u16 lists with a 2-byte length
		n := 1 + r.Intn(5)
		body := u16sBytes_c31(randU16s_c31(r, n))
		if bad {
			body = Pick(r, [][]byte{{}, body[:len(body)-1]})
		}
		return x.vec16(body).b
	case 11: // ec_point_formats
		p := r.Bytes(1 + r.Intn(3))
		if bad {
			p = nil
		}
		return x.vec8(p).b
	case 35, 57, 0xfe0d: // opaque bodies
		return r.Bytes(Pick(r, []int{0, 0, 1, 7, 40}))
	case 65281: // renegotiation_info
		x.vec8(r.Bytes(Pick(r, []int{0, 0, 12})))
		if bad {
			x.u8(0)
		}
		return x.b
	case 23, 18, 42: // empty bodies
		if bad {
			return []byte{0}
		}
		return nil
	case 16: // ALPN
		l := &bb{}
		for i, n := 0, 1+r.Intn(3); i < n; i++ {
			l.vec8([]byte(Pick(r, []string{"h2", "http/1.1", "h3", "x"})))
		}
		if bad {
			l = Pick(r, []*bb{{}, (&bb{}).vec8(nil)})
		}
		return x.vec16(l.b).b
	case 43: // supported_versions
		body := u16sBytes_c31(randU16s_c31(r, 1+r.Intn(4)))
		if bad {
			body = Pick(r, [][]byte{{}, body[:len(body)-1]})
		}
		return x.vec8(body).b
	case 44: // cookie
		c := nonempty()
		if bad {
			c = nil
		}
		return x.vec16(c).b
	case 51: // key_share
		l := &bb{}
		for i, n := 0, Pick(r, []int{0, 1, 1, 2, 3}); i < n; i++ {
			d := nonempty()
			if bad && i == 0 {
				d = nil
			}
			l.u16(Pick(r, []int{29, 23, 0x0a0a, 4588})).vec16(d)
		}
		if bad && len(l.b) == 0 {
			return []byte{0}
		}
		return x.vec16(l.b).b
	case 45: // psk_key_exchange_modes
		x.vec8(r.Bytes(Pick(r, []int{0, 1, 1, 2})))
		if bad {
			x.u8(1)
		}
		return x.b
	case 41: // pre_shared_key
		ids, bs := &bb{}, &bb{}
		for i, n := 0, 1+r.Intn(2); i < n; i++ {
			ids.vec16(nonempty()).u32(uint32(r.U64()))
		}
		for i, n := 0, 1+r.Intn(2); i < n; i++ {
			bs.vec8(nonempty())
		}
		if bad {
			switch r.Intn(3) {
			case 0:
				ids = &bb{}
			case 1:
				bs = &bb{}
			default:
				bs = (&bb{}).vec8(nil)
			}
		}
		return x.vec16(ids.b).vec16(bs.b).b
	}
	return r.Bytes(Pick(r, []int{0, 1, 1, 3, 30}))
}

var knownExtIDs_c31 = []int{0, 5, 10, 11, 35, 13, 50, 65281, 23, 16, 18, 43, 44, 51, 42, 45, 57, 0xfe0d}
var unknownExtIDs = []int{21, 17513, 17613, 27, 28, 34, 24, 13172, 30032, 0x0a0a, 0x1a1a, 0xfafa, 17, 49, 1234}

func buildHello(vers int, random, sid []byte, suites []int, comps []byte, exts []hext, withExts bool, trailer []byte) []byte {
	body := &bb{}
	body.u16(vers).raw(random).vec8(sid).vec16(u16sBytes_c31(suites)).vec8(comps)
	if withExts {
		eb := &bb{}
		for _, e := range exts {
			eb.u16(e.id).vec16(e.body)
		}
		body.vec16(eb.b)
	}
	body.raw(trailer)
	return (&bb{}).u8(1).u24(len(body.b)).raw(body.b).b
}

func genHelloBytes(r *Rng) []byte {
	vers := Pick(r, []int{0x0303, 0x0303, 0x0301, 0x0302, 0x0304})
	sid := r.Bytes(Pick(r, []int{0, 32, 32, 1}))
	suites := randU16s_c31(r, 1+r.Intn(8))
	if r.Intn(3) == 0 {
		suites = append(suites, 0x00ff)
	}
	comps := Pick(r, [][]byte{{0}, {0}, {1, 0}, {}})
	var exts []hext
	badOne := r.Intn(6) == 0
	ids := append([]int{}, knownExtIDs_c31...)
	for k := len(ids) - 1; k > 0; k-- {
		j := r.Intn(k + 1)
		ids[k], ids[j] = ids[j], ids[k]
	}
	n := Pick(r, []int{0, 1, 3, 5, 8, 12, len(ids)})
	for _, id := range ids[:n] {
		exts = append(exts, hext{id, genExtBody(r, id, false)})
	}
	for i, n := 0, r.Intn(4); i < n; i++ {
		id := Pick(r, unknownExtIDs)
		dup := false
		for _, e := range exts {
			dup = dup || e.id == id
		}
		if !dup {
			at := r.Intn(len(exts) + 1)
			exts = append(exts[:at], append([]hext{{id, genExtBody(r, id, false)}}, exts[at:]...)...)
		}
	}
	if r.Intn(3) == 0 {
		exts = append(exts, hext{41, genExtBody(r, 41, false)})
		if r.Intn(8) == 0 && len(exts) > 1 { // pre_shared_key not last
			exts[len(exts)-1], exts[0] = exts[0], exts[len(exts)-1]
		}
	}
	if badOne && len(exts) > 0 {
		k := r.Intn(len(exts))
		exts[k].body = genExtBody(r, exts[k].id, true)
	}
	if r.Intn(25) == 0 && len(exts) > 1 { // duplicate extension
		exts = append(exts, exts[r.Intn(len(exts))])
	}
	withExts := r.Intn(12) != 0
	var trailer []byte
	if r.Intn(30) == 0 {
		trailer = r.Bytes(1 + r.Intn(3))
	}
	h := buildHello(vers, r.Bytes(32), sid, suites, comps, exts, withExts, trailer)
	if r.Intn(40) == 0 {
		h = h[:r.Intn(len(h))] // truncated
	}
	return h
}

func genCHRT(r *Rng, i int, tier string) string {
	return genCHRT0(r, i, tier) + " edit=" + chEditKinds[(i+i/4)%len(chEditKinds)]
}

func genCHRT0(r *Rng, i int, tier string) string {
	if i < len(parrotIDs) {
		return fmt.Sprintf("id=%s rseed=%d", idName(parrotIDs[i]), r.U64()%1000000)
	}
	if i == len(parrotIDs) {
		return "id=Golang-0 rseed=7"
	}
	if i%4 == 1 {
		// a hello marshalled by the library itself from reflection-filled public fields
		return fmt.Sprintf("pubseed=%d pct=%d", r.U64()%1000000000, Pick(r, []int{100, 60, 30}))
	}
	return "hello=" + hx(genHelloBytes(r))
}

var pubCHLeaves []vtab.Leaf

func chLeaves() []vtab.Leaf {
	if pubCHLeaves == nil {
		for _, l := range vtab.LeavesOf(reflect.TypeOf(tls.PubClientHelloMsg{})) {
			if l.Path != "Raw" && l.Path != "cachedPrivateHello" {
				pubCHLeaves = append(pubCHLeaves, l)
			}
		}
	}
	return pubCHLeaves
}

func chInput(in KV) ([]byte, string) {
	if h, ok := in["hello"]; ok {
		return unhex(h), ""
	}
	if _, ok := in["pubseed"]; ok {
		rr := NewRng(in.U64("pubseed"))
		pub := &tls.PubClientHelloMsg{}
		id := vtab.NewIdent()
		vtab.FillAll(reflect.ValueOf(pub).Elem(), chLeaves(), rr.U64, id, in.Int("pct"))
		pub.Random = rr.Bytes(32)
		b, err := pub.Marshal()
		if err != nil {
			return nil, "marshal-err:" + sanitize(err.Error())
		}
		return b, ""
	}
	id, ok := idByName(in["id"])
	if !ok {
		return nil, "bad-id"
	}
	uc := tls.UClient(nil, &tls.Config{ServerName: "example.com", Rand: NewRng(in.U64("rseed")), OmitEmptyPsk: true}, id)
	if err := uc.BuildHandshakeState(); err != nil {
		return nil, "build-err:" + sanitize(err.Error())
	}
	return uc.HandshakeState.Hello.Raw, ""
}

func execCHRT(in KV) string {
	raw, why := chInput(in)
	if why != "" {
		return "out=nohello why=" + why
	}
	pub := tls.UnmarshalClientHello(raw)
	if pub == nil {
		return "out=reject raw=" + hx(raw)
	}
	id := vtab.NewIdent()
	f1 := vtab.RenderAll(pub, chLeaves(), id)
	same := 0
	if m, err := pub.Marshal(); err == nil && string(m) == string(raw) {
		same = 1
	}
	pub.Raw = nil
	re, err := pub.Marshal()
	if err != nil {
		return fmt.Sprintf("out=ok raw=%s same=%d f1=%s re=err:%s f2=-", hx(raw), same, f1, sanitize(err.Error()))
	}
	pub2 := tls.UnmarshalClientHello(re)
	f2 := "reject"
	if pub2 != nil {
		f2 = vtab.RenderAll(pub2, chLeaves(), id)
	}
	// edit-after-unmarshal on the SAME view: change one public field, marshal, parse again.
	// What Marshal writes must be the view's current public fields, whatever was converted before.
	kind := in["edit"]
	if kind == "" {
		kind = "sni"
	}
	applyCHEdit(pub, kind)
	f3, re3 := "reject", ""
	if b3, err := pub.Marshal(); err != nil {
		re3, f3 = "err:"+sanitize(err.Error()), "-"
	} else {
		re3 = hx(b3)
		if pub3 := tls.UnmarshalClientHello(b3); pub3 != nil {
			f3 = vtab.RenderAll(pub3, chLeaves(), id)
		}
	}
	return fmt.Sprintf("out=ok raw=%s same=%d f1=%s re=%s f2=%s edit=%s re3=%s f3=%s", hx(raw), same, f1, hx(re), f2, kind, re3, f3)
}

// chEditKinds: the public fields edited after the first conversion (fixed new values; Lean: Drv.C31.applyEdit).
var chEditKinds = []string{"sni", "suites", "sid", "alpn", "ks", "vers", "versions", "cookie"}

func applyCHEdit(pub *tls.PubClientHelloMsg, kind string) {
	switch kind {
	case "sni":
		pub.ServerName = "edited.example.org"
	case "suites":
		pub.CipherSuites = []uint16{0x1302, 0x1303}
	case "sid":
		pub.SessionId = []byte{0x5a, 0x5a, 0x5a, 0x5a, 0x5a, 0x5a, 0x5a}
	case "alpn":
		pub.AlpnProtocols = []string{"h3", "x"}
	case "ks":
		pub.KeyShares = []tls.KeyShare{{Group: 23, Data: []byte{1, 2, 3, 4}}}
	case "vers":
		pub.Vers = 0x0302
	case "versions":
		pub.SupportedVersions = []uint16{0x0304}
	case "cookie":
		pub.Cookie = []byte{9, 9, 9}
	}
}

var _ = strings.Join
