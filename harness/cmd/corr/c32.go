package main

// ---- C32: dicttls tables and the JSON ClientHello format ----
//
// dict_rows   tab=<T> dir=v v=<value> name=<hex name>      every row of every ValueIndexed map (exhaustive)
//             tab=<T> dir=n v=<value> name=<hex name>      every row of every NameIndexed map (exhaustive)
//             => vname=<hex|none> back=<value|none>        the two real map lookups
// json_hello  id=<parrot> rseed=<n>  |  suites=.. comps=.. exts=<desc;desc;..> rseed=<n>
//             => the raw import of the hello, its JSON rendering (names through the ValueIndexed maps),
//                what the real UnmarshalJSON made of it, and the canonical wire hellos both specs produce.

import (
	"encoding/json"
	"fmt"
	"os"
	"strconv"
	"strings"

	tls "github.com/refraction-networking/utls"

	"verif/harness/internal/vtab"
)

func init() {
	register(&Family{
		Name: "dict_rows",
		Gen: func(r *Rng, i int, tier string) string {
			rows := allDictRows()
			if i < len(rows) {
				return rows[i]
			}
			return ""
		},
		Exec: func(in KV) string {
			p := vtab.DictByName(in["tab"])
			if p == nil {
				return "out=no-such-table"
			}
			vname, back := "none", "none"
			if in["dir"] == "v" {
				// the property's path: value -> name through ValueIndexed, name -> value through NameIndexed
				if nm, ok := p.LookupValue(in.U64("v")); ok {
					vname = hx([]byte(nm))
					if v, ok := p.LookupName(nm); ok {
						back = strconv.FormatUint(v, 10)
					}
				}
			} else {
				nm := string(unhex(in["name"]))
				if v, ok := p.LookupName(nm); ok {
					back = strconv.FormatUint(v, 10)
					if n2, ok := p.LookupValue(v); ok {
						vname = hx([]byte(n2))
					}
				}
			}
			return fmt.Sprintf("vname=%s back=%s", vname, back)
		},
	})
	register(&Family{Name: "json_hello", Gen: genJSONHello, Exec: execJSONHello})
}

var dictRowsCache []string

// allDictRows: one input line per row of every ValueIndexed and NameIndexed map (ranged over once).
func allDictRows() []string {
	if dictRowsCache != nil {
		return dictRowsCache
	}
	for i := range vtab.DictPairs {
		p := &vtab.DictPairs[i]
		if p.NameIndexed == nil {
			continue
		}
		for _, r := range p.ValueRows() {
			dictRowsCache = append(dictRowsCache, fmt.Sprintf("tab=%s dir=v v=%d name=%s", p.Name, r.Value, hx([]byte(r.Name))))
		}
		for _, r := range p.NameRows() {
			dictRowsCache = append(dictRowsCache, fmt.Sprintf("tab=%s dir=n v=%d name=%s", p.Name, r.Value, hx([]byte(r.Name))))
		}
	}
	return dictRowsCache
}

// ---------------------------------------------------------------------------------------------
// generation of representable (and a few unrepresentable) specs

func dictValues(name string) []uint64 {
	var out []uint64
	for _, r := range vtab.DictByName(name).ValueRows() {
		out = append(out, r.Value)
	}
	return out
}

func pickSome(r *Rng, xs []uint64, n int) []uint64 {
	var out []uint64
	seen := map[uint64]bool{}
	for len(out) < n && len(seen) < len(xs) {
		v := xs[r.Intn(len(xs))]
		if !seen[v] {
			seen[v] = true
			out = append(out, v)
		}
	}
	return out
}

func genJSONHello(r *Rng, i int, tier string) string {
	if i < len(parrotIDs) {
		return fmt.Sprintf("id=%s rseed=%d", idName(parrotIDs[i]), r.U64()%1000000)
	}
	if i < 2*len(parrotIDs) {
		// the same hellos spelled with the alias names the dictionaries carry (delegated_credential, …)
		return fmt.Sprintf("id=%s rseed=%d alias=1", idName(parrotIDs[i-len(parrotIDs)]), r.U64()%1000000)
	}
	alias := i%3 == 0
	suites := pickSome(r, dictValues("CipherSuite"), 1+r.Intn(14))
	if r.Intn(3) == 0 {
		suites = append([]uint64{0x0a0a}, suites...)
	}
	if r.Intn(25) == 0 {
		suites = append(suites, 0xfafb) // no name: not representable
	}
	comps := Pick(r, []string{"0", "0", "0", "0", "0,1", "1,64,0"})
	grp := func(n int, grease bool) string {
		g := pickSome(r, dictValues("SupportedGroups"), n)
		if grease && r.Intn(2) == 0 {
			g = append([]uint64{0x0a0a}, g...)
		}
		return u64s(g)
	}
	sigs := func() string {
		ss := pickSome(r, dictValues("SignatureScheme"), 1+r.Intn(9))
		if alias && r.Intn(2) == 0 {
			ss = append(ss, 0x0202) // only an alias name ("Reserved for backward compatibility") spells it
		}
		return u64s(ss)
	}
	protos := func() string {
		return hexList(bytesList(Pick(r, [][]string{{"h2", "http/1.1"}, {"h2"}, {"http/1.1"}, {"h3", "h2", "spdy/3.1"}})))
	}
	kinds := []func() string{
		func() string { return "sni|" + hx([]byte("example.com")) },
		func() string { return "status_request" },
		func() string { return "curves|" + grp(1+r.Intn(6), true) },
		func() string { return "points|" + u64s(pickSome(r, dictValues("ECPointFormat"), 1+r.Intn(3))) },
		func() string { return "sigalgs|" + sigs() },
		func() string { return "sigalgs_cert|" + sigs() },
		func() string { return "delegated|" + sigs() },
		func() string { return "alpn|" + protos() },
		func() string { return fmt.Sprintf("alps|%d|%s", r.Intn(2), hexList(bytesList([]string{"h2"}))) },
		func() string { return "sct" },
		func() string { return "ems" },
		func() string { return "grease|0|" + Pick(r, []string{"-", "00", "-"}) },
		func() string { return "grease|0|" + Pick(r, []string{"-", "00", "00"}) },
		func() string {
			return "compress_cert|" + u64s(pickSome(r, dictValues("CertificateCompressionAlgorithm"), 1+r.Intn(3)))
		},
		func() string {
			gs := pickSome(r, []uint64{29, 23, 24, 25}, 1+r.Intn(3))
			if r.Intn(10) == 0 {
				gs = append(gs, Pick(r, []uint64{4588, 25497})) // groups dicttls has no name for: not representable
			}
			var ss []string
			if r.Intn(2) == 0 {
				ss = append(ss, "2570:00")
			}
			for _, g := range gs {
				ss = append(ss, fmt.Sprintf("%d:e", g))
			}
			return "key_share|" + joinList(ss)
		},
		func() string { return "psk_modes|" + Pick(r, []string{"1", "1,0", "0"}) },
		func() string {
			return "versions|" + Pick(r, []string{"2570,772,771", "772,771", "772,771,770,769", "771", "2570,772"})
		},
		func() string { return "reneg|-" },
		func() string { return "npn" },
		func() string { return fmt.Sprintf("channel_id|%d", r.Intn(2)) },
		func() string { return fmt.Sprintf("record_size_limit|%d", Pick(r, []int{1, 16385, 65535, 0x4001})) },
		func() string {
			return fmt.Sprintf("token_binding|%d|%d|%s", r.Intn(3), r.Intn(16), Pick(r, []string{"2", "0,1,2", "1", "-"}))
		},
		func() string { return "session_ticket|-" },
		func() string { return "status_request_v2" },
		func() string { return Pick(r, []string{"generic|15|01", "generic|49|-", "generic|42|-"}) }, // heartbeat, post_handshake_auth, early_data: in dicttls, not implemented
		func() string { return "cookie|" + hx(r.Bytes(8)) },                                         // not importable from raw
		func() string { return fmt.Sprintf("generic|%d|%s", 60+r.Intn(200), hx(r.Bytes(3))) },       // unknown to ExtensionFromID
	}
	n := 3 + r.Intn(12)
	perm := make([]int, len(kinds))
	for k := range perm {
		perm[k] = k
	}
	for k := len(perm) - 1; k > 0; k-- {
		j := r.Intn(k + 1)
		perm[k], perm[j] = perm[j], perm[k]
	}
	var exts []string
	for _, k := range perm {
		if len(exts) >= n {
			break
		}
		if k >= len(kinds)-3 && r.Intn(6) != 0 {
			continue // the unrepresentable kinds are rare
		}
		exts = append(exts, kinds[k]())
	}
	if r.Intn(3) == 0 {
		exts = append(exts, fmt.Sprintf("padding|%d|%d", Pick(r, []int{0, 0, 17, 120}), 1))
	}
	opts := Pick(r, []string{"00", "00", "00", "10", "01", "11", "10"})
	if opts[0] == '1' {
		exts = append(exts, Pick(r, []string{"generic|15|01", "generic|49|-"}))
	}
	if opts != "00" || r.Intn(6) == 0 {
		// pre_shared_key (must be last): a fake PSK with identities, so that it is on the wire
		exts = append(exts, fmt.Sprintf("psk|1|0|0|%s:%d|%s", hx(r.Bytes(6)), r.Intn(100000), hx(r.Bytes(32))))
	}
	optTok := ""
	if opts != "00" {
		optTok = " opts=" + opts
	}
	if alias {
		has := false
		for _, e := range exts {
			has = has || strings.HasPrefix(e, "delegated|")
		}
		if !has {
			exts = append([]string{"delegated|" + sigs()}, exts...)
		}
		return fmt.Sprintf("suites=%s comps=%s exts=%s rseed=%d alias=1%s", u64s(suites), comps, strings.Join(exts, ";"), r.U64()%1000000, optTok)
	}
	return fmt.Sprintf("suites=%s comps=%s exts=%s rseed=%d%s", u64s(suites), comps, strings.Join(exts, ";"), r.U64()%1000000, optTok)
}

// ---------------------------------------------------------------------------------------------
// the hello under test

func helloFromInput(in KV) (raw []byte, err error) {
	cfg := &tls.Config{ServerName: "example.com", Rand: NewRng(in.U64("rseed")), OmitEmptyPsk: true}
	if name, ok := in["id"]; ok {
		id, ok := idByName(name)
		if !ok {
			return nil, fmt.Errorf("bad-id")
		}
		uc := tls.UClient(nil, cfg, id)
		if err := uc.BuildHandshakeState(); err != nil {
			return nil, err
		}
		return uc.HandshakeState.Hello.Raw, nil
	}
	spec := &tls.ClientHelloSpec{CompressionMethods: toU8(parseNats(in["comps"]))}
	spec.CipherSuites = toU16(parseNats(in["suites"]))
	for _, d := range strings.Split(in["exts"], ";") {
		if d == "" || d == "-" {
			continue
		}
		e := buildExt(d)
		if p, ok := e.(*tls.UtlsPaddingExtension); ok && p.PaddingLen == 0 {
			p.GetPaddingLen = tls.BoringPaddingStyle
			p.WillPad = false
		}
		spec.Extensions = append(spec.Extensions, e)
	}
	return wireFromSpec(spec, in.U64("rseed"))
}

func wireFromSpec(spec *tls.ClientHelloSpec, seed uint64) ([]byte, error) {
	cfg := &tls.Config{ServerName: "example.com", Rand: NewRng(seed), OmitEmptyPsk: true}
	uc := tls.UClient(nil, cfg, tls.HelloCustom)
	if err := uc.ApplyPreset(spec); err != nil {
		return nil, err
	}
	if err := uc.BuildHandshakeState(); err != nil {
		return nil, err
	}
	return uc.HandshakeState.Hello.Raw, nil
}

func asRecord(hs []byte) []byte {
	return append([]byte{22, 3, 1, byte(len(hs) >> 8), byte(len(hs))}, hs...)
}

// ---------------------------------------------------------------------------------------------
// shapes: (extension id, values of the extension's name-carrying list)

func unG(v uint16) uint16 {
	if (v>>8) == v&0xff && v&0xf == 0xa {
		return 0x0a0a
	}
	return v
}

// extIDOf returns the wire code point of a spec extension (GREASE extensions: the placeholder).
func extIDOf(e tls.TLSExtension) int {
	switch x := e.(type) {
	case *tls.UtlsGREASEExtension:
		return 0x0a0a
	case *tls.SNIExtension:
		return 0
	case *tls.StatusRequestExtension:
		return 5
	case *tls.SupportedCurvesExtension:
		return 10
	case *tls.SupportedPointsExtension:
		return 11
	case *tls.SignatureAlgorithmsExtension:
		return 13
	case *tls.ALPNExtension:
		return 16
	case *tls.StatusRequestV2Extension:
		return 17
	case *tls.SCTExtension:
		return 18
	case *tls.UtlsPaddingExtension:
		return 21
	case *tls.ExtendedMasterSecretExtension:
		return 23
	case *tls.FakeTokenBindingExtension:
		return 24
	case *tls.UtlsCompressCertExtension:
		return 27
	case *tls.FakeRecordSizeLimitExtension:
		return 28
	case *tls.FakeDelegatedCredentialsExtension:
		return 34
	case *tls.SessionTicketExtension:
		return 35
	case *tls.FakePreSharedKeyExtension, *tls.UtlsPreSharedKeyExtension:
		return 41
	case *tls.SupportedVersionsExtension:
		return 43
	case *tls.CookieExtension:
		return 44
	case *tls.PSKKeyExchangeModesExtension:
		return 45
	case *tls.SignatureAlgorithmsCertExtension:
		return 50
	case *tls.KeyShareExtension:
		return 51
	case *tls.QUICTransportParametersExtension:
		return 57
	case *tls.NPNExtension:
		return 13172
	case *tls.ApplicationSettingsExtension:
		return 17513
	case *tls.ApplicationSettingsExtensionNew:
		return 17613
	case *tls.FakeChannelIDExtension:
		if x.OldExtensionID {
			return 30031
		}
		return 30032
	case *tls.GREASEEncryptedClientHelloExtension:
		return 0xfe0d
	case *tls.RenegotiationInfoExtension:
		return 65281
	case *tls.GenericExtension:
		return int(x.Id)
	}
	return -1
}

// extList returns the values of the list whose elements the JSON format spells as names.
func extList(e tls.TLSExtension) []uint64 {
	var out []uint64
	switch x := e.(type) {
	case *tls.SupportedCurvesExtension:
		for _, c := range x.Curves {
			out = append(out, uint64(c))
		}
	case *tls.SupportedPointsExtension:
		for _, c := range x.SupportedPoints {
			out = append(out, uint64(c))
		}
	case *tls.SignatureAlgorithmsExtension:
		for _, c := range x.SupportedSignatureAlgorithms {
			out = append(out, uint64(c))
		}
	case *tls.SignatureAlgorithmsCertExtension:
		for _, c := range x.SupportedSignatureAlgorithms {
			out = append(out, uint64(c))
		}
	case *tls.FakeDelegatedCredentialsExtension:
		for _, c := range x.SupportedSignatureAlgorithms {
			out = append(out, uint64(c))
		}
	case *tls.UtlsCompressCertExtension:
		for _, c := range x.Algorithms {
			out = append(out, uint64(c))
		}
	case *tls.KeyShareExtension:
		for _, c := range x.KeyShares {
			out = append(out, uint64(c.Group))
		}
	case *tls.PSKKeyExchangeModesExtension:
		for _, c := range x.Modes {
			out = append(out, uint64(c))
		}
	case *tls.SupportedVersionsExtension:
		for _, c := range x.Versions {
			out = append(out, uint64(c))
		}
	case *tls.FakeTokenBindingExtension:
		for _, c := range x.KeyParameters {
			out = append(out, uint64(c))
		}
	}
	return out
}

func dotted(xs []uint64) string {
	if len(xs) == 0 {
		return "-"
	}
	ss := make([]string, len(xs))
	for i, x := range xs {
		ss[i] = strconv.FormatUint(x, 10)
	}
	return strings.Join(ss, ".")
}

func specShape(prefix string, s *tls.ClientHelloSpec) string {
	var es []string
	for _, e := range s.Extensions {
		es = append(es, fmt.Sprintf("%d:%s", extIDOf(e), dotted(extList(e))))
	}
	if len(es) == 0 {
		es = []string{"-"}
	}
	return fmt.Sprintf("%ssuites=%s %scomps=%s %sexts=%s", prefix, nats16(s.CipherSuites), prefix, u8list(s.CompressionMethods), prefix, strings.Join(es, ";"))
}

// ---------------------------------------------------------------------------------------------
// JSON rendering of a raw-imported spec: code points -> names through the ValueIndexed maps

type unrep struct{ why string }

func nameOf(table string, v uint64, grease bool) string {
	if grease && unG(uint16(v)) == 0x0a0a && v <= 0xffff {
		return "GREASE"
	}
	if jsonAliasMode {
		// spell the code point by the alias name the registry documents for it (hand-written expectation,
		// vtab.ExpectedAliases — NOT read back from the name-indexed map, which is what is under test)
		if a, ok := vtab.AliasSpelling(table, v); ok {
			if _, present := vtab.DictByName(table).LookupName(a); present { // a dropped alias is not an error
				return a
			}
		}
	}
	nm, ok := vtab.DictByName(table).LookupValue(v)
	if !ok {
		panic(unrep{fmt.Sprintf("%s:%d", table, v)})
	}
	return nm
}

// jsonAliasMode: render with alias spellings where the expectation table has one (input alias=1).
var jsonAliasMode bool

func namesOf(table string, vs []uint64, grease bool) []string {
	out := []string{}
	for _, v := range vs {
		out = append(out, nameOf(table, v, grease))
	}
	return out
}

var versionNames = map[uint64]string{0x0304: "TLS 1.3", 0x0303: "TLS 1.2", 0x0302: "TLS 1.1", 0x0301: "TLS 1.0"}
var tokenBindingNames = map[uint64]string{0: "rsa2048_pkcs1.5", 1: "rsa2048_pss", 2: "ecdsap256"}

func litNames(m map[uint64]string, what string, vs []uint64, grease bool) []string {
	out := []string{}
	for _, v := range vs {
		if grease && v <= 0xffff && unG(uint16(v)) == 0x0a0a {
			out = append(out, "GREASE")
			continue
		}
		nm, ok := m[v]
		if !ok {
			panic(unrep{fmt.Sprintf("%s:%d", what, v)})
		}
		out = append(out, nm)
	}
	return out
}

func ints(b []byte) []int {
	out := make([]int, len(b))
	for i, x := range b {
		out[i] = int(x)
	}
	return out
}

// renderJSON returns the JSON document and its name skeleton (for the Lean model):
// jsuites / jcomps = hex names; jexts = <hex ext name>:<hex name>.<hex name>...;...
func renderJSON(s *tls.ClientHelloSpec, wire []byte) (doc []byte, skeleton string, why string) {
	defer func() {
		if p := recover(); p != nil {
			if u, ok := p.(unrep); ok {
				doc, skeleton, why = nil, "", u.why
				return
			}
			panic(p)
		}
	}()
	hexNames := func(ns []string, sep string) string {
		if len(ns) == 0 {
			return "-"
		}
		ss := make([]string, len(ns))
		for i, n := range ns {
			ss[i] = hx([]byte(n))
		}
		return strings.Join(ss, sep)
	}
	var suiteVals, compVals []uint64
	for _, c := range s.CipherSuites {
		suiteVals = append(suiteVals, uint64(c))
	}
	for _, c := range s.CompressionMethods {
		compVals = append(compVals, uint64(c))
	}
	suites := namesOf("CipherSuite", suiteVals, true)
	comps := namesOf("CompMeth", compVals, false)
	var exts []map[string]any
	var skel []string
	padLens := wirePaddingLens(wire)
	for _, e := range s.Extensions {
		obj := map[string]any{}
		var list []string
		id := extIDOf(e)
		if id < 0 {
			panic(unrep{fmt.Sprintf("ext-without-id:%T", e)})
		}
		name := nameOf("ExtType", uint64(id), true)
		obj["name"] = name
		vals := extList(e)
		switch x := e.(type) {
		case *tls.UtlsGREASEExtension:
			if len(x.Body) > 0 {
				// the format keeps a GREASE body only together with an explicit GREASE id
				obj["id"] = 0x0a0a
				obj["data"] = x.Body
				obj["keep_data"] = true
			}
		case *tls.SupportedCurvesExtension:
			list = namesOf("SupportedGroups", vals, true)
			obj["named_group_list"] = list
		case *tls.SupportedPointsExtension:
			list = namesOf("ECPointFormat", vals, false)
			obj["ec_point_format_list"] = list
		case *tls.SignatureAlgorithmsExtension, *tls.SignatureAlgorithmsCertExtension, *tls.FakeDelegatedCredentialsExtension:
			list = namesOf("SignatureScheme", vals, true)
			obj["supported_signature_algorithms"] = list
		case *tls.ALPNExtension:
			obj["protocol_name_list"] = x.AlpnProtocols
		case *tls.ApplicationSettingsExtension:
			obj["supported_protocols"] = x.SupportedProtocols
		case *tls.ApplicationSettingsExtensionNew:
			obj["supported_protocols"] = x.SupportedProtocols
		case *tls.UtlsCompressCertExtension:
			list = namesOf("CertificateCompressionAlgorithm", vals, false)
			obj["algorithms"] = list
		case *tls.KeyShareExtension:
			list = namesOf("SupportedGroups", vals, true)
			var shares []map[string]any
			for i, ks := range x.KeyShares {
				sh := map[string]any{"group": list[i]}
				if len(ks.Data) > 0 {
					sh["key_exchange"] = ints(ks.Data)
				}
				shares = append(shares, sh)
			}
			obj["client_shares"] = shares
		case *tls.PSKKeyExchangeModesExtension:
			list = namesOf("PSKKeyExchangeMode", vals, false)
			obj["ke_modes"] = list
		case *tls.SupportedVersionsExtension:
			list = litNames(versionNames, "version", vals, true)
			obj["versions"] = list
		case *tls.CookieExtension:
			obj["cookie"] = ints(x.Cookie)
		case *tls.FakeRecordSizeLimitExtension:
			obj["record_size_limit"] = x.Limit
		case *tls.FakeTokenBindingExtension:
			list = litNames(tokenBindingNames, "token_binding_key_parameter", vals, false)
			obj["token_binding_version"] = map[string]any{"major": x.MajorVersion, "minor": x.MinorVersion}
			obj["key_parameters_list"] = list
		case *tls.UtlsPaddingExtension:
			// the hello's own padding length when it had one; 0 = BoringSSL style
			n := 0
			if len(padLens) > 0 {
				n = padLens[0]
			}
			obj["len"] = n
		case *tls.FakePreSharedKeyExtension:
			obj["identities"] = x.Identities
			obj["binders"] = x.Binders
		case *tls.UtlsPreSharedKeyExtension:
			// a description of the hello carries what the hello carried: identities and binders of the
			// wire extension (decoded with the fake extension's parser); the importer with UseRealPSK
			// ignores them, an importer that falls back to the fake extension replays them
			_, _, _, wexts, _ := parseWireHello(wire)
			for _, we := range wexts {
				if we.id == 41 {
					f := &tls.FakePreSharedKeyExtension{}
					if _, err := f.Write(we.body); err == nil {
						obj["identities"] = f.Identities
						obj["binders"] = f.Binders
					}
				}
			}
		case *tls.GenericExtension:
			// only reachable under blunt mimicry: the format's generic form (name + payload)
			obj["data"] = x.Data
		case *tls.SNIExtension, *tls.StatusRequestExtension, *tls.StatusRequestV2Extension, *tls.SCTExtension,
			*tls.ExtendedMasterSecretExtension, *tls.NPNExtension, *tls.RenegotiationInfoExtension,
			*tls.FakeChannelIDExtension, *tls.SessionTicketExtension:
		default:
			panic(unrep{fmt.Sprintf("no-json-form:%T", e)})
		}
		exts = append(exts, obj)
		skel = append(skel, hx([]byte(name))+":"+hexNames(list, "."))
	}
	top := map[string]any{"cipher_suites": suites, "compression_methods": comps, "extensions": exts}
	if exts == nil {
		top["extensions"] = []any{}
	}
	if s.TLSVersMin != 0 {
		top["min_vers"] = s.TLSVersMin
	}
	if s.TLSVersMax != 0 {
		top["max_vers"] = s.TLSVersMax
	}
	doc, err := json.Marshal(top)
	if err != nil {
		panic(err)
	}
	sk := "-"
	if len(skel) > 0 {
		sk = strings.Join(skel, ";")
	}
	return doc, fmt.Sprintf("jsuites=%s jcomps=%s jexts=%s", hexNames(suites, ","), hexNames(comps, ","), sk), ""
}

// ---------------------------------------------------------------------------------------------
// canonical form of a wire ClientHello "modulo GREASE and per-connection material":
// GREASE code points -> 0a0a; random, session id, key-share key material, PSK identities/binders
// and ticket bytes -> their lengths; everything else verbatim.

type wireExt struct {
	id   uint16
	body []byte
}

func parseWireHello(hs []byte) (vers uint16, suites []uint16, comps []byte, exts []wireExt, ok bool) {
	p := 4
	u8 := func() int { v := int(hs[p]); p++; return v }
	u16 := func() int { v := int(hs[p])<<8 | int(hs[p+1]); p += 2; return v }
	defer func() {
		if recover() != nil {
			ok = false
		}
	}()
	vers = uint16(u16())
	p += 32
	p += u8()
	n := u16()
	for end := p + n; p < end; {
		suites = append(suites, uint16(u16()))
	}
	n = u8()
	comps = hs[p : p+n]
	p += n
	if p == len(hs) {
		return vers, suites, comps, nil, true
	}
	n = u16()
	for end := p + n; p < end; {
		id := uint16(u16())
		l := u16()
		exts = append(exts, wireExt{id, hs[p : p+l]})
		p += l
	}
	return vers, suites, comps, exts, p == len(hs)
}

func wirePaddingLens(hs []byte) []int {
	_, _, _, exts, ok := parseWireHello(hs)
	var out []int
	if ok {
		for _, e := range exts {
			if e.id == 21 {
				out = append(out, len(e.body))
			}
		}
	}
	return out
}

func u16sOf(b []byte) []uint16 {
	var out []uint16
	for i := 0; i+1 < len(b); i += 2 {
		out = append(out, uint16(b[i])<<8|uint16(b[i+1]))
	}
	return out
}

func unGs(xs []uint16) []uint16 {
	out := make([]uint16, len(xs))
	for i, x := range xs {
		out[i] = unG(x)
	}
	return out
}

// canonPadPresenceOnly: with a real PSK extension (omitted without a session) the raw import's
// AlwaysPadToLen compensates for the missing extension while a JSON "len" is fixed: the padding length then
// depends on per-connection material and only the presence of the padding extension is compared.
var canonPadPresenceOnly bool

func canonWire(hs []byte) string {
	vers, suites, comps, exts, ok := parseWireHello(hs)
	if !ok {
		return "unparsable"
	}
	var es []string
	for _, e := range exts {
		id := unG(e.id)
		b := e.body
		var c string
		switch {
		case id == 10 && len(b) >= 2, id == 13 && len(b) >= 2, id == 50 && len(b) >= 2, id == 34 && len(b) >= 2:
			c = "l" + dottedU16(unGs(u16sOf(b[2:])))
		case id == 43 && len(b) >= 1:
			c = "l" + dottedU16(unGs(u16sOf(b[1:])))
		case id == 51 && len(b) >= 2:
			var ss []string
			for p := 2; p+4 <= len(b); {
				g := unG(uint16(b[p])<<8 | uint16(b[p+1]))
				l := int(b[p+2])<<8 | int(b[p+3])
				ss = append(ss, fmt.Sprintf("%d-%d", g, l))
				p += 4 + l
			}
			c = "k" + strings.Join(ss, ".")
		case id == 41, id == 35:
			c = fmt.Sprintf("n%d", len(b))
		case id == 21:
			c = fmt.Sprintf("p%d", len(b))
			if canonPadPresenceOnly {
				c = "p"
			}
		default:
			c = "x" + hx(b)
		}
		es = append(es, fmt.Sprintf("%d:%s", id, c))
	}
	if len(es) == 0 {
		es = []string{"-"}
	}
	return fmt.Sprintf("%d/%s/%s/%s", vers, nats16(unGs(suites)), hx(comps), strings.Join(es, ";"))
}

func dottedU16(xs []uint16) string {
	ys := make([]uint64, len(xs))
	for i, x := range xs {
		ys[i] = uint64(x)
	}
	return dotted(ys)
}

// ---------------------------------------------------------------------------------------------

func execJSONHello(in KV) string {
	hello, err := helloFromInput(in)
	if err != nil {
		return "out=nohello msg=" + sanitize(err.Error())
	}
	rec := asRecord(hello)
	// option dimension: AllowUnknownExt / UseRealPSK of the JSON importer against the raw importer's
	// AllowBluntMimicry / RealPSKResumption (opts=<a><p>, default 00)
	opts := in["opts"]
	if len(opts) != 2 {
		opts = "00"
	}
	allow, realPSK := opts[0] == '1', opts[1] == '1'
	canonPadPresenceOnly = realPSK
	defer func() { canonPadPresenceOnly = false }()
	fp := func() *tls.Fingerprinter {
		return &tls.Fingerprinter{AllowBluntMimicry: allow, RealPSKResumption: realPSK}
	}
	jsonImport := func(doc []byte) (*tls.ClientHelloSpec, error) {
		if !allow && !realPSK {
			js := &tls.ClientHelloSpec{}
			return js, js.UnmarshalJSON(doc)
		}
		// the documented way to pass the options: pre-populate the Extensions unmarshaler
		// genericExtension() prints a warning to os.Stderr for every generic fallback: keep it off the line stream
		if dn, err := os.OpenFile(os.DevNull, os.O_WRONLY, 0); err == nil {
			saved := os.Stderr
			os.Stderr = dn
			defer func() { os.Stderr = saved; dn.Close() }()
		}
		u := tls.ClientHelloSpecJSONUnmarshaler{Extensions: &tls.TLSExtensionsJSONUnmarshaler{AllowUnknownExt: allow, UseRealPSK: realPSK}}
		if err := json.Unmarshal(doc, &u); err != nil {
			return nil, err
		}
		js := u.ClientHelloSpec()
		return &js, nil
	}
	rspec, err := fp().RawClientHello(rec)
	if err != nil {
		return "out=rawerr msg=" + sanitize(err.Error())
	}
	rshape := specShape("r", rspec)
	jsonAliasMode = in["alias"] == "1"
	doc, skeleton, why := renderJSON(rspec, hello)
	jsonAliasMode = false
	if why != "" {
		return "out=unrep why=" + sanitize(why) + " " + rshape
	}
	jspec, err := jsonImport(doc)
	if err != nil {
		return fmt.Sprintf("out=jsonerr msg=%s %s %s", sanitize(err.Error()), skeleton, rshape)
	}
	jshape := specShape("s", jspec)
	// fresh imports for the two wire hellos (ApplyPreset keeps and mutates the spec's extensions)
	rspec2, _ := fp().RawClientHello(rec)
	jspec2, _ := jsonImport(doc)
	seed := in.U64("rseed") + 1
	rw, rerr := wireFromSpec(rspec2, seed)
	jw, jerr := wireFromSpec(jspec2, seed)
	rcanon, jcanon := "err:"+errStr(rerr), "err:"+errStr(jerr)
	if rerr == nil {
		rcanon = canonWire(rw)
	}
	if jerr == nil {
		jcanon = canonWire(jw)
	}
	return fmt.Sprintf("out=ok %s %s %s orig=%s rwire=%s jwire=%s", skeleton, jshape, rshape, canonWire(hello), rcanon, jcanon)
}

func errStr(err error) string {
	if err == nil {
		return "-"
	}
	return sanitize(err.Error())
}
