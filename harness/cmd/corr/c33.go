package main

// C33 — hostile server input never crashes or hangs a uTLS client.
//
//	c33_decomp  decompressCert on generated compressed-certificate messages, allocation measured
//	c33_conn    real UConn handshakes against the in-package server whose outgoing handshake messages are
//	            mutated before transcript hashing/encryption (VerifServerHooks.RewriteHandshake)
//	c33_rec     raw record streams: garbage / floods of CCS, alerts, empty records after a valid prefix
//	c33_loop    post-handshake read loop under sequences of useless and advancing records
//	c33_hrr     HelloRetryRequest with a cookie against extension lists of every small length
//
// Every client call runs under the connection deadline; a Go panic is recovered and reported as
// out=panic, a call that outlives deadline+grace as out=timeout; heap allocation during the case is
// reported as a class (lt1M, lt32M, more).

import (
	"bytes"
	"compress/zlib"
	"errors"
	"fmt"
	"io"
	"net"
	"os"
	"strconv"
	"strings"
	"sync"
	"time"

	"github.com/andybalholm/brotli"
	"github.com/klauspost/compress/zstd"
	tls "github.com/refraction-networking/utls"
)

// ---- the hostile runner ----

type hostileOpts struct {
	ID          tls.ClientHelloID
	Spec        *tls.ClientHelloSpec
	ClientCfg   *tls.Config
	ServerCfg   *tls.Config
	Hooks       *tls.VerifServerHooks
	ServerWrite func(p []byte) []byte // replaces each raw write of the server (record level)
	ClientDL    time.Duration
	ServerDL    time.Duration
	Reads       int
	ServerAfter func(srv *tls.Conn) // runs after the server's handshake succeeded
	RawServer   func(c net.Conn)    // if set, replaces the TLS server entirely (raw peer)
	Reset       func()              // resets the state of the closures above before a re-run
	Prepare     func(u *tls.UConn) error // runs on the client before Handshake (session / PSK injection)
}

type hostileRes struct {
	Out     string   // ok | err | panic | timeout
	HS      string   // errClass of Handshake
	Reads   []string // per Read: "d<n>" or error class
	Srv     string
	PanicAt string
	Alloc   uint64
	Late    bool
	U       *tls.UConn
	Wire    []byte
	SrvWire []byte
}

func compactPSK(id tls.ClientHelloID) bool { return strings.Contains(id.Version, "PSK") }

var warmOnce sync.Once

func warmUp() {
	warmOnce.Do(func() {
		kit()
		for _, id := range []tls.ClientHelloID{tls.HelloChrome_120, tls.HelloFirefox_105, tls.HelloIOS_14} {
			runHostile(hostileOpts{ID: id, Reads: 1})
		}

	})
}

// runHostile runs one case; a case that missed its deadline is run once more on a fresh connection and
// counts as a timeout only if it misses it again (a genuine hang reproduces; a scheduling hiccup of a
// loaded machine does not).
func runHostile(o hostileOpts) *hostileRes {
	res := runHostileOnce(o)
	if res.Out == "timeout" {
		if o.Reset != nil {
			o.Reset()
		}
		if res2 := runHostileOnce(o); res2.Out != "timeout" {
			return res2
		}
	}
	return res
}

func runHostileOnce(o hostileOpts) *hostileRes {
	res := &hostileRes{Out: "err", HS: "-", Srv: "-"}
	if o.ClientDL == 0 {
		o.ClientDL = 2 * time.Second
	}
	if o.ServerDL == 0 {
		o.ServerDL = 400 * time.Millisecond
	}
	cRaw, sRaw, err := tcpPair()
	if err != nil {
		res.HS = "harness:" + sanitize(err.Error())
		return res
	}
	defer cRaw.Close()
	defer sRaw.Close()
	start := time.Now()
	cRaw.SetDeadline(start.Add(o.ClientDL))
	sRaw.SetDeadline(start.Add(o.ServerDL))
	cRec := &recConn{Conn: cRaw}
	sRec := &recConn{Conn: sRaw, OnWrite: o.ServerWrite}
	sDone := make(chan struct{})
	if o.RawServer != nil {
		go func() {
			defer close(sDone)
			defer sRaw.Close()
			o.RawServer(sRec)
		}()
	} else {
		if o.Hooks != nil {
			tls.VerifSetServerHooks(sRec, o.Hooks)
			defer tls.VerifSetServerHooks(sRec, nil)
		}
		srv := tls.Server(sRec, defaultServerCfg(o.ServerCfg))
		go func() {
			defer close(sDone)
			defer sRaw.Close()
			defer func() {
				if p := recover(); p != nil {
					res.Srv = "panic:" + sanitize(fmt.Sprint(p))
				}
			}()
			if err := srv.Handshake(); err != nil {
				res.Srv = errClass(err)
				return
			}
			res.Srv = "ok"
			if o.ServerAfter != nil {
				o.ServerAfter(srv)
			}
			// hostile peer: no close_notify. Half-close so that the client sees EOF right after the data,
			// then drain until the client goes away (avoids a reset that could destroy unread data).
			if tc, ok := sRaw.(*net.TCPConn); ok {
				tc.CloseWrite()
			}
			sRaw.SetReadDeadline(time.Now().Add(150 * time.Millisecond))
			io.Copy(io.Discard, sRaw)
		}()
	}
	ccfg := defaultClientCfg(o.ClientCfg)
	if compactPSK(o.ID) {
		ccfg.OmitEmptyPsk = true
	}
	u := tls.UClient(cRec, ccfg, o.ID)
	res.U = u
	cDone := make(chan struct{})
	var clientDone time.Time
	go func() {
		defer close(cDone)
		defer func() { clientDone = time.Now() }()
		defer func() {
			if p := recover(); p != nil {
				res.Out = "panic"
				res.PanicAt = sanitize(fmt.Sprint(p))
			}
		}()
		if o.Spec != nil {
			if err := u.ApplyPreset(o.Spec); err != nil {
				res.HS = "preset:" + sanitize(err.Error())
				return
			}
		}
		if o.Prepare != nil {
			if err := o.Prepare(u); err != nil {
				res.HS = "prepare:" + sanitize(err.Error())
				return
			}
		}
		if err := u.Handshake(); err != nil {
			res.HS = errClass(err)
			return
		}
		res.HS = "ok"
		res.Out = "ok"
		buf := make([]byte, 64)
		for i := 0; i < o.Reads; i++ {
			n, err := u.Read(buf)
			if err != nil {
				if n > 0 { // data and an error from the look-ahead for a pending alert record
					res.Reads = append(res.Reads, "d"+strconv.Itoa(n))
					i++
				}
				cls := errClass(err)
				res.Reads = append(res.Reads, cls)
				if !(cls == "eof" && i > 0) { // the peer going away after data is a normal end
					res.Out = "err"
				}
				return
			}
			res.Reads = append(res.Reads, "d"+strconv.Itoa(n))
		}
	}()
	grace := 1500 * time.Millisecond
	select {
	case <-cDone:
	case <-time.After(o.ClientDL + grace):
		res.Out = "timeout"
		cRaw.Close()
		sRaw.Close()
		select {
		case <-cDone:
		case <-time.After(2 * time.Second):
		}
	}
	if res.Out != "timeout" && res.Out != "panic" && !clientDone.IsZero() && clientDone.Sub(start) > o.ClientDL+grace/2 {
		res.Late = true
		res.Out = "timeout"
	}
	cRaw.Close()
	select {
	case <-sDone:
	case <-time.After(o.ServerDL + time.Second):
		sRaw.Close()
		<-sDone
	}
	res.Wire = cRec.Written()
	res.SrvWire = sRec.Written()
	return res
}

// stageOf classifies how deep the client got before it stopped, from its error class.
func stageOf(hs string, reads []string) string {
	if hs == "ok" {
		for i, r := range reads {
			if !strings.HasPrefix(r, "d") {
				if r == "eof" && i > 0 {
					return "done"
				}
				return "post:" + shortCls(r)
			}
		}
		return "done"
	}
	return "hs:" + shortCls(hs)
}

// shortCls maps an error class to a coarse stage label.
func shortCls(c string) string {
	switch {
	case strings.Contains(c, "received_unexpected_handshake_message"):
		return "statemachine"
	case strings.Contains(c, "unexpected_message") || strings.Contains(c, "unexpected message"):
		return "unexpected"
	case strings.Contains(c, "exceeds_maximum"):
		return "toolong"
	case c == "timeout":
		return "deadline"
	case c == "eof":
		return "eof"
	case strings.Contains(c, "too_many"):
		return "toomany"
	case strings.Contains(c, "decompress") || strings.Contains(c, "decompressed") || strings.Contains(c, "unadvertised"):
		return "decompress"
	case strings.Contains(c, "bad_record_MAC") || strings.Contains(c, "bad_record_mac") || strings.Contains(c, "decrypt") || strings.Contains(c, "invalid_signature") ||
		strings.Contains(c, "finished_hash") || strings.Contains(c, "verify") || strings.Contains(c, "x509") || strings.Contains(c, "certificate"):
		return "crypto"
	case strings.HasPrefix(c, "ralert:"):
		return "peer-alert"
	default:
		return "semantic"
	}
}

// ---- compressed certificates ----

func compressWith(alg int, data []byte) []byte {
	var b bytes.Buffer
	switch alg {
	case 1:
		w := zlib.NewWriter(&b)
		w.Write(data)
		w.Close()
	case 2:
		w := brotli.NewWriter(&b)
		w.Write(data)
		w.Close()
	case 3:
		// a 1 MiB window, as in the bombs: the decoder allocates the window the frame header declares,
		// so an ordinary stream must not declare more than it needs (hostile windows are `zwin:<log>`)
		w, _ := zstd.NewWriter(&b, zstd.WithEncoderConcurrency(1), zstd.WithWindowSize(1<<20))
		w.Write(data)
		w.Close()
	default:
		b.Write(data)
	}
	return b.Bytes()
}

// bombBody returns (cached) the compression of mib MiB of zeros: a few dozen bytes to a few KiB that
// inflate far beyond any certificate (decompression bomb). Built by streaming, outside any measured window.
var (
	bombMu    sync.Mutex
	bombCache = map[[2]int][]byte{}
)

func bombBody(alg, mib int) []byte {
	bombMu.Lock()
	defer bombMu.Unlock()
	if b, ok := bombCache[[2]int{alg, mib}]; ok {
		return b
	}
	var b bytes.Buffer
	var w io.WriteCloser
	switch alg {
	case 1:
		w = zlib.NewWriter(&b)
	case 2:
		w = brotli.NewWriterLevel(&b, 5)
	case 3:
		zw, _ := zstd.NewWriter(&b, zstd.WithEncoderConcurrency(1), zstd.WithWindowSize(1<<20), zstd.WithEncoderLevel(zstd.SpeedFastest))
		w = zw
	default:
		return nil
	}
	chunk := make([]byte, 1<<20)
	for i := 0; i < mib; i++ {
		w.Write(chunk)
	}
	w.Close()
	out := append([]byte(nil), b.Bytes()...)
	bombCache[[2]int{alg, mib}] = out
	return out
}

// certBombBody: compression of prefix followed by 32 MiB of zeros (cached per algorithm and prefix length).
func certBombBody(alg int, prefix []byte) []byte {
	bombMu.Lock()
	defer bombMu.Unlock()
	key := [2]int{alg + 100, len(prefix)}
	if b, ok := bombCache[key]; ok && len(prefix) == len(bombPrefix[key]) && bytes.Equal(prefix, bombPrefix[key]) {
		return b
	}
	var b bytes.Buffer
	var w io.WriteCloser
	switch alg {
	case 1:
		w = zlib.NewWriter(&b)
	case 2:
		w = brotli.NewWriterLevel(&b, 5)
	case 3:
		zw, _ := zstd.NewWriter(&b, zstd.WithEncoderConcurrency(1), zstd.WithWindowSize(1<<20), zstd.WithEncoderLevel(zstd.SpeedFastest))
		w = zw
	default:
		return prefix
	}
	w.Write(prefix)
	chunk := make([]byte, 1<<20)
	for i := 0; i < 32; i++ {
		w.Write(chunk)
	}
	w.Close()
	out := append([]byte(nil), b.Bytes()...)
	bombCache[key] = out
	bombPrefix[key] = append([]byte(nil), prefix...)
	return out
}

var bombPrefix = map[[2]int][]byte{}

// certBody13 is a plausible TLS 1.3 Certificate message body: empty context, one entry.
func certBody13(der []byte) []byte {
	return cat([]byte{0}, bVec24(cat(bVec24(der), bU16(0))))
}

// c33_decomp: k=alg, decl policy, body policy.
func genDecomp(r *Rng, i int, tier string) string {
	alg := Pick(r, []int{1, 2, 3, 1, 2, 3, 1, 2, 3, 0, 4, 0xffff})
	adv := Pick(r, []string{"1,2,3", "1,2,3", "1,2,3", "2", "1", "3", "-", "2,3", "1,2"})
	content := Pick(r, []string{"cert", "cert", "cert", "zeros:1000", "zeros:300000", "zeros:70000", "rand:200", "empty"})
	decl := Pick(r, []string{"exact", "exact", "exact", "minus1", "plus1", "zero", "limit", "limit1", "huge", "huge", "max"})
	body := Pick(r, []string{"good", "good", "good", "good", "trunc", "garbage", "empty", "flip"})
	if i%4 == 3 { // decompression bombs: tiny body, huge inflated size, small valid declared length
		alg = Pick(r, []int{1, 2, 3})
		adv = Pick(r, []string{"1,2,3", "1,2,3", strconv.Itoa(alg)})
		content = fmt.Sprintf("bomb:%d", Pick(r, []int{8, 32}))
		decl = Pick(r, []string{"small", "small", "zero", "limit", "cert"})
		body = "good"
	}
	if i%9 == 5 { // a few dozen bytes of zstd whose frame header declares a window of 2^log bytes (D34)
		alg = 3
		adv = Pick(r, []string{"1,2,3", "3", "2,3"})
		content = fmt.Sprintf("zwin:%d", Pick(r, []int{20, 22, 23, 24, 27, 29}))
		decl = Pick(r, []string{"exact", "small", "limit", "plus1"})
		body = "good"
	}
	return fmt.Sprintf("alg=%d adv=%s content=%s decl=%s body=%s salt=%d", alg, adv, content, decl, body, r.Intn(1000))
}

// zwinBody: 6000 zero bytes as a zstd stream in two flushed parts (so the frame is not single-segment)
// whose frame header declares a window of 2^wlog bytes.
func zwinBody(wlog int) []byte {
	var b bytes.Buffer
	zw, err := zstd.NewWriter(&b, zstd.WithEncoderConcurrency(1), zstd.WithWindowSize(1<<wlog))
	if err != nil {
		return nil
	}
	zw.Write(make([]byte, 3000))
	zw.Flush()
	zw.Write(make([]byte, 3000))
	zw.Close()
	return b.Bytes()
}

func decompInputs(in KV) (alg int, adv []tls.CertCompressionAlgo, decl uint32, body []byte, plainLen int) {
	alg = in.Int("alg")
	for _, a := range splitList(in["adv"]) {
		v, _ := strconv.Atoi(a)
		adv = append(adv, tls.CertCompressionAlgo(v))
	}
	var plain []byte
	name, arg, _ := strings.Cut(in["content"], ":")
	n, _ := strconv.Atoi(arg)
	switch name {
	case "cert":
		plain = certBody13(kit().leaf["ecdsa"].Certificate[0])
	case "zeros":
		plain = make([]byte, n)
	case "rand":
		plain = NewRng(uint64(in.Int("salt"))).Bytes(n)
	case "empty":
	}
	plainLen = len(plain)
	if name == "bomb" {
		plainLen = n << 20
		body = bombBody(alg, n)
	} else if name == "zwin" {
		plainLen = 6000
		body = zwinBody(n)
	} else {
		body = compressWith(alg, plain)
	}
	salt := in.Int("salt")
	switch in["body"] {
	case "trunc":
		if len(body) > 0 {
			body = body[:len(body)-1-salt%len(body)]
		}
	case "garbage":
		body = NewRng(uint64(salt)).Bytes(20 + salt%50)
	case "empty":
		body = nil
	case "flip":
		if len(body) > 0 {
			body = append([]byte(nil), body...)
			body[salt%len(body)] ^= 0x55
		}
	}
	switch in["decl"] {
	case "exact":
		decl = uint32(plainLen)
	case "small":
		decl = 1500
	case "cert":
		decl = 483
	case "minus1":
		if len(plain) > 0 {
			decl = uint32(len(plain) - 1)
		}
	case "plus1":
		decl = uint32(len(plain) + 1)
	case "zero":
		decl = 0
	case "limit":
		decl = 262144
	case "limit1":
		decl = 262145
	case "huge":
		decl = uint32(8<<20 + salt*4096)
	case "max":
		decl = 0xffffff
	}
	return
}

func execDecomp(in KV) string {
	warmUp()
	alg, adv, decl, body, plainLen := decompInputs(in)
	var n int
	var errText string
	var wrote []byte
	alloc := allocDelta(func() {
		n, errText, wrote = tls.VerifFuzzDecompressCert(adv, tls.VerifCompressedCert{Algorithm: uint16(alg), UncompressedLength: decl, Body: body})
	})
	res := "ok"
	if errText != "" {
		switch {
		case strings.Contains(errText, "unadvertised"):
			res = "unadvertised"
		case strings.Contains(errText, "unsupported algorithm"):
			res = "unsupported"
		case strings.Contains(errText, "does not match"):
			res = "lenmismatch"
		case strings.Contains(errText, "exceeds maximum"):
			res = "toolarge"
		case strings.Contains(errText, "exceeds specified len"):
			res = "lenexceeds"
		case strings.Contains(errText, "unexpected message"):
			res = "badcert"
		default:
			res = "decoder"
		}
	}
	al := "-"
	if rs := splitRecords(wrote); len(rs) > 0 && len(rs[0].Payload) == 2 {
		al = fmt.Sprint(rs[0].Payload[1])
	}
	if os.Getenv("VERIF_ALLOC_DEBUG") != "" {
		fmt.Fprintf(os.Stderr, "decomp alg=%d content=%s decl=%d alloc=%d\n", alg, in["content"], decl, alloc)
	}
	return fmt.Sprintf("out=%s res=%s n=%d alert=%s decl=%d plain=%d alloc=%s alloc8=%d allocge=%d", ifs(errText == "", "ok", "err"), res, n, al, decl, plainLen, allocClass(alloc), bi(alloc >= 8<<20),
		bi(alloc >= uint64(decl)))
}

// ---- c33_conn: mutated server flights ----

// serverMsgPlan describes what the in-package server will send, so that a target can be chosen.
var connIDs []tls.ClientHelloID

func connIDList() []tls.ClientHelloID {
	if connIDs == nil {
		connIDs = append(connIDs, parrotIDs...)
		connIDs = append(connIDs, tls.HelloGolang)
	}
	return connIDs
}

func idOrGolang(name string) tls.ClientHelloID {
	if id, ok := idByName(name); ok {
		return id
	}
	panic("unknown id " + name)
}

// structured mutations of specific server messages
//
//	alps:<cp>:<n>        append an ALPS extension with n bytes of settings to EncryptedExtensions
//	eeext:<type>:<n>     append an arbitrary extension to EncryptedExtensions
//	cc:<alg>:<decl>:<body>  replace Certificate by CompressedCertificate (decl/body policies of c33_decomp)
//	shext:<type>:<n>     append an extension to ServerHello / HelloRetryRequest
//	cookie:<n>           append a cookie extension of n bytes to the HelloRetryRequest
//	tkt:<field>:<v>      rewrite a field of NewSessionTicket (TLS 1.3): life, nonce, label, ext
func structuredMutation(msg []byte, mut string, salt int) ([]byte, bool) {
	p := strings.Split(mut, ":")
	geti := func(i int) int {
		if i < len(p) {
			v, _ := strconv.Atoi(p[i])
			return v
		}
		return 0
	}
	appendExt := func(off int, t int, d []byte) []byte {
		// msg = hdr(4) | fixed(off) | vec16 exts | (nothing after). off is the offset of the extensions vector in the body.
		if len(msg) < 4+off+2 {
			return msg
		}
		body := msg[4:]
		exts := append(append([]byte(nil), body[off+2:]...), bExt(t, d)...)
		nb := cat(body[:off], bVec16(exts))
		return hsMsg(msg[0], nb)
	}
	payload := func(n int) []byte { return NewRng(uint64(salt) + 77).Bytes(n) }
	switch p[0] {
	case "alps":
		if msg[0] != 8 {
			return msg, false
		}
		return appendExt(0, geti(1), payload(geti(2))), true
	case "eeext":
		if msg[0] != 8 {
			return msg, false
		}
		return appendExt(0, geti(1), payload(geti(2))), true
	case "shext", "cookie", "shpsk":
		if msg[0] != 2 || len(msg) < 4+35 {
			return msg, false
		}
		sidLen := int(msg[4+34])
		off := 2 + 32 + 1 + sidLen + 2 + 1
		if p[0] == "shpsk" { // pre_shared_key: selected_identity
			return appendExt(off, 41, bU16(geti(1))), true
		}
		if p[0] == "cookie" {
			return appendExt(off, 44, bVec16(payload(geti(1)))), true
		}
		return appendExt(off, geti(1), payload(geti(2))), true
	case "cc":
		if msg[0] != 11 {
			return msg, false
		}
		kv := KV{"alg": p[1], "adv": "-", "content": "x", "decl": p[2], "body": p[3], "salt": strconv.Itoa(salt)}
		plain := msg[4:]
		alg := geti(1)
		body := compressWith(alg, plain)
		switch kv["body"] {
		case "trunc":
			body = body[:len(body)-1-salt%len(body)]
		case "garbage":
			body = payload(20 + salt%50)
		case "empty":
			body = nil
		case "flip":
			body = append([]byte(nil), body...)
			body[salt%len(body)] ^= 0x55
		case "other": // compresses something that is not a certificate message
			body = compressWith(alg, payload(100))
		case "bomb8", "bomb32", "bomb64": // tiny body inflating to 8-64 MiB of zeros (cached, built outside the measured window)
			mib, _ := strconv.Atoi(kv["body"][4:])
			if b := bombBody(alg, mib); b != nil {
				body = b
			}
		case "certbomb": // the real certificate message followed by 32 MiB of zeros, in one stream
			body = certBombBody(alg, plain)
		}
		decl := len(plain)
		switch kv["decl"] {
		case "minus1":
			decl--
		case "plus1":
			decl++
		case "zero":
			decl = 0
		case "limit1":
			decl = 262145
		case "huge":
			decl = 8<<20 + salt*4096
		case "max":
			decl = 0xffffff
		case "small":
			decl = 1500
		}
		return hsMsg(25, cat(bU16(alg), bU24(decl), bVec24(body))), true
	case "tkt":
		if msg[0] != 4 || len(msg) < 4+13 {
			return msg, false
		}
		b := msg[4:]
		life, age := b[0:4], b[4:8]
		nonceLen := int(b[8])
		if len(b) < 9+nonceLen+2 {
			return msg, false
		}
		nonce := b[9 : 9+nonceLen]
		rest := b[9+nonceLen:]
		labelLen := int(rest[0])<<8 | int(rest[1])
		if len(rest) < 2+labelLen+2 {
			return msg, false
		}
		label := rest[2 : 2+labelLen]
		exts := rest[2+labelLen+2:]
		switch p[1] {
		case "life":
			life = []byte{byte(geti(2) >> 24), byte(geti(2) >> 16), byte(geti(2) >> 8), byte(geti(2))}
		case "nonce":
			nonce = payload(geti(2))
		case "label":
			label = payload(geti(2))
		case "ext":
			exts = append(append([]byte(nil), exts...), bExt(geti(2), payload(geti(3)))...)
		case "early":
			exts = append(append([]byte(nil), exts...), bExt(42, []byte{byte(geti(2) >> 24), byte(geti(2) >> 16), byte(geti(2) >> 8), byte(geti(2))})...)
		}
		return hsMsg(4, cat(life, age, bVec8(nonce), bVec16(label), bVec16(exts))), true
	}
	return msg, false
}

// advertisedCompAlgs: the certificate-compression algorithms the parrot offers.
func advertisedCompAlgs(id tls.ClientHelloID) []int {
	if id == tls.HelloGolang {
		return nil
	}
	spec, err := tls.UTLSIdToSpec(id)
	if err != nil {
		return nil
	}
	for _, e := range spec.Extensions {
		if cc, ok := e.(*tls.UtlsCompressCertExtension); ok {
			var out []int
			for _, a := range cc.Algorithms {
				out = append(out, int(a))
			}
			return out
		}
	}
	return nil
}

func genStructured(r *Rng, id tls.ClientHelloID) (target string, mut string) {
	switch r.Intn(9) {
	case 0, 1:
		return "8", fmt.Sprintf("alps:%d:%d", Pick(r, []int{17513, 17613}), Pick(r, []int{0, 1, 5, 300, 16000}))
	case 2:
		return "8", fmt.Sprintf("eeext:%d:%d", Pick(r, []int{1234, 0, 10, 43, 51, 41, 17514, 65535, r.Intn(65536)}), r.Intn(20))
	case 3, 4, 5:
		alg := Pick(r, []int{1, 2, 3, 2, 2, 0, 4})
		if adv := advertisedCompAlgs(id); len(adv) > 0 && r.Intn(4) != 0 {
			alg = Pick(r, adv)
		}
		if r.Intn(4) == 0 { // decompression bombs with small, valid declared lengths
			return "11", fmt.Sprintf("cc:%d:%s:%s", alg, Pick(r, []string{"small", "small", "exact", "zero"}), Pick(r, []string{"bomb8", "bomb32", "bomb32", "certbomb"}))
		}
		return "11", fmt.Sprintf("cc:%d:%s:%s", alg,
			Pick(r, []string{"exact", "exact", "exact", "minus1", "plus1", "zero", "limit1", "huge", "max"}),
			Pick(r, []string{"good", "good", "good", "trunc", "garbage", "empty", "flip", "other"}))
	case 6:
		return "2", fmt.Sprintf("shext:%d:%d", Pick(r, []int{1234, 0, 16, 44, 41, 42, 17513, 65281, r.Intn(65536)}), r.Intn(12))
	default:
		return "4", Pick(r, []string{"tkt:life:0", "tkt:life:604801", "tkt:life:4294967295", "tkt:nonce:0", "tkt:nonce:255", "tkt:label:0", "tkt:label:1",
			"tkt:label:2000", "tkt:ext:1234:5", "tkt:early:4294967295", "tkt:early:0"})
	}
}

func genConn(r *Rng, i int, tier string) string {
	ids := connIDList()
	id := ids[r.Intn(len(ids))]
	ver := Pick(r, []string{"13", "13", "13", "12"})
	hrr := 0
	if ver == "13" && r.Intn(5) == 0 {
		hrr = 1
	}
	// target: "<type>" = first outgoing message of that type, or "#k" = k-th outgoing message
	var target, mut string
	if r.Intn(3) == 0 {
		target, mut = genStructured(r, id)
		if hrr == 1 && r.Intn(2) == 0 {
			target, mut = "#0", fmt.Sprintf("cookie:%d", Pick(r, []int{0, 1, 32, 255, 4000, 65000}))
		}
	} else {
		target = fmt.Sprintf("#%d", r.Intn(7))
		if r.Intn(4) == 0 {
			target = Pick(r, []string{"2", "8", "11", "15", "20", "4", "12", "14"})
		}
		mut = genByteMutation(r, 40+r.Intn(200))
	}
	extra := ""
	switch r.Intn(10) {
	case 0:
		extra = " alpscfg=1"
	case 1:
		extra = " cache=1 resume=1"
	case 2:
		extra = " cache=1"
	}
	if strings.HasPrefix(mut, "alps") && r.Bool() {
		extra = " alpscfg=1"
	}
	if strings.HasPrefix(mut, "tkt") {
		extra = " cache=1 resume=1"
	}
	// injected sessions / PSKs (SetPskExtension, SetSessionTicketExtension, a real cached session) against hostile
	// pre_shared_key selections in the ServerHello and against HelloRetryRequests
	if r.Intn(6) == 0 {
		pskID := compactPSK(id)
		if !pskID && r.Intn(3) != 0 {
			id = Pick(r, []tls.ClientHelloID{tls.HelloChrome_100_PSK, tls.HelloChrome_112_PSK_Shuf, tls.HelloChrome_114_Padding_PSK_Shuf, tls.HelloChrome_115_PQ_PSK})
		}
		inj := Pick(r, []string{" cache=1 psk=fake1", " cache=1 psk=fake1", " cache=1 psk=fake2", " cache=1 warm=1", " cache=1 warm=1", " cache=1 psk=faketkt", " cache=1 psk=fakestate", " psk=fake1", ""})
		extra = inj
		switch r.Intn(4) {
		case 0: // a genuine or cookie-carrying HelloRetryRequest
			hrr, ver = 1, "13"
			target, mut = "#0", Pick(r, []string{"none", "cookie:8", "cookie:300"})
		case 1, 2:
			hrr = 0
			target, mut = "2", fmt.Sprintf("shpsk:%d", Pick(r, []int{0, 0, 0, 1, 2, 65535}))
		}
	}
	return fmt.Sprintf("id=%s ver=%s hrr=%d target=%s mut=%s salt=%d%s", idName(id), ver, hrr, target, mut, r.Intn(1000), extra)
}

// pskPrepare returns the client preparation for the `psk=` token:
//
//	fake1 / fake2   FakePreSharedKeyExtension with 1 / 2 caller-supplied identities and binders (SetPskExtension):
//	                the hello carries PSK identities while no SessionState stands behind them
//	faketkt         SetSessionTicketExtension with an opaque ticket and no session (TLS 1.2 style)
//	fakestate       SetSessionState(nil)
//
// (`warm=1` instead fills the session cache with a real session from a clean first connection.)
func pskPrepare(kind string, salt int) func(u *tls.UConn) error {
	r := NewRng(uint64(salt) + 99)
	switch kind {
	case "fake1", "fake2":
		n := 1
		if kind == "fake2" {
			n = 2
		}
		f := &tls.FakePreSharedKeyExtension{}
		for i := 0; i < n; i++ {
			f.Identities = append(f.Identities, tls.PskIdentity{Label: r.Bytes(96), ObfuscatedTicketAge: uint32(r.U64())})
			f.Binders = append(f.Binders, r.Bytes(32))
		}
		return func(u *tls.UConn) error { return u.SetPskExtension(f) }
	case "faketkt":
		t := r.Bytes(120)
		return func(u *tls.UConn) error {
			return u.SetSessionTicketExtension(&tls.SessionTicketExtension{Ticket: t, Initialized: true})
		}
	case "fakestate":
		return func(u *tls.UConn) error { return u.SetSessionState(nil) }
	}
	return nil
}

func connConfigs(in KV) (*tls.Config, *tls.Config) {
	ccfg := &tls.Config{NextProtos: []string{"h2", "http/1.1"}}
	scfg := &tls.Config{NextProtos: []string{"h2", "http/1.1"}}
	if in["ver"] == "12" {
		scfg.MaxVersion = tls.VersionTLS12
	}
	if in["hrr"] == "1" {
		scfg.CurvePreferences = []tls.CurveID{tls.CurveP384, tls.CurveP521}
	}
	if in["alpscfg"] == "1" {
		ccfg.ApplicationSettings = map[string][]byte{"h2": []byte("client-settings")}
	}
	if in["cache"] == "1" {
		ccfg.ClientSessionCache = tls.NewLRUClientSessionCache(4)
	}
	return ccfg, scfg
}

func execConn(in KV) string {
	warmUp()
	id := idOrGolang(in["id"])
	ccfg, scfg := connConfigs(in)
	salt := in.Int("salt")
	target, mut := in["target"], in["mut"]
	var mu sync.Mutex
	idx := 0
	hit := false
	var mutated, orig []byte
	mutIdx := -1
	var hookAlloc uint64 // allocated by the harness itself while building the replacement message
	hooks := &tls.VerifServerHooks{TolerateCookieEcho: true}
	hooks.RewriteHandshake = func(data []byte) []byte {
		mu.Lock()
		defer mu.Unlock()
		k := idx
		idx++
		if hit || len(data) == 0 {
			return data
		}
		match := false
		if strings.HasPrefix(target, "#") {
			n, _ := strconv.Atoi(target[1:])
			match = n == k
		} else {
			t, _ := strconv.Atoi(target)
			match = int(data[0]) == t
		}
		if !match {
			return data
		}
		hit = true
		mutIdx = k
		orig = append([]byte(nil), data...)
		var out []byte
		var ok bool
		hookAlloc += allocDelta(func() { out, ok = structuredMutation(data, mut, salt) })
		if ok {
			mutated = out
		} else if strings.Contains("alps eeext shext shpsk cookie cc tkt", strings.Split(mut, ":")[0]) {
			mutated = data // structured mutation not applicable to this message: leave it alone
		} else {
			mutated = mutateBytes(data, mut)
		}
		return mutated
	}
	o := hostileOpts{ID: id, ClientCfg: ccfg, ServerCfg: scfg, Hooks: hooks, Reads: 2}
	o.ServerAfter = func(srv *tls.Conn) { srv.Write([]byte("hello")) }
	o.Prepare = pskPrepare(in["psk"], salt)
	if mp := strings.Split(mut, ":"); mp[0] == "cc" && len(mp) == 4 && strings.HasPrefix(mp[3], "bomb") {
		// build (once per process) outside the handshake: the in-package server's deadline is short
		a, _ := strconv.Atoi(mp[1])
		m, _ := strconv.Atoi(mp[3][4:])
		bombBody(a, m)
	}
	if in["warm"] == "1" && ccfg.ClientSessionCache != nil {
		// a clean first connection leaves a real session (ticket / PSK) in the cache
		w := hostileOpts{ID: id, ClientCfg: ccfg, ServerCfg: scfg, Reads: 1}
		w.ServerAfter = func(srv *tls.Conn) { srv.Write([]byte("hello")) }
		runHostile(w)
	}
	o.Reset = func() {
		mu.Lock()
		defer mu.Unlock()
		idx, hit, mutated, orig, mutIdx = 0, false, nil, nil, -1
	}
	var res *hostileRes
	measure := func() uint64 {
		hookAlloc = 0
		a := allocDelta(func() { res = runHostile(o) })
		if a > hookAlloc {
			return a - hookAlloc
		}
		return 0
	}
	alloc := measure()
	if alloc >= 32<<20 && res.Out != "panic" && res.Out != "timeout" {
		// TotalAlloc is process-wide: a straggler of an earlier case can be charged to this one. An allocation
		// that the peer's bytes drive reproduces; measure once more and keep the smaller figure.
		first := res
		o.Reset()
		if again := measure(); again < alloc {
			alloc = again
		} else {
			res = first
		}
	}
	if os.Getenv("VERIF_ALLOC_DEBUG") != "" {
		fmt.Fprintf(os.Stderr, "alloc id=%s mut=%s total=%d hook=%d\n", in["id"], mut, alloc, hookAlloc)
	}
	hs2 := "-"
	if in["resume"] == "1" && res.Out != "panic" && res.Out != "timeout" {
		// second connection over the same session cache against an unmodified server
		o2 := hostileOpts{ID: id, ClientCfg: ccfg, ServerCfg: scfg, Reads: 1}
		o2.ServerAfter = func(srv *tls.Conn) { srv.Write([]byte("hello")) }
		r2 := runHostile(o2)
		hs2 = r2.HS
		if r2.Out == "panic" || r2.Out == "timeout" {
			res.Out = r2.Out
			res.PanicAt = "second-connection:" + r2.PanicAt
		}
		if r2.HS == "ok" && r2.U != nil && r2.U.ConnectionState().DidResume {
			hs2 = "resumed"
		}
	}
	mu.Lock()
	defer mu.Unlock()
	ot, mt := "-", "-"
	mh := "-"
	if hit {
		ot = fmt.Sprint(orig[0])
		if len(mutated) > 0 {
			mt = fmt.Sprint(mutated[0])
		}
		if len(mutated) <= 24000 {
			mh = hx(mutated)
		} else {
			mh = "big:" + hx(mutated[:16])
		}
	}
	// what c.vers / c.haveVers are when the client reads the mutated message
	sv := serverHelloVersion(res.SrvWire) // old parrots negotiate TLS 1.2 whatever the server allows
	neg13 := sv == "13" || sv == "hrr"
	v13, hv := 0, 0
	if hit && mutIdx > 0 {
		hv = 1
		if neg13 {
			v13 = 1
		}
	}
	post := 0
	if hit && orig[0] == 4 && neg13 {
		post = 1
	}
	changed := bi(hit && !bytes.Equal(orig, mutated))
	nids, sess := -1, 0
	if res.U != nil && res.U.HandshakeState.Hello != nil {
		nids = len(res.U.HandshakeState.Hello.PskIdentities)
		sess = bi(res.U.HandshakeState.Session != nil)
	}
	hserr := "-"
	switch {
	case strings.Contains(res.HS, "internal_error"):
		hserr = "internal_error"
	case strings.Contains(res.HS, "invalid_PSK_and_cipher"):
		hserr = "psk_suite"
	case strings.Contains(res.HS, "selected_an_invalid_PSK"):
		hserr = "invalid_psk"
	case strings.Contains(res.HS, "reprocessing_of_PSK"):
		hserr = "psk_hrr_unsupported"
	case strings.HasPrefix(res.HS, "prepare:") || strings.Contains(res.HS, "checkSessionExts_failed") || strings.Contains(res.HS, "specification_doesn"):
		hserr = "prepare" // the injected session / PSK was refused locally: no hello was sent
	}
	decl, allocge := -1, 0
	if hit && len(mutated) > 0 && mutated[0] == 25 {
		if v, ok := tls.VerifUnmarshalCompressedCert(mutated); ok {
			decl = int(v.UncompressedLength)
			allocge = bi(alloc >= uint64(decl))
		}
	}
	out := fmt.Sprintf("out=%s neg=%s nids=%d sess=%d hserr=%s hs=%s rd=%s srv=%s hs2=%s hit=%d changed=%d otype=%s mtype=%s v13=%d hv=%d post=%d stage=%s alloc=%s decl=%d allocge=%d m=%s",
		res.Out, sv, nids, sess, hserr, connCls(res.HS), joinList(mapStr_c33(res.Reads, connCls)), srvCls(res.Srv), connCls(hs2), bi(hit), changed, ot, mt, v13, hv, post, stageOf(res.HS, res.Reads), allocClass(alloc), decl, allocge, mh)
	if res.Out == "panic" {
		out += " msg=" + res.PanicAt
	}
	return out
}

// connCls keeps the classes the model predicts exactly and folds everything else into its stage label.
func connCls(c string) string {
	switch {
	case c == "ok" || c == "-" || c == "resumed" || strings.HasPrefix(c, "d") && len(c) < 4:
		return c
	case strings.Contains(c, "local_error:_tls:_unexpected_message"):
		return "unexpected"
	case strings.Contains(c, "exceeds_maximum"):
		return "toolong"
	}
	return "x-" + shortCls(c)
}

func srvCls(s string) string {
	if strings.HasPrefix(s, "panic") {
		return "panic"
	}
	if s == "ok" || s == "-" {
		return s
	}
	return "err"
}

// ---- c33_rec: raw record streams after a valid prefix ----
//
// prefix=none   a raw peer answers the ClientHello with the generated records
// prefix=sh     the real server's ServerHello goes out, then the generated records are injected before
//               the rest of its flight (TLS 1.3: plaintext CCS records are ignored up to the limit)
//
// recs is a comma list of  ccs*N | warn*N | fatal | close | emptyhs | emptyapp*N | junk:<n> | hs:<hex> | alertlen:<n> | rectype:<t> | big

func recBytes(tok string, salt int) ([]byte, int) {
	name, arg, _ := strings.Cut(tok, "*")
	n := 1
	if arg != "" {
		n, _ = strconv.Atoi(arg)
	}
	rec := func(t byte, p []byte) []byte { return cat([]byte{t, 3, 3}, bU16(len(p)), p) }
	var one []byte
	switch {
	case name == "ccs":
		one = rec(20, []byte{1})
	case name == "ccsbad":
		one = rec(20, []byte{2})
	case name == "warn":
		one = rec(21, []byte{1, 90})
	case name == "fatal":
		one = rec(21, []byte{2, 40})
	case name == "close":
		one = rec(21, []byte{1, 0})
	case name == "emptyhs":
		one = rec(22, nil)
	case name == "emptyapp":
		one = rec(23, nil)
	case name == "emptyalert":
		one = rec(21, nil)
	case name == "big":
		one = cat([]byte{22, 3, 3, 0xff, 0xff}, make([]byte, 100))
	case strings.HasPrefix(name, "junk:"):
		k, _ := strconv.Atoi(name[5:])
		one = NewRng(uint64(salt)).Bytes(k)
	case strings.HasPrefix(name, "hs:"):
		one = rec(22, unhex(name[3:]))
	case strings.HasPrefix(name, "alertlen:"):
		k, _ := strconv.Atoi(name[9:])
		one = rec(21, make([]byte, k))
	case strings.HasPrefix(name, "rectype:"):
		k, _ := strconv.Atoi(name[8:])
		one = rec(byte(k), []byte{1, 2, 3})
	default:
		panic("bad record token " + tok)
	}
	return bytes.Repeat(one, n), n
}

func genRec(r *Rng, i int, tier string) string {
	ids := connIDList()
	id := ids[r.Intn(len(ids))]
	prefix := Pick(r, []string{"none", "sh", "sh", "sh"})
	var toks []string
	flood := func(name string) string {
		return fmt.Sprintf("%s*%d", name, Pick(r, []int{1, 2, 16, 31, 32, 33, 34, 40, 100, 1000}))
	}
	n := 1 + r.Intn(3)
	for k := 0; k < n; k++ {
		switch r.Intn(12) {
		case 0, 1, 2:
			toks = append(toks, flood("ccs"))
		case 3, 4:
			toks = append(toks, flood("warn"))
		case 5:
			toks = append(toks, flood("emptyapp"))
		case 6:
			toks = append(toks, Pick(r, []string{"fatal", "close", "emptyhs", "ccsbad", "emptyalert", "big"}))
		case 7:
			toks = append(toks, fmt.Sprintf("junk:%d", Pick(r, []int{1, 4, 5, 6, 50, 2000})))
		case 8:
			toks = append(toks, "hs:"+strings.ReplaceAll(hx(hsMsg(byte(Pick(r, []int{25, 8, 4, 24, 0, 99, 2})), r.Bytes(r.Intn(12)))), "-", ""))
		case 9:
			toks = append(toks, fmt.Sprintf("alertlen:%d", Pick(r, []int{1, 3, 100})))
		case 10:
			toks = append(toks, fmt.Sprintf("rectype:%d", Pick(r, []int{0, 19, 24, 25, 128, 255})))
		default:
			toks = append(toks, flood("ccs"), flood("warn"))
		}
	}
	return fmt.Sprintf("id=%s prefix=%s recs=%s salt=%d", idName(id), prefix, strings.Join(toks, ","), r.Intn(1000))
}

func execRec(in KV) string {
	warmUp()
	id := idOrGolang(in["id"])
	salt := in.Int("salt")
	var inj []byte
	for _, t := range splitList(in["recs"]) {
		b, _ := recBytes(t, salt)
		inj = append(inj, b...)
	}
	o := hostileOpts{ID: id, Reads: 1, ClientDL: 1500 * time.Millisecond, ServerDL: time.Second}
	o.ServerAfter = func(srv *tls.Conn) { srv.Write([]byte("hello")) }
	switch in["prefix"] {
	case "none":
		o.RawServer = func(c net.Conn) {
			buf := make([]byte, 4096)
			c.Read(buf) // the ClientHello (first segment is enough to start)
			c.Write(inj)
			time.Sleep(30 * time.Millisecond)
		}
	case "sh":
		first := true
		o.Reset = func() { first = true }
		o.ServerWrite = func(p []byte) []byte {
			if !first {
				return p
			}
			first = false
			// p starts with the ServerHello record; inject right after that record
			if len(p) < 5 {
				return p
			}
			n := 5 + (int(p[3])<<8 | int(p[4]))
			if n > len(p) {
				n = len(p)
			}
			return cat(p[:n], inj, p[n:])
		}
	}
	var res *hostileRes
	alloc := allocDelta(func() { res = runHostile(o) })
	vers := "-"
	if res.U != nil && res.HS == "ok" {
		vers = fmt.Sprintf("%04x", res.U.ConnectionState().Version)
	}
	_ = vers
	out := fmt.Sprintf("out=%s hs=%s rd=%s sv=%s stage=%s alloc=%s", res.Out, recCls(res.HS), joinList(mapStr_c33(res.Reads, recCls)), serverHelloVersion(res.SrvWire), stageOf(res.HS, res.Reads), allocClass(alloc))
	if res.Out == "panic" {
		out += " msg=" + res.PanicAt
	}
	return out
}

// serverHelloVersion reads the version the server's first ServerHello selects ("13", "12", "hrr", "-").
func serverHelloVersion(wire []byte) string {
	rs := splitRecords(wire)
	if len(rs) == 0 || rs[0].Type != 22 || len(rs[0].Payload) < 4+35 || rs[0].Payload[0] != 2 {
		return "-"
	}
	m := rs[0].Payload
	if bytes.Equal(m[6:38], unhex("cf21ad74e59a6111be1d8c021e65b891c2a211167abb8c5e079e09e2c8a8339c")) {
		return "hrr"
	}
	off := 4 + 35 + int(m[4+34]) + 3
	if len(m) < off+2 {
		return "12"
	}
	b := m[off+2:]
	for len(b) >= 4 {
		t := int(b[0])<<8 | int(b[1])
		l := int(b[2])<<8 | int(b[3])
		if len(b) < 4+l {
			break
		}
		if t == 43 && l == 2 && b[4] == 3 && b[5] == 4 {
			return "13"
		}
		b = b[4+l:]
	}
	return "12"
}

func mapStr_c33(xs []string, f func(string) string) []string {
	out := make([]string, len(xs))
	for i, x := range xs {
		out[i] = f(x)
	}
	return out
}

// recCls maps a client error class to the vocabulary of the record-layer model.
func recCls(c string) string {
	switch {
	case c == "ok" || c == "-" || strings.HasPrefix(c, "d"):
		return c
	case strings.Contains(c, "too_many_ignored"):
		return "toomanyignored"
	case strings.Contains(c, "does_not_look_like_a_TLS_handshake"):
		return "nottls"
	case strings.Contains(c, "received_unexpected_handshake_message"):
		return "statemachine"
	case strings.Contains(c, "unexpected_message"):
		return "unexpected"
	case strings.Contains(c, "decode_error") || strings.Contains(c, "error_decoding"):
		return "decode"
	case c == "eof":
		return "eof"
	case strings.HasPrefix(c, "ralert:"):
		return "remotealert"
	case c == "timeout":
		return "blocked"
	}
	return "other"
}

// ---- c33_loop: the post-handshake read loop ----
//
// seq is a comma list of record tokens the (real, keyed) server writes after the handshake:
//
//	E*n  n empty application-data records      W*n  n warning alerts (user_canceled)
//	D    one byte of application data          K*n  one handshake record holding n KeyUpdate messages
//	k*n  n records each holding one KeyUpdate  C*n  n ChangeCipherSpec records
//	H    a HelloRequest (TLS 1.2)              X    close_notify            F  fatal alert
//	U    one handshake record holding an unknown message type 99
//
// The client then calls Read until it fails or has read `reads` times.

func genLoop(r *Rng, i int, tier string) string {
	ver := Pick(r, []string{"13", "13", "12"})
	var toks []string
	cnt := func() int { return Pick(r, []int{1, 2, 15, 16, 17, 31, 32, 33, 34, 50}) }
	n := 1 + r.Intn(4)
	for k := 0; k < n; k++ {
		switch r.Intn(11) {
		case 0, 1, 2:
			toks = append(toks, fmt.Sprintf("E*%d", cnt()))
		case 3, 4:
			if ver == "12" {
				toks = append(toks, fmt.Sprintf("W*%d", cnt()))
			} else {
				toks = append(toks, fmt.Sprintf("K*%d", cnt()))
			}
		case 5:
			toks = append(toks, "D")
		case 6:
			if ver == "13" {
				toks = append(toks, fmt.Sprintf("k*%d", cnt()))
			} else {
				toks = append(toks, "H")
			}
		case 7:
			toks = append(toks, fmt.Sprintf("C*%d", Pick(r, []int{1, 2})))
		case 8:
			toks = append(toks, Pick(r, []string{"X", "F", "U", "W*1"}))
		default:
			toks = append(toks, fmt.Sprintf("E*%d", cnt()), "D")
		}
	}
	if r.Intn(3) != 0 {
		toks = append(toks, "D")
	}
	id := Pick(r, []string{"Chrome-120", "Firefox-105", "iOS-14", "Golang-0", "Chrome-100", "Safari-16.0", "Edge-106"})
	cache := ""
	if r.Intn(4) == 0 {
		cache = " cache=1"
	}
	return fmt.Sprintf("id=%s ver=%s seq=%s reads=%d%s", id, ver, strings.Join(toks, ","), 1+r.Intn(4), cache)
}

func execLoop(in KV) string {
	warmUp()
	id := idOrGolang(in["id"])
	scfg := &tls.Config{SessionTicketsDisabled: true}
	if in["ver"] == "12" {
		scfg.MaxVersion = tls.VersionTLS12
	}
	o := hostileOpts{ID: id, ServerCfg: scfg, Reads: in.Int("reads"), ClientDL: 1500 * time.Millisecond, ServerDL: time.Second}
	if in["cache"] == "1" {
		o.ClientCfg = &tls.Config{ClientSessionCache: tls.NewLRUClientSessionCache(4)}
	}
	o.ServerAfter = func(srv *tls.Conn) {
		for _, t := range splitList(in["seq"]) {
			name, arg, _ := strings.Cut(t, "*")
			n := 1
			if arg != "" {
				n, _ = strconv.Atoi(arg)
			}
			var err error
			switch name {
			case "E":
				for i := 0; i < n && err == nil; i++ {
					err = srv.VerifWriteRawRecord(23, nil)
				}
			case "W":
				for i := 0; i < n && err == nil; i++ {
					err = srv.VerifWriteRawRecord(21, []byte{1, 90})
				}
			case "D":
				err = srv.VerifWriteRawRecord(23, []byte{'x'})
			case "K":
				err = srv.VerifWriteRawRecord(22, bytes.Repeat([]byte{24, 0, 0, 1, 0}, n))
				srv.VerifRekeyOut(n)
			case "k":
				for i := 0; i < n && err == nil; i++ {
					err = srv.VerifWriteRawRecord(22, []byte{24, 0, 0, 1, 0})
					srv.VerifRekeyOut(1)
				}
			case "C":
				for i := 0; i < n && err == nil; i++ {
					err = srv.VerifWriteRawRecord(20, []byte{1})
				}
			case "H":
				err = srv.VerifWriteRawRecord(22, []byte{0, 0, 0, 0})
			case "X":
				err = srv.VerifWriteRawRecord(21, []byte{1, 0})
			case "F":
				err = srv.VerifWriteRawRecord(21, []byte{2, 40})
			case "U":
				err = srv.VerifWriteRawRecord(22, []byte{99, 0, 0, 0})
			}
			if err != nil {
				return
			}
		}
	}
	var res *hostileRes
	alloc := allocDelta(func() { res = runHostile(o) })
	rd := make([]string, len(res.Reads))
	for i, r := range res.Reads {
		rd[i] = loopCls(r)
	}
	out := fmt.Sprintf("out=%s hs=%s rd=%s reneg=%d alloc=%s", res.Out, res.HS, joinList(rd), bi(specRenegotiates(id)), allocClass(alloc))
	if res.Out == "panic" {
		out += " msg=" + res.PanicAt
	}
	return out
}

// specRenegotiates: does the parrot's renegotiation_info extension switch Config.Renegotiation on?
func specRenegotiates(id tls.ClientHelloID) bool {
	if id == tls.HelloGolang {
		return false
	}
	spec, err := tls.UTLSIdToSpec(id)
	if err != nil {
		return false
	}
	for _, e := range spec.Extensions {
		if ri, ok := e.(*tls.RenegotiationInfoExtension); ok {
			return ri.Renegotiation != tls.RenegotiateNever
		}
	}
	return false
}

// loopCls maps a Read result to the model's vocabulary.
func loopCls(c string) string {
	switch {
	case strings.HasPrefix(c, "d"):
		return c
	case strings.Contains(c, "too_many_ignored"):
		return "toomanyignored"
	case strings.Contains(c, "too_many_non-advancing"):
		return "toomanynonadv"
	case strings.Contains(c, "unexpected_message") || strings.Contains(c, "unexpected_handshake_message"):
		return "unexpected"
	case strings.Contains(c, "decode_error") || strings.Contains(c, "decoding"):
		return "decode"
	case strings.Contains(c, "no_renegotiation") || strings.Contains(c, "renegotiation"):
		return "norenegotiation"
	case c == "eof":
		return "eof"
	case strings.HasPrefix(c, "ralert:"):
		return "remotealert"
	case c == "timeout":
		return "blocked"
	}
	return "other:" + c
}

// ---- c33_hrr: cookie insertion into short extension lists ----
//
// The client uses a custom spec with exactly `n` extensions (supported_versions + key_share first, then
// padding-free fillers); the ServerHello is replaced by a hand-made HelloRetryRequest that carries only a
// cookie (and supported_versions), so processHelloRetryRequest reaches the uTLS section with
// len(Extensions) = n. The second ClientHello shows where the cookie went.

func hrrSpec(n int, withCookie bool) *tls.ClientHelloSpec {
	exts := []tls.TLSExtension{
		&tls.KeyShareExtension{KeyShares: []tls.KeyShare{{Group: tls.X25519}}},
		&tls.SupportedVersionsExtension{Versions: []uint16{tls.VersionTLS13, tls.VersionTLS12}},
		&tls.SupportedCurvesExtension{Curves: []tls.CurveID{tls.X25519, tls.CurveP256}},
		&tls.SignatureAlgorithmsExtension{SupportedSignatureAlgorithms: []tls.SignatureScheme{tls.ECDSAWithP256AndSHA256, tls.PSSWithSHA256}},
		&tls.SNIExtension{},
		&tls.ALPNExtension{AlpnProtocols: []string{"h2"}},
		&tls.ExtendedMasterSecretExtension{},
		&tls.RenegotiationInfoExtension{Renegotiation: tls.RenegotiateOnceAsClient},
		&tls.SCTExtension{},
		&tls.StatusRequestExtension{},
	}
	if n > len(exts) {
		n = len(exts)
	}
	exts = exts[:n]
	if withCookie && n >= 2 {
		exts = append(exts[:1:1], append([]tls.TLSExtension{&tls.CookieExtension{}}, exts[1:]...)...)
	}
	return &tls.ClientHelloSpec{
		TLSVersMin: tls.VersionTLS12, TLSVersMax: tls.VersionTLS13,
		CipherSuites:       []uint16{tls.TLS_AES_128_GCM_SHA256, tls.TLS_ECDHE_ECDSA_WITH_AES_128_GCM_SHA256},
		CompressionMethods: []uint8{0},
		Extensions:         exts,
	}
}

func genHRR_c33(r *Rng, i int, tier string) string {
	n := 1 + i%10
	if i%7 == 6 { // caller-supplied PSK identities (no session) as the last extension
		return fmt.Sprintf("n=%d cookie=%d pre=0 real=%d psk=%d", 2+i%9, Pick(r, []int{1, 8, 32}), bi(n >= 4 && r.Bool()), 1+r.Intn(2))
	}
	pre := r.Intn(6) == 0
	return fmt.Sprintf("n=%d cookie=%d pre=%d real=%d", n, Pick(r, []int{1, 8, 32, 300}), bi(pre), bi(!pre && n >= 4 && r.Bool()))
}

// extTypes_c33 lists the extension types of a ClientHello message in order.
func extTypes_c33(ch []byte) []int {
	if len(ch) < 4+2+32+1 {
		return nil
	}
	b := ch[4+2+32:]
	skip := func(n int) bool {
		if len(b) < n {
			return false
		}
		b = b[n:]
		return true
	}
	if len(b) < 1 || !skip(1+int(b[0])) {
		return nil
	}
	if len(b) < 2 || !skip(2+(int(b[0])<<8|int(b[1]))) {
		return nil
	}
	if len(b) < 1 || !skip(1+int(b[0])) {
		return nil
	}
	if !skip(2) {
		return nil
	}
	var out []int
	for len(b) >= 4 {
		t := int(b[0])<<8 | int(b[1])
		l := int(b[2])<<8 | int(b[3])
		if len(b) < 4+l {
			break
		}
		out = append(out, t)
		b = b[4+l:]
	}
	return out
}

func execHRR_c33(in KV) string {
	warmUp()
	n := in.Int("n")
	cookieLen := in.Int("cookie")
	spec := hrrSpec(n, in["pre"] == "1")
	if k := in["psk"]; k != "" && k != "0" {
		f := &tls.FakePreSharedKeyExtension{}
		rr := NewRng(77)
		for j := 0; j < in.Int("psk"); j++ {
			f.Identities = append(f.Identities, tls.PskIdentity{Label: rr.Bytes(64), ObfuscatedTicketAge: 7})
			f.Binders = append(f.Binders, rr.Bytes(32))
		}
		spec.Extensions = append(spec.Extensions, &tls.PSKKeyExchangeModesExtension{Modes: []uint8{1}}, f)
	}
	scfg := &tls.Config{}
	real := in["real"] == "1"
	if real {
		// a genuine HelloRetryRequest from the server (client offers X25519 only, server insists on P-256),
		// with a cookie attached by the hook and its echo tolerated
		scfg.CurvePreferences = []tls.CurveID{tls.CurveP256}
	}
	o := hostileOpts{ID: tls.HelloCustom, Spec: spec, ServerCfg: scfg, Reads: 1, ClientDL: 1500 * time.Millisecond, ServerDL: time.Second}
	o.ServerAfter = func(srv *tls.Conn) { srv.Write([]byte("hello")) }
	if real {
		first := true
		o.Reset = func() { first = true }
		hooks := &tls.VerifServerHooks{TolerateCookieEcho: true}
		hooks.RewriteHandshake = func(data []byte) []byte {
			if !first || len(data) < 4+35 || data[0] != 2 {
				return data
			}
			first = false
			out, _ := structuredMutation(data, fmt.Sprintf("cookie:%d", cookieLen), 5)
			return out
		}
		o.Hooks = hooks
	} else {
		// a raw peer: answer the first ClientHello with a hand-made HelloRetryRequest that carries
		// supported_versions and a cookie only, read the second hello, go away
		o.RawServer = func(c net.Conn) {
			buf := make([]byte, 1<<16)
			got := 0
			for got < 5 || got < 5+(int(buf[3])<<8|int(buf[4])) {
				k, err := c.Read(buf[got:])
				if err != nil {
					return
				}
				got += k
			}
			ch := buf[5:got]
			if len(ch) < 4+35 {
				return
			}
			sid := ch[4+35 : 4+35+int(ch[4+34])]
			hrrRandom := unhex("cf21ad74e59a6111be1d8c021e65b891c2a211167abb8c5e079e09e2c8a8339c")
			exts := cat(bExt(43, bU16(0x0304)), bExt(44, bVec16(NewRng(9).Bytes(cookieLen))))
			body := cat(bU16(0x0303), hrrRandom, bVec8(sid), bU16(0x1301), []byte{0}, bVec16(exts))
			msg := hsMsg(2, body)
			c.Write(cat([]byte{22, 3, 3}, bU16(len(msg)), msg))
			// the second hello (CCS first, in compatibility mode), or whatever comes — then close
			c.SetReadDeadline(time.Now().Add(150 * time.Millisecond))
			for k := 0; k < 3; k++ {
				if _, err := io.ReadFull(c, buf[:5]); err != nil {
					return
				}
				if _, err := io.ReadFull(c, buf[5:5+(int(buf[3])<<8|int(buf[4]))]); err != nil || buf[0] == 22 {
					return
				}
			}
		}
	}
	var res *hostileRes
	alloc := allocDelta(func() { res = runHostile(o) })
	hellos := clientHellos(res.Wire)
	e1, e2 := "-", "-"
	pos := -1
	var t1, t2 []int
	if len(hellos) > 0 {
		t1 = extTypes_c33(hellos[0])
		e1 = intsStr_c33(t1)
	}
	if len(hellos) > 1 {
		t2 = extTypes_c33(hellos[1])
		e2 = intsStr_c33(t2)
		for i, t := range t2 {
			if t == 44 {
				pos = i
			}
		}
	}
	out := fmt.Sprintf("out=%s hs=%s hellos=%d len1=%d len2=%d pos=%d e1=%s e2=%s alloc=%s", res.Out, hrrCls(res.HS), len(hellos), len(t1), len(t2), pos, e1, e2, allocClass(alloc))
	if res.Out == "panic" {
		out += " msg=" + res.PanicAt
	}
	return out
}

func hrrCls(c string) string {
	switch {
	case c == "ok":
		return "ok"
	case strings.Contains(c, "internal_error"):
		return "internal"
	case strings.Contains(c, "cookieIndex"):
		return "cookieindex"
	case strings.Contains(c, "keyshare_not_found"):
		return "nokeyshare"
	case strings.HasPrefix(c, "preset:"):
		return "preset"
	}
	if c == "eof" {
		return "eof"
	}
	return "err"
}

func intsStr_c33(xs []int) string {
	ss := make([]string, len(xs))
	for i, x := range xs {
		ss[i] = strconv.Itoa(x)
	}
	return joinList(ss)
}

var _ = errors.New
var _ = io.EOF

func init() {
	register(&Family{Name: "c33_decomp", Gen: genDecomp, Exec: execDecomp, Timeout: 30 * time.Second})
	register(&Family{Name: "c33_conn", Gen: genConn, Exec: execConn, Timeout: 30 * time.Second})
	register(&Family{Name: "c33_rec", Gen: genRec, Exec: execRec, Timeout: 30 * time.Second})
	register(&Family{Name: "c33_loop", Gen: genLoop, Exec: execLoop, Timeout: 30 * time.Second})
	register(&Family{Name: "c33_hrr", Gen: genHRR_c33, Exec: execHRR_c33, Timeout: 30 * time.Second})
}
