package main

// C34 — arbitrary client input never crashes or hangs the server.
//
//	c34_conn  a raw client sends a (structurally / byte-wise) mutated parrot ClientHello — optionally
//	          re-framed, optionally followed by further plaintext handshake messages of the types the uTLS
//	          fork added to the dispatch (8, 25) or others — to tls.Server over TCP loopback
//	c34_full  real UConn clients against the server: plain handshakes, and handshakes in which the server's
//	          EncryptedExtensions was given an ALPS extension so that the client sends the uTLS-specific
//	          client EncryptedExtensions (type 8) under handshake keys to a server that does not expect it
//
// Server Handshake and Read run under the connection deadline; outcomes ok | err | panic | timeout.

import (
	"crypto/ecdh"
	crand "crypto/rand"
	"fmt"
	"io"
	"net"
	"strconv"
	"strings"
	"sync"
	"time"

	tls "github.com/refraction-networking/utls"
)

// ---- real hellos of every parrot ----

type nullConn_c34 struct{}

func (nullConn_c34) Read(p []byte) (int, error)         { return 0, io.EOF }
func (nullConn_c34) Write(p []byte) (int, error)        { return len(p), nil }
func (nullConn_c34) Close() error                       { return nil }
func (nullConn_c34) LocalAddr() net.Addr                { return nil }
func (nullConn_c34) RemoteAddr() net.Addr               { return nil }
func (nullConn_c34) SetDeadline(t time.Time) error      { return nil }
func (nullConn_c34) SetReadDeadline(t time.Time) error  { return nil }
func (nullConn_c34) SetWriteDeadline(t time.Time) error { return nil }

// realHello builds the ClientHello handshake message a parrot would send.
func realHello(id tls.ClientHelloID, r *Rng) []byte {
	cfg := &tls.Config{ServerName: "example.golang", Rand: r, NextProtos: []string{"h2", "http/1.1"}}
	if compactPSK(id) {
		cfg.OmitEmptyPsk = true
	}
	var raw []byte
	// crypto/rand feeds the extension shuffle, GREASE and key shares: pin it so that a seed reproduces
	withCryptoRand(r.U64(), func() {
		u := tls.UClient(nullConn_c34{}, cfg, id)
		if err := u.BuildHandshakeState(); err != nil {
			panic("BuildHandshakeState " + idName(id) + ": " + err.Error())
		}
		raw = append([]byte(nil), u.HandshakeState.Hello.Raw...)
	})
	return raw
}

type rawExt_c34 struct {
	t int
	d []byte
}

type chParts struct {
	vers, random, sid, suites, comp []byte
	exts                            []rawExt_c34
}

func parseCH_c34(msg []byte) (*chParts, bool) {
	if len(msg) < 4+2+32+1 || msg[0] != 1 {
		return nil, false
	}
	b := msg[4:]
	p := &chParts{}
	take := func(n int) ([]byte, bool) {
		if len(b) < n {
			return nil, false
		}
		x := b[:n]
		b = b[n:]
		return x, true
	}
	var ok bool
	if p.vers, ok = take(2); !ok {
		return nil, false
	}
	if p.random, ok = take(32); !ok {
		return nil, false
	}
	l, ok := take(1)
	if !ok {
		return nil, false
	}
	if p.sid, ok = take(int(l[0])); !ok {
		return nil, false
	}
	if l, ok = take(2); !ok {
		return nil, false
	}
	if p.suites, ok = take(int(l[0])<<8 | int(l[1])); !ok {
		return nil, false
	}
	if l, ok = take(1); !ok {
		return nil, false
	}
	if p.comp, ok = take(int(l[0])); !ok {
		return nil, false
	}
	if l, ok = take(2); !ok {
		return p, true
	}
	for len(b) >= 4 {
		t := int(b[0])<<8 | int(b[1])
		n := int(b[2])<<8 | int(b[3])
		if len(b) < 4+n {
			break
		}
		p.exts = append(p.exts, rawExt_c34{t, append([]byte(nil), b[4:4+n]...)})
		b = b[4+n:]
	}
	return p, true
}

func (p *chParts) marshal() []byte {
	var exts []byte
	for _, e := range p.exts {
		exts = append(exts, bExt(e.t, e.d)...)
	}
	body := cat(p.vers, p.random, bVec8(p.sid), bVec16(p.suites), bVec8(p.comp), bVec16(exts))
	return hsMsg(1, body)
}

// echExtBody builds an encrypted_client_hello extension body of the given flavour.
func echExtBody(r *Rng, flavour string) []byte {
	switch flavour {
	case "inner":
		return []byte{1}
	case "innerlong":
		return []byte{1, 0}
	case "badtype":
		return []byte{byte(2 + r.Intn(250))}
	case "short":
		return cat([]byte{0}, r.Bytes(r.Intn(6)))
	case "lenover":
		return cat([]byte{0}, bU16(1), bU16(1), []byte{7}, bU16(32), r.Bytes(10))
	case "empty":
		return nil
	default: // outer
		return cat([]byte{0}, bU16(Pick(r, []int{1, 1, 1, 2, 3, 0, 65535})), bU16(Pick(r, []int{1, 1, 2, 3, 0, 65535})), []byte{byte(Pick(r, []int{7, 7, 0, 255}))},
			bVec16(r.Bytes(Pick(r, []int{32, 32, 32, 0, 31, 33}))), bVec16(r.Bytes(Pick(r, []int{0, 1, 16, 17, 200, 2000}))))
	}
}

// structural mutation of a parsed hello; returns a description and the new message.
func mutateCH(r *Rng, p *chParts) (string, []byte) {
	ne := len(p.exts)
	pick := func() int {
		if ne == 0 {
			return 0
		}
		return r.Intn(ne)
	}
	switch r.Intn(22) {
	case 0:
		return "none", p.marshal()
	case 1:
		if ne > 0 {
			i := pick()
			d := fmt.Sprintf("dropext:%d", p.exts[i].t)
			p.exts = append(p.exts[:i:i], p.exts[i+1:]...)
			return d, p.marshal()
		}
	case 2:
		if ne > 0 {
			i := pick()
			p.exts = append(p.exts, p.exts[i])
			return fmt.Sprintf("dupext:%d", p.exts[i].t), p.marshal()
		}
	case 3:
		if ne > 1 {
			i, j := pick(), pick()
			p.exts[i], p.exts[j] = p.exts[j], p.exts[i]
			return "swapext", p.marshal()
		}
	case 4:
		if ne > 0 {
			i := pick()
			if n := len(p.exts[i].d); n > 0 {
				p.exts[i].d = p.exts[i].d[:n-1-r.Intn(n)]
			}
			return fmt.Sprintf("truncext:%d", p.exts[i].t), p.marshal()
		}
	case 5:
		if ne > 0 {
			i := pick()
			p.exts[i].d = append(p.exts[i].d, r.Bytes(1+r.Intn(8))...)
			return fmt.Sprintf("growext:%d", p.exts[i].t), p.marshal()
		}
	case 6:
		if ne > 0 {
			i := pick()
			p.exts[i].d = r.Bytes(pickSize(r, false))
			return fmt.Sprintf("randext:%d", p.exts[i].t), p.marshal()
		}
	case 7:
		if ne > 0 {
			i := pick()
			if n := len(p.exts[i].d); n > 0 {
				p.exts[i].d[r.Intn(n)] ^= byte(1 + r.Intn(255))
			}
			return fmt.Sprintf("flipext:%d", p.exts[i].t), p.marshal()
		}
	case 8:
		if ne > 0 {
			i := pick()
			old := p.exts[i].t
			p.exts[i].t = Pick(r, []int{0xfe0d, 41, 51, 43, 0, 16, 17513, 65281, r.Intn(65536)})
			return fmt.Sprintf("retype:%d:%d", old, p.exts[i].t), p.marshal()
		}
	case 9, 10, 11:
		fl := Pick(r, []string{"outer", "outer", "outer", "inner", "innerlong", "badtype", "short", "lenover", "empty"})
		// replace an existing ECH extension (GREASE ECH of recent Chrome) or add one
		body := echExtBody(r, fl)
		for i := range p.exts {
			if p.exts[i].t == 0xfe0d {
				p.exts[i].d = body
				return "ech:" + fl, p.marshal()
			}
		}
		at := r.Intn(ne + 1)
		p.exts = append(p.exts[:at:at], append([]rawExt_c34{{0xfe0d, body}}, p.exts[at:]...)...)
		return "ech:" + fl, p.marshal()
	case 12:
		p.exts = append(p.exts, rawExt_c34{Pick(r, []int{1234, 17513, 17613, 27, 0x4469, 65535, r.Intn(65536)}), r.Bytes(pickSize(r, false))})
		return "addext", p.marshal()
	case 13:
		p.suites = Pick(r, [][]byte{nil, {0x13}, {0x13, 0x01}, {0xc0, 0x2f}, r.Bytes(2 * r.Intn(6)), append(append([]byte(nil), p.suites...), 0)})
		return "suites", p.marshal()
	case 14:
		p.sid = r.Bytes(Pick(r, []int{0, 1, 31, 32, 33, 255}))
		return "sid", p.marshal()
	case 15:
		p.comp = Pick(r, [][]byte{nil, {1}, {0, 1}, {1, 0}})
		return "comp", p.marshal()
	case 16:
		p.vers = Pick(r, [][]byte{{3, 0}, {3, 1}, {3, 2}, {3, 3}, {3, 4}, {2, 0}, {0xff, 0xff}})
		// and possibly the supported_versions extension
		for i := range p.exts {
			if p.exts[i].t == 43 && r.Bool() {
				p.exts[i].d = Pick(r, [][]byte{{2, 3, 3}, {2, 3, 4}, {4, 3, 4, 3, 3}, {2, 0x7f, 0x1c}, {0}, {1, 3}, {2, 3, 1}})
			}
		}
		return "versions", p.marshal()
	case 17: // drop supported_versions: negotiate TLS 1.2 (plaintext follow-ups reach the server)
		var out []rawExt_c34
		for _, e := range p.exts {
			if e.t != 43 {
				out = append(out, e)
			}
		}
		p.exts = out
		return "tls12", p.marshal()
	case 18: // pre_shared_key with inconsistent identities / binders
		ids := cat(bVec16(r.Bytes(Pick(r, []int{0, 1, 32, 200}))), r.Bytes(4))
		binders := bVec8(r.Bytes(Pick(r, []int{0, 31, 32, 33, 255})))
		body := cat(bVec16(ids), bVec16(binders))
		if r.Intn(3) == 0 {
			body = body[:len(body)-1-r.Intn(len(body)-1)]
		}
		var out []rawExt_c34
		for _, e := range p.exts {
			if e.t != 41 {
				out = append(out, e)
			}
		}
		at := len(out)
		if r.Intn(4) == 0 {
			at = r.Intn(len(out) + 1) // not last
		}
		p.exts = append(out[:at:at], append([]rawExt_c34{{41, body}}, out[at:]...)...)
		return "psk", p.marshal()
	case 19: // key_share variants
		for i := range p.exts {
			if p.exts[i].t == 51 {
				p.exts[i].d = Pick(r, [][]byte{
					bVec16(nil),
					bVec16(cat(bU16(29), bVec16(r.Bytes(31)))),
					bVec16(cat(bU16(29), bVec16(nil))),
					bVec16(cat(bU16(29), bVec16(r.Bytes(32)), bU16(29), bVec16(r.Bytes(32)))),
					bVec16(cat(bU16(0x11ec), bVec16(r.Bytes(1216)))),
					bVec16(cat(bU16(23), bVec16(r.Bytes(65)))),
					cat(bU16(500), r.Bytes(3)),
				})
				return "keyshare", p.marshal()
			}
		}
	case 20: // ALPS / compress_certificate style uTLS extensions with odd bodies
		p.exts = append(p.exts, rawExt_c34{Pick(r, []int{17513, 17613, 27}), Pick(r, [][]byte{nil, {0}, {0, 2, 1}, bVec16(bVec8([]byte("h2"))), {2, 0, 2}, r.Bytes(5)})})
		return "utlsext", p.marshal()
	}
	// total-length inconsistencies on the marshalled message
	m := p.marshal()
	mut := genByteMutation(r, len(m))
	return "bytes-" + strings.Split(mut, ":")[0], mutateBytes(m, mut)
}

// follow-up messages a raw client pipelines behind its hello
func genFollow(r *Rng) []string {
	var out []string
	n := r.Intn(3)
	for i := 0; i < n; i++ {
		var m []byte
		switch r.Intn(8) {
		case 0, 1:
			m = genCompCertMsg(r)
			if len(m) > 4000 {
				m = hsMsg(25, cat(bU16(2), bU24(100), bVec24(r.Bytes(30))))
			}
		case 2, 3:
			m = genClientEEMsg(r)
			if len(m) > 4000 {
				m = hsMsg(8, bVec16(bExt(17613, r.Bytes(20))))
			}
		case 4:
			m = hsMsg(byte(Pick(r, []int{16, 20, 11, 15, 24, 0, 2, 4})), r.Bytes(r.Intn(40)))
		case 5:
			m = hsMsg(byte(r.Intn(256)), r.Bytes(r.Intn(8)))
		case 6:
			m = hsMsg(16, bVec8(r.Bytes(65))) // a plausible ECDHE ClientKeyExchange
		default:
			m = hsMsg(25, nil)
		}
		if r.Intn(4) == 0 {
			m = mutateBytes(m, genByteMutation(r, len(m)))
		}
		if len(m) > 0 {
			out = append(out, hx(m))
		}
	}
	return out
}

var (
	helloMu    sync.Mutex
	helloCache = map[string][]byte{}
)

func genC34Conn(r *Rng, i int, tier string) string {
	ids := connIDList()
	id := ids[i%len(ids)]
	if i >= 2*len(ids) {
		id = ids[r.Intn(len(ids))]
	}
	hello := realHello(id, NewRng(r.U64()))
	desc := "none"
	msg := hello
	if i >= len(ids) { // the first pass sends every parrot's hello unmodified
		if p, ok := parseCH_c34(hello); ok {
			desc, msg = mutateCH(r, p)
			// a second structural mutation now and then
			if r.Intn(5) == 0 {
				if p2, ok := parseCH_c34(msg); ok {
					d2, m2 := mutateCH(r, p2)
					desc, msg = desc+"+"+d2, m2
				}
			}
		}
	}
	if r.Intn(14) == 0 { // the first message is not a ClientHello at all
		desc = "firstmsg"
		switch r.Intn(4) {
		case 0:
			msg = genClientEEMsg(r)
		case 1:
			msg = genCompCertMsg(r)
		case 2:
			if len(msg) >= 4 {
				msg = hsMsg(byte(Pick(r, []int{8, 25})), msg[4:])
			}
		default:
			msg = hsMsg(byte(r.Intn(256)), r.Bytes(r.Intn(20)))
		}
		if len(msg) > 20000 {
			msg = msg[:20000]
		}
	}
	framing := Pick(r, []string{"one", "one", "one", "one", "split", "split3", "badver", "bytewise"})
	ver := Pick(r, []string{"any", "any", "12"})
	ech := r.Intn(3) == 0 || strings.Contains(desc, "ech:")
	follow := genFollow(r)
	return fmt.Sprintf("id=%s smut=%s framing=%s ver=%s ech=%d follow=%s ch=%s", idName(id), desc, framing, ver, bi(ech), joinList(follow), hx(msg))
}

// ---- ECH server keys ----

var (
	echOnce sync.Once
	echKeys []tls.EncryptedClientHelloKey
)

func serverECHKeys() []tls.EncryptedClientHelloKey {
	echOnce.Do(func() {
		// a fixed key: hellos encrypted to it at generation time must open in any later process (replays)
		priv, err := ecdh.X25519().NewPrivateKey([]byte("verif-fuzz-ech-x25519-private-k!"))
		if err != nil {
			panic(err)
		}
		_ = crand.Reader
		pub := priv.PublicKey().Bytes()
		suites := cat(bU16(1), bU16(1), bU16(1), bU16(2), bU16(1), bU16(3))
		contents := cat([]byte{7}, bU16(0x0020), bVec16(pub), bVec16(suites), []byte{32}, bVec8([]byte("public.verif.test")), bU16(0))
		cfg := cat(bU16(0xfe0d), bVec16(contents))
		echKeys = []tls.EncryptedClientHelloKey{{Config: cfg, PrivateKey: priv.Bytes(), SendAsRetry: true}}
	})
	return echKeys
}

// ---- raw client runner ----

type rawRes struct {
	Out    string
	HS     string
	Read   string
	Wire   []byte // what the server wrote
	Panic  string
	Closed bool
}

// runRawClient sends `records` (already framed) to a tls.Server and reports the server's outcome.
func runRawClient(scfg *tls.Config, records []byte, chunk int, dl time.Duration) *rawRes {
	res := runRawClientOnce(scfg, records, chunk, dl)
	if res.Out == "timeout" { // see runHostile: only a reproducible miss of the deadline counts
		if res2 := runRawClientOnce(scfg, records, chunk, dl); res2.Out != "timeout" {
			return res2
		}
	}
	return res
}

func runRawClientOnce(scfg *tls.Config, records []byte, chunk int, dl time.Duration) *rawRes {
	res := &rawRes{Out: "err", HS: "-", Read: "-"}
	cRaw, sRaw, err := tcpPair()
	if err != nil {
		res.HS = "harness"
		return res
	}
	defer cRaw.Close()
	defer sRaw.Close()
	start := time.Now()
	sRaw.SetDeadline(start.Add(dl))
	cRaw.SetDeadline(start.Add(dl))
	sRec := &recConn{Conn: sRaw}
	srv := tls.Server(sRec, scfg)
	sDone := make(chan struct{})
	var serverDone time.Time
	go func() {
		defer close(sDone)
		defer func() { serverDone = time.Now() }()
		defer func() {
			if p := recover(); p != nil {
				res.Out = "panic"
				res.Panic = sanitize(fmt.Sprint(p))
			}
		}()
		if err := srv.Handshake(); err != nil {
			res.HS = errClass(err)
			return
		}
		res.HS = "ok"
		res.Out = "ok"
		buf := make([]byte, 64)
		n, err := srv.Read(buf)
		if err != nil {
			res.Read = errClass(err)
			if res.Read != "eof" {
				res.Out = "err"
			}
		} else {
			res.Read = "d" + strconv.Itoa(n)
		}
	}()
	// client side: write everything, half-close, drain
	go func() {
		if chunk <= 0 {
			cRaw.Write(records)
		} else {
			for i := 0; i < len(records); i += chunk {
				j := min(i+chunk, len(records))
				if _, err := cRaw.Write(records[i:j]); err != nil {
					break
				}
			}
		}
		if tc, ok := cRaw.(*net.TCPConn); ok {
			tc.CloseWrite()
		}
	}()
	go io.Copy(io.Discard, cRaw)
	grace := 1500 * time.Millisecond
	select {
	case <-sDone:
	case <-time.After(dl + grace):
		res.Out = "timeout"
		sRaw.Close()
		cRaw.Close()
		select {
		case <-sDone:
		case <-time.After(2 * time.Second):
		}
	}
	if res.Out != "timeout" && res.Out != "panic" && !serverDone.IsZero() && serverDone.Sub(start) > dl+grace/2 {
		res.Out = "timeout"
	}
	res.Wire = sRec.Written()
	return res
}

func frameRecords(msg []byte, framing string, follow [][]byte) ([]byte, int) {
	rec := func(v []byte, p []byte) []byte { return cat([]byte{22}, v, bU16(len(p)), p) }
	v := []byte{3, 1}
	var out []byte
	chunk := 0
	put := func(p []byte) {
		for len(p) > 16384 {
			out = append(out, rec(v, p[:16384])...)
			p = p[16384:]
		}
		out = append(out, rec(v, p)...)
	}
	switch framing {
	case "split":
		h := len(msg) / 2
		put(msg[:h])
		put(msg[h:])
	case "split3":
		a, b := min(3, len(msg)), min(5, len(msg))
		put(msg[:a])
		put(msg[a:b])
		put(msg[b:])
	case "badver":
		v = []byte{5, 5}
		put(msg)
	case "bytewise":
		put(msg)
		chunk = 7
	default:
		put(msg)
	}
	v = []byte{3, 3}
	for _, f := range follow {
		put(f)
	}
	return out, chunk
}

// c34Cls maps the server's error to the model's vocabulary (or a coarse stage label).
func c34Cls(c string) string {
	switch {
	case c == "ok" || c == "-":
		return c
	case strings.Contains(c, "received_unexpected_handshake_message"):
		return "statemachine"
	case strings.Contains(c, "local_error:_tls:_unexpected_message"):
		return "unexpected"
	case strings.Contains(c, "exceeds_maximum"):
		return "toolong"
	case c == "eof":
		return "eof"
	case c == "timeout":
		return "deadline"
	case strings.Contains(c, "does_not_look_like"):
		return "x-nottls"
	case strings.Contains(c, "encrypted_client_hello") || strings.Contains(c, "Encrypted_Client_Hello") || strings.Contains(c, "ECH"):
		return "x-ech"
	case strings.Contains(c, "bad_record_MAC"):
		return "x-mac"
	}
	return "x-negotiate"
}

// serverFlight summarises what the server wrote in plaintext: "none", "alert", "sh", "hrr", and whether a
// ServerHelloDone followed (TLS 1.2 flight complete: the server now reads the client's next message).
func serverFlight(wire []byte) (kind string, shd bool, alert string, shver string) {
	kind, alert, shver = "none", "-", "-"
	var hs []byte
	for _, r := range splitRecords(wire) {
		switch r.Type {
		case 21:
			if len(r.Payload) == 2 && alert == "-" {
				alert = strconv.Itoa(int(r.Payload[1]))
			}
			if kind == "none" {
				kind = "alert"
			}
		case 22:
			hs = append(hs, r.Payload...)
		}
	}
	first := true
	for len(hs) >= 4 {
		n := int(hs[1])<<16 | int(hs[2])<<8 | int(hs[3])
		if len(hs) < 4+n {
			break
		}
		if first {
			first = false
			if hs[0] == 2 && n >= 34 {
				kind = "sh"
				shver = hx(hs[4:6])
				if hx(hs[6:38]) == "cf21ad74e59a6111be1d8c021e65b891c2a211167abb8c5e079e09e2c8a8339c" {
					kind = "hrr"
				}
			} else {
				break // encrypted or unexpected
			}
		}
		if hs[0] == 14 {
			shd = true
		}
		hs = hs[4+n:]
	}
	return
}

func execC34Conn(in KV) string {
	warmUp()
	scfg := defaultServerCfg(&tls.Config{MinVersion: tls.VersionTLS10, NextProtos: []string{"h2", "http/1.1"}})
	if in["ver"] == "12" {
		scfg.MaxVersion = tls.VersionTLS12
	}
	if in["ech"] == "1" {
		scfg.EncryptedClientHelloKeys = serverECHKeys()
	}
	var follow [][]byte
	for _, f := range splitList(in["follow"]) {
		follow = append(follow, unhex(f))
	}
	records, chunk := frameRecords(in.Bytes("ch"), in["framing"], follow)
	var res *rawRes
	alloc := allocDelta(func() { res = runRawClient(scfg, records, chunk, 1200*time.Millisecond) })
	kind, shd, alert, shver := serverFlight(res.Wire)
	stage := "rejected-hello"
	switch {
	case kind == "sh" && shd:
		stage = "flight12-sent"
	case kind == "sh":
		stage = "serverhello-sent"
	case kind == "hrr":
		stage = "hrr-sent"
	}
	out := fmt.Sprintf("out=%s hs=%s rd=%s flight=%s shd=%d shver=%s alert=%s stage=%s alloc=%s", res.Out, c34Cls(res.HS), c34Cls(res.Read), kind, bi(shd), shver, alert, stage, allocClass(alloc))
	if res.Out == "panic" {
		out += " msg=" + res.Panic
	}
	return out
}

// ---- c34_full: real clients ----

func genC34Full(r *Rng, i int, tier string) string {
	ids := connIDList()
	id := ids[r.Intn(len(ids))]
	mode := Pick(r, []string{"plain", "alps", "alps", "alps"})
	n := Pick(r, []int{0, 1, 5, 300, 16000, 16380, 40000, 65000, 65531, 65532})
	return fmt.Sprintf("id=%s mode=%s cp=%d n=%d ver=%s salt=%d", idName(id), mode, Pick(r, []int{17513, 17613}), n, Pick(r, []string{"13", "13", "12"}), r.Intn(1000))
}

func execC34Full(in KV) string {
	warmUp()
	id := idOrGolang(in["id"])
	ccfg := &tls.Config{NextProtos: []string{"h2", "http/1.1"}}
	scfg := &tls.Config{NextProtos: []string{"h2", "http/1.1"}}
	if in["ver"] == "12" {
		scfg.MaxVersion = tls.VersionTLS12
	}
	o := hostileOpts{ID: id, ClientCfg: ccfg, ServerCfg: scfg, Reads: 1, ServerDL: time.Second}
	o.ServerAfter = func(srv *tls.Conn) { srv.Write([]byte("hello")) }
	sentEE := false
	if in["mode"] == "alps" {
		// the client looks its settings up under serverHello.alpnProtocol, which is "" in TLS 1.3 (C22
		// material): provide the value under both keys so that the client EE really carries n bytes
		v := NewRng(uint64(in.Int("salt"))).Bytes(in.Int("n"))
		ccfg.ApplicationSettings = map[string][]byte{"h2": v, "": v}
		hooks := &tls.VerifServerHooks{}
		hooks.RewriteHandshake = func(data []byte) []byte {
			if len(data) > 0 && data[0] == 8 {
				out, _ := structuredMutation(data, fmt.Sprintf("alps:%s:3", in["cp"]), 1)
				return out
			}
			return data
		}
		o.Hooks = hooks
	}
	var res *hostileRes
	alloc := allocDelta(func() { res = runHostile(o) })
	// did the client send its EncryptedExtensions? It negotiated h2 and got ALPS iff its state says so.
	alpn := "-"
	if res.U != nil {
		cs := res.U.ConnectionState()
		alpn = cs.NegotiatedProtocol
		sentEE = in["mode"] == "alps" && cs.Version == tls.VersionTLS13 && alpn == "h2" && cs.PeerApplicationSettings != nil
	}
	srv := res.Srv
	out := "ok"
	switch {
	case strings.HasPrefix(srv, "panic"):
		out = "panic"
	case res.Out == "timeout":
		out = "timeout"
	case srv != "ok":
		out = "err"
	}
	line := fmt.Sprintf("out=%s hs=%s client=%s sentee=%d alpn=%s alloc=%s", out, c34Cls(srv), connCls(res.HS), bi(sentEE), ifs(alpn == "", "-", alpn), allocClass(alloc))
	if out == "panic" {
		line += " msg=" + srv
	}
	return line
}

// ---- c34_hrr2: scripted two-hello flows (ClientHello, HelloRetryRequest, second ClientHello) ----
//
// h1 is a first hello that draws a HelloRetryRequest: a parrot hello whose key_share list was emptied
// (with no / an inner-type / a garbage outer-type ECH extension), or a real ECH hello of the Go client
// encrypted to the server's ECH key (base=valid; the server then insists on P-256). After the server's HRR the
// raw client sends a second hello derived from the first: ECH extension switched / re-parameterised
// (ech2), key_share changed (ks2), further changes (extra2), optionally behind a ChangeCipherSpec.

type captureConn_c34 struct {
	nullConn_c34
	w []byte
}

func (c *captureConn_c34) Write(p []byte) (int, error) { c.w = append(c.w, p...); return len(p), nil }

// realECHHello_c34: the outer ClientHello a Go-style uTLS client sends when given the server's ECH config.
func realECHHello_c34() []byte {
	keys := serverECHKeys()
	sink := &captureConn_c34{}
	cfg := &tls.Config{ServerName: "secret.verif.test", MinVersion: tls.VersionTLS13, RootCAs: kit().pool,
		EncryptedClientHelloConfigList: bVec16(keys[0].Config)}
	u := tls.UClient(sink, cfg, tls.HelloGolang)
	u.Handshake() // fails at the first read; the hello is out by then
	rs := splitRecords(sink.w)
	if len(rs) == 0 || rs[0].Type != 22 {
		return nil
	}
	var hs []byte
	for _, r := range rs {
		if r.Type == 22 {
			hs = append(hs, r.Payload...)
		}
	}
	if len(hs) < 4 {
		return nil
	}
	n := int(hs[1])<<16 | int(hs[2])<<8 | int(hs[3])
	if len(hs) < 4+n {
		return nil
	}
	return hs[:4+n]
}

func (p *chParts) ext(t int) *rawExt_c34 {
	for i := range p.exts {
		if p.exts[i].t == t {
			return &p.exts[i]
		}
	}
	return nil
}

func (p *chParts) dropExt(t int) {
	var out []rawExt_c34
	for _, e := range p.exts {
		if e.t != t {
			out = append(out, e)
		}
	}
	p.exts = out
}

// setExt replaces the body of extension t, or inserts it before a trailing pre_shared_key.
func (p *chParts) setExt(t int, d []byte) {
	if e := p.ext(t); e != nil {
		e.d = d
		return
	}
	at := len(p.exts)
	if at > 0 && p.exts[at-1].t == 41 {
		at--
	}
	p.exts = append(p.exts[:at:at], append([]rawExt_c34{{t, d}}, p.exts[at:]...)...)
}

var tls13IDs_c34 []tls.ClientHelloID

func genC34HRR2(r *Rng, i int, tier string) string {
	if tls13IDs_c34 == nil {
		for _, id := range connIDList() {
			if p, ok := parseCH_c34(realHello(id, NewRng(1))); ok && p.ext(43) != nil && p.ext(51) != nil && p.ext(41) == nil {
				tls13IDs_c34 = append(tls13IDs_c34, id)
			}
		}
	}
	base := Pick(r, []string{"parrot", "parrot", "parrot", "valid"})
	ech1 := "valid"
	keys := 1
	var h1 []byte
	name := "Golang-0"
	if base == "valid" {
		h1 = realECHHello_c34()
		if r.Intn(6) == 0 {
			keys = 0 // the server cannot open it: plain outer hello, no ECH state
		}
	}
	if h1 == nil {
		base = "parrot"
		id := Pick(r, tls13IDs_c34)
		name = idName(id)
		p, _ := parseCH_c34(realHello(id, NewRng(r.U64())))
		p.ext(51).d = bVec16(nil) // no key share: the server has to ask for one
		ech1 = Pick(r, []string{"inner", "inner", "inner", "none", "garbage", "keep"})
		switch ech1 {
		case "inner":
			p.setExt(0xfe0d, []byte{1})
		case "none":
			p.dropExt(0xfe0d)
		case "garbage":
			p.setExt(0xfe0d, echExtBody(r, "outer"))
		}
		keys = r.Intn(2)
		h1 = p.marshal()
	}
	ech2 := Pick(r, []string{"same", "none", "inner", "outerzero", "outerzero", "outerctx", "outerctx", "outerenc", "outerid", "outersuite", "garbage", "empty", "innerlong"})
	ks2 := Pick(r, []string{"good", "good", "good", "good", "none", "two", "wrong", "same"})
	extra2 := Pick(r, []string{"none", "none", "none", "cookie", "psk", "suites", "early", "sid"})
	return fmt.Sprintf("id=%s base=%s ech1=%s keys=%d ech2=%s ks2=%s extra2=%s ccs=%d salt=%d h1=%s", name, base, ech1, keys, ech2, ks2, extra2, r.Intn(2), r.Intn(1000), hx(h1))
}

// secondHello_c34 derives the second ClientHello from the first.
func secondHello_c34(h1 []byte, in KV, group int) []byte {
	p, ok := parseCH_c34(h1)
	if !ok {
		return h1
	}
	r := NewRng(uint64(in.Int("salt")) + 5)
	// the parameters of hello 1's outer extension, if it has one
	kdf, aead, cid := 0, 0, 0
	var oldPayloadLen int
	if e := p.ext(0xfe0d); e != nil && len(e.d) >= 8 && e.d[0] == 0 {
		kdf, aead, cid = int(e.d[1])<<8|int(e.d[2]), int(e.d[3])<<8|int(e.d[4]), int(e.d[5])
		encLen := int(e.d[6])<<8 | int(e.d[7])
		if len(e.d) >= 10+encLen {
			oldPayloadLen = int(e.d[8+encLen])<<8 | int(e.d[9+encLen])
		}
	}
	if oldPayloadLen == 0 {
		oldPayloadLen = 64 + r.Intn(64)
	}
	outer := func(kdf, aead, cid int, enc, payload []byte) []byte {
		return cat([]byte{0}, bU16(kdf), bU16(aead), []byte{byte(cid)}, bVec16(enc), bVec16(payload))
	}
	switch in["ech2"] {
	case "none":
		p.dropExt(0xfe0d)
	case "inner":
		p.setExt(0xfe0d, []byte{1})
	case "innerlong":
		p.setExt(0xfe0d, []byte{1, 0})
	case "outerzero":
		p.setExt(0xfe0d, outer(0, 0, 0, nil, r.Bytes(1+r.Intn(200))))
	case "outerctx":
		p.setExt(0xfe0d, outer(kdf, aead, cid, nil, r.Bytes(oldPayloadLen)))
	case "outerenc":
		p.setExt(0xfe0d, outer(kdf, aead, cid, r.Bytes(32), r.Bytes(oldPayloadLen)))
	case "outerid":
		p.setExt(0xfe0d, outer(kdf, aead, (cid+1)%256, nil, r.Bytes(oldPayloadLen)))
	case "outersuite":
		p.setExt(0xfe0d, outer(kdf, aead+1, cid, nil, r.Bytes(oldPayloadLen)))
	case "garbage":
		p.setExt(0xfe0d, r.Bytes(1+r.Intn(12)))
	case "empty":
		p.setExt(0xfe0d, nil)
	}
	share := func(g int) []byte {
		n := map[int]int{29: 32, 23: 65, 24: 97, 25: 133}[g]
		if n == 0 {
			n = 32
		}
		d := r.Bytes(n)
		if g != 29 {
			d[0] = 4
		}
		return cat(bU16(g), bVec16(d))
	}
	switch in["ks2"] {
	case "good":
		p.setExt(51, bVec16(share(group)))
	case "none":
		p.setExt(51, bVec16(nil))
	case "two":
		p.setExt(51, bVec16(cat(share(group), share(29))))
	case "wrong":
		p.setExt(51, bVec16(share(map[bool]int{true: 23, false: 29}[group == 29])))
	}
	switch in["extra2"] {
	case "cookie":
		p.setExt(44, bVec16(r.Bytes(16)))
	case "psk":
		ids := cat(bVec16(r.Bytes(32)), r.Bytes(4))
		p.dropExt(41)
		p.exts = append(p.exts, rawExt_c34{41, cat(bVec16(ids), bVec16(bVec8(r.Bytes(32))))})
	case "suites":
		p.suites = append([]byte{0x13, 0x03}, p.suites...)
	case "early":
		p.setExt(42, nil)
	case "sid":
		p.sid = r.Bytes(32)
	}
	return p.marshal()
}

// hrrGroup_c34 parses a HelloRetryRequest handshake message and returns the selected group (0 if none).
func hrrGroup_c34(m []byte) int {
	if len(m) < 4+35 {
		return 0
	}
	off := 4 + 35 + int(m[4+34]) + 3
	if len(m) < off+2 {
		return 0
	}
	b := m[off+2:]
	for len(b) >= 4 {
		t := int(b[0])<<8 | int(b[1])
		l := int(b[2])<<8 | int(b[3])
		if len(b) < 4+l {
			break
		}
		if t == 51 && l == 2 {
			return int(b[4])<<8 | int(b[5])
		}
		b = b[4+l:]
	}
	return 0
}

func echExtOf_c34(hello []byte) string {
	if p, ok := parseCH_c34(hello); ok {
		if e := p.ext(0xfe0d); e != nil {
			if len(e.d) == 0 {
				return "empty"
			}
			return hx(e.d)
		}
	}
	return "-"
}

func execC34HRR2(in KV) string {
	warmUp()
	scfg := defaultServerCfg(&tls.Config{NextProtos: []string{"h2", "http/1.1"}})
	if in["keys"] == "1" {
		scfg.EncryptedClientHelloKeys = serverECHKeys()
	}
	if in["base"] == "valid" {
		scfg.CurvePreferences = []tls.CurveID{tls.CurveP256}
	}
	h1 := in.Bytes("h1")
	var once func() (*rawRes, bool, int, []byte)
	once = func() (*rawRes, bool, int, []byte) {
		res := &rawRes{Out: "err", HS: "-", Read: "-"}
		gotHRR, group := false, 0
		var h2 []byte
		cRaw, sRaw, err := tcpPair()
		if err != nil {
			res.HS = "harness"
			return res, false, 0, nil
		}
		defer cRaw.Close()
		defer sRaw.Close()
		dl := 1200 * time.Millisecond
		start := time.Now()
		sRaw.SetDeadline(start.Add(dl))
		cRaw.SetDeadline(start.Add(dl))
		sRec := &recConn{Conn: sRaw}
		srv := tls.Server(sRec, scfg)
		sDone := make(chan struct{})
		var serverDone time.Time
		go func() {
			defer close(sDone)
			defer func() { serverDone = time.Now() }()
			defer func() {
				if p := recover(); p != nil {
					res.Out = "panic"
					res.Panic = sanitize(fmt.Sprint(p))
				}
			}()
			if err := srv.Handshake(); err != nil {
				res.HS = errClass(err)
				return
			}
			res.HS, res.Out = "ok", "ok"
		}()
		cDone := make(chan struct{})
		go func() {
			defer close(cDone)
			rec := func(v byte, typ byte, p []byte) []byte { return cat([]byte{typ, 3, v}, bU16(len(p)), p) }
			cRaw.Write(rec(1, 22, h1))
			// read the server's answer: handshake records until a whole message is there
			var hs []byte
			hdr := make([]byte, 5)
			for {
				if _, err := io.ReadFull(cRaw, hdr); err != nil {
					return
				}
				body := make([]byte, int(hdr[3])<<8|int(hdr[4]))
				if _, err := io.ReadFull(cRaw, body); err != nil {
					return
				}
				if hdr[0] != 22 {
					if hdr[0] == 21 {
						return
					}
					continue
				}
				hs = append(hs, body...)
				if len(hs) >= 4 && len(hs) >= 4+(int(hs[1])<<16|int(hs[2])<<8|int(hs[3])) {
					break
				}
			}
			if hs[0] != 2 || len(hs) < 38 || hx(hs[6:38]) != "cf21ad74e59a6111be1d8c021e65b891c2a211167abb8c5e079e09e2c8a8339c" {
				return // a ServerHello (or something else), not a HelloRetryRequest
			}
			gotHRR = true
			group = hrrGroup_c34(hs)
			h2 = secondHello_c34(h1, in, group)
			var out []byte
			if in["ccs"] == "1" {
				out = append(out, rec(3, 20, []byte{1})...)
			}
			p := h2
			for len(p) > 16384 {
				out = append(out, rec(3, 22, p[:16384])...)
				p = p[16384:]
			}
			out = append(out, rec(3, 22, p)...)
			cRaw.Write(out)
			if tc, ok := cRaw.(*net.TCPConn); ok {
				tc.CloseWrite()
			}
			io.Copy(io.Discard, cRaw)
		}()
		grace := 1500 * time.Millisecond
		select {
		case <-sDone:
		case <-time.After(dl + grace):
			res.Out = "timeout"
			sRaw.Close()
			cRaw.Close()
			select {
			case <-sDone:
			case <-time.After(2 * time.Second):
			}
		}
		if res.Out != "timeout" && res.Out != "panic" && !serverDone.IsZero() && serverDone.Sub(start) > dl+grace/2 {
			res.Out = "timeout"
		}
		cRaw.Close()
		select {
		case <-cDone:
		case <-time.After(time.Second):
		}
		res.Wire = sRec.Written()
		return res, gotHRR, group, h2
	}
	var res *rawRes
	var gotHRR bool
	var group int
	var h2 []byte
	alloc := allocDelta(func() {
		res, gotHRR, group, h2 = once()
		if res.Out == "timeout" {
			if r2, g2, gr2, h22 := once(); r2.Out != "timeout" {
				res, gotHRR, group, h2 = r2, g2, gr2, h22
			}
		}
	})
	// alerts the server sent, in order
	var alerts []string
	for _, r := range splitRecords(res.Wire) {
		if r.Type == 21 && len(r.Payload) == 2 {
			alerts = append(alerts, strconv.Itoa(int(r.Payload[1])))
		}
	}
	h2ech := "-"
	if h2 != nil {
		h2ech = echExtOf_c34(h2)
	}
	dec := bi(in["base"] == "valid" && in["keys"] == "1")
	out := fmt.Sprintf("out=%s hs=%s hrr=%d grp=%d alert=%s dec=%d h1ech=%s h2ech=%s alloc=%s", res.Out, c34Cls(res.HS), bi(gotHRR), group, joinList(alerts), dec, echExtOf_c34(h1), h2ech, allocClass(alloc))
	if res.Out == "panic" {
		out += " msg=" + res.Panic
	}
	return out
}

func init() {
	register(&Family{Name: "c34_hrr2", Gen: genC34HRR2, Exec: execC34HRR2, Timeout: 30 * time.Second})
	register(&Family{Name: "c34_conn", Gen: genC34Conn, Exec: execC34Conn, Timeout: 30 * time.Second})
	register(&Family{Name: "c34_full", Gen: genC34Full, Exec: execC34Full, Timeout: 30 * time.Second})
}
