package main

import (
	"bytes"
	"crypto/aes"
	"crypto/cipher"
	"crypto/hmac"
	"crypto/sha256"
	"crypto/sha512"
	"crypto/x509"
	"fmt"
	"strings"

	tls "github.com/refraction-networking/utls"
)

// ---- C35: session tickets ----
//
// ticket: seal a generated SessionState under a key set, mutate the ticket, open it under a (possibly
// rotated) key set. The primitives' values the Lean model needs (SHA-512 of the key seeds, AES-CTR and
// HMAC results) are computed here with the standard library, independently of the code under test, and
// travel as an oracle table.
//
// forge: MakeClientSessionState + setters (getters compared with the model) and a real TLS 1.2
// resumption from a forged ClientSessionState.

func ctrXor(key, iv, in []byte) []byte {
	b, err := aes.NewCipher(key)
	if err != nil {
		panic(err)
	}
	out := make([]byte, len(in))
	cipher.NewCTR(b, iv).XORKeyStream(out, in)
	return out
}

func hmac256(key, msg []byte) []byte {
	m := hmac.New(sha256.New, key)
	m.Write(msg)
	return m.Sum(nil)
}

func hexJoin(xs [][]byte) string {
	ss := make([]string, len(xs))
	for i, x := range xs {
		ss[i] = hx(x)
	}
	return joinList(ss)
}

func kitCerts() (leaf, ca *x509.Certificate) {
	k := kit()
	l, err := x509.ParseCertificate(k.leaf["ecdsa"].Certificate[0])
	if err != nil {
		panic(err)
	}
	return l, k.caCert
}

func genSessionFields(r *Rng, kind string) tls.VerifSessionFields {
	f := tls.VerifSessionFields{
		Version:     Pick(r, []uint16{0x0301, 0x0302, 0x0303, 0x0304}),
		CipherSuite: Pick(r, []uint16{0x1301, 0x1302, 0x1303, 0xc02f, 0xc02b, 0xc030, 0xcca8, 0x002f, 0x0a0a, 0}),
		CreatedAt:   r.U64() >> uint(r.Intn(64)),
		Secret:      r.Bytes(Pick(r, []int{1, 2, 32, 48, 48, 48, 255})),
	}
	f.ExtMasterSecret = r.Bool()
	for i, n := 0, r.Intn(3); i < n; i++ {
		f.Extra = append(f.Extra, r.Bytes(Pick(r, []int{0, 1, 17, 300})))
	}
	switch kind {
	case "client12":
		f.IsClient = true
		f.Version = Pick(r, []uint16{0x0301, 0x0303})
	case "client13":
		f.IsClient = true
		f.Version = 0x0304
		f.UseBy = r.U64() >> uint(r.Intn(64))
		f.AgeAdd = uint32(r.U64())
	}
	if f.IsClient || r.Bool() {
		// a small PKI (leaf, two intermediates, two roots, the kit CA): peer certificates and verified
		// chains of different shapes, so that chains differ after the leaf
		c35GenCerts(r, &f)
		if r.Bool() {
			f.OCSPResponse = r.Bytes(1 + r.Intn(40))
		}
		for i, n := 0, r.Intn(3); i < n; i++ {
			f.SCTs = append(f.SCTs, r.Bytes(1+r.Intn(30)))
		}
	}
	if r.Intn(4) == 0 {
		f.EarlyData = true
		f.ALPN = Pick(r, []string{"", "h2", "http/1.1"})
	}
	return f
}

func certRaws(cs []*x509.Certificate) [][]byte {
	var out [][]byte
	for _, c := range cs {
		out = append(out, c.Raw)
	}
	return out
}

func sessFieldsEqual(a, b tls.VerifSessionFields) bool {
	eqBB := func(x, y [][]byte) bool {
		if len(x) != len(y) {
			return false
		}
		for i := range x {
			if !bytes.Equal(x[i], y[i]) {
				return false
			}
		}
		return true
	}
	if a.Version != b.Version || a.CipherSuite != b.CipherSuite || a.IsClient != b.IsClient || a.CreatedAt != b.CreatedAt ||
		!bytes.Equal(a.Secret, b.Secret) || a.ExtMasterSecret != b.ExtMasterSecret || a.EarlyData != b.EarlyData ||
		!eqBB(a.Extra, b.Extra) || !eqBB(certRaws(a.PeerCertificates), certRaws(b.PeerCertificates)) ||
		!bytes.Equal(a.OCSPResponse, b.OCSPResponse) || !eqBB(a.SCTs, b.SCTs) || len(a.VerifiedChains) != len(b.VerifiedChains) ||
		a.ALPN != b.ALPN || a.UseBy != b.UseBy || a.AgeAdd != b.AgeAdd {
		return false
	}
	for i := range a.VerifiedChains {
		if !eqBB(certRaws(a.VerifiedChains[i]), certRaws(b.VerifiedChains[i])) {
			return false
		}
	}
	return true
}

func mutateTicket(t []byte, mut string) []byte {
	out := append([]byte(nil), t...)
	switch {
	case mut == "none":
	case strings.HasPrefix(mut, "flip:"):
		var i int
		fmt.Sscanf(mut, "flip:%d", &i)
		if len(out) > 0 {
			i %= len(out) * 8
			out[i/8] ^= 1 << uint(i%8)
		}
	case strings.HasPrefix(mut, "trunc:"):
		var n int
		fmt.Sscanf(mut, "trunc:%d", &n)
		if n > len(out) {
			n = len(out)
		}
		out = out[:len(out)-n]
	case strings.HasPrefix(mut, "grow:"):
		var n int
		fmt.Sscanf(mut, "grow:%d", &n)
		out = append(out, make([]byte, n)...)
	case strings.HasPrefix(mut, "head:"):
		var n int
		fmt.Sscanf(mut, "head:%d", &n)
		if n > len(out) {
			n = len(out)
		}
		out = out[n:]
	}
	return out
}

func execTicket(in KV) string {
	kr := NewRng(in.U64("kseed"))
	nk := in.Int("keys")
	var seedsE [][32]byte
	for i := 0; i < nk; i++ {
		var s [32]byte
		copy(s[:], kr.Bytes(32))
		seedsE = append(seedsE, s)
	}
	fresh := func() [32]byte {
		var s [32]byte
		copy(s[:], kr.Bytes(32))
		return s
	}
	var seedsD [][32]byte
	switch in["rot"] {
	case "same":
		seedsD = seedsE
	case "dropfirst":
		seedsD = append([][32]byte{fresh()}, seedsE[1:]...)
	case "prepend":
		seedsD = append([][32]byte{fresh()}, seedsE...)
	case "disjoint":
		for range seedsE {
			seedsD = append(seedsD, fresh())
		}
	}
	rr := &recReader{r: NewRng(in.U64("st") ^ 0x5eed)}
	cfgE := &tls.Config{Rand: rr}
	cfgD := &tls.Config{}
	fields := genSessionFields(NewRng(in.U64("st")), in["kind"])
	ss := tls.VerifMakeSessionState(fields)
	// leg=1/2: a user-set legacy Config.SessionTicketKey is present on both Configs before
	// SetSessionTicketKeys; with leg=1 it has also been used (its derived key got installed and
	// sealed a ticket) — afterwards only the explicitly set keys may seal and open.
	leg := in["leg"]
	var legacy [32]byte
	var legacyTicket []byte
	lk := "-"
	if leg == "1" || leg == "2" {
		copy(legacy[:], kr.Bytes(32))
		legacy[0] |= 1
		cfgE.SessionTicketKey = legacy
		cfgD.SessionTicketKey = legacy
		if leg == "1" {
			var ks []string
			for _, k := range tls.VerifTicketKeys(cfgE) {
				ks = append(ks, hx(k.AesKey[:])+":"+hx(k.HmacKey[:]))
			}
			lk = joinList(ks)
			legacyTicket, _ = cfgE.EncryptTicket(tls.ConnectionState{}, ss)
			tls.VerifTicketKeys(cfgD)
		}
	}
	cfgE.SetSessionTicketKeys(seedsE)
	cfgD.SetSessionTicketKeys(seedsD)
	sb, err := ss.Bytes()
	if err != nil {
		return "out=bytes-err"
	}
	ticket, err := cfgE.EncryptTicket(tls.ConnectionState{}, ss)
	if err != nil {
		return "out=encrypt-err:" + sanitize(err.Error())
	}
	// the IV is the last read from Config.Rand (an earlier 32-byte read may populate the legacy SessionTicketKey)
	var iv []byte
	if n := len(rr.log); n > 0 {
		iv = rr.log[n-1]
	}
	if len(iv) != 16 {
		return fmt.Sprintf("out=unexpected-rand-reads:%d", len(rr.log))
	}
	t2 := mutateTicket(ticket, in["mut"])
	ss2, derr := cfgD.DecryptTicket(t2, tls.ConnectionState{})
	dec := "nil"
	feq := "-"
	if derr != nil {
		dec = "err"
	} else if ss2 != nil {
		b2, err := ss2.Bytes()
		if err != nil {
			dec = "rebytes-err"
		} else {
			dec = hx(b2)
		}
		if sessFieldsEqual(fields, tls.VerifSessionFieldsOf(ss2)) {
			feq = "1"
		} else {
			feq = "0"
		}
	}
	// derived keys as installed, as TicketKeyFromBytes reports them, and the SHA-512 oracle
	var ik, pk, hs, ks, kd, hd []string
	for i, k := range tls.VerifTicketKeys(cfgE) {
		ik = append(ik, hx(k.AesKey[:])+":"+hx(k.HmacKey[:]))
		p := tls.TicketKeyFromBytes(seedsE[i])
		pk = append(pk, hx(p.AesKey[:])+":"+hx(p.HmacKey[:]))
		h := sha512.Sum512(seedsE[i][:])
		hs = append(hs, hx(h[:]))
		ks = append(ks, hx(seedsE[i][:]))
	}
	for i := range seedsD {
		h := sha512.Sum512(seedsD[i][:])
		hd = append(hd, hx(h[:]))
		kd = append(kd, hx(seedsD[i][:]))
	}
	// oracle for the primitives: sealing under E[0]; for each D key the MAC of the received prefix
	// and the CTR decryption of the received ciphertext
	hE := sha512.Sum512(seedsE[0][:])
	ct := ctrXor(hE[16:32], iv, sb)
	tag := hmac256(hE[32:48], append(append([]byte(nil), iv...), ct...))
	var dm, dp [][]byte
	if len(t2) >= 48 {
		auth := t2[:len(t2)-32]
		for i := range seedsD {
			h := sha512.Sum512(seedsD[i][:])
			dm = append(dm, hmac256(h[32:48], auth))
			dp = append(dp, ctrXor(h[16:32], t2[:16], auth[16:]))
		}
	}
	ldec := "-"
	lh := "-"
	if leg == "1" {
		ldec = "nil"
		if s3, err := cfgE.DecryptTicket(legacyTicket, tls.ConnectionState{}); err != nil {
			ldec = "err"
		} else if s3 != nil {
			ldec = "state"
		}
		h := sha512.Sum512(legacy[:])
		lh = hx(legacy[:]) + ":" + hx(h[:])
	}
	return fmt.Sprintf("out=ok ldec=%s lk=%s lh=%s sb=%s iv=%s t=%s dec=%s feq=%s ks=%s kd=%s h=%s hd=%s ik=%s pk=%s ct=%s tag=%s dm=%s dp=%s %s ctab=%s",
		ldec, lk, lh, hx(sb), hx(iv), hx(ticket), dec, feq, joinList(ks), joinList(kd), joinList(hs), joinList(hd), joinList(ik), joinList(pk),
		hx(ct), hx(tag), hexJoin(dm), hexJoin(dp), c35FieldTokens(fields), c35Ctab())
}

// ---- forged client sessions ----

// capCache is a ClientSessionCache that keeps the last state put under each key.
type capCache struct{ m map[string]*tls.ClientSessionState }

func newCapCache() *capCache { return &capCache{m: map[string]*tls.ClientSessionState{}} }
func (c *capCache) Get(k string) (*tls.ClientSessionState, bool) {
	s, ok := c.m[k]
	return s, ok && s != nil
}
func (c *capCache) Put(k string, s *tls.ClientSessionState) { c.m[k] = s }

func execForgeSetters(in KV) string {
	r := NewRng(in.U64("seed"))
	ticket := r.Bytes(r.Intn(40))
	vers := uint16(r.U64())
	suite := uint16(r.U64())
	secret := r.Bytes(r.Intn(49))
	css := tls.MakeClientSessionState(ticket, vers, suite, secret, nil, nil)
	ops := []string{fmt.Sprintf("make:%s:%d:%d:%s", hxe(ticket), vers, suite, hxe(secret))}
	for i, n := 0, r.Intn(7); i < n; i++ {
		switch r.Intn(8) {
		case 0:
			b := r.Bytes(r.Intn(20))
			css.SetSessionTicket(b)
			ops = append(ops, "ticket:"+hxe(b))
		case 1:
			v := uint16(r.U64())
			css.SetVers(v)
			ops = append(ops, fmt.Sprintf("vers:%d", v))
		case 2:
			v := uint16(r.U64())
			css.SetCipherSuite(v)
			ops = append(ops, fmt.Sprintf("suite:%d", v))
		case 3:
			b := r.Bytes(r.Intn(49))
			css.SetMasterSecret(b)
			ops = append(ops, "secret:"+hxe(b))
		case 4:
			b := r.Bool()
			css.SetEMS(b)
			ops = append(ops, "ems:"+b2i(b))
		case 5:
			v := r.U64() >> uint(r.Intn(64))
			css.SetCreatedAt(v)
			ops = append(ops, fmt.Sprintf("createdAt:%d", v))
		case 6:
			v := r.U64() >> uint(r.Intn(64))
			css.SetUseBy(v)
			ops = append(ops, fmt.Sprintf("useBy:%d", v))
		case 7:
			v := uint32(r.U64())
			css.SetAgeAdd(v)
			ops = append(ops, fmt.Sprintf("ageAdd:%d", v))
		}
	}
	f := tls.VerifClientSessionFields(css)
	return fmt.Sprintf("out=ok ops=%s get=%s:%d:%d:%s:%s priv=%d:%d:%d", joinList(ops),
		hxe(css.SessionTicket()), css.Vers(), css.CipherSuite(), hxe(css.MasterSecret()), b2i(css.EMS()),
		f.CreatedAt, f.UseBy, f.AgeAdd)
}

var forgeIDs = []string{"Firefox-55", "Chrome-58", "Chrome-62", "iOS-111", "iOS-12.1", "Android-11", "Chrome-83", "Firefox-105", "Chrome-120", "Safari-16.0"}

func execForgeResume(in KV) string {
	id, ok := idByName(in["id"])
	if !ok {
		return "out=bad-id"
	}
	var seed [32]byte
	copy(seed[:], NewRng(in.U64("seed")).Bytes(32))
	srvCfg := &tls.Config{MaxVersion: tls.VersionTLS12}
	srvCfg.SetSessionTicketKeys([][32]byte{seed})
	srvCfg = defaultServerCfg(srvCfg)
	cache := newCapCache()
	cliCfg := &tls.Config{ClientSessionCache: cache, ServerName: "example.golang", OmitEmptyPsk: true}
	first := runHS(HSOpts{ID: id, ClientCfg: cliCfg, ServerCfg: srvCfg, AppData: []byte("one")})
	if first.ClientErr != nil || first.ServerErr != nil {
		return fmt.Sprintf("out=first-failed c=%s s=%s", errClass(first.ClientErr), errClass(first.ServerErr))
	}
	var css0 *tls.ClientSessionState
	for _, s := range cache.m {
		if s != nil {
			css0 = s
		}
	}
	if css0 == nil {
		return "out=no-session"
	}
	f := tls.VerifClientSessionFields(css0)
	secret := append([]byte(nil), css0.MasterSecret()...)
	vers, suite := css0.Vers(), css0.CipherSuite()
	switch in["tamper"] {
	case "secret":
		secret[in.Int("seed")%len(secret)] ^= 0x40
	}
	forged := tls.MakeClientSessionState(css0.SessionTicket(), vers, suite, secret, css0.ServerCertificates(), css0.VerifiedChains())
	forged.SetEMS(css0.EMS())
	forged.SetCreatedAt(f.CreatedAt)
	var setErr error
	second := runHS(HSOpts{ID: id, ClientCfg: &tls.Config{ClientSessionCache: newCapCache(), ServerName: "example.golang", OmitEmptyPsk: true},
		ServerCfg: srvCfg, AppData: []byte("two"),
		Prepare: func(u *tls.UConn) error {
			setErr = u.SetSessionState(forged)
			return setErr
		}})
	return fmt.Sprintf("out=ok supplied=%04x:%04x first=%04x:%04x ems=%s set=%s c=%s s=%s cres=%s sres=%s got=%04x:%04x echo=%s",
		vers, suite, first.ClientState.Version, first.ClientState.CipherSuite, b2i(css0.EMS()), errClass(setErr),
		errClass(second.ClientErr), errClass(second.ServerErr), b2i(second.ClientState.DidResume), b2i(second.ServerState.DidResume),
		second.ClientState.Version, second.ClientState.CipherSuite, b2i(second.EchoOK))
}

func init() {
	register(&Family{
		Name: "ticket",
		Gen: func(r *Rng, i int, tier string) string {
			kind := Pick(r, []string{"server", "server", "client12", "client13"})
			rot := Pick(r, []string{"same", "same", "same", "prepend", "dropfirst", "disjoint"})
			mut := "none"
			switch r.Intn(10) {
			case 0, 1, 2, 3:
				mut = fmt.Sprintf("flip:%d", r.Intn(1<<16))
			case 4:
				mut = fmt.Sprintf("trunc:%d", Pick(r, []int{1, 2, 16, 31, 32, 33, 47, 48, 100, 100000}))
			case 5:
				mut = fmt.Sprintf("grow:%d", Pick(r, []int{1, 16, 32}))
			case 6:
				mut = fmt.Sprintf("head:%d", Pick(r, []int{1, 16}))
			}
			// systematic sweep at the start: every bit of the first ticket bytes, of the tag, every truncation
			if i < 400 {
				kind, rot = "server", "same"
				if i < 200 {
					mut = fmt.Sprintf("flip:%d", i)
				} else if i < 300 {
					mut = fmt.Sprintf("trunc:%d", i-199)
				} else {
					mut = fmt.Sprintf("flip:%d", 65536-(i-299)) // wraps into the tail (tag) region
				}
			}
			leg := Pick(r, []string{"0", "0", "0", "1", "2"})
			if i < 400 {
				leg = "0"
			}
			return fmt.Sprintf("keys=%d kseed=%d st=%d kind=%s mut=%s rot=%s leg=%s", 1+r.Intn(3), r.U64()>>1, r.U64()>>1, kind, mut, rot, leg)
		},
		Exec: execTicket,
	})
	register(&Family{
		Name: "forge_set",
		Gen:  func(r *Rng, i int, tier string) string { return fmt.Sprintf("seed=%d", r.U64()>>1) },
		Exec: execForgeSetters,
	})
	register(&Family{
		Name: "forge_resume",
		Gen: func(r *Rng, i int, tier string) string {
			return fmt.Sprintf("id=%s seed=%d tamper=%s", forgeIDs[i%len(forgeIDs)], r.U64()>>1, Pick(r, []string{"none", "none", "secret"}))
		},
		Exec: execForgeResume,
	})
}
