package main

import (
	"bytes"
	"crypto/ecdsa"
	"crypto/elliptic"
	crand "crypto/rand"
	"crypto/sha512"
	"crypto/x509"
	"crypto/x509/pkix"
	"fmt"
	"math/big"
	"strconv"
	"strings"
	"sync"
	"time"

	tls "github.com/refraction-networking/utls"
)

// ---- C35 (own3): a small PKI, the SessionState fields on the line, Config histories, state codec ----

// c35PKI: index 0 = leaf, 1 = intermediate A, 2 = intermediate B, 3 = root A, 4 = root B, 5 = the kit CA
// (the leaf's real issuer). SessionState.Bytes/ParseSessionState never verify chains, they only parse the
// certificates, so chains of every shape over these six are legal states.
var (
	c35pkiOnce sync.Once
	c35pki     []*x509.Certificate
)

func c35mkCA(cn string, serial int64, parent *x509.Certificate, parentKey *ecdsa.PrivateKey) (*x509.Certificate, *ecdsa.PrivateKey) {
	k, _ := ecdsa.GenerateKey(elliptic.P256(), crand.Reader)
	now := time.Now()
	t := &x509.Certificate{
		SerialNumber: big.NewInt(serial), Subject: pkix.Name{CommonName: cn, Organization: []string{"verif c35"}},
		NotBefore: now.Add(-48 * time.Hour), NotAfter: now.Add(10 * 365 * 24 * time.Hour),
		IsCA: true, BasicConstraintsValid: true, KeyUsage: x509.KeyUsageCertSign | x509.KeyUsageDigitalSignature,
	}
	signer, signerKey := t, k
	if parent != nil {
		signer, signerKey = parent, parentKey
	}
	der, err := x509.CreateCertificate(crand.Reader, t, signer, &k.PublicKey, signerKey)
	if err != nil {
		panic(err)
	}
	c, err := x509.ParseCertificate(der)
	if err != nil {
		panic(err)
	}
	return c, k
}

func c35Certs() []*x509.Certificate {
	c35pkiOnce.Do(func() {
		leaf, ca := kitCerts()
		ra, rak := c35mkCA("c35 root A", 101, nil, nil)
		rb, rbk := c35mkCA("c35 root B with a longer name", 102, nil, nil)
		ia, _ := c35mkCA("c35 intermediate A", 103, ra, rak)
		ib, _ := c35mkCA("c35 intermediate B (cross-signed)", 104, rb, rbk)
		c35pki = []*x509.Certificate{leaf, ia, ib, ra, rb, ca}
	})
	return c35pki
}

func c35CertIdx(c *x509.Certificate) string {
	for i, p := range c35Certs() {
		if bytes.Equal(p.Raw, c.Raw) {
			return strconv.Itoa(i)
		}
	}
	return "x"
}

// c35GenCerts fills the certificate fields of a generated state: peer certificates [leaf, ...] and 0-3
// verified chains of different shapes (several intermediates/roots, different lengths), all starting
// with the leaf.
func c35GenCerts(r *Rng, f *tls.VerifSessionFields) {
	p := c35Certs()
	pick := func(ix ...int) []*x509.Certificate {
		out := make([]*x509.Certificate, len(ix))
		for i, j := range ix {
			out[i] = p[j]
		}
		return out
	}
	peerShapes := [][]int{{0}, {0, 5}, {0, 1}, {0, 1, 3}, {0, 2, 1}, {0, 2}}
	f.PeerCertificates = pick(Pick(r, peerShapes)...)
	chainShapes := [][]int{{0}, {0, 5}, {0, 1}, {0, 2}, {0, 1, 3}, {0, 2, 4}, {0, 1, 4}, {0, 2, 1, 3}, {0, 3}}
	for i, n := 0, r.Intn(4); i < n; i++ {
		f.VerifiedChains = append(f.VerifiedChains, pick(Pick(r, chainShapes)...))
	}
}

// c35FieldTokens renders every field of a state (certificates as indices into ctab).
func c35FieldTokens(f tls.VerifSessionFields) string {
	typ := 1
	if f.IsClient {
		typ = 2
	}
	hxes := func(xs [][]byte) string {
		ss := make([]string, len(xs))
		for i, x := range xs {
			ss[i] = hxe(x)
		}
		return joinList(ss)
	}
	var pc []string
	for _, c := range f.PeerCertificates {
		pc = append(pc, c35CertIdx(c))
	}
	var vc []string
	for _, ch := range f.VerifiedChains {
		var one []string
		for _, c := range ch {
			one = append(one, c35CertIdx(c))
		}
		if len(one) == 0 {
			one = []string{"e"}
		}
		vc = append(vc, strings.Join(one, "+"))
	}
	oc := "nil"
	if f.OCSPResponse != nil {
		oc = hxe(f.OCSPResponse)
	}
	sct := "nil"
	if f.SCTs != nil {
		sct = hxes(f.SCTs)
	}
	return fmt.Sprintf("fv=%d ft=%d fs=%d fc=%d fsec=%s fx=%s fe=%s fd=%s fpc=%s foc=%s fsct=%s fvc=%s fal=%s fub=%d faa=%d",
		f.Version, typ, f.CipherSuite, f.CreatedAt, hxe(f.Secret), hxes(f.Extra), b2i(f.ExtMasterSecret), b2i(f.EarlyData),
		joinList(pc), oc, sct, joinList(vc), hxe([]byte(f.ALPN)), f.UseBy, f.AgeAdd)
}

func c35Ctab() string {
	var cs []string
	for _, c := range c35Certs() {
		cs = append(cs, hx(c.Raw))
	}
	return joinList(cs)
}

// ---- ticket_cfg: histories over several Configs related by Clone ----
//
// ops (comma separated): s<c>:<i>+<j>..  SetSessionTicketKeys on Config c with pool seeds i, j, ..
//                        c<c>            append c.Clone() as a new Config
//                        u<c>            c.ticketKeys(nil) (a handshake using the keys)
//                        e<c>            EncryptTicket on c (ticket number = count of e ops so far)
//                        d<c>:<t>        DecryptTicket of ticket t on c
// After every op the installed key list of every Config is observed (VerifInstalledTicketKeys, no
// side effect) and rendered as indices of the pool seed whose TicketKeyFromBytes equals the key.

const c35PoolN = 6

func c35Pool(kseed uint64) (pool [][32]byte, legacy [32]byte) {
	kr := NewRng(kseed ^ 0xc35c35)
	for i := 0; i < c35PoolN; i++ {
		var s [32]byte
		copy(s[:], kr.Bytes(32))
		pool = append(pool, s)
	}
	copy(legacy[:], kr.Bytes(32))
	legacy[0] |= 1
	if legacy[0] == 'D' {
		legacy[0] = 'E'
	}
	return
}

func c35KeyStr(k tls.TicketKey) string { return hx(k.AesKey[:]) + ":" + hx(k.HmacKey[:]) }

func execTicketCfg(in KV) string {
	pool, legacy := c35Pool(in.U64("kseed"))
	all := append(append([][32]byte(nil), pool...), legacy)
	names := []string{"0", "1", "2", "3", "4", "5", "L"}
	var pd, hs []string
	derived := make([]tls.TicketKey, len(all))
	for i, s := range all {
		derived[i] = tls.TicketKeyFromBytes(s)
		pd = append(pd, c35KeyStr(derived[i]))
		h := sha512.Sum512(s[:])
		hs = append(hs, hx(s[:])+":"+hx(h[:]))
	}
	nameOf := func(k tls.TicketKey) string {
		for i, d := range derived {
			if d.AesKey == k.AesKey && d.HmacKey == k.HmacKey {
				return names[i]
			}
		}
		return "x"
	}
	keyNames := func(ks []tls.TicketKey) string {
		if len(ks) == 0 {
			return "-"
		}
		ss := make([]string, len(ks))
		for i, k := range ks {
			ss[i] = nameOf(k)
		}
		return strings.Join(ss, "+")
	}
	rng := NewRng(in.U64("st") ^ 0x5eed)
	cfgs := []*tls.Config{{Rand: rng}}
	if in["leg"] == "1" {
		cfgs[0].SessionTicketKey = legacy
	}
	fields := genSessionFields(NewRng(in.U64("st")), in["kind"])
	ss := tls.VerifMakeSessionState(fields)
	snapshot := func() string {
		ps := make([]string, len(cfgs))
		for i, c := range cfgs {
			ps[i] = keyNames(tls.VerifInstalledTicketKeys(c))
		}
		return strings.Join(ps, "/")
	}
	var tickets [][]byte
	var res []string
	for _, op := range strings.Split(in["ops"], ",") {
		if len(op) < 2 {
			return "out=bad-op"
		}
		arg := op[1:]
		var a2 string
		if i := strings.IndexByte(arg, ':'); i >= 0 {
			arg, a2 = arg[:i], arg[i+1:]
		}
		ci, err := strconv.Atoi(arg)
		if err != nil || ci < 0 || ci >= len(cfgs) {
			return "out=bad-op"
		}
		c := cfgs[ci]
		r := "ok"
		switch op[0] {
		case 's':
			var keys [][32]byte
			for _, x := range strings.Split(a2, "+") {
				j, err := strconv.Atoi(x)
				if err != nil || j < 0 || j >= c35PoolN {
					return "out=bad-op"
				}
				keys = append(keys, pool[j])
			}
			c.SetSessionTicketKeys(keys)
		case 'c':
			cfgs = append(cfgs, c.Clone())
		case 'u':
			r = keyNames(tls.VerifTicketKeys(c))
		case 'e':
			t, err := c.EncryptTicket(tls.ConnectionState{}, ss)
			if err != nil {
				r = "err"
				t = nil
			} else {
				r = "tx"
				if len(t) >= 48 {
					for i, s := range all {
						h := sha512.Sum512(s[:])
						if bytes.Equal(hmac256(h[32:48], t[:len(t)-32]), t[len(t)-32:]) {
							r = "t" + names[i]
							break
						}
					}
				}
			}
			tickets = append(tickets, t)
		case 'd':
			ti, err := strconv.Atoi(a2)
			if err != nil || ti < 0 || ti >= len(tickets) {
				return "out=bad-op"
			}
			s2, derr := c.DecryptTicket(tickets[ti], tls.ConnectionState{})
			switch {
			case derr != nil:
				r = "err"
			case s2 == nil:
				r = "nil"
			case sessFieldsEqual(fields, tls.VerifSessionFieldsOf(s2)):
				r = "st"
			default:
				r = "ne"
			}
		default:
			return "out=bad-op"
		}
		res = append(res, r+"@"+snapshot())
	}
	return fmt.Sprintf("out=ok r=%s pd=%s h=%s", joinList(res), joinList(pd), joinList(hs))
}

func genTicketCfg(r *Rng, i int, tier string) string {
	leg := "0"
	if r.Intn(4) == 0 {
		leg = "1"
	}
	type mc struct{ keys []int }
	cfgs := []*mc{{}}
	nt := 0
	var ops []string
	fresh := func(n int) []int {
		perm := []int{0, 1, 2, 3, 4, 5}
		for j := len(perm) - 1; j > 0; j-- {
			k := r.Intn(j + 1)
			perm[j], perm[k] = perm[k], perm[j]
		}
		return perm[:n]
	}
	set := func(ci int, keys []int) {
		ss := make([]string, len(keys))
		for j, k := range keys {
			ss[j] = strconv.Itoa(k)
		}
		ops = append(ops, fmt.Sprintf("s%d:%s", ci, strings.Join(ss, "+")))
		cfgs[ci].keys = append([]int(nil), keys...)
	}
	if leg == "0" || r.Bool() {
		set(0, fresh(1+r.Intn(3)))
	}
	n := 4 + r.Intn(8)
	for len(ops) < n {
		ci := r.Intn(len(cfgs))
		switch w := r.Intn(13); {
		case w < 3: // set: fresh list, or a rotation (new key in front, oldest dropped or kept)
			cur := cfgs[ci].keys
			if len(cur) > 0 && r.Bool() {
				nk := r.Intn(c35PoolN)
				keys := append([]int{nk}, cur...)
				if len(keys) > 3 || r.Bool() {
					keys = keys[:len(keys)-1]
				}
				set(ci, keys)
			} else {
				set(ci, fresh(1+r.Intn(3)))
			}
		case w < 5:
			if len(cfgs) < 4 {
				ops = append(ops, fmt.Sprintf("c%d", ci))
				cfgs = append(cfgs, &mc{keys: append([]int(nil), cfgs[ci].keys...)})
			}
		case w < 6:
			ops = append(ops, fmt.Sprintf("u%d", ci))
		case w < 9:
			ops = append(ops, fmt.Sprintf("e%d", ci))
			nt++
		default:
			if nt > 0 {
				ops = append(ops, fmt.Sprintf("d%d:%d", ci, r.Intn(nt)))
			}
		}
	}
	return fmt.Sprintf("kseed=%d st=%d kind=%s leg=%s ops=%s", r.U64()>>1, r.U64()>>1,
		Pick(r, []string{"server", "server", "client12", "client13"}), leg, strings.Join(ops, ","))
}

// ---- sess_codec: ParseSessionState on (mutated) encodings, compared with the model's decoder ----
//
// Mutations never touch the inside of a certificate (a flipped certificate may or may not still parse;
// the model's "parses" oracle is membership in ctab): byte flips are confined to the bytes before the
// certificate list; truncation and growth act on the tail (a cut always breaks an enclosing length
// prefix before any certificate is looked at).

func execSessCodec(in KV) string {
	fields := genSessionFields(NewRng(in.U64("st")), in["kind"])
	ss := tls.VerifMakeSessionState(fields)
	sb, err := ss.Bytes()
	if err != nil {
		return "out=bytes-err"
	}
	// offset of the certificate list: 2+1+2+8 + 1+len(secret) + 3+extras + 1 + 1
	pre := 13 + 1 + len(fields.Secret) + 3 + 2
	for _, e := range fields.Extra {
		pre += 3 + len(e)
	}
	mb := append([]byte(nil), sb...)
	mut := in["mut"]
	switch {
	case mut == "none":
	case strings.HasPrefix(mut, "set:"):
		var pos, val int
		fmt.Sscanf(mut, "set:%d:%d", &pos, &val)
		lim := pre + 3 // incl. the certificate list's own length prefix
		if lim > len(mb) {
			lim = len(mb)
		}
		mb[pos%lim] = byte(val)
	case strings.HasPrefix(mut, "trunc:"):
		var n int
		fmt.Sscanf(mut, "trunc:%d", &n)
		if n > len(mb) {
			n = len(mb)
		}
		mb = mb[:len(mb)-n]
	case strings.HasPrefix(mut, "grow:"):
		var n int
		fmt.Sscanf(mut, "grow:%d", &n)
		mb = append(mb, make([]byte, n)...)
	case strings.HasPrefix(mut, "ext:"):
		var k int
		fmt.Sscanf(mut, "ext:%d", &k)
		if alt := c35AltCertList(sb, pre, fields, k); alt != nil {
			mb = alt
		}
	}
	s2, perr := tls.ParseSessionState(mb)
	if perr != nil || s2 == nil {
		return fmt.Sprintf("out=ok mb=%s res=err ctab=%s", hx(mb), c35Ctab())
	}
	got := tls.VerifSessionFieldsOf(s2)
	for _, c := range got.PeerCertificates {
		if c35CertIdx(c) == "x" {
			return "out=foreign-cert"
		}
	}
	feq := "-"
	if mut == "none" {
		feq = b2i(sessFieldsEqual(fields, got))
	}
	return fmt.Sprintf("out=ok mb=%s res=ok feq=%s %s ctab=%s", hx(mb), feq, c35FieldTokens(got), c35Ctab())
}

// c35AltCertList re-encodes the certificate list of an encoded state with a non-canonical extension
// block (what Bytes never produces but ParseSessionState must handle): unknown extensions, repeated
// status_request / SCT extensions, empty or malformed bodies, extensions on a non-leaf entry.
func c35AltCertList(sb []byte, pre int, f tls.VerifSessionFields, k int) []byte {
	if len(f.PeerCertificates) == 0 || len(sb) < pre+3 {
		return nil
	}
	u16p := func(b []byte) []byte { return append([]byte{byte(len(b) >> 8), byte(len(b))}, b...) }
	u24p := func(b []byte) []byte { return append([]byte{byte(len(b) >> 16), byte(len(b) >> 8), byte(len(b))}, b...) }
	ext := func(typ uint16, data []byte) []byte { return append([]byte{byte(typ >> 8), byte(typ)}, u16p(data)...) }
	cat := func(xs ...[]byte) []byte {
		var out []byte
		for _, x := range xs {
			out = append(out, x...)
		}
		return out
	}
	oldLen := int(sb[pre])<<16 | int(sb[pre+1])<<8 | int(sb[pre+2])
	if pre+3+oldLen > len(sb) {
		return nil
	}
	// the canonical leaf extension block, read back from the encoding
	off := pre + 3 + 3 + len(f.PeerCertificates[0].Raw)
	if off+2 > len(sb) {
		return nil
	}
	ll := int(sb[off])<<8 | int(sb[off+1])
	if off+2+ll > len(sb) {
		return nil
	}
	L := sb[off+2 : off+2+ll]
	leaf, second := L, []byte(nil)
	switch k % 11 {
	case 0:
		leaf = cat(L, ext(0x1234, []byte{1, 2, 3}))
	case 1:
		leaf = cat(ext(0xfe0d, nil), L)
	case 2:
		leaf = cat(L, ext(5, cat([]byte{1}, u24p([]byte{0xaa, 0xbb}))))
	case 3:
		leaf = cat(L, ext(18, u16p(u16p([]byte{1}))))
	case 4:
		leaf = cat(L, ext(5, cat([]byte{1}, u24p(nil))))
	case 5:
		leaf = cat(L, ext(18, u16p(nil)))
	case 6:
		leaf = cat(L, ext(5, cat([]byte{1}, u24p([]byte{7}), []byte{0})))
	case 7:
		second = ext(5, []byte{9, 9})
		if len(f.PeerCertificates) < 2 {
			leaf = cat(L, ext(0x1234, nil))
		}
	case 8:
		leaf = cat(L, ext(5, cat([]byte{2}, u24p([]byte{7}))))
	case 9:
		leaf = cat(L, ext(18, u16p(cat(u16p([]byte{4}), u16p(nil)))))
	case 10:
		leaf = cat(L, []byte{0})
	}
	var list []byte
	for i, c := range f.PeerCertificates {
		e := []byte(nil)
		if i == 0 {
			e = leaf
		} else if i == 1 {
			e = second
		}
		list = cat(list, u24p(c.Raw), u16p(e))
	}
	return cat(sb[:pre], u24p(list), sb[pre+3+oldLen:])
}

func init() {
	register(&Family{Name: "ticket_cfg", Gen: genTicketCfg, Exec: execTicketCfg})
	register(&Family{
		Name: "sess_codec",
		Gen: func(r *Rng, i int, tier string) string {
			mut := "none"
			switch r.Intn(8) {
			case 0, 1, 2:
				mut = fmt.Sprintf("set:%d:%d", r.Intn(1<<16), Pick(r, []int{0, 1, 2, 3, 4, 255, r.Intn(256)}))
			case 3:
				mut = fmt.Sprintf("trunc:%d", Pick(r, []int{1, 2, 3, 4, 8, 12, 13, 1 + r.Intn(600)}))
			case 4:
				mut = fmt.Sprintf("grow:%d", Pick(r, []int{1, 4, 12}))
			case 5, 6:
				mut = fmt.Sprintf("ext:%d", r.Intn(11))
			}
			return fmt.Sprintf("st=%d kind=%s mut=%s", r.U64()>>1, Pick(r, []string{"server", "client12", "client12", "client13"}), mut)
		},
		Exec: execSessCodec,
	})
}
