package main

import (
	"fmt"
	"runtime"
	"strconv"
	"strings"
	"sync"
	"sync/atomic"

	tls "github.com/refraction-networking/utls"
)

// ---- C36: lruSessionCache ----
// ops: P:<key>:<val>  (val 0 = nil)   G:<key>
// sequential: lru cap=<c> ops=... => res=-,-,miss,hit:3
// concurrent: lru_conc cap=<c> threads=<ops;ops;...> => hist=<t>:<op>:<inv>:<res>:<result>,...

type stateTable struct {
	mu     sync.Mutex
	states []*tls.ClientSessionState
	index  map[*tls.ClientSessionState]int
}

func newStateTable() *stateTable {
	return &stateTable{index: map[*tls.ClientSessionState]int{}}
}

// state returns the distinct *ClientSessionState numbered v (>=1); 0 is nil.
func (st *stateTable) state(v int) *tls.ClientSessionState {
	if v == 0 {
		return nil
	}
	st.mu.Lock()
	defer st.mu.Unlock()
	for len(st.states) < v {
		s := &tls.ClientSessionState{}
		st.states = append(st.states, s)
		st.index[s] = len(st.states)
	}
	return st.states[v-1]
}

func (st *stateTable) number(s *tls.ClientSessionState) int {
	if s == nil {
		return 0
	}
	st.mu.Lock()
	defer st.mu.Unlock()
	return st.index[s]
}

func genLruOps(r *Rng, n, keys, vals int) []string {
	var ops []string
	for i := 0; i < n; i++ {
		k := r.Intn(keys)
		switch r.Intn(10) {
		case 0, 1:
			ops = append(ops, fmt.Sprintf("P:%d:0", k))
		case 2, 3, 4, 5:
			ops = append(ops, fmt.Sprintf("P:%d:%d", k, 1+r.Intn(vals)))
		default:
			ops = append(ops, fmt.Sprintf("G:%d", k))
		}
	}
	return ops
}

func runLruOp(c tls.ClientSessionCache, st *stateTable, op string) string {
	f := strings.Split(op, ":")
	k := "key-" + f[1]
	if f[0] == "P" {
		v, _ := strconv.Atoi(f[2])
		c.Put(k, st.state(v))
		return "put"
	}
	s, ok := c.Get(k)
	if !ok {
		if s != nil {
			return "miss-nonnil"
		}
		return "miss"
	}
	return fmt.Sprintf("hit:%d", st.number(s))
}

func init() {
	register(&Family{
		Name: "lru",
		Gen: func(r *Rng, i int, tier string) string {
			cap := Pick(r, []int{1, 1, 2, 2, 3, 4, 5, 0, -3})
			if i%50 == 49 {
				cap = 64 + r.Intn(3) - 1
				return fmt.Sprintf("cap=%d ops=%s", cap, joinList(genLruOps(r, 150, 70, 5)))
			}
			n := r.Intn(31)
			return fmt.Sprintf("cap=%d ops=%s", cap, joinList(genLruOps(r, n, 2+r.Intn(4), 4)))
		},
		Exec: func(in KV) string {
			c := tls.NewLRUClientSessionCache(in.Int("cap"))
			st := newStateTable()
			var res []string
			for _, op := range splitList(in["ops"]) {
				res = append(res, runLruOp(c, st, op))
			}
			return "res=" + joinList(res)
		},
	})
	register(&Family{
		Name: "lru_conc",
		Gen: func(r *Rng, i int, tier string) string {
			cap := Pick(r, []int{1, 2, 2, 3})
			nt := 2 + r.Intn(2)
			var th []string
			for t := 0; t < nt; t++ {
				th = append(th, strings.Join(genLruOps(r, 3+r.Intn(4), 3, 3), ","))
			}
			return fmt.Sprintf("cap=%d threads=%s", cap, strings.Join(th, ";"))
		},
		Exec: func(in KV) string {
			c := tls.NewLRUClientSessionCache(in.Int("cap"))
			st := newStateTable()
			st.state(8)
			var clock int64
			var mu sync.Mutex
			var hist []string
			var wg sync.WaitGroup
			start := make(chan struct{})
			for t, ops := range strings.Split(in["threads"], ";") {
				wg.Add(1)
				go func(t int, ops []string) {
					defer wg.Done()
					<-start
					for _, op := range ops {
						inv := atomic.AddInt64(&clock, 1)
						if inv%3 == 0 {
							runtime.Gosched()
						}
						res := runLruOp(c, st, op)
						ret := atomic.AddInt64(&clock, 1)
						mu.Lock()
						hist = append(hist, fmt.Sprintf("%d/%s/%d/%d/%s", t, op, inv, ret, res))
						mu.Unlock()
					}
				}(t, strings.Split(ops, ","))
			}
			close(start)
			wg.Wait()
			return "hist=" + joinList(hist)
		},
	})
}
