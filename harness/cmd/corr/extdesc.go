package main

import (
	"fmt"
	"strconv"
	"strings"

	tls "github.com/refraction-networking/utls"
)

// Canonical one-token descriptions of extensions: kind|field|field
// lists are comma separated, "-" = empty list / empty bytes, "e" = an empty element of a list.

func hxe(b []byte) string {
	if len(b) == 0 {
		return "e"
	}
	return hx(b)
}

func unhxe(s string) []byte {
	if s == "e" {
		return []byte{}
	}
	return unhex(s)
}

func nats16(xs []uint16) string { return u16list(xs) }

func parseNats(s string) []uint64 { return parseU64s(s) }

func hexList(bs [][]byte) string {
	var ss []string
	for _, b := range bs {
		ss = append(ss, hxe(b))
	}
	return joinList(ss)
}

func parseHexList(s string) [][]byte {
	var out [][]byte
	for _, t := range splitList(s) {
		out = append(out, unhxe(t))
	}
	return out
}

func strList(bs [][]byte) []string {
	var out []string
	for _, b := range bs {
		out = append(out, string(b))
	}
	return out
}

func bytesList(ss []string) [][]byte {
	var out [][]byte
	for _, s := range ss {
		out = append(out, []byte(s))
	}
	return out
}

func u8list(xs []uint8) string {
	ss := make([]string, len(xs))
	for i, x := range xs {
		ss[i] = strconv.Itoa(int(x))
	}
	return joinList(ss)
}

func toU8(xs []uint64) []uint8 {
	out := make([]uint8, len(xs))
	for i, x := range xs {
		out[i] = uint8(x)
	}
	return out
}

func toU16(xs []uint64) []uint16 {
	out := make([]uint16, len(xs))
	for i, x := range xs {
		out[i] = uint16(x)
	}
	return out
}

func toSigs(xs []uint64) []tls.SignatureScheme {
	out := make([]tls.SignatureScheme, len(xs))
	for i, x := range xs {
		out[i] = tls.SignatureScheme(x)
	}
	return out
}

func sigsStr(xs []tls.SignatureScheme) string {
	ss := make([]string, len(xs))
	for i, x := range xs {
		ss[i] = strconv.Itoa(int(x))
	}
	return joinList(ss)
}

func b2i(b bool) string {
	if b {
		return "1"
	}
	return "0"
}

// buildExt constructs the extension a description denotes.
func buildExt(desc string) tls.TLSExtension {
	f := strings.Split(desc, "|")
	u := func(s string) uint64 {
		v, err := strconv.ParseUint(s, 10, 64)
		if err != nil {
			panic("bad ext " + desc)
		}
		return v
	}
	switch f[0] {
	case "sni":
		return &tls.SNIExtension{ServerName: string(unhex(f[1]))}
	case "status_request":
		return &tls.StatusRequestExtension{}
	case "curves":
		e := &tls.SupportedCurvesExtension{}
		for _, x := range parseNats(f[1]) {
			e.Curves = append(e.Curves, tls.CurveID(x))
		}
		return e
	case "points":
		return &tls.SupportedPointsExtension{SupportedPoints: toU8(parseNats(f[1]))}
	case "sigalgs":
		return &tls.SignatureAlgorithmsExtension{SupportedSignatureAlgorithms: toSigs(parseNats(f[1]))}
	case "status_request_v2":
		return &tls.StatusRequestV2Extension{}
	case "sigalgs_cert":
		return &tls.SignatureAlgorithmsCertExtension{SupportedSignatureAlgorithms: toSigs(parseNats(f[1]))}
	case "delegated":
		return &tls.FakeDelegatedCredentialsExtension{SupportedSignatureAlgorithms: toSigs(parseNats(f[1]))}
	case "alpn":
		return &tls.ALPNExtension{AlpnProtocols: strList(parseHexList(f[1]))}
	case "alps":
		if f[1] == "1" {
			return &tls.ApplicationSettingsExtensionNew{SupportedProtocols: strList(parseHexList(f[2]))}
		}
		return &tls.ApplicationSettingsExtension{SupportedProtocols: strList(parseHexList(f[2]))}
	case "sct":
		return &tls.SCTExtension{}
	case "generic":
		return &tls.GenericExtension{Id: uint16(u(f[1])), Data: unhex(f[2])}
	case "ems":
		return &tls.ExtendedMasterSecretExtension{}
	case "grease":
		return &tls.UtlsGREASEExtension{Value: uint16(u(f[1])), Body: unhex(f[2])}
	case "padding":
		return &tls.UtlsPaddingExtension{PaddingLen: int(u(f[1])), WillPad: f[2] == "1"}
	case "compress_cert":
		e := &tls.UtlsCompressCertExtension{}
		for _, x := range parseNats(f[1]) {
			e.Algorithms = append(e.Algorithms, tls.CertCompressionAlgo(x))
		}
		return e
	case "key_share":
		e := &tls.KeyShareExtension{}
		for _, t := range splitList(f[1]) {
			p := strings.Split(t, ":")
			e.KeyShares = append(e.KeyShares, tls.KeyShare{Group: tls.CurveID(u(p[0])), Data: unhxe(p[1])})
		}
		return e
	case "quic_tp":
		// one fake parameter whose marshalling is the given bytes is not expressible; use id/value pairs id:hex
		e := &tls.QUICTransportParametersExtension{}
		for _, t := range splitList(f[1]) {
			p := strings.Split(t, ":")
			e.TransportParameters = append(e.TransportParameters, &tls.FakeQUICTransportParameter{Id: u(p[0]), Val: unhxe(p[1])})
		}
		return e
	case "psk_modes":
		return &tls.PSKKeyExchangeModesExtension{Modes: toU8(parseNats(f[1]))}
	case "versions":
		return &tls.SupportedVersionsExtension{Versions: toU16(parseNats(f[1]))}
	case "cookie":
		return &tls.CookieExtension{Cookie: unhex(f[1])}
	case "npn":
		return &tls.NPNExtension{}
	case "reneg":
		return &tls.RenegotiationInfoExtension{RenegotiatedConnection: unhex(f[1])}
	case "channel_id":
		return &tls.FakeChannelIDExtension{OldExtensionID: f[1] == "1"}
	case "record_size_limit":
		return &tls.FakeRecordSizeLimitExtension{Limit: uint16(u(f[1]))}
	case "token_binding":
		return &tls.FakeTokenBindingExtension{MajorVersion: uint8(u(f[1])), MinorVersion: uint8(u(f[2])), KeyParameters: toU8(parseNats(f[3]))}
	case "session_ticket":
		return &tls.SessionTicketExtension{Ticket: unhex(f[1])}
	case "psk":
		var ids []tls.PskIdentity
		for _, t := range splitList(f[4]) {
			p := strings.Split(t, ":")
			ids = append(ids, tls.PskIdentity{Label: unhxe(p[0]), ObfuscatedTicketAge: uint32(u(p[1]))})
		}
		binders := parseHexList(f[5])
		if f[1] == "1" {
			return &tls.FakePreSharedKeyExtension{Identities: ids, Binders: binders, OmitEmptyPsk: f[2] == "1"}
		}
		e := &tls.UtlsPreSharedKeyExtension{OmitEmptyPsk: f[2] == "1"}
		e.Identities = ids
		e.Binders = binders
		if f[3] == "1" {
			e.Session = &tls.SessionState{}
		}
		return e
	case "ech":
		g := &tls.GREASEEncryptedClientHelloExtension{}
		tls.VerifSetGreaseECH(g, uint16(u(f[1])), uint16(u(f[2])), uint8(u(f[3])), unhex(f[4]), unhex(f[5]))
		return g
	}
	panic("bad ext kind " + desc)
}

// describeExt renders an extension (e.g. the result of Write) canonically.
func describeExt(e tls.TLSExtension) string {
	switch x := e.(type) {
	case *tls.SNIExtension:
		return "sni|" + hx([]byte(x.ServerName))
	case *tls.StatusRequestExtension:
		return "status_request"
	case *tls.SupportedCurvesExtension:
		var xs []uint16
		for _, c := range x.Curves {
			xs = append(xs, uint16(c))
		}
		return "curves|" + nats16(xs)
	case *tls.SupportedPointsExtension:
		return "points|" + u8list(x.SupportedPoints)
	case *tls.SignatureAlgorithmsExtension:
		return "sigalgs|" + sigsStr(x.SupportedSignatureAlgorithms)
	case *tls.StatusRequestV2Extension:
		return "status_request_v2"
	case *tls.SignatureAlgorithmsCertExtension:
		return "sigalgs_cert|" + sigsStr(x.SupportedSignatureAlgorithms)
	case *tls.FakeDelegatedCredentialsExtension:
		return "delegated|" + sigsStr(x.SupportedSignatureAlgorithms)
	case *tls.ALPNExtension:
		return "alpn|" + hexList(bytesList(x.AlpnProtocols))
	case *tls.ApplicationSettingsExtension:
		return "alps|0|" + hexList(bytesList(x.SupportedProtocols))
	case *tls.ApplicationSettingsExtensionNew:
		return "alps|1|" + hexList(bytesList(x.SupportedProtocols))
	case *tls.SCTExtension:
		return "sct"
	case *tls.GenericExtension:
		return fmt.Sprintf("generic|%d|%s", x.Id, hx(x.Data))
	case *tls.ExtendedMasterSecretExtension:
		return "ems"
	case *tls.UtlsGREASEExtension:
		return fmt.Sprintf("grease|%d|%s", x.Value, hx(x.Body))
	case *tls.UtlsPaddingExtension:
		pol := "none"
		if x.GetPaddingLen != nil {
			pol = "policy"
		}
		return fmt.Sprintf("padding|%d|%s|%s", x.PaddingLen, b2i(x.WillPad), pol)
	case *tls.UtlsCompressCertExtension:
		var xs []uint16
		for _, c := range x.Algorithms {
			xs = append(xs, uint16(c))
		}
		return "compress_cert|" + nats16(xs)
	case *tls.KeyShareExtension:
		var ss []string
		for _, k := range x.KeyShares {
			ss = append(ss, fmt.Sprintf("%d:%s", uint16(k.Group), hxe(k.Data)))
		}
		return "key_share|" + joinList(ss)
	case *tls.QUICTransportParametersExtension:
		return "quic_tp|?"
	case *tls.PSKKeyExchangeModesExtension:
		return "psk_modes|" + u8list(x.Modes)
	case *tls.SupportedVersionsExtension:
		return "versions|" + nats16(x.Versions)
	case *tls.CookieExtension:
		return "cookie|" + hx(x.Cookie)
	case *tls.NPNExtension:
		return "npn"
	case *tls.RenegotiationInfoExtension:
		return "reneg|" + hx(x.RenegotiatedConnection)
	case *tls.FakeChannelIDExtension:
		return "channel_id|" + b2i(x.OldExtensionID)
	case *tls.FakeRecordSizeLimitExtension:
		return fmt.Sprintf("record_size_limit|%d", x.Limit)
	case *tls.FakeTokenBindingExtension:
		return fmt.Sprintf("token_binding|%d|%d|%s", x.MajorVersion, x.MinorVersion, u8list(x.KeyParameters))
	case *tls.SessionTicketExtension:
		return "session_ticket|" + hx(x.Ticket)
	case *tls.FakePreSharedKeyExtension:
		return fmt.Sprintf("psk|1|%s|0|%s|%s", b2i(x.OmitEmptyPsk), pskIds(x.Identities), hexList(x.Binders))
	case *tls.UtlsPreSharedKeyExtension:
		return fmt.Sprintf("psk|0|%s|%s|%s|%s", b2i(x.OmitEmptyPsk), b2i(x.Session != nil), pskIds(x.Identities), hexList(x.Binders))
	case *tls.GREASEEncryptedClientHelloExtension:
		kdf, aead, cid, enc, payload := tls.VerifGreaseECHFields(x)
		if len(payload) == 0 && len(x.CandidatePayloadLens) == 1 {
			// freshly written by Write(): payload will be drawn with this length (+ tag)
			payload = make([]byte, int(x.CandidatePayloadLens[0])+16)
		}
		return fmt.Sprintf("ech|%d|%d|%d|%s|%s", kdf, aead, cid, hx(make([]byte, len(enc))), hx(make([]byte, len(payload))))
	}
	return fmt.Sprintf("unknown|%T", e)
}

func pskIds(ids []tls.PskIdentity) string {
	var ss []string
	for _, id := range ids {
		ss = append(ss, fmt.Sprintf("%s:%d", hxe(id.Label), id.ObfuscatedTicketAge))
	}
	return joinList(ss)
}
