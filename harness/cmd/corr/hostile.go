package main

// Shared pieces of the hostile-input families (C33 client side, C34 server side): builders and
// mutators for handshake-message bytes, allocation measurement, and the codec/dispatch/const
// executors that both properties use (registered under c33_* / c34_* names).

import (
	"fmt"
	"runtime"
	"strings"

	tls "github.com/refraction-networking/utls"
)

// ---- byte builders ----

func bU16(v int) []byte { return []byte{byte(v >> 8), byte(v)} }
func bU24(v int) []byte { return []byte{byte(v >> 16), byte(v >> 8), byte(v)} }
func bVec8(b []byte) []byte {
	return append([]byte{byte(len(b))}, b...)
}
func bVec16(b []byte) []byte { return append(bU16(len(b)), b...) }
func bVec24(b []byte) []byte { return append(bU24(len(b)), b...) }
func bExt(t int, d []byte) []byte {
	return append(bU16(t), bVec16(d)...)
}
func cat(bs ...[]byte) []byte {
	var out []byte
	for _, b := range bs {
		out = append(out, b...)
	}
	return out
}
func hsMsg(t byte, body []byte) []byte { return append([]byte{t}, bVec24(body)...) }

// sizes biased to boundaries.
func pickSize(r *Rng, big bool) int {
	switch r.Intn(12) {
	case 0:
		return 0
	case 1:
		return 1
	case 2:
		return 2
	case 3:
		return 255 + r.Intn(3)
	case 4:
		if big {
			return 65534 + r.Intn(4)
		}
		return 300
	case 5:
		if big {
			return 16383 + r.Intn(3)
		}
		return 64
	default:
		return r.Intn(40)
	}
}

// ---- generic byte-level mutations of one handshake message ----

// mutateBytes applies one named mutation to msg (a whole handshake message incl. 4-byte header).
// The mutation is recorded as "name:param" so that a line is replayable from its tokens alone.
func mutateBytes(msg []byte, mut string) []byte {
	name, arg, _ := strings.Cut(mut, ":")
	a := 0
	var a2 int
	if arg != "" {
		fmt.Sscanf(strings.ReplaceAll(arg, ":", " "), "%d %d", &a, &a2)
	}
	out := append([]byte(nil), msg...)
	switch name {
	case "none":
	case "trunc": // drop the last a bytes, fix nothing
		if a > len(out) {
			a = len(out)
		}
		out = out[:len(out)-a]
	case "truncfix": // drop the last a bytes of the body and fix the outer length
		if len(out) >= 4 {
			if a > len(out)-4 {
				a = len(out) - 4
			}
			out = out[:len(out)-a]
			copy(out[1:4], bU24(len(out)-4))
		}
	case "extend": // append a random-looking bytes (deterministic from a2), outer length untouched
		for i := 0; i < a; i++ {
			out = append(out, byte(a2+i*7))
		}
	case "extendfix": // append and fix the outer length
		for i := 0; i < a; i++ {
			out = append(out, byte(a2+i*7))
		}
		if len(out) >= 4 {
			copy(out[1:4], bU24(len(out)-4))
		}
	case "flip": // xor byte at position a%len with a2|1
		if len(out) > 0 {
			out[a%len(out)] ^= byte(a2) | 1
		}
	case "type": // change the message type byte
		if len(out) > 0 {
			out[0] = byte(a)
		}
	case "len24": // overwrite the outer length field
		if len(out) >= 4 {
			copy(out[1:4], bU24(a))
		}
	case "dup": // the message twice
		out = append(out, msg...)
	case "set16": // overwrite 2 bytes at offset a with value a2 (inner length fields)
		if a+2 <= len(out) {
			copy(out[a:a+2], bU16(a2))
		}
	case "set24":
		if a+3 <= len(out) {
			copy(out[a:a+3], bU24(a2))
		}
	case "empty": // header only
		if len(out) >= 4 {
			out = append(out[:1], 0, 0, 0)
		}
	default:
		panic("unknown mutation " + mut)
	}
	return out
}

// genByteMutation draws a mutation for a message of length n.
func genByteMutation(r *Rng, n int) string {
	switch r.Intn(14) {
	case 0:
		return "none"
	case 1:
		return fmt.Sprintf("flip:%d:%d", r.Intn(n+1), r.Intn(256))
	case 2:
		return fmt.Sprintf("trunc:%d", 1+r.Intn(min(n, 12)+1))
	case 3:
		return fmt.Sprintf("truncfix:%d", 1+r.Intn(min(n, 12)+1))
	case 4:
		return fmt.Sprintf("extend:%d:%d", 1+r.Intn(9), r.Intn(256))
	case 5:
		return fmt.Sprintf("extendfix:%d:%d", 1+r.Intn(9), r.Intn(256))
	case 6, 7:
		return fmt.Sprintf("flip:%d:%d", r.Intn(n+1), r.Intn(256))
	case 8:
		return fmt.Sprintf("type:%d", Pick(r, []int{0, 1, 2, 4, 5, 8, 11, 12, 13, 14, 15, 16, 20, 22, 24, 25, 3, 67, 254, 255, r.Intn(256)}))
	case 9:
		return fmt.Sprintf("len24:%d", Pick(r, []int{0, 1, n - 5, n - 3, n + 1, 65536, 65537, 262144, 262145, 0xffffff, r.Intn(1 << 24)}))
	case 10:
		return "dup"
	case 11:
		return fmt.Sprintf("set16:%d:%d", 4+r.Intn(n+1), Pick(r, []int{0, 1, 0xffff, 0x7fff, r.Intn(65536)}))
	case 12:
		return fmt.Sprintf("set24:%d:%d", 4+r.Intn(n+1), Pick(r, []int{0, 1, 0xffffff, 0x010000, r.Intn(1 << 24)}))
	default:
		return "empty"
	}
}

// ---- allocation measurement ----

// allocDelta runs f and returns the bytes of heap allocated while it ran (process-wide TotalAlloc delta;
// the harness runs one case at a time).
func allocDelta(f func()) uint64 {
	var a, b runtime.MemStats
	runtime.ReadMemStats(&a)
	f()
	runtime.ReadMemStats(&b)
	return b.TotalAlloc - a.TotalAlloc
}

func allocClass(n uint64) string {
	switch {
	case n < 1<<20:
		return "lt1M"
	case n < 32<<20:
		return "lt32M"
	default:
		return "more"
	}
}

// ---- well-formed message generators ----

func genCompCertMsg(r *Rng) []byte {
	alg := Pick(r, []int{1, 2, 3, 0, 4, 0xffff, r.Intn(65536)})
	ulen := Pick(r, []int{0, 1, 1000, 262144, 262145, 0xffffff, r.Intn(1 << 24)})
	body := r.Bytes(pickSize(r, true))
	return hsMsg(25, cat(bU16(alg), bU24(ulen), bVec24(body)))
}

var alpsCPs = []int{17513, 17613}

// genServerEEMsg builds an EncryptedExtensions message from random well-formed parts (plus unknown
// extensions, duplicates and ALPS under either code point).
func genServerEEMsg(r *Rng) []byte {
	var exts []byte
	n := r.Intn(6)
	for i := 0; i < n; i++ {
		switch r.Intn(9) {
		case 0:
			proto := r.Bytes(1 + r.Intn(6))
			if r.Intn(8) == 0 {
				proto = nil
			}
			exts = append(exts, bExt(16, bVec16(bVec8(proto)))...)
		case 1:
			exts = append(exts, bExt(57, r.Bytes(pickSize(r, false)))...)
		case 2:
			d := []byte(nil)
			if r.Intn(6) == 0 {
				d = r.Bytes(1)
			}
			exts = append(exts, bExt(42, d)...)
		case 3:
			exts = append(exts, bExt(0xfe0d, r.Bytes(pickSize(r, false)))...)
		case 4, 5, 6:
			exts = append(exts, bExt(Pick(r, alpsCPs), r.Bytes(pickSize(r, i == 0)))...)
		case 7:
			exts = append(exts, bExt(Pick(r, []int{0, 10, 1234, 17512, 17514, 17612, 17614, 65535, r.Intn(65536)}), r.Bytes(pickSize(r, false)))...)
		default:
			exts = append(exts, bExt(16, r.Bytes(r.Intn(5)))...) // malformed ALPN body
		}
	}
	return hsMsg(8, bVec16(exts))
}

func genClientEEMsg(r *Rng) []byte {
	var exts []byte
	n := r.Intn(4)
	for i := 0; i < n; i++ {
		switch r.Intn(8) {
		case 0:
			exts = append(exts, bExt(Pick(r, []int{1234, 16, 0, 17512, 17614, r.Intn(65536)}), r.Bytes(pickSize(r, false)))...)
		default:
			exts = append(exts, bExt(Pick(r, alpsCPs), r.Bytes(pickSize(r, i == 0)))...)
		}
	}
	return hsMsg(8, bVec16(exts))
}

// ---- codec executors ----

func execCodec(in KV) string {
	d := in.Bytes("d")
	switch in["k"] {
	case "cc":
		v, ok := tls.VerifUnmarshalCompressedCert(d)
		if !ok {
			return "ok=0"
		}
		return fmt.Sprintf("ok=1 alg=%d ulen=%d body=%s", v.Algorithm, v.UncompressedLength, hx(v.Body))
	case "see":
		v, ok := tls.VerifUnmarshalServerEE(d)
		if !ok {
			return "ok=0"
		}
		q := "none"
		if v.HasQUICTP {
			q = hx(v.QUICTP)
		}
		return fmt.Sprintf("ok=1 alpn=%s qtp=%s early=%d ech=%s alps=%s cp=%d hasalps=%d custom=%s", hx([]byte(v.ALPN)), q, bi(v.EarlyData), hx(v.ECHRetry),
			hx(v.ALPS), v.ALPSCode, bi(v.HasALPSVal), hx(v.CustomExt))
	case "cee":
		v, ok := tls.VerifUnmarshalClientEE(d)
		if !ok {
			return "ok=0"
		}
		return fmt.Sprintf("ok=1 alps=%s cp=%d custom=%s", hx(v.ALPS), v.ALPSCode, hx(v.CustomExt))
	case "cc_rt": // marshal from fields, then unmarshal
		m, err := tls.VerifMarshalCompressedCert(tls.VerifCompressedCert{Algorithm: uint16(in.Int("alg")), UncompressedLength: uint32(in.Int("ulen")), Body: in.Bytes("body")})
		if err != nil {
			return "m=err"
		}
		v, ok := tls.VerifUnmarshalCompressedCert(m)
		if !ok {
			v = tls.VerifCompressedCert{}
		}
		return fmt.Sprintf("m=%s ok=%d alg=%d ulen=%d body=%s", hx(m), bi(ok), v.Algorithm, v.UncompressedLength, hx(v.Body))
	case "cee_rt":
		m, err := tls.VerifMarshalClientEE(tls.VerifClientEE{ALPS: in.Bytes("alps"), ALPSCode: uint16(in.Int("cp")), CustomExt: in.Bytes("custom")})
		if err != nil {
			return "m=err"
		}
		v, ok := tls.VerifUnmarshalClientEE(m)
		if !ok {
			v = tls.VerifClientEE{}
		}
		return fmt.Sprintf("m=%s ok=%d alps=%s cp=%d custom=%s", hx(m), bi(ok), hx(v.ALPS), v.ALPSCode, hx(v.CustomExt))
	case "see_rt": // the Go marshal (no uTLS fields) parsed back
		q := in["qtp"]
		var qb []byte
		if q != "none" {
			qb = unhex(q)
		}
		m, err := tls.VerifMarshalServerEE(tls.VerifFuzzServerEE{ALPN: string(in.Bytes("alpn")), HasQUICTP: q != "none", QUICTP: qb,
			EarlyData: in["early"] == "1", ECHRetry: in.Bytes("ech")})
		if err != nil {
			return "m=err"
		}
		v, ok := tls.VerifUnmarshalServerEE(m)
		qq := "none"
		if v.HasQUICTP {
			qq = hx(v.QUICTP)
		}
		return fmt.Sprintf("m=%s ok=%d alpn=%s qtp=%s early=%d ech=%s cp=%d", hx(m), bi(ok), hx([]byte(v.ALPN)), qq, bi(v.EarlyData), hx(v.ECHRetry), v.ALPSCode)
	case "ech":
		kind, kdf, aead, id, encap, payload, errText := tls.VerifParseECHExt(d)
		if errText != "" {
			cls := "malformed"
			if strings.Contains(errText, "invalid") {
				cls = "invalid"
			}
			return "ok=0 err=" + cls
		}
		if kind == 1 {
			return "ok=1 kind=inner"
		}
		return fmt.Sprintf("ok=1 kind=outer kdf=%d aead=%d id=%d encap=%s payload=%s", kdf, aead, id, hx(encap), hx(payload))
	}
	panic("unknown codec kind " + in["k"])
}

func genCodecCase(r *Rng, kinds []string) string {
	k := Pick(r, kinds)
	switch k {
	case "cc_rt":
		return fmt.Sprintf("k=cc_rt alg=%d ulen=%d body=%s", r.Intn(65536), Pick(r, []int{0, 1, 0xffffff, r.Intn(1 << 24)}), hx(r.Bytes(pickSize(r, true))))
	case "cee_rt":
		custom := []byte(nil)
		if r.Intn(4) == 0 {
			custom = r.Bytes(1 + r.Intn(5))
		}
		return fmt.Sprintf("k=cee_rt cp=%d alps=%s custom=%s", Pick(r, []int{0, 17513, 17613, 17613, 5}), hx(r.Bytes(pickSize(r, false))), hx(custom))
	case "see_rt":
		q := "none"
		if r.Bool() {
			q = hx(r.Bytes(pickSize(r, false)))
		}
		return fmt.Sprintf("k=see_rt alpn=%s qtp=%s early=%d ech=%s", hx(r.Bytes(r.Intn(8))), q, r.Intn(2), hx(r.Bytes(pickSize(r, false))))
	case "ech":
		var d []byte
		switch r.Intn(6) {
		case 0:
			d = []byte{1}
		case 1:
			d = append([]byte{byte(Pick(r, []int{1, 2, 255}))}, r.Bytes(r.Intn(3))...)
		default:
			d = cat([]byte{0}, bU16(r.Intn(4)), bU16(r.Intn(4)), []byte{byte(r.Intn(256))}, bVec16(r.Bytes(Pick(r, []int{0, 32, 32, 65}))), bVec16(r.Bytes(pickSize(r, false))))
		}
		d = mutateBytes(d, ifs(r.Intn(3) == 0, genByteMutationNoHdr(r, len(d)), "none"))
		return "k=ech d=" + hx(d)
	}
	var msg []byte
	switch k {
	case "cc":
		msg = genCompCertMsg(r)
	case "see":
		msg = genServerEEMsg(r)
	case "cee":
		msg = genClientEEMsg(r)
	}
	mut := "none"
	if r.Intn(3) != 0 {
		mut = genByteMutation(r, len(msg))
	}
	return fmt.Sprintf("k=%s mut=%s d=%s", k, mut, hx(mutateBytes(msg, mut)))
}

func bi(b bool) int {
	if b {
		return 1
	}
	return 0
}

func ifs(c bool, a, b string) string {
	if c {
		return a
	}
	return b
}

// genByteMutationNoHdr: mutations that make sense for a bare byte string (no handshake header).
func genByteMutationNoHdr(r *Rng, n int) string {
	switch r.Intn(4) {
	case 0:
		return fmt.Sprintf("trunc:%d", 1+r.Intn(min(n, 8)+1))
	case 1:
		return fmt.Sprintf("extend:%d:%d", 1+r.Intn(5), r.Intn(256))
	case 2:
		return fmt.Sprintf("flip:%d:%d", r.Intn(n+1), r.Intn(256))
	default:
		return fmt.Sprintf("set16:%d:%d", r.Intn(n+1), Pick(r, []int{0, 1, 0xffff, r.Intn(65536)}))
	}
}

// ---- dispatch executor: readHandshake on a handshake buffer ----

func shortGoType(t string) string { return strings.TrimPrefix(t, "*tls.") }

func execDispatch(in KV) string {
	isClient := in["role"] == "client"
	vers := uint16(0x0303)
	if in["v13"] == "1" {
		vers = 0x0304
	}
	typ, errText, wrote, rem := tls.VerifReadHandshake(isClient, vers, in["hv"] == "1", in.Bytes("hand"))
	alerts := splitRecords(wrote)
	al := []string{}
	for _, a := range alerts {
		if a.Type == 21 && len(a.Payload) == 2 {
			al = append(al, fmt.Sprint(a.Payload[1]))
		} else {
			al = append(al, "x")
		}
	}
	cls := "ok"
	switch {
	case errText == "":
	case strings.Contains(errText, "exceeds maximum"):
		cls = "toolong"
	case strings.Contains(errText, "unexpected message"):
		cls = "unexpected"
	case errText == "EOF" || strings.Contains(errText, "EOF"):
		cls = "needmore"
	default:
		cls = "other:" + sanitize(errText)
	}
	return fmt.Sprintf("res=%s typ=%s alerts=%s rem=%d", cls, ifs(typ == "", "-", shortGoType(typ)), joinList(al), rem)
}

// wellFormedBody returns a body the inherited parser of message type t accepts (so that the
// dispatch's choice of struct is observable), or nil if none is provided.
func wellFormedBody(r *Rng, t int, v13 bool) []byte {
	switch t {
	case 0, 14, 5:
		return []byte{}
	case 20:
		return r.Bytes(12)
	case 24:
		return []byte{byte(r.Intn(2))}
	case 16, 12:
		return r.Bytes(1 + r.Intn(20))
	case 22:
		return cat([]byte{1}, bVec24(r.Bytes(5)))
	case 4:
		if v13 {
			return cat(r.Bytes(4), r.Bytes(4), bVec8(r.Bytes(2)), bVec16(r.Bytes(8)), bU16(0))
		}
		return cat(r.Bytes(4), bVec16(r.Bytes(8)))
	case 15:
		return cat(bU16(0x0403), bVec16(r.Bytes(8)))
	case 11:
		if v13 {
			return cat([]byte{0}, bVec24(nil))
		}
		return bVec24(nil)
	case 13:
		if v13 {
			return cat([]byte{0}, bVec16(bExt(13, bVec16(bU16(0x0403)))))
		}
		return cat(bVec8([]byte{1}), bVec16(bU16(0x0403)), bVec16(nil))
	}
	return nil
}

func genDispatchCase(r *Rng, i int, role string) string {
	v13 := r.Bool()
	hv := r.Bool()
	var hand []byte
	switch {
	case i < 512: // every type byte, twice: empty body and a plausible body
		t := i / 2
		v13 = i%4 >= 2 || r.Bool()
		body := []byte(nil)
		if i%2 == 1 {
			body = wellFormedBody(r, t, v13)
			if body == nil {
				body = r.Bytes(r.Intn(6))
			}
		}
		hand = hsMsg(byte(t), body)
	default:
		switch r.Intn(7) {
		case 0:
			hand = genCompCertMsg(r)
		case 1:
			hand = genServerEEMsg(r)
		case 2:
			hand = genClientEEMsg(r)
		case 3: // short buffers
			hand = r.Bytes(r.Intn(5))
		case 4: // size-limit boundaries, header only (the body never arrives)
			t := Pick(r, []int{11, 25, 8, 1, 2})
			n := Pick(r, []int{65535, 65536, 65537, 262143, 262144, 262145, 0xffffff})
			hand = cat([]byte{byte(t)}, bU24(n), r.Bytes(r.Intn(4)))
		case 5:
			t := Pick(r, []int{0, 1, 2, 4, 5, 11, 12, 13, 14, 15, 16, 20, 22, 24})
			body := wellFormedBody(r, t, v13)
			hand = hsMsg(byte(t), body)
		default:
			hand = hsMsg(byte(r.Intn(256)), r.Bytes(r.Intn(12)))
		}
		if r.Intn(3) == 0 {
			hand = mutateBytes(hand, genByteMutation(r, len(hand)))
		}
		if r.Intn(5) == 0 { // a second message behind the first
			hand = append(hand, hsMsg(byte(r.Intn(30)), r.Bytes(r.Intn(4)))...)
		}
	}
	return fmt.Sprintf("role=%s v13=%d hv=%d hand=%s", role, bi(v13), bi(hv), hx(hand))
}

func execConsts(in KV) string {
	mh, mc, mu, tcc, tee, ao, an, fc := tls.VerifFuzzConsts()
	return fmt.Sprintf("maxhs=%d maxcert=%d maxuseless=%d tcc=%d tee=%d alpsold=%d alpsnew=%d custom=%d", mh, mc, mu, tcc, tee, ao, an, fc)
}

func init() {
	register(&Family{Name: "hm_consts", Gen: func(r *Rng, i int, tier string) string {
		if i > 0 {
			return ""
		}
		return "q=1"
	}, Exec: execConsts})
	register(&Family{Name: "c33_codec", Gen: func(r *Rng, i int, tier string) string {
		return genCodecCase(r, []string{"cc", "cc", "see", "see", "see", "cc_rt", "see_rt"})
	}, Exec: execCodec})
	register(&Family{Name: "c34_codec", Gen: func(r *Rng, i int, tier string) string {
		return genCodecCase(r, []string{"cee", "cee", "cee", "cc", "cee_rt", "ech", "ech"})
	}, Exec: execCodec})
	register(&Family{Name: "c33_dispatch", Gen: func(r *Rng, i int, tier string) string { return genDispatchCase(r, i, "client") }, Exec: execDispatch})
	register(&Family{Name: "c34_dispatch", Gen: func(r *Rng, i int, tier string) string { return genDispatchCase(r, i, "server") }, Exec: execDispatch})
}
