package main

// Shared handshake plumbing for the correspondence families that need real connections:
// a per-process test CA with leaf certificates, TCP-loopback client/server pairs (net.Pipe
// deadlocks on HelloRetryRequest), recording conns, and a one-call handshake runner.

import (
	"bytes"
	"crypto"
	"crypto/ecdsa"
	"crypto/ed25519"
	"crypto/elliptic"
	crand "crypto/rand"
	"crypto/rsa"
	"crypto/x509"
	"crypto/x509/pkix"
	"errors"
	"fmt"
	"io"
	"math/big"
	"net"
	"strings"
	"sync"
	"time"

	tls "github.com/refraction-networking/utls"
)

// ---- test CA ----

type certKit struct {
	caCert *x509.Certificate
	caKey  *ecdsa.PrivateKey
	pool   *x509.CertPool
	leaf   map[string]tls.Certificate // "rsa", "ecdsa", "ed25519": valid for kitNames
	// other leaves for C14-style grids
	expired, notYet, wrongName, untrusted tls.Certificate
}

// kitNames are the DNS names the good leaves are valid for.
var kitNames = []string{"example.golang", "verif.test", "*.verif.test", "public.verif.test", "localhost"}

var (
	kitOnce sync.Once
	theKit  *certKit
)

func mkLeaf(ca *x509.Certificate, caKey crypto.Signer, pub crypto.PublicKey, serial int64, names []string, nb, na time.Time) []byte {
	t := &x509.Certificate{
		SerialNumber: big.NewInt(serial),
		Subject:      pkix.Name{CommonName: names[0], Organization: []string{"verif"}},
		NotBefore:    nb, NotAfter: na,
		KeyUsage:    x509.KeyUsageDigitalSignature | x509.KeyUsageKeyEncipherment,
		ExtKeyUsage: []x509.ExtKeyUsage{x509.ExtKeyUsageServerAuth},
		DNSNames:    names,
		IPAddresses: []net.IP{net.ParseIP("127.0.0.1")},
	}
	der, err := x509.CreateCertificate(crand.Reader, t, ca, pub, caKey)
	if err != nil {
		panic(err)
	}
	return der
}

func mkCA(cn string) (*x509.Certificate, *ecdsa.PrivateKey) {
	k, _ := ecdsa.GenerateKey(elliptic.P256(), crand.Reader)
	now := time.Now()
	t := &x509.Certificate{
		SerialNumber: big.NewInt(1), Subject: pkix.Name{CommonName: cn},
		NotBefore: now.Add(-48 * time.Hour), NotAfter: now.Add(20 * 365 * 24 * time.Hour),
		IsCA: true, BasicConstraintsValid: true, KeyUsage: x509.KeyUsageCertSign | x509.KeyUsageDigitalSignature,
	}
	der, err := x509.CreateCertificate(crand.Reader, t, t, &k.PublicKey, k)
	if err != nil {
		panic(err)
	}
	c, _ := x509.ParseCertificate(der)
	return c, k
}

// kit returns the process-wide test CA and leaves (generated once, real crypto/rand).
func kit() *certKit {
	kitOnce.Do(func() {
		k := &certKit{leaf: map[string]tls.Certificate{}}
		k.caCert, k.caKey = mkCA("verif test CA")
		k.pool = x509.NewCertPool()
		k.pool.AddCert(k.caCert)
		now := time.Now()
		nb, na := now.Add(-24*time.Hour), now.Add(365*24*time.Hour)
		rk, _ := rsa.GenerateKey(crand.Reader, 2048)
		ek, _ := ecdsa.GenerateKey(elliptic.P256(), crand.Reader)
		edpub, edk, _ := ed25519.GenerateKey(crand.Reader)
		k.leaf["rsa"] = tls.Certificate{Certificate: [][]byte{mkLeaf(k.caCert, k.caKey, &rk.PublicKey, 10, kitNames, nb, na)}, PrivateKey: rk}
		k.leaf["ecdsa"] = tls.Certificate{Certificate: [][]byte{mkLeaf(k.caCert, k.caKey, &ek.PublicKey, 11, kitNames, nb, na)}, PrivateKey: ek}
		k.leaf["ed25519"] = tls.Certificate{Certificate: [][]byte{mkLeaf(k.caCert, k.caKey, edpub, 12, kitNames, nb, na)}, PrivateKey: edk}
		k.expired = tls.Certificate{Certificate: [][]byte{mkLeaf(k.caCert, k.caKey, &ek.PublicKey, 13, kitNames, now.Add(-72*time.Hour), now.Add(-48*time.Hour))}, PrivateKey: ek}
		k.notYet = tls.Certificate{Certificate: [][]byte{mkLeaf(k.caCert, k.caKey, &ek.PublicKey, 14, kitNames, now.Add(48*time.Hour), now.Add(72*time.Hour))}, PrivateKey: ek}
		k.wrongName = tls.Certificate{Certificate: [][]byte{mkLeaf(k.caCert, k.caKey, &ek.PublicKey, 15, []string{"other.invalid"}, nb, na)}, PrivateKey: ek}
		oc, ok := mkCA("untrusted CA")
		k.untrusted = tls.Certificate{Certificate: [][]byte{mkLeaf(oc, ok, &ek.PublicKey, 16, kitNames, nb, na)}, PrivateKey: ek}
		theKit = k
	})
	return theKit
}

// ---- recording conn ----

// recConn records everything written to and read from the underlying conn.
type recConn struct {
	net.Conn
	mu      sync.Mutex
	written bytes.Buffer
	read    bytes.Buffer
	// OnWrite, if set, may replace the bytes of one Write call (used to tamper with records).
	OnWrite func(p []byte) []byte
}

func (c *recConn) Write(p []byte) (int, error) {
	q := p
	if c.OnWrite != nil {
		q = c.OnWrite(p)
	}
	c.mu.Lock()
	c.written.Write(q)
	c.mu.Unlock()
	if _, err := c.Conn.Write(q); err != nil {
		return 0, err
	}
	return len(p), nil
}

func (c *recConn) Read(p []byte) (int, error) {
	n, err := c.Conn.Read(p)
	c.mu.Lock()
	c.read.Write(p[:n])
	c.mu.Unlock()
	return n, err
}

func (c *recConn) Written() []byte {
	c.mu.Lock()
	defer c.mu.Unlock()
	return append([]byte(nil), c.written.Bytes()...)
}

func (c *recConn) ReadBytes() []byte {
	c.mu.Lock()
	defer c.mu.Unlock()
	return append([]byte(nil), c.read.Bytes()...)
}

// tcpPair returns a connected TCP loopback pair (client end, server end).
//
// One listener per process serves every pair (accepted connections are matched to their dialer by
// the dialer's local address), and address exhaustion (EADDRINUSE / EADDRNOTAVAIL while tens of
// thousands of loopback sockets sit in TIME_WAIT, as in a thorough-tier run next to other checks)
// is waited out: it is a condition of the sandbox, never an outcome of the code under test.
func tcpPair() (net.Conn, net.Conn, error) {
	var lastErr error
	for attempt := 0; attempt < 400; attempt++ {
		cc, sc, err := tcpPairOnce()
		if err == nil {
			return cc, sc, nil
		}
		lastErr = err
		if !addrExhausted(err) {
			return nil, nil, err
		}
		time.Sleep(time.Duration(100+20*attempt) * time.Millisecond)
	}
	return nil, nil, lastErr
}

func addrExhausted(err error) bool {
	m := err.Error()
	return strings.Contains(m, "address already in use") || strings.Contains(m, "cannot assign requested address") ||
		strings.Contains(m, "pair-accept-timeout")
}

var (
	pairMu   sync.Mutex
	pairLn   net.Listener
	pairWait = map[string]chan net.Conn{}
	pairGot  = map[string]net.Conn{}
)

func pairListener() (net.Listener, error) {
	pairMu.Lock()
	defer pairMu.Unlock()
	if pairLn != nil {
		return pairLn, nil
	}
	ln, err := net.Listen("tcp", "127.0.0.1:0")
	if err != nil {
		return nil, err
	}
	pairLn = ln
	go func() {
		for {
			c, err := ln.Accept()
			if err != nil {
				pairMu.Lock()
				if pairLn == ln {
					pairLn = nil
				}
				pairMu.Unlock()
				ln.Close()
				return
			}
			key := c.RemoteAddr().String()
			pairMu.Lock()
			if ch, ok := pairWait[key]; ok {
				delete(pairWait, key)
				ch <- c
			} else {
				pairGot[key] = c
			}
			pairMu.Unlock()
		}
	}()
	return ln, nil
}

func tcpPairOnce() (net.Conn, net.Conn, error) {
	ln, err := pairListener()
	if err != nil {
		return nil, nil, err
	}
	cc, err := net.Dial("tcp", ln.Addr().String())
	if err != nil {
		return nil, nil, err
	}
	key := cc.LocalAddr().String()
	pairMu.Lock()
	if c, ok := pairGot[key]; ok {
		delete(pairGot, key)
		pairMu.Unlock()
		return cc, c, nil
	}
	ch := make(chan net.Conn, 1)
	pairWait[key] = ch
	pairMu.Unlock()
	select {
	case c := <-ch:
		return cc, c, nil
	case <-time.After(20 * time.Second):
		pairMu.Lock()
		delete(pairWait, key)
		pairMu.Unlock()
		cc.Close()
		return nil, nil, errors.New("pair-accept-timeout")
	}
}

// ---- TLS records ----

type tlsRecord struct {
	Type    uint8
	Version uint16
	Payload []byte
}

// splitRecords parses a byte stream into TLS records (stops at the first incomplete one).
func splitRecords(b []byte) []tlsRecord {
	var out []tlsRecord
	for len(b) >= 5 {
		n := int(b[3])<<8 | int(b[4])
		if len(b) < 5+n {
			break
		}
		out = append(out, tlsRecord{b[0], uint16(b[1])<<8 | uint16(b[2]), b[5 : 5+n]})
		b = b[5+n:]
	}
	return out
}

// clientHellos reassembles the plaintext handshake stream at the start of a client's output
// and returns every ClientHello message (type 1) found before the first non-plaintext record:
// one normally, two after a HelloRetryRequest. Each is the full handshake message (with header).
func clientHellos(wire []byte) [][]byte {
	var hs []byte
	var out [][]byte
	flush := func() {
		for len(hs) >= 4 {
			n := int(hs[1])<<16 | int(hs[2])<<8 | int(hs[3])
			if len(hs) < 4+n {
				return
			}
			if hs[0] == 1 {
				out = append(out, append([]byte(nil), hs[:4+n]...))
			}
			hs = hs[4+n:]
		}
	}
	for _, r := range splitRecords(wire) {
		switch r.Type {
		case 22:
			if len(out) >= 2 {
				return out
			}
			hs = append(hs, r.Payload...)
			flush()
		case 20:
			continue // dummy CCS between the hellos
		default:
			return out
		}
		// after the first encrypted handshake record nothing more is plaintext; a handshake
		// record that does not continue a hello and is not type 1 ends the scan
		if len(hs) > 0 && hs[0] != 1 {
			return out
		}
	}
	return out
}

// ---- handshake runner ----

type HSOpts struct {
	ID        tls.ClientHelloID
	Spec      *tls.ClientHelloSpec // applied with ApplyPreset when ID is HelloCustom
	ClientCfg *tls.Config          // ServerName/RootCAs/Time default to the kit's when nil fields
	ServerCfg *tls.Config          // Certificates default to the kit's ECDSA+RSA leaves
	Hooks     *tls.VerifServerHooks
	// Prepare runs after UClient (and ApplyPreset for custom specs), before Handshake.
	Prepare func(u *tls.UConn) error
	// ClientWrap / ServerWrap may wrap the raw conns (e.g. to tamper); recording happens outside.
	AppData []byte // if non-empty: client writes it, server echoes, client reads it back
	Timeout time.Duration
	// AfterHandshake runs on the client after a successful handshake (before app data).
	AfterHandshake func(u *tls.UConn) error
	// ServerAfter runs on the server after its handshake succeeded (before the echo loop).
	ServerAfter func(s *tls.Conn) error
}

type HSResult struct {
	ClientErr, ServerErr error
	PrepareErr           error
	ClientState          tls.ConnectionState
	ServerState          tls.ConnectionState
	ClientWire           []byte // all bytes the client wrote
	ServerWire           []byte // all bytes the server wrote
	UConn                *tls.UConn
	EchoOK               bool
	EchoErr              error
	TimedOut             bool
}

func defaultClientCfg(c *tls.Config) *tls.Config {
	if c == nil {
		c = &tls.Config{}
	} else {
		c = c.Clone()
	}
	if c.ServerName == "" && !c.InsecureSkipVerify {
		c.ServerName = "example.golang"
	}
	if c.RootCAs == nil {
		c.RootCAs = kit().pool
	}
	return c
}

func defaultServerCfg(c *tls.Config) *tls.Config {
	if c == nil {
		c = &tls.Config{}
	} else {
		c = c.Clone()
	}
	if len(c.Certificates) == 0 && c.GetCertificate == nil {
		c.Certificates = []tls.Certificate{kit().leaf["ecdsa"], kit().leaf["rsa"]}
	}
	return c
}

// runHS performs one client<->server handshake over TCP loopback with the real client code
// (UClient + ApplyPreset/Prepare + Handshake) and the in-package server.
func runHS(o HSOpts) *HSResult {
	res := &HSResult{}
	to := o.Timeout
	if to == 0 {
		to = 8 * time.Second
	}
	cRaw, sRaw, err := tcpPair()
	if err != nil {
		res.ClientErr = err
		return res
	}
	defer cRaw.Close()
	defer sRaw.Close()
	dl := time.Now().Add(to)
	cRaw.SetDeadline(dl)
	sRaw.SetDeadline(dl)
	cRec := &recConn{Conn: cRaw}
	sRec := &recConn{Conn: sRaw}
	if o.Hooks != nil {
		tls.VerifSetServerHooks(sRec, o.Hooks)
		defer tls.VerifSetServerHooks(sRec, nil)
	}
	srv := tls.Server(sRec, defaultServerCfg(o.ServerCfg))
	sDone := make(chan struct{})
	go func() {
		defer close(sDone)
		defer func() {
			if p := recover(); p != nil {
				res.ServerErr = fmt.Errorf("server-panic: %v", p)
			}
		}()
		if err := srv.Handshake(); err != nil {
			res.ServerErr = err
			sRaw.Close()
			return
		}
		res.ServerState = srv.ConnectionState()
		if o.ServerAfter != nil {
			if err := o.ServerAfter(srv); err != nil {
				res.ServerErr = err
				return
			}
		}
		if len(o.AppData) > 0 {
			buf := make([]byte, len(o.AppData))
			if _, err := io.ReadFull(srv, buf); err == nil {
				srv.Write(buf)
			}
		}
	}()
	u := tls.UClient(cRec, defaultClientCfg(o.ClientCfg), o.ID)
	res.UConn = u
	func() {
		defer func() {
			if p := recover(); p != nil {
				res.ClientErr = fmt.Errorf("client-panic: %v", p)
			}
		}()
		if o.Spec != nil {
			if err := u.ApplyPreset(o.Spec); err != nil {
				res.PrepareErr = err
				return
			}
		}
		if o.Prepare != nil {
			if err := o.Prepare(u); err != nil {
				res.PrepareErr = err
				return
			}
		}
		if err := u.Handshake(); err != nil {
			res.ClientErr = err
			return
		}
		res.ClientState = u.ConnectionState()
		if o.AfterHandshake != nil {
			if err := o.AfterHandshake(u); err != nil {
				res.ClientErr = err
				return
			}
		}
		if len(o.AppData) > 0 {
			if _, err := u.Write(o.AppData); err != nil {
				res.EchoErr = err
				return
			}
			buf := make([]byte, len(o.AppData))
			if _, err := io.ReadFull(u, buf); err != nil {
				res.EchoErr = err
				return
			}
			res.EchoOK = bytes.Equal(buf, o.AppData)
		}
	}()
	if res.PrepareErr != nil || res.ClientErr != nil {
		cRaw.Close()
	}
	select {
	case <-sDone:
	case <-time.After(to + time.Second):
		res.TimedOut = true
	}
	res.ClientWire = cRec.Written()
	res.ServerWire = sRec.Written()
	var ne net.Error
	if errors.As(res.ClientErr, &ne) && ne.Timeout() {
		res.TimedOut = true
	}
	return res
}

// errClass maps an error to a small stable enum: "ok", "alert:<name>", "timeout", "eof", or
// "err:<first words>". Remote alerts are "ralert:<name>".
func errClass(err error) string {
	if err == nil {
		return "ok"
	}
	var ae tls.AlertError
	if errors.As(err, &ae) {
		return "alert:" + sanitize(ae.Error())
	}
	s := err.Error()
	var ne net.Error
	if errors.As(err, &ne) && ne.Timeout() {
		return "timeout"
	}
	if i := strings.Index(s, "remote error: tls: "); i >= 0 {
		return "ralert:" + sanitize(s[i+len("remote error: tls: "):])
	}
	if errors.Is(err, io.EOF) || strings.Contains(s, "connection reset") || strings.Contains(s, "broken pipe") || strings.Contains(s, "use of closed") {
		return "eof"
	}
	s = strings.TrimPrefix(s, "tls: ")
	s = strings.TrimPrefix(s, "utls: ")
	return "err:" + sanitize(s)
}

// hs_selftest: example family (not tied to a property): one plain handshake per parrot.
func init() {
	register(&Family{
		Name: "hs_selftest",
		Gen: func(r *Rng, i int, tier string) string {
			if i >= len(parrotIDs) {
				return ""
			}
			return "id=" + idName(parrotIDs[i])
		},
		Exec: func(in KV) string {
			id, _ := idByName(in["id"])
			res := runHS(HSOpts{ID: id, AppData: []byte("ping")})
			return fmt.Sprintf("client=%s server=%s vers=%04x suite=%04x echo=%v hellos=%d", errClass(res.ClientErr), errClass(res.ServerErr),
				res.ClientState.Version, res.ClientState.CipherSuite, res.EchoOK, len(clientHellos(res.ClientWire)))
		},
	})
}
