package main

import (
	tls "github.com/refraction-networking/utls"
)

// parrotIDs: every predefined ClientHelloID that UTLSIdToSpec knows.
var parrotIDs = []tls.ClientHelloID{
	tls.HelloFirefox_55, tls.HelloFirefox_56, tls.HelloFirefox_63, tls.HelloFirefox_65, tls.HelloFirefox_99,
	tls.HelloFirefox_102, tls.HelloFirefox_105, tls.HelloFirefox_120,
	tls.HelloChrome_58, tls.HelloChrome_62, tls.HelloChrome_70, tls.HelloChrome_72, tls.HelloChrome_83,
	tls.HelloChrome_87, tls.HelloChrome_96, tls.HelloChrome_100, tls.HelloChrome_102, tls.HelloChrome_106_Shuffle,
	tls.HelloChrome_100_PSK, tls.HelloChrome_112_PSK_Shuf, tls.HelloChrome_114_Padding_PSK_Shuf,
	tls.HelloChrome_115_PQ, tls.HelloChrome_115_PQ_PSK, tls.HelloChrome_120, tls.HelloChrome_120_PQ,
	tls.HelloChrome_131, tls.HelloChrome_133,
	tls.HelloIOS_11_1, tls.HelloIOS_12_1, tls.HelloIOS_13, tls.HelloIOS_14, tls.HelloAndroid_11_OkHttp,
	tls.HelloEdge_85, tls.HelloEdge_106, tls.HelloSafari_16_0, tls.Hello360_7_5, tls.Hello360_11_0, tls.HelloQQ_11_1,
}

func idName(id tls.ClientHelloID) string { return id.Client + "-" + id.Version }

func idByName(name string) (tls.ClientHelloID, bool) {
	for _, id := range parrotIDs {
		if idName(id) == name {
			return id, true
		}
	}
	switch name {
	case "Golang-0":
		return tls.HelloGolang, true
	}
	return tls.ClientHelloID{}, false
}

// recReader is a deterministic Config.Rand that logs every Read.
type recReader struct {
	r   *Rng
	log [][]byte
}

func (rr *recReader) Read(p []byte) (int, error) {
	rr.r.Read(p)
	rr.log = append(rr.log, append([]byte(nil), p...))
	return len(p), nil
}
