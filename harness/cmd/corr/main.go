// corr — correspondence harness. Runs the real uTLS implementation (compiled from
// /repo's working tree with -tags verif) on generated cases and prints one line per
// case:  "<family> k=v k=v ... => k=v ..."
//
//	corr run  <family> --seed S --n N [--tier quick|thorough]   generate N cases and execute them
//	corr exec                                                  execute input lines read from stdin
//	corr list                                                  list the families
package main

import (
	"bufio"
	"flag"
	"fmt"
	"os"
	"sort"
	"strings"
	"time"
)

// Family is one correspondence family: a generator of input lines and an executor
// that runs the implementation on one input line and renders its observable output.
type Family struct {
	Name    string
	Gen     func(r *Rng, i int, tier string) string // returns "k=v k=v" (without the family name)
	Exec    func(in KV) string                      // returns "k=v k=v"
	Timeout time.Duration
}

var families = map[string]*Family{}

func register(f *Family) {
	if f.Timeout == 0 {
		f.Timeout = 20 * time.Second
	}
	families[f.Name] = f
}

// execOne runs f.Exec with panic recovery and a deadline.
func execOne(f *Family, in KV) string {
	type res struct{ s string }
	ch := make(chan res, 1)
	go func() {
		defer func() {
			if p := recover(); p != nil {
				ch <- res{"out=panic msg=" + sanitize(fmt.Sprint(p))}
			}
		}()
		ch <- res{f.Exec(in)}
	}()
	select {
	case r := <-ch:
		return r.s
	case <-time.After(f.Timeout):
		return "out=timeout"
	}
}

func sanitize(s string) string {
	s = strings.Map(func(r rune) rune {
		if r == ' ' || r == '\n' || r == '\t' || r == '=' {
			return '_'
		}
		return r
	}, s)
	if len(s) > 120 {
		s = s[:120]
	}
	return s
}

func main() {
	if len(os.Args) < 2 {
		fmt.Fprintln(os.Stderr, "usage: corr run|exec|list ...")
		os.Exit(2)
	}
	out := bufio.NewWriterSize(os.Stdout, 1<<20)
	defer out.Flush()
	switch os.Args[1] {
	case "list":
		var names []string
		for n := range families {
			names = append(names, n)
		}
		sort.Strings(names)
		for _, n := range names {
			fmt.Fprintln(out, n)
		}
	case "run":
		fs := flag.NewFlagSet("run", flag.ExitOnError)
		seed := fs.Uint64("seed", 1, "seed")
		n := fs.Int("n", 100, "cases")
		tier := fs.String("tier", "quick", "tier")
		if len(os.Args) < 3 {
			os.Exit(2)
		}
		fam := families[os.Args[2]]
		if fam == nil {
			fmt.Fprintln(os.Stderr, "unknown family", os.Args[2])
			os.Exit(2)
		}
		fs.Parse(os.Args[3:])
		r := NewRng(*seed ^ hashName(fam.Name))
		for i := 0; i < *n; i++ {
			in := fam.Gen(r, i, *tier)
			if in == "" {
				break // exhaustive generator finished
			}
			kv := parseKV(strings.Fields(in))
			fmt.Fprintf(out, "%s %s => %s\n", fam.Name, in, execOne(fam, kv))
		}
	case "exec":
		sc := bufio.NewScanner(os.Stdin)
		sc.Buffer(make([]byte, 1<<20), 1<<28)
		for sc.Scan() {
			line := strings.TrimSpace(sc.Text())
			if line == "" || strings.HasPrefix(line, "#") {
				continue
			}
			if i := strings.Index(line, " => "); i >= 0 {
				line = line[:i]
			}
			toks := strings.Fields(line)
			fam := families[toks[0]]
			if fam == nil {
				fmt.Fprintf(out, "%s => out=unknown-family\n", line)
				continue
			}
			fmt.Fprintf(out, "%s => %s\n", line, execOne(fam, parseKV(toks[1:])))
			out.Flush()
		}
	default:
		os.Exit(2)
	}
}

func hashName(s string) uint64 {
	var h uint64 = 1469598103934665603
	for i := 0; i < len(s); i++ {
		h ^= uint64(s[i])
		h *= 1099511628211
	}
	return h
}
