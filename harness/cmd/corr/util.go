package main

import (
	"encoding/hex"
	"fmt"
	"strconv"
	"strings"
)

// Rng is SplitMix64: every random choice of a run derives from one state seeded by VERIF_SEED.
type Rng struct{ s uint64 }

func NewRng(seed uint64) *Rng { return &Rng{s: seed} }

func (r *Rng) U64() uint64 {
	r.s += 0x9e3779b97f4a7c15
	z := r.s
	z = (z ^ (z >> 30)) * 0xbf58476d1ce4e5b9
	z = (z ^ (z >> 27)) * 0x94d049bb133111eb
	return z ^ (z >> 31)
}

// Intn returns a value in [0,n).
func (r *Rng) Intn(n int) int {
	if n <= 0 {
		return 0
	}
	return int(r.U64() % uint64(n))
}

func (r *Rng) Bool() bool { return r.U64()&1 == 1 }

func (r *Rng) Bytes(n int) []byte {
	b := make([]byte, n)
	for i := range b {
		b[i] = byte(r.U64())
	}
	return b
}

// Pick returns one of xs.
func Pick[T any](r *Rng, xs []T) T { return xs[r.Intn(len(xs))] }

// Read implements io.Reader (deterministic randomness for Config.Rand).
func (r *Rng) Read(p []byte) (int, error) {
	for i := range p {
		p[i] = byte(r.U64())
	}
	return len(p), nil
}

type KV map[string]string

func parseKV(toks []string) KV {
	kv := KV{}
	for _, t := range toks {
		if i := strings.IndexByte(t, '='); i >= 0 {
			kv[t[:i]] = t[i+1:]
		} else {
			kv[t] = ""
		}
	}
	return kv
}

func (kv KV) U64(k string) uint64 {
	v, err := strconv.ParseUint(kv[k], 10, 64)
	if err != nil {
		panic("bad uint " + k + "=" + kv[k])
	}
	return v
}

func (kv KV) Int(k string) int {
	v, err := strconv.ParseInt(kv[k], 10, 64)
	if err != nil {
		panic("bad int " + k + "=" + kv[k])
	}
	return int(v)
}

func (kv KV) Bytes(k string) []byte { return unhex(kv[k]) }

func hx(b []byte) string {
	if len(b) == 0 {
		return "-"
	}
	return hex.EncodeToString(b)
}

func unhex(s string) []byte {
	if s == "-" || s == "" {
		return nil
	}
	b, err := hex.DecodeString(s)
	if err != nil {
		panic("bad hex " + s)
	}
	return b
}

func splitList(s string) []string {
	if s == "-" || s == "" {
		return nil
	}
	return strings.Split(s, ",")
}

func joinList(xs []string) string {
	if len(xs) == 0 {
		return "-"
	}
	return strings.Join(xs, ",")
}

func u64s(xs []uint64) string {
	ss := make([]string, len(xs))
	for i, x := range xs {
		ss[i] = fmt.Sprint(x)
	}
	return joinList(ss)
}

func parseU64s(s string) []uint64 {
	var out []uint64
	for _, t := range splitList(s) {
		v, err := strconv.ParseUint(t, 10, 64)
		if err != nil {
			panic("bad uint list " + s)
		}
		out = append(out, v)
	}
	return out
}
