package main

// Gen/Parrots.lean — one row per predefined ClientHelloID: the spec UTLSIdToSpec returns, as Lean
// data (Preset.Spec: cipher suites, compression methods, TLSVersMin/Max, the extension list as
// `Ext` terms with GREASE placeholders as they stand in the spec, the padding policy), the shuffle
// flag and the GREASE-ECH candidate lists. Produced by running the working tree's own code.
//
// Shuffled ids: ShuffleChromeTLSExtensions is called inside the spec literal, so the canonical order
// is recovered by serving crypto/rand deterministically, replaying math/rand's Shuffle for the seed
// the function drew, and undoing the guarded swaps (GREASE / padding / pre_shared_key positions are
// static). Two different seeds must give the same canonical list (`canon2` flag, checked in Lean).

import (
	"bytes"
	crand "crypto/rand"
	"fmt"
	"math"
	"math/big"
	mrand "math/rand"
	"reflect"
	"strings"

	tls "github.com/refraction-networking/utls"
)

type c03Rand struct{ s uint64 }

func (r *c03Rand) Read(p []byte) (int, error) {
	for i := range p {
		r.s += 0x9e3779b97f4a7c15
		z := r.s
		z = (z ^ (z >> 30)) * 0xbf58476d1ce4e5b9
		z = (z ^ (z >> 27)) * 0x94d049bb133111eb
		p[i] = byte(z ^ (z >> 31))
	}
	return len(p), nil
}

func c03Bytes(b []byte) string {
	ss := make([]string, len(b))
	for i, x := range b {
		ss[i] = fmt.Sprint(x)
	}
	return "[" + strings.Join(ss, ", ") + "]"
}

func c03Nats[T ~uint16 | ~uint8](xs []T) string {
	ss := make([]string, len(xs))
	for i, x := range xs {
		ss[i] = fmt.Sprint(uint64(x))
	}
	return "[" + strings.Join(ss, ", ") + "]"
}

func c03Strs(xs []string) string {
	ss := make([]string, len(xs))
	for i, x := range xs {
		ss[i] = c03Bytes([]byte(x))
	}
	return "[" + strings.Join(ss, ", ") + "]"
}

func c03Bool(b bool) string {
	if b {
		return "true"
	}
	return "false"
}

// c03LeanExt renders one spec extension as a Lean `Ext` term.
func c03LeanExt(e tls.TLSExtension) (string, error) {
	switch x := e.(type) {
	case *tls.SNIExtension:
		return ".sni " + c03Bytes([]byte(x.ServerName)), nil
	case *tls.StatusRequestExtension:
		return ".statusRequest", nil
	case *tls.SupportedCurvesExtension:
		return ".supportedCurves " + c03Nats(x.Curves), nil
	case *tls.SupportedPointsExtension:
		return ".supportedPoints " + c03Nats(x.SupportedPoints), nil
	case *tls.SignatureAlgorithmsExtension:
		return ".sigAlgs " + c03Nats(x.SupportedSignatureAlgorithms), nil
	case *tls.StatusRequestV2Extension:
		return ".statusRequestV2", nil
	case *tls.SignatureAlgorithmsCertExtension:
		return ".sigAlgsCert " + c03Nats(x.SupportedSignatureAlgorithms), nil
	case *tls.FakeDelegatedCredentialsExtension:
		return ".delegatedCreds " + c03Nats(x.SupportedSignatureAlgorithms), nil
	case *tls.ALPNExtension:
		return ".alpn " + c03Strs(x.AlpnProtocols), nil
	case *tls.ApplicationSettingsExtension:
		return ".alps false " + c03Strs(x.SupportedProtocols), nil
	case *tls.ApplicationSettingsExtensionNew:
		return ".alps true " + c03Strs(x.SupportedProtocols), nil
	case *tls.SCTExtension:
		return ".sct", nil
	case *tls.GenericExtension:
		return fmt.Sprintf(".generic %d %s", x.Id, c03Bytes(x.Data)), nil
	case *tls.ExtendedMasterSecretExtension:
		return ".ems", nil
	case *tls.UtlsGREASEExtension:
		return fmt.Sprintf(".grease %d %s", x.Value, c03Bytes(x.Body)), nil
	case *tls.UtlsPaddingExtension:
		return fmt.Sprintf(".padding %d %s", x.PaddingLen, c03Bool(x.WillPad)), nil
	case *tls.UtlsCompressCertExtension:
		return ".compressCert " + c03Nats(x.Algorithms), nil
	case *tls.KeyShareExtension:
		var ss []string
		for _, k := range x.KeyShares {
			ss = append(ss, fmt.Sprintf("(%d, %s)", uint16(k.Group), c03Bytes(k.Data)))
		}
		return ".keyShare [" + strings.Join(ss, ", ") + "]", nil
	case *tls.PSKKeyExchangeModesExtension:
		return ".pskModes " + c03Nats(x.Modes), nil
	case *tls.SupportedVersionsExtension:
		return ".supportedVersions " + c03Nats(x.Versions), nil
	case *tls.CookieExtension:
		return ".cookie " + c03Bytes(x.Cookie), nil
	case *tls.NPNExtension:
		return ".npn", nil
	case *tls.RenegotiationInfoExtension:
		return ".renegInfo " + c03Bytes(x.RenegotiatedConnection), nil
	case *tls.FakeChannelIDExtension:
		return ".channelId " + c03Bool(x.OldExtensionID), nil
	case *tls.FakeRecordSizeLimitExtension:
		return fmt.Sprintf(".recordSizeLimit %d", x.Limit), nil
	case *tls.FakeTokenBindingExtension:
		return fmt.Sprintf(".tokenBinding %d %d %s", x.MajorVersion, x.MinorVersion, c03Nats(x.KeyParameters)), nil
	case *tls.SessionTicketExtension:
		return ".sessionTicket " + c03Bytes(x.Ticket), nil
	case *tls.FakePreSharedKeyExtension:
		if len(x.Identities) != 0 || len(x.Binders) != 0 {
			return "", fmt.Errorf("spec carries a pre-filled fake PSK")
		}
		return ".psk true " + c03Bool(x.OmitEmptyPsk) + " false [] []", nil
	case *tls.UtlsPreSharedKeyExtension:
		if len(x.Identities) != 0 || len(x.Binders) != 0 || x.Session != nil {
			return "", fmt.Errorf("spec carries a pre-filled PSK")
		}
		return ".psk false " + c03Bool(x.OmitEmptyPsk) + " false [] []", nil
	case *tls.GREASEEncryptedClientHelloExtension:
		return ".greaseECH 0 0 0 [] []", nil
	}
	return "", fmt.Errorf("no Lean form for %T", e)
}

func c03Fixed(e tls.TLSExtension) bool {
	switch e.(type) {
	case *tls.UtlsGREASEExtension, *tls.UtlsPaddingExtension, tls.PreSharedKeyExtension:
		return true
	}
	return false
}

// c03Swaps: the (i, j) callbacks rand.Shuffle(n, …) makes for the source seeded with seed.
func c03Swaps(seed int64, n int) [][2]int {
	var out [][2]int
	mrand.New(mrand.NewSource(seed)).Shuffle(n, func(i, j int) { out = append(out, [2]int{i, j}) })
	return out
}

// c03SpecWith calls UTLSIdToSpec with crypto/rand served from a deterministic stream and returns
// the spec plus the seed ShuffleChromeTLSExtensions drew from that stream (first read).
func c03SpecWith(id tls.ClientHelloID, s uint64) (tls.ClientHelloSpec, int64, error) {
	old := crand.Reader
	crand.Reader = &c03Rand{s: s}
	spec, err := tls.UTLSIdToSpec(id)
	crand.Reader = old
	if err != nil {
		return spec, 0, err
	}
	n, err := crand.Int(&c03Rand{s: s}, big.NewInt(math.MaxInt64))
	if err != nil {
		return spec, 0, err
	}
	return spec, n.Int64(), nil
}

func c03Unshuffle(exts []tls.TLSExtension, swaps [][2]int) []tls.TLSExtension {
	out := append([]tls.TLSExtension(nil), exts...)
	for k := len(swaps) - 1; k >= 0; k-- {
		i, j := swaps[k][0], swaps[k][1]
		if c03Fixed(out[i]) || c03Fixed(out[j]) {
			continue
		}
		out[i], out[j] = out[j], out[i]
	}
	return out
}

func c03LeanExts(exts []tls.TLSExtension) ([]string, error) {
	var out []string
	for _, e := range exts {
		t, err := c03LeanExt(e)
		if err != nil {
			return nil, err
		}
		out = append(out, t)
	}
	return out, nil
}

func c03Pol(exts []tls.TLSExtension) (string, error) {
	for _, e := range exts {
		if p, ok := e.(*tls.UtlsPaddingExtension); ok {
			if p.GetPaddingLen == nil {
				return ".none", nil
			}
			if reflect.ValueOf(p.GetPaddingLen).Pointer() == reflect.ValueOf(tls.BoringPaddingStyle).Pointer() {
				return ".boring", nil
			}
			return "", fmt.Errorf("unknown padding policy")
		}
	}
	return ".none", nil
}

func genParrots(dir string) error {
	var sb strings.Builder
	sb.WriteString("import UtlsVerif.Preset\n")
	sb.WriteString("/-! generated by harness/cmd/gen (c03.go) from the working tree — do not edit.\n")
	sb.WriteString("One row per predefined ClientHelloID: UTLSIdToSpec(id) as data (canonical order for shuffled ids). -/\n")
	sb.WriteString("namespace Gen.Parrots\nopen Ext.Ext Hello\n\n")
	sb.WriteString("structure Row where\n  name : Nat\n  spec : Preset.Spec\n  shuffle : Bool\n  /-- canonical order recovered from two different shuffle seeds agrees -/\n  canon2 : Bool\n  echSuites : List (Nat × Nat)\n  echLens : List Nat\n\n")
	var names []string
	for _, id := range genParrotIDs {
		s1, seed1, err := c03SpecWith(id, 0x1111)
		if err != nil {
			return fmt.Errorf("UTLSIdToSpec(%v): %w", id, err)
		}
		s2, seed2, err := c03SpecWith(id, 0x2222)
		if err != nil {
			return err
		}
		l1, err := c03LeanExts(s1.Extensions)
		if err != nil {
			return fmt.Errorf("%v: %w", id, err)
		}
		l2, err := c03LeanExts(s2.Extensions)
		if err != nil {
			return err
		}
		s3, _, _ := c03SpecWith(id, 0x3333)
		l3, _ := c03LeanExts(s3.Extensions)
		shuffle := strings.Join(l1, ";") != strings.Join(l2, ";") || strings.Join(l1, ";") != strings.Join(l3, ";")
		canon := l1
		canon2 := true
		exts := s1.Extensions
		if shuffle {
			exts = c03Unshuffle(s1.Extensions, c03Swaps(seed1, len(s1.Extensions)))
			canon, _ = c03LeanExts(exts)
			c2, _ := c03LeanExts(c03Unshuffle(s2.Extensions, c03Swaps(seed2, len(s2.Extensions))))
			canon2 = strings.Join(canon, ";") == strings.Join(c2, ";")
		}
		pol, err := c03Pol(exts)
		if err != nil {
			return fmt.Errorf("%v: %w", id, err)
		}
		var echSuites, echLens []string
		for _, e := range exts {
			if g, ok := e.(*tls.GREASEEncryptedClientHelloExtension); ok {
				for _, c := range g.CandidateCipherSuites {
					echSuites = append(echSuites, fmt.Sprintf("(%d, %d)", c.KdfId, c.AeadId))
				}
				for _, n := range g.CandidatePayloadLens {
					echLens = append(echLens, fmt.Sprint(n))
				}
			}
		}
		name := id.Client + "-" + id.Version
		ident := "row_" + leanIdent(name)
		names = append(names, ident)
		packed := new(big.Int).SetBytes([]byte(name))
		fmt.Fprintf(&sb, "/-- %s -/\ndef %s_exts : List Ext.Ext := [\n  %s]\n", name, ident, strings.Join(canon, ",\n  "))
		fmt.Fprintf(&sb, "def %s : Row := { name := %s, shuffle := %s, canon2 := %s, echSuites := [%s], echLens := [%s], spec := { suites := %s, comp := %s, vmin := %d, vmax := %d, exts := %s_exts, pol := %s } }\n\n",
			ident, packed.String(), c03Bool(shuffle), c03Bool(canon2), strings.Join(echSuites, ", "), strings.Join(echLens, ", "),
			natList(s1.CipherSuites), c03Bytes(s1.CompressionMethods), s1.TLSVersMin, s1.TLSVersMax, ident, pol)
		_ = bytes.Equal
	}
	sb.WriteString("def rows : List Row := [" + strings.Join(names, ", ") + "]\n\nend Gen.Parrots\n")
	return writeFile(dir, "Parrots.lean", sb.String())
}

func init() { generators = append(generators, genParrots) }
