package main

// C23 shape extractor (go/ast, stdlib only): writes Gen/QuicShape.lean from the working tree's source.
//
//   hcProg        decision tree of (*UConn).handshakeContext: locks, defers, channel closes, the
//                 BuildHandshakeState / handshakeFn calls, handshakeErr assignments, event emissions,
//                 returns and panics, with every `if` that contains one of those (both continuations)
//   clientBody    the TLS 1.3 client's emission script: quicSet*Secret / quicSetTransportParameters /
//                 quicRejectedEarlyData calls and readHandshake wait points in source order along
//                 (*UConn).clientHandshake -> (*clientHandshakeStateTLS13).handshake and its callees
//   *Ops          channel / mutex operation sequences of UQUICConn.Start, HandleData, Close,
//                 SetTransportParameters and of (*Conn).quicWaitForSignal
//   sessionIdGuards, ccs*   guards of the legacy session id assignment and of the dummy CCS

import (
	"bytes"
	"fmt"
	"go/ast"
	"go/parser"
	"go/printer"
	"go/token"
	"os"
	"path/filepath"
	"reflect"
	"runtime"
	"sort"
	"strings"

	tls "github.com/refraction-networking/utls"
)

func init() { generators = append(generators, genQuicShape) }

func utlsSourceDir() string {
	if f := runtime.FuncForPC(reflect.ValueOf(tls.UQUICClient).Pointer()); f != nil {
		file, _ := f.FileLine(f.Entry())
		if file != "" {
			if _, err := os.Stat(file); err == nil {
				return filepath.Dir(file)
			}
		}
	}
	if d := os.Getenv("VERIF_REPO"); d != "" {
		return d
	}
	return "/repo"
}

type shapeSrc struct {
	fset  *token.FileSet
	funcs map[string]*ast.FuncDecl // "Recv.Name" (pointer star dropped) or "Name"
}

func loadShapeSrc(dir string) (*shapeSrc, error) {
	fset := token.NewFileSet()
	pkgs, err := parser.ParseDir(fset, dir, func(fi os.FileInfo) bool {
		return !strings.HasSuffix(fi.Name(), "_test.go")
	}, 0)
	if err != nil {
		return nil, err
	}
	s := &shapeSrc{fset: fset, funcs: map[string]*ast.FuncDecl{}}
	p := pkgs["tls"]
	if p == nil {
		return nil, fmt.Errorf("package tls not found in %s", dir)
	}
	var names []string
	for n := range p.Files {
		names = append(names, n)
	}
	sort.Strings(names)
	for _, n := range names {
		for _, d := range p.Files[n].Decls {
			fd, ok := d.(*ast.FuncDecl)
			if !ok || fd.Body == nil {
				continue
			}
			key := fd.Name.Name
			if fd.Recv != nil && len(fd.Recv.List) == 1 {
				key = recvTypeName(fd.Recv.List[0].Type) + "." + key
			}
			s.funcs[key] = fd
		}
	}
	return s, nil
}

func recvTypeName(e ast.Expr) string {
	switch t := e.(type) {
	case *ast.StarExpr:
		return recvTypeName(t.X)
	case *ast.Ident:
		return t.Name
	}
	return "?"
}

func (s *shapeSrc) str(n ast.Node) string {
	var b bytes.Buffer
	printer.Fprint(&b, s.fset, n)
	return strings.Join(strings.Fields(b.String()), " ")
}

// dropRecv("c.quic.blockedc") = ".quic.blockedc"
func dropRecv(x string) string {
	if i := strings.IndexByte(x, '.'); i >= 0 {
		return x[i:]
	}
	return x
}

// ---------- handshakeContext -> Prog ----------

type senv map[string]string

func (e senv) with(k, v string) senv {
	n := senv{}
	for a, b := range e {
		n[a] = b
	}
	n[k] = v
	return n
}

type progGen struct {
	s       *shapeSrc
	unknown []string
}

func chanOf(x string) string {
	switch {
	case strings.HasSuffix(x, ".blockedc"):
		return ".blocked"
	case strings.HasSuffix(x, ".signalc"):
		return ".signal"
	}
	return ""
}

func lockOf(x string) string {
	switch dropRecv(x) {
	case ".handshakeMutex":
		return ".hs"
	case ".in":
		return ".inp"
	case ".out":
		return ".out"
	}
	return ".other"
}

func levelOf(x string) string {
	switch x {
	case "QUICEncryptionLevelInitial":
		return ".initial"
	case "QUICEncryptionLevelEarly":
		return ".early"
	case "QUICEncryptionLevelHandshake":
		return ".handshake"
	case "QUICEncryptionLevelApplication":
		return ".app"
	}
	return ""
}

// emitOf: the event a quic* call appends, "" if the call is not an emission.
func (s *shapeSrc) emitOf(call *ast.CallExpr) (ev string, isEmit bool) {
	sel, ok := call.Fun.(*ast.SelectorExpr)
	if !ok {
		return "", false
	}
	lvl := func() string {
		if len(call.Args) == 0 {
			return ""
		}
		return levelOf(s.str(call.Args[0]))
	}
	switch strings.ToLower(sel.Sel.Name) {
	case "quicsetwritesecret":
		if l := lvl(); l != "" {
			return "(.sw " + l + ")", true
		}
		return "", true
	case "quicsetreadsecret":
		if l := lvl(); l != "" {
			return "(.sr " + l + ")", true
		}
		return "", true
	case "quicsettransportparameters":
		return ".tp", true
	case "quicrejectedearlydata":
		return ".red", true
	case "quichandshakecomplete":
		return ".hd", true
	}
	return "", false
}

// actOfCall: the Act of a call statement ("" = untracked, "panic" = panic).
func (g *progGen) actOfCall(call *ast.CallExpr, deferred bool) string {
	s := g.s
	if id, ok := call.Fun.(*ast.Ident); ok {
		switch id.Name {
		case "panic":
			return "panic"
		case "close":
			if len(call.Args) == 1 {
				if ch := chanOf(s.str(call.Args[0])); ch != "" {
					return ".close " + ch
				}
			}
			return ".unsupported"
		case "cancel":
			if deferred {
				return ".dfr .cancel"
			}
			return ".unsupported"
		}
		return ""
	}
	if _, ok := call.Fun.(*ast.FuncLit); ok {
		if deferred {
			return ".dfr .other"
		}
		return ".spawn"
	}
	sel, ok := call.Fun.(*ast.SelectorExpr)
	if !ok {
		return ""
	}
	switch sel.Sel.Name {
	case "Lock":
		if deferred {
			return ".unsupported"
		}
		return ".lock " + lockOf(s.str(sel.X))
	case "Unlock":
		if deferred {
			return ".dfr (.unlock " + lockOf(s.str(sel.X)) + ")"
		}
		return ".unlock " + lockOf(s.str(sel.X))
	case "BuildHandshakeState":
		return ".build"
	case "handshakeFn":
		return ".body"
	}
	if ev, isEmit := s.emitOf(call); isEmit {
		if ev == "" || deferred {
			return ".unsupported"
		}
		return ".emit " + ev
	}
	if deferred {
		return ".dfr .other"
	}
	return ""
}

// tracked: does the subtree contain anything the skeleton records?
func (g *progGen) tracked(n ast.Node) bool {
	if n == nil || reflect.ValueOf(n).IsNil() {
		return false
	}
	found := false
	ast.Inspect(n, func(x ast.Node) bool {
		if found {
			return false
		}
		switch t := x.(type) {
		case *ast.FuncLit:
			return false
		case *ast.ReturnStmt, *ast.DeferStmt, *ast.GoStmt, *ast.SendStmt, *ast.SelectStmt:
			found = true
		case *ast.CallExpr:
			if g.actOfCall(t, false) != "" {
				found = true
			}
		case *ast.UnaryExpr:
			if t.Op == token.ARROW {
				found = true
			}
		case *ast.AssignStmt:
			for _, l := range t.Lhs {
				switch dropRecv(g.s.str(l)) {
				case ".handshakeErr", ".quic.cancel":
					found = true
				}
			}
		}
		return true
	})
	return found
}

type cform struct {
	op   string // "atom", "and", "or", "not"
	atom string
	a, b *cform
}

func (g *progGen) cond(e ast.Expr, env senv) *cform {
	switch t := e.(type) {
	case *ast.ParenExpr:
		return g.cond(t.X, env)
	case *ast.UnaryExpr:
		if t.Op == token.NOT {
			return &cform{op: "not", a: g.cond(t.X, env)}
		}
	case *ast.BinaryExpr:
		switch t.Op {
		case token.LAND:
			return &cform{op: "and", a: g.cond(t.X, env), b: g.cond(t.Y, env)}
		case token.LOR:
			return &cform{op: "or", a: g.cond(t.X, env), b: g.cond(t.Y, env)}
		case token.NEQ, token.EQL:
			if g.s.str(t.Y) == "nil" {
				var at string
				l := g.s.str(t.X)
				if v, ok := env[l]; ok {
					at = v
				} else {
					switch dropRecv(l) {
					case ".quic":
						at = ".quic"
					case ".handshakeErr":
						at = ".hsErr"
					case ".Done()":
						at = ".cancellable"
					}
				}
				if at != "" {
					f := &cform{op: "atom", atom: at}
					if t.Op == token.EQL {
						return &cform{op: "not", a: f}
					}
					return f
				}
			}
		}
	case *ast.CallExpr:
		if dropRecv(g.s.str(t)) == ".isHandshakeComplete.Load()" {
			return &cform{op: "atom", atom: ".complete"}
		}
	case *ast.SelectorExpr:
		if dropRecv(g.s.str(t)) == ".isClient" {
			return &cform{op: "atom", atom: ".isClient"}
		}
	}
	txt := g.s.str(e)
	for i, u := range g.unknown {
		if u == txt {
			return &cform{op: "atom", atom: fmt.Sprintf("(.other %d)", i)}
		}
	}
	g.unknown = append(g.unknown, txt)
	return &cform{op: "atom", atom: fmt.Sprintf("(.other %d)", len(g.unknown)-1)}
}

func iteTree(f *cform, t, e string) string {
	switch f.op {
	case "and":
		return iteTree(f.a, iteTree(f.b, t, e), e)
	case "or":
		return iteTree(f.a, t, iteTree(f.b, t, e))
	case "not":
		return iteTree(f.a, e, t)
	}
	return "(.ite " + f.atom + " " + t + " " + e + ")"
}

func act(a, k string) string { return "(.act (" + a + ") " + k + ")" }

func (g *progGen) seq(stmts []ast.Stmt, env senv, k func(senv) string) string {
	if len(stmts) == 0 {
		return k(env)
	}
	return g.stmt(stmts[0], env, func(e2 senv) string { return g.seq(stmts[1:], e2, k) })
}

// bindErr: `x := c.handshakeErr` / `x := c.BuildHandshakeState()` bind x to the matching condition atom.
func (g *progGen) bindErr(as *ast.AssignStmt, env senv) senv {
	if len(as.Lhs) == 1 && len(as.Rhs) == 1 {
		if id, ok := as.Lhs[0].(*ast.Ident); ok {
			r := g.s.str(as.Rhs[0])
			switch {
			case dropRecv(r) == ".handshakeErr":
				return env.with(id.Name, ".hsErr")
			case strings.HasSuffix(r, ".BuildHandshakeState()"):
				return env.with(id.Name, ".buildErr")
			default:
				if _, ok := env[id.Name]; ok {
					return env.with(id.Name, "")
				}
			}
		}
	}
	return env
}

func (g *progGen) stmt(st ast.Stmt, env senv, k func(senv) string) string {
	if !g.tracked(st) {
		if as, ok := st.(*ast.AssignStmt); ok {
			env = g.bindErr(as, env)
		}
		return k(env)
	}
	switch t := st.(type) {
	case *ast.ReturnStmt:
		for _, r := range t.Results {
			if g.tracked(r) {
				return act(".unsupported", ".ret")
			}
		}
		return ".ret"
	case *ast.BlockStmt:
		return g.seq(t.List, env, k)
	case *ast.ExprStmt:
		if call, ok := t.X.(*ast.CallExpr); ok {
			a := g.actOfCall(call, false)
			if a == "panic" {
				return ".panic"
			}
			if a != "" {
				return act(a, k(env))
			}
		}
		return act(".unsupported", k(env))
	case *ast.DeferStmt:
		a := g.actOfCall(t.Call, true)
		if a == "" || a == "panic" {
			a = ".unsupported"
		}
		return act(a, k(env))
	case *ast.GoStmt:
		return act(".spawn", k(env))
	case *ast.AssignStmt:
		env2 := g.bindErr(t, env)
		var acts []string
		for _, r := range t.Rhs {
			if call, ok := r.(*ast.CallExpr); ok {
				if a := g.actOfCall(call, false); a == ".build" || a == ".body" {
					acts = append(acts, a)
				} else if a != "" {
					acts = append(acts, ".unsupported")
				}
			}
		}
		for _, l := range t.Lhs {
			switch dropRecv(g.s.str(l)) {
			case ".handshakeErr":
				if len(acts) == 0 || acts[len(acts)-1] != ".body" {
					acts = append(acts, ".setHsErr")
				}
			case ".quic.cancel":
				acts = append(acts, ".setCancel")
			}
		}
		if len(acts) == 0 {
			acts = []string{".unsupported"}
		}
		out := k(env2)
		for i := len(acts) - 1; i >= 0; i-- {
			out = act(acts[i], out)
		}
		return out
	case *ast.IfStmt:
		env2 := env
		pre := func(x string) string { return x }
		if t.Init != nil {
			if as, ok := t.Init.(*ast.AssignStmt); ok && !g.tracked(as) {
				env2 = g.bindErr(as, env)
			} else if as, ok := t.Init.(*ast.AssignStmt); ok {
				// e.g. `if err := c.BuildHandshakeState(); err != nil`
				initTxt := g.stmt(as, env, func(e3 senv) string { env2 = e3; return "\x00" })
				pre = func(x string) string { return strings.Replace(initTxt, "\x00", x, 1) }
			} else {
				return act(".unsupported", k(env))
			}
		}
		if g.tracked(t.Cond) {
			return act(".unsupported", k(env))
		}
		f := g.cond(t.Cond, env2)
		thenP := g.seq(t.Body.List, env2, k)
		var elseP string
		if t.Else != nil {
			elseP = g.stmt(t.Else, env2, k)
		} else {
			elseP = k(env2)
		}
		return pre(iteTree(f, thenP, elseP))
	}
	return act(".unsupported", k(env))
}

// ---------- emission script ----------

type scriptGen struct {
	s     *shapeSrc
	items []string
	seen  map[string]int
}

func (g *scriptGen) add(kind, ev string, opt bool) {
	switch kind {
	case "recv":
		g.items = append(g.items, ".recv")
	case "emit":
		if opt {
			g.items = append(g.items, ".emitOpt "+ev)
		} else {
			g.items = append(g.items, ".emit "+ev)
		}
	}
}

// isQuicNonNil: conditions that are constant on a QUIC connection: `X.quic != nil` / `X.quic == nil`
// and `X.vers == VersionTLS13` (QUIC requires TLS 1.3: pickTLSVersion fails otherwise).
func (g *scriptGen) isQuicNonNil(e ast.Expr) (match, negated bool) {
	b, ok := e.(*ast.BinaryExpr)
	if ok && b.Op == token.EQL && strings.HasSuffix(g.s.str(b.X), ".vers") && g.s.str(b.Y) == "VersionTLS13" {
		return true, false
	}
	if !ok || g.s.str(b.Y) != "nil" || !strings.HasSuffix(g.s.str(b.X), ".quic") {
		return false, false
	}
	switch b.Op {
	case token.NEQ:
		return true, false
	case token.EQL:
		return true, true
	}
	return false, false
}

func (g *scriptGen) exprs(n ast.Node, recvName, recvType string, opt bool, depth int) {
	if n == nil || reflect.ValueOf(n).IsNil() {
		return
	}
	ast.Inspect(n, func(x ast.Node) bool {
		switch t := x.(type) {
		case *ast.FuncLit:
			return false
		case *ast.CallExpr:
			// arguments are evaluated before the call
			for _, a := range t.Args {
				g.exprs(a, recvName, recvType, opt, depth)
			}
			g.call(t, recvName, recvType, opt, depth)
			return false
		}
		return true
	})
}

func (g *scriptGen) call(c *ast.CallExpr, recvName, recvType string, opt bool, depth int) {
	sel, ok := c.Fun.(*ast.SelectorExpr)
	if !ok {
		return
	}
	name := sel.Sel.Name
	if ev, isEmit := g.s.emitOf(c); isEmit {
		if ev == "" {
			ev = ".tpr" // unknown level: cannot happen for the calls that exist; keeps the file well-typed
			opt = true
		}
		g.add("emit", ev, opt)
		return
	}
	switch name {
	case "readHandshake":
		g.add("recv", "", opt)
		return
	case "quicGetTransportParameters", "QUICGetTransportParameters":
		g.add("emit", ".tpr", true)
		g.add("recv", "", opt)
		return
	}
	x := g.s.str(sel.X)
	var callee *ast.FuncDecl
	var calleeType string
	switch {
	case x == "hs13" && name == "handshake":
		calleeType = "clientHandshakeStateTLS13"
	case x == recvName && recvName != "" && recvType == "clientHandshakeStateTLS13":
		calleeType = recvType
	}
	if calleeType != "" {
		callee = g.s.funcs[calleeType+"."+name]
	}
	if callee == nil || depth >= 5 {
		return
	}
	key := calleeType + "." + name
	if g.seen[key] > 2 {
		return
	}
	g.seen[key]++
	g.fn(callee, opt, depth+1)
	g.seen[key]--
}

func (g *scriptGen) fn(fd *ast.FuncDecl, opt bool, depth int) {
	recvName, recvType := "", ""
	if fd.Recv != nil && len(fd.Recv.List) == 1 {
		recvType = recvTypeName(fd.Recv.List[0].Type)
		if len(fd.Recv.List[0].Names) == 1 {
			recvName = fd.Recv.List[0].Names[0].Name
		}
	}
	g.stmts(fd.Body.List, recvName, recvType, opt, depth)
}

func (g *scriptGen) stmts(list []ast.Stmt, rn, rt string, opt bool, depth int) {
	for _, st := range list {
		g.stmt(st, rn, rt, opt, depth)
	}
}

func (g *scriptGen) stmt(st ast.Stmt, rn, rt string, opt bool, depth int) {
	switch t := st.(type) {
	case *ast.IfStmt:
		if t.Init != nil {
			g.stmt(t.Init, rn, rt, opt, depth)
		}
		if m, neg := g.isQuicNonNil(t.Cond); m {
			if !neg {
				g.stmts(t.Body.List, rn, rt, opt, depth)
			} else if t.Else != nil {
				g.stmt(t.Else, rn, rt, opt, depth)
			}
			return
		}
		g.exprs(t.Cond, rn, rt, opt, depth)
		g.stmts(t.Body.List, rn, rt, true, depth)
		if t.Else != nil {
			g.stmt(t.Else, rn, rt, true, depth)
		}
	case *ast.BlockStmt:
		g.stmts(t.List, rn, rt, opt, depth)
	case *ast.ForStmt:
		g.stmts(t.Body.List, rn, rt, true, depth)
	case *ast.RangeStmt:
		g.stmts(t.Body.List, rn, rt, true, depth)
	case *ast.SwitchStmt:
		for _, c := range t.Body.List {
			g.stmts(c.(*ast.CaseClause).Body, rn, rt, true, depth)
		}
	case *ast.TypeSwitchStmt:
		for _, c := range t.Body.List {
			g.stmts(c.(*ast.CaseClause).Body, rn, rt, true, depth)
		}
	case *ast.DeferStmt, *ast.GoStmt:
	default:
		g.exprs(st, rn, rt, opt, depth)
	}
}

// ---------- channel / mutex op sequences ----------

func (s *shapeSrc) ops(fd *ast.FuncDecl) []string {
	var out []string
	var walk func(n ast.Node)
	walk = func(n ast.Node) {
		ast.Inspect(n, func(x ast.Node) bool {
			switch t := x.(type) {
			case *ast.FuncLit:
				return false
			case *ast.SelectStmt:
				out = append(out, ".selBegin")
				for _, c := range t.Body.List {
					cc := c.(*ast.CommClause)
					if cc.Comm != nil {
						walk(cc.Comm)
					}
				}
				out = append(out, ".selEnd")
				for _, c := range t.Body.List {
					for _, b := range c.(*ast.CommClause).Body {
						walk(b)
					}
				}
				return false
			case *ast.SendStmt:
				if ch := chanOf(s.str(t.Chan)); ch != "" {
					out = append(out, ".send "+ch)
				}
			case *ast.UnaryExpr:
				if t.Op == token.ARROW {
					x := s.str(t.X)
					if ch := chanOf(x); ch != "" {
						out = append(out, ".recv "+ch)
					} else if strings.HasSuffix(x, ".cancelc") {
						out = append(out, ".recvCancel")
					}
				}
			case *ast.RangeStmt:
				if ch := chanOf(s.str(t.X)); ch != "" {
					out = append(out, ".rangeOver "+ch)
				}
			case *ast.GoStmt:
				if strings.HasSuffix(s.str(t.Call.Fun), ".HandshakeContext") {
					out = append(out, ".spawnHandshake")
				} else {
					out = append(out, ".spawnOther")
				}
				return false
			case *ast.DeferStmt:
				if sel, ok := t.Call.Fun.(*ast.SelectorExpr); ok {
					switch sel.Sel.Name {
					case "Lock":
						out = append(out, ".deferLock "+lockOf(s.str(sel.X)))
					case "Unlock":
						out = append(out, ".deferUnlock "+lockOf(s.str(sel.X)))
					}
				}
				return false
			case *ast.CallExpr:
				if id, ok := t.Fun.(*ast.Ident); ok && id.Name == "close" && len(t.Args) == 1 {
					if ch := chanOf(s.str(t.Args[0])); ch != "" {
						out = append(out, ".closeCh "+ch)
					}
				}
				if sel, ok := t.Fun.(*ast.SelectorExpr); ok {
					switch {
					case sel.Sel.Name == "Lock":
						out = append(out, ".lock "+lockOf(s.str(sel.X)))
					case sel.Sel.Name == "Unlock":
						out = append(out, ".unlock "+lockOf(s.str(sel.X)))
					case sel.Sel.Name == "cancel" && strings.HasSuffix(s.str(sel.X), ".quic"):
						out = append(out, ".callCancel")
					}
				}
			}
			return true
		})
	}
	walk(fd.Body)
	return out
}

// ---------- hello shape guards ----------

// sessionIdGuards: for every assignment to a `.SessionId` / `.sessionId` field in fd, is it inside
// `if X.quic == nil { … }`?
func (s *shapeSrc) sessionIdGuards(fd *ast.FuncDecl) []bool {
	var out []bool
	var walk func(n ast.Node, guarded bool)
	walk = func(n ast.Node, guarded bool) {
		ast.Inspect(n, func(x ast.Node) bool {
			switch t := x.(type) {
			case *ast.FuncLit:
				return false
			case *ast.IfStmt:
				g := guarded
				if b, ok := t.Cond.(*ast.BinaryExpr); ok && b.Op == token.EQL && s.str(b.Y) == "nil" && strings.HasSuffix(s.str(b.X), ".quic") {
					g = true
				}
				if t.Init != nil {
					walk(t.Init, guarded)
				}
				walk(t.Body, g)
				if t.Else != nil {
					walk(t.Else, guarded)
				}
				return false
			case *ast.AssignStmt:
				for _, l := range t.Lhs {
					ls := s.str(l)
					if strings.HasSuffix(ls, ".SessionId") || strings.HasSuffix(ls, ".sessionId") {
						out = append(out, guarded)
					}
				}
			}
			return true
		})
	}
	walk(fd.Body, false)
	return out
}

func leanList(xs []string) string {
	if len(xs) == 0 {
		return "[]"
	}
	return "[" + strings.Join(xs, ", ") + "]"
}

func genQuicShape(dir string) error {
	src := utlsSourceDir()
	s, err := loadShapeSrc(src)
	if err != nil {
		// never break the other properties' tables: emit a skeleton that cannot satisfy the discipline
		s = &shapeSrc{fset: token.NewFileSet(), funcs: map[string]*ast.FuncDecl{}}
	}
	var missing []string
	need := func(key string) *ast.FuncDecl {
		fd := s.funcs[key]
		if fd == nil {
			missing = append(missing, key)
		}
		return fd
	}
	var b strings.Builder
	b.WriteString("import UtlsVerif.Quic\n/-! generated by harness/cmd/gen (go/ast) from the working tree's u_conn.go, u_quic.go, quic.go,\nu_handshake_client.go, handshake_client_tls13.go, handshake_client.go, u_parrots.go — do not edit. -/\nnamespace Gen.QuicShape\nopen Quic\n\n")

	prog := "(.act (.unsupported) .ret)"
	pg := &progGen{s: s}
	if hc := need("UConn.handshakeContext"); hc != nil {
		prog = pg.seq(hc.Body.List, senv{}, func(senv) string { return ".ret" })
	}
	var conds []string
	for i, u := range pg.unknown {
		fmt.Fprintf(&b, "-- condition (.other %d): %s\n", i, u)
		if len(u) > 80 {
			u = u[:80]
		}
		conds = append(conds, fmt.Sprintf("%q", strings.Map(func(r rune) rune {
			if r == ' ' || r == '=' || r == '"' || r == '\\' || r > 126 {
				return '_'
			}
			return r
		}, u)))
	}
	fmt.Fprintf(&b, "/-- source text of the conditions the extractor does not interpret -/\ndef unknownConds : List String := %s\n\n", leanList(conds))
	fmt.Fprintf(&b, "/-- (*UConn).handshakeContext -/\ndef hcProg : Prog :=\n  %s\n\n", prog)

	sg := &scriptGen{s: s, seen: map[string]int{}}
	if ch := need("UConn.clientHandshake"); ch != nil {
		sg.fn(ch, false, 0)
	}
	fmt.Fprintf(&b, "/-- (*UConn).clientHandshake → (*clientHandshakeStateTLS13).handshake -/\ndef clientBody : List BItem :=\n  %s\n\n", leanList(sg.items))

	for _, o := range []struct{ def, key string }{
		{"startOps", "UQUICConn.Start"}, {"handleDataOps", "UQUICConn.HandleData"}, {"closeOps", "UQUICConn.Close"},
		{"setTPOps", "UQUICConn.SetTransportParameters"}, {"nextEventOps", "UQUICConn.NextEvent"}, {"waitOps", "Conn.quicWaitForSignal"},
	} {
		var ops []string
		if fd := need(o.key); fd != nil {
			ops = s.ops(fd)
		} else {
			ops = []string{".spawnOther"} // differs from every expected sequence
		}
		fmt.Fprintf(&b, "/-- %s -/\ndef %s : List COp := %s\n\n", o.key, o.def, leanList(ops))
	}

	var guards []string
	for _, key := range []string{"UConn.ApplyPreset", "Conn.makeClientHelloForApplyPreset", "Conn.makeClientHello"} {
		if fd := need(key); fd != nil {
			for _, g := range s.sessionIdGuards(fd) {
				guards = append(guards, fmt.Sprint(g))
			}
		} else {
			guards = append(guards, "false")
		}
	}
	fmt.Fprintf(&b, "/-- assignments to the hello's legacy session id in ApplyPreset / makeClientHello (uTLS and upstream):\nis each inside `if c.quic == nil`? -/\ndef sessionIdGuards : List Bool := %s\n\n", leanList(guards))

	first := false
	if ccs := need("clientHandshakeStateTLS13.sendDummyChangeCipherSpec"); ccs != nil && len(ccs.Body.List) > 0 {
		if ifs, ok := ccs.Body.List[0].(*ast.IfStmt); ok && strings.HasSuffix(s.str(ifs.Cond), ".quic != nil") && len(ifs.Body.List) == 1 {
			if r, ok := ifs.Body.List[0].(*ast.ReturnStmt); ok && len(r.Results) == 1 && s.str(r.Results[0]) == "nil" {
				first = true
			}
		}
	}
	// every writeChangeCipherRecord call of the TLS 1.3 client goes through sendDummyChangeCipherSpec?
	direct := 0
	var keys []string
	for key := range s.funcs {
		keys = append(keys, key)
	}
	sort.Strings(keys)
	for _, key := range keys {
		if !strings.HasPrefix(key, "clientHandshakeStateTLS13.") || key == "clientHandshakeStateTLS13.sendDummyChangeCipherSpec" {
			continue
		}
		ast.Inspect(s.funcs[key].Body, func(x ast.Node) bool {
			if c, ok := x.(*ast.CallExpr); ok && strings.HasSuffix(s.str(c.Fun), ".writeChangeCipherRecord") {
				direct++
			}
			return true
		})
	}
	fmt.Fprintf(&b, "/-- sendDummyChangeCipherSpec starts with `if hs.c.quic != nil { return nil }` -/\ndef ccsQuicReturnsFirst : Bool := %v\n\n/-- writeChangeCipherRecord calls of the TLS 1.3 client outside sendDummyChangeCipherSpec -/\ndef ccsDirectWrites : Nat := %d\n\n", first, direct)
	// NextEvent hands a slot out by overwriting it with the zero QUICEvent{} (so a consumed slot can
	// never be coalesced into); quicWriteCryptoData coalesces only into the last slot, same kind+level.
	clears := false
	if ne := need("UQUICConn.NextEvent"); ne != nil {
		ast.Inspect(ne.Body, func(x ast.Node) bool {
			as, ok := x.(*ast.AssignStmt)
			if !ok || len(as.Lhs) != 1 || len(as.Rhs) != 1 {
				return true
			}
			ix, ok := as.Lhs[0].(*ast.IndexExpr)
			if !ok || !strings.HasSuffix(s.str(ix.X), ".events") || !strings.HasSuffix(s.str(ix.Index), ".nextEvent") {
				return true
			}
			if cl, ok := as.Rhs[0].(*ast.CompositeLit); ok && s.str(cl.Type) == "QUICEvent" && len(cl.Elts) == 0 {
				clears = true
			}
			return true
		})
	}
	coalesce := false
	if wc := need("Conn.quicWriteCryptoData"); wc != nil {
		ast.Inspect(wc.Body, func(x ast.Node) bool {
			if ifs, ok := x.(*ast.IfStmt); ok && s.str(ifs.Cond) == "last == nil || last.Kind != QUICWriteData || last.Level != level" {
				coalesce = true
			}
			return true
		})
	}
	fmt.Fprintf(&b, "/-- UQUICConn.NextEvent overwrites the slot it returns with `QUICEvent{}` -/\ndef nextEventClearsSlot : Bool := %v\n\n/-- quicWriteCryptoData appends a new event unless the last slot is WriteData of the same level -/\ndef writeCoalescesLastSameLevel : Bool := %v\n\n", clears, coalesce)
	for _, m := range missing {
		fmt.Fprintf(&b, "-- MISSING in %s: %s\n", src, m)
	}
	b.WriteString("end Gen.QuicShape\n")
	return writeFile(dir, "QuicShape.lean", b.String())
}
