// gen — translator: regenerates lean/UtlsVerif/Gen/*.lean from /repo's working tree by
// running its own code (tables, constants), literals only.
package main

import (
	"fmt"
	"os"
	"path/filepath"
)

type genFn func(dir string) error

var generators []genFn

func main() {
	if len(os.Args) != 2 {
		fmt.Fprintln(os.Stderr, "usage: gen <outdir>")
		os.Exit(2)
	}
	dir := os.Args[1]
	for _, g := range generators {
		if err := g(dir); err != nil {
			fmt.Fprintln(os.Stderr, "gen:", err)
			os.Exit(1)
		}
	}
}

func writeFile(dir, name, content string) error {
	return os.WriteFile(filepath.Join(dir, name), []byte(content), 0o644)
}
