module verif/harness

go 1.24

require (
	github.com/andybalholm/brotli v1.0.6
	github.com/klauspost/compress v1.17.4
	github.com/refraction-networking/utls v0.0.0
)

require (
	golang.org/x/crypto v0.36.0 // indirect
	golang.org/x/sys v0.31.0 // indirect
)

replace github.com/refraction-networking/utls => /repo
