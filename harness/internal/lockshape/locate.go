package lockshape

import (
	"os"
	"path/filepath"
	"reflect"
	"runtime"

	tls "github.com/refraction-networking/utls"
)

// SourceFile returns the path of u_conn.go the linked utls package was compiled from (the file
// of tls.UClient), falling back to $VERIF_REPO/u_conn.go (default /repo/u_conn.go).
func SourceFile() string {
	pc := reflect.ValueOf(tls.UClient).Pointer()
	if f := runtime.FuncForPC(pc); f != nil {
		file, _ := f.FileLine(pc)
		if filepath.Base(file) == "u_conn.go" {
			if _, err := os.Stat(file); err == nil {
				return file
			}
		}
	}
	repo := os.Getenv("VERIF_REPO")
	if repo == "" {
		repo = "/repo"
	}
	return filepath.Join(repo, "u_conn.go")
}
