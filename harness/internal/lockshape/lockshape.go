// Package lockshape extracts the lock / defer / return / interrupter skeleton of
// (*UConn).handshakeContext from the working tree's source (go/parser + go/ast only).
//
// The skeleton is the ordered list of the statements of the function body that matter for the
// concurrency discipline (C26): fast-path / completion checks, deferred cancel, interrupter
// set-up (deferred join + goroutine), Lock / Unlock / defer Unlock of handshakeMutex and c.in,
// reads and writes of handshakeErr, stores to isHandshakeComplete, BuildHandshakeState, the
// handshake body (c.handshakeErr = c.handshakeFn(..)), and the return sites.
// Statements that touch none of these are skipped; a statement that touches them in a way that
// is not recognised is an error (the generator must fail loudly, not guess).
//
// Assumption recorded in the skeleton: c.quic == nil (QUIC connections are driven through
// UQUICConn, property C23); `if c.quic != nil {..}` blocks only contribute their accesses to
// handshakeErr (as touchErr) and may not contain returns or hs/in lock operations.
package lockshape

import (
	"fmt"
	"go/ast"
	"go/parser"
	"go/token"
	"strings"
)

// Stmt is one skeleton statement: Kind is the Lean constructor name (with ":hs" / ":in" for lock
// statements), Line the source line.
type Stmt struct {
	Kind string
	Line int
}

type extractor struct {
	fset *token.FileSet
	recv string // receiver identifier
	out  []Stmt
}

// Extract parses file and returns the skeleton of method (*recvType).fn.
func Extract(file, recvType, fn string) ([]Stmt, error) {
	fset := token.NewFileSet()
	f, err := parser.ParseFile(fset, file, nil, 0)
	if err != nil {
		return nil, err
	}
	for _, d := range f.Decls {
		fd, ok := d.(*ast.FuncDecl)
		if !ok || fd.Name.Name != fn || fd.Recv == nil || len(fd.Recv.List) != 1 || fd.Body == nil {
			continue
		}
		st, ok := fd.Recv.List[0].Type.(*ast.StarExpr)
		if !ok {
			continue
		}
		id, ok := st.X.(*ast.Ident)
		if !ok || id.Name != recvType || len(fd.Recv.List[0].Names) != 1 {
			continue
		}
		e := &extractor{fset: fset, recv: fd.Recv.List[0].Names[0].Name}
		if err := e.block(fd.Body.List); err != nil {
			return nil, err
		}
		if err := sanity(e.out); err != nil {
			return nil, err
		}
		return e.out, nil
	}
	return nil, fmt.Errorf("lockshape: method (*%s).%s not found in %s", recvType, fn, file)
}

// sanity: the function must still have the recognisable overall shape: exactly one handshake
// body, at least one lock of handshakeMutex, and a final unconditional return.
func sanity(ss []Stmt) error {
	n := map[string]int{}
	for _, s := range ss {
		n[s.Kind]++
	}
	if n["body"] != 1 {
		return fmt.Errorf("lockshape: expected exactly one `c.handshakeErr = c.handshakeFn(..)` statement, found %d", n["body"])
	}
	if n["lock:hs"] == 0 {
		return fmt.Errorf("lockshape: no handshakeMutex.Lock() found")
	}
	if len(ss) == 0 || (ss[len(ss)-1].Kind != "retErr" && ss[len(ss)-1].Kind != "retUnk") {
		return fmt.Errorf("lockshape: function does not end in a return statement")
	}
	return nil
}

func (e *extractor) emit(kind string, n ast.Node) {
	e.out = append(e.out, Stmt{kind, e.fset.Position(n.Pos()).Line})
}

func (e *extractor) errf(n ast.Node, format string, a ...any) error {
	return fmt.Errorf("lockshape: line %d: unrecognised shape: %s", e.fset.Position(n.Pos()).Line, fmt.Sprintf(format, a...))
}

// recvField reports whether x is `<recv>.<name>`.
func (e *extractor) recvField(x ast.Expr, name string) bool {
	s, ok := x.(*ast.SelectorExpr)
	if !ok || s.Sel.Name != name {
		return false
	}
	id, ok := s.X.(*ast.Ident)
	return ok && id.Name == e.recv
}

// mutexOf maps `<recv>.handshakeMutex` / `<recv>.in` to "hs" / "in".
func (e *extractor) mutexOf(x ast.Expr) string {
	switch {
	case e.recvField(x, "handshakeMutex"):
		return "hs"
	case e.recvField(x, "in"):
		return "in"
	}
	return ""
}

// lockCall recognises `<recv>.<mutex>.Lock()` / `.Unlock()`; returns (op, mutex).
func (e *extractor) lockCall(x ast.Expr) (string, string) {
	c, ok := x.(*ast.CallExpr)
	if !ok || len(c.Args) != 0 {
		return "", ""
	}
	s, ok := c.Fun.(*ast.SelectorExpr)
	if !ok || (s.Sel.Name != "Lock" && s.Sel.Name != "Unlock") {
		return "", ""
	}
	if m := e.mutexOf(s.X); m != "" {
		return s.Sel.Name, m
	}
	return "", ""
}

// completeCall recognises `<recv>.isHandshakeComplete.<method>(..)`.
func (e *extractor) completeCall(x ast.Expr, method string) bool {
	c, ok := x.(*ast.CallExpr)
	if !ok {
		return false
	}
	s, ok := c.Fun.(*ast.SelectorExpr)
	return ok && s.Sel.Name == method && e.recvField(s.X, "isHandshakeComplete")
}

func isIdent(x ast.Expr, name string) bool {
	id, ok := x.(*ast.Ident)
	return ok && id.Name == name
}

func isCallTo(x ast.Expr, name string) (*ast.CallExpr, bool) {
	c, ok := x.(*ast.CallExpr)
	if !ok {
		return nil, false
	}
	return c, isIdent(c.Fun, name)
}

// events found anywhere below a node
type events struct {
	errAccess, lockOp, store, load, ret, build, bodyCall, goStmt, deferStmt bool
}

func (ev events) any() bool {
	return ev.errAccess || ev.lockOp || ev.store || ev.ret || ev.build || ev.bodyCall || ev.goStmt || ev.deferStmt
}

func (e *extractor) scan(n ast.Node) events {
	var ev events
	ast.Inspect(n, func(x ast.Node) bool {
		switch v := x.(type) {
		case *ast.FuncLit:
			// returns inside closures are not returns of the function; still scan for accesses
			sub := e.scan(v.Body)
			sub.ret = false
			ev.errAccess = ev.errAccess || sub.errAccess
			ev.lockOp = ev.lockOp || sub.lockOp
			ev.store = ev.store || sub.store
			ev.build = ev.build || sub.build
			ev.bodyCall = ev.bodyCall || sub.bodyCall
			return false
		case *ast.ReturnStmt:
			ev.ret = true
		case *ast.GoStmt:
			ev.goStmt = true
		case *ast.DeferStmt:
			ev.deferStmt = true
		case *ast.SelectorExpr:
			if e.recvField(v, "handshakeErr") {
				ev.errAccess = true
			}
			if e.recvField(v, "handshakeFn") {
				ev.bodyCall = true
			}
			if e.recvField(v, "BuildHandshakeState") || e.recvField(v, "buildHandshakeState") || e.recvField(v, "BuildHandshakeStateWithoutSession") {
				ev.build = true
			}
		case *ast.CallExpr:
			if op, _ := e.lockCall(v); op != "" {
				ev.lockOp = true
			}
			if e.completeCall(v, "Store") || e.completeCall(v, "Swap") || e.completeCall(v, "CompareAndSwap") {
				ev.store = true
			}
			if e.completeCall(v, "Load") {
				ev.load = true
			}
		}
		return true
	})
	return ev
}

func (e *extractor) block(list []ast.Stmt) error {
	for _, s := range list {
		if err := e.stmt(s); err != nil {
			return err
		}
	}
	return nil
}

func isNilReturn(s ast.Stmt) bool {
	r, ok := s.(*ast.ReturnStmt)
	return ok && len(r.Results) == 1 && isIdent(r.Results[0], "nil")
}

func (e *extractor) stmt(s ast.Stmt) error {
	switch v := s.(type) {
	case *ast.ExprStmt:
		if op, m := e.lockCall(v.X); op != "" {
			e.emit(strings.ToLower(op)+":"+m, v)
			return nil
		}
		if e.completeCall(v.X, "Store") {
			e.emit("setDone", v)
			return nil
		}
	case *ast.DeferStmt:
		if op, m := e.lockCall(v.Call); op == "Unlock" {
			e.emit("deferUnlock:"+m, v)
			return nil
		} else if op == "Lock" {
			return e.errf(v, "deferred Lock")
		}
		if isIdent(v.Call.Fun, "cancel") && len(v.Call.Args) == 0 {
			e.emit("deferCancel", v)
			return nil
		}
		if fl, ok := v.Call.Fun.(*ast.FuncLit); ok {
			return e.deferredFunc(v, fl)
		}
		if _, ok := isCallTo(v.Call, "close"); ok {
			e.emit("deferSignal", v) // `defer close(done)`: signals the interrupter without joining it
			return nil
		}
		if ev := e.scan(v.Call); ev.any() {
			return e.errf(v, "deferred call touches locks or the shared handshake result")
		}
		return nil
	case *ast.GoStmt:
		if fl, ok := v.Call.Fun.(*ast.FuncLit); ok && e.isInterrupter(fl) {
			e.emit("spawnIntr", v)
			return nil
		}
		return e.errf(v, "go statement that is not the interrupter")
	case *ast.AssignStmt:
		if len(v.Lhs) == 1 && len(v.Rhs) == 1 && e.recvField(v.Lhs[0], "handshakeErr") {
			if c, ok := v.Rhs[0].(*ast.CallExpr); ok && e.recvField(c.Fun, "handshakeFn") {
				e.emit("body", v)
				return nil
			}
		}
	case *ast.ReturnStmt:
		if len(v.Results) == 1 && e.recvField(v.Results[0], "handshakeErr") {
			e.emit("retErr", v)
		} else {
			e.emit("retUnk", v)
		}
		return nil
	case *ast.IfStmt:
		return e.ifStmt(v)
	}
	// anything else: skipped when it touches nothing relevant, otherwise classified conservatively
	ev := e.scan(s)
	switch {
	case !ev.any():
		return nil
	case ev.lockOp || ev.bodyCall || ev.build || ev.goStmt || ev.deferStmt:
		return e.errf(s, "lock operation, handshake body, BuildHandshakeState, go or defer inside a compound statement")
	}
	if ev.store {
		e.emit("setDone", s)
	}
	if ev.errAccess {
		e.emit("touchErr", s)
	}
	if ev.ret {
		e.emit("retUnk", s)
	}
	return nil
}

func (e *extractor) ifStmt(v *ast.IfStmt) error {
	// if c.isHandshakeComplete.Load() { return nil }
	if v.Init == nil && v.Else == nil && e.completeCall(v.Cond, "Load") && len(v.Body.List) == 1 && isNilReturn(v.Body.List[0]) {
		e.emit("checkDone", v)
		return nil
	}
	// if err := c.handshakeErr; err != nil { return err }
	if a, ok := v.Init.(*ast.AssignStmt); ok && v.Else == nil && len(a.Lhs) == 1 && len(a.Rhs) == 1 && e.recvField(a.Rhs[0], "handshakeErr") {
		if id, ok := a.Lhs[0].(*ast.Ident); ok {
			if b, ok := v.Cond.(*ast.BinaryExpr); ok && b.Op == token.NEQ && isIdent(b.X, id.Name) && isIdent(b.Y, "nil") && len(v.Body.List) == 1 {
				if r, ok := v.Body.List[0].(*ast.ReturnStmt); ok && len(r.Results) == 1 && isIdent(r.Results[0], id.Name) {
					e.emit("checkErr", v)
					return nil
				}
			}
		}
	}
	// if c.quic != nil { .. } [else if ctx.Done() != nil { interrupter set-up }]
	if b, ok := v.Cond.(*ast.BinaryExpr); ok && v.Init == nil && b.Op == token.NEQ && e.recvField(b.X, "quic") && isIdent(b.Y, "nil") {
		ev := e.scan(v.Body)
		if ev.ret || ev.lockOp || ev.store || ev.build || ev.bodyCall || ev.goStmt || ev.deferStmt {
			return e.errf(v, "QUIC-only block contains a return, a handshakeMutex/in lock operation, a completion store, a go or a defer")
		}
		if ev.errAccess {
			e.emit("touchErr", v)
		}
		switch el := v.Else.(type) {
		case nil:
			return nil
		case *ast.IfStmt:
			if el.Init != nil || el.Else != nil || !isCtxDoneCond(el.Cond) {
				return e.errf(el, "else branch of the QUIC test is not `else if ctx.Done() != nil { .. }`")
			}
			return e.block(el.Body.List)
		default:
			return e.errf(v, "else branch of the QUIC test")
		}
	}
	// if ctx.Done() != nil { interrupter set-up }   (upstream shape without the QUIC branch)
	if v.Init == nil && v.Else == nil && isCtxDoneCond(v.Cond) {
		return e.block(v.Body.List)
	}
	// if c.isClient { err := c.BuildHandshakeState(); if err != nil { return err } }
	ev := e.scan(v)
	if ev.build {
		if ev.lockOp || ev.bodyCall || ev.store || ev.goStmt || ev.deferStmt {
			return e.errf(v, "BuildHandshakeState block touches more than the build")
		}
		if ev.errAccess {
			// the QUIC-only error path (`if c.quic != nil { c.handshakeErr = ..; close(..) }`, the D15
			// repair) records the error before returning: an access of handshakeErr on the build path.
			// The model assumes c.quic == nil; the access itself is still subject to the discipline.
			if !e.errAccessOnlyUnderQuic(v) {
				return e.errf(v, "BuildHandshakeState block touches handshakeErr outside a QUIC-only block")
			}
			// With c.quic == nil (the model's assumption) the block is a no-op, so no statement is
			// emitted; that the access happens under handshakeMutex is checked here instead: the
			// mutex must have been locked (with a deferred unlock) earlier in the function.
			var locked, deferred bool
			for _, st := range e.out {
				if st.Kind == "lock:hs" {
					locked = true
				}
				if st.Kind == "deferUnlock:hs" {
					deferred = true
				}
			}
			if !locked || !deferred {
				return e.errf(v, "QUIC-only handshakeErr store on the build path is not under handshakeMutex")
			}
		}
		if !ev.ret {
			return e.errf(v, "BuildHandshakeState error is not returned")
		}
		e.emit("build", v)
		return nil
	}
	if ev.lockOp || ev.bodyCall || ev.goStmt || ev.deferStmt {
		return e.errf(v, "conditional lock operation, handshake body, go or defer")
	}
	if ev.store {
		e.emit("setDone", v)
	}
	if ev.errAccess {
		e.emit("touchErr", v)
	}
	if ev.ret {
		e.emit("retUnk", v)
	}
	return nil
}

// errAccessOnlyUnderQuic reports whether every access of handshakeErr below n sits inside an
// `if c.quic != nil { .. }` block.
func (e *extractor) errAccessOnlyUnderQuic(n ast.Node) bool {
	ok := true
	ast.Inspect(n, func(x ast.Node) bool {
		switch v := x.(type) {
		case *ast.IfStmt:
			if b, isBin := v.Cond.(*ast.BinaryExpr); isBin && v.Init == nil && b.Op == token.NEQ && e.recvField(b.X, "quic") && isIdent(b.Y, "nil") {
				if v.Else != nil {
					ast.Inspect(v.Else, func(y ast.Node) bool {
						if sel, isSel := y.(*ast.SelectorExpr); isSel && e.recvField(sel, "handshakeErr") {
							ok = false
						}
						return true
					})
				}
				return false
			}
		case *ast.SelectorExpr:
			if e.recvField(v, "handshakeErr") {
				ok = false
			}
		}
		return true
	})
	return ok
}

// isCtxDoneCond recognises `<x>.Done() != nil`.
func isCtxDoneCond(x ast.Expr) bool {
	b, ok := x.(*ast.BinaryExpr)
	if !ok || b.Op != token.NEQ || !isIdent(b.Y, "nil") {
		return false
	}
	c, ok := b.X.(*ast.CallExpr)
	if !ok || len(c.Args) != 0 {
		return false
	}
	s, ok := c.Fun.(*ast.SelectorExpr)
	return ok && s.Sel.Name == "Done"
}

// deferredFunc classifies `defer func() { close(done); if e := <-interruptRes; e != nil { ret = e } }()`.
func (e *extractor) deferredFunc(d *ast.DeferStmt, fl *ast.FuncLit) error {
	var closes, recvs bool
	ast.Inspect(fl.Body, func(x ast.Node) bool {
		switch v := x.(type) {
		case *ast.CallExpr:
			if c, ok := isCallTo(v, "close"); ok && len(c.Args) == 1 {
				closes = true
			}
		case *ast.UnaryExpr:
			if v.Op == token.ARROW {
				recvs = true
			}
		}
		return true
	})
	ev := e.scan(fl.Body)
	if ev.lockOp || ev.errAccess || ev.store || ev.bodyCall || ev.build {
		return e.errf(d, "deferred closure touches locks or the shared handshake result")
	}
	switch {
	case closes && recvs:
		e.emit("deferJoin", d)
	case closes:
		e.emit("deferSignal", d)
	case recvs:
		return e.errf(d, "deferred closure waits for the interrupter without signalling it")
	default:
		// a deferred closure that touches nothing relevant
	}
	return nil
}

// isInterrupter recognises
//
//	go func() { select { case <-hctx.Done(): _ = c.conn.Close(); res <- hctx.Err(); case <-done: res <- nil } }()
func (e *extractor) isInterrupter(fl *ast.FuncLit) bool {
	if len(fl.Body.List) != 1 {
		return false
	}
	sel, ok := fl.Body.List[0].(*ast.SelectStmt)
	if !ok || len(sel.Body.List) != 2 {
		return false
	}
	var closeBranch, quitBranch bool
	for _, cc := range sel.Body.List {
		c, ok := cc.(*ast.CommClause)
		if !ok || c.Comm == nil {
			return false
		}
		es, ok := c.Comm.(*ast.ExprStmt)
		if !ok {
			return false
		}
		u, ok := es.X.(*ast.UnaryExpr)
		if !ok || u.Op != token.ARROW {
			return false
		}
		var closesConn, sends bool
		for _, b := range c.Body {
			ast.Inspect(b, func(x ast.Node) bool {
				switch v := x.(type) {
				case *ast.SendStmt:
					sends = true
				case *ast.CallExpr:
					if s, ok := v.Fun.(*ast.SelectorExpr); ok && s.Sel.Name == "Close" && e.recvField(s.X, "conn") {
						closesConn = true
					}
				}
				return true
			})
		}
		if !sends {
			return false
		}
		if call, ok := u.X.(*ast.CallExpr); ok {
			if s, ok := call.Fun.(*ast.SelectorExpr); ok && s.Sel.Name == "Done" && closesConn {
				closeBranch = true
				continue
			}
			return false
		}
		if closesConn {
			return false
		}
		quitBranch = true
	}
	return closeBranch && quitBranch
}

// Tokens renders the skeleton for the line protocol: kind@line, comma separated.
func Tokens(ss []Stmt) string {
	xs := make([]string, len(ss))
	for i, s := range ss {
		xs[i] = fmt.Sprintf("%s@%d", s.Kind, s.Line)
	}
	return strings.Join(xs, ",")
}

// Lean renders one skeleton statement as a Lean term of type HsLock.Stmt.
func (s Stmt) Lean() string {
	if i := strings.IndexByte(s.Kind, ':'); i >= 0 {
		m := map[string]string{"hs": ".hs", "in": ".inn"}[s.Kind[i+1:]]
		return fmt.Sprintf("(.%s %s)", s.Kind[:i], m)
	}
	return "." + s.Kind
}
