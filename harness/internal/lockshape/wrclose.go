package lockshape

// Skeletons of the activeCall interlock: (*UConn).Write and Close (the *UConn method if there is
// one, else the promoted (*Conn).Close).  Calls to methods of the connection that touch
// activeCall are inlined; deferred calls of such a helper run when the helper returns, so a
// `defer c.activeCall.Add(-2)` inside a helper becomes an immediate `dec` after the helper's body.

import (
	"fmt"
	"go/ast"
	"go/parser"
	"go/token"
	"os"
	"path/filepath"
	"strings"
)

type pkgIndex struct {
	fset    *token.FileSet
	methods map[string]*ast.FuncDecl // "UConn.Write"
	recvOf  map[*ast.FuncDecl]string // receiver identifier
}

func loadPkg(dir string) (*pkgIndex, error) {
	fset := token.NewFileSet()
	ents, err := os.ReadDir(dir)
	if err != nil {
		return nil, err
	}
	ix := &pkgIndex{fset: fset, methods: map[string]*ast.FuncDecl{}, recvOf: map[*ast.FuncDecl]string{}}
	for _, e := range ents {
		n := e.Name()
		if e.IsDir() || !strings.HasSuffix(n, ".go") || strings.HasSuffix(n, "_test.go") {
			continue
		}
		f, err := parser.ParseFile(fset, filepath.Join(dir, n), nil, 0)
		if err != nil {
			return nil, err
		}
		for _, d := range f.Decls {
			fd, ok := d.(*ast.FuncDecl)
			if !ok || fd.Recv == nil || len(fd.Recv.List) != 1 || fd.Body == nil {
				continue
			}
			st, ok := fd.Recv.List[0].Type.(*ast.StarExpr)
			if !ok {
				continue
			}
			id, ok := st.X.(*ast.Ident)
			if !ok {
				continue
			}
			ix.methods[id.Name+"."+fd.Name.Name] = fd
			if len(fd.Recv.List[0].Names) == 1 {
				ix.recvOf[fd] = fd.Recv.List[0].Names[0].Name
			}
		}
	}
	return ix, nil
}

// lookup finds method name on *UConn, else on the embedded *Conn.
func (ix *pkgIndex) lookup(name string) *ast.FuncDecl {
	if fd := ix.methods["UConn."+name]; fd != nil {
		return fd
	}
	return ix.methods["Conn."+name]
}

type wcx struct {
	ix    *pkgIndex
	out   []Stmt
	depth int
}

func (x *wcx) line(n ast.Node) int { return x.ix.fset.Position(n.Pos()).Line }
func (x *wcx) emit(kind string, n ast.Node) {
	x.out = append(x.out, Stmt{kind, x.line(n)})
}
func (x *wcx) errf(n ast.Node, format string, a ...any) error {
	return fmt.Errorf("lockshape: %s: unrecognised shape: %s", x.ix.fset.Position(n.Pos()), fmt.Sprintf(format, a...))
}

// sel reports whether e is `<recv>.<f1>.<f2>...` for the given field path.
func selPath(e ast.Expr, recv string, path ...string) bool {
	for i := len(path) - 1; i >= 0; i-- {
		s, ok := e.(*ast.SelectorExpr)
		if !ok || s.Sel.Name != path[i] {
			return false
		}
		e = s.X
	}
	return isIdent(e, recv)
}

// callOn recognises `<recv>.<path...>(args)`; returns the call.
func callOn(e ast.Expr, recv string, path ...string) (*ast.CallExpr, bool) {
	c, ok := e.(*ast.CallExpr)
	if !ok {
		return nil, false
	}
	return c, selPath(c.Fun, recv, path...)
}

type acFacts struct {
	cas2, cas1, closedTest, add2, touches, ret, writeRec, closeNotify, rawClose bool
}

func scanAC(n ast.Node, recv string) acFacts {
	var f acFacts
	ast.Inspect(n, func(x ast.Node) bool {
		switch v := x.(type) {
		case *ast.ReturnStmt:
			f.ret = true
		case *ast.SelectorExpr:
			if selPath(v, recv, "activeCall") {
				f.touches = true
			}
		case *ast.BinaryExpr:
			// x&1 != 0
			if v.Op == token.NEQ {
				if b, ok := v.X.(*ast.BinaryExpr); ok && b.Op == token.AND {
					if l, ok := b.Y.(*ast.BasicLit); ok && l.Value == "1" {
						f.closedTest = true
					}
				}
			}
		case *ast.CallExpr:
			if c, ok := callOn(v, recv, "activeCall", "CompareAndSwap"); ok && len(c.Args) == 2 {
				if b, ok := c.Args[1].(*ast.BinaryExpr); ok {
					if l, ok := b.Y.(*ast.BasicLit); ok {
						if b.Op == token.ADD && l.Value == "2" {
							f.cas2 = true
						}
						if b.Op == token.OR && l.Value == "1" {
							f.cas1 = true
						}
					}
				}
			}
			if c, ok := callOn(v, recv, "activeCall", "Add"); ok && len(c.Args) == 1 {
				if u, ok := c.Args[0].(*ast.UnaryExpr); ok && u.Op == token.SUB {
					if l, ok := u.X.(*ast.BasicLit); ok && l.Value == "2" {
						f.add2 = true
					}
				}
			}
			if _, ok := callOn(v, recv, "writeRecordLocked"); ok {
				f.writeRec = true
			}
			if _, ok := callOn(v, recv, "closeNotify"); ok {
				f.closeNotify = true
			}
			if _, ok := callOn(v, recv, "conn", "Close"); ok {
				f.rawClose = true
			}
		}
		return true
	})
	return f
}

// helperCalls returns the methods of the connection called anywhere below n (outside closures).
func (x *wcx) helperCalls(n ast.Node, recv string) []*ast.CallExpr {
	var cs []*ast.CallExpr
	ast.Inspect(n, func(y ast.Node) bool {
		if _, ok := y.(*ast.FuncLit); ok {
			return false
		}
		if c, ok := y.(*ast.CallExpr); ok {
			if s, ok := c.Fun.(*ast.SelectorExpr); ok && isIdent(s.X, recv) {
				cs = append(cs, c)
			}
		}
		return true
	})
	return cs
}

// inline emits the skeleton of a helper that touches activeCall, running its deferred calls at its end.
func (x *wcx) inlineHelpers(n ast.Node, recv string) (bool, error) {
	did := false
	for _, c := range x.helperCalls(n, recv) {
		name := c.Fun.(*ast.SelectorExpr).Sel.Name
		fd := x.ix.lookup(name)
		if fd == nil {
			continue
		}
		hrecv := x.ix.recvOf[fd]
		if !scanAC(fd.Body, hrecv).touches {
			continue
		}
		if x.depth >= 3 {
			return false, x.errf(c, "helper nesting too deep")
		}
		sub := &wcx{ix: x.ix, depth: x.depth + 1}
		if err := sub.writeBlock(fd.Body.List, hrecv); err != nil {
			return false, err
		}
		var deferred []Stmt
		for _, s := range sub.out {
			switch s.Kind {
			case "deferDec":
				deferred = append([]Stmt{{"dec", s.Line}}, deferred...)
			case "deferUnlockOut":
				deferred = append([]Stmt{{"unlockOut", s.Line}}, deferred...)
			case "ret", "condRet":
				// the helper's returns end the helper, not the caller
			default:
				x.out = append(x.out, s)
			}
		}
		x.out = append(x.out, deferred...)
		did = true
	}
	return did, nil
}

func (x *wcx) writeBlock(list []ast.Stmt, recv string) error {
	for _, s := range list {
		if err := x.writeStmt(s, recv); err != nil {
			return err
		}
	}
	return nil
}

func (x *wcx) writeStmt(s ast.Stmt, recv string) error {
	f := scanAC(s, recv)
	switch v := s.(type) {
	case *ast.ForStmt:
		if f.cas2 {
			if !f.closedTest {
				return x.errf(v, "activeCall registration loop without the closed-bit test")
			}
			x.emit("reg", v)
			if f.add2 {
				// `defer c.activeCall.Add(-2)` inside the loop: function-scoped
				deferred := false
				ast.Inspect(v, func(y ast.Node) bool {
					if d, ok := y.(*ast.DeferStmt); ok && scanAC(d, recv).add2 {
						deferred = true
					}
					return true
				})
				if deferred {
					x.emit("deferDec", v)
				} else {
					return x.errf(v, "decrement inside the registration loop is not deferred")
				}
			}
			return nil
		}
	case *ast.DeferStmt:
		if f.add2 {
			x.emit("deferDec", v)
			return nil
		}
		if c, ok := callOn(v.Call, recv, "out", "Unlock"); ok && len(c.Args) == 0 {
			x.emit("deferUnlockOut", v)
			return nil
		}
	case *ast.ExprStmt:
		if _, ok := callOn(v.X, recv, "out", "Lock"); ok {
			x.emit("lockOut", v)
			return nil
		}
		if _, ok := callOn(v.X, recv, "out", "Unlock"); ok {
			x.emit("unlockOut", v)
			return nil
		}
		if f.add2 {
			x.emit("dec", v)
			return nil
		}
	case *ast.ReturnStmt:
		if f.writeRec {
			x.emit("write", v)
		}
		x.emit("ret", v)
		return nil
	}
	if f.touches {
		return x.errf(s, "statement touches activeCall in an unrecognised way")
	}
	// calls: Handshake, helpers that touch activeCall
	for _, c := range x.helperCalls(s, recv) {
		if n := c.Fun.(*ast.SelectorExpr).Sel.Name; n == "Handshake" || n == "HandshakeContext" {
			x.emit("handshake", c)
		}
	}
	if _, err := x.inlineHelpers(s, recv); err != nil {
		return err
	}
	if f.writeRec {
		x.emit("write", s)
	}
	if f.ret {
		x.emit("condRet", s)
	}
	return nil
}

// ExtractWrite returns the skeleton of (*UConn).Write (dir = the utls source directory).
func ExtractWrite(dir string) ([]Stmt, error) {
	ix, err := loadPkg(dir)
	if err != nil {
		return nil, err
	}
	fd := ix.methods["UConn.Write"]
	if fd == nil {
		return nil, fmt.Errorf("lockshape: (*UConn).Write not found in %s", dir)
	}
	x := &wcx{ix: ix}
	if err := x.writeBlock(fd.Body.List, ix.recvOf[fd]); err != nil {
		return nil, err
	}
	n := map[string]int{}
	for _, s := range x.out {
		n[s.Kind]++
	}
	if n["reg"] != 1 || n["write"] == 0 || n["lockOut"] == 0 || len(x.out) == 0 || x.out[len(x.out)-1].Kind != "ret" {
		return nil, fmt.Errorf("lockshape: (*UConn).Write no longer has a recognisable shape (reg=%d write=%d lockOut=%d): %s", n["reg"], n["write"], n["lockOut"], Tokens(x.out))
	}
	return x.out, nil
}

// ExtractClose returns the skeleton of Close as called on a *UConn.
func ExtractClose(dir string) ([]Stmt, error) {
	ix, err := loadPkg(dir)
	if err != nil {
		return nil, err
	}
	fd := ix.lookup("Close")
	if fd == nil {
		return nil, fmt.Errorf("lockshape: Close not found in %s", dir)
	}
	recv := ix.recvOf[fd]
	x := &wcx{ix: ix}
	for _, s := range fd.Body.List {
		f := scanAC(s, recv)
		switch v := s.(type) {
		case *ast.ForStmt:
			if f.cas1 {
				if !f.closedTest {
					return nil, x.errf(v, "closed-bit loop without the already-closed test")
				}
				x.emit("cas", v)
				continue
			}
		case *ast.IfStmt:
			// if x != 0 { return c.conn.Close() }
			if b, ok := v.Cond.(*ast.BinaryExpr); ok && v.Init == nil && v.Else == nil && b.Op == token.NEQ {
				if l, ok := b.Y.(*ast.BasicLit); ok && l.Value == "0" && f.rawClose && f.ret && !f.closeNotify {
					x.emit("inflightRawClose", v)
					continue
				}
			}
		case *ast.ReturnStmt:
			if f.closeNotify {
				x.emit("closeNotify", v)
			}
			if f.rawClose {
				x.emit("rawClose", v)
			}
			x.emit("ret", v)
			continue
		}
		if f.touches {
			return nil, x.errf(s, "statement touches activeCall in an unrecognised way")
		}
		if f.closeNotify {
			x.emit("closeNotify", s)
		}
		if f.rawClose {
			x.emit("rawClose", s)
		}
	}
	if len(x.out) == 0 || x.out[len(x.out)-1].Kind != "ret" {
		return nil, fmt.Errorf("lockshape: Close no longer has a recognisable shape: %s", Tokens(x.out))
	}
	return x.out, nil
}

// LeanWC renders a Write/Close skeleton statement as a Lean constructor.
func (s Stmt) LeanWC() string { return "." + s.Kind }
