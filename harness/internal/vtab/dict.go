// Package vtab — table access shared by the translator (cmd/gen) and the correspondence
// harness (cmd/corr) for the table-backed properties C32 (dicttls) and C31 (public<->private
// field maps).  Everything here RUNS the working tree's code: the dictionaries are ranged over,
// the converters are called; nothing is matched syntactically.
package vtab

import (
	"fmt"
	"go/ast"
	"go/parser"
	"go/token"
	"math/big"
	"os"
	"path/filepath"
	"reflect"
	"sort"
	"strings"

	"github.com/refraction-networking/utls/dicttls"
)

// DictPair is one ValueIndexed/NameIndexed pair of package dicttls.
type DictPair struct {
	Name         string // e.g. "HandshakeType"
	ValueIndexed any    // map[uintN]string
	NameIndexed  any    // map[string]uintN ; nil when the package has no name-indexed companion
	// JSONList names the JSON list fields whose names the UnmarshalJSON code resolves through NameIndexed.
	JSONUse string
}

// DictPairs lists every Dict*ValueIndexed map of package dicttls with its companion.
// CheckDictSource (used by the generator) fails when the package declares a Dict* variable that is
// not listed here, so a new table cannot be silently left out.
var DictPairs = []DictPair{
	{"Alert", dicttls.DictAlertValueIndexed, dicttls.DictAlertNameIndexed, ""},
	{"AuthorizationDataFormat", dicttls.DictAuthorizationDataFormatValueIndexed, dicttls.DictAuthorizationDataFormatNameIndexed, ""},
	{"CachedInformationType", dicttls.DictCachedInformationTypeValueIndexed, dicttls.DictCachedInformationTypeNameIndexed, ""},
	{"CertificateCompressionAlgorithm", dicttls.DictCertificateCompressionAlgorithmValueIndexed, dicttls.DictCertificateCompressionAlgorithmNameIndexed, "compress_certificate.algorithms"},
	{"CertificateStatusType", dicttls.DictCertificateStatusTypeValueIndexed, dicttls.DictCertificateStatusTypeNameIndexed, ""},
	{"CertificateType", dicttls.DictCertificateTypeValueIndexed, dicttls.DictCertificateTypeNameIndexed, ""},
	{"CipherSuite", dicttls.DictCipherSuiteValueIndexed, dicttls.DictCipherSuiteNameIndexed, "cipher_suites"},
	{"ClientCertificateTypeIdentifier", dicttls.DictClientCertificateTypeIdentifierValueIndexed, dicttls.DictClientCertificateTypeIdentifierNameIndexed, ""},
	{"CompMeth", dicttls.DictCompMethValueIndexed, dicttls.DictCompMethNameIndexed, "compression_methods"},
	{"ContentType", dicttls.DictContentTypeValueIndexed, dicttls.DictContentTypeNameIndexed, ""},
	{"ECCurveType", dicttls.DictECCurveTypeValueIndexed, dicttls.DictECCurveTypeNameIndexed, ""},
	{"ECPointFormat", dicttls.DictECPointFormatValueIndexed, dicttls.DictECPointFormatNameIndexed, "ec_point_formats.ec_point_format_list"},
	{"ExtType", dicttls.DictExtTypeValueIndexed, dicttls.DictExtTypeNameIndexed, "extensions.name"},
	{"HandshakeType", dicttls.DictHandshakeTypeValueIndexed, dicttls.DictHandshakeTypeNameIndexed, ""},
	{"HashAlgorithm", dicttls.DictHashAlgorithmValueIndexed, dicttls.DictHashAlgorithmNameIndexed, ""},
	{"HeartbeatMessageType", dicttls.DictHeartbeatMessageTypeValueIndexed, dicttls.DictHeartbeatMessageTypeNameIndexed, ""},
	{"HeartbeatMode", dicttls.DictHeartbeatModeValueIndexed, dicttls.DictHeartbeatModeNameIndexed, ""},
	{"AEADIdentifier", dicttls.DictAEADIdentifierValueIndexed, nil, ""},
	{"KDFIdentifier", dicttls.DictKDFIdentifierValueIndexed, dicttls.DictKDFIdentifierNameIndexed, ""},
	{"KEMIdentifier", dicttls.DictKEMIdentifierValueIndexed, dicttls.DictKEMIdentifierNameIndexed, ""},
	{"PSKKeyExchangeMode", dicttls.DictPSKKeyExchangeModeValueIndexed, dicttls.DictPSKKeyExchangeModeNameIndexed, "psk_key_exchange_modes.ke_modes"},
	{"QUICFrameType", dicttls.DictQUICFrameTypeValueIndexed, dicttls.DictQUICFrameTypeNameIndexed, ""},
	{"QUICTransportErrorCode", dicttls.DictQUICTransportErrorCodeValueIndexed, dicttls.DictQUICTransportErrorCodeNameIndexed, ""},
	{"QUICTransportParameter", dicttls.DictQUICTransportParameterValueIndexed, dicttls.DictQUICTransportParameterNameIndexed, ""},
	{"SignatureAlgorithm", dicttls.DictSignatureAlgorithmValueIndexed, dicttls.DictSignatureAlgorithmNameIndexed, ""},
	{"SignatureScheme", dicttls.DictSignatureSchemeValueIndexed, dicttls.DictSignatureSchemeNameIndexed, "signature_algorithms.supported_signature_algorithms"},
	{"SupplementalDataFormat", dicttls.DictSupplementalDataFormatValueIndexed, dicttls.DictSupplementalDataFormatNameIndexed, ""},
	{"SupportedGroups", dicttls.DictSupportedGroupsValueIndexed, dicttls.DictSupportedGroupsNameIndexed, "supported_groups.named_group_list,key_share.client_shares.group"},
	{"UserMappingType", dicttls.DictUserMappingTypeValueIndexed, dicttls.DictUserMappingTypeNameIndexed, ""},
}

// DictByName returns the pair called name.
func DictByName(name string) *DictPair {
	for i := range DictPairs {
		if DictPairs[i].Name == name {
			return &DictPairs[i]
		}
	}
	return nil
}

// VRow is one row of a value-indexed table; NRow one row of a name-indexed table.
type VRow struct {
	Value uint64
	Name  string
}
type NRow struct {
	Name  string
	Value uint64
}

// ValueRows ranges over the value-indexed map (sorted by value).
func (p *DictPair) ValueRows() []VRow {
	var rows []VRow
	it := reflect.ValueOf(p.ValueIndexed).MapRange()
	for it.Next() {
		rows = append(rows, VRow{it.Key().Uint(), it.Value().String()})
	}
	sort.Slice(rows, func(i, j int) bool { return rows[i].Value < rows[j].Value })
	return rows
}

// ValueRowsByName is ValueRows sorted by (packed name, value): the order Gen/Dict.lean uses, so that
// the kernel can check consistency in one linear pass against NameRows (Dict.mergeOk).
func (p *DictPair) ValueRowsByName() []VRow {
	rows := p.ValueRows()
	sort.SliceStable(rows, func(i, j int) bool { return PackName(rows[i].Name).Cmp(PackName(rows[j].Name)) < 0 })
	return rows
}

// NameRows ranges over the name-indexed map (sorted by packed name, i.e. by length then bytes).
func (p *DictPair) NameRows() []NRow {
	if p.NameIndexed == nil {
		return nil
	}
	var rows []NRow
	it := reflect.ValueOf(p.NameIndexed).MapRange()
	for it.Next() {
		rows = append(rows, NRow{it.Key().String(), it.Value().Uint()})
	}
	sort.Slice(rows, func(i, j int) bool { return PackName(rows[i].Name).Cmp(PackName(rows[j].Name)) < 0 })
	return rows
}

// LookupName performs the real map lookup NameIndexed[name].
func (p *DictPair) LookupName(name string) (uint64, bool) {
	if p.NameIndexed == nil {
		return 0, false
	}
	v := reflect.ValueOf(p.NameIndexed).MapIndex(reflect.ValueOf(name))
	if !v.IsValid() {
		return 0, false
	}
	return v.Uint(), true
}

// LookupValue performs the real map lookup ValueIndexed[v].
func (p *DictPair) LookupValue(v uint64) (string, bool) {
	m := reflect.ValueOf(p.ValueIndexed)
	k := reflect.New(m.Type().Key()).Elem()
	k.SetUint(v)
	if k.Uint() != v {
		return "", false // does not fit the key type
	}
	r := m.MapIndex(k)
	if !r.IsValid() {
		return "", false
	}
	return r.String(), true
}

// Alias is a name-indexed row whose name is not the canonical (value-indexed) name of its value.
type Alias struct {
	Table string
	Name  string
	Value uint64
}

// ExpectedAliases is the hand-written expectation for alias names — the oracle for "intended code point"
// of names the value-indexed tables cannot vouch for.  Mirror of Lean `Dict.expectedAliases`; taken from
// the registries the dicttls sources cite, NOT from the maps.  Used by the harness only to SPELL code
// points by their alias in json_hello (alias=1); the comparison with the maps is done by the Lean side.
var ExpectedAliases = []Alias{
	// RFC 9345 / IANA ExtensionType 34: "delegated_credential" (dicttls keeps the older plural as canonical)
	{"ExtType", "delegated_credential", 34},
	// IANA TLS SignatureScheme 0x0202: "Reserved for backward compatibility" (dsa_sha1 of TLS 1.2)
	{"SignatureScheme", "Reserved for backward compatibility", 0x0202},
	// dicttls/authorization_data_formats.go ships "Unassigned": 0; the registry has no single code point
	// for it — pinned to what the code documents so that a change is noticed
	{"AuthorizationDataFormat", "Unassigned", 0},
}

// AliasSpelling returns the expected alias name of a code point, if the expectation table has one.
func AliasSpelling(table string, v uint64) (string, bool) {
	for _, a := range ExpectedAliases {
		if a.Table == table && a.Value == v {
			return a.Name, true
		}
	}
	return "", false
}

// AliasRows ranges over the real name-indexed map and returns the rows that are aliases.
func (p *DictPair) AliasRows() []Alias {
	var out []Alias
	for _, r := range p.NameRows() {
		if c, ok := p.LookupValue(r.Value); !ok || c != r.Name {
			out = append(out, Alias{p.Name, r.Name, r.Value})
		}
	}
	return out
}

// PackName packs the UTF-8 bytes of a name into a natural number: the base-256 digits of the
// bytes below a leading 1 (injective; Lean: Dict.packName).  Kernel evaluation over String
// literals is ~40x slower than over Nat literals, hence this representation in Gen/Dict.lean.
func PackName(s string) *big.Int {
	b := append([]byte{1}, []byte(s)...)
	return new(big.Int).SetBytes(b)
}

// CheckDictSource compares the Dict* variables declared in <repo>/dicttls/*.go with DictPairs.
func CheckDictSource(repo string) error {
	files, err := filepath.Glob(filepath.Join(repo, "dicttls", "*.go"))
	if err != nil || len(files) == 0 {
		return fmt.Errorf("no dicttls sources under %s", repo)
	}
	declared := map[string]bool{}
	fset := token.NewFileSet()
	for _, f := range files {
		if strings.HasSuffix(f, "_test.go") {
			continue
		}
		src, err := os.ReadFile(f)
		if err != nil {
			return err
		}
		af, err := parser.ParseFile(fset, f, src, 0)
		if err != nil {
			return err
		}
		for _, d := range af.Decls {
			gd, ok := d.(*ast.GenDecl)
			if !ok || gd.Tok != token.VAR {
				continue
			}
			for _, s := range gd.Specs {
				for _, n := range s.(*ast.ValueSpec).Names {
					if strings.HasPrefix(n.Name, "Dict") {
						declared[n.Name] = true
					}
				}
			}
		}
	}
	known := map[string]bool{}
	for _, p := range DictPairs {
		known["Dict"+p.Name+"ValueIndexed"] = true
		if p.NameIndexed != nil {
			known["Dict"+p.Name+"NameIndexed"] = true
		}
	}
	var missing []string
	for n := range declared {
		if !known[n] {
			missing = append(missing, n)
		}
	}
	for n := range known {
		if !declared[n] {
			missing = append(missing, "-"+n)
		}
	}
	sort.Strings(missing)
	if len(missing) > 0 {
		return fmt.Errorf("dicttls declares tables the harness does not range over (or the reverse): %v — add them to harness/internal/vtab.DictPairs", missing)
	}
	return nil
}
